import Gp.Lemmas.PcapNgRT8
import Gp.Lemmas.PcapNgPrefix
/-
  Round trip, part 9 (C14): what the expected values mean — timestamps, normalised options — and the
  ideal (property-level) expectation used to state the full round-trip property.
-/
namespace Gp.PcapNg
open Gp.Gen.PcapNg

/-- the written time (UnixNano) as the pair (Unix(), Nanosecond()) -/
def timeOfNanos (ts : Int) : Time := ⟨ts / 1000000000, ts % 1000000000⟩

/-- a written timestamp reads back as the written time plus the interface's TimestampOffset in seconds -/
theorem tsRead_eq (tsoff : Nat) (ts : Int) (h0 : 0 ≤ ts) (h1 : ts < 9223372036854775808)
    (h2 : ts / 1000000000 + tsoff < 9223372036854775808) :
    tsRead tsoff ts = ⟨ts / 1000000000 + tsoff, ts % 1000000000⟩ := by
  have hu : ((ts % 18446744073709551616).toNat : Int) = ts := by omega
  have hsec : toI64 (((ts % 18446744073709551616).toNat / 1000000000 + tsoff) % two64) = ts / 1000000000 + tsoff := by
    simp only [toI64, wrapI64, two64, Int.ofNat_eq_natCast]
    omega
  have hns : toI64 ((ts % 18446744073709551616).toNat % 1000000000 * 1 % two64 / 1) = ts % 1000000000 := by
    simp only [toI64, wrapI64, two64, Int.ofNat_eq_natCast]
    omega
  unfold tsRead
  rw [hsec, hns]
  unfold timeUnix
  rw [if_neg (by omega)]

/-- without a TimestampOffset the time reads back as written -/
theorem tsRead_zero (ts : Int) (h0 : 0 ≤ ts) (h1 : ts < 9223372036854775808) : tsRead 0 ts = timeOfNanos ts := by
  rw [tsRead_eq 0 ts h0 h1 (by omega)]
  simp [timeOfNanos]

/-- option values that are already within the width of their Go types -/
structure CanonOpts (o : PktOpts) : Prop where
  flags : ∀ f, o.flags = some f → f.dir < 4 ∧ f.rcv % 4 = 0 ∧ f.rcv < 32 ∧ f.fcs % 32 = 0 ∧ f.fcs < 1024 ∧
    f.lle % 65536 = 0 ∧ f.lle < 4294967296
  hashes : ∀ h ∈ o.hashes, h.1 < 256
  verdicts : ∀ h ∈ o.verdicts, h.1 < 256
  dropCount : ∀ v, o.dropCount = some v → v < 18446744073709551616
  packetId : ∀ v, o.packetId = some v → v < 18446744073709551616
  queue : ∀ v, o.queue = some v → v < 4294967296

theorem map_mod_id (l : List (Nat × Bytes)) (h : ∀ x ∈ l, x.1 < 256) : l.map (fun h => (h.1 % 256, h.2)) = l := by
  induction l with
  | nil => rfl
  | cons x r ih =>
    have hx := h x (by simp)
    rw [List.map_cons, ih (fun y hy => h y (by simp [hy])), Nat.mod_eq_of_lt hx]

theorem normOpts_canon (o : PktOpts) (h : CanonOpts o) : normOpts o = o := by
  cases o with
  | mk comments flags hashes dropCount packetId queue verdicts =>
    simp only [normOpts, PktOpts.mk.injEq, true_and]
    refine ⟨?_, map_mod_id _ h.hashes, ?_, ?_, ?_, map_mod_id _ h.verdicts⟩
    · cases flags with
      | none => rfl
      | some f =>
        obtain ⟨a, b, c, d, e, g, i⟩ := h.flags f rfl
        cases f with
        | mk dir rcv fcs lle =>
          simp only [Option.map_some, normFlags, Option.some.injEq, Flags.mk.injEq]
          simp only at a b c d e g i
          refine ⟨?_, ?_, ?_, ?_⟩ <;> omega
    · cases dropCount with
      | none => rfl
      | some v => simp only [Option.map_some, Nat.mod_eq_of_lt (h.dropCount v rfl)]
    · cases packetId with
      | none => rfl
      | some v => simp only [Option.map_some, Nat.mod_eq_of_lt (h.packetId v rfl)]
    · cases queue with
      | none => rfl
      | some v => simp only [Option.map_some, Nat.mod_eq_of_lt (h.queue v rfl)]

/-- the packet as WRITTEN: what the property demands the reader to return -/
def idealPkt (cfg : Cfg) (sp : IfaceSpec) (iface : Nat) (ts : Int) (len : Nat) (data : Bytes) (opts : PktOpts) : Pkt :=
  { ci := { iface := iface, ts := timeOfNanos ts, caplen := data.length, len := len },
    ancil := if cfg.mixed then some sp.linkType else none,
    data := data,
    opts := opts }

/-- the returned packet is the written one when the interface has no TimestampOffset, the time is a non-negative
    int64 and the option values are within their types -/
theorem expPkt_ideal (cfg : Cfg) (sp : IfaceSpec) (iface : Nat) (ts : Int) (len : Nat) (data : Bytes) (opts : PktOpts)
    (hoff : sp.tsoff = 0) (h0 : 0 ≤ ts) (h1 : ts < 9223372036854775808) (hc : CanonOpts opts) :
    expPkt cfg sp iface ts len data opts = idealPkt cfg sp iface ts len data opts := by
  unfold expPkt idealPkt
  rw [hoff, tsRead_zero ts h0 h1, normOpts_canon opts hc]

/-- the packets as WRITTEN (what the property demands): those of the interfaces whose packets the reader is documented
    to return — all (WantMixedLinkType) or the ones with the link type of the first interface -/
def idealAll (cfg : Cfg) (lt0 : Nat) : List IfaceSpec → List Item → List Pkt
  | _, [] => []
  | ifs, .iface i :: r => idealAll cfg lt0 (ifs ++ [i]) r
  | ifs, .pkt iface ts len data opts :: r =>
      (match ifs[iface]? with
       | some sp => if cfg.mixed = true ∨ sp.linkType = lt0 then [idealPkt cfg sp iface ts len data opts] else []
       | none => []) ++ idealAll cfg lt0 ifs r
  | ifs, .stats _ _ :: r => idealAll cfg lt0 ifs r
  | ifs, .dsb _ _ :: r => idealAll cfg lt0 ifs r

/-- items without TimestampOffset, with non-negative int64 times and option values within their types -/
def PlainItems : List Item → Prop
  | [] => True
  | .iface i :: r => i.tsoff = 0 ∧ PlainItems r
  | .pkt _ ts _ _ opts :: r => 0 ≤ ts ∧ ts < 9223372036854775808 ∧ CanonOpts opts ∧ PlainItems r
  | .stats _ _ :: r => PlainItems r
  | .dsb _ _ :: r => PlainItems r

theorem expect_ideal (cfg : Cfg) (lt0 : Nat) : ∀ (items : List Item) (ifs : List IfaceSpec), (∀ sp ∈ ifs, sp.tsoff = 0) →
    PlainItems items → expect cfg lt0 ifs items = idealAll cfg lt0 ifs items := by
  intro items
  induction items with
  | nil => intro ifs _ _; rfl
  | cons it r ih =>
    intro ifs hz hp
    cases it with
    | iface i =>
      simp only [expect, idealAll]
      refine ih _ (fun sp hsp => ?_) hp.2
      rcases List.mem_append.mp hsp with h | h
      · exact hz sp h
      · simp only [List.mem_singleton] at h; rw [h]; exact hp.1
    | pkt iface ts len data opts =>
      obtain ⟨h0, h1, hc, hr⟩ := hp
      simp only [expect, idealAll]
      rw [ih ifs hz hr]
      cases hsp : ifs[iface]? with
      | none => rfl
      | some sp =>
        have hmem : sp ∈ ifs := List.mem_of_getElem? hsp
        simp only [expPkt_ideal cfg sp iface ts len data opts (hz sp hmem) h0 h1 hc]
    | stats id st => exact ih ifs hz hp
    | dsb typ payload => exact ih ifs hz hp

/-- well-formed item calls INCLUDING WriteInterfaceStats calls (the part `WfItems` excludes): used to state the
    full round-trip property -/
def WfItemsAll (cfg : Cfg) (lt0 : Nat) : List IfaceSpec → List Item → Prop
  | _, [] => True
  | ifs, .iface i :: r => WfIface i ∧ (writeIDB i).length < 4294967296 ∧ WfItemsAll cfg lt0 (ifs ++ [i]) r
  | ifs, .pkt iface ts len data opts :: r =>
      (∃ sp, ifs[iface]? = some sp ∧ (cfg.mixed = true ∨ sp.linkType = lt0 ∨ cfg.errMismatch = false)) ∧
      iface < 4294967296 ∧ data.length ≤ len ∧
      len < 4294967296 ∧ WfOpts opts ∧ (writeEPB iface ts len data opts).length < 4294967296 ∧ WfItemsAll cfg lt0 ifs r
  | ifs, .stats id st :: r => id < ifs.length ∧ (writeISB id st).length < 4294967296 ∧ WfItemsAll cfg lt0 ifs r
  | ifs, .dsb typ payload :: r =>
      dsbTypeKnown typ = true ∧ (writeDSB typ payload).length < 4294967296 ∧ WfItemsAll cfg lt0 ifs r

theorem wfItemsAll_of_wf (cfg : Cfg) (lt0 : Nat) :
    ∀ (items : List Item) (ifs : List IfaceSpec), WfItems cfg lt0 ifs items → WfItemsAll cfg lt0 ifs items := by
  intro items
  induction items with
  | nil => intro ifs _; trivial
  | cons it r ih =>
    intro ifs hw
    cases it with
    | iface i => exact ⟨hw.1, hw.2.1, ih _ hw.2.2⟩
    | pkt iface ts len data opts =>
      obtain ⟨h1, h2, h3, h4, h5, h6, h7⟩ := hw
      exact ⟨h1, h2, h3, h4, h5, h6, ih _ h7⟩
    | stats id st => exact absurd hw (by simp [WfItems])
    | dsb typ payload => exact ⟨hw.1, hw.2.1, ih _ hw.2.2⟩

/-- well-formed file, WriteInterfaceStats calls admitted -/
structure WfFileAll (cfg : Cfg) (f : FileSpec) : Prop where
  sect : f.sect.app.length < 65536 ∧ f.sect.comment.length < 65536 ∧ f.sect.hardware.length < 65536 ∧ f.sect.os.length < 65536
  shbLen : (writeSHB f.sect).length < 4294967296
  if0 : WfIface f.if0
  if0Len : (writeIDB f.if0).length < 4294967296
  items : WfItemsAll cfg f.if0.linkType [f.if0] f.items

theorem wfFileAll_of_wf {cfg : Cfg} {f : FileSpec} (h : WfFile cfg f) : WfFileAll cfg f :=
  ⟨h.sect, h.shbLen, h.if0, h.if0Len, wfItemsAll_of_wf cfg _ _ _ h.items⟩

/-- a written file never starts with the gzip magic -/
theorem written_not_gzip (f : FileSpec) : ¬ isGzip (writeFile f).1 := by
  have h : ∃ t, (writeFile f).1 = u8 ngBlockTypeSectionHeader :: u8 (ngBlockTypeSectionHeader / 256) :: t := by
    unfold writeFile
    cases writeItems 1 f.items with
    | mk bs errs => exact ⟨_, rfl⟩
  obtain ⟨t, ht⟩ := h
  rw [ht]
  exact shb_not_gzip

end Gp.PcapNg
