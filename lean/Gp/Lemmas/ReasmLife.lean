import Gp.Lemmas.ReasmLimit
/-
  C11 (reassembly half): stream lifecycle — StreamFactory.New, then ReassembledSG*, then
  ReassemblyComplete exactly once, nothing after it — for one connection step (this file) and for all
  histories of the pool model (ReasmLifePool.lean); all inputs, any arithmetic.
-/
set_option linter.unusedSimpArgs false
set_option linter.unusedVariables false
namespace Gp.Reasm
open Gp

theorem life_append (sid : Nat) : ∀ (l1 l2 : List Ev) (s : Life),
    life sid s (l1 ++ l2) = (life sid s l1).bind (fun s' => life sid s' l2)
  | [], l2, s => rfl
  | e :: rest, l2, s => by
    simp only [List.cons_append, life]
    cases lifeStep sid s e with
    | none => rfl
    | some s' => exact life_append sid rest l2 s'

theorem lifeStep_irrelevant {sid : Nat} {e : Ev} (h : e.mentions sid = false) (s : Life) : lifeStep sid s e = some s := by
  simp [lifeStep, h]

theorem life_irrelevant (sid : Nat) : ∀ (l : List Ev) (s : Life), (∀ e ∈ l, Ev.mentions sid e = false) →
    life sid s l = some s
  | [], s, _ => rfl
  | e :: rest, s, h => by
    simp only [life, lifeStep_irrelevant (h e (List.mem_cons_self ..))]
    exact life_irrelevant sid rest s (fun x hx => h x (List.mem_cons_of_mem _ hx))

/-- ScatterGathers of a stream that is alive keep it alive -/
theorem life_sgs (sid c : Nat) (d : Bool) (sgs : List SG) :
    life sid .alive (sgs.map (fun g => Ev.sg c sid d g)) = some .alive := by
  induction sgs with
  | nil => rfl
  | cons g rest ih =>
    simp only [List.map_cons, life, lifeStep, Ev.mentions, decide_true, if_true]
    exact ih

theorem sgs_mentions (sid c s : Nat) (d : Bool) (sgs : List SG) (hne : s ≠ sid) :
    ∀ e ∈ sgs.map (fun g => Ev.sg c s d g), Ev.mentions sid e = false := by
  intro e he
  obtain ⟨g, _, rfl⟩ := List.mem_map.mp he
  simp [Ev.mentions, hne]

/-- once completed, every further callback about the stream is illegal -/
theorem life_done (sid : Nat) : ∀ (l : List Ev) (s : Life), life sid .done l = some s →
    s = .done ∧ ∀ e ∈ l, Ev.mentions sid e = false
  | [], s, h => by
    simp only [life, Option.some.injEq] at h
    exact ⟨h.symm, by simp⟩
  | e :: rest, s, h => by
    simp only [life] at h
    cases hm : e.mentions sid with
    | true =>
      simp only [lifeStep, hm, if_true] at h
      cases e <;> simp at h
    | false =>
      rw [lifeStep_irrelevant hm] at h
      obtain ⟨h1, h2⟩ := life_done sid rest s h
      refine ⟨h1, ?_⟩
      intro x hx
      rcases List.mem_cons.mp hx with rfl | hx
      · exact hm
      · exact h2 x hx

/-- a stream that is alive never becomes fresh again -/
theorem life_alive_ne_fresh (sid : Nat) : ∀ (l : List Ev) (s : Life), life sid .alive l = some s → s ≠ .fresh
  | [], s, hs => by simp only [life, Option.some.injEq] at hs; subst hs; simp
  | e :: rest, s, hs => by
    simp only [life] at hs
    cases hm : e.mentions sid with
    | true =>
      simp only [lifeStep, hm, if_true] at hs
      cases e with
      | created _ _ => simp at hs
      | sg _ _ _ _ => simp only at hs; exact life_alive_ne_fresh sid rest s hs
      | done _ _ _ =>
        simp only at hs
        intro hc
        have := (life_done sid rest s hs).1
        rw [this] at hc; cases hc
    | false => rw [lifeStep_irrelevant hm] at hs; exact life_alive_ne_fresh sid rest s hs

/-- a stream that was never created has no callbacks at all -/
theorem life_fresh (sid : Nat) : ∀ (l : List Ev), life sid .fresh l = some .fresh →
    ∀ e ∈ l, Ev.mentions sid e = false
  | [], _ => by simp
  | e :: rest, h => by
    simp only [life] at h
    cases hm : e.mentions sid with
    | true =>
      exfalso
      simp only [lifeStep, hm, if_true] at h
      cases e with
      | created c s => simp only at h; exact life_alive_ne_fresh sid rest _ h rfl
      | sg _ _ _ _ => simp at h
      | done _ _ _ => simp at h
    | false =>
      rw [lifeStep_irrelevant hm] at h
      intro x hx
      rcases List.mem_cons.mp hx with rfl | hx
      · exact hm
      · exact life_fresh sid rest h x hx

theorem or_decide3 (a b : Bool) (P : Prop) [Decidable P] : (a || b || decide P) = decide (a = true ∨ b = true ∨ P) := by
  cases a <;> cases b <;> simp
theorem or_decide2 (a b : Bool) : (a || b) = decide (a = true ∨ b = true) := by
  cases a <;> cases b <;> simp

theorem completion_evs (c : Conn) (closedNow : Bool) (cmpl : CmplRule) :
    (completion c closedNow cmpl).1 = (if closedNow ∧ c.c2s.closed ∧ c.s2c.closed then [Ev.done c.id c.sid (cmpl.answer c.id)] else []) ∧
    ((completion c closedNow cmpl).2 = true → closedNow = true ∧ c.c2s.closed = true ∧ c.s2c.closed = true) ∧
    ((closedNow = true ∧ c.c2s.closed = true ∧ c.s2c.closed = true) → (completion c closedNow cmpl).2 = cmpl.answer c.id) := by
  unfold completion
  split
  · rename_i h; exact ⟨rfl, fun _ => h, fun _ => rfl⟩
  · rename_i h; exact ⟨rfl, fun h' => (by cases h'), fun h' => absurd h' h⟩

/-- what one step does to ONE connection, seen by its stream: `evs` are the callbacks, `c'` the connection afterwards -/
structure ConnLife (c : Conn) (evs : List Ev) (c' : Conn) (removed : Bool) : Prop where
  sid : c'.sid = c.sid ∧ c'.id = c.id
  only : ∀ s, s ≠ c.sid → ∀ e ∈ evs, Ev.mentions s e = false
  scan : life c.sid (Life.ofDone c.done) evs = some (Life.ofDone c'.done)
  rem : removed = true → c'.done = true
  /-- a connection that is finished and stays in the pool: its stream refused the removal -/
  refused : c'.done = true → removed = false → c.done = true ∨ Ev.done c.id c.sid false ∈ evs
  /-- completion happens only in the step that closes the second direction -/
  nodone : c'.done = c.done → ∀ e ∈ evs, ∀ k s a, e ≠ Ev.done k s a

/-- a step on one half connection followed by the completion check -/
theorem half_step_life (c : Conn) (b : Bool) (o : Out) (cmpl : CmplRule) {u : Int}
    (ac : Acct (c.half b) u o) (hquiet : (c.half b).closed = true → o.sgs = []) :
    ConnLife c (o.sgs.map (fun g => Ev.sg c.id c.sid (!b) g) ++ (completion (c.setHalf b o.half) o.closed cmpl).1)
      (c.setHalf b o.half) (completion (c.setHalf b o.half) o.closed cmpl).2 := by
  have hsid : (c.setHalf b o.half).sid = c.sid ∧ (c.setHalf b o.half).id = c.id := by
    cases b <;> simp [Conn.setHalf]
  obtain ⟨hcev, hcrem, hcans⟩ := completion_evs (c.setHalf b o.half) o.closed cmpl
  -- closed flags of the new connection
  have hother : (c.setHalf b o.half).done = (o.half.closed && (c.half (!b)).closed) := by
    cases b <;> simp [Conn.setHalf, Conn.half, Conn.done, Bool.and_comm]
  have hcdone : c.done = ((c.half b).closed && (c.half (!b)).closed) := by
    cases b <;> simp [Conn.half, Conn.done, Bool.and_comm]
  have hsgs_nodone : ∀ e ∈ o.sgs.map (fun g => Ev.sg c.id c.sid (!b) g), ∀ k s a, e ≠ Ev.done k s a := by
    intro e he k s a
    obtain ⟨g, _, rfl⟩ := List.mem_map.mp he
    simp
  by_cases hd : c.done = true
  · -- already completed: the half is closed, nothing is delivered, nothing completes again
    have hcl : (c.half b).closed = true := by rw [hcdone] at hd; simp at hd; exact hd.1
    have hq := ac.quiet hcl
    have hev : (completion (c.setHalf b o.half) o.closed cmpl).1 = [] := by
      rw [hcev, hq.1]; simp
    have hd' : (c.setHalf b o.half).done = true := by rw [hother, ac.closedF hq.1, ← hcdone, hd]
    refine { sid := hsid, only := ?_, scan := ?_, rem := fun _ => hd', refused := fun _ _ => Or.inl hd, nodone := ?_ }
    · intro s hs e he
      rw [hquiet hcl, hev] at he; simp at he
    · rw [hquiet hcl, hev, hd, hd']; rfl
    · intro _ e he
      rw [hquiet hcl, hev] at he; simp at he
  · have hd' : c.done = false := by simpa using hd
    by_cases hc : o.closed = true ∧ (c.setHalf b o.half).c2s.closed = true ∧ (c.setHalf b o.half).s2c.closed = true
    · -- both directions are closed now: ReassemblyComplete
      have hdn : (c.setHalf b o.half).done = true := by simp only [Conn.done, hc.2.1, hc.2.2, Bool.and_self]
      rw [hcev, if_pos hc]
      refine { sid := hsid, only := ?_, scan := ?_, rem := fun _ => hdn, refused := ?_, nodone := ?_ }
      · intro s hs e he
        rcases List.mem_append.mp he with he | he
        · exact sgs_mentions s c.id c.sid _ o.sgs (Ne.symm hs) e he
        · simp only [List.mem_singleton] at he
          subst he
          simp [Ev.mentions, hsid.1, Ne.symm hs]
      · rw [life_append, hd', hdn]
        simp only [Life.ofDone, Bool.false_eq_true, if_false, if_true, life_sgs, Option.bind]
        simp [life, lifeStep, Ev.mentions, hsid.1]
      · intro _ hr
        right
        have := hcans hc
        rw [hr] at this
        rw [← this, hsid.1, hsid.2]
        exact List.mem_append_right _ (List.mem_singleton.mpr rfl)
      · intro he; rw [hdn, hd'] at he; cases he
    · -- not completed now: either nothing was closed, or the other direction is still open
      have hdn : (c.setHalf b o.half).done = false := by
        cases hoc : o.closed with
        | false => rw [hother, ac.closedF hoc, ← hcdone, hd']
        | true =>
          have : ¬ ((c.setHalf b o.half).c2s.closed = true ∧ (c.setHalf b o.half).s2c.closed = true) := fun h => hc ⟨hoc, h⟩
          simp only [Conn.done]
          cases h1 : (c.setHalf b o.half).c2s.closed <;> cases h2 : (c.setHalf b o.half).s2c.closed <;> simp_all
      have hrem : (completion (c.setHalf b o.half) o.closed cmpl).2 = false := by
        cases hr : (completion (c.setHalf b o.half) o.closed cmpl).2 with
        | false => rfl
        | true => exact absurd (hcrem hr) hc
      rw [hcev, if_neg hc, List.append_nil]
      refine { sid := hsid, only := ?_, scan := ?_, rem := ?_, refused := ?_, nodone := fun _ => hsgs_nodone }
      · intro s hs e he
        exact sgs_mentions s c.id c.sid _ o.sgs (Ne.symm hs) e he
      · rw [hd', hdn]
        exact life_sgs _ _ _ _
      · intro hr; rw [hrem] at hr; cases hr
      · intro hdt; rw [hdn] at hdt; cases hdt

theorem ConnLife.refl (c : Conn) : ConnLife c [] c false :=
  { sid := ⟨rfl, rfl⟩, only := fun _ _ e he => by simp at he, scan := rfl, rem := (fun h => by cases h),
    refused := fun h _ => Or.inl h, nodone := fun _ e he => by simp at he }

theorem ofDone_true_of_life {sid : Nat} {l : List Ev} {b : Bool} (h : life sid (Life.ofDone true) l = some (Life.ofDone b)) :
    b = true := by
  have := (life_done sid l _ h).1
  cases b
  · simp [Life.ofDone] at this
  · rfl

theorem ConnLife.trans {c c1 c2 : Conn} {e1 e2 : List Ev} {r1 r2 : Bool} (h1 : ConnLife c e1 c1 r1)
    (h2 : ConnLife c1 e2 c2 r2) (extra : Bool) (hx : extra = true → c2.done = true) :
    ConnLife c (e1 ++ e2) c2 (r1 || r2 || extra) where
  sid := ⟨by rw [h2.sid.1, h1.sid.1], by rw [h2.sid.2, h1.sid.2]⟩
  only := fun s hs e he => by
    rcases List.mem_append.mp he with he | he
    · exact h1.only s hs e he
    · exact h2.only s (by rw [h1.sid.1]; exact hs) e he
  scan := by
    rw [life_append, h1.scan]
    simp only [Option.bind]
    have := h2.scan
    rw [h1.sid.1] at this
    exact this
  rem := fun hr => by
    simp only [Bool.or_eq_true] at hr
    rcases hr with (hr | hr) | hr
    · have hd1 := h1.rem hr
      have := h2.scan
      rw [hd1] at this
      exact ofDone_true_of_life this
    · exact h2.rem hr
    · exact hx hr
  refused := fun hd hr => by
    simp only [Bool.or_eq_false_iff] at hr
    rcases h2.refused hd hr.1.2 with h | h
    · rcases h1.refused h hr.1.1 with h' | h'
      · exact Or.inl h'
      · exact Or.inr (List.mem_append_left _ h')
    · rw [h1.sid.1, h1.sid.2] at h
      exact Or.inr (List.mem_append_right _ h)
  nodone := fun hd e he k s a => by
    -- done flags only go up: c.done ≤ c1.done ≤ c2.done
    have hmono1 : c.done = true → c1.done = true := fun h => by
      have := h1.scan; rw [h] at this; exact ofDone_true_of_life this
    have hmono2 : c1.done = true → c2.done = true := fun h => by
      have := h2.scan; rw [h] at this; exact ofDone_true_of_life this
    have e1' : c1.done = c.done := by
      cases hc : c.done with
      | true => exact hmono1 hc
      | false =>
        cases hc1 : c1.done with
        | false => rfl
        | true => have := hmono2 hc1; rw [hd, hc] at this; cases this
    rcases List.mem_append.mp he with he | he
    · exact h1.nodone e1' e he k s a
    · exact h2.nodone (by rw [hd, e1']) e he k s a

/-! ### the three entry points, one connection -/

theorem setHalf_false (c : Conn) (h : Half) : c.setHalf false h = { c with s2c := h } := by simp [Conn.setHalf]
theorem setHalf_true (c : Conn) (h : Half) : c.setHalf true h = { c with c2s := h } := by simp [Conn.setHalf]

/-- AssembleWithContext on the connection `c` -/
theorem assemble_life (A : Arith) (cfg : Cfg) (c : Conn) (b : Bool) (used : Int) (p : Seg) (acc : Nat) (keep : KeepRule)
    (cmpl : CmplRule) (o : Out) (ha : assemble A cfg (c.half b) used p acc keep = .ok o) :
    ConnLife c (o.sgs.map (fun g => Ev.sg c.id c.sid (!b) g) ++ (completion (c.setHalf b o.half) o.closed cmpl).1)
      (c.setHalf b o.half) (completion (c.setHalf b o.half) o.closed cmpl).2 :=
  half_step_life c b o cmpl (assemble_acct A cfg _ used p acc keep o ha)
    (fun hc => assemble_quiet A cfg _ used p acc keep o hc ha)

/-- body of the FlushWithOptions loop -/
theorem flushConn_life (A : Arith) (c : Conn) (used : Int) (t tc : Int) (keep : KeepRule) (cmpl : CmplRule) (o : ConnOut)
    (h : flushConn A c used t tc keep cmpl = .ok o) : ConnLife c o.evs o.conn o.removed := by
  unfold flushConn at h
  split at h
  · rename_i o1 h1
    have l1 := half_step_life c false o1 cmpl (flushClose_acct A c.s2c used t tc _ keep o1 h1)
      (fun hc => flushClose_quiet A c.s2c used t tc _ keep o1 hc h1)
    rw [setHalf_false] at l1
    simp only at h
    split at h
    · rename_i o2 h2
      have l2 := half_step_life { c with s2c := o1.half } true o2 cmpl
        (flushClose_acct A c.c2s o1.used t tc _ keep o2 h2)
        (fun hc => flushClose_quiet A c.c2s o1.used t tc _ keep o2 hc h2)
      rw [setHalf_true] at l2
      obtain rfl := Res.ok.inj h
      have := ConnLife.trans l1 l2
        (decide (o1.half.closed = true ∧ o2.half.closed = true ∧ o1.half.lastSeen < tc ∧ o2.half.lastSeen < tc))
        (fun hx => by
          simp only [decide_eq_true_eq] at hx
          simp only [Conn.done, hx.1, hx.2.1, Bool.and_self])
      simp only [Bool.not_false, Bool.not_true, List.append_assoc] at this ⊢
      rw [or_decide3] at this
      exact this
    · cases h
    · cases h
  · cases h
  · cases h

/-- body of the FlushAll loop -/
theorem flushAllConn_life (A : Arith) (c : Conn) (used : Int) (keep : KeepRule) (cmpl : CmplRule) (o : ConnOut)
    (h : flushAllConn A c used keep cmpl = .ok o) : ConnLife c o.evs o.conn o.removed := by
  unfold flushAllConn at h
  split at h
  · rename_i o1 h1
    have l1 := half_step_life c false o1 cmpl (flushAllHalf_acct A c.s2c used keep o1 h1).1
      (fun hc => flushAllHalf_quiet A c.s2c used keep o1 hc h1)
    rw [setHalf_false] at l1
    simp only at h
    split at h
    · rename_i o2 h2
      have l2 := half_step_life { c with s2c := o1.half } true o2 cmpl
        (flushAllHalf_acct A c.c2s o1.used keep o2 h2).1
        (fun hc => flushAllHalf_quiet A c.c2s o1.used keep o2 hc h2)
      rw [setHalf_true] at l2
      obtain rfl := Res.ok.inj h
      have := ConnLife.trans l1 l2 false (fun hx => by cases hx)
      simp only [Bool.not_false, Bool.not_true, List.append_assoc, Bool.or_false] at this ⊢
      rw [or_decide2] at this
      exact this
    · cases h
    · cases h
  · cases h
  · cases h

end Gp.Reasm
