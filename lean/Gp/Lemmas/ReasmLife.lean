import Gp.Lemmas.ReasmLimit
/-
  C11 (reassembly half): stream lifecycle — ReassemblyComplete exactly once, no data after it — for all
  histories of the pool model, all inputs, any arithmetic.
-/
set_option linter.unusedSimpArgs false
set_option linter.unusedVariables false
namespace Gp.Reasm
open Gp

/-- does the callback concern stream `sid` (data or completion)? -/
def Ev.about (sid : Nat) : Ev → Bool
  | .created _ _ => false
  | .sg _ s _ _ => s = sid
  | .done _ s _ => s = sid

theorem lifeScan_append (sid : Nat) : ∀ (l1 l2 : List Ev) (b : Bool),
    lifeScan sid b (l1 ++ l2) = (lifeScan sid b l1).bind (fun b' => lifeScan sid b' l2)
  | [], l2, b => rfl
  | e :: rest, l2, b => by
    cases e with
    | created c s => simp only [List.cons_append, lifeScan]; exact lifeScan_append sid rest l2 b
    | sg c s d g =>
      simp only [List.cons_append, lifeScan]
      split
      · split
        · rfl
        · exact lifeScan_append sid rest l2 b
      · exact lifeScan_append sid rest l2 b
    | done c s a =>
      simp only [List.cons_append, lifeScan]
      split
      · split
        · rfl
        · exact lifeScan_append sid rest l2 true
      · exact lifeScan_append sid rest l2 b

theorem lifeScan_irrelevant (sid : Nat) : ∀ (l : List Ev) (b : Bool), (∀ e ∈ l, Ev.about sid e = false) →
    lifeScan sid b l = some b
  | [], b, _ => rfl
  | e :: rest, b, h => by
    have he := h e (List.mem_cons_self ..)
    have hr := lifeScan_irrelevant sid rest b (fun x hx => h x (List.mem_cons_of_mem _ hx))
    cases e with
    | created c s => simp only [lifeScan]; exact hr
    | sg c s d g =>
      simp only [Ev.about, decide_eq_false_iff_not] at he
      simp only [lifeScan, he, if_false]; exact hr
    | done c s a =>
      simp only [Ev.about, decide_eq_false_iff_not] at he
      simp only [lifeScan, he, if_false]; exact hr

/-- ScatterGathers of a stream that is not completed keep it not completed -/
theorem lifeScan_sgs (sid c : Nat) (d : Bool) (sgs : List SG) :
    lifeScan sid false (sgs.map (fun g => Ev.sg c sid d g)) = some false := by
  induction sgs with
  | nil => rfl
  | cons g rest ih => simp only [List.map_cons, lifeScan, if_true, Bool.false_eq_true, if_false]; exact ih

theorem sgs_about (sid c s : Nat) (d : Bool) (sgs : List SG) (hne : s ≠ sid) :
    ∀ e ∈ sgs.map (fun g => Ev.sg c s d g), Ev.about sid e = false := by
  intro e he
  obtain ⟨g, _, rfl⟩ := List.mem_map.mp he
  simp [Ev.about, hne]

theorem completion_evs (c : Conn) (closedNow : Bool) (cmpl : CmplRule) :
    (completion c closedNow cmpl).1 = (if closedNow ∧ c.c2s.closed ∧ c.s2c.closed then [Ev.done c.id c.sid (cmpl.answer c.id)] else []) ∧
    ((completion c closedNow cmpl).2 = true → closedNow = true ∧ c.c2s.closed = true ∧ c.s2c.closed = true) := by
  unfold completion
  split
  · rename_i h; exact ⟨rfl, fun _ => h⟩
  · exact ⟨rfl, fun h => by cases h⟩

/-- what one step does to ONE connection, seen by its stream: `evs` are the callbacks, `c'` the connection afterwards -/
structure ConnLife (c : Conn) (evs : List Ev) (c' : Conn) (removed : Bool) : Prop where
  sid : c'.sid = c.sid ∧ c'.id = c.id
  only : ∀ s, s ≠ c.sid → ∀ e ∈ evs, Ev.about s e = false
  scan : lifeScan c.sid c.done evs = some c'.done
  rem : removed = true → c'.done = true

/-- a step on one half connection followed by the completion check -/
theorem half_step_life (c : Conn) (b : Bool) (o : Out) (cmpl : CmplRule) {u : Int}
    (ac : Acct (c.half b) u o) (hquiet : (c.half b).closed = true → o.sgs = []) :
    ConnLife c (o.sgs.map (fun g => Ev.sg c.id c.sid (!b) g) ++ (completion (c.setHalf b o.half) o.closed cmpl).1)
      (c.setHalf b o.half) (completion (c.setHalf b o.half) o.closed cmpl).2 := by
  have hsid : (c.setHalf b o.half).sid = c.sid ∧ (c.setHalf b o.half).id = c.id := by
    cases b <;> simp [Conn.setHalf]
  obtain ⟨hcev, hcrem⟩ := completion_evs (c.setHalf b o.half) o.closed cmpl
  -- closed flags of the new connection
  have hother : (c.setHalf b o.half).done = (o.half.closed && (c.half (!b)).closed) := by
    cases b <;> simp [Conn.setHalf, Conn.half, Conn.done, Bool.and_comm]
  have hcdone : c.done = ((c.half b).closed && (c.half (!b)).closed) := by
    cases b <;> simp [Conn.half, Conn.done, Bool.and_comm]
  refine { sid := hsid, only := ?_, scan := ?_, rem := ?_ }
  · intro s hs e he
    rcases List.mem_append.mp he with he | he
    · exact sgs_about s c.id c.sid _ o.sgs (Ne.symm hs) e he
    · rw [hcev] at he
      split at he
      · simp only [List.mem_singleton] at he
        subst he
        simp [Ev.about, hsid.1, Ne.symm hs]
      · simp at he
  · rw [lifeScan_append]
    by_cases hd : c.done = true
    · -- already completed: the half is closed, nothing is delivered, nothing completes again
      have hcl : (c.half b).closed = true := by rw [hcdone] at hd; simp at hd; exact hd.1
      have hq := ac.quiet hcl
      rw [hquiet hcl, hd]
      simp only [List.map_nil, lifeScan, Option.bind]
      rw [hcev, hq.1]
      simp only [Bool.false_eq_true, false_and, if_false, lifeScan]
      rw [hother, ac.closedF hq.1, ← hcdone, hd]
    · have hd' : c.done = false := by simpa using hd
      rw [hd', lifeScan_sgs]
      simp only [Option.bind]
      rw [hcev]
      by_cases hc : o.closed = true ∧ (c.setHalf b o.half).c2s.closed = true ∧ (c.setHalf b o.half).s2c.closed = true
      · rw [if_pos hc]
        simp only [lifeScan, hsid.1, if_true, Bool.false_eq_true, if_false]
        simp only [Conn.done, hc.2.1, hc.2.2, Bool.and_self]
      · rw [if_neg hc]
        simp only [lifeScan]
        -- not completed now: either nothing was closed, or the other direction is still open
        congr 1
        cases hoc : o.closed with
        | false =>
          rw [hother, ac.closedF hoc, ← hcdone, hd']
        | true =>
          have : ¬ ((c.setHalf b o.half).c2s.closed = true ∧ (c.setHalf b o.half).s2c.closed = true) := fun h => hc ⟨hoc, h⟩
          simp only [Conn.done]
          cases h1 : (c.setHalf b o.half).c2s.closed <;> cases h2 : (c.setHalf b o.half).s2c.closed <;> simp_all
  · intro hr
    have := hcrem hr
    simp only [Conn.done, this.2.1, this.2.2, Bool.and_self]

theorem lifeScan_true (sid : Nat) : ∀ (l : List Ev) (b : Bool), lifeScan sid true l = some b → b = true
  | [], b, h => by simp only [lifeScan, Option.some.injEq] at h; exact h.symm
  | e :: rest, b, h => by
    cases e with
    | created c s => simp only [lifeScan] at h; exact lifeScan_true sid rest b h
    | sg c s d g =>
      simp only [lifeScan] at h
      split at h
      · simp at h
      · exact lifeScan_true sid rest b h
    | done c s a =>
      simp only [lifeScan] at h
      split at h
      · simp at h
      · exact lifeScan_true sid rest b h

theorem ConnLife.refl (c : Conn) : ConnLife c [] c false :=
  { sid := ⟨rfl, rfl⟩, only := fun _ _ e he => by simp at he, scan := rfl, rem := fun h => by cases h }

theorem ConnLife.trans {c c1 c2 : Conn} {e1 e2 : List Ev} {r1 r2 : Bool} (h1 : ConnLife c e1 c1 r1)
    (h2 : ConnLife c1 e2 c2 r2) (extra : Bool) (hx : extra = true → c2.done = true) :
    ConnLife c (e1 ++ e2) c2 (r1 || r2 || extra) where
  sid := ⟨by rw [h2.sid.1, h1.sid.1], by rw [h2.sid.2, h1.sid.2]⟩
  only := fun s hs e he => by
    rcases List.mem_append.mp he with he | he
    · exact h1.only s hs e he
    · exact h2.only s (by rw [h1.sid.1]; exact hs) e he
  scan := by
    rw [lifeScan_append, h1.scan]
    simp only [Option.bind]
    have := h2.scan
    rw [h1.sid.1] at this
    exact this
  rem := fun hr => by
    simp only [Bool.or_eq_true] at hr
    rcases hr with (hr | hr) | hr
    · have hd1 := h1.rem hr
      have := h2.scan
      rw [hd1] at this
      exact lifeScan_true _ _ _ this
    · exact h2.rem hr
    · exact hx hr

/-! ### the pool -/

/-- stream ids are fresh and identify the connection -/
structure SInv (st : St) : Prop where
  lt : ∀ c ∈ st.conns, c.sid < st.nextSid
  inj : ∀ c ∈ st.conns, ∀ d ∈ st.conns, c.sid = d.sid → c.id = d.id

theorem findSid_some {sid : Nat} {l : List Conn} {c : Conn} (h : findSid sid l = some c) : c ∈ l ∧ c.sid = sid := by
  induction l with
  | nil => simp [findSid] at h
  | cons d rest ih =>
    simp only [findSid] at h
    split at h
    · obtain rfl := Option.some.inj h
      rename_i hd; exact ⟨List.mem_cons_self .., hd⟩
    · obtain ⟨a, b⟩ := ih h; exact ⟨List.mem_cons_of_mem _ a, b⟩

theorem findSid_none {sid : Nat} {l : List Conn} (h : findSid sid l = none) : ∀ c ∈ l, c.sid ≠ sid := by
  induction l with
  | nil => intro c hc; simp at hc
  | cons d rest ih =>
    simp only [findSid] at h
    split at h
    · cases h
    · rename_i hd
      intro c hc
      rcases List.mem_cons.mp hc with rfl | hc
      · exact hd
      · exact ih h c hc

/-- with identifying stream ids, `findSid` finds exactly the member with that id -/
theorem findSid_mem {sid : Nat} {l : List Conn} {c : Conn} (hids : IdsOK l)
    (hinj : ∀ a ∈ l, ∀ b ∈ l, a.sid = b.sid → a.id = b.id) (hc : c ∈ l) (hs : c.sid = sid) : findSid sid l = some c := by
  induction l with
  | nil => simp at hc
  | cons d rest ih =>
    have hidc := List.pairwise_cons.mp hids
    simp only [findSid]
    rcases List.mem_cons.mp hc with rfl | hc
    · rw [if_pos hs]
    · have hne : ¬ d.sid = sid := by
        intro hd
        have := hinj d (List.mem_cons_self ..) c (List.mem_cons_of_mem _ hc) (by rw [hd, hs])
        have := hidc.1 c hc
        omega
      rw [if_neg hne]
      exact ih hidc.2 (fun a ha b hb => hinj a (List.mem_cons_of_mem _ ha) b (List.mem_cons_of_mem _ hb)) hc

/-- `completed` depends only on the connection (if any) that carries the stream -/
theorem completed_eq_of {st st' : St} {sid : Nat}
    (hn : (decide (sid < st.nextSid)) = (decide (sid < st'.nextSid)))
    (hf : doneOpt (findSid sid st.conns) = doneOpt (findSid sid st'.conns)) :
    completed st sid = completed st' sid := by
  unfold completed
  rw [hn, hf]

end Gp.Reasm
