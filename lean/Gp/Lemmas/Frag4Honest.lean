/-
  Helper lemmas for C13 (engine frag4), part 4: the fragments of ONE well-formed datagram
  (`Family`) arriving in any order with duplicates.  Invariant `FLInv`: the stored list is the
  family filtered by "already seen", `Current` is the sum of the stored payload lengths,
  `Highest` the largest end offset, `FinalReceived` says whether the last piece is stored.
-/
import Gp.Lemmas.Frag4Safe

namespace Gp.Frag4
open Gp.Gen.Frag

/-- `F` is the list of fragments (in offset order) of one datagram with `T` payload bytes. -/
structure Family (F : List Frag) (T : Nat) : Prop where
  good : ∀ f ∈ F, f.byteOff = f.off * 8 ∧ f.consistent ∧ 0 < f.payload.length ∧ f.endOff ≤ T ∧
          securityChecks f = true ∧ dontDefrag f = false ∧ f.ihl * 4 + T ≤ 65535
  sorted : F.Pairwise (fun a b => a.endOff ≤ b.byteOff)
  contig : Contig 0 F
  finalEnd : ∀ f ∈ F, f.mf = false → f.endOff = T
  hasFinal : ∃ f ∈ F, f.mf = false
  total : sumLen F = T
  small : T ≤ 65535
  short : F.length + 1 ≤ 8192

def FLInv (F : List Frag) (p : Frag → Bool) (fl : FL) : Prop :=
  fl.list = F.filter p ∧ fl.current = sumLen (F.filter p) ∧ fl.highest = maxEnd (F.filter p) ∧
  fl.final = (F.filter p).any (fun g => !g.mf)

theorem flinv_empty (F : List Frag) (p : Frag → Bool) (hp : ∀ g ∈ F, p g = false) : FLInv F p {} := by
  have : F.filter p = [] := List.filter_eq_nil_iff.2 (fun g hg => by simp [hp g hg])
  simp [FLInv, this, sumLen, maxEnd]

section
variable {F : List Frag} {T : Nat} (fam : Family F T)
include fam

theorem fam_off_lt (a b : Frag) (ha : a ∈ F) (hb : b ∈ F) (h : a.endOff ≤ b.byteOff) : a.off < b.off := by
  obtain ⟨ha1, _, ha3, _⟩ := fam.good a ha
  obtain ⟨hb1, _⟩ := fam.good b hb
  unfold Frag.endOff at h
  omega

theorem fam_srt : Srt F := by
  have := fam.sorted
  unfold Srt
  apply List.Pairwise.imp_of_mem _ this
  intro a b ha hb h
  exact fam_off_lt fam a b ha hb h

theorem fam_nodup : F.Nodup := by
  have := fam_srt fam
  unfold Srt at this
  exact this.imp (fun h e => by subst e; omega)

theorem fam_filter_srt (p : Frag → Bool) : Srt (F.filter p) := (fam_srt fam).filter p

theorem fam_ne_off (a b : Frag) (ha : a ∈ F) (hb : b ∈ F) (hne : a ≠ b) : a.off ≠ b.off := by
  rcases pairwise_trichotomy F (fam_srt fam) a b ha hb with e | h | h
  · exact absurd e hne
  · omega
  · omega

theorem fam_endOff (f : Frag) (hf : f ∈ F) : u16 (f.byteOff + f.fragLength) = f.endOff ∧ f.endOff ≤ 65535 := by
  obtain ⟨_, ⟨_, h2⟩, _, h4, _⟩ := fam.good f hf
  have := fam.small
  unfold Frag.endOff at *
  unfold u16; rw [h2]; omega

theorem place_dup (p : Frag → Bool) (fl : FL) (inv : FLInv F p fl) (f : Frag) (hf : f ∈ F) (hp : p f = true) :
    place fl f = none := by
  obtain ⟨hl, _, hh, _⟩ := inv
  have hmem : f ∈ fl.list := by rw [hl]; exact List.mem_filter.2 ⟨hf, hp⟩
  have hle := le_maxEnd _ f (hl ▸ hmem)
  obtain ⟨_, _, hpos, _⟩ := fam.good f hf
  unfold place
  have : ¬ f.byteOff ≥ fl.highest := by rw [hh]; unfold Frag.endOff at hle; omega
  simp only [this, if_false]
  rw [insLoop_dup fl.list f (hl ▸ fam_filter_srt fam p) hmem]

omit fam in
theorem filter_add_mem (p : Frag → Bool) (f : Frag) (hf : f ∈ F) (x : Frag) :
    x ∈ F.filter (fun g => p g || decide (g = f)) ↔ x = f ∨ x ∈ F.filter p := by
  simp only [List.mem_filter, Bool.or_eq_true, decide_eq_true_eq]
  constructor
  · rintro ⟨hx, h | h⟩
    · exact Or.inr ⟨hx, h⟩
    · exact Or.inl h
  · rintro (h | ⟨hx, h⟩)
    · exact ⟨h ▸ hf, Or.inr h⟩
    · exact ⟨hx, Or.inl h⟩

theorem place_new (p : Frag → Bool) (fl : FL) (inv : FLInv F p fl) (f : Frag) (hf : f ∈ F) (hp : p f = false) :
    place fl f = some (F.filter (fun g => p g || decide (g = f))) := by
  obtain ⟨hl, _, hh, _⟩ := inv
  have hsrt := fam_filter_srt fam p
  have hsrt' := fam_filter_srt fam (fun g => p g || decide (g = f))
  obtain ⟨hf1, _, hfpos, _⟩ := fam.good f hf
  have hne : ∀ g ∈ F.filter p, g ≠ f := by
    intro g hg e
    have := (List.mem_filter.1 hg).2
    rw [e, hp] at this; cases this
  unfold place
  by_cases hge : f.byteOff ≥ fl.highest
  · simp only [hge, if_true, hl]
    congr 1
    apply srt_ext _ _ _ hsrt'
    · intro x
      rw [filter_add_mem p f hf x, List.mem_append, List.mem_singleton]
      exact Or.comm
    · unfold Srt
      rw [List.pairwise_append]
      refine ⟨hsrt, List.pairwise_singleton _ _, ?_⟩
      intro a ha b hb
      rw [List.mem_singleton] at hb; subst hb
      have ha' := (List.mem_filter.1 ha).1
      have hle := le_maxEnd _ a ha
      rw [← hh] at hle
      exact fam_off_lt fam a b ha' hf (by omega)
  · simp only [hge, if_false, hl]
    have hex : ∃ g ∈ F.filter p, f.off < g.off := by
      obtain ⟨g, hg, hlt⟩ := lt_maxEnd (F.filter p) f.byteOff (by rw [← hh]; omega)
      have hg' := (List.mem_filter.1 hg).1
      refine ⟨g, hg, ?_⟩
      rcases pairwise_trichotomy F fam.sorted g f hg' hf with e | h | h
      · exact absurd e (hne g hg)
      · omega
      · exact fam_off_lt fam f g hf hg' h
    obtain ⟨l', he, hs', hm⟩ := insLoop_ins (F.filter p) f hsrt
      (fun g hg => fam_ne_off fam g f (List.mem_filter.1 hg).1 hf (hne g hg)) hex
    rw [he]
    show some l' = some _
    congr 1
    apply srt_ext _ _ hs' hsrt'
    intro x
    rw [filter_add_mem p f hf x, hm x]

theorem upd_inv (p : Frag → Bool) (fl : FL) (inv : FLInv F p fl) (f : Frag) (hf : f ∈ F) (hp : p f = false)
    (t : Int) :
    FLInv F (fun g => p g || decide (g = f)) (fl.upd (F.filter (fun g => p g || decide (g = f))) f t) := by
  obtain ⟨_, hc, hh, hfin⟩ := inv
  obtain ⟨_, ⟨_, hfl⟩, _, _, _⟩ := fam.good f hf
  obtain ⟨he, _⟩ := fam_endOff fam f hf
  have hadd := sumLen_filter_add F p f (fam_nodup fam) hf hp
  have hle := sumLen_filter_le F (fun g => p g || decide (g = f))
  have htot := fam.total
  have hsmall := fam.small
  have hmax : maxEnd (F.filter (fun g => p g || decide (g = f))) = max f.endOff (maxEnd (F.filter p)) := by
    rw [show max f.endOff (maxEnd (F.filter p)) = maxEnd (f :: F.filter p) from rfl]
    apply maxEnd_congr
    intro x
    rw [filter_add_mem p f hf x, List.mem_cons]
  refine ⟨rfl, ?_, ?_, ?_⟩
  · show u16 (fl.current + f.fragLength) = _
    rw [hadd, hc, hfl]; unfold u16; omega
  · show (if fl.highest < u16 (f.byteOff + f.fragLength) then u16 (f.byteOff + f.fragLength) else fl.highest) = _
    rw [he, hmax, hh]
    split <;> omega
  · show (fl.final || !f.mf) = _
    rw [hfin, Bool.eq_iff_iff]
    simp only [Bool.or_eq_true, List.any_eq_true]
    constructor
    · rintro (⟨x, hx, h⟩ | h)
      · exact ⟨x, (filter_add_mem p f hf x).2 (Or.inr hx), h⟩
      · exact ⟨f, (filter_add_mem p f hf f).2 (Or.inl rfl), h⟩
    · rintro ⟨x, hx, h⟩
      rcases (filter_add_mem p f hf x).1 hx with e | hx'
      · exact Or.inr (e ▸ h)
      · exact Or.inl ⟨x, hx', h⟩

theorem maxEnd_fam : maxEnd F = T := by
  apply Nat.le_antisymm
  · exact (maxEnd_le_iff F T).2 (fun g hg => (fam.good g hg).2.2.2.1)
  · obtain ⟨f, hf, hm⟩ := fam.hasFinal
    rw [← fam.finalEnd f hf hm]; exact le_maxEnd F f hf

/-- Some piece is missing: the counters disagree (or the final piece is missing). -/
theorem not_ready (p : Frag → Bool) (fl : FL) (inv : FLInv F p fl) (g : Frag) (hg : g ∈ F) (hp : p g = false) :
    fl.ready = false := by
  obtain ⟨_, hc, hh, hfin⟩ := inv
  unfold FL.ready
  cases hf : fl.final with
  | false => rfl
  | true =>
    rw [hfin, List.any_eq_true] at hf
    obtain ⟨x, hx, hm⟩ := hf
    have hx' := (List.mem_filter.1 hx).1
    have hend := fam.finalEnd x hx' (by simpa using hm)
    have h1 := le_maxEnd _ x hx
    have h2 : maxEnd (F.filter p) ≤ T :=
      (maxEnd_le_iff _ T).2 (fun y hy => (fam.good y (List.mem_filter.1 hy).1).2.2.2.1)
    have h3 := sumLen_filter_lt F p g hg hp (fam.good g hg).2.2.1
    have := fam.total
    simp only [Bool.true_and, beq_eq_false_iff_ne, ne_eq]
    omega

omit fam in
theorem filter_all (p : Frag → Bool) (hall : ∀ g ∈ F, p g = true) : F.filter p = F :=
  List.filter_eq_self.2 hall

/-- Every piece is stored: the datagram is built. -/
theorem ready_all (p : Frag → Bool) (fl : FL) (inv : FLInv F p fl) (hall : ∀ g ∈ F, p g = true) :
    fl.ready = true ∧ fl.list = F ∧ fl.highest = T := by
  obtain ⟨hl, hc, hh, hfin⟩ := inv
  rw [filter_all p hall] at hl hc hh hfin
  have hT := maxEnd_fam fam
  refine ⟨?_, hl, by rw [hh, hT]⟩
  unfold FL.ready
  rw [hfin, hh, hc, hT, fam.total]
  obtain ⟨f, hf, hm⟩ := fam.hasFinal
  have : F.any (fun g => !g.mf) = true := List.any_eq_true.2 ⟨f, hf, by simp [hm]⟩
  simp [this]

theorem build_all (fl : FL) (hl : fl.list = F) (hh : fl.highest = T) (f : Frag) (hf : f ∈ F) :
    build fl f = .out { f with length := f.ihl * 4 + T, flags := 0, off := 0,
                               payload := F.flatMap (·.payload) } := by
  unfold build
  rw [hl, buildLoop_contig F 0 [] fam.contig (fun g hg => (fam.good g hg).2.1)
        (by have := fam.total; have := fam.small; omega)]
  obtain ⟨_, _, _, _, _, _, hfit⟩ := fam.good f hf
  have hhdr : f.hdrLen = f.ihl * 4 := by unfold Frag.hdrLen u16; omega
  simp only [List.nil_append, hh, hhdr]
  congr 2
  unfold u16
  omega

end

end Gp.Frag4
