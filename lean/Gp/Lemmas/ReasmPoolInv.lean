import Gp.Lemmas.ReasmAcct
/-
  C11 (reassembly half): invariants of the pool-level model (`Gp/Model/ReasmPool.lean`) for ALL
  histories, all inputs, any sequence arithmetic: page accounting.
-/
set_option linter.unusedSimpArgs false
set_option linter.unusedVariables false
namespace Gp.Reasm
open Gp

/-- counter exact, and a closed half connection holds no page -/
def HalfOK (h : Half) : Prop := Bal h ∧ (h.closed = true → held h = 0)

theorem HalfOK.step {h : Half} {used : Int} {o : Out} (hk : HalfOK h) (a : Acct h used o) : HalfOK o.half := by
  constructor
  · have := a.pages
    have h1 : h.pages = held h := hk.1
    show o.half.pages = held o.half
    omega
  · intro hc
    cases hoc : o.closed with
    | true => exact a.empty hoc
    | false =>
      have hcl : h.closed = true := by rw [← a.closedF hoc]; exact hc
      obtain ⟨_, hq, hs⟩ := a.quiet hcl
      have := hk.2 hcl
      simp only [held, hq, hs] at this ⊢
      exact this

def heldC (c : Conn) : Int := held c.c2s + held c.s2c
def ConnOK (c : Conn) : Prop := HalfOK c.c2s ∧ HalfOK c.s2c
def sumHeld (l : List Conn) : Int := (l.map heldC).sum

/-- ids strictly increasing (the pool is a map keyed by flow) -/
def IdsOK (l : List Conn) : Prop := l.Pairwise (fun a b => a.id < b.id)

structure PoolInv (st : St) : Prop where
  ids : IdsOK st.conns
  ok : ∀ c ∈ st.conns, ConnOK c
  used : st.used = sumHeld st.conns

theorem findConn_mem {id : Nat} {l : List Conn} {c : Conn} (h : findConn id l = some c) : c ∈ l ∧ c.id = id := by
  induction l with
  | nil => simp [findConn] at h
  | cons d rest ih =>
    simp only [findConn] at h
    split at h
    · obtain rfl := Option.some.inj h
      rename_i hd
      exact ⟨List.mem_cons_self .., hd⟩
    · obtain ⟨h1, h2⟩ := ih h
      exact ⟨List.mem_cons_of_mem _ h1, h2⟩

theorem findConn_none {id : Nat} {l : List Conn} (h : findConn id l = none) : ∀ c ∈ l, c.id ≠ id := by
  induction l with
  | nil => intro c hc; simp at hc
  | cons d rest ih =>
    simp only [findConn] at h
    split at h
    · cases h
    · rename_i hd
      intro c hc
      rcases List.mem_cons.mp hc with rfl | hc
      · exact hd
      · exact ih h c hc

theorem insertConn_mem {c x : Conn} {l : List Conn} : x ∈ insertConn c l ↔ x = c ∨ x ∈ l := by
  induction l with
  | nil => simp [insertConn]
  | cons d rest ih =>
    simp only [insertConn]
    split
    · simp
    · simp only [List.mem_cons, ih]
      constructor
      · rintro (h | h | h)
        · exact Or.inr (Or.inl h)
        · exact Or.inl h
        · exact Or.inr (Or.inr h)
      · rintro (h | h | h)
        · exact Or.inr (Or.inl h)
        · exact Or.inl h
        · exact Or.inr (Or.inr h)

theorem insertConn_ids {c : Conn} {l : List Conn} (hl : IdsOK l) (hn : ∀ d ∈ l, d.id ≠ c.id) : IdsOK (insertConn c l) := by
  induction l with
  | nil => simp [insertConn, IdsOK]
  | cons d rest ih =>
    have hlc := List.pairwise_cons.mp hl
    simp only [insertConn]
    split
    · rename_i hle
      have hlt : c.id < d.id := by
        have := hn d (List.mem_cons_self ..); omega
      refine List.pairwise_cons.mpr ⟨?_, hl⟩
      intro x hx
      rcases List.mem_cons.mp hx with rfl | hx
      · exact hlt
      · have := hlc.1 x hx; omega
    · rename_i hle
      refine List.pairwise_cons.mpr ⟨?_, ih hlc.2 (fun x hx => hn x (List.mem_cons_of_mem _ hx))⟩
      intro x hx
      rcases insertConn_mem.mp hx with rfl | hx
      · omega
      · exact hlc.1 x hx

theorem sumHeld_insert (c : Conn) (l : List Conn) : sumHeld (insertConn c l) = sumHeld l + heldC c := by
  induction l with
  | nil => simp [insertConn, sumHeld]
  | cons d rest ih =>
    simp only [insertConn]
    split
    · simp only [sumHeld, List.map_cons, List.sum_cons]; omega
    · simp only [sumHeld, List.map_cons, List.sum_cons] at ih ⊢; omega

theorem setConn_mem {c x : Conn} {l : List Conn} (h : x ∈ setConn c l) : x = c ∨ (x ∈ l ∧ x.id ≠ c.id) := by
  simp only [setConn, List.mem_map] at h
  obtain ⟨d, hd, rfl⟩ := h
  split
  · exact Or.inl rfl
  · rename_i hne; exact Or.inr ⟨hd, hne⟩

theorem setConn_ids {c : Conn} {l : List Conn} (hl : IdsOK l) : IdsOK (setConn c l) := by
  unfold IdsOK setConn at *
  rw [List.pairwise_map]
  refine hl.imp ?_
  intro a b hab
  split <;> split <;> omega

theorem sumHeld_set {c c' : Conn} {l : List Conn} (hl : IdsOK l) (hc : c ∈ l) (hid : c'.id = c.id) :
    sumHeld (setConn c' l) = sumHeld l - heldC c + heldC c' := by
  induction l with
  | nil => simp at hc
  | cons d rest ih =>
    have hlc := List.pairwise_cons.mp hl
    simp only [setConn, List.map_cons, sumHeld, List.sum_cons] at ih ⊢
    rcases List.mem_cons.mp hc with rfl | hc
    · rw [if_pos hid.symm]
      have : List.map (fun d => if d.id = c'.id then c' else d) rest = rest := by
        conv => rhs; rw [← List.map_id rest]
        apply List.map_congr_left
        intro x hx
        have := hlc.1 x hx
        rw [if_neg (by omega)]; rfl
      rw [this]; omega
    · have hne : ¬ d.id = c'.id := by have := hlc.1 c hc; omega
      rw [if_neg hne]
      have := ih hlc.2 hc
      omega

theorem removeConn_mem {id : Nat} {x : Conn} {l : List Conn} (h : x ∈ removeConn id l) : x ∈ l ∧ x.id ≠ id := by
  simp only [removeConn, List.mem_filter] at h
  exact ⟨h.1, by simpa using h.2⟩

theorem removeConn_ids {id : Nat} {l : List Conn} (hl : IdsOK l) : IdsOK (removeConn id l) :=
  List.Pairwise.sublist List.filter_sublist hl

theorem sumHeld_remove {c : Conn} {l : List Conn} (hl : IdsOK l) (hc : c ∈ l) :
    sumHeld (removeConn c.id l) = sumHeld l - heldC c := by
  induction l with
  | nil => simp at hc
  | cons d rest ih =>
    have hlc := List.pairwise_cons.mp hl
    simp only [removeConn, List.filter_cons, sumHeld] at ih ⊢
    rcases List.mem_cons.mp hc with rfl | hc
    · simp only [ne_eq, not_true_eq_false, decide_false, Bool.false_eq_true, if_false, List.map_cons, List.sum_cons]
      have : rest.filter (fun d => decide (d.id ≠ c.id)) = rest := by
        apply List.filter_eq_self.mpr
        intro x hx
        have := hlc.1 x hx
        simp; omega
      rw [this]; omega
    · have hne : d.id ≠ c.id := by have := hlc.1 c hc; omega
      simp only [hne, ne_eq, not_false_eq_true, decide_true, if_true, List.map_cons, List.sum_cons]
      have := ih hlc.2 hc
      simp only [ne_eq] at this ⊢
      omega

theorem completion_removed {c : Conn} {closedNow : Bool} {cmpl : CmplRule} (h : (completion c closedNow cmpl).2 = true) :
    c.c2s.closed = true ∧ c.s2c.closed = true := by
  unfold completion at h
  split at h
  · rename_i hc; exact ⟨hc.2.1, hc.2.2⟩
  · cases h

theorem connOK_closed_held {c : Conn} (hk : ConnOK c) (h1 : c.c2s.closed = true) (h2 : c.s2c.closed = true) :
    heldC c = 0 := by
  have := hk.1.2 h1; have := hk.2.2 h2; simp only [heldC]; omega

theorem inv_init_pool : PoolInv {} := { ids := List.Pairwise.nil, ok := by simp, used := by simp [sumHeld] }

theorem newConn_ok (id sid : Nat) (dir : Bool) (ts : Int) : ConnOK (newConn id sid dir ts) ∧ heldC (newConn id sid dir ts) = 0 := by
  simp [ConnOK, HalfOK, Bal, held, heldC, newConn]

theorem lookupConn_inv (st : St) (id : Nat) (dir : Bool) (ts : Int) (hinv : PoolInv st) :
    PoolInv (lookupConn st id dir ts).1 ∧ (lookupConn st id dir ts).2.1 ∈ (lookupConn st id dir ts).1.conns ∧
    (lookupConn st id dir ts).1.cfg = st.cfg := by
  unfold lookupConn
  cases hf : findConn id st.conns with
  | some c => exact ⟨hinv, (findConn_mem hf).1, rfl⟩
  | none =>
    refine ⟨?_, insertConn_mem.mpr (Or.inl rfl), rfl⟩
    have hn := newConn_ok id st.nextSid dir ts
    exact {
      ids := insertConn_ids hinv.ids (fun d hd => findConn_none hf d hd)
      ok := fun x hx => by
        rcases insertConn_mem.mp hx with rfl | hx
        · exact hn.1
        · exact hinv.ok x hx
      used := by
        show st.used = sumHeld (insertConn _ st.conns)
        rw [sumHeld_insert, hn.2, hinv.used]; omega }

theorem setHalf_ok {c : Conn} {b : Bool} {used : Int} {o : Out} (hck : ConnOK c) (ac : Acct (c.half b) used o) :
    ConnOK (c.setHalf b o.half) ∧ heldC (c.setHalf b o.half) - heldC c = o.used - used ∧ (c.setHalf b o.half).id = c.id := by
  cases b with
  | true =>
    simp only [Conn.half, Conn.setHalf, if_true] at ac ⊢
    exact ⟨⟨hck.1.step ac, hck.2⟩, by have := ac.used; simp only [heldC]; omega, trivial⟩
  | false =>
    simp only [Conn.half, Conn.setHalf, Bool.false_eq_true, if_false] at ac ⊢
    exact ⟨⟨hck.1, hck.2.step ac⟩, by have := ac.used; simp only [heldC]; omega, trivial⟩

theorem opSegOn_inv (A : Arith) (st : St) (c : Conn) (ev0 : List Ev) (dir : Bool) (p : Seg) (acc : Nat) (keep : KeepRule)
    (cmpl : CmplRule) (rp : Reply) (hinv : PoolInv st) (hc : c ∈ st.conns)
    (h : opSegOn A st c ev0 dir p acc keep cmpl = .ok rp) : PoolInv rp.st := by
  unfold opSegOn at h
  simp only at h
  split at h
  · rename_i o ha
    obtain rfl := Res.ok.inj h
    have ac := assemble_acct A st.cfg _ st.used p acc keep o ha
    obtain ⟨hk', hheld, hid⟩ := setHalf_ok (hinv.ok c hc) ac
    by_cases hrem : (completion (c.setHalf (dir == c.firstDir) o.half) o.closed cmpl).2 = true
    · simp only [hrem, if_true]
      have hcl := completion_removed hrem
      have h0 := connOK_closed_held hk' hcl.1 hcl.2
      exact {
        ids := removeConn_ids hinv.ids
        ok := fun x hx => hinv.ok x (removeConn_mem hx).1
        used := by
          show o.used = sumHeld (removeConn c.id st.conns)
          rw [sumHeld_remove hinv.ids hc, ← hinv.used]; omega }
    · simp only [hrem, Bool.false_eq_true, if_false]
      exact {
        ids := setConn_ids hinv.ids
        ok := fun x hx => by
          rcases setConn_mem hx with rfl | ⟨hx, _⟩
          · exact hk'
          · exact hinv.ok x hx
        used := by
          show o.used = sumHeld (setConn _ st.conns)
          rw [sumHeld_set hinv.ids hc hid, ← hinv.used]; omega }
  · cases h
  · cases h

theorem opSeg_inv (A : Arith) (st : St) (id : Nat) (dir : Bool) (p : Seg) (acc : Nat) (keep : KeepRule) (cmpl : CmplRule)
    (rp : Reply) (hinv : PoolInv st) (h : opSeg A st id dir p acc keep cmpl = .ok rp) : PoolInv rp.st := by
  unfold opSeg at h
  obtain ⟨h1, h2, _⟩ := lookupConn_inv st id dir p.ts hinv
  exact opSegOn_inv A _ _ _ dir p acc keep cmpl rp h1 h2 h

/-- what the body of a flush loop does to one connection -/
structure ConnStep (c : Conn) (used : Int) (o : ConnOut) : Prop where
  ok : ConnOK o.conn
  id : o.conn.id = c.id ∧ o.conn.sid = c.sid
  used : o.used - used = heldC o.conn - heldC c
  removed : o.removed = true → o.conn.c2s.closed = true ∧ o.conn.s2c.closed = true

theorem overConns_inv (f : Conn → Int → Res ConnOut) (P : Conn → Prop) :
    ∀ (l : List Conn) (used : Int) (cs : List Conn) (u' : Int) (evs : List Ev) (fl cl : Nat),
      IdsOK l → (∀ c ∈ l, ConnOK c) →
      (∀ c ∈ l, ∀ u o, f c u = .ok o → ConnStep c u o ∧ P o.conn) →
      overConns f l used = .ok (cs, u', evs, fl, cl) →
      IdsOK cs ∧ (∀ x ∈ cs, ConnOK x ∧ P x ∧ ∃ c ∈ l, x.id = c.id) ∧ u' - used = sumHeld cs - sumHeld l
  | [], used, cs, u', evs, fl, cl, _, _, _, h => by
    simp only [overConns, Res.ok.injEq, Prod.mk.injEq] at h
    obtain ⟨rfl, rfl, _⟩ := h
    exact ⟨List.Pairwise.nil, by simp, by simp⟩
  | c :: rest, used, cs, u', evs, fl, cl, hids, hok, hf, h => by
    have hidc := List.pairwise_cons.mp hids
    simp only [overConns] at h
    split at h
    · rename_i o ho
      obtain ⟨hstep, hP⟩ := hf c (List.mem_cons_self ..) used o ho
      split at h
      · rename_i cs1 u1 evs1 fl1 cl1 hrest
        obtain ⟨hi1, hk1, hu1⟩ := overConns_inv f P rest o.used cs1 u1 evs1 fl1 cl1 hidc.2
          (fun x hx => hok x (List.mem_cons_of_mem _ hx)) (fun x hx => hf x (List.mem_cons_of_mem _ hx)) hrest
        simp only [Res.ok.injEq, Prod.mk.injEq] at h
        obtain ⟨rfl, rfl, _⟩ := h
        by_cases hrem : o.removed = true
        · simp only [hrem, if_true]
          have hcl := hstep.removed hrem
          have h0 := connOK_closed_held hstep.ok hcl.1 hcl.2
          refine ⟨hi1, fun x hx => ?_, ?_⟩
          · obtain ⟨a, b, c', hc', e⟩ := hk1 x hx
            exact ⟨a, b, c', List.mem_cons_of_mem _ hc', e⟩
          · have := hstep.used
            simp only [sumHeld, List.map_cons, List.sum_cons] at hu1 ⊢; omega
        · simp only [hrem, Bool.false_eq_true, if_false]
          refine ⟨?_, fun x hx => ?_, ?_⟩
          · refine List.pairwise_cons.mpr ⟨fun x hx => ?_, hi1⟩
            obtain ⟨_, _, c', hc', e⟩ := hk1 x hx
            have := hidc.1 c' hc'
            rw [hstep.id.1, e]; exact this
          · rcases List.mem_cons.mp hx with rfl | hx
            · exact ⟨hstep.ok, hP, c, List.mem_cons_self .., hstep.id.1⟩
            · obtain ⟨a, b, c', hc', e⟩ := hk1 x hx
              exact ⟨a, b, c', List.mem_cons_of_mem _ hc', e⟩
          · have := hstep.used
            simp only [sumHeld, List.map_cons, List.sum_cons] at hu1 ⊢; omega
      · cases h
      · cases h
    · cases h
    · cases h

theorem flushConn_step (A : Arith) (c : Conn) (used : Int) (t tc : Int) (keep : KeepRule) (cmpl : CmplRule) (o : ConnOut)
    (hck : ConnOK c) (h : flushConn A c used t tc keep cmpl = .ok o) : ConnStep c used o := by
  unfold flushConn at h
  split at h
  · rename_i o1 h1
    have a1 := flushClose_acct A c.s2c used t tc _ keep o1 h1
    simp only at h
    split at h
    · rename_i o2 h2
      have a2 := flushClose_acct A c.c2s o1.used t tc _ keep o2 h2
      obtain rfl := Res.ok.inj h
      have hk2 : ConnOK { c with s2c := o1.half, c2s := o2.half } := ⟨hck.1.step a2, hck.2.step a1⟩
      refine { ok := hk2, id := ⟨rfl, rfl⟩, used := ?_, removed := ?_ }
      · have := a1.used; have := a2.used; simp only [heldC]; omega
      · intro hr
        simp only [Bool.or_eq_true, decide_eq_true_eq] at hr
        rcases hr with hr | hr | hr
        · -- completion after the s2c half: both closed then; c2s stays closed
          have hcl := completion_removed hr
          simp only at hcl
          refine ⟨?_, hcl.2⟩
          have hq := (a2.quiet hcl.1).1
          rw [a2.closedF hq]; exact hcl.1
        · exact completion_removed hr
        · exact ⟨hr.2.1, hr.1⟩
    · cases h
    · cases h
  · cases h
  · cases h

theorem flushAllConn_step (A : Arith) (c : Conn) (used : Int) (keep : KeepRule) (cmpl : CmplRule) (o : ConnOut)
    (hck : ConnOK c) (h : flushAllConn A c used keep cmpl = .ok o) :
    ConnStep c used o ∧ (o.conn.c2s.closed = true ∧ o.conn.s2c.closed = true) := by
  unfold flushAllConn at h
  split at h
  · rename_i o1 h1
    obtain ⟨a1, hc1⟩ := flushAllHalf_acct A c.s2c used keep o1 h1
    simp only at h
    split at h
    · rename_i o2 h2
      obtain ⟨a2, hc2⟩ := flushAllHalf_acct A c.c2s o1.used keep o2 h2
      obtain rfl := Res.ok.inj h
      have hk2 : ConnOK { c with s2c := o1.half, c2s := o2.half } := ⟨hck.1.step a2, hck.2.step a1⟩
      refine ⟨{ ok := hk2, id := ⟨rfl, rfl⟩, used := ?_, removed := fun _ => ⟨hc2, hc1⟩ }, hc2, hc1⟩
      have := a1.used; have := a2.used; simp only [heldC]; omega
    · cases h
    · cases h
  · cases h
  · cases h

theorem opFlush_inv (A : Arith) (st : St) (t tc : Int) (keep : KeepRule) (cmpl : CmplRule) (rp : Reply)
    (hinv : PoolInv st) (h : opFlush A st t tc keep cmpl = .ok rp) : PoolInv rp.st := by
  unfold opFlush at h
  split at h
  · rename_i cs u evs fl cl hov
    obtain rfl := Res.ok.inj h
    obtain ⟨h1, h2, h3⟩ := overConns_inv _ (fun _ => True) st.conns st.used cs u evs fl cl hinv.ids hinv.ok
      (fun c hc u' o ho => ⟨flushConn_step A c u' t tc keep cmpl o (hinv.ok c hc) ho, trivial⟩) hov
    exact { ids := h1, ok := fun x hx => (h2 x hx).1, used := by have := hinv.used; show u = sumHeld cs; omega }
  · cases h
  · cases h

theorem opFlushAll_inv (A : Arith) (st : St) (keep : KeepRule) (cmpl : CmplRule) (rp : Reply)
    (hinv : PoolInv st) (h : opFlushAll A st keep cmpl = .ok rp) :
    PoolInv rp.st ∧ (∀ c ∈ rp.st.conns, c.c2s.closed = true ∧ c.s2c.closed = true) := by
  unfold opFlushAll at h
  split at h
  · rename_i cs u evs fl cl hov
    obtain rfl := Res.ok.inj h
    obtain ⟨h1, h2, h3⟩ := overConns_inv _ (fun x => x.c2s.closed = true ∧ x.s2c.closed = true)
      st.conns st.used cs u evs fl cl hinv.ids hinv.ok
      (fun c hc u' o ho => flushAllConn_step A c u' keep cmpl o (hinv.ok c hc) ho) hov
    exact ⟨{ ids := h1, ok := fun x hx => (h2 x hx).1, used := by have := hinv.used; show u = sumHeld cs; omega },
           fun x hx => (h2 x hx).2.1⟩
  · cases h
  · cases h

theorem step_inv (A : Arith) (st : St) (op : Op) (rp : Reply) (hinv : PoolInv st) (h : step A st op = .ok rp) :
    PoolInv rp.st := by
  cases op with
  | opts p t =>
    simp only [step, Res.ok.injEq] at h
    subst h
    exact { ids := hinv.ids, ok := hinv.ok, used := hinv.used }
  | seg id dir p acc keep cmpl => exact opSeg_inv A st id dir p acc keep cmpl rp hinv h
  | flush t tc keep cmpl => exact opFlush_inv A st t tc keep cmpl rp hinv h
  | flushAll keep cmpl => exact (opFlushAll_inv A st keep cmpl rp hinv h).1

theorem run_inv (A : Arith) : ∀ (ops : List Op) (st st' : St) (evs : List Ev), PoolInv st →
    run A st ops = .ok (st', evs) → PoolInv st'
  | [], st, st', evs, hinv, h => by
    simp only [run, Res.ok.injEq, Prod.mk.injEq] at h
    obtain ⟨rfl, _⟩ := h
    exact hinv
  | op :: rest, st, st', evs, hinv, h => by
    simp only [run] at h
    split at h
    · rename_i rp hs
      split at h
      · rename_i st2 evs2 hr
        simp only [Res.ok.injEq, Prod.mk.injEq] at h
        obtain ⟨rfl, _⟩ := h
        exact run_inv A rest rp.st _ evs2 (step_inv A st op rp hinv hs) hr
      · cases h
      · cases h
    · cases h
    · cases h

theorem run_snoc (A : Arith) : ∀ (ops : List Op) (op : Op) (st st' : St) (evs : List Ev),
    run A st (ops ++ [op]) = .ok (st', evs) →
    ∃ st1 evs1 rp, run A st ops = .ok (st1, evs1) ∧ step A st1 op = .ok rp ∧ st' = rp.st ∧ evs = evs1 ++ rp.evs
  | [], op, st, st', evs, h => by
    simp only [List.nil_append, run] at h
    split at h
    · rename_i rp hs
      simp only [Res.ok.injEq, Prod.mk.injEq] at h
      obtain ⟨rfl, rfl⟩ := h
      exact ⟨st, [], rp, rfl, hs, rfl, by simp⟩
    · cases h
    · cases h
  | o :: rest, op, st, st', evs, h => by
    simp only [List.cons_append, run] at h
    split at h
    · rename_i rp hs
      split at h
      · rename_i st2 evs2 hr
        simp only [Res.ok.injEq, Prod.mk.injEq] at h
        obtain ⟨rfl, rfl⟩ := h
        obtain ⟨st1, evs1, rp', h1, h2, h3, h4⟩ := run_snoc A rest op rp.st st2 evs2 hr
        refine ⟨st1, rp.evs ++ evs1, rp', ?_, h2, h3, by rw [h4, List.append_assoc]⟩
        simp only [run, hs, h1]
      · cases h
      · cases h
    · cases h
    · cases h

end Gp.Reasm
