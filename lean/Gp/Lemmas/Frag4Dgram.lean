/-
  Helper lemmas for C13 (engine frag4), part 6: datagrams, their 8-byte-aligned partitions and
  the fragments an honest sender emits for them; these fragments form a `Family`.
-/
import Gp.Lemmas.Frag4Run

namespace Gp.Frag4
open Gp.Gen.Frag

/-- One piece of a partition: its bytes and the header (length, options) it travels with. -/
structure Piece where
  ihl : Nat
  opts : Bytes
  data : Bytes
  deriving DecidableEq, Repr

/-- A datagram given by its key and a partition of its payload. -/
structure Dgram where
  src : Nat
  dst : Nat
  id : Nat
  pieces : List Piece
  deriving Repr

def Dgram.key (D : Dgram) : Key := (D.src, D.dst, D.id)
def Dgram.payload (D : Dgram) : Bytes := D.pieces.flatMap (·.data)

/-- The fragment carrying piece `p` at byte offset `start`; `more` = not the last piece. -/
def mkFrag (D : Dgram) (start : Nat) (p : Piece) (more : Bool) : Frag :=
  { src := D.src, dst := D.dst, id := D.id, ihl := p.ihl, flags := if more then 1 else 0,
    off := start / 8, length := p.ihl * 4 + p.data.length, payload := p.data, opts := p.opts }

def mkFrags (D : Dgram) : Nat → List Piece → List Frag
  | _, [] => []
  | start, p :: rest => mkFrag D start p (!rest.isEmpty) :: mkFrags D (start + p.data.length) rest

/-- The fragments of the datagram, in offset order. -/
def Dgram.frags (D : Dgram) : List Frag := mkFrags D 0 D.pieces

def total : List Piece → Nat
  | [] => 0
  | p :: r => p.data.length + total r

/-- Every piece is non-empty, travels with a header of at least 20 bytes that fits together with
    the whole payload (`T` bytes) into 65535, and every piece but the last is a multiple of 8. -/
def PiecesOk (T : Nat) : List Piece → Prop
  | [] => True
  | p :: rest => 5 ≤ p.ihl ∧ 0 < p.data.length ∧ p.ihl * 4 + T ≤ 65535 ∧
      (rest ≠ [] → p.data.length % 8 = 0) ∧ PiecesOk T rest

/-- Well-formed: really fragmented (at least two pieces) and `PiecesOk`. -/
def Dgram.wf (D : Dgram) : Prop := 2 ≤ D.pieces.length ∧ PiecesOk D.payload.length D.pieces

theorem payload_length : ∀ (ps : List Piece), (ps.flatMap (·.data)).length = total ps
  | [] => rfl
  | p :: r => by simp [List.flatMap_cons, total, payload_length r]

theorem mf_mkFrag (D : Dgram) (s : Nat) (p : Piece) (more : Bool) : (mkFrag D s p more).mf = more := by
  cases more <;> simp [mkFrag, Frag.mf, ip4MoreFragments]

theorem df_mkFrag (D : Dgram) (s : Nat) (p : Piece) (more : Bool) : (mkFrag D s p more).df = false := by
  cases more <;> simp [mkFrag, Frag.df, ip4DontFragment]

theorem mkFrag_facts (D : Dgram) (T s : Nat) (p : Piece) (more : Bool) (hs : s % 8 = 0) (hihl : 5 ≤ p.ihl)
    (hpos : 0 < p.data.length) (hfit : p.ihl * 4 + T ≤ 65535) (hend : s + p.data.length ≤ T)
    (hal : more = true → p.data.length % 8 = 0) (hdd : more = true ∨ 8 ≤ s) :
    (mkFrag D s p more).byteOff = s ∧ (mkFrag D s p more).byteOff = (mkFrag D s p more).off * 8 ∧
    (mkFrag D s p more).consistent ∧ (mkFrag D s p more).endOff = s + p.data.length ∧
    securityChecks (mkFrag D s p more) = true ∧ dontDefrag (mkFrag D s p more) = false := by
  have hoff : (mkFrag D s p more).off = s / 8 := rfl
  have hlen : (mkFrag D s p more).length = p.ihl * 4 + p.data.length := rfl
  have hpay : (mkFrag D s p more).payload = p.data := rfl
  have hihl' : (mkFrag D s p more).ihl = p.ihl := rfl
  have hb : (mkFrag D s p more).byteOff = s := by unfold Frag.byteOff u16; rw [hoff]; omega
  have hfl : (mkFrag D s p more).fragLength = p.data.length := by
    unfold Frag.fragLength Frag.hdrLen sub16 u16; rw [hlen, hihl']; omega
  refine ⟨hb, by rw [hb, hoff]; omega, ⟨by rw [hlen, hihl', hpay]; omega, by rw [hfl, hpay]⟩,
    by unfold Frag.endOff; rw [hb, hpay], ?_, ?_⟩
  · apply securityChecks_of
    · rw [mf_mkFrag, hfl]; intro h; have := hal h; omega
    · rw [hoff]; omega
    · rw [hb, hlen]; omega
  · unfold dontDefrag
    rw [mf_mkFrag, df_mkFrag, hoff]
    rcases hdd with h | h
    · simp [h]
    · have : ¬ (s / 8 = 0) := by omega
      simp [this]

/-- The `good` clause of `Family`. -/
def GoodAt (T : Nat) (f : Frag) : Prop :=
  f.byteOff = f.off * 8 ∧ f.consistent ∧ 0 < f.payload.length ∧ f.endOff ≤ T ∧
  securityChecks f = true ∧ dontDefrag f = false ∧ f.ihl * 4 + T ≤ 65535

theorem mk_facts (D : Dgram) (T : Nat) : ∀ (ps : List Piece) (s : Nat), s % 8 = 0 → PiecesOk T ps →
    s + total ps ≤ T → (8 ≤ s ∨ 2 ≤ ps.length) →
    (∀ f ∈ mkFrags D s ps, GoodAt T f ∧ s ≤ f.byteOff ∧ f.endOff ≤ s + total ps ∧
        (f.mf = false → f.endOff = s + total ps) ∧ f.key = D.key) ∧
    (mkFrags D s ps).Pairwise (fun a b => a.endOff ≤ b.byteOff) ∧ Contig s (mkFrags D s ps) ∧
    (ps ≠ [] → ∃ f ∈ mkFrags D s ps, f.mf = false) ∧ sumLen (mkFrags D s ps) = total ps ∧
    (mkFrags D s ps).flatMap (·.payload) = ps.flatMap (·.data) ∧ (mkFrags D s ps).length = ps.length
  | [], s, _, _, _, _ => by simp [mkFrags, Contig, sumLen, total]
  | p :: rest, s, hs, hok, hle, hdd => by
    obtain ⟨hihl, hpos, hfit, hal, hrest⟩ := hok
    simp only [total] at hle
    have hmore : (!rest.isEmpty) = true → p.data.length % 8 = 0 := by
      intro h; apply hal; intro e; simp [e] at h
    have hdd' : (!rest.isEmpty) = true ∨ 8 ≤ s := by
      rcases hdd with h | h
      · exact Or.inr h
      · left; cases rest with
        | nil => simp at h
        | cons _ _ => rfl
    obtain ⟨hb, hb8, hcons, hend, hsec, hnd⟩ :=
      mkFrag_facts D T s p (!rest.isEmpty) hs hihl hpos hfit (by omega) hmore hdd'
    have hs' : (s + p.data.length) % 8 = 0 ∨ rest = [] := by
      cases rest with
      | nil => exact Or.inr rfl
      | cons q r => left; have := hal (by simp); omega
    have ih : rest ≠ [] → _ := fun hne =>
      mk_facts D T rest (s + p.data.length) (by rcases hs' with h | h; exact h; exact absurd h hne) hrest
        (by omega) (Or.inl (by
          have := hal hne
          omega))
    cases rest with
    | nil =>
      simp only [mkFrags, total, List.isEmpty_nil, Bool.not_true] at *
      refine ⟨?_, by simp, ⟨hb, trivial⟩, fun _ => ⟨_, List.mem_singleton.2 rfl, mf_mkFrag ..⟩, ?_, ?_, rfl⟩
      · intro f hf
        rw [List.mem_singleton] at hf; subst hf
        refine ⟨⟨hb8, hcons, hpos, by rw [hend]; omega, hsec, hnd, hfit⟩, by omega, by omega, fun _ => by omega, rfl⟩
      · simp [sumLen, mkFrag]
      · simp [mkFrag]
    | cons q r =>
      obtain ⟨h1, h2, h3, h4, h5, h6, h7⟩ := ih (by simp)
      have hm : (mkFrag D s p (!(q :: r).isEmpty)).mf = true := by rw [mf_mkFrag]; rfl
      have hcons_eq : mkFrags D s (p :: q :: r) =
          mkFrag D s p (!(q :: r).isEmpty) :: mkFrags D (s + p.data.length) (q :: r) := rfl
      have hpay : (mkFrag D s p (!(q :: r).isEmpty)).payload = p.data := rfl
      rw [hcons_eq]
      refine ⟨?_, ?_, ⟨hb, by rw [hpay]; exact h3⟩, ?_, ?_, ?_, ?_⟩
      · intro f hf
        rcases List.mem_cons.1 hf with e | hf'
        · subst e
          refine ⟨⟨hb8, hcons, hpos, by rw [hend]; omega, hsec, hnd, hfit⟩, by omega, ?_, ?_, rfl⟩
          · rw [hend]; simp only [total]; omega
          · intro h; rw [hm] at h; cases h
        · obtain ⟨g1, g2, g3, g4, g5⟩ := h1 f hf'
          refine ⟨g1, by omega, ?_, ?_, g5⟩
          · simp only [total] at g3 ⊢; omega
          · intro h; have := g4 h; simp only [total] at this ⊢; omega
      · refine List.pairwise_cons.2 ⟨?_, h2⟩
        intro b hbm
        have := (h1 b hbm).2.1
        omega
      · intro _
        obtain ⟨f, hf, hmf⟩ := h4 (by simp)
        exact ⟨f, List.mem_cons_of_mem _ hf, hmf⟩
      · simp only [sumLen, h5, hpay, total]
      · simp only [List.flatMap_cons, h6, hpay]
      · simp only [List.length_cons, h7]

theorem pieces_count (T : Nat) : ∀ (ps : List Piece), PiecesOk T ps → ps ≠ [] → 8 * ps.length ≤ total ps + 7
  | [], _, h => absurd rfl h
  | [p], hok, _ => by simp only [List.length_singleton, total]; have := hok.2.1; omega
  | p :: q :: r, hok, _ => by
    have ih := pieces_count T (q :: r) hok.2.2.2.2 (by simp)
    have h1 := hok.2.2.2.1 (by simp)
    have h2 := hok.2.1
    simp only [List.length_cons, total] at *
    omega

/-- The fragments of a well-formed datagram form an honest family. -/
theorem dgram_family (D : Dgram) (h : D.wf) :
    Family D.frags D.payload.length ∧ (∀ g ∈ D.frags, g.key = D.key) ∧
    D.frags.flatMap (·.payload) = D.payload ∧ D.frags.length = D.pieces.length := by
  obtain ⟨h2, hok⟩ := h
  have hT : D.payload.length = total D.pieces := payload_length D.pieces
  obtain ⟨f1, f2, f3, f4, f5, f6, f7⟩ := mk_facts D D.payload.length D.pieces 0 rfl hok (by omega) (Or.inr h2)
  have hne : D.pieces ≠ [] := by intro e; rw [e] at h2; simp at h2
  have hcnt := pieces_count _ D.pieces hok hne
  have hsmall : D.payload.length ≤ 65515 := by
    cases hp : D.pieces with
    | nil => exact absurd hp hne
    | cons p r => rw [hp] at hok; have := hok.2.2.1; have := hok.1; omega
  refine ⟨⟨?_, f2, f3, ?_, f4 hne, by rw [hT]; exact f5, by omega, ?_⟩, fun g hg => (f1 g hg).2.2.2.2, f6, f7⟩
  · intro f hf; exact (f1 f hf).1
  · intro f hf hm
    have := (f1 f hf).2.2.2.1 hm
    omega
  · show (mkFrags D 0 D.pieces).length + 1 ≤ 8192
    rw [f7]; omega

end Gp.Frag4
