/-
  `asm_gap_only_on_flush`, first half, for EVERY history (consistent or not) and every sequence
  arithmetic whose `add` never returns the invalid marker: an Assemble step that does not reach a page
  limit emits only items with skip = 0.  (Skips come from addNextFromConn on a page that is ahead of
  nextSeq, which only skipFlush and the limit loop of insertIntoConn do.)
-/
import Gp.Lemmas.AsmPool

namespace Gp.Asm

/-- queued pages carry no skip mark (it is set only when a page is released) -/
def SkipZero (c : Conn) : Prop := ∀ pg ∈ c.pages, pg.r.skip = 0

def AllSkip0 (items : List Reasm) : Prop := ∀ r ∈ items, r.skip = 0

theorem byteSpan_valid (A : SeqArith) (hadd : ∀ s n, A.add s n ≠ invalidSeq) (e r : Int) (b : Bytes) :
    (byteSpan A e r b).2 ≠ invalidSeq := by
  unfold byteSpan
  split
  · exact hadd _ _
  · rename_i he
    dsimp only
    split
    · exact hadd _ _
    · split
      · exact he
      · exact hadd _ _

theorem splitPages_skip0 (A : SeqArith) (fuel : Nat) (seq : Int) (b : Bytes) (fin : Bool) (ts : Int) :
    ∀ pg ∈ splitPages A fuel seq b fin ts, pg.r.skip = 0 := by
  induction fuel generalizing seq b with
  | zero => intro pg h; simp only [splitPages, List.mem_singleton] at h; rw [h]
  | succ f ih =>
    intro pg h
    simp only [splitPages] at h
    split at h
    · simp only [List.mem_singleton] at h; rw [h]
    · rcases List.mem_cons.1 h with h | h
      · rw [h]
      · exact ih _ _ pg h

theorem addContiguous_rest_sub (A : SeqArith) (n : Int) (ps : List Page) :
    ∀ pg ∈ (addContiguous A n ps).rest, pg ∈ ps := by
  induction ps generalizing n with
  | nil => intro pg h; simp [addContiguous] at h
  | cons p ps ih =>
    intro pg h
    simp only [addContiguous] at h
    split at h
    · exact List.mem_cons_of_mem _ (ih _ pg h)
    · exact h

theorem limitPops_rest_sub (A : SeqArith) (L : Lim) (n : Int) (ps : List Page) (np used : Int) :
    ∀ pg ∈ (limitPops A L n ps np used).rest, pg ∈ ps := by
  induction ps generalizing n np used with
  | nil => intro pg h; simp [limitPops] at h
  | cons p ps ih =>
    intro pg h
    simp only [limitPops] at h
    split at h
    · exact List.mem_cons_of_mem _ (ih _ _ _ pg h)
    · exact h

theorem addContiguous_skip0 (A : SeqArith) (hadd : ∀ s n, A.add s n ≠ invalidSeq) (n : Int)
    (ps : List Page) (hn : n ≠ invalidSeq) (hps : ∀ pg ∈ ps, pg.r.skip = 0) :
    AllSkip0 (addContiguous A n ps).items := by
  induction ps generalizing n with
  | nil => intro r h; simp [addContiguous] at h
  | cons p ps ih =>
    simp only [addContiguous]
    split
    · rename_i hd
      intro r hr
      rcases List.mem_cons.1 hr with hr | hr
      · rw [hr]
        show (if n = invalidSeq then -1 else if A.diff n p.seq > 0 then A.diff n p.seq else p.r.skip) = 0
        rw [if_neg hn, if_neg (by omega)]
        exact hps p List.mem_cons_self
      · exact ih _ (byteSpan_valid A hadd _ _ _) (fun q hq => hps q (List.mem_cons_of_mem _ hq)) r hr
    · intro r h; simp at h

theorem send_calls' (A : SeqArith) (c : Conn) (used : Int) (r0 : Reasm) (rs : List Reasm) :
    (send A c used r0 rs).calls = [r0 :: (rs ++ (addContiguous A c.nextSeq c.pages).items)] := by
  unfold send; dsimp only; split <;> rfl
theorem send_pages' (A : SeqArith) (c : Conn) (used : Int) (r0 : Reasm) (rs : List Reasm) :
    (send A c used r0 rs).conn.pages = (addContiguous A c.nextSeq c.pages).rest := by
  unfold send; dsimp only; split <;> rfl

theorem send_skipZero (A : SeqArith) (c : Conn) (used : Int) (r0 : Reasm) (rs : List Reasm)
    (h : SkipZero c) : SkipZero (send A c used r0 rs).conn := by
  unfold SkipZero
  rw [send_pages']
  intro pg hpg
  exact h pg (addContiguous_rest_sub A _ _ pg hpg)

theorem skipFlush_skipZero (A : SeqArith) (c : Conn) (used : Int) (h : SkipZero c) :
    SkipZero (skipFlush A c used).conn := by
  unfold skipFlush
  split
  · exact h
  · rename_i p ps hp
    apply send_skipZero
    intro pg hpg
    exact h pg (by rw [hp]; exact List.mem_cons_of_mem _ hpg)

theorem insertIntoConn_skipZero (A : SeqArith) (L : Lim) (c : Conn) (used seq : Int) (b : Bytes)
    (fin : Bool) (ts : Int) (st : Step) (h : SkipZero c)
    (hst : insertIntoConn A L c used seq b fin ts = .ok st) : SkipZero st.conn := by
  unfold insertIntoConn at hst
  split at hst
  · cases hst
  · dsimp only at hst
    have hall : ∀ pg ∈ insertPages A seq (pagesFromTCP A seq b fin ts) c.pages, pg.r.skip = 0 := by
      intro pg hpg
      rcases (mem_insertPages A seq _ _ pg).1 hpg with h1 | h1
      · exact splitPages_skip0 A _ seq b fin ts pg h1
      · exact h pg h1
    split at hst
    · cases hst
      intro pg hpg
      exact hall pg (limitPops_rest_sub A L _ _ _ _ pg hpg)
    · cases hst
      apply send_skipZero
      intro pg hpg
      exact hall pg (limitPops_rest_sub A L _ _ _ _ pg hpg)

theorem assembleConn_skipZero (A : SeqArith) (L : Lim) (c : Conn) (used : Int) (s : Seg) (st : Step)
    (h : SkipZero c) (hst : assembleConn A L c used s = .ok st) : SkipZero st.conn := by
  unfold assembleConn at hst
  dsimp only at hst
  generalize hcc : (if c.lastSeen < s.ts then { c with lastSeen := s.ts } else c) = c1 at hst
  have h2 : c1.pages = c.pages := by rw [← hcc]; split <;> rfl
  have hz1 : SkipZero c1 := by unfold SkipZero; rw [h2]; exact h
  split at hst
  · split at hst
    · cases hst; exact send_skipZero A _ _ _ _ hz1
    · exact insertIntoConn_skipZero A L c1 _ _ _ _ _ st hz1 hst
  · split at hst
    · exact insertIntoConn_skipZero A L c1 _ _ _ _ _ st hz1 hst
    · cases hst; exact send_skipZero A _ _ _ _ hz1

theorem flushLoop_skipZero (A : SeqArith) (T : Int) (fuel : Nat) (c : Conn) (used : Int)
    (calls : List (List Reasm)) (fl : Bool) (h : SkipZero c) :
    SkipZero (flushLoop A T fuel c used calls fl).1.conn := by
  induction fuel generalizing c used calls fl with
  | zero => exact h
  | succ f ih =>
    simp only [flushLoop]
    split
    · exact h
    · split
      · split
        · exact skipFlush_skipZero A c used h
        · exact ih _ _ _ _ (skipFlush_skipZero A c used h)
      · exact h

theorem flushAllLoop_skipZero (A : SeqArith) (fuel : Nat) (c : Conn) (used : Int)
    (calls : List (List Reasm)) (h : SkipZero c) : SkipZero (flushAllLoop A fuel c used calls).conn := by
  induction fuel generalizing c used calls with
  | zero => exact h
  | succ f ih =>
    simp only [flushAllLoop]
    split
    · exact skipFlush_skipZero A c used h
    · exact ih _ _ _ (skipFlush_skipZero A c used h)

/-- SkipZero ∧ NoWtf is an invariant of every history -/
theorem skipZero_connInv (A : SeqArith) (hA : ∀ x, A.diff x x ≤ 0) :
    ConnInv A (fun _ c => NoWtf c ∧ SkipZero c) (fun s => s.seq ≠ invalidSeq) where
  fresh := by intro k ts sid; exact ⟨by simp [NoWtf, HeadNe], by intro pg h; simp at h⟩
  asm := by
    intro L c used s hq hs
    obtain ⟨st, h1, h2⟩ := assembleConn_noWtf A hA L c used s hq.1 hs
    exact ⟨st, h1, fun _ => ⟨h2, assembleConn_skipZero A L c used s st hq.2 h1⟩⟩
  flush := by
    intro k T ca c used hq _
    refine ⟨flushConn_noWtf A hA T ca c used hq.1, ?_⟩
    unfold flushConn; dsimp only
    split <;> exact flushLoop_skipZero A T _ c used _ _ hq.2
  flushAll := by
    intro k c used hq _
    exact ⟨flushAllLoop_noWtf A hA _ c used _ hq.1, flushAllLoop_skipZero A _ c used _ hq.2⟩

/-! ### the step itself -/

/-- number of pages a payload occupies (what pagesFromTCP returns as numPages) -/
def pageCount (b : Bytes) : Nat := (splitPages flatArith (b.length + 1) 0 b false 0).length

theorem splitPages_length_indep (A A' : SeqArith) (fuel : Nat) (seq seq' : Int) (b : Bytes)
    (fin fin' : Bool) (ts ts' : Int) :
    (splitPages A fuel seq b fin ts).length = (splitPages A' fuel seq' b fin' ts').length := by
  induction fuel generalizing seq seq' b with
  | zero => rfl
  | succ f ih =>
    simp only [splitPages]
    split
    · rfl
    · simp only [List.length_cons]; rw [ih]

theorem pagesFromTCP_length (A : SeqArith) (seq : Int) (b : Bytes) (fin : Bool) (ts : Int) :
    (pagesFromTCP A seq b fin ts).length = pageCount b :=
  splitPages_length_indep A flatArith _ seq 0 b fin false ts 0

theorem limitPops_nohit (A : SeqArith) (L : Lim) (n : Int) (ps : List Page) (np used : Int)
    (h : limitHit L np used = false) : (limitPops A L n ps np used).items = [] := by
  cases ps with
  | nil => rfl
  | cons p ps => simp only [limitPops, h]; rfl

theorem send_allSkip0 (A : SeqArith) (hadd : ∀ s n, A.add s n ≠ invalidSeq) (c : Conn) (used : Int)
    (r0 : Reasm) (hz : SkipZero c) (hn : c.nextSeq ≠ invalidSeq) (hr : r0.skip = 0) :
    ∀ call ∈ (send A c used r0 []).calls, AllSkip0 call := by
  rw [send_calls']
  intro call hc
  simp only [List.mem_singleton] at hc
  rw [hc]
  intro r hr'
  rcases List.mem_cons.1 hr' with h | h
  · rw [h]; exact hr
  · simp only [List.nil_append] at h
    exact addContiguous_skip0 A hadd _ _ hn hz r h

/-- An Assemble step that does not reach a page limit emits only skip = 0. -/
theorem assembleConn_noskip (A : SeqArith) (hadd : ∀ s n, A.add s n ≠ invalidSeq) (L : Lim) (c : Conn)
    (used : Int) (s : Seg) (st : Step) (hz : SkipZero c)
    (hl : limitHit L (c.npages + pageCount s.bytes) (used + pageCount s.bytes) = false)
    (hst : assembleConn A L c used s = .ok st) : ∀ call ∈ st.calls, AllSkip0 call := by
  unfold assembleConn at hst
  dsimp only at hst
  generalize hcc : (if c.lastSeen < s.ts then { c with lastSeen := s.ts } else c) = c1 at hst
  have h2 : c1.pages = c.pages := by rw [← hcc]; split <;> rfl
  have h3 : c1.npages = c.npages := by rw [← hcc]; split <;> rfl
  have hz1 : SkipZero c1 := by unfold SkipZero; rw [h2]; exact hz
  have hins : ∀ seq fin, insertIntoConn A L c1 used seq s.bytes fin s.ts = .ok st → ∀ call ∈ st.calls, AllSkip0 call := by
    intro seq fin hi
    unfold insertIntoConn at hi
    split at hi
    · cases hi
    · dsimp only at hi
      rw [pagesFromTCP_length, h3, limitPops_nohit A L _ _ _ _ hl] at hi
      dsimp only at hi
      cases hi
      intro call hc; simp at hc
  split at hst
  · split at hst
    · cases hst
      exact send_allSkip0 A hadd _ used _ hz1 (hadd _ _) rfl
    · exact hins _ _ hst
  · split at hst
    · exact hins _ _ hst
    · cases hst
      exact send_allSkip0 A hadd _ used _ hz1 (byteSpan_valid A hadd _ _ _) rfl

/-- pages currently buffered for connection `k` (0 if there is no such connection) -/
def connPages (P : Pool) (k : Nat) : Int :=
  match lookup k P.conns with
  | some c => c.npages
  | none => 0

theorem mem_evsOf_data (k k' sid : Nat) (items : List Reasm) (st : Step)
    (h : Ev.data k sid items ∈ evsOf k' st) : items ∈ st.calls := by
  unfold evsOf at h
  rcases List.mem_append.1 h with h | h
  · obtain ⟨c, hc, e⟩ := List.mem_map.1 h
    cases e; exact hc
  · split at h
    · simp at h
    · simp at h

theorem assemble_noskip (A : SeqArith) (hadd : ∀ s n, A.add s n ≠ invalidSeq) (P : Pool) (s : Seg)
    (x : Pool × List Ev) (hP : PoolAll (fun _ c => NoWtf c ∧ SkipZero c) P)
    (hl : limitHit P.lim (connPages P s.key + pageCount s.bytes) (P.used + pageCount s.bytes) = false)
    (hx : assemble A P s = .ok x) :
    ∀ k sid items, Ev.data k sid items ∈ x.2 → AllSkip0 items := by
  unfold assemble at hx
  split at hx
  · cases hx; intro k sid items h; simp at h
  · unfold connPages at hl
    split at hx
    · rename_i c hlk
      rw [hlk] at hl
      dsimp only at hl
      cases hst : assembleConn A P.lim c P.used s with
      | ok st =>
        rw [hst] at hx
        cases hx
        intro k sid items h
        exact assembleConn_noskip A hadd P.lim c P.used s st (hP _ _ (lookup_mem hlk)).2 hl hst items
          (mem_evsOf_data _ _ _ _ _ h)
      | err e => rw [hst] at hx; cases hx
      | panic q => rw [hst] at hx; cases hx
    · rename_i hlk
      rw [hlk] at hl
      dsimp only at hl
      split at hx
      · cases hx; intro k sid items h; simp at h
      · dsimp only at hx
        cases hst : assembleConn A (newConn P s.ts).2.lim (newConn P s.ts).1 (newConn P s.ts).2.used s with
        | ok st =>
          rw [hst] at hx
          cases hx
          intro k sid items h
          rcases List.mem_cons.1 h with h | h
          · cases h
          · exact assembleConn_noskip A hadd P.lim (newConn P s.ts).1 P.used s st
              (by intro pg hpg; simp [newConn] at hpg) hl hst items (mem_evsOf_data _ _ _ _ _ h)
        | err e => rw [hst] at hx; cases hx
        | panic q => rw [hst] at hx; cases hx

end Gp.Asm
