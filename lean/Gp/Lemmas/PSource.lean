import Gp.Model.PSource
/-
  Helper lemmas for C16 (engine psrc): the transition relation in relational form and the
  inductive invariants of packetsToChannel.
-/
namespace Gp.PSource

/-! ### relational form of `step` -/

inductive Step (cfg : Cfg) : St → Label → St → Prop where
  | checkGo (s : St) : s.pc = .check → s.cancelled = false →
      Step cfg s .check { s with pc := .reading }
  | checkStop (s : St) : s.pc = .check → s.cancelled = true →
      Step cfg s .check { s with pc := .closing }
  | readPkt (s : St) (d : Bytes) (ci : CapInfo) (h : List Ev) : s.pc = .reading → s.hist = .pkt d ci :: h →
      Step cfg s .readRet { s with hist := h, past := s.past ++ [.pkt d ci], heap := (decode cfg s.heap d ci).1,
                                   pc := .sending (decode cfg s.heap d ci).2,
                                   readsAfterCancel := s.readsAfterCancel + (if s.cancelled then 1 else 0) }
  | readRetry (s : St) (e : SrcErr) (h : List Ev) : s.pc = .reading → s.hist = .err e :: h → classify e = .retry →
      Step cfg s .readRet { s with hist := h, past := s.past ++ [.err e], pc := .check,
                                   readsAfterCancel := s.readsAfterCancel + (if s.cancelled then 1 else 0) }
  | readStop (s : St) (e : SrcErr) (h : List Ev) : s.pc = .reading → s.hist = .err e :: h → classify e = .stop →
      Step cfg s .readRet { s with hist := h, past := s.past ++ [.err e], pc := .closing,
                                   readsAfterCancel := s.readsAfterCancel + (if s.cancelled then 1 else 0) }
  | send (s : St) (p : Pkt) : s.pc = .sending p → s.chan.length < cfg.cap →
      Step cfg s .send { s with chan := s.chan ++ [p], pc := .check }
  | selCancel (s : St) (p : Pkt) : s.pc = .sending p → s.cancelled = true →
      Step cfg s .selCancel { s with dropped := s.dropped ++ [p], pc := .closing }
  | close (s : St) : s.pc = .closing →
      Step cfg s .close { s with closed := true, closes := s.closes + 1, pc := .exited }
  | recvPkt (s : St) (p : Pkt) (c : List Pkt) : s.chan = p :: c →
      Step cfg s .recv { s with chan := c, recvd := s.recvd ++ [p] }
  | recvClosed (s : St) : s.chan = [] → s.closed = true →
      Step cfg s .recv { s with sawClose := true }
  | cancel (s : St) : Step cfg s .cancel { s with cancelled := true }

theorem step_sound {cfg : Cfg} {s s' : St} {l : Label} (h : step cfg s l = some s') : Step cfg s l s' := by
  cases l with
  | check =>
    simp only [step, stepCheck] at h
    split at h
    · rename_i hpc
      split at h
      · rename_i hc; cases h; exact .checkStop s hpc hc
      · rename_i hc; cases h; exact .checkGo s hpc (by simpa using hc)
    · cases h
  | readRet =>
    simp only [step, stepReadRet] at h
    split at h
    · rename_i hpc
      split at h
      · cases h
      · rename_i ev hh hhist
        split at h
        · rename_i d ci
          cases h
          exact .readPkt s d ci hh hpc hhist
        · rename_i e
          split at h
          · rename_i hcl; cases h; exact .readRetry s e hh hpc hhist hcl
          · rename_i hcl; cases h; exact .readStop s e hh hpc hhist hcl
    · cases h
  | send =>
    simp only [step, stepSend] at h
    split at h
    · rename_i p hpc
      split at h
      · rename_i hl; cases h; exact .send s p hpc hl
      · cases h
    · cases h
  | selCancel =>
    simp only [step, stepSelCancel] at h
    split at h
    · rename_i p hpc
      split at h
      · rename_i hc; cases h; exact .selCancel s p hpc hc
      · cases h
    · cases h
  | close =>
    simp only [step, stepClose] at h
    split at h
    · rename_i hpc; cases h; exact .close s hpc
    · cases h
  | recv =>
    simp only [step, stepRecv] at h
    split at h
    · rename_i p c hch; cases h; exact .recvPkt s p c hch
    · rename_i hch
      split at h
      · rename_i hc; cases h; exact .recvClosed s hch hc
      · cases h
  | cancel =>
    simp only [step, stepCancel] at h
    cases h; exact .cancel s

theorem step_complete {cfg : Cfg} {s s' : St} {l : Label} (h : Step cfg s l s') : step cfg s l = some s' := by
  cases h with
  | checkGo hpc hc => simp [step, stepCheck, hpc, hc]
  | checkStop hpc hc => simp [step, stepCheck, hpc, hc]
  | readPkt d ci hh hpc hhist => simp [step, stepReadRet, hpc, hhist]
  | readRetry e hh hpc hhist hcl => simp [step, stepReadRet, hpc, hhist, hcl]
  | readStop e hh hpc hhist hcl => simp [step, stepReadRet, hpc, hhist, hcl]
  | send p hpc hl => simp [step, stepSend, hpc, hl]
  | selCancel p hpc hc => simp [step, stepSelCancel, hpc, hc]
  | close hpc => simp [step, stepClose, hpc]
  | recvPkt p c hch => simp [step, stepRecv, hch]
  | recvClosed hch hc => simp [step, stepRecv, hch, hc]
  | cancel => simp [step, stepCancel]


/-! ### small facts -/

theorem specPkts_append (dt : Bytes → Bool) (a b : List Ev) :
    specPkts dt (a ++ b) = specPkts dt a ++ specPkts dt b := by
  induction a with
  | nil => rfl
  | cons ev a ih => cases ev <;> simp [specPkts, ih]

theorem decode_spec (cfg : Cfg) (h : Heap) (d : Bytes) (ci : CapInfo) :
    (decode cfg h d ci).2.spec = ⟨d, ci, cfg.decTrunc d || decide (ci.caplen < ci.len)⟩ := by
  simp [decode, Pkt.spec]

theorem specPkts_pkt (dt : Bytes → Bool) (d : Bytes) (ci : CapInfo) :
    specPkts dt [.pkt d ci] = [⟨d, ci, dt d || decide (ci.caplen < ci.len)⟩] := rfl

theorem specPkts_err (dt : Bytes → Bool) (e : SrcErr) : specPkts dt [.err e] = [] := rfl

theorem NoStop.append {a b : List Ev} (ha : NoStop a) (hb : NoStop b) : NoStop (a ++ b) := by
  intro ev hev
  rcases List.mem_append.mp hev with h | h
  · exact ha ev h
  · exact hb ev h

theorem upToStop_append_stop (pre : List Ev) (ev : Ev) (rest : List Ev) (hp : NoStop pre) (hs : ev.isStop = true) :
    upToStop (pre ++ ev :: rest) = pre := by
  induction pre with
  | nil => simp [upToStop, hs]
  | cons a pre ih =>
    have ha : a.isStop = false := hp a (by simp)
    have : NoStop pre := fun e he => hp e (by simp [he])
    simp [upToStop, ha, ih this]

theorem upToStop_noStop (l : List Ev) (h : NoStop l) : upToStop l = l := by
  induction l with
  | nil => rfl
  | cons a l ih =>
    have ha : a.isStop = false := h a (by simp)
    have : NoStop l := fun e he => h e (by simp [he])
    simp [upToStop, ha, ih this]

/-! ### invariant 1: history bookkeeping, conservation of packets, channel bound -/

structure InvH (cfg : Cfg) (h0 : List Ev) (s : St) : Prop where
  hist  : s.past ++ s.hist = h0
  cons  : s.all.map Pkt.spec = specPkts cfg.decTrunc s.past
  capb  : s.chan.length ≤ cfg.cap
  dr1   : s.dropped.length ≤ 1
  drRun : running s.pc = true → s.dropped = []
  drC   : s.cancelled = false → s.dropped = []

theorem invH_init (cfg : Cfg) (h0 : List Ev) (c0 : Bool) : InvH cfg h0 (init h0 c0) := by
  constructor <;> simp [init, St.all, inflight, specPkts]

theorem invH_step {cfg : Cfg} {h0 : List Ev} {s s' : St} {l : Label}
    (inv : InvH cfg h0 s) (hs : Step cfg s l s') : InvH cfg h0 s' := by
  obtain ⟨hist, cons, capb, dr1, drRun, drC⟩ := inv
  cases hs with
  | checkGo hpc hc =>
    constructor <;> simp_all [St.all, inflight, running]
  | checkStop hpc hc =>
    constructor <;> simp_all [St.all, inflight, running]
  | readPkt d ci hh hpc hhist =>
    have hd : s.dropped = [] := drRun (by simp [hpc, running])
    constructor
    · simp [← hist, hhist]
    · simp only [St.all, inflight, hpc, hd, List.append_nil] at cons ⊢
      simp [specPkts_append, specPkts_pkt, ← cons, decode_spec]
    · exact capb
    · exact dr1
    · intro _; exact hd
    · intro _; exact hd
  | readRetry e hh hpc hhist hcl =>
    have hd : s.dropped = [] := drRun (by simp [hpc, running])
    constructor
    · simp [← hist, hhist]
    · simp only [St.all, inflight, hpc, hd, List.append_nil] at cons ⊢
      simp [specPkts_append, specPkts_err, ← cons]
    · exact capb
    · exact dr1
    · intro _; exact hd
    · intro _; exact hd
  | readStop e hh hpc hhist hcl =>
    have hd : s.dropped = [] := drRun (by simp [hpc, running])
    constructor
    · simp [← hist, hhist]
    · simp only [St.all, inflight, hpc, hd, List.append_nil] at cons ⊢
      simp [specPkts_append, specPkts_err, ← cons]
    · exact capb
    · exact dr1
    · intro _; exact hd
    · intro _; exact hd
  | send p hpc hl =>
    have hd : s.dropped = [] := drRun (by simp [hpc, running])
    constructor
    · exact hist
    · simp only [St.all, inflight, hpc, hd, List.append_nil] at cons ⊢
      simpa using cons
    · simp; omega
    · exact dr1
    · intro _; exact hd
    · intro _; exact hd
  | selCancel p hpc hc =>
    have hd : s.dropped = [] := drRun (by simp [hpc, running])
    constructor
    · exact hist
    · simp only [St.all, inflight, hpc, hd, List.append_nil] at cons ⊢
      simpa using cons
    · exact capb
    · simp [hd]
    · intro h; simp [running] at h
    · intro h; simp [hc] at h
  | close hpc =>
    constructor
    · exact hist
    · simp only [St.all, inflight, hpc] at cons ⊢
      simpa using cons
    · exact capb
    · exact dr1
    · intro h; simp [running] at h
    · exact drC
  | recvPkt p c hch =>
    constructor
    · exact hist
    · simp only [St.all, hch] at cons ⊢
      simpa using cons
    · simp [hch] at capb ⊢; omega
    · exact dr1
    · exact drRun
    · exact drC
  | recvClosed hch hc =>
    exact ⟨hist, cons, capb, dr1, drRun, drC⟩
  | cancel =>
    constructor
    · exact hist
    · exact cons
    · exact capb
    · exact dr1
    · exact drRun
    · intro h; simp at h

/-! ### invariant 2: the channel is closed exactly when the producer is gone, at most once -/

structure InvK (s : St) : Prop where
  closes    : s.closes = if s.closed then 1 else 0
  closedIff : s.closed = true ↔ s.pc = .exited

theorem invK_init (h0 : List Ev) (c0 : Bool) : InvK (init h0 c0) := by
  constructor <;> simp [init]

theorem invK_step {cfg : Cfg} {s s' : St} {l : Label} (inv : InvK s) (hs : Step cfg s l s') : InvK s' := by
  obtain ⟨closes, closedIff⟩ := inv
  cases hs with
  | checkGo hpc hc => constructor <;> simp_all
  | checkStop hpc hc => constructor <;> simp_all
  | readPkt d ci hh hpc hhist => constructor <;> simp_all
  | readRetry e hh hpc hhist hcl => constructor <;> simp_all
  | readStop e hh hpc hhist hcl => constructor <;> simp_all
  | send p hpc hl => constructor <;> simp_all
  | selCancel p hpc hc => constructor <;> simp_all
  | close hpc =>
    have : s.closed = false := by
      cases hcl : s.closed with
      | false => rfl
      | true => have := closedIff.mp hcl; simp [hpc] at this
    constructor <;> simp_all
  | recvPkt p c hch => exact ⟨closes, closedIff⟩
  | recvClosed hch hc => exact ⟨closes, closedIff⟩
  | cancel => exact ⟨closes, closedIff⟩

/-! ### invariant 3: cancellation -/

structure InvC (s : St) : Prop where
  nc   : s.cancelled = false → s.readsAfterCancel = 0
  rac1 : s.readsAfterCancel ≤ 1
  rd   : s.pc = .reading → s.readsAfterCancel = 0

theorem invC_init (h0 : List Ev) (c0 : Bool) : InvC (init h0 c0) := by
  constructor <;> simp [init]

theorem invC_step {cfg : Cfg} {s s' : St} {l : Label} (inv : InvC s) (hs : Step cfg s l s') : InvC s' := by
  obtain ⟨nc, rac1, rd⟩ := inv
  cases hs with
  | checkGo hpc hc => constructor <;> simp_all
  | checkStop hpc hc => constructor <;> simp_all
  | readPkt d ci hh hpc hhist =>
    have h0 := rd hpc
    constructor
    · intro hc; simp at hc; simp [hc, h0]
    · simp [h0]; split <;> omega
    · intro h; simp at h
  | readRetry e hh hpc hhist hcl =>
    have h0 := rd hpc
    constructor
    · intro hc; simp at hc; simp [hc, h0]
    · simp [h0]; split <;> omega
    · intro h; simp at h
  | readStop e hh hpc hhist hcl =>
    have h0 := rd hpc
    constructor
    · intro hc; simp at hc; simp [hc, h0]
    · simp [h0]; split <;> omega
    · intro h; simp at h
  | send p hpc hl => constructor <;> simp_all
  | selCancel p hpc hc => constructor <;> simp_all
  | close hpc => constructor <;> simp_all
  | recvPkt p c hch => exact ⟨nc, rac1, rd⟩
  | recvClosed hch hc => exact ⟨nc, rac1, rd⟩
  | cancel =>
    constructor
    · intro h; simp at h
    · exact rac1
    · exact rd

/-! ### invariant 4: nothing is read past the first stopping error -/

structure InvS (s : St) : Prop where
  nsRun    : running s.pc = true → NoStop s.past
  nsPre    : ∀ pre ev, s.past = pre ++ [ev] → NoStop pre
  lastStop : running s.pc = false → s.cancelled = false → ∃ pre ev, s.past = pre ++ [ev] ∧ ev.isStop = true

theorem invS_init (h0 : List Ev) (c0 : Bool) : InvS (init h0 c0) := by
  constructor
  · intro _ ev hev; simp [init] at hev
  · intro pre ev h; simp [init] at h
  · intro h; simp [init, running] at h

theorem invS_step {cfg : Cfg} {s s' : St} {l : Label} (inv : InvS s) (hs : Step cfg s l s') : InvS s' := by
  obtain ⟨nsRun, nsPre, lastStop⟩ := inv
  cases hs with
  | checkGo hpc hc =>
    exact ⟨fun _ => nsRun (by simp [hpc, running]), nsPre, fun h => by simp [running] at h⟩
  | checkStop hpc hc =>
    exact ⟨fun h => by simp [running] at h, nsPre, fun _ h => by simp [hc] at h⟩
  | readPkt d ci hh hpc hhist =>
    have hn := nsRun (by simp [hpc, running])
    refine ⟨fun _ => hn.append ?_, ?_, fun h => by simp [running] at h⟩
    · intro ev hev; simp at hev; subst hev; rfl
    · intro pre ev h
      have := List.append_inj' h rfl
      rw [← this.1]; exact hn
  | readRetry e hh hpc hhist hcl =>
    have hn := nsRun (by simp [hpc, running])
    refine ⟨fun _ => hn.append ?_, ?_, fun h => by simp [running] at h⟩
    · intro ev hev; simp at hev; subst hev; simp [Ev.isStop, hcl]
    · intro pre ev h
      have := List.append_inj' h rfl
      rw [← this.1]; exact hn
  | readStop e hh hpc hhist hcl =>
    have hn := nsRun (by simp [hpc, running])
    refine ⟨fun h => by simp [running] at h, ?_, fun _ _ => ⟨s.past, .err e, rfl, by simp [Ev.isStop, hcl]⟩⟩
    intro pre ev h
    have := List.append_inj' h rfl
    rw [← this.1]; exact hn
  | send p hpc hl =>
    exact ⟨fun _ => nsRun (by simp [hpc, running]), nsPre, fun h => by simp [running] at h⟩
  | selCancel p hpc hc =>
    exact ⟨fun h => by simp [running] at h, nsPre, fun _ h => by simp [hc] at h⟩
  | close hpc =>
    exact ⟨fun h => by simp [running] at h, nsPre, fun _ hc => lastStop (by simp [hpc, running]) hc⟩
  | recvPkt p c hch => exact ⟨nsRun, nsPre, lastStop⟩
  | recvClosed hch hc => exact ⟨nsRun, nsPre, lastStop⟩
  | cancel => exact ⟨nsRun, nsPre, fun _ h => by simp at h⟩

/-! ### invariant 5: memory — delivered packets stay intact -/

theorem getElem?_append_of_some {α : Type} {l m : List α} {i : Nat} {x : α} (h : l[i]? = some x) :
    (l ++ m)[i]? = some x := by
  have hi : i < l.length := by
    rcases List.getElem?_eq_some_iff.mp h with ⟨hi, _⟩; exact hi
  rw [List.getElem?_append_left hi]; exact h

theorem decode_len (cfg : Cfg) (h : Heap) (d : Bytes) (ci : CapInfo) :
    (decode cfg h d ci).2.len = d.length ∧ (decode cfg h d ci).2.orig = d ∧ (decode cfg h d ci).2.ci = ci := by
  simp [decode]

/-- Buffers other than the source's own buffer are never written by a read + decode. -/
theorem decode_heap_mono (cfg : Cfg) (h : Heap) (d : Bytes) (ci : CapInfo) (r : Ref) (x : Bytes)
    (hr : r ≠ .src) (hx : h.read r = some x) : (decode cfg h d ci).1.read r = some x := by
  cases r with
  | src => exact absurd rfl hr
  | own i =>
    simp only [Heap.read] at hx
    cases hre : cfg.reuse <;> cases hnc : cfg.noCopy <;>
      simp [decode, srcDeliver, newPacketData, Heap.alloc, Heap.read, hre, hnc, getElem?_append_of_some, hx]

/-- In a stable configuration the new packet lives in a fresh buffer holding exactly its bytes. -/
theorem decode_fresh (cfg : Cfg) (h : Heap) (d : Bytes) (ci : CapInfo) (hst : Stable cfg) :
    (decode cfg h d ci).2.ref ≠ .src ∧ (decode cfg h d ci).1.read (decode cfg h d ci).2.ref = some d := by
  cases hre : cfg.reuse <;> cases hnc : cfg.noCopy <;>
    simp [decode, srcDeliver, newPacketData, Heap.alloc, Heap.read, hre, hnc]
  rcases hst with h1 | h1 <;> simp_all

/-- Right after the read, `Data()` is the data that was read — in EVERY configuration. -/
theorem decode_view (cfg : Cfg) (h : Heap) (d : Bytes) (ci : CapInfo) :
    view (decode cfg h d ci).1 (decode cfg h d ci).2 = some d := by
  cases hre : cfg.reuse <;> cases hnc : cfg.noCopy <;>
    simp [view, decode, srcDeliver, newPacketData, Heap.alloc, Heap.read, hre, hnc, overwrite]

structure InvM (cfg : Cfg) (s : St) : Prop where
  len    : ∀ p ∈ s.all, p.len = p.orig.length
  intact : Stable cfg → ∀ p ∈ s.all, p.ref ≠ .src ∧ s.heap.read p.ref = some p.orig

theorem invM_init (cfg : Cfg) (h0 : List Ev) (c0 : Bool) : InvM cfg (init h0 c0) := by
  constructor
  · intro p hp; simp [init, St.all, inflight] at hp
  · intro _ p hp; simp [init, St.all, inflight] at hp

/-- A step either keeps the multiset-in-order of decoded packets and the heap, or appends the
    freshly decoded packet. -/
theorem all_step {cfg : Cfg} {h0 : List Ev} {s s' : St} {l : Label} (inv : InvH cfg h0 s) (hs : Step cfg s l s') :
    (s'.all = s.all ∧ s'.heap = s.heap) ∨
    (∃ d ci, s'.all = s.all ++ [(decode cfg s.heap d ci).2] ∧ s'.heap = (decode cfg s.heap d ci).1) := by
  cases hs with
  | checkGo hpc hc => left; simp [St.all, inflight, hpc]
  | checkStop hpc hc => left; simp [St.all, inflight, hpc]
  | readPkt d ci hh hpc hhist =>
    right
    have hd : s.dropped = [] := inv.drRun (by simp [hpc, running])
    exact ⟨d, ci, by simp [St.all, inflight, hpc, hd], rfl⟩
  | readRetry e hh hpc hhist hcl => left; simp [St.all, inflight, hpc]
  | readStop e hh hpc hhist hcl => left; simp [St.all, inflight, hpc]
  | send p hpc hl => left; simp [St.all, inflight, hpc]
  | selCancel p hpc hc =>
    left
    have hd : s.dropped = [] := inv.drRun (by simp [hpc, running])
    simp [St.all, inflight, hpc, hd]
  | close hpc => left; simp [St.all, inflight, hpc]
  | recvPkt p c hch => left; simp [St.all, hch]
  | recvClosed hch hc => left; simp [St.all]
  | cancel => left; simp [St.all]

theorem invM_step {cfg : Cfg} {h0 : List Ev} {s s' : St} {l : Label}
    (invH : InvH cfg h0 s) (inv : InvM cfg s) (hs : Step cfg s l s') : InvM cfg s' := by
  rcases all_step invH hs with ⟨ha, hh⟩ | ⟨d, ci, ha, hh⟩
  · exact ⟨by rw [ha]; exact inv.len, by rw [ha, hh]; exact inv.intact⟩
  · constructor
    · intro p hp
      rw [ha] at hp
      rcases List.mem_append.mp hp with hp | hp
      · exact inv.len p hp
      · simp at hp; subst hp; simp [decode_len]
    · intro hst p hp
      rw [ha] at hp
      rw [hh]
      rcases List.mem_append.mp hp with hp | hp
      · have := inv.intact hst p hp
        exact ⟨this.1, decode_heap_mono cfg s.heap d ci p.ref p.orig this.1 this.2⟩
      · simp at hp; subst hp
        have := decode_fresh cfg s.heap d ci hst
        exact ⟨this.1, by rw [this.2, (decode_len cfg s.heap d ci).2.1]⟩

/-! ### all invariants hold in every reachable state -/

structure Inv (cfg : Cfg) (h0 : List Ev) (s : St) : Prop where
  h  : InvH cfg h0 s
  k  : InvK s
  c  : InvC s
  st : InvS s
  m  : InvM cfg s

theorem inv_reachable {cfg : Cfg} {h0 : List Ev} {c0 : Bool} {s : St}
    (hr : Reachable cfg (init h0 c0) s) : Inv cfg h0 s := by
  induction hr with
  | refl => exact ⟨invH_init cfg h0 c0, invK_init h0 c0, invC_init h0 c0, invS_init h0 c0, invM_init cfg h0 c0⟩
  | step l _ hst ih =>
    have hs := step_sound hst
    exact ⟨invH_step ih.h hs, invK_step ih.k hs, invC_step ih.c hs, invS_step ih.st hs, invM_step ih.h ih.m hs⟩

/-! ### progress and termination -/

theorem measure_step {cfg : Cfg} {s s' : St} {l : Label} (hs : Step cfg s l s') :
    (l.isProd = true → measure s' < measure s) ∧ (l.isProd = false → measure s' = measure s) := by
  cases hs <;> simp_all [measure, pcRank, Label.isProd] <;> omega

theorem cancelled_mono {cfg : Cfg} {s s' : St} {l : Label} (hs : Step cfg s l s') (hc : s.cancelled = true) :
    s'.cancelled = true := by
  cases hs <;> simp_all

theorem cancelRank_step {cfg : Cfg} {s s' : St} {l : Label} (hs : Step cfg s l s') (hc : s.cancelled = true) :
    (l.isProd = true → cancelRank s'.pc < cancelRank s.pc) ∧ (l.isProd = false → s'.pc = s.pc) := by
  cases hs <;> simp_all [cancelRank, Label.isProd]

theorem drain_all (s : St) :
    drain s.chan.length s = some { s with chan := [], recvd := s.recvd ++ s.chan } := by
  generalize hc : s.chan = c
  induction c generalizing s with
  | nil => cases s; simp_all [drain]
  | cons p c ih =>
    simp only [List.length_cons, drain, stepRecv, hc]
    have := ih { s with chan := c, recvd := s.recvd ++ [p] } rfl
    simp only [this]
    simp

theorem prod_enabled (cfg : Cfg) (s : St) (hne : s.pc ≠ .exited) (hrd : s.pc = .reading → s.hist ≠ [])
    (hsd : ∀ p, s.pc = .sending p → s.chan.length < cfg.cap ∨ s.cancelled = true) :
    ∃ l, l.isProd = true ∧ (step cfg s l).isSome = true := by
  cases hpc : s.pc with
  | check =>
    refine ⟨.check, rfl, ?_⟩
    simp only [step, stepCheck, hpc]
    split <;> rfl
  | reading =>
    refine ⟨.readRet, rfl, ?_⟩
    cases hh : s.hist with
    | nil => exact absurd hh (hrd hpc)
    | cons ev h =>
      simp only [step, stepReadRet, hpc, hh]
      cases ev with
      | pkt d ci => rfl
      | err e => simp only []; split <;> rfl
  | sending p =>
    rcases hsd p hpc with h | h
    · exact ⟨.send, rfl, by simp [step, stepSend, hpc, h]⟩
    · exact ⟨.selCancel, rfl, by simp [step, stepSelCancel, hpc, h]⟩
  | closing => exact ⟨.close, rfl, by simp [step, stepClose, hpc]⟩
  | exited => exact absurd hpc hne

theorem reachable_trans {cfg : Cfg} {a b c : St} (h1 : Reachable cfg a b) (h2 : Reachable cfg b c) :
    Reachable cfg a c := by
  induction h2 with
  | refl => exact h1
  | step l _ hst ih => exact .step l ih hst

theorem runLabels_reachable {cfg : Cfg} {s s' : St} {ls : List Label} (h : runLabels cfg s ls = some s') :
    Reachable cfg s s' := by
  induction ls generalizing s with
  | nil => simp [runLabels] at h; subst h; exact .refl
  | cons l ls ih =>
    simp only [runLabels] at h
    split at h
    · cases h
    · rename_i s1 hs1
      exact reachable_trans (.step l .refl hs1) (ih h)

theorem recvd_mono {cfg : Cfg} {s s' : St} (h : Reachable cfg s s') : ∃ t, s'.recvd = s.recvd ++ t := by
  induction h with
  | refl => exact ⟨[], by simp⟩
  | step l _ hst ih =>
    rcases ih with ⟨t, ht⟩
    cases step_sound hst with
    | recvPkt p c hch => exact ⟨t ++ [p], by simp [ht]⟩
    | _ => exact ⟨t, by simpa using ht⟩

end Gp.PSource
