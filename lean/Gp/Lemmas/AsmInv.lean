/-
  One induction principle for arbitrary invariants of the whole pool (connections + pageCache.used +
  options): it suffices to show that writing back ONE connection step preserves the invariant.
  Used for the page accounting, the limit bounds and flush-all emptiness (C11).
-/
import Gp.Lemmas.AsmLog

namespace Gp.Asm

def freshConn (ts : Int) (sid : Nat) : Conn := ⟨invalidSeq, [], 0, ts, sid⟩

structure PoolStepInv (A : SeqArith) (Inv : Pool → Prop) (Pre : Seg → Prop) (optOk : Bool) : Prop where
  sorted : ∀ P, Inv P → KeysSorted P.conns
  opt : optOk = true → ∀ P a b, Inv P → Inv { P with lim := ⟨a, b⟩ }
  asmOld : ∀ P s c, Inv P → Pre s → lookup s.key P.conns = some c →
    ∃ st, assembleConn A P.lim c P.used s = .ok st ∧ Inv (putBack P s.key st)
  asmNew : ∀ P s, Inv P → Pre s → lookup s.key P.conns = none →
    ∃ st, assembleConn A P.lim (freshConn s.ts P.nextSid) P.used s = .ok st ∧
      Inv (putBack { P with nextSid := P.nextSid + 1 } s.key st)
  flush : ∀ P k c T ca, Inv P → lookup k P.conns = some c →
    Inv (putBack P k (flushConn A T ca c P.used).1)
  flushAll : ∀ P k c, Inv P → lookup k P.conns = some c →
    Inv (putBack P k (flushAllConn A c P.used))

def OpPre' (Pre : Seg → Prop) (optOk : Bool) : Op → Prop
  | .seg s => Pre s
  | .opt _ _ => optOk = true
  | _ => True

theorem assemble_inv {A : SeqArith} {Inv : Pool → Prop} {Pre : Seg → Prop} {o : Bool}
    (hI : PoolStepInv A Inv Pre o) (P : Pool) (s : Seg) (h : Inv P) (hs : Pre s) :
    ∃ x, assemble A P s = .ok x ∧ Inv x.1 := by
  unfold assemble
  split
  · exact ⟨_, rfl, h⟩
  · cases hl : lookup s.key P.conns with
    | some c =>
      dsimp only
      obtain ⟨st, hst, hq⟩ := hI.asmOld P s c h hs hl
      rw [hst]
      exact ⟨_, rfl, hq⟩
    | none =>
      dsimp only
      split
      · exact ⟨_, rfl, h⟩
      · obtain ⟨st, hst, hq⟩ := hI.asmNew P s h hs hl
        have e : assembleConn A (newConn P s.ts).2.lim (newConn P s.ts).1 (newConn P s.ts).2.used s
            = assembleConn A P.lim (freshConn s.ts P.nextSid) P.used s := rfl
        rw [e, hst]
        exact ⟨_, rfl, hq⟩

theorem flushWithList_inv {A : SeqArith} {Inv : Pool → Prop} {Pre : Seg → Prop} {o : Bool}
    (hI : PoolStepInv A Inv Pre o) (T : Int) (ca : Bool) (cs : List (Nat × Conn)) (acc : FlushRes)
    (hcs : KeysSorted cs) (hin : ∀ k c, (k, c) ∈ cs → lookup k acc.pool.conns = some c)
    (h : Inv acc.pool) : Inv (flushWithList A T ca cs acc).pool := by
  induction cs generalizing acc with
  | nil => exact h
  | cons x cs ih =>
    obtain ⟨k, c⟩ := x
    unfold KeysSorted at hcs
    rw [List.pairwise_cons] at hcs
    simp only [flushWithList]
    apply ih _ hcs.2
    · intro k' c' hm
      have hlt := hcs.1 (k', c') hm
      have hne : k' ≠ k := by simp at hlt; omega
      show lookup k' (putBack acc.pool k _).conns = some c'
      rw [lookup_putBack_ne _ _ _ _ (hI.sorted _ h) hne]
      exact hin k' c' (List.mem_cons_of_mem _ hm)
    · exact hI.flush acc.pool k c T ca h (hin k c List.mem_cons_self)

/-- FlushAll additionally tells which connections are left: the result of the fold only contains
    keys that were not visited. -/
theorem flushAllList_inv {A : SeqArith} {Inv : Pool → Prop} {Pre : Seg → Prop} {o : Bool}
    (hI : PoolStepInv A Inv Pre o) (cs : List (Nat × Conn)) (acc : FlushRes)
    (hcs : KeysSorted cs) (hin : ∀ k c, (k, c) ∈ cs → lookup k acc.pool.conns = some c)
    (h : Inv acc.pool) : Inv (flushAllList A cs acc).pool := by
  induction cs generalizing acc with
  | nil => exact h
  | cons x cs ih =>
    obtain ⟨k, c⟩ := x
    unfold KeysSorted at hcs
    rw [List.pairwise_cons] at hcs
    simp only [flushAllList]
    apply ih _ hcs.2
    · intro k' c' hm
      have hlt := hcs.1 (k', c') hm
      have hne : k' ≠ k := by simp at hlt; omega
      show lookup k' (putBack acc.pool k _).conns = some c'
      rw [lookup_putBack_ne _ _ _ _ (hI.sorted _ h) hne]
      exact hin k' c' (List.mem_cons_of_mem _ hm)
    · exact hI.flushAll acc.pool k c h (hin k c List.mem_cons_self)

theorem step_inv {A : SeqArith} {Inv : Pool → Prop} {Pre : Seg → Prop} {o : Bool}
    (hI : PoolStepInv A Inv Pre o) (P : Pool) (op : Op) (h : Inv P) (hop : OpPre' Pre o op) :
    ∃ x, step A P op = .ok x ∧ Inv x.1 := by
  cases op with
  | opt a b => exact ⟨_, rfl, hI.opt hop P a b h⟩
  | seg s =>
    obtain ⟨x, hx, hq⟩ := assemble_inv hI P s h hop
    simp only [step, hx]
    exact ⟨_, rfl, hq⟩
  | flush T ca =>
    exact ⟨_, rfl, flushWithList_inv hI T ca P.conns _ (hI.sorted _ h)
      (fun k c hm => lookup_of_mem k c _ (hI.sorted _ h) hm) h⟩
  | flushAll =>
    exact ⟨_, rfl, flushAllList_inv hI P.conns _ (hI.sorted _ h)
      (fun k c hm => lookup_of_mem k c _ (hI.sorted _ h) hm) h⟩

theorem run_inv {A : SeqArith} {Inv : Pool → Prop} {Pre : Seg → Prop} {o : Bool}
    (hI : PoolStepInv A Inv Pre o) (P : Pool) (ops : List Op) (h : Inv P)
    (hops : ∀ op ∈ ops, OpPre' Pre o op) :
    ∃ x, run A P ops = .ok x ∧ Inv x.1 := by
  induction ops generalizing P with
  | nil => exact ⟨_, rfl, h⟩
  | cons op ops ih =>
    obtain ⟨x, hx, hq⟩ := step_inv hI P op h (hops op List.mem_cons_self)
    obtain ⟨y, hy, hq'⟩ := ih x.1 hq (fun o ho => hops o (List.mem_cons_of_mem _ ho))
    simp only [run, hx, hy]
    exact ⟨_, rfl, hq'⟩

end Gp.Asm
