import Gp.Lemmas.PoolReasmU
/-
  Tools for concrete `ReachableR NoStale` witnesses of the reassembly LTS in which objects ARE recycled:
  a step changes only the thread that moves, threads without a program never move, so `NoStale` (which
  quantifies over all threads) can be decided by looking at the first `n` threads.
-/
namespace Gp.Pool.Reasm
open Gp.Pool

theorem advance_thr_other (s : State) (t t' : Tid) (h : t' ≠ t) : (advance s t).thr t' = s.thr t' := by
  unfold advance; dsimp only; split <;> simp [finishOp, h]

theorem flushEnd_thr_other (s : State) (t : Tid) (c : CId) (t' : Tid) (h : t' ≠ t) :
    (flushEnd s t c).thr t' = s.thr t' := by
  unfold flushEnd; dsimp only
  split
  · rw [advance_thr_other _ _ _ h]; rfl
  · split
    · simp [h]
    · rw [advance_thr_other _ _ _ h]; rfl

theorem flushHalves_thr_other (t : Tid) (c : CId) (hs : List Bool) (t' : Tid) (h : t' ≠ t) :
    ∀ s : State, (flushHalves s t c hs).thr t' = s.thr t' := by
  induction hs with
  | nil => intro s; exact flushEnd_thr_other s t c t' h
  | cons hb hs ih =>
    intro s
    unfold flushHalves; dsimp only
    split
    · exact ih s
    · split
      · split <;> simp [doPanic, h]
      · split
        · split
          · split <;> simp [doPanic, h]
          · rw [ih]; rfl
        · exact ih s

theorem afterCloseHalf_thr_other (s : State) (t : Tid) (c : CId) (t' : Tid) (h : t' ≠ t) :
    (afterCloseHalf s t c).thr t' = s.thr t' := by
  unfold afterCloseHalf; dsimp only
  split
  · split <;> simp [doPanic, h]
  · rw [advance_thr_other _ _ _ h]; rfl

/-- A step changes only the thread that moves. -/
theorem step_thr_other {fixed : Bool} {s s' : State} {t : Tid} (hs : step fixed s t = some s') (t' : Tid) (h : t' ≠ t) :
    s'.thr t' = s.thr t' := by
  unfold step at hs
  split at hs
  · simp only [stepStart, finishOp] at hs
    repeat' split at hs
    all_goals first
      | (cases hs; done)
      | (cases hs; simp [h])
  · simp only [stepIns, doPanic] at hs
    repeat' split at hs
    all_goals first
      | (cases hs; done)
      | (cases hs; simp [h])
  · simp only [stepLock] at hs
    repeat' split at hs
    all_goals first
      | (cases hs; done)
      | (cases hs; rw [flushHalves_thr_other _ _ _ _ h]; rfl)
      | (cases hs; rw [advance_thr_other _ _ _ h]; rfl)
      | (cases hs; simp [doPanic, h])
  · simp only [stepCb] at hs
    repeat' split at hs
    all_goals first
      | (cases hs; done)
      | (cases hs; rw [flushHalves_thr_other _ _ _ _ h]; rfl)
      | (cases hs; rw [afterCloseHalf_thr_other _ _ _ _ h]; rfl)
      | (cases hs; rw [advance_thr_other _ _ _ h]; rfl)
      | (cases hs; simp [doPanic, h])
  · simp only [stepRm] at hs
    split at hs
    · cases hs; rw [flushHalves_thr_other _ _ _ _ h, doRemove_thr]
    · cases hs; rw [advance_thr_other _ _ _ h]; simp [doRemove_thr]
  · simp only [stepRm2] at hs
    cases hs; rw [advance_thr_other _ _ _ h, doRemove_thr]
  · cases hs

/-- threads `n, n+1, …` are in their initial state and have no program -/
def Idle (n : Nat) (s : State) : Prop := ∀ t, n ≤ t → s.thr t = {}

theorem idle_init (n : Nat) (progs : Tid → List Op) (h : ∀ t, n ≤ t → progs t = []) : Idle n (init progs) := by
  intro t ht; simp [init, h t ht]

theorem idle_step {fixed : Bool} {n : Nat} {s s' : State} {t : Tid} (hI : Idle n s) (hs : step fixed s t = some s') :
    Idle n s' := by
  have ht : ¬ n ≤ t := by
    intro hle
    have e := hI t hle
    simp [step, stepStart, e] at hs
  intro t' ht'
  have hne : t' ≠ t := by intro e; exact ht (e ▸ ht')
  rw [step_thr_other hs t' hne]; exact hI t' ht'

def ptrsB (th : Thread) (c : CId) : Bool :=
  (th.pc.ptr == some c) || (match th.snap with | some l => l.contains c | none => false)

theorem ptrsB_of_pointsTo {th : Thread} {c : CId} (h : pointsTo th c) : ptrsB th c = true := by
  unfold ptrsB
  rcases h with e | ⟨l, e1, e2⟩
  · simp [e]
  · simp [e1, e2]

/-- `NoStale`, decided on the first `n` threads. -/
def noStaleB (n : Nat) (s : State) (t : Tid) : Bool :=
  match (s.thr t).pc, s.free with
  | .ins _, c :: _ => !(List.range n).any (fun t' => ptrsB (s.thr t') c)
  | _, _ => true

theorem noStale_of_noStaleB (n : Nat) (s : State) (t : Tid) (hI : Idle n s) (h : noStaleB n s t = true) : NoStale s t := by
  intro ⟨sid, c, f, hpc, hf, t', hpt⟩
  by_cases hlt : t' < n
  · have hb := ptrsB_of_pointsTo hpt
    have : (List.range n).any (fun t' => ptrsB (s.thr t') c) = true :=
      List.any_eq_true.2 ⟨t', List.mem_range.2 hlt, hb⟩
    simp [noStaleB, hpc, hf, this] at h
  · have e := hI t' (Nat.le_of_not_lt hlt)
    rw [e] at hpt
    rcases hpt with e1 | ⟨l, e1, _⟩
    · cases e1
    · cases e1

end Gp.Pool.Reasm
