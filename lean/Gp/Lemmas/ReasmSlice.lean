import Gp.Model.ReasmSpec
/-
  Helper lemmas for C09 (layer B): slices of the sender stream, `At`, overwrite.
-/
namespace Gp.Reasm
open Gp

theorem slice_length (S : List UInt8) (o n : Nat) (h : o + n ≤ S.length) : (slice S o n).length = n := by
  simp [slice, List.length_take, List.length_drop]; omega

theorem slice_zero (S : List UInt8) (o : Nat) : slice S o 0 = [] := by simp [slice]

theorem slice_take (S : List UInt8) (o n k : Nat) (h : k ≤ n) : (slice S o n).take k = slice S o k := by
  simp [slice, List.take_take, Nat.min_eq_left h]

theorem slice_drop (S : List UInt8) (o n k : Nat) : (slice S o n).drop k = slice S (o + k) (n - k) := by
  simp [slice, List.drop_take, List.drop_drop]

theorem slice_append (S : List UInt8) (o n m : Nat) : slice S o n ++ slice S (o + n) m = slice S o (n + m) := by
  simp only [slice]
  rw [List.take_add, List.drop_drop]

theorem overwrite_slice (S : List UInt8) (o n k m : Nat) (h : k + m ≤ n) (hS : o + n ≤ S.length) :
    overwrite (slice S o n) k (slice S (o + k) m) = slice S o n := by
  have hm : (slice S (o + k) m).length = m := slice_length S (o + k) m (by omega)
  simp only [overwrite, hm]
  rw [slice_take S o n k (by omega), slice_drop, slice_append, slice_append]
  congr 1; omega

theorem At.len {S : List UInt8} {b seq : Int} {bytes : List UInt8} (h : At S b seq bytes) :
    b ≤ seq ∧ seq + bytes.length ≤ b + S.length := by
  obtain ⟨o, h1, h2, _⟩ := h; omega

theorem At.take {S : List UInt8} {b seq : Int} {bytes : List UInt8} (h : At S b seq bytes) (k : Nat) :
    At S b seq (bytes.take k) := by
  obtain ⟨o, h1, h2, h3⟩ := h
  refine ⟨o, h1, ?_, ?_⟩
  · simp [List.length_take]; omega
  · rw [List.length_take]
    conv => lhs; rw [h3]
    by_cases hk : k ≤ bytes.length
    · rw [slice_take S o bytes.length k hk, Nat.min_eq_left hk]
    · have hk' : bytes.length ≤ k := by omega
      rw [Nat.min_eq_right hk', List.take_of_length_le]
      rw [slice_length S o bytes.length h2]; exact hk'

theorem At.drop {S : List UInt8} {b seq : Int} {bytes : List UInt8} (h : At S b seq bytes) (k : Nat)
    (hk : k ≤ bytes.length) : At S b (seq + k) (bytes.drop k) := by
  obtain ⟨o, h1, h2, h3⟩ := h
  refine ⟨o + k, by omega, ?_, ?_⟩
  · simp [List.length_drop]; omega
  · rw [List.length_drop]
    conv => lhs; rw [h3]
    rw [slice_drop]

theorem At.nil {S : List UInt8} {b seq : Int} (h1 : b ≤ seq) (h2 : seq ≤ b + S.length) : At S b seq [] := by
  refine ⟨(seq - b).toNat, by omega, by simp; omega, by simp [slice_zero]⟩

/-- two consistent chunks agree where they overlap: writing one into the other changes nothing -/
theorem At.overwrite {S : List UInt8} {b s1 s2 : Int} {b1 b2 : List UInt8} (h1 : At S b s1 b1) (h2 : At S b s2 b2)
    (hs : s1 ≤ s2) (he : s2 + b2.length ≤ s1 + b1.length) :
    Reasm.overwrite b1 (s2 - s1).toNat b2 = b1 := by
  obtain ⟨o1, e1, l1, c1⟩ := h1
  obtain ⟨o2, e2, l2, c2⟩ := h2
  have : (s2 - s1).toNat = o2 - o1 := by omega
  rw [this]
  have ho : o2 = o1 + (o2 - o1) := by omega
  rw [c1, c2]
  have := overwrite_slice S o1 b1.length (o2 - o1) b2.length (by omega) (by omega)
  rw [← ho] at this
  exact this

/-- adjacent consistent chunks concatenate to a consistent chunk -/
theorem At.append {S : List UInt8} {b s : Int} {b1 b2 : List UInt8} (h1 : At S b s b1) (h2 : At S b (s + b1.length) b2) :
    At S b s (b1 ++ b2) := by
  obtain ⟨o1, e1, l1, c1⟩ := h1
  obtain ⟨o2, e2, l2, c2⟩ := h2
  have ho : o2 = o1 + b1.length := by omega
  refine ⟨o1, e1, by simp; omega, ?_⟩
  rw [List.length_append, ← slice_append, ← ho, ← c1, ← c2]

theorem At.split {S : List UInt8} {b s : Int} {b1 b2 : List UInt8} (h : At S b s (b1 ++ b2)) :
    At S b s b1 ∧ At S b (s + b1.length) b2 := by
  have h1 := h.take b1.length
  have h2 := h.drop b1.length (by simp)
  simp at h1 h2
  exact ⟨h1, h2⟩

/-- a consistent chunk is determined by its position and length -/
theorem At.ext {S : List UInt8} {b s : Int} {b1 b2 : List UInt8} (h1 : At S b s b1) (h2 : At S b s b2)
    (hl : b1.length = b2.length) : b1 = b2 := by
  obtain ⟨o1, e1, _, c1⟩ := h1
  obtain ⟨o2, e2, _, c2⟩ := h2
  have : o1 = o2 := by omega
  rw [c1, c2, this, hl]

end Gp.Reasm
