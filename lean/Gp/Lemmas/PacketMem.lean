import Gp.Model.PacketMem
/-
  Helper lemmas for C04 (where a packet's bytes live).  Core Lean only.
  Definitions used in the statements of Gp/Props/C04.lean first, proof machinery after.
-/
namespace Gp.PktMem
open Gp Gp.Pkt

/-! ## Definitions used in the property statements -/

/-- Invariant of the pool system: live pooled packets own pairwise distinct blocks, none of which
    is in the bag; the bag holds no block twice; every live packet's block still starts with the
    bytes that were decoded; all ids are in range and packet ids are unique. -/
structure PoolInv (s : PoolSt) : Prop where
  liveDistinct : s.live.Pairwise (fun a b => a.blk ≠ b.blk)
  liveNotInBag : ∀ l ∈ s.live, l.blk ∉ s.bag
  bagNodup     : s.bag.Nodup
  liveInRange  : ∀ l ∈ s.live, l.blk < s.blocks.length
  bagInRange   : ∀ b ∈ s.bag, b < s.blocks.length
  pidFresh     : ∀ l ∈ s.live, l.pid < s.nextPid
  pidDistinct  : s.live.Pairwise (fun a b => a.pid ≠ b.pid)
  intact       : ∀ l ∈ s.live, ∃ blk, s.blocks[l.blk]? = some blk ∧ blk.take l.bytes.length = l.bytes
  blockSize    : ∀ blk ∈ s.blocks, blk.length = Gp.Gen.Pkt.maximumMTU

/-- A sequence of writes into one buffer (the caller scribbling over its input). -/
def writes (h : Heap) (buf : BufId) : List (Nat × Bytes) → Heap
  | [] => h
  | (off, src) :: rest => writes (h.write buf off src) buf rest

/-! ## Heap plumbing -/

theorem overwrite_length (b : Bytes) (off : Nat) (src : Bytes) (h : off + src.length ≤ b.length) :
    (overwrite b off src).length = b.length := by
  simp [overwrite, List.length_take, List.length_drop]; omega

theorem overwrite_zero_take (blk bytes : Bytes) (h : bytes.length ≤ blk.length) :
    (overwrite blk 0 bytes).take bytes.length = bytes := by
  simp [overwrite, h, List.take_of_length_le]

theorem read_length (h : Heap) (v : View) (bs : Bytes) (hr : h.read v = some bs) : bs.length = v.len := by
  unfold Heap.read at hr
  split at hr
  · cases hr
  · split at hr
    · cases hr; simp [List.length_take, List.length_drop]; omega
    · cases hr

theorem read_write_other (h : Heap) (buf : BufId) (off : Nat) (src : Bytes) (v : View) (hne : buf ≠ v.buf) :
    (h.write buf off src).read v = h.read v := by
  unfold Heap.write
  split
  · rfl
  · simp only [Heap.read]
    rw [List.getElem?_set_ne hne]

theorem read_alloc_old (h : Heap) (b : Bytes) (v : View) (hv : v.buf < h.bufs.length) :
    (h.alloc b).1.read v = h.read v := by
  simp only [Heap.alloc, Heap.read]
  rw [List.getElem?_append_left hv]

theorem read_alloc_new (h : Heap) (b : Bytes) (n : Nat) (hn : n ≤ b.length) :
    (h.alloc b).1.read ⟨h.bufs.length, 0, n⟩ = some (b.take n) := by
  simp [Heap.alloc, Heap.read, hn]

theorem read_some_lt (h : Heap) (v : View) (bs : Bytes) (hr : h.read v = some bs) : v.buf < h.bufs.length := by
  unfold Heap.read at hr
  split at hr
  · cases hr
  · rename_i b hb
    exact (List.getElem?_eq_some_iff.mp hb).1

theorem read_write_same (h : Heap) (b : BufId) (blk bytes : Bytes) (hb : h.bufs[b]? = some blk)
    (hl : bytes.length ≤ blk.length) :
    (h.write b 0 bytes).read ⟨b, 0, bytes.length⟩ = some bytes := by
  have hlt : b < h.bufs.length := (List.getElem?_eq_some_iff.mp hb).1
  simp only [Heap.write, hb, Heap.read]
  rw [List.getElem?_set_self hlt]
  have : (overwrite blk 0 bytes).length = blk.length := overwrite_length blk 0 bytes (by omega)
  simp only [this, Nat.zero_add, hl, if_true, List.drop_zero]
  rw [overwrite_zero_take blk bytes hl]

/-! ## NewPacket's data handling -/

/-- Whatever the options and whatever the pool hands out, the packet's data reads back as exactly
    the caller's bytes (a pooled block is resliced to len; its stale tail is not part of the data). -/
theorem newData_reads_same (h : Heap) (noCopy pool : Bool) (src : View) (g : GetChoice)
    (h' : Heap) (dv : View) (blk : Option BufId)
    (hn : newData h noCopy pool src g = some (h', dv, blk)) : h'.read dv = h.read src := by
  unfold newData at hn
  cases hr : h.read src with
  | none => rw [hr] at hn; cases hn
  | some bytes =>
    have hlen := read_length h src bytes hr
    rw [hr] at hn
    simp only at hn
    cases hk : memKind noCopy pool src.len with
    | alias => rw [hk] at hn; simp at hn; obtain ⟨rfl, rfl, _⟩ := hn; exact hr
    | copy =>
      rw [hk] at hn; simp [Heap.alloc] at hn
      obtain ⟨rfl, rfl, _⟩ := hn
      have := read_alloc_new h bytes src.len (by omega)
      simp only [Heap.alloc] at this
      rw [this, ← hlen, List.take_length]
    | pool =>
      rw [hk] at hn
      cases g with
      | brandNew =>
        simp [Heap.alloc] at hn
        obtain ⟨rfl, rfl, _⟩ := hn
        have := read_alloc_new h (bytes ++ List.replicate (Gp.Gen.Pkt.maximumMTU - src.len) 0) src.len (by simp; omega)
        simp only [Heap.alloc] at this
        rw [this, ← hlen, List.take_left' rfl]
      | cached b =>
        simp only at hn
        cases hb : h.bufs[b]? with
        | none => rw [hb] at hn; cases hn
        | some blk' =>
          rw [hb] at hn
          simp only at hn
          split at hn
          · rename_i hle
            cases hn
            rw [← hlen]
            exact read_write_same h b blk' bytes hb (by omega)
          · cases hn

/-- Without NoCopy the packet's data lives in a buffer different from the caller's (a fresh one, or a
    pooled block — provided the caller's buffer is not itself a block lying in the pool). -/
theorem newData_default_disjoint (h : Heap) (pool : Bool) (src : View) (g : GetChoice)
    (h' : Heap) (dv : View) (blk : Option BufId)
    (hg : ∀ b, g = .cached b → b ≠ src.buf)
    (hn : newData h false pool src g = some (h', dv, blk)) : dv.buf ≠ src.buf := by
  unfold newData at hn
  cases hr : h.read src with
  | none => rw [hr] at hn; cases hn
  | some bytes =>
    have hlt := read_some_lt h src bytes hr
    rw [hr] at hn
    simp only at hn
    cases hk : memKind false pool src.len with
    | alias => simp [memKind] at hk; split at hk <;> cases hk
    | copy =>
      rw [hk] at hn; simp [Heap.alloc] at hn
      obtain ⟨_, rfl, _⟩ := hn
      exact Nat.ne_of_gt hlt
    | pool =>
      rw [hk] at hn
      cases g with
      | brandNew =>
        simp [Heap.alloc] at hn
        obtain ⟨_, rfl, _⟩ := hn
        exact Nat.ne_of_gt hlt
      | cached b =>
        simp only at hn
        cases hb : h.bufs[b]? with
        | none => rw [hb] at hn; cases hn
        | some blk' =>
          rw [hb] at hn
          simp only at hn
          split at hn
          · cases hn; exact hg b rfl
          · cases hn

theorem observe_write_other (h : Heap) (buf : BufId) (off : Nat) (src : Bytes) (dv : View) (p : Pkt)
    (hne : buf ≠ dv.buf) : observe (h.write buf off src) dv p = observe h dv p := by
  simp only [observe, read_write_other h buf off src dv hne]

theorem observe_writes_other (buf : BufId) (dv : View) (p : Pkt) (hne : buf ≠ dv.buf) :
    ∀ (ws : List (Nat × Bytes)) (h : Heap), observe (writes h buf ws) dv p = observe h dv p := by
  intro ws
  induction ws with
  | nil => intro h; rfl
  | cons w rest ih =>
    intro h
    obtain ⟨off, src⟩ := w
    simp only [writes]
    rw [ih, observe_write_other h buf off src dv p hne]

/-! ## The pool invariant is inductive -/

theorem pairwise_mem {α} {R : α → α → Prop} (hsymm : ∀ a b, R a b → R b a) :
    ∀ {l : List α}, l.Pairwise R → ∀ a ∈ l, ∀ b ∈ l, a ≠ b → R a b := by
  intro l
  induction l with
  | nil => intro _ a ha; cases ha
  | cons x xs ih =>
    intro hp a ha b hb hne
    rw [List.pairwise_cons] at hp
    rcases List.mem_cons.mp ha with rfl | ha'
    · rcases List.mem_cons.mp hb with rfl | hb'
      · exact absurd rfl hne
      · exact hp.1 b hb'
    · rcases List.mem_cons.mp hb with rfl | hb'
      · exact hsymm _ _ (hp.1 a ha')
      · exact ih hp.2 a ha' b hb' hne

theorem poolInv_init : PoolInv PoolSt.init :=
  ⟨List.Pairwise.nil, (by intro l h; cases h), List.Pairwise.nil, (by intro l h; cases h), (by intro b h; cases h),
   (by intro l h; cases h), List.Pairwise.nil, (by intro l h; cases h), (by intro b h; cases h)⟩

theorem poolInv_new_fresh (s : PoolSt) (inv : PoolInv s) (bytes : Bytes) (hle : bytes.length ≤ Gp.Gen.Pkt.maximumMTU) :
    PoolInv { s with blocks := s.blocks ++ [bytes ++ List.replicate (Gp.Gen.Pkt.maximumMTU - bytes.length) 0],
                     live := { pid := s.nextPid, blk := s.blocks.length, bytes := bytes } :: s.live,
                     nextPid := s.nextPid + 1 } := by
  refine ⟨?_, ?_, inv.bagNodup, ?_, ?_, ?_, ?_, ?_, ?_⟩
  · rw [List.pairwise_cons]
    exact ⟨fun l hl => Nat.ne_of_gt (inv.liveInRange l hl), inv.liveDistinct⟩
  · intro l hl
    rcases List.mem_cons.mp hl with rfl | hl
    · intro hb; exact Nat.lt_irrefl _ (inv.bagInRange _ hb)
    · exact inv.liveNotInBag l hl
  · intro l hl
    simp only [List.length_append, List.length_singleton]
    rcases List.mem_cons.mp hl with rfl | hl
    · exact Nat.lt_succ_self _
    · exact Nat.lt_succ_of_lt (inv.liveInRange l hl)
  · intro b hb
    simp only [List.length_append, List.length_singleton]
    exact Nat.lt_succ_of_lt (inv.bagInRange b hb)
  · intro l hl
    rcases List.mem_cons.mp hl with rfl | hl
    · exact Nat.lt_succ_self _
    · exact Nat.lt_succ_of_lt (inv.pidFresh l hl)
  · rw [List.pairwise_cons]
    exact ⟨fun l hl => Nat.ne_of_gt (inv.pidFresh l hl), inv.pidDistinct⟩
  · intro l hl
    rcases List.mem_cons.mp hl with rfl | hl
    · refine ⟨bytes ++ List.replicate (Gp.Gen.Pkt.maximumMTU - bytes.length) 0, by simp, ?_⟩
      exact List.take_left' rfl
    · obtain ⟨blk, h1, h2⟩ := inv.intact l hl
      exact ⟨blk, by rw [List.getElem?_append_left (inv.liveInRange l hl)]; exact h1, h2⟩
  · intro blk hb
    rcases List.mem_append.mp hb with hb | hb
    · exact inv.blockSize blk hb
    · simp only [List.mem_singleton] at hb
      subst hb
      simp; omega

theorem poolInv_new_cached (s : PoolSt) (inv : PoolInv s) (bytes : Bytes) (hle : bytes.length ≤ Gp.Gen.Pkt.maximumMTU)
    (b : BufId) (hb : b ∈ s.bag) (blk : Bytes) (hblk : s.blocks[b]? = some blk) :
    PoolInv { s with blocks := s.blocks.set b (overwrite blk 0 bytes), bag := s.bag.erase b,
                     live := { pid := s.nextPid, blk := b, bytes := bytes } :: s.live,
                     nextPid := s.nextPid + 1 } := by
  have hsz : blk.length = Gp.Gen.Pkt.maximumMTU := inv.blockSize blk (List.mem_of_getElem? hblk)
  have hlt : b < s.blocks.length := inv.bagInRange b hb
  refine ⟨?_, ?_, inv.bagNodup.erase b, ?_, ?_, ?_, ?_, ?_, ?_⟩
  · rw [List.pairwise_cons]
    refine ⟨fun l hl => ?_, inv.liveDistinct⟩
    intro heq
    exact inv.liveNotInBag l hl (by rw [← heq]; exact hb)
  · intro l hl
    rcases List.mem_cons.mp hl with rfl | hl
    · exact inv.bagNodup.not_mem_erase
    · intro hm; exact inv.liveNotInBag l hl (List.mem_of_mem_erase hm)
  · intro l hl
    simp only [List.length_set]
    rcases List.mem_cons.mp hl with rfl | hl
    · exact hlt
    · exact inv.liveInRange l hl
  · intro x hx
    simp only [List.length_set]
    exact inv.bagInRange x (List.mem_of_mem_erase hx)
  · intro l hl
    rcases List.mem_cons.mp hl with rfl | hl
    · exact Nat.lt_succ_self _
    · exact Nat.lt_succ_of_lt (inv.pidFresh l hl)
  · rw [List.pairwise_cons]
    exact ⟨fun l hl => Nat.ne_of_gt (inv.pidFresh l hl), inv.pidDistinct⟩
  · intro l hl
    rcases List.mem_cons.mp hl with rfl | hl
    · exact ⟨_, List.getElem?_set_self hlt, overwrite_zero_take blk bytes (by omega)⟩
    · obtain ⟨blk', h1, h2⟩ := inv.intact l hl
      have hne : b ≠ l.blk := by
        intro heq; exact inv.liveNotInBag l hl (by rw [← heq]; exact hb)
      exact ⟨blk', by rw [List.getElem?_set_ne hne]; exact h1, h2⟩
  · intro x hx
    rcases List.mem_or_eq_of_mem_set hx with hx | hx
    · exact inv.blockSize x hx
    · subst hx
      rw [overwrite_length blk 0 bytes (by omega)]; exact hsz

theorem poolInv_dispose (s : PoolSt) (inv : PoolInv s) (pid : Nat) (l : Live)
    (hf : s.live.find? (fun x => x.pid == pid) = some l) :
    PoolInv { s with bag := l.blk :: s.bag, live := s.live.filter (fun x => x.pid != pid) } := by
  have hl : l ∈ s.live := List.mem_of_find?_eq_some hf
  have hpid : l.pid = pid := by
    have := List.find?_some hf
    simpa using this
  refine ⟨inv.liveDistinct.filter _, ?_, ?_, ?_, ?_, ?_, inv.pidDistinct.filter _, ?_, inv.blockSize⟩
  · intro x hx
    obtain ⟨hx1, hx2⟩ := List.mem_filter.mp hx
    have hne : x.pid ≠ pid := by simpa using hx2
    have hxl : x ≠ l := by intro h; subst h; exact hne hpid
    intro hm
    rcases List.mem_cons.mp hm with hm | hm
    · exact pairwise_mem (fun a b h => fun e => h e.symm) inv.liveDistinct x hx1 l hl hxl hm
    · exact inv.liveNotInBag x hx1 hm
  · exact List.nodup_cons.mpr ⟨inv.liveNotInBag l hl, inv.bagNodup⟩
  · intro x hx; exact inv.liveInRange x (List.mem_filter.mp hx).1
  · intro b hb
    rcases List.mem_cons.mp hb with rfl | hb
    · exact inv.liveInRange l hl
    · exact inv.bagInRange b hb
  · intro x hx; exact inv.pidFresh x (List.mem_filter.mp hx).1
  · intro x hx; exact inv.intact x (List.mem_filter.mp hx).1

theorem poolInv_drop (s : PoolSt) (inv : PoolInv s) (b : BufId) : PoolInv { s with bag := s.bag.erase b } :=
  ⟨inv.liveDistinct, fun l hl hm => inv.liveNotInBag l hl (List.mem_of_mem_erase hm), inv.bagNodup.erase b,
   inv.liveInRange, fun x hx => inv.bagInRange x (List.mem_of_mem_erase hx), inv.pidFresh, inv.pidDistinct,
   inv.intact, inv.blockSize⟩

theorem poolInv_step (s s' : PoolSt) (tid : Nat) (op : PoolOp) (inv : PoolInv s)
    (h : poolStep s tid op = some s') : PoolInv s' := by
  cases op with
  | new bytes g =>
    simp only [poolStep] at h
    split at h
    · rename_i hle
      cases g with
      | brandNew => simp only at h; cases h; exact poolInv_new_fresh s inv bytes hle
      | cached b =>
        simp only at h
        split at h
        · rename_i hb
          split at h
          · cases h
          · rename_i blk hblk; cases h; exact poolInv_new_cached s inv bytes hle b hb blk hblk
        · cases h
    · cases h
  | dispose pid =>
    simp only [poolStep] at h
    split at h
    · cases h
    · rename_i l hf; cases h; exact poolInv_dispose s inv pid l hf
  | drop b =>
    simp only [poolStep] at h
    split at h
    · cases h; exact poolInv_drop s inv b
    · cases h

theorem poolInv_reachable (s : PoolSt) (h : Reachable s) : PoolInv s := by
  induction h with
  | init => exact poolInv_init
  | step tid op _ hs ih => exact poolInv_step _ _ tid op ih hs

end Gp.PktMem
