import Gp.Lemmas.PcapNgEv
import Gp.Lemmas.PcapNgBytes
/-
  Round trip, part 1 (C14): what the reader does on the block header, on one written option and on a
  written option list (`encOpts`), for ANY option handler.
-/
namespace Gp.PcapNg
open Gp.Gen.PcapNg

/-- a deterministic `Eats` -/
def EatsD {α} (p : Prog α) (s : S) (bs : Bytes) (a : α) (s' : S) : Prop :=
  Eats p s bs (fun x t => x = a ∧ t = s')

theorem Eats.bindD {α β} {m : Prog α} {g : α → Prog β} {s s1 : S} {bs b1 b2 : Bytes} {a : α} {Q : β → S → Prop}
    (hb : bs = b1 ++ b2) (h1 : EatsD m s b1 a s1) (h2 : Eats (g a) s1 b2 Q) : Eats (m >>= g) s bs Q :=
  Eats.bind hb h1 (fun _ _ h => h.1 ▸ h.2 ▸ h2)

theorem Eats.bindD0 {α β} {m : Prog α} {g : α → Prog β} {s s1 : S} {bs : Bytes} {a : α} {Q : β → S → Prop}
    (h1 : EatsD m s [] a s1) (h2 : Eats (g a) s1 bs Q) : Eats (m >>= g) s bs Q :=
  Eats.bindD (List.nil_append bs).symm h1 h2

theorem Eats.bindD1 {α β} {m : Prog α} {g : α → Prog β} {s s1 : S} {bs : Bytes} {a : α} {Q : β → S → Prop}
    (h1 : EatsD m s bs a s1) (h2 : Eats (g a) s1 [] Q) : Eats (m >>= g) s bs Q :=
  Eats.bindD (List.append_nil bs).symm h1 h2

theorem EatsD.act {α} {g : Act α} {s s' : S} {a : α} (h : g s = (.ok a, s')) : EatsD (Prog.act g) s [] a s' :=
  Eats.act h ⟨rfl, rfl⟩

theorem EatsD.getS (s : S) : EatsD getS s [] s s := Eats.getS ⟨rfl, rfl⟩

theorem EatsD.modS (g : S → S) (s : S) : EatsD (modS g) s [] () (g s) := Eats.modS ⟨rfl, rfl⟩

theorem EatsD.rd {b : Bytes} {n : Nat} (s : S) (h : b.length = n) : EatsD (rd n) s b b s := Eats.rd h ⟨rfl, rfl⟩

theorem EatsD.rd0 {b : Bytes} {n : Nat} (s : S) (h : b.length = n) : EatsD (Prog.io (.rd0 n)) s b b s :=
  Eats.rd0 h ⟨rfl, rfl⟩

theorem EatsD.rdOpt {b : Bytes} {n : Nat} (s : S) (h : b.length = n) (hn : n < 65536) :
    EatsD (Prog.io (.rdOpt n)) s b b s := Eats.rdOpt h hn ⟨rfl, rfl⟩

theorem EatsD.rdData {b : Bytes} {n snap : Nat} (s : S) (h : b.length = n) :
    EatsD (Prog.io (.rdData n snap)) s b b s := Eats.rdData h ⟨rfl, rfl⟩

theorem EatsD.pure {α} (a : α) (s : S) : EatsD (Pure.pure a : Prog α) s [] a s := Eats.pure ⟨rfl, rfl⟩

theorem EatsD.eq {α} {p : Prog α} {s s' s'' : S} {bs : Bytes} {a : α} (h : EatsD p s bs a s') (he : s' = s'') :
    EatsD p s bs a s'' := he ▸ h

/-! ### arithmetic -/

theorem sub32_eq {a b : Nat} (h1 : b ≤ a) (h2 : a < 4294967296) : sub32 a b = a - b := by
  unfold sub32 two32; omega

theorem getU_le16 (n : Nat) : getU false (putLe16 n) = n % 65536 := by
  simp only [getU, Bool.false_eq_true, if_false, leNat_putLe16]

theorem getU_le32 (n : Nat) : getU false (putLe32 n) = n % 4294967296 := by
  simp only [getU, Bool.false_eq_true, if_false, leNat_putLe32]

theorem getU_le64 (n : Nat) : getU false (putLe64 n) = n % 18446744073709551616 := by
  simp only [getU, Bool.false_eq_true, if_false, leNat_putLe64]

theorem take2_le16 (a b : Nat) : (putLe16 a ++ putLe16 b).take 2 = putLe16 a := rfl
theorem drop2_le16 (a b : Nat) : (putLe16 a ++ putLe16 b).drop 2 = putLe16 b := rfl

/-! ### discard -/

theorem eats_discard (s : S) (b : Bytes) (n : Nat) (h : b.length = n) :
    EatsD (discard n) s b () { s with blkLen := sub32 s.blkLen n } := by
  unfold discard
  exact Eats.bindD1 (Eats.skip h ⟨rfl, rfl⟩) (EatsD.modS _ s)

theorem eats_discardBlock (s : S) (b : Bytes) (h : b.length = s.blkLen) :
    EatsD discardBlock s b () { s with blkLen := sub32 s.blkLen s.blkLen } := by
  unfold discardBlock
  exact Eats.bindD0 (EatsD.getS s) (eats_discard s b s.blkLen h)

/-! ### block header -/

/-- readBlock on the first 8 bytes of a little-endian block that is not a section header -/
theorem eats_readBlock (s : S) (typ total : Nat) (hbe : s.be = false) (ht : typ < 4294967296)
    (hne : typ ≠ ngBlockTypeSectionHeader) (htot : total < 4294967296) (h8 : 8 ≤ total) :
    EatsD readBlock s (putLe32 typ ++ putLe32 total) () { s with blkTyp := typ, blkLen := total - 8 } := by
  unfold readBlock
  refine Eats.bindD1 (EatsD.rd0 s (by rfl)) ?_
  have e1 : (putLe32 typ ++ putLe32 total).take 4 = putLe32 typ := rfl
  have e2 : (putLe32 typ ++ putLe32 total).drop 4 = putLe32 total := rfl
  have h1 : blockTypeStep (putLe32 typ ++ putLe32 total) s = (.ok false, { s with blkTyp := typ }) := by
    simp only [blockTypeStep, hbe, e1, getU_le32, Nat.mod_eq_of_lt ht, hne, decide_false]
  refine Eats.bindD0 (EatsD.act h1) ?_
  rw [if_neg (by simp)]
  refine EatsD.eq (EatsD.modS _ _) ?_
  simp only [hbe, e2, getU_le32, Nat.mod_eq_of_lt htot, sub32_eq h8 htot]

/-! ### one option -/

theorem optBytes_split (c : Nat) (v : Bytes) :
    optBytes (c, v) = (putLe16 c ++ putLe16 (v.length % 65536)) ++ (v ++ zeros (pad4 v.length)) := by
  simp only [optBytes, List.append_assoc]

/-- readOption on one written option -/
theorem eats_readOption (s : S) (c : Nat) (v : Bytes) (hbe : s.be = false) (hc0 : c ≠ ngOptionCodeEndOfOptions)
    (hc : c < 65536) (hv : v.length < 65536) (hlen : (optBytes (c, v)).length + 1 ≤ s.blkLen) (hlt : s.blkLen < 4294967296) :
    EatsD readOption s (optBytes (c, v)) ()
      { s with blkLen := s.blkLen - (optBytes (c, v)).length, optCode := c, optVal := v } := by
  have hL := length_optBytes (c, v)
  simp only at hL
  have hp := pad4_lt v.length
  unfold readOption
  have h0 : optStartStep s = (.ok true, s) := by
    unfold optStartStep; rw [if_neg (by omega)]
  refine Eats.bindD0 (EatsD.act h0) ?_
  rw [if_pos rfl]
  refine Eats.bindD (optBytes_split c v) (EatsD.rd s (by rfl)) ?_
  by_cases hv0 : v.length = 0
  · -- empty value
    have hv' : v = [] := List.eq_nil_of_length_eq_zero hv0
    subst hv'
    have h1 : optHeadStep (putLe16 c ++ putLe16 ([] : Bytes).length) s
        = (.ok none, { s with blkLen := sub32 s.blkLen 4, optCode := c, optVal := [] }) := by
      simp only [optHeadStep, hbe, take2_le16, drop2_le16, getU_le16, Nat.mod_eq_of_lt hc, hc0, if_false, List.length_nil,
        Nat.zero_mod, ne_eq, not_true_eq_false]
    refine Eats.bindD0 (EatsD.act h1) ?_
    show EatsD (Pure.pure ()) _ _ _ _
    have e3 : ([] : Bytes) ++ zeros (pad4 ([] : Bytes).length) = [] := rfl
    rw [e3]
    refine EatsD.eq (EatsD.pure _ _) ?_
    rw [sub32_eq (by omega) hlt]
    simp only [List.length_nil] at hL
    have : pad4 0 = 0 := rfl
    rw [this] at hL
    rw [hL]
  · -- a value of 1 … 65535 bytes
    have hvm : v.length % 65536 = v.length := Nat.mod_eq_of_lt hv
    have h1 : optHeadStep (putLe16 c ++ putLe16 (v.length % 65536)) s
        = (.ok (some v.length), { s with blkLen := sub32 s.blkLen 4, optCode := c }) := by
      simp only [optHeadStep, hbe, take2_le16, drop2_le16, getU_le16, Nat.mod_eq_of_lt hc, hc0, if_false, hvm, Nat.mod_mod,
        ne_eq, hv0, not_false_eq_true, if_true]
    refine Eats.bindD0 (EatsD.act h1) ?_
    show Eats (Prog.io (.rdOpt v.length) >>= _) _ _ _
    refine Eats.bindD rfl (EatsD.rdOpt _ rfl hv) ?_
    refine Eats.bindD0 (EatsD.modS _ _) ?_
    dsimp only
    by_cases hpd : v.length % 4 > 0
    · rw [if_pos hpd]
      have hz : (zeros (pad4 v.length)).length = 4 - v.length % 4 := by
        rw [length_zeros]; unfold pad4; omega
      refine Eats.bindD1 (eats_discard _ _ _ hz) ?_
      refine EatsD.eq (EatsD.modS _ _) ?_
      simp only [decBlk]
      have hpad : pad4 v.length = 4 - v.length % 4 := by unfold pad4; omega
      rw [sub32_eq (a := s.blkLen) (b := 4) (by omega) hlt,
        sub32_eq (a := s.blkLen - 4) (b := 4 - v.length % 4) (by omega) (by omega),
        sub32_eq (a := s.blkLen - 4 - (4 - v.length % 4)) (b := v.length) (by omega) (by omega)]
      have : s.blkLen - 4 - (4 - v.length % 4) - v.length = s.blkLen - (optBytes (c, v)).length := by
        rw [hL, hpad]; omega
      rw [this]
    · rw [if_neg hpd]
      have hpad : pad4 v.length = 0 := by unfold pad4; omega
      have hz : zeros (pad4 v.length) = [] := by rw [hpad]; rfl
      rw [hz]
      refine EatsD.eq (EatsD.modS _ _) ?_
      simp only [decBlk]
      rw [sub32_eq (a := s.blkLen) (b := 4) (by omega) hlt,
        sub32_eq (a := s.blkLen - 4) (b := v.length) (by omega) (by omega)]
      have : s.blkLen - 4 - v.length = s.blkLen - (optBytes (c, v)).length := by
        rw [hL, hpad]; omega
      rw [this]

end Gp.PcapNg
