/-
  Layer A: wrap elimination.  The model run with the real (mod 2^32) sequence arithmetic on
  sequence numbers `isn + p` behaves exactly like the offset-space twin run on the positions `p`,
  as long as all live positions stay below 2^30 — which Layer B's invariant guarantees for every
  stream shorter than 2^30.  This file is the only place where `difference_correct` / `add_mod`
  (the theorems about the regenerated Sequence.Difference / Sequence.Add) are used.
-/
import Gp.Lemmas.AsmSeq
import Gp.Lemmas.AsmSound

namespace Gp.Asm
open Gp.Gen

/-- sequence number of position `p` of a connection with initial sequence number `i` -/
def wseq (i p : Int) : Int := (i + p) % 4294967296
/-- nextSeq: the invalid marker is kept -/
def wnext (i n : Int) : Int := if n = invalidSeq then invalidSeq else wseq i n

def InB (p : Int) : Prop := 0 ≤ p ∧ p < 1073741824

theorem wseq_ne_invalid (i p : Int) : wseq i p ≠ invalidSeq := by
  unfold wseq; rw [invalidSeq_eq]; omega

theorem wnext_valid (i n : Int) (h : 0 ≤ n) : wnext i n = wseq i n := by
  unfold wnext; rw [if_neg (by rw [invalidSeq_eq]; omega)]

theorem wnext_invalid (i : Int) : wnext i invalidSeq = invalidSeq := by
  unfold wnext; rw [if_pos rfl]

theorem diff_sim (i p q : Int) (hp : InB p) (hq : InB q) :
    wrapArith.diff (wseq i p) (wseq i q) = flatArith.diff p q := by
  show SeqAsm.difference (wseq i p) (wseq i q) = q - p
  have h := difference_correct (wseq i p) (q - p) (by unfold wseq; omega) (by unfold wseq; omega)
    (by unfold InB at hp hq; omega) (by unfold InB at hp hq; omega)
  have e : (wseq i p + (q - p)) % 4294967296 = wseq i q := by unfold wseq; omega
  rw [e] at h
  exact h

theorem add_sim (i p n : Int) : wrapArith.add (wseq i p) n = wseq i (flatArith.add p n) := by
  show SeqAsm.add (wseq i p) n = wseq i (p + n)
  rw [(add_mod _ _).1]
  unfold wseq; omega

/-- byteSpan: same bytes, corresponding next position -/
theorem byteSpan_sim (i e r : Int) (b : Bytes) (he : e = invalidSeq ∨ InB e) (hr : InB r) :
    byteSpan wrapArith (wnext i e) (wseq i r) b =
      ((byteSpan flatArith e r b).1, wnext i (byteSpan flatArith e r b).2) := by
  unfold byteSpan
  rcases he with he | he
  · subst he
    rw [wnext_invalid, if_pos rfl, if_pos rfl]
    dsimp only
    rw [add_sim, wnext_valid]
    simp only [flat_add]; unfold InB at hr; omega
  · have hne : ¬ e = invalidSeq := by rw [invalidSeq_eq]; unfold InB at he; omega
    rw [wnext_valid i e he.1, if_neg (wseq_ne_invalid i e), if_neg hne]
    dsimp only
    rw [diff_sim i r e hr he]
    split
    · dsimp only
      rw [add_sim, wnext_valid]
      simp only [flat_add]; unfold InB at hr; omega
    · split
      · dsimp only
        rw [wnext_valid i e he.1]
      · rename_i h1 h2
        dsimp only
        rw [add_sim, wnext_valid]
        simp only [flat_add, flat_diff] at h1 h2 ⊢
        unfold InB at hr he; omega

/-! ### lifting offset-space states to sequence-number space -/

def liftPage (i : Int) (pg : Page) : Page := { pg with seq := wseq i pg.seq }
def liftConn (i : Int) (c : Conn) : Conn :=
  { c with nextSeq := wnext i c.nextSeq, pages := c.pages.map (liftPage i) }
def liftRel (i : Int) (r : Rel) : Rel :=
  { r with next := wnext i r.next, rest := r.rest.map (liftPage i) }
def liftStep (i : Int) (st : Step) : Step := { st with conn := liftConn i st.conn }

theorem popPage_sim (i n : Int) (pg : Page) (hn : n = invalidSeq ∨ InB n) (hp : InB pg.seq) :
    popPage wrapArith (wnext i n) (liftPage i pg) =
      ((popPage flatArith n pg).1, wnext i (popPage flatArith n pg).2) := by
  unfold popPage
  dsimp only
  have hb := byteSpan_sim i n pg.seq pg.r.bytes hn hp
  show (({ (liftPage i pg).r with
            skip := if wnext i n = invalidSeq then -1
                    else if wrapArith.diff (wnext i n) (wseq i pg.seq) > 0 then wrapArith.diff (wnext i n) (wseq i pg.seq)
                    else pg.r.skip,
            bytes := (byteSpan wrapArith (wnext i n) (wseq i pg.seq) pg.r.bytes).1 } : Reasm),
        (byteSpan wrapArith (wnext i n) (wseq i pg.seq) pg.r.bytes).2) = _
  rw [hb]
  rcases hn with hn | hn
  · subst hn
    rw [wnext_invalid, if_pos rfl, if_pos rfl]
    rfl
  · have hne : ¬ n = invalidSeq := by rw [invalidSeq_eq]; unfold InB at hn; omega
    rw [wnext_valid i n hn.1, if_neg (wseq_ne_invalid i n), if_neg hne, diff_sim i n pg.seq hn hp]
    rfl

/-! ### bounds supplied by Layer B -/

theorem inB_of_pageOk (S : Bytes) (hS : S.length + 2 < 1073741824) (pg : Page) (h : PageOk S pg) :
    InB pg.seq := by
  obtain ⟨off, h1, h2, _⟩ := h
  unfold InB; omega

theorem next_of_posOk (S : Bytes) (hS : S.length + 2 < 1073741824) (pos : Option Nat) (h : PosOk S pos) :
    enc pos = invalidSeq ∨ InB (enc pos) := by
  cases pos with
  | none => left; rfl
  | some p => right; have : p ≤ S.length := h; simp only [enc, InB]; omega

theorem inB_enc_some (S : Bytes) (hS : S.length + 2 < 1073741824) (p : Nat) (h : p ≤ S.length) :
    InB (enc (some p)) := by simp only [enc, InB]; omega

theorem addContiguous_sim (S : Bytes) (hS : S.length + 2 < 1073741824) (i : Int) (p0 : Nat)
    (ps : List Page) (hpos : p0 ≤ S.length) (hps : PagesOk S ps) :
    addContiguous wrapArith (wnext i (enc (some p0))) (ps.map (liftPage i)) =
      liftRel i (addContiguous flatArith (enc (some p0)) ps) := by
  induction ps generalizing p0 with
  | nil => rfl
  | cons p ps ih =>
    have hn := inB_enc_some S hS p0 hpos
    have hp := inB_of_pageOk S hS p (hps p List.mem_cons_self)
    simp only [List.map_cons, addContiguous]
    have hd : wrapArith.diff (wnext i (enc (some p0))) (liftPage i p).seq = flatArith.diff (enc (some p0)) p.seq := by
      rw [wnext_valid i _ hn.1]; exact diff_sim i _ _ hn hp
    rw [hd]
    split
    · rw [popPage_sim i _ p (Or.inr hn) hp]
      obtain ⟨p1, _, h2, h3⟩ := popPage_flat S (some p0) p hpos (hps p List.mem_cons_self)
      dsimp only
      rw [h2, ih p1 h3 (fun q hq => hps q (List.mem_cons_of_mem _ hq))]
      rfl
    · rfl

theorem limitPops_sim (S : Bytes) (hS : S.length + 2 < 1073741824) (i : Int) (L : Lim)
    (pos : Option Nat) (ps : List Page) (np used : Int) (hpos : PosOk S pos) (hps : PagesOk S ps) :
    limitPops wrapArith L (wnext i (enc pos)) (ps.map (liftPage i)) np used =
      liftRel i (limitPops flatArith L (enc pos) ps np used) := by
  induction ps generalizing pos np used with
  | nil => rfl
  | cons p ps ih =>
    have hp := inB_of_pageOk S hS p (hps p List.mem_cons_self)
    simp only [List.map_cons, limitPops]
    split
    · rw [popPage_sim i _ p (next_of_posOk S hS pos hpos) hp]
      obtain ⟨p1, _, h2, h3⟩ := popPage_flat S pos p hpos (hps p List.mem_cons_self)
      dsimp only
      rw [h2, ih (some p1) _ _ h3 (fun q hq => hps q (List.mem_cons_of_mem _ hq))]
      rfl
    · rfl

/-! ### pagesFromTCP, insertPos, insertPages -/

theorem splitPages_sim (i : Int) (fuel : Nat) (q : Int) (b : Bytes) (fin : Bool) (ts : Int) :
    splitPages wrapArith fuel (wseq i q) b fin ts = (splitPages flatArith fuel q b fin ts).map (liftPage i) := by
  induction fuel generalizing q b with
  | zero => rfl
  | succ f ih =>
    simp only [splitPages]
    split
    · rfl
    · rw [add_sim, ih]
      rfl

theorem pagesFromTCP_sim (i : Int) (q : Int) (b : Bytes) (fin : Bool) (ts : Int) :
    pagesFromTCP wrapArith (wseq i q) b fin ts = (pagesFromTCP flatArith q b fin ts).map (liftPage i) :=
  splitPages_sim i _ q b fin ts

theorem insertPos_sim (i q : Int) (ps : List Page) (hq : InB q) (hps : ∀ pg ∈ ps, InB pg.seq) :
    insertPos wrapArith (wseq i q) (ps.map (liftPage i)) =
      ((insertPos flatArith q ps).1.map (liftPage i), (insertPos flatArith q ps).2.map (liftPage i)) := by
  induction ps with
  | nil => rfl
  | cons p ps ih =>
    simp only [List.map_cons, insertPos]
    rw [ih (fun pg h => hps pg (List.mem_cons_of_mem _ h))]
    have hd : wrapArith.diff (liftPage i p).seq (wseq i q) = flatArith.diff p.seq q :=
      diff_sim i _ _ (hps p List.mem_cons_self) hq
    rw [hd]
    dsimp only
    have he : ((insertPos flatArith q ps).1.map (liftPage i)).isEmpty = (insertPos flatArith q ps).1.isEmpty := by
      cases (insertPos flatArith q ps).1 <;> rfl
    rw [he]
    split <;> rfl

theorem insertPages_sim (i q : Int) (new ps : List Page) (hq : InB q) (hps : ∀ pg ∈ ps, InB pg.seq) :
    insertPages wrapArith (wseq i q) (new.map (liftPage i)) (ps.map (liftPage i)) =
      (insertPages flatArith q new ps).map (liftPage i) := by
  unfold insertPages
  dsimp only
  rw [insertPos_sim i q ps hq hps]
  simp only [List.map_append]

theorem liftConn_pages_length (i : Int) (c : Conn) : (liftConn i c).pages.length = c.pages.length := by
  simp [liftConn]

/-! ### send, skipFlush -/

theorem send_sim (S : Bytes) (hS : S.length + 2 < 1073741824) (i : Int) (c : Conn) (used : Int)
    (r0 : Reasm) (rs : List Reasm) (p0 : Nat) (hc : ConnOk S c (some p0)) :
    send wrapArith (liftConn i c) used r0 rs = liftStep i (send flatArith c used r0 rs) := by
  obtain ⟨h1, h2, h3⟩ := hc
  unfold send
  dsimp only
  have hrel : addContiguous wrapArith (liftConn i c).nextSeq (liftConn i c).pages
      = liftRel i (addContiguous flatArith c.nextSeq c.pages) := by
    show addContiguous wrapArith (wnext i c.nextSeq) (c.pages.map (liftPage i)) = _
    rw [h1]
    exact addContiguous_sim S hS i p0 c.pages h2 h3
  rw [hrel]
  have hi : (liftRel i (addContiguous flatArith c.nextSeq c.pages)).items
      = (addContiguous flatArith c.nextSeq c.pages).items := rfl
  have hr : (liftRel i (addContiguous flatArith c.nextSeq c.pages)).rest.length
      = (addContiguous flatArith c.nextSeq c.pages).rest.length := by simp [liftRel]
  rw [hi, hr]
  split <;> rfl

theorem skipFlush_sim (S : Bytes) (hS : S.length + 2 < 1073741824) (i : Int) (c : Conn) (used : Int)
    (pos : Option Nat) (hc : ConnOk S c pos) :
    skipFlush wrapArith (liftConn i c) used = liftStep i (skipFlush flatArith c used) := by
  obtain ⟨h1, h2, h3⟩ := hc
  unfold skipFlush
  cases hp : c.pages with
  | nil =>
    have : (liftConn i c).pages = [] := by simp [liftConn, hp]
    rw [this]
    rfl
  | cons p ps =>
    have : (liftConn i c).pages = liftPage i p :: ps.map (liftPage i) := by simp [liftConn, hp]
    rw [this]
    dsimp only
    rw [hp] at h3
    have hpp := inB_of_pageOk S hS p (h3 p List.mem_cons_self)
    have hpop : popPage wrapArith (liftConn i c).nextSeq (liftPage i p)
        = ((popPage flatArith c.nextSeq p).1, wnext i (popPage flatArith c.nextSeq p).2) := by
      show popPage wrapArith (wnext i c.nextSeq) (liftPage i p) = _
      rw [h1]
      exact popPage_sim i _ p (next_of_posOk S hS pos h2) hpp
    rw [hpop]
    obtain ⟨p1, _, e2, e3⟩ := popPage_flat S pos p h2 (h3 p List.mem_cons_self)
    rw [← h1] at e2
    exact send_sim S hS i
      { c with nextSeq := (popPage flatArith c.nextSeq p).2, pages := ps, npages := c.npages - 1 }
      (used - 1) _ [] p1 ⟨e2, e3, fun q hq => h3 q (List.mem_cons_of_mem _ hq)⟩

/-! ### insertIntoConn, AssembleWithTimestamp -/

def liftRes (i : Int) : Res Step → Res Step
  | .ok st => .ok (liftStep i st)
  | .err e => .err e
  | .panic k => .panic k

theorem wseq_inj (i a b : Int) (ha : InB a) (hb : InB b) : wseq i a = wseq i b ↔ a = b := by
  unfold wseq; unfold InB at ha hb; omega

theorem wtfGuard_sim (S : Bytes) (hS : S.length + 2 < 1073741824) (i : Int) (c : Conn)
    (pos : Option Nat) (hc : ConnOk S c pos) : wtfGuard (liftConn i c) = wtfGuard c := by
  obtain ⟨h1, h2, h3⟩ := hc
  unfold wtfGuard
  cases hp : c.pages with
  | nil =>
    have : (liftConn i c).pages = [] := by simp [liftConn, hp]
    rw [this]
  | cons p ps =>
    have : (liftConn i c).pages = liftPage i p :: ps.map (liftPage i) := by simp [liftConn, hp]
    rw [this]
    dsimp only
    rw [hp] at h3
    have hpp := inB_of_pageOk S hS p (h3 p List.mem_cons_self)
    show decide (wseq i p.seq = wnext i c.nextSeq) = decide (p.seq = c.nextSeq)
    rw [decide_eq_decide, h1]
    rcases next_of_posOk S hS pos h2 with hn | hn
    · rw [hn, wnext_invalid]
      constructor
      · intro e; exact absurd e (wseq_ne_invalid i _)
      · intro e; rw [invalidSeq_eq] at e; unfold InB at hpp; omega
    · rw [wnext_valid i _ hn.1]
      exact wseq_inj i _ _ hpp hn

theorem insertIntoConn_sim (S : Bytes) (hS : S.length + 2 < 1073741824) (i : Int) (L : Lim) (c : Conn)
    (used : Int) (off : Nat) (b : Bytes) (fin : Bool) (ts : Int) (pos : Option Nat)
    (hc : ConnOk S c pos) (hb : b = slice S off b.length) (hlen : off + b.length ≤ S.length) :
    insertIntoConn wrapArith L (liftConn i c) used (wseq i ((off : Int) + 1)) b fin ts =
      liftRes i (insertIntoConn flatArith L c used ((off : Int) + 1) b fin ts) := by
  have hw := wtfGuard_sim S hS i c pos hc
  obtain ⟨h1, h2, h3⟩ := hc
  unfold insertIntoConn
  rw [hw]
  split
  · rfl
  · have hq : InB ((off : Int) + 1) := by unfold InB; omega
    have hnew : PagesOk S (pagesFromTCP flatArith ((off : Int) + 1) b fin ts) :=
      splitPages_flat S _ off b fin ts hb hlen
    have hall := pagesOk_insertPages S flatArith ((off : Int) + 1) _ c.pages hnew h3
    have hins : insertPages wrapArith (wseq i ((off : Int) + 1)) (pagesFromTCP wrapArith (wseq i ((off : Int) + 1)) b fin ts)
        (liftConn i c).pages = (insertPages flatArith ((off : Int) + 1) (pagesFromTCP flatArith ((off : Int) + 1) b fin ts) c.pages).map (liftPage i) := by
      rw [pagesFromTCP_sim]
      exact insertPages_sim i _ _ c.pages hq (fun pg h => inB_of_pageOk S hS pg (h3 pg h))
    have hlenw : (pagesFromTCP wrapArith (wseq i ((off : Int) + 1)) b fin ts).length
        = (pagesFromTCP flatArith ((off : Int) + 1) b fin ts).length := by
      rw [pagesFromTCP_sim, List.length_map]
    dsimp only
    rw [hins, hlenw]
    have hrel := limitPops_sim S hS i L pos _
      ((liftConn i c).npages + ((pagesFromTCP flatArith ((off : Int) + 1) b fin ts).length : Int))
      (used + ((pagesFromTCP flatArith ((off : Int) + 1) b fin ts).length : Int)) h2 hall
    rw [← h1] at hrel
    have hnx : (liftConn i c).nextSeq = wnext i c.nextSeq := rfl
    rw [hnx, hrel]
    obtain ⟨pos1, r1, r2, r3, r4, r5⟩ := limitPops_flat S L pos _
      (c.npages + ((pagesFromTCP flatArith ((off : Int) + 1) b fin ts).length : Int))
      (used + ((pagesFromTCP flatArith ((off : Int) + 1) b fin ts).length : Int)) h2 hall
    rw [← h1] at r1 r2 r4 r5
    have hnp : (liftConn i c).npages = c.npages := rfl
    rw [hnp]
    have hit : ∀ r : Rel, (liftRel i r).items = r.items := fun _ => rfl
    rw [hit]
    generalize (limitPops flatArith L c.nextSeq
      (insertPages flatArith ((off : Int) + 1) (pagesFromTCP flatArith ((off : Int) + 1) b fin ts) c.pages)
      (c.npages + ((pagesFromTCP flatArith ((off : Int) + 1) b fin ts).length : Int))
      (used + ((pagesFromTCP flatArith ((off : Int) + 1) b fin ts).length : Int))) = R at *
    split
    · rfl
    · rename_i r0 rs hcons
      have hsome : pos1.isSome := r5 (by rw [hcons]; exact List.cons_ne_nil _ _)
      cases pos1 with
      | none => cases hsome
      | some p1 =>
        have := send_sim S hS i
          ⟨R.next, R.rest, c.npages + ((pagesFromTCP flatArith ((off : Int) + 1) b fin ts).length : Int) - (R.items.length : Int), c.lastSeen, c.sid⟩
          (used + ((pagesFromTCP flatArith ((off : Int) + 1) b fin ts).length : Int) - (R.items.length : Int)) r0 rs p1 ⟨r2, r3, r4⟩
        exact congrArg Res.ok this

def liftSeg (i : Int) (s : Seg) : Seg := { s with seq := wseq i s.seq }

theorem payloadSeq_sim (i n : Int) (s : Seg) (hn : n = invalidSeq ∨ InB n) :
    payloadSeq wrapArith (wnext i n) (liftSeg i s) = wseq i (payloadSeq flatArith n s) := by
  unfold payloadSeq
  rcases hn with hn | hn
  · subst hn
    rw [wnext_invalid]
    simp only [ne_eq, not_true_eq_false, decide_false, Bool.and_false, Bool.false_eq_true, if_false]
    rfl
  · have hne : n ≠ invalidSeq := by rw [invalidSeq_eq]; unfold InB at hn; omega
    rw [wnext_valid i n hn.1]
    have h1 : decide (wseq i n ≠ invalidSeq) = true := by simpa using wseq_ne_invalid i n
    have h2 : decide (n ≠ invalidSeq) = true := by simpa using hne
    rw [h1, h2]
    show (if ((s.syn && true) = true) then wrapArith.add (wseq i s.seq) 1 else wseq i s.seq) = _
    split
    · rw [add_sim]
    · rfl

theorem assembleConn_sim (S : Bytes) (hS : S.length + 2 < 1073741824) (i : Int) (L : Lim) (c : Conn)
    (used : Int) (s : Seg) (pos : Option Nat) (hc : ConnOk S c pos) (hs : FlatSegOk S s) :
    assembleConn wrapArith L (liftConn i c) used (liftSeg i s) =
      liftRes i (assembleConn flatArith L c used s) := by
  obtain ⟨off, hlen, hb, hpay, hns, hsy⟩ := flatSeg_payload S s hs
  unfold assembleConn
  dsimp only
  have hc1 : (if (liftConn i c).lastSeen < (liftSeg i s).ts then { liftConn i c with lastSeen := (liftSeg i s).ts } else liftConn i c)
      = liftConn i (if c.lastSeen < s.ts then { c with lastSeen := s.ts } else c) := by
    show (if c.lastSeen < s.ts then _ else _) = _
    split <;> rfl
  rw [hc1]
  generalize hcc : (if c.lastSeen < s.ts then { c with lastSeen := s.ts } else c) = c1
  have h1 : c1.nextSeq = c.nextSeq := by rw [← hcc]; split <;> rfl
  have h2 : c1.pages = c.pages := by rw [← hcc]; split <;> rfl
  obtain ⟨a1, a2, a3⟩ := hc
  have e1 : c1.nextSeq = enc pos := by rw [h1]; exact a1
  have e3 : PagesOk S c1.pages := by rw [h2]; exact a3
  have hnx : (liftConn i c1).nextSeq = wnext i c1.nextSeq := rfl
  have hsyn : (liftSeg i s).syn = s.syn := rfl
  have hbytes : (liftSeg i s).bytes = s.bytes := rfl
  have hts : (liftSeg i s).ts = s.ts := rfl
  have hfin : ((liftSeg i s).rst || (liftSeg i s).fin) = (s.rst || s.fin) := rfl
  rw [hnx, hsyn, hbytes, hts, hfin, payloadSeq_sim i c1.nextSeq s (by rw [e1]; exact next_of_posOk S hS pos a2)]
  cases pos with
  | none =>
    have hinv : c1.nextSeq = invalidSeq := e1
    rw [hinv, wnext_invalid, if_pos rfl, if_pos rfl]
    by_cases hsy' : s.syn = true
    · rw [if_pos hsy', if_pos hsy']
      obtain ⟨ho, hq⟩ := hsy hsy'
      subst ho
      rw [payloadSeq_invalid, hq, add_sim]
      have hv : wseq i (flatArith.add 0 ((s.bytes.length : Int) + 1)) = wnext i (flatArith.add 0 ((s.bytes.length : Int) + 1)) := by
        rw [wnext_valid]; simp only [flat_add]; omega
      rw [hv]
      have := send_sim S hS i { c1 with nextSeq := flatArith.add 0 ((s.bytes.length : Int) + 1) } used
        { bytes := s.bytes, skip := 0, start := true, fin := false, seen := s.ts } [] s.bytes.length
        ⟨by simp only [flat_add, enc]; omega, by show s.bytes.length ≤ S.length; omega, e3⟩
      exact congrArg Res.ok this
    · rw [if_neg hsy', if_neg hsy']
      have hsf : s.syn = false := by simpa using hsy'
      rw [payloadSeq_invalid, hns hsf]
      exact insertIntoConn_sim S hS i L c1 used off s.bytes _ s.ts none ⟨e1, a2, e3⟩ hb hlen
  | some p =>
    have hp : p ≤ S.length := a2
    have hn := inB_enc_some S hS p hp
    have hinv : ¬ c1.nextSeq = invalidSeq := by rw [e1]; exact enc_ne_invalid p
    have hinv' : ¬ wnext i c1.nextSeq = invalidSeq := by
      rw [e1, wnext_valid i _ hn.1]; exact wseq_ne_invalid i _
    rw [if_neg hinv', if_neg hinv, e1, hpay p, wnext_valid i _ hn.1]
    have hq : InB ((off : Int) + 1) := by unfold InB; omega
    rw [diff_sim i _ _ hn hq]
    by_cases hd : flatArith.diff (enc (some p)) ((off : Int) + 1) > 0
    · rw [if_pos hd, if_pos hd]
      have := insertIntoConn_sim S hS i L c1 used off s.bytes (s.rst || s.fin) s.ts (some p) ⟨e1, a2, e3⟩ hb hlen
      exact this
    · rw [if_neg hd, if_neg hd]
      have hle : off ≤ p := by simp only [enc, flat_diff] at hd; omega
      have hx := byteSpan_flat_le S p off s.bytes hb hlen hp hle
      simp only [] at hx
      obtain ⟨hx1, hx2, hx3⟩ := hx
      have hbs := byteSpan_sim i (enc (some p)) ((off : Int) + 1) s.bytes (Or.inr hn) hq
      rw [wnext_valid i _ hn.1] at hbs
      rw [hbs]
      dsimp only
      have := send_sim S hS i { c1 with nextSeq := (byteSpan flatArith (enc (some p)) ((off : Int) + 1) s.bytes).2 } used
        { bytes := (byteSpan flatArith (enc (some p)) ((off : Int) + 1) s.bytes).1, skip := 0, start := false, fin := (s.rst || s.fin), seen := s.ts } []
        (p + (byteSpan flatArith ((p : Int) + 1) ((off : Int) + 1) s.bytes).1.length)
        ⟨hx3, hx2, e3⟩
      exact congrArg Res.ok this

/-! ### Flush* -/

theorem flushLoop_sim (S : Bytes) (hS : S.length + 2 < 1073741824) (i : Int) (T : Int) (fuel : Nat)
    (c : Conn) (used : Int) (calls : List (List Reasm)) (fl : Bool) (pos : Option Nat)
    (hc : ConnOk S c pos) :
    flushLoop wrapArith T fuel (liftConn i c) used calls fl =
      (liftStep i (flushLoop flatArith T fuel c used calls fl).1, (flushLoop flatArith T fuel c used calls fl).2) := by
  induction fuel generalizing c used calls fl pos with
  | zero => rfl
  | succ f ih =>
    simp only [flushLoop]
    cases hp : c.pages with
    | nil =>
      have : (liftConn i c).pages = [] := by simp [liftConn, hp]
      rw [this]
      rfl
    | cons p ps =>
      have : (liftConn i c).pages = liftPage i p :: ps.map (liftPage i) := by simp [liftConn, hp]
      rw [this]
      dsimp only
      have hseen : (liftPage i p).r.seen = p.r.seen := rfl
      rw [hseen]
      split
      · rw [skipFlush_sim S hS i c used pos hc]
        have hcl : (liftStep i (skipFlush flatArith c used)).closed = (skipFlush flatArith c used).closed := rfl
        have hca : (liftStep i (skipFlush flatArith c used)).calls = (skipFlush flatArith c used).calls := rfl
        have hus : (liftStep i (skipFlush flatArith c used)).used = (skipFlush flatArith c used).used := rfl
        have hco : (liftStep i (skipFlush flatArith c used)).conn = liftConn i (skipFlush flatArith c used).conn := rfl
        rw [hcl, hca, hus, hco]
        split
        · rfl
        · obtain ⟨pos1, _, r2⟩ := skipFlush_flat S c used pos hc
          exact ih _ _ _ _ pos1 r2
      · rfl

theorem flushConn_sim (S : Bytes) (hS : S.length + 2 < 1073741824) (i : Int) (T : Int) (ca : Bool)
    (c : Conn) (used : Int) (pos : Option Nat) (hc : ConnOk S c pos) :
    flushConn wrapArith T ca (liftConn i c) used =
      (liftStep i (flushConn flatArith T ca c used).1, (flushConn flatArith T ca c used).2) := by
  unfold flushConn
  dsimp only
  rw [liftConn_pages_length, flushLoop_sim S hS i T _ c used [] false pos hc]
  dsimp only
  have h1 : ∀ st : Step, (liftStep i st).closed = st.closed := fun _ => rfl
  have h2 : ∀ st : Step, (liftStep i st).conn.pages.isEmpty = st.conn.pages.isEmpty := by
    intro st; show (st.conn.pages.map (liftPage i)).isEmpty = _
    cases st.conn.pages <;> rfl
  have h3 : ∀ st : Step, (liftStep i st).conn.lastSeen = st.conn.lastSeen := fun _ => rfl
  rw [h1, h2, h3]
  split <;> rfl

theorem flushAllLoop_sim (S : Bytes) (hS : S.length + 2 < 1073741824) (i : Int) (fuel : Nat)
    (c : Conn) (used : Int) (calls : List (List Reasm)) (pos : Option Nat) (hc : ConnOk S c pos) :
    flushAllLoop wrapArith fuel (liftConn i c) used calls =
      liftStep i (flushAllLoop flatArith fuel c used calls) := by
  induction fuel generalizing c used calls pos with
  | zero => rfl
  | succ f ih =>
    simp only [flushAllLoop]
    rw [skipFlush_sim S hS i c used pos hc]
    have hcl : (liftStep i (skipFlush flatArith c used)).closed = (skipFlush flatArith c used).closed := rfl
    have hca : (liftStep i (skipFlush flatArith c used)).calls = (skipFlush flatArith c used).calls := rfl
    have hus : (liftStep i (skipFlush flatArith c used)).used = (skipFlush flatArith c used).used := rfl
    have hco : (liftStep i (skipFlush flatArith c used)).conn = liftConn i (skipFlush flatArith c used).conn := rfl
    rw [hcl, hca, hus, hco]
    split
    · rfl
    · obtain ⟨pos1, _, r2⟩ := skipFlush_flat S c used pos hc
      exact ih _ _ _ pos1 r2

theorem flushAllConn_sim (S : Bytes) (hS : S.length + 2 < 1073741824) (i : Int)
    (c : Conn) (used : Int) (pos : Option Nat) (hc : ConnOk S c pos) :
    flushAllConn wrapArith (liftConn i c) used = liftStep i (flushAllConn flatArith c used) := by
  unfold flushAllConn
  rw [liftConn_pages_length]
  exact flushAllLoop_sim S hS i _ c used [] pos hc

/-! ### the pool -/

def liftConns (I : Nat → Int) (cs : List (Nat × Conn)) : List (Nat × Conn) :=
  cs.map (fun kc => (kc.1, liftConn (I kc.1) kc.2))
def liftPool (I : Nat → Int) (P : Pool) : Pool := { P with conns := liftConns I P.conns }
def liftOp (I : Nat → Int) : Op → Op
  | .seg s => .seg (liftSeg (I s.key) s)
  | o => o
def liftAcc (I : Nat → Int) (a : FlushRes) : FlushRes := { a with pool := liftPool I a.pool }

theorem lookup_lift (I : Nat → Int) (k : Nat) (cs : List (Nat × Conn)) :
    lookup k (liftConns I cs) = (lookup k cs).map (liftConn (I k)) := by
  induction cs with
  | nil => rfl
  | cons x cs ih =>
    obtain ⟨k', c'⟩ := x
    show lookup k ((k', liftConn (I k') c') :: liftConns I cs) = _
    simp only [lookup]
    split
    · rename_i e; subst e; rfl
    · exact ih

theorem upsert_lift (I : Nat → Int) (k : Nat) (c : Conn) (cs : List (Nat × Conn)) :
    upsert k (liftConn (I k) c) (liftConns I cs) = liftConns I (upsert k c cs) := by
  induction cs with
  | nil => rfl
  | cons x cs ih =>
    obtain ⟨k', c'⟩ := x
    show upsert k _ ((k', liftConn (I k') c') :: liftConns I cs) = _
    simp only [upsert]
    split
    · rfl
    · split
      · rfl
      · rw [ih]; rfl

theorem remove_lift (I : Nat → Int) (k : Nat) (cs : List (Nat × Conn)) :
    remove k (liftConns I cs) = liftConns I (remove k cs) := by
  induction cs with
  | nil => rfl
  | cons x cs ih =>
    obtain ⟨k', c'⟩ := x
    show remove k ((k', liftConn (I k') c') :: liftConns I cs) = _
    simp only [remove]
    split
    · rfl
    · rw [ih]; rfl

theorem putBack_lift (I : Nat → Int) (P : Pool) (k : Nat) (st : Step) :
    putBack (liftPool I P) k (liftStep (I k) st) = liftPool I (putBack P k st) := by
  unfold putBack
  have : (liftStep (I k) st).closed = st.closed := rfl
  rw [this]
  split
  · show ({ liftPool I P with conns := remove k (liftConns I P.conns), used := st.used } : Pool) = _
    rw [remove_lift]; rfl
  · show ({ liftPool I P with conns := upsert k (liftConn (I k) st.conn) (liftConns I P.conns), used := st.used } : Pool) = _
    rw [upsert_lift]; rfl

theorem evsOf_lift (i : Int) (k : Nat) (st : Step) : evsOf k (liftStep i st) = evsOf k st := rfl

def liftResP (I : Nat → Int) : Res (Pool × List Ev) → Res (Pool × List Ev)
  | .ok x => .ok (liftPool I x.1, x.2)
  | .err e => .err e
  | .panic k => .panic k

theorem assemble_tail (I : Nat → Int) (P1 : Pool) (k : Nat) (pre : List Ev) (res : Res Step) :
    (match liftRes (I k) res with
      | .ok st => Res.ok (putBack (liftPool I P1) k st, pre ++ evsOf k st)
      | .err e => .err e
      | .panic q => .panic q) =
    liftResP I (match res with
      | .ok st => Res.ok (putBack P1 k st, pre ++ evsOf k st)
      | .err e => .err e
      | .panic q => .panic q) := by
  cases res with
  | ok st =>
    show Res.ok (putBack (liftPool I P1) k (liftStep (I k) st), pre ++ evsOf k (liftStep (I k) st)) = _
    rw [putBack_lift]; rfl
  | err e => rfl
  | panic q => rfl

theorem assemble_sim (Sf : Nat → Bytes) (hS : ∀ k, (Sf k).length + 2 < 1073741824) (I : Nat → Int)
    (P : Pool) (log : List Ev) (s : Seg) (h : LogInv (FlatR Sf) (FlatD Sf) P log)
    (hs : FlatSegOk (Sf s.key) s) :
    assemble wrapArith (liftPool I P) (liftSeg (I s.key) s) = liftResP I (assemble flatArith P s) := by
  unfold assemble
  have e1 : (liftSeg (I s.key) s).syn = s.syn := rfl
  have e2 : (liftSeg (I s.key) s).fin = s.fin := rfl
  have e3 : (liftSeg (I s.key) s).rst = s.rst := rfl
  have e4 : (liftSeg (I s.key) s).bytes = s.bytes := rfl
  have e5 : (liftSeg (I s.key) s).key = s.key := rfl
  have e6 : (liftSeg (I s.key) s).ts = s.ts := rfl
  rw [e1, e2, e3, e4, e5, e6]
  split
  · rfl
  · show (match lookup s.key (liftConns I P.conns) with | some c => _ | none => _) = _
    rw [lookup_lift]
    cases hl : lookup s.key P.conns with
    | some c =>
      obtain ⟨_, pos, _, hc, _⟩ := h.live _ _ hl
      dsimp only [Option.map]
      have := assembleConn_sim (Sf s.key) (hS _) (I s.key) P.lim c P.used s pos hc hs
      show (match assembleConn wrapArith P.lim (liftConn (I s.key) c) P.used (liftSeg (I s.key) s) with | .ok st => _ | .err e => _ | .panic k => _) = _
      rw [this]
      exact assemble_tail I P s.key [] _
    | none =>
      dsimp only [Option.map]
      split
      · rfl
      · have hc0 : ConnOk (Sf s.key) (newConn P s.ts).1 none := ⟨rfl, trivial, by intro pg hpg; simp [newConn] at hpg⟩
        have := assembleConn_sim (Sf s.key) (hS _) (I s.key) P.lim (newConn P s.ts).1 P.used s none hc0 hs
        show (match assembleConn wrapArith P.lim (liftConn (I s.key) (newConn P s.ts).1) P.used (liftSeg (I s.key) s) with | .ok st => _ | .err e => _ | .panic k => _) = _
        rw [this]
        exact assemble_tail I (newConn P s.ts).2 s.key [Ev.new s.key P.nextSid] _

theorem flushWithList_sim (Sf : Nat → Bytes) (hS : ∀ k, (Sf k).length + 2 < 1073741824) (I : Nat → Int)
    (T : Int) (ca : Bool) (cs : List (Nat × Conn)) (acc : FlushRes)
    (hcs : ∀ k c, (k, c) ∈ cs → ∃ pos, ConnOk (Sf k) c pos) :
    flushWithList wrapArith T ca (liftConns I cs) (liftAcc I acc) =
      liftAcc I (flushWithList flatArith T ca cs acc) := by
  induction cs generalizing acc with
  | nil => rfl
  | cons x cs ih =>
    obtain ⟨k, c⟩ := x
    obtain ⟨pos, hc⟩ := hcs k c List.mem_cons_self
    show flushWithList wrapArith T ca ((k, liftConn (I k) c) :: liftConns I cs) (liftAcc I acc) = _
    simp only [flushWithList]
    have hu : (liftAcc I acc).pool.used = acc.pool.used := rfl
    rw [hu, flushConn_sim (Sf k) (hS k) (I k) T ca c acc.pool.used pos hc]
    dsimp only
    rw [← ih _ (fun k' c' hm => hcs k' c' (List.mem_cons_of_mem _ hm))]
    congr 1
    show ({ pool := putBack (liftPool I acc.pool) k (liftStep (I k) _), evs := _, flushed := _, closed := _ } : FlushRes) = _
    rw [putBack_lift]
    rfl

theorem flushAllList_sim (Sf : Nat → Bytes) (hS : ∀ k, (Sf k).length + 2 < 1073741824) (I : Nat → Int)
    (cs : List (Nat × Conn)) (acc : FlushRes)
    (hcs : ∀ k c, (k, c) ∈ cs → ∃ pos, ConnOk (Sf k) c pos) :
    flushAllList wrapArith (liftConns I cs) (liftAcc I acc) =
      liftAcc I (flushAllList flatArith cs acc) := by
  induction cs generalizing acc with
  | nil => rfl
  | cons x cs ih =>
    obtain ⟨k, c⟩ := x
    obtain ⟨pos, hc⟩ := hcs k c List.mem_cons_self
    show flushAllList wrapArith ((k, liftConn (I k) c) :: liftConns I cs) (liftAcc I acc) = _
    simp only [flushAllList]
    have hu : (liftAcc I acc).pool.used = acc.pool.used := rfl
    rw [hu, flushAllConn_sim (Sf k) (hS k) (I k) c acc.pool.used pos hc]
    rw [← ih _ (fun k' c' hm => hcs k' c' (List.mem_cons_of_mem _ hm))]
    congr 1
    show ({ pool := putBack (liftPool I acc.pool) k (liftStep (I k) _), evs := _, flushed := _, closed := _ } : FlushRes) = _
    rw [putBack_lift]
    rfl

def liftResS (I : Nat → Int) : Res (Pool × OpOut) → Res (Pool × OpOut)
  | .ok x => .ok (liftPool I x.1, x.2)
  | .err e => .err e
  | .panic k => .panic k

def liftResR (I : Nat → Int) : Res (Pool × List OpOut) → Res (Pool × List OpOut)
  | .ok x => .ok (liftPool I x.1, x.2)
  | .err e => .err e
  | .panic k => .panic k

def FlatOpOk (Sf : Nat → Bytes) : Op → Prop := OpPre (fun s => FlatSegOk (Sf s.key) s)

theorem live_connOk (Sf : Nat → Bytes) (P : Pool) (log : List Ev)
    (h : LogInv (FlatR Sf) (FlatD Sf) P log) :
    ∀ k c, (k, c) ∈ P.conns → ∃ pos, ConnOk (Sf k) c pos := by
  intro k c hm
  obtain ⟨_, pos, _, hc, _⟩ := h.live k c (lookup_of_mem k c _ h.sorted hm)
  exact ⟨pos, hc⟩

theorem step_sim (Sf : Nat → Bytes) (hS : ∀ k, (Sf k).length + 2 < 1073741824) (I : Nat → Int)
    (P : Pool) (log : List Ev) (op : Op) (h : LogInv (FlatR Sf) (FlatD Sf) P log)
    (hop : FlatOpOk Sf op) :
    step wrapArith (liftPool I P) (liftOp I op) = liftResS I (step flatArith P op) := by
  cases op with
  | opt a b => rfl
  | seg s =>
    show (match assemble wrapArith (liftPool I P) (liftSeg (I s.key) s) with | .ok x => _ | .err e => _ | .panic k => _) = _
    rw [assemble_sim Sf hS I P log s h hop]
    simp only [step]
    cases assemble flatArith P s with
    | ok x => rfl
    | err e => rfl
    | panic k => rfl
  | flush T ca =>
    have : flushWith wrapArith (liftPool I P) T ca = liftAcc I (flushWith flatArith P T ca) :=
      flushWithList_sim Sf hS I T ca P.conns { pool := P, evs := [], flushed := 0, closed := 0 }
        (live_connOk Sf P log h)
    simp only [liftOp, step]
    rw [this]
    rfl
  | flushAll =>
    have : flushAll wrapArith (liftPool I P) = liftAcc I (flushAll flatArith P) :=
      flushAllList_sim Sf hS I P.conns { pool := P, evs := [], flushed := 0, closed := 0 }
        (live_connOk Sf P log h)
    simp only [liftOp, step]
    rw [this]
    rfl

theorem run_sim (Sf : Nat → Bytes) (hS : ∀ k, (Sf k).length + 2 < 1073741824) (I : Nat → Int)
    (P : Pool) (log : List Ev) (ops : List Op) (h : LogInv (FlatR Sf) (FlatD Sf) P log)
    (hops : ∀ op ∈ ops, FlatOpOk Sf op) :
    run wrapArith (liftPool I P) (ops.map (liftOp I)) = liftResR I (run flatArith P ops) := by
  induction ops generalizing P log with
  | nil => rfl
  | cons op ops ih =>
    obtain ⟨x, hx, hq⟩ := step_logInv (flat_streamInv Sf) P log op h (hops op List.mem_cons_self)
    simp only [List.map_cons, run]
    rw [step_sim Sf hS I P log op h (hops op List.mem_cons_self), hx]
    show (match run wrapArith (liftPool I x.1) (ops.map (liftOp I)) with
          | .ok y => Res.ok (y.1, x.2 :: y.2) | .err e => .err e | .panic k => .panic k) =
        liftResR I (match run flatArith x.1 ops with
          | .ok y => Res.ok (y.1, x.2 :: y.2) | .err e => .err e | .panic k => .panic k)
    rw [ih x.1 _ hq (fun o ho => hops o (List.mem_cons_of_mem _ ho))]
    generalize run flatArith x.1 ops = r
    cases r <;> rfl

/-! ### from consistent segments in sequence-number space to offset space -/

def isnOf (snd : Nat → Sender) : Nat → Int := fun k => ((snd k).isn : Int)
def streamOf (snd : Nat → Sender) : Nat → Bytes := fun k => (snd k).S

theorem seg_to_flat (snd : Nat → Sender) (hsnd : SendersOk snd) (s : Seg) (hs : SegOk snd s) :
    ∃ f : Seg, s = liftSeg (isnOf snd s.key) f ∧ f.key = s.key ∧ FlatSegOk (streamOf snd s.key) f := by
  rcases s with ⟨key, seq, syn, fin, rst, ts, bytes⟩
  unfold SegOk at hs
  simp only [] at hs
  have hi := (hsnd key).1
  by_cases hsyn : syn = true
  · rw [if_pos hsyn] at hs
    obtain ⟨h1, h2, h3, _⟩ := hs
    refine ⟨⟨key, 0, syn, fin, rst, ts, bytes⟩, ?_, rfl, ?_⟩
    · simp only [liftSeg, Seg.mk.injEq, and_true, true_and]
      rw [h1]
      unfold wseq isnOf
      omega
    · unfold FlatSegOk
      rw [if_pos hsyn]
      exact ⟨rfl, h2, h3⟩
  · rw [if_neg hsyn] at hs
    obtain ⟨off, h1, h2, h3, _⟩ := hs
    refine ⟨⟨key, (off : Int) + 1, syn, fin, rst, ts, bytes⟩, ?_, rfl, ?_⟩
    · simp only [liftSeg, Seg.mk.injEq, and_true, true_and]
      rw [h1]
      unfold wseq isnOf
      omega
    · unfold FlatSegOk
      rw [if_neg hsyn]
      exact ⟨off, rfl, h2, h3⟩

theorem ops_to_flat (snd : Nat → Sender) (hsnd : SendersOk snd) (ops : List Op)
    (hops : ∀ op ∈ ops, OpOk snd op) :
    ∃ fops : List Op, ops = fops.map (liftOp (isnOf snd)) ∧ ∀ f ∈ fops, FlatOpOk (streamOf snd) f := by
  induction ops with
  | nil => exact ⟨[], rfl, by intro f h; simp at h⟩
  | cons op ops ih =>
    obtain ⟨fops, e1, e2⟩ := ih (fun o ho => hops o (List.mem_cons_of_mem _ ho))
    have hop := hops op List.mem_cons_self
    cases op with
    | seg s =>
      obtain ⟨f, f1, f2, f3⟩ := seg_to_flat snd hsnd s hop
      refine ⟨.seg f :: fops, ?_, ?_⟩
      · simp only [List.map_cons, liftOp]
        rw [← e1, f2, ← f1]
      · intro g hg
        rcases List.mem_cons.1 hg with hg | hg
        · rw [hg]; show FlatSegOk (streamOf snd f.key) f; rw [f2]; exact f3
        · exact e2 g hg
    | opt a b =>
      refine ⟨.opt a b :: fops, by simp only [List.map_cons, liftOp]; rw [← e1], ?_⟩
      intro g hg
      rcases List.mem_cons.1 hg with hg | hg
      · rw [hg]; trivial
      · exact e2 g hg
    | flush T ca =>
      refine ⟨.flush T ca :: fops, by simp only [List.map_cons, liftOp]; rw [← e1], ?_⟩
      intro g hg
      rcases List.mem_cons.1 hg with hg | hg
      · rw [hg]; trivial
      · exact e2 g hg
    | flushAll =>
      refine ⟨.flushAll :: fops, by simp only [List.map_cons, liftOp]; rw [← e1], ?_⟩
      intro g hg
      rcases List.mem_cons.1 hg with hg | hg
      · rw [hg]; trivial
      · exact e2 g hg

/-- Layers A+B combined: a history of segments consistent with their senders, run with the REAL
    sequence arithmetic, never panics, and its callbacks are those of the offset-space twin, which
    satisfy the stream invariant. -/
theorem wrap_sound (snd : Nat → Sender) (hsnd : SendersOk snd) (ops : List Op)
    (hops : ∀ op ∈ ops, OpOk snd op) :
    ∃ P outs, run wrapArith {} ops = .ok (P, outs) ∧
      ∃ Pf, LogInv (FlatR (streamOf snd)) (FlatD (streamOf snd)) Pf (allEvs outs) ∧
        P = liftPool (isnOf snd) Pf := by
  obtain ⟨fops, e1, e2⟩ := ops_to_flat snd hsnd ops hops
  obtain ⟨x, h1, h2⟩ := flat_sound (streamOf snd) fops e2
  have hsim := run_sim (streamOf snd) (fun k => (hsnd k).2) (isnOf snd) {} [] fops
    (logInv_init (fun k => ⟨none, rfl⟩)) e2
  rw [h1] at hsim
  refine ⟨liftPool (isnOf snd) x.1, x.2, ?_, x.1, h2, rfl⟩
  rw [e1]
  exact hsim

end Gp.Asm
