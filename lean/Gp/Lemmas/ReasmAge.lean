import Gp.Lemmas.ReasmLifePool
/-
  C11 (reassembly half): the age-based flush (FlushWithOptions{T, TC}) — what it releases, what it leaves
  queued, what it closes.  Any input; arithmetic `A` with `A.add _ _ ≠ invalidSequence` (true for the generated
  Sequence.Add, which is reduced modulo 2^32).
-/
set_option linter.unusedSimpArgs false
set_option linter.unusedVariables false
namespace Gp.Reasm
open Gp

def pbytes (l : List Page) : List UInt8 := (l.map (fun q => q.bytes)).flatten

theorem flat_app (a b : List Cont) : flat (a ++ b) = flat a ++ flat b := by simp [flat]

theorem flat_toCont (ps : List Page) : flat (ps.map Page.toCont) = pbytes ps := by
  induction ps with
  | nil => rfl
  | cons p rest ih =>
    simp only [flat, pbytes, List.map_cons, List.flatten_cons, Page.toCont] at ih ⊢
    rw [ih]

theorem pbytes_len (ps : List Page) : (pbytes ps).length = bytesLen ps := by
  induction ps with
  | nil => rfl
  | cons p rest ih =>
    simp only [pbytes, bytesLen, List.map_cons, List.flatten_cons, List.length_append, List.sum_cons] at ih ⊢
    omega

theorem addPending_shape (A : Arith) (h : Half) (used : Int) (firstSeq : Int) (ret : List Cont) :
    ∃ pre : List Page, (addPending A h used firstSeq ret).2.2.1 = pre.map Page.toCont ++ ret ∧
      (addPending A h used firstSeq ret).2.2.2 = bytesLen pre ∧
      (addPending A h used firstSeq ret).1.queue = h.queue ∧
      (addPending A h used firstSeq ret).1.lastSeen = h.lastSeen ∧
      (addPending A h used firstSeq ret).1.closed = h.closed := by
  unfold addPending
  cases hs : h.saved with
  | nil => exact ⟨[], by simp [bytesLen]⟩
  | cons p rest =>
    simp only
    split
    · exact ⟨[], by simp [bytesLen]⟩
    · exact ⟨p :: rest, by simp⟩

theorem addContiguousAux_contig (A : Arith) : ∀ (q : List Page) (last : Int) (ret : List Cont),
    ∃ taken, q = taken ++ (addContiguousAux A q last ret).1 ∧
      (addContiguousAux A q last ret).2.2 = ret ++ taken.map Page.toCont ∧ Contig A last taken
  | [], last, ret => ⟨[], by simp [addContiguousAux, Contig]⟩
  | p :: rest, last, ret => by
    simp only [addContiguousAux]
    split
    · rename_i h0
      obtain ⟨taken, h1, h2, h3⟩ := addContiguousAux_contig A rest (A.add last ↑p.bytes.length) (ret ++ [p.toCont])
      exact ⟨p :: taken, by rw [List.cons_append, ← h1], by rw [h2]; simp, ⟨h0, h3⟩⟩
    · exact ⟨[], by simp [Contig]⟩

theorem addContiguous_contig (A : Arith) (h : Half) (last : Int) (ret : List Cont) (hlast : last ≠ invalidSeq) :
    ∃ taken, h.queue = taken ++ (addContiguous A h last ret).1.queue ∧
      (addContiguous A h last ret).2.2 = ret ++ taken.map Page.toCont ∧ Contig A last taken ∧
      (addContiguous A h last ret).1.lastSeen = h.lastSeen ∧ (addContiguous A h last ret).1.closed = h.closed := by
  unfold addContiguous
  cases hq : h.queue with
  | nil => exact ⟨[], by simp [hq, Contig]⟩
  | cons p rest =>
    simp only [if_neg hlast]
    obtain ⟨taken, h1, h2, h3⟩ := addContiguousAux_contig A (p :: rest) last ret
    exact ⟨taken, h1, h2, h3, by first | rfl | trivial, by first | rfl | trivial⟩

/-- the shape of one `sendToConnection` that starts with the queued page `p` -/
theorem send_group (A : Arith) (hA : ∀ s n, A.add s n ≠ invalidSeq) (h : Half) (used : Int) (p : Page) (ts : Int)
    (keep : KeepRule) (s : Sent) (hs : sendToConnection A h used [p.toCont] ts keep = .ok s) :
    ∃ taken q', h.queue = taken ++ q' ∧ Contig A (A.add p.seq p.bytes.length) taken ∧
      s.sg.new = pbytes (p :: taken) ∧ (s.half.queue = q' ∨ s.half.queue = []) ∧
      s.half.lastSeen = h.lastSeen ∧ s.closed = s.sg.fin ∧ (s.closed = false → s.half.closed = h.closed) := by
  unfold sendToConnection at hs
  simp only at hs
  obtain ⟨pre, hap1, hap2, hap3, hap4, hap5⟩ := addPending_shape A h used p.toCont.seq [p.toCont]
  generalize addPending A h used p.toCont.seq [p.toCont] = ap at hs hap1 hap2 hap3 hap4 hap5
  obtain ⟨h1, used1, ret1, savedLen⟩ := ap
  simp only at hs hap1 hap2 hap3 hap4 hap5
  obtain ⟨taken, hac1, hac2, hac3, hac4, hac5⟩ := addContiguous_contig A h1 (A.add p.toCont.seq ↑p.toCont.bytes.length) ret1
    (hA _ _)
  generalize addContiguous A h1 (A.add p.toCont.seq ↑p.toCont.bytes.length) ret1 = ac at hs hac1 hac2 hac4 hac5
  obtain ⟨h2, e, all⟩ := ac
  simp only at hs hac1 hac2 hac4 hac5
  have hnew : (flat all).drop savedLen = pbytes (p :: taken) := by
    rw [hac2, hap1, hap2, flat_app, flat_app, flat_toCont, flat_toCont, ← pbytes_len pre, List.append_assoc,
      List.drop_left]
    simp [flat, pbytes, Page.toCont]
  split at hs
  · rename_i h3 used3 hcl
    obtain ⟨hc1, _, _⟩ := cleanSG_acct A h2 used1 all _ ts h3 used3 hcl
    have hq3 : h3.queue = h2.queue := by rw [hc1]
    have hl3 : h3.lastSeen = h.lastSeen := by rw [hc1]; simp only; rw [hac4, hap4]
    have hc3 : h3.closed = h.closed := by rw [hc1]; simp only; rw [hac5, hap5]
    split at hs
    · rename_i hfin
      obtain rfl := Res.ok.inj hs
      refine ⟨taken, h2.queue, by rw [← hap3]; exact hac1, hac3, hnew, Or.inr (by simp [closeHalf]),
        by simp [closeHalf, hl3], by simp only; exact hfin.symm, fun hc => by simp at hc⟩
    · rename_i hfin
      obtain rfl := Res.ok.inj hs
      refine ⟨taken, h2.queue, by rw [← hap3]; exact hac1, hac3, hnew, Or.inl hq3, hl3,
        by simp only; simpa using hfin, fun _ => hc3⟩
  · cases hs
  · cases hs

/-- what one `skipFlush` on a non-empty queue hands to the stream -/
theorem skipFlush_group (A : Arith) (hA : ∀ s n, A.add s n ≠ invalidSeq) (h : Half) (used : Int) (keep : KeepRule)
    (p : Page) (rest : List Page) (hq : h.queue = p :: rest) (o : Out) (hs : skipFlush A h used keep = .ok o) :
    ∃ g taken q', o.sgs = [g] ∧ rest = taken ++ q' ∧ Contig A (A.add p.seq p.bytes.length) taken ∧
      g.new = pbytes (p :: taken) ∧ (o.half.queue = q' ∨ o.half.queue = []) ∧ o.half.lastSeen = h.lastSeen ∧
      o.closed = g.fin := by
  unfold skipFlush at hs
  simp only [hq, addNextFromConn, List.nil_append] at hs
  split at hs
  · rename_i s hsend
    obtain ⟨taken, q', h1, h2, h3, h4, h5, h6, _⟩ := send_group A hA { h with queue := rest } used p 0 keep s hsend
    obtain rfl := Res.ok.inj hs
    refine ⟨s.sg, taken, q', rfl, h1, h2, h3, ?_, ?_, h6⟩
    · simp only; split <;> exact h4
    · simp only; split <;> exact h5
  · cases hs
  · cases hs

theorem GroupIn.shift {A T q g} (front : List Page) (h : GroupIn A T q g) : GroupIn A T (front ++ q) g := by
  obtain ⟨pre, grp, post, h1, h2⟩ := h
  exact ⟨front ++ pre, grp, post, by rw [h1]; simp, h2⟩

/-- the flush loop: every ScatterGather it adds is an old group of the queue; what stays queued is a suffix of the
    queue, and its first page is not older than the cut-off -/
theorem flushLoop_age (A : Arith) (hA : ∀ s n, A.add s n ≠ invalidSeq) (t : Int) (keep : KeepRule) :
    ∀ (fuel : Nat) (h : Half) (used : Int) (sgs : List SG) (fl : Bool) (o : Out), h.closed = false →
      h.queue.length < fuel → flushLoop A t keep fuel h used sgs fl = .ok o →
      ∃ l, o.sgs = sgs ++ l ∧ (∀ g ∈ l, GroupIn A t h.queue g) ∧ (∃ rel, h.queue = rel ++ o.half.queue) ∧
        HeadNotOld t o.half.queue ∧ o.half.lastSeen = h.lastSeen ∧
        (o.closed = true → ∃ g ∈ l, g.fin = true) ∧ (l = [] → o.half = h ∧ o.closed = false)
  | 0, h, used, sgs, fl, o, _, hfuel, _ => by omega
  | fuel + 1, h, used, sgs, fl, o, hopen, hfuel, hf => by
    simp only [flushLoop] at hf
    cases hq : h.queue with
    | nil =>
      simp only [hq, Res.ok.injEq] at hf
      subst hf
      exact ⟨[], by simp, by simp, ⟨[], by simp [hq]⟩, by simp [hq, HeadNotOld], rfl, by simp, fun _ => ⟨rfl, rfl⟩⟩
    | cons p rest =>
      simp only [hq] at hf
      split at hf
      · rename_i hold
        split at hf
        · rename_i o1 hs
          obtain ⟨g, taken, q', e1, e2, e3, e4, e5, e6, e7⟩ := skipFlush_group A hA h used keep p rest hq o1 hs
          obtain ⟨a1, hlen⟩ := skipFlush_acct A h used keep o1 hopen hs
          have hgrp : GroupIn A t (p :: rest) g :=
            ⟨[], p :: taken, q', by rw [e2]; simp, ⟨p, taken, rfl, hold, e3, e4⟩⟩
          split at hf
          · rename_i hc1
            simp only [Res.ok.injEq] at hf
            subst hf
            have hempty : o1.half.queue = [] := by
              have := a1.empty hc1
              simp only [held] at this
              exact List.eq_nil_of_length_eq_zero (by omega)
            refine ⟨[g], by simp [e1], ?_, ⟨p :: rest, by simp [hempty]⟩, by simp [hempty, HeadNotOld], e6,
              fun _ => ⟨g, by simp, by rw [← e7]; exact hc1⟩, fun hc => by simp at hc⟩
            intro g' hg'
            simp only [List.mem_singleton] at hg'
            subst hg'; exact hgrp
          · rename_i hc1
            have hc1' : o1.closed = false := by simpa using hc1
            have hopen1 : o1.half.closed = false := by rw [a1.closedF hc1', hopen]
            have hl1 := hlen hc1'
            obtain ⟨l, hl, hg, ⟨rel, hrel⟩, hhead, hls, hfin, _⟩ := flushLoop_age A hA t keep fuel o1.half o1.used
              (sgs ++ o1.sgs) true o hopen1 (by rw [hq] at hfuel hl1; simp only [List.length_cons] at hfuel hl1; omega) hf
            have hq1 : ∃ front, p :: rest = front ++ o1.half.queue := by
              rcases e5 with e | e
              · exact ⟨p :: taken, by rw [e, e2]; simp⟩
              · exact ⟨p :: rest, by rw [e]; simp⟩
            obtain ⟨front, hfront⟩ := hq1
            refine ⟨g :: l, by rw [hl, e1]; simp, ?_, ⟨front ++ rel, by rw [hfront, hrel]; simp⟩, hhead,
              by rw [hls, e6], ?_, fun hc => by simp at hc⟩
            · intro g' hg'
              rcases List.mem_cons.mp hg' with rfl | hg'
              · exact hgrp
              · rw [hfront]; exact (hg g' hg').shift front
            · intro hc
              obtain ⟨g', hg', hf'⟩ := hfin hc
              exact ⟨g', List.mem_cons_of_mem _ hg', hf'⟩
        · cases hf
        · cases hf
      · rename_i hold
        simp only [Res.ok.injEq] at hf
        subst hf
        exact ⟨[], by simp, by simp, ⟨[], by simp [hq]⟩, by simp [hq, HeadNotOld, hold], rfl, by simp,
          fun _ => ⟨rfl, rfl⟩⟩

/-- `flushClose` on one half connection.  `hk`: a closed half connection queues nothing (pool invariant). -/
theorem flushClose_age (A : Arith) (hA : ∀ s n, A.add s n ≠ invalidSeq) (h : Half) (used : Int) (t tc ls : Int)
    (keep : KeepRule) (o : Out) (hk : h.closed = true → h.queue = []) (hf : flushClose A h used t tc ls keep = .ok o) :
    (∀ g ∈ o.sgs, GroupIn A t h.queue g) ∧ (∃ rel, h.queue = rel ++ o.half.queue) ∧ HeadNotOld t o.half.queue ∧
      o.half.lastSeen = h.lastSeen ∧
      (o.half.closed = true ∨ o.half.queue ≠ [] ∨ tc ≤ ls) ∧
      (o.half.closed = true → h.closed = true ∨ ls < tc ∨ ∃ g ∈ o.sgs, g.fin = true) := by
  unfold flushClose at hf
  split at hf
  · rename_i hc
    simp only [Res.ok.injEq] at hf
    subst hf
    exact ⟨by simp, ⟨[], by simp⟩, by rw [hk hc]; simp [HeadNotOld], rfl, Or.inl hc, fun _ => Or.inl hc⟩
  · rename_i hc
    have hopen : h.closed = false := by simpa using hc
    split at hf
    · rename_i o1 hl
      obtain ⟨l, h1, h2, h3, h4, h5, h6, h7⟩ := flushLoop_age A hA t keep _ h used [] false o1 hopen (Nat.lt_succ_self _) hl
      simp only [List.nil_append] at h1
      have a1 := flushLoop_acct A t keep _ h used [] false o1 hopen hl
      split at hf
      · rename_i hc1
        obtain rfl := Res.ok.inj hf
        refine ⟨by rw [h1]; exact h2, h3, h4, h5, Or.inl (a1.closedT hc1).2, fun _ => Or.inr (Or.inr ?_)⟩
        rw [h1]; exact h6 hc1
      · rename_i hc1
        have hc1' : o1.closed = false := by simpa using hc1
        have hopen1 : o1.half.closed = false := by rw [a1.closedF hc1', hopen]
        split at hf
        · rename_i hcond
          obtain rfl := Res.ok.inj hf
          refine ⟨by rw [h1]; exact h2, ⟨h.queue, by simp [closeHalf]⟩, by simp [closeHalf, HeadNotOld],
            by simp [closeHalf, h5], Or.inl rfl, fun _ => Or.inr (Or.inl hcond.2)⟩
        · rename_i hcond
          obtain rfl := Res.ok.inj hf
          refine ⟨by rw [h1]; exact h2, h3, h4, h5, ?_, fun hcl => by rw [hopen1] at hcl; cases hcl⟩
          by_cases hqe : o1.half.queue = []
          · right; right
            have : ¬ ls < tc := fun hlt => hcond ⟨by simp [hqe], hlt⟩
            omega
          · exact Or.inr (Or.inl hqe)
    · cases hf
    · cases hf

/-! ### one connection -/

/-- a half connection after an age flush -/
structure HalfAged (A : Arith) (t tc ls : Int) (h h' : Half) (sgs : List SG) : Prop where
  groups : ∀ g ∈ sgs, GroupIn A t h.queue g
  suffix : ∃ rel, h.queue = rel ++ h'.queue
  head : HeadNotOld t h'.queue
  seen : h'.lastSeen = h.lastSeen
  idle : h'.closed = true ∨ h'.queue ≠ [] ∨ tc ≤ ls
  closedWhy : h'.closed = true → h.closed = true ∨ ls < tc ∨ ∃ g ∈ sgs, g.fin = true

theorem completion_not_sg (c : Conn) (b : Bool) (cmpl : CmplRule) (k s : Nat) (d : Bool) (g : SG) :
    Ev.sg k s d g ∉ (completion c b cmpl).1 := by
  unfold completion
  split <;> simp

theorem flushConn_age (A : Arith) (hA : ∀ s n, A.add s n ≠ invalidSeq) (c : Conn) (used : Int) (t tc : Int)
    (keep : KeepRule) (cmpl : CmplRule) (o : ConnOut) (hk : ConnOK c) (h : flushConn A c used t tc keep cmpl = .ok o) :
    ∃ sgs1 sgs2, HalfAged A t tc (connLastSeen c) c.s2c o.conn.s2c sgs1 ∧
      HalfAged A t tc (connLastSeen c) c.c2s o.conn.c2s sgs2 ∧
      (∀ k s d g, Ev.sg k s d g ∈ o.evs → k = c.id ∧ s = c.sid ∧ ((d = true ∧ g ∈ sgs1) ∨ (d = false ∧ g ∈ sgs2))) ∧
      (o.removed = false → ¬ (o.conn.s2c.closed = true ∧ o.conn.c2s.closed = true ∧
          o.conn.s2c.lastSeen < tc ∧ o.conn.c2s.lastSeen < tc)) := by
  have hclosedq : ∀ hh : Half, HalfOK hh → hh.closed = true → hh.queue = [] := by
    intro hh hok hc
    have := hok.2 hc
    simp only [held] at this
    exact List.eq_nil_of_length_eq_zero (by omega)
  unfold flushConn at h
  split at h
  · rename_i o1 h1
    obtain ⟨a1, a2, a3, a4, a5, a6⟩ := flushClose_age A hA c.s2c used t tc _ keep o1 (hclosedq _ hk.2) h1
    simp only at h
    have hls : connLastSeen { c with s2c := o1.half } = connLastSeen c := by
      simp only [connLastSeen, a4]
    rw [hls] at h
    split at h
    · rename_i o2 h2
      obtain ⟨b1, b2, b3, b4, b5, b6⟩ := flushClose_age A hA c.c2s o1.used t tc _ keep o2 (hclosedq _ hk.1) h2
      obtain rfl := Res.ok.inj h
      refine ⟨o1.sgs, o2.sgs, ⟨a1, a2, a3, a4, a5, a6⟩, ⟨b1, b2, b3, b4, b5, b6⟩, ?_, ?_⟩
      · intro k s d g he
        simp only [List.mem_append, List.mem_map] at he
        rcases he with ((⟨g', hg', he⟩ | he) | ⟨g', hg', he⟩) | he
        · cases he; exact ⟨rfl, rfl, Or.inl ⟨rfl, hg'⟩⟩
        · exact absurd he (completion_not_sg _ _ _ _ _ _ _)
        · cases he; exact ⟨rfl, rfl, Or.inr ⟨rfl, hg'⟩⟩
        · exact absurd he (completion_not_sg _ _ _ _ _ _ _)
      · intro hr hcond
        simp only [Bool.decide_eq_false, Bool.not_eq_true, decide_eq_false_iff_not, not_or] at hr
        exact hr.2.2 hcond
    · cases h
    · cases h
  · cases h
  · cases h

/-! ### the pool -/

theorem overConns_ev (f : Conn → Int → Res ConnOut) :
    ∀ (l : List Conn) (used : Int) (cs : List Conn) (u' : Int) (evs : List Ev) (fl cl : Nat),
      overConns f l used = .ok (cs, u', evs, fl, cl) →
      (∀ e ∈ evs, ∃ c ∈ l, ∃ u o, f c u = .ok o ∧ e ∈ o.evs) ∧
      (∀ x ∈ cs, ∃ c ∈ l, ∃ u o, f c u = .ok o ∧ x = o.conn ∧ o.removed = false)
  | [], used, cs, u', evs, fl, cl, h => by
    simp only [overConns, Res.ok.injEq, Prod.mk.injEq] at h
    obtain ⟨rfl, _, rfl, _⟩ := h
    exact ⟨by simp, by simp⟩
  | c :: rest, used, cs, u', evs, fl, cl, h => by
    simp only [overConns] at h
    split at h
    · rename_i o ho
      split at h
      · rename_i cs1 u1 evs1 fl1 cl1 hrest
        obtain ⟨ih1, ih2⟩ := overConns_ev f rest o.used cs1 u1 evs1 fl1 cl1 hrest
        simp only [Res.ok.injEq, Prod.mk.injEq] at h
        obtain ⟨rfl, _, rfl, _⟩ := h
        refine ⟨?_, ?_⟩
        · intro e he
          rcases List.mem_append.mp he with he | he
          · exact ⟨c, List.mem_cons_self .., used, o, ho, he⟩
          · obtain ⟨c', hc', r⟩ := ih1 e he
            exact ⟨c', List.mem_cons_of_mem _ hc', r⟩
        · intro x hx
          split at hx
          · obtain ⟨c', hc', r⟩ := ih2 x hx
            exact ⟨c', List.mem_cons_of_mem _ hc', r⟩
          · rename_i hr
            rcases List.mem_cons.mp hx with rfl | hx
            · exact ⟨c, List.mem_cons_self .., used, o, ho, rfl, by simpa using hr⟩
            · obtain ⟨c', hc', r⟩ := ih2 x hx
              exact ⟨c', List.mem_cons_of_mem _ hc', r⟩
      · cases h
      · cases h
    · cases h
    · cases h

/-- FlushWithOptions on a pool that satisfies the accounting invariant: every connection left in the pool is the
    image of a connection of the snapshot under `flushConn`, and every ScatterGather comes from one of them -/
theorem opFlush_age (A : Arith) (hA : ∀ s n, A.add s n ≠ invalidSeq) (st : St) (t tc : Int) (keep : KeepRule)
    (cmpl : CmplRule) (rp : Reply) (hinv : PoolInv st) (h : opFlush A st t tc keep cmpl = .ok rp) :
    (∀ k s d g, Ev.sg k s d g ∈ rp.evs → ∃ c ∈ st.conns, k = c.id ∧ s = c.sid ∧
        GroupIn A t (c.half (!d)).queue g) ∧
    (∀ x ∈ rp.st.conns, ∃ c ∈ st.conns, ∃ sgs1 sgs2, x.id = c.id ∧ x.sid = c.sid ∧
        HalfAged A t tc (connLastSeen c) c.s2c x.s2c sgs1 ∧ HalfAged A t tc (connLastSeen c) c.c2s x.c2s sgs2 ∧
        ¬ (x.s2c.closed = true ∧ x.c2s.closed = true ∧ x.s2c.lastSeen < tc ∧ x.c2s.lastSeen < tc)) := by
  unfold opFlush at h
  split at h
  · rename_i cs u evs fl cl hov
    obtain rfl := Res.ok.inj h
    obtain ⟨h1, h2⟩ := overConns_ev _ st.conns st.used cs u evs fl cl hov
    refine ⟨?_, ?_⟩
    · intro k s d g he
      obtain ⟨c, hc, u', o, ho, heo⟩ := h1 _ he
      obtain ⟨sgs1, sgs2, g1, g2, g3, _⟩ := flushConn_age A hA c u' t tc keep cmpl o (hinv.ok c hc) ho
      obtain ⟨e1, e2, e3⟩ := g3 k s d g heo
      refine ⟨c, hc, e1, e2, ?_⟩
      rcases e3 with ⟨rfl, hg⟩ | ⟨rfl, hg⟩
      · simpa [Conn.half] using g1.groups g hg
      · simpa [Conn.half] using g2.groups g hg
    · intro x hx
      obtain ⟨c, hc, u', o, ho, rfl, hr⟩ := h2 x hx
      obtain ⟨sgs1, sgs2, g1, g2, _, g4⟩ := flushConn_age A hA c u' t tc keep cmpl o (hinv.ok c hc) ho
      have hst := flushConn_step A c u' t tc keep cmpl o (hinv.ok c hc) ho
      exact ⟨c, hc, sgs1, sgs2, hst.id.1, hst.id.2, g1, g2, g4 hr⟩
  · cases h
  · cases h

theorem headNotOld_sorted {t : Int} : ∀ {q : List Page}, SeenSorted q → HeadNotOld t q → ∀ p ∈ q, ¬ p.seen < t
  | [], _, _, p, hp => by simp at hp
  | x :: rest, hs, hh, p, hp => by
    have hx := List.pairwise_cons.mp hs
    simp only [HeadNotOld] at hh
    rcases List.mem_cons.mp hp with rfl | hp
    · exact hh
    · have := hx.1 p hp; omega

theorem seenSorted_suffix {rel q : List Page} (h : SeenSorted (rel ++ q)) : SeenSorted q :=
  (List.pairwise_append.mp h).2.1

theorem real_add_valid (s n : Int) : Arith.real.add s n ≠ invalidSeq := by
  simp only [Arith.real, Gp.Gen.SeqReasm.add, invalidSeq, Gp.Gen.SeqReasm.invalidSequence]
  omega

end Gp.Reasm
