/-
  Helper lemmas for C13 (engine frag4), part 7: DiscardOlderThan on a map with one entry per key.
-/
import Gp.Lemmas.Frag4Run

namespace Gp.Frag4

theorem keys_unique : ∀ (l : List (Key × FL)), (l.map (·.1)).Nodup → ∀ a b, a ∈ l → b ∈ l → a.1 = b.1 → a = b
  | [], _, _, _, ha, _, _ => by cases ha
  | c :: l, h, a, b, ha, hb, e => by
    simp only [List.map_cons, List.nodup_cons] at h
    rcases List.mem_cons.1 ha with ea | ha'
    · rcases List.mem_cons.1 hb with eb | hb'
      · rw [ea, eb]
      · exact absurd (List.mem_map.2 ⟨b, hb', by rw [← e, ea]⟩) h.1
    · rcases List.mem_cons.1 hb with eb | hb'
      · exact absurd (List.mem_map.2 ⟨a, ha', by rw [e, eb]⟩) h.1
      · exact keys_unique l h.2 a b ha' hb' e

/-- After DiscardOlderThan(t) an entry is present iff it was present and is not older than `t`. -/
theorem discard_lookup (st : State) (hw : st.wf) (t : Int) (k : Key) :
    (discard st t).1.lookup k =
      match st.lookup k with
      | some fl => if fl.lastSeen < t then none else some fl
      | none => none := by
  cases hl : st.lookup k with
  | none =>
    rw [discard_lookup_keep st t k (fun fl h => by rw [hl] at h; cases h), hl]
  | some fl =>
    dsimp only
    by_cases hold : fl.lastSeen < t
    · rw [if_pos hold]
      have hmem := lookup_mem st k fl hl
      unfold discard State.lookup
      dsimp only
      have : (st.flows.filter (fun p => !decide (p.2.lastSeen < t))).find? (fun p => decide (p.1 = k)) = none := by
        apply List.find?_eq_none.2
        intro x hx hk
        obtain ⟨hx1, hx2⟩ := List.mem_filter.1 hx
        have hk' : x.1 = k := by simpa using hk
        have := keys_unique st.flows hw x (k, fl) hx1 hmem hk'
        rw [this] at hx2
        simp [hold] at hx2
      rw [this]
    · rw [if_neg hold, discard_lookup_keep st t k (fun fl' h => by rw [hl] at h; cases h; exact hold), hl]

theorem length_filter_compl (l : List (Key × FL)) (q : Key × FL → Bool) :
    l.length - (l.filter (fun p => !q p)).length = (l.filter q).length := by
  induction l with
  | nil => rfl
  | cons a l ih =>
    have h1 := List.length_filter_le (fun p => !q p) l
    cases hq : q a <;> simp [List.filter_cons, hq] <;> omega

/-- The number DiscardOlderThan returns is the number of entries older than the cut-off. -/
theorem discard_count (st : State) (t : Int) :
    (discard st t).2 = (st.flows.filter (fun p => decide (p.2.lastSeen < t))).length := by
  unfold discard
  exact length_filter_compl st.flows (fun p => decide (p.2.lastSeen < t))

theorem wf_defrag (st : State) (f : Frag) (t : Int) (h : st.wf) : (defrag st f t).1.wf := by
  rcases defrag_state_cases st f t with e | e | ⟨fl, e⟩ <;> rw [e]
  · exact h
  · exact wf_erase st _ h
  · exact wf_set st _ fl h

theorem wf_step (st : State) (op : Op) (h : st.wf) : (step st op).1.wf := by
  cases op with
  | inp f t => exact wf_defrag st f t h
  | discard t => exact wf_discard st t h

theorem wf_run : ∀ (ops : List Op) (st : State), st.wf → (run st ops).1.wf
  | [], _, h => h
  | op :: ops, st, h => by
    have := wf_run ops (step st op).1 (wf_step st op h)
    simpa [run] using this

end Gp.Frag4
