import Gp.Lemmas.ReaderInv
import Gp.Lemmas.ReaderFut
/-
  C20 helper lemmas, part 4: every step strictly decreases `measure` (termination), and a state
  in which nobody can move is a proper end state (deadlock freedom).
-/
namespace Gp.Reader

theorem readTail_weight_le (le : Bool) (n : Nat) (cur : List Slice) (lr : Bool) :
    weight (readTail le n cur lr).2.1 + lrBit (readTail le n cur lr).2.2 ≤ weight cur + lrBit lr := by
  cases cur with
  | nil => exact Nat.le_refl _
  | cons s rest =>
    unfold readTail
    by_cases hu : unreported le lr s = true
    · simp only [hu, if_true]
      show weight (s :: rest) + 0 ≤ _
      omega
    · simp only [hu]
      show (s.bytes.drop n).length + 2 + weight rest + lrBit lr ≤ s.bytes.length + 2 + weight rest + lrBit lr
      rw [List.length_drop]
      omega

theorem readTail_cons_ne_eof (le : Bool) (n : Nat) (a : Slice) (r : List Slice) (lr : Bool) :
    (readTail le n (a :: r) lr).1 ≠ .eof := by
  simp only [readTail]
  split <;> simp

/-- The static part of the measure (everything but the consumer's call list and idle bit). -/
def baseW (s : State) : Nat :=
  weight s.current + weightB s.aprog + lrBit s.lossReported + asmMeasure s

theorem measure_eq (s : State) :
    measure s = 2 * (baseW s + (pending s).length) + idleBit s := rfl

theorem finishRead_measure (s : State) (n : Nat) (l : Bool)
    (hw : Workable s.lossErrors s.lossReported s.current) :
    measure (finishRead s n l) ≤ 2 * (baseW s + s.cprog.length) + 1 := by
  have hle := readTail_weight_le s.lossErrors (bufSize n l) s.current s.lossReported
  have hm : measure (finishRead s n l) =
      2 * (weight (readTail s.lossErrors (bufSize n l) s.current s.lossReported).2.1 + weightB s.aprog
        + lrBit (readTail s.lossErrors (bufSize n l) s.current s.lossReported).2.2 + asmMeasure s
        + (if (l && (readTail s.lossErrors (bufSize n l) s.current s.lossReported).1 != .eof) = true
            then .rd n true :: s.cprog else s.cprog).length) + 1 := rfl
  rw [hm]
  simp only [baseW]
  cases l with
  | false =>
    simp only [Bool.false_and, Bool.false_eq_true, if_false]
    omega
  | true =>
    cases hcur : s.current with
    | nil =>
      simp only [readTail_nil, bne_self_eq_false, Bool.and_false, Bool.false_eq_true, if_false]
      have : weight ([] : List Slice) = 0 := rfl
      omega
    | cons a r =>
      rw [hcur] at hw
      have hne := readTail_cons_ne_eof s.lossErrors (bufSize n true) a r s.lossReported
      have hlt := readTail_weight s.lossErrors n a r s.lossReported (hw a r rfl)
      have hb : bufSize n true = n + 1 := rfl
      rw [hb] at hne ⊢
      have hne' : ((readTail s.lossErrors (n + 1) (a :: r) s.lossReported).1 != Obs.eof) = true := by
        simpa using hne
      simp only [Bool.true_and, hne', if_true, List.length_cons]
      omega

theorem readLoop_measure (s : State) (n : Nat) (l : Bool)
    (hw : Workable s.lossErrors s.lossReported s.current) :
    measure (readLoop s n l) ≤ 2 * (baseW s + s.cprog.length + 1) := by
  unfold readLoop
  split
  · split
    · exact Nat.le_refl _
    · exact Nat.le_refl _
  · have := finishRead_measure s n l hw
    omega

theorem readLoop_closed (s : State) (n : Nat) (l : Bool) (h : s.closed = true) :
    readLoop s n l = finishRead s n l := by
  unfold readLoop
  simp [h]

theorem asmMeasure_next {s s' : State} (hp : s.apc = .waitDone) (h1 : s'.apc = asmNext s.aprog)
    (h2 : s'.aprog = s.aprog) : asmMeasure s' + 1 ≤ asmMeasure s := by
  unfold asmMeasure
  rw [hp, h1, h2]
  cases s.aprog with
  | nil => simp [asmNext]
  | cons b bs => simp only [asmNext, List.length_cons]; omega

theorem startOp_rd (s : State) (n : Nat) (l : Bool) (rest : List COp) (h : s.initiated = true) :
    startOp s (.rd n l) rest =
      readLoop { s with cprog := rest, current := (stripEmpty s.lossErrors s.current s.lossReported).1,
                        lossReported := (stripEmpty s.lossErrors s.current s.lossReported).2 } n l := by
  unfold startOp
  simp only
  rw [if_neg (by simp [h])]

theorem measure_step {s s' : State} (hi : Inv s) (hs : Step s s') : measure s' < measure s := by
  have hi' := inv_step hi hs
  obtain ⟨hini, hA, hC⟩ := hi
  cases hs with
  | asmPanicSend hp hb hc => exact hi'.2.1.elim
  | asmDoneClosed hp hc =>
    have := asmMeasure_next (s := s) (s' := { s with apc := asmNext s.aprog }) hp rfl rfl
    simp only [measure_eq, baseW, pending, idleBit] at this ⊢
    omega
  | closeR hp hc =>
    have h1 : asmMeasure s = 2 := by unfold asmMeasure; rw [hp]
    have h2 : asmMeasure { s with rClosed := true, apc := APc.closeD } = 1 := rfl
    simp only [measure_eq, baseW, pending, idleBit, h1, h2]
    omega
  | closeRPanic hp hc => exact hi'.2.1.elim
  | closeD hp hc =>
    have h1 : asmMeasure s = 1 := by unfold asmMeasure; rw [hp]
    have h2 : asmMeasure { s with dClosed := true, apc := APc.fin } = 0 := rfl
    simp only [measure_eq, baseW, pending, idleBit, h1, h2]
    omega
  | closeDPanic hp hc => exact hi'.2.1.elim
  | @start op rest hp hc =>
    have hms : measure s = 2 * (baseW s + (rest.length + 1)) + 1 := by
      simp only [measure_eq, pending, idleBit, hp, hc, List.length_cons]
    cases op with
    | rd n l =>
      rw [startOp_rd s n l rest hini]
      have hb := readLoop_measure
        { s with cprog := rest, current := (stripEmpty s.lossErrors s.current s.lossReported).1,
                 lossReported := (stripEmpty s.lossErrors s.current s.lossReported).2 } n l
        (workable_strip _ _ _)
      have hw := stripEmpty_weight s.lossErrors s.current s.lossReported
      have ha : asmMeasure
          { s with cprog := rest,
                   current := (stripEmpty s.lossErrors s.current s.lossReported).1,
                   lossReported := (stripEmpty s.lossErrors s.current s.lossReported).2 }
            = asmMeasure s := rfl
      simp only [baseW, ha] at hb
      rw [hms]
      simp only [baseW]
      omega
    | close =>
      unfold startOp
      simp only
      split
      · rw [hms]
        have h2 : asmMeasure { s with cprog := rest, cpc := CPc.clAck } = asmMeasure s := rfl
        simp only [measure_eq, baseW, pending, idleBit, h2, List.length_cons]
        omega
      · rw [hms]
        have h2 : asmMeasure { s with cprog := rest, current := [], closed := true, cpc := CPc.clRecv }
            = asmMeasure s := rfl
        have h3 : weight ([] : List Slice) = 0 := rfl
        simp only [measure_eq, baseW, pending, idleBit, h2, h3, List.length_cons]
        omega
  | @rdRecvClosed n l hp hc =>
    rw [readLoop_closed _ n l rfl]
    have hb := finishRead_measure { s with current := [], closed := true } n l (workable_nil _ _)
    have ha : asmMeasure { s with current := [], closed := true } = asmMeasure s := rfl
    have h3 : weight ([] : List Slice) = 0 := rfl
    simp only [baseW, ha, h3] at hb
    have hms : measure s = 2 * (baseW s + (s.cprog.length + 1)) := by
      simp only [measure_eq, pending, idleBit, hp, List.length_cons, Nat.add_zero]
    rw [hms]
    simp only [baseW]
    omega
  | clRecvClosed hp hc =>
    have ha : asmMeasure { s with cpc := CPc.idle } = asmMeasure s := rfl
    simp only [measure_eq, baseW, pending, idleBit, hp, ha, List.length_cons]
    omega
  | sendPanic hp hc => exact hi'.2.2.elim
  | @deliverRd b bs n l hp hb hi2 hr hcp =>
    have hbd := readLoop_measure
      { s with apc := .waitDone, aprog := bs,
               current := (stripEmpty s.lossErrors b s.lossReported).1,
               lossReported := (stripEmpty s.lossErrors b s.lossReported).2 } n l
      (workable_strip _ _ _)
    have hw := stripEmpty_weight s.lossErrors b s.lossReported
    have ha : asmMeasure
        { s with apc := .waitDone, aprog := bs,
                 current := (stripEmpty s.lossErrors b s.lossReported).1,
                 lossReported := (stripEmpty s.lossErrors b s.lossReported).2 }
          = 2 * bs.length + 4 := rfl
    have ha2 : asmMeasure s = 2 * (bs.length + 1) + 3 := by
      unfold asmMeasure; rw [hp, hb]; rfl
    have hwb : weightB s.aprog = weight b + weightB bs := by rw [hb]; rfl
    simp only [baseW, ha] at hbd
    have hms : measure s = 2 * (baseW s + (s.cprog.length + 1)) := by
      simp only [measure_eq, pending, idleBit, hcp, List.length_cons, Nat.add_zero]
    rw [hms]
    simp only [baseW, ha2, hwb]
    omega
  | @deliverCl b bs hp hb hi2 hr hcp =>
    have ha : asmMeasure { s with apc := .waitDone, aprog := bs, cpc := CPc.clSend }
        = 2 * bs.length + 4 := rfl
    have ha2 : asmMeasure s = 2 * (bs.length + 1) + 3 := by
      unfold asmMeasure; rw [hp, hb]; rfl
    have hwb : weightB s.aprog = weight b + weightB bs := by rw [hb]; rfl
    simp only [measure_eq, baseW, pending, idleBit, hcp, ha, ha2, hwb, List.length_cons]
    omega
  | @ackRd n l hp hc hcp =>
    have := asmMeasure_next (s := s)
      (s' := { s with apc := asmNext s.aprog, cpc := CPc.rdRecv n l }) hp rfl rfl
    simp only [measure_eq, baseW, pending, idleBit, hcp, List.length_cons] at this ⊢
    omega
  | ackClAck hp hc hcp =>
    have := asmMeasure_next (s := s)
      (s' := { s with apc := asmNext s.aprog, current := [], closed := true, cpc := CPc.clRecv }) hp rfl rfl
    have h3 : weight ([] : List Slice) = 0 := rfl
    simp only [measure_eq, baseW, pending, idleBit, hcp, h3, List.length_cons] at this ⊢
    omega
  | ackClSend hp hc hcp =>
    have := asmMeasure_next (s := s)
      (s' := { s with apc := asmNext s.aprog, cpc := CPc.clRecv }) hp rfl rfl
    simp only [measure_eq, baseW, pending, idleBit, hcp, List.length_cons] at this ⊢
    omega

theorem steps_bound {s s' : State} {n : Nat} (hi : Inv s) (h : Steps s n s') :
    n + measure s' ≤ measure s := by
  induction h with
  | zero s => omega
  | succ t hs _ ih =>
    have h1 := measure_step hi (step_Step hs)
    have h2 := ih (inv_step hi (step_Step hs))
    omega

theorem steps_reachable {s s' : State} {n : Nat} (h : Steps s n s') : Reachable s s' := by
  induction h with
  | zero s => exact Reachable.refl
  | @succ s s1 s2 n t hs _ ih =>
    -- prepend one step to a reachability proof
    have pre : ∀ {x : State}, Reachable s1 x → Reachable s x := by
      intro x hx
      induction hx with
      | refl => exact Reachable.step t Reachable.refl hs
      | step t' _ hs' ih' => exact Reachable.step t' ih' hs'
    exact pre ih

/-! ## Progress -/

theorem stuck_end {s : State} (hi : Inv s) (hst : Stuck s) :
    s.cpc = .idle ∧ s.cprog = [] ∧
      (s.apc = .fin ∨ (s.closed = false ∧ (s.apc = .send ∨ s.apc = .waitDone))) := by
  obtain ⟨hini, hA, hC⟩ := hi
  obtain ⟨h1, h2⟩ := hst
  unfold step at h1 h2
  simp only at h1 h2
  unfold InvA at hA
  unfold InvC at hC
  cases hcp : s.cpc <;> cases hap : s.apc <;> rw [hcp] at hC <;> rw [hap] at hA <;>
    simp only [soloAsm, soloCons, joint, consRecv, consSent, hcp, hap] at h1 h2 hA hC <;>
    (try (cases hcpr : s.cprog <;> simp only [hcpr] at h2)) <;>
    (try (cases hapr : s.aprog <;> simp only [hapr] at h1 h2 hA)) <;>
    simp_all

/-! ## End states; the driver's fixed schedule reaches one -/

/-- Both goroutines have returned. -/
def BothDone (s : State) : Prop := s.apc = .fin ∧ s.cpc = .idle ∧ s.cprog = []

/-- The consumer finished its program without reading to EOF and without Close: the assembler
    is (legitimately) held in `Reassembled` by data nobody reads. -/
def AsmHeld (s : State) : Prop :=
  s.cpc = .idle ∧ s.cprog = [] ∧ s.closed = false ∧ (s.apc = .send ∨ s.apc = .waitDone)

theorem runFair_reachable (fuel : Nat) : ∀ s : State, Reachable s (runFair fuel s) := by
  induction fuel with
  | zero => intro s; exact Reachable.refl
  | succ k ih =>
    intro s
    have pre : ∀ {t : Tid} {s1 x : State}, step s t = some s1 → Reachable s1 x → Reachable s x := by
      intro t s1 x hs hx
      induction hx with
      | refl => exact Reachable.step t Reachable.refl hs
      | step t' _ hs' ih' => exact Reachable.step t' ih' hs'
    unfold runFair
    split
    · rename_i s1 h1; exact pre h1 (ih s1)
    · split
      · rename_i s1 h1; exact pre h1 (ih s1)
      · exact Reachable.refl

theorem runFair_stuck (fuel : Nat) : ∀ s : State, Inv s → measure s < fuel → Stuck (runFair fuel s) := by
  induction fuel with
  | zero => intro s _ h; omega
  | succ k ih =>
    intro s hi hm
    unfold runFair
    split
    · rename_i s1 h1
      have hs := step_Step h1
      have := measure_step hi hs
      exact ih s1 (inv_step hi hs) (by omega)
    · rename_i h1
      split
      · rename_i s1 h2
        have hs := step_Step h2
        have := measure_step hi hs
        exact ih s1 (inv_step hi hs) (by omega)
      · rename_i h2
        exact ⟨h2, h1⟩

end Gp.Reader
