import Gp.Lemmas.ReasmSlice
/-
  Layer B of C09: stream soundness of the reassembly model in offset space (`Arith.ideal`):
  invariants of a half connection and what each function does to them.
-/
namespace Gp.Reasm
open Gp

abbrev I : Arith := Arith.ideal
@[simp] theorem I_diff (s t : Int) : I.diff s t = t - s := rfl
@[simp] theorem I_add (s n : Int) : I.add s n = s + n := rfl
@[simp] theorem invalidSeq_eq : invalidSeq = -1 := rfl
theorem pageBytes_pos : 0 < pageBytes := by decide

/-- the call returns normally (no error, no panic) with a result satisfying `P` -/
def Res.Ok {α : Type} (x : Res α) (P : α → Prop) : Prop := ∃ r, x = .ok r ∧ P r

theorem Res.Ok.intro {α : Type} {P : α → Prop} {r : α} (h : P r) : Res.Ok (.ok r) P := ⟨r, rfl, h⟩
theorem Res.Ok.mono {α : Type} {P Q : α → Prop} {x : Res α} (h : Res.Ok x P) (hq : ∀ r, P r → Q r) : Res.Ok x Q := by
  obtain ⟨r, h1, h2⟩ := h; exact ⟨r, h1, hq r h2⟩

/-- sequence number just behind the page -/
def pend (p : Page) : Int := p.seq + p.bytes.length

def Sorted (l : List Page) : Prop := l.Pairwise (fun p q => pend p ≤ q.seq)

def PageOK (S : List UInt8) (b : Int) (p : Page) : Prop := At S b p.seq p.bytes ∧ p.bytes ≠ []

/-- pages forming a gap-free chain from sequence number `s` to `e`, each a piece of `S` -/
def ChainP (S : List UInt8) (b : Int) : Int → List Page → Int → Prop
  | s, [], e => s = e
  | s, p :: rest, e => p.seq = s ∧ At S b p.seq p.bytes ∧ ChainP S b (pend p) rest e

theorem ChainP.le {S b} : ∀ {ps : List Page} {s e : Int}, ChainP S b s ps e → s ≤ e
  | [], s, e, h => by simp [ChainP] at h; omega
  | p :: rest, s, e, h => by
    obtain ⟨h1, _, h3⟩ := h
    have := ChainP.le h3
    simp only [pend] at this; omega

theorem ChainP.mem {S b} : ∀ {ps : List Page} {s e : Int}, ChainP S b s ps e →
    ∀ p ∈ ps, s ≤ p.seq ∧ pend p ≤ e ∧ At S b p.seq p.bytes
  | [], _, _, _, p, hp => by simp at hp
  | q :: rest, s, e, h, p, hp => by
    obtain ⟨h1, h2, h3⟩ := h
    have hle := ChainP.le h3
    rcases List.mem_cons.mp hp with rfl | hp
    · exact ⟨by omega, hle, h2⟩
    · have := ChainP.mem h3 p hp
      simp only [pend] at this hle ⊢
      exact ⟨by omega, this.2.1, this.2.2⟩

theorem ChainP.sorted {S b} : ∀ {ps : List Page} {s e : Int}, ChainP S b s ps e → Sorted ps
  | [], _, _, _ => List.Pairwise.nil
  | q :: rest, s, e, h => by
    obtain ⟨_, _, h3⟩ := h
    refine List.Pairwise.cons ?_ (ChainP.sorted h3)
    intro p hp
    exact (ChainP.mem h3 p hp).1

theorem ChainP.append {S b} : ∀ {ps qs : List Page} {s m e : Int}, ChainP S b s ps m → ChainP S b m qs e →
    ChainP S b s (ps ++ qs) e
  | [], qs, s, m, e, h1, h2 => by simp [ChainP] at h1; subst h1; simpa using h2
  | p :: rest, qs, s, m, e, h1, h2 => by
    obtain ⟨a, b', c⟩ := h1
    exact ⟨a, b', ChainP.append c h2⟩

/-- total number of bytes in a chain -/
theorem ChainP.bytesLen {S b} : ∀ {ps : List Page} {s e : Int}, ChainP S b s ps e → s + bytesLen ps = e
  | [], s, e, h => by simp [ChainP] at h; simp [Reasm.bytesLen, h]
  | p :: rest, s, e, h => by
    obtain ⟨a, _, c⟩ := h
    have := ChainP.bytesLen c
    simp only [Reasm.bytesLen, List.map_cons, List.sum_cons, pend] at this ⊢
    omega

/-- the bytes of a chain, concatenated, are a piece of `S` -/
theorem ChainP.flat {S b} : ∀ {ps : List Page} {s e : Int}, ChainP S b s ps e → b ≤ s → s ≤ b + S.length →
    At S b s (ps.map (fun p => p.bytes)).flatten
  | [], s, e, h, h1, h2 => by simpa using At.nil h1 h2
  | p :: rest, s, e, h, h1, h2 => by
    obtain ⟨a, hb, c⟩ := h
    have hl := hb.len
    have ih := ChainP.flat c (by simp only [pend]; omega) (by simp only [pend]; omega)
    simp only [List.map_cons, List.flatten_cons]
    subst a
    exact At.append hb (by simpa [pend] using ih)

/-! ### livePacket.convertToPages -/

theorem splitPagesAux_chain (S : List UInt8) (b : Int) (seen : Int) (fin : Bool) :
    ∀ (fuel : Nat) (seq : Int) (bytes : List UInt8), At S b seq bytes →
      ChainP S b seq (splitPagesAux I seen fin fuel seq bytes) (seq + bytes.length)
  | 0, seq, bytes, h => by simp [splitPagesAux, ChainP, pend, h]
  | fuel + 1, seq, bytes, h => by
    simp only [splitPagesAux]
    split
    · rename_i hr
      have hd : bytes.drop (min bytes.length pageBytes) = [] := by simpa using hr
      have hl : bytes.length ≤ min bytes.length pageBytes := by
        have := congrArg List.length hd
        simp at this; omega
      have ht : bytes.take (min bytes.length pageBytes) = bytes := List.take_of_length_le hl
      simp [ChainP, pend, ht, h]
    · have h2 := h.drop (min bytes.length pageBytes) (Nat.min_le_left _ _)
      have ih := splitPagesAux_chain S b seen fin fuel _ _ h2
      refine ⟨rfl, h.take _, ?_⟩
      simp only [pend, I_add, List.length_take, List.length_drop] at ih ⊢
      have e1 : min (min bytes.length pageBytes) bytes.length = min bytes.length pageBytes := by omega
      rw [e1]
      have e2 : seq + ↑(min bytes.length pageBytes) + ↑(bytes.length - min bytes.length pageBytes) = seq + ↑bytes.length := by
        omega
      rw [e2] at ih
      exact ih

theorem splitPages_chain (S : List UInt8) (b : Int) (seq : Int) (bytes : List UInt8) (ts : Int) (fin : Bool)
    (h : At S b seq bytes) : ChainP S b seq (splitPages I seq bytes ts fin) (seq + bytes.length) :=
  splitPagesAux_chain S b ts fin _ _ _ h

theorem splitPagesAux_nonempty (seen : Int) (fin : Bool) :
    ∀ (fuel : Nat) (seq : Int) (bytes : List UInt8), bytes ≠ [] → bytes.length ≤ fuel →
      ∀ p ∈ splitPagesAux I seen fin fuel seq bytes, p.bytes ≠ []
  | 0, seq, bytes, h, hf => by
    have : bytes.length = 0 := by omega
    simp at this; contradiction
  | fuel + 1, seq, bytes, h, hf => by
    have hpos : 0 < bytes.length := List.length_pos_iff.mpr h
    have hm : 0 < min bytes.length pageBytes := by have := pageBytes_pos; omega
    have ht : bytes.take (min bytes.length pageBytes) ≠ [] := by
      intro e
      have := congrArg List.length e
      rw [List.length_take, List.length_nil] at this; omega
    simp only [splitPagesAux]
    split
    · intro p hp; simp at hp; subst hp; exact ht
    · rename_i hr
      intro p hp
      rcases List.mem_cons.mp hp with rfl | hp
      · exact ht
      · refine splitPagesAux_nonempty seen fin fuel _ _ ?_ ?_ p hp
        · intro e; exact hr (by simp [e])
        · rw [List.length_drop]; omega

theorem splitPages_nonempty (seq : Int) (bytes : List UInt8) (ts : Int) (fin : Bool) (h : bytes ≠ []) :
    ∀ p ∈ splitPages I seq bytes ts fin, p.bytes ≠ [] :=
  splitPagesAux_nonempty ts fin _ _ _ h (Nat.le_refl _)

theorem splitPagesAux_ne_nil (A : Arith) (seen : Int) (fin : Bool) (fuel : Nat) (seq : Int) (bytes : List UInt8) :
    splitPagesAux A seen fin fuel seq bytes ≠ [] := by
  cases fuel <;> simp [splitPagesAux]
  split <;> simp

end Gp.Reasm
