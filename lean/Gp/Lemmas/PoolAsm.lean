import Gp.Model.PoolAsm
import Gp.Lemmas.PoolBase
/-
  Invariants of the tcpassembly StreamPool LTS (Gp/Model/PoolAsm.lean) and their preservation.
-/
namespace Gp.Pool.Asm
open Gp.Pool

/-- connection whose mutex a thread at this pc holds -/
def PC.holds : PC → Option CId
  | .cb c _ => some c
  | .rm c => some c
  | _ => none

/-- connection object a thread at this pc points to -/
def PC.ptr : PC → Option CId
  | .lock c => some c
  | .cb c _ => some c
  | .rm c => some c
  | _ => none

@[simp] theorem holds_start : PC.holds .start = none := rfl
@[simp] theorem holds_ins (sid : SId) : PC.holds (.ins sid) = none := rfl
@[simp] theorem holds_lock (c : CId) : PC.holds (.lock c) = none := rfl
@[simp] theorem holds_cb (c : CId) (f : Bool) : PC.holds (.cb c f) = some c := rfl
@[simp] theorem holds_rm (c : CId) : PC.holds (.rm c) = some c := rfl
@[simp] theorem holds_panicked : PC.holds .panicked = none := rfl
@[simp] theorem ptr_start : PC.ptr .start = none := rfl
@[simp] theorem ptr_ins (sid : SId) : PC.ptr (.ins sid) = none := rfl
@[simp] theorem ptr_lock (c : CId) : PC.ptr (.lock c) = some c := rfl
@[simp] theorem ptr_cb (c : CId) (f : Bool) : PC.ptr (.cb c f) = some c := rfl
@[simp] theorem ptr_rm (c : CId) : PC.ptr (.rm c) = some c := rfl
@[simp] theorem ptr_panicked : PC.ptr .panicked = none := rfl

def isPkt : List Op → Prop
  | .pkt _ _ :: _ => True
  | _ => False

def isFlush : List Op → Prop
  | .flush :: _ => True
  | .flushold _ _ :: _ => True
  | _ => False

/-- First group of invariants: mutex ownership, object initialisation, no panic, well-formedness.
    They hold in EVERY reachable state. -/
structure InvA (s : State) : Prop where
  mu_iff   : ∀ c t, (s.obj c).mu = some t ↔ (s.thr t).pc.holds = some c
  ptr_lt   : ∀ t c, (s.thr t).pc.ptr = some c → c < s.nextC
  snap_lt  : ∀ t l c, (s.thr t).snap = some l → c ∈ l → c < s.nextC
  map_lt   : ∀ k c, (k, c) ∈ s.conns → c < s.nextC
  free_lt  : ∀ c, c ∈ s.free → c < s.nextC
  inited   : ∀ c, c < s.nextC → (s.obj c).stream ≠ none
  no_panic : ∀ t, (s.thr t).pc ≠ .panicked
  wf_ins   : ∀ t sid, (s.thr t).pc = .ins sid → (s.thr t).snap = none ∧ isPkt (s.thr t).prog
  wf_start : ∀ t, (s.thr t).pc = .start → (s.thr t).snap = none
  wf_snap  : ∀ t l, (s.thr t).snap = some l → isFlush (s.thr t).prog
  wf_ptr   : ∀ t c, (s.thr t).pc.ptr = some c → (s.thr t).snap = none → isPkt (s.thr t).prog

@[simp] theorem setThr_thr (s : State) (t : Tid) (th : Thread) (t' : Tid) :
    (setThr s t th).thr t' = if t' = t then th else s.thr t' := rfl
@[simp] theorem setThr_obj (s : State) (t : Tid) (th : Thread) : (setThr s t th).obj = s.obj := rfl
@[simp] theorem setThr_conns (s : State) (t : Tid) (th : Thread) : (setThr s t th).conns = s.conns := rfl
@[simp] theorem setThr_free (s : State) (t : Tid) (th : Thread) : (setThr s t th).free = s.free := rfl
@[simp] theorem setThr_nextC (s : State) (t : Tid) (th : Thread) : (setThr s t th).nextC = s.nextC := rfl
@[simp] theorem setThr_nextS (s : State) (t : Tid) (th : Thread) : (setThr s t th).nextS = s.nextS := rfl
@[simp] theorem setThr_skey (s : State) (t : Tid) (th : Thread) : (setThr s t th).skey = s.skey := rfl
@[simp] theorem setThr_kept (s : State) (t : Tid) (th : Thread) : (setThr s t th).kept = s.kept := rfl
@[simp] theorem setThr_log (s : State) (t : Tid) (th : Thread) : (setThr s t th).log = s.log := rfl

@[simp] theorem setObj_obj (s : State) (c : CId) (o : Conn) (c' : CId) :
    (setObj s c o).obj c' = if c' = c then o else s.obj c' := rfl
@[simp] theorem setObj_thr (s : State) (c : CId) (o : Conn) : (setObj s c o).thr = s.thr := rfl
@[simp] theorem setObj_conns (s : State) (c : CId) (o : Conn) : (setObj s c o).conns = s.conns := rfl
@[simp] theorem setObj_free (s : State) (c : CId) (o : Conn) : (setObj s c o).free = s.free := rfl
@[simp] theorem setObj_nextC (s : State) (c : CId) (o : Conn) : (setObj s c o).nextC = s.nextC := rfl
@[simp] theorem setObj_nextS (s : State) (c : CId) (o : Conn) : (setObj s c o).nextS = s.nextS := rfl
@[simp] theorem setObj_skey (s : State) (c : CId) (o : Conn) : (setObj s c o).skey = s.skey := rfl
@[simp] theorem setObj_kept (s : State) (c : CId) (o : Conn) : (setObj s c o).kept = s.kept := rfl
@[simp] theorem setObj_log (s : State) (c : CId) (o : Conn) : (setObj s c o).log = s.log := rfl

@[simp] theorem addLog_thr (s : State) (e : Ev) : (addLog s e).thr = s.thr := rfl
@[simp] theorem addLog_obj (s : State) (e : Ev) : (addLog s e).obj = s.obj := rfl
@[simp] theorem addLog_conns (s : State) (e : Ev) : (addLog s e).conns = s.conns := rfl
@[simp] theorem addLog_free (s : State) (e : Ev) : (addLog s e).free = s.free := rfl
@[simp] theorem addLog_nextC (s : State) (e : Ev) : (addLog s e).nextC = s.nextC := rfl
@[simp] theorem addLog_nextS (s : State) (e : Ev) : (addLog s e).nextS = s.nextS := rfl
@[simp] theorem addLog_skey (s : State) (e : Ev) : (addLog s e).skey = s.skey := rfl
@[simp] theorem addLog_kept (s : State) (e : Ev) : (addLog s e).kept = s.kept := rfl
@[simp] theorem addLog_log (s : State) (e : Ev) : (addLog s e).log = e :: s.log := rfl

theorem invA_init (progs : Tid → List Op) : InvA (init progs) := by
  constructor <;> simp [init]


def ThreadWF (th : Thread) : Prop :=
  (∀ sid, th.pc = .ins sid → th.snap = none ∧ isPkt th.prog) ∧ (th.pc = .start → th.snap = none) ∧
  (∀ l, th.snap = some l → isFlush th.prog) ∧ (∀ c, th.pc.ptr = some c → th.snap = none → isPkt th.prog)

/-- How one step may change row `c` of the mutex table together with thread `t`. -/
def MuRel (s s' : State) (t : Tid) (c : CId) : Prop :=
    ((s'.obj c).mu = (s.obj c).mu ∧ (s'.thr t).pc.holds = (s.thr t).pc.holds)
  ∨ ((s.obj c).mu = none ∧ (s.thr t).pc.holds = none ∧ (s'.obj c).mu = some t ∧ (s'.thr t).pc.holds = some c)
  ∨ ((s.obj c).mu = some t ∧ (s'.obj c).mu = none ∧ (s'.thr t).pc.holds = none)

/-- Frame rule for InvA: a step changes one thread `t` and at most one object `c`. -/
theorem InvA.frame {s s' : State} (h : InvA s) (t : Tid) (c : CId)
    (hthr : ∀ t', t' ≠ t → s'.thr t' = s.thr t')
    (hobj : ∀ c', c' ≠ c → s'.obj c' = s.obj c')
    (hnc : s.nextC ≤ s'.nextC)
    (hnew : ∀ c', s.nextC ≤ c' → c' < s'.nextC → c' = c)
    (hmap : ∀ k c', (k, c') ∈ s'.conns → (k, c') ∈ s.conns ∨ c' < s'.nextC)
    (hfree : ∀ c', c' ∈ s'.free → c' ∈ s.free ∨ c' < s'.nextC)
    (hinit : c < s'.nextC → (s'.obj c).stream ≠ none)
    (hmu : MuRel s s' t c)
    (hptr : ∀ c', (s'.thr t).pc.ptr = some c' → c' < s'.nextC)
    (hsnap : ∀ l c', (s'.thr t).snap = some l → c' ∈ l → c' < s'.nextC)
    (hnp : (s'.thr t).pc ≠ .panicked)
    (hwf : ThreadWF (s'.thr t)) : InvA s' := by
  have holdsOld : ∀ c', (s.obj c').mu = some t ↔ (s.thr t).pc.holds = some c' := fun c' => h.mu_iff c' t
  constructor
  · intro c' t'
    by_cases ec : c' = c
    · subst ec
      by_cases et : t' = t
      · subst et
        rcases hmu with ⟨h1, h2⟩ | ⟨h1, h2, h3, h4⟩ | ⟨h1, h2, h3⟩
        · rw [h1, h2]; exact h.mu_iff _ _
        · simp [h3, h4]
        · simp [h2, h3]
      · rw [hthr t' et]
        rcases hmu with ⟨h1, _⟩ | ⟨h1, h2, h3, h4⟩ | ⟨h1, h2, h3⟩
        · rw [h1]; exact h.mu_iff _ _
        · rw [h3]
          constructor
          · intro e; cases e; exact absurd rfl et
          · intro e; have := (h.mu_iff c' t').2 e; rw [h1] at this; cases this
        · rw [h2]
          constructor
          · intro e; cases e
          · intro e; have := (h.mu_iff c' t').2 e; rw [h1] at this; cases this; exact absurd rfl et
    · rw [hobj c' ec]
      by_cases et : t' = t
      · subst et
        rcases hmu with ⟨_, h2⟩ | ⟨h1, h2, h3, h4⟩ | ⟨h1, h2, h3⟩
        · rw [h2]; exact h.mu_iff _ _
        · rw [h4]
          constructor
          · intro e; have := (h.mu_iff c' t').1 e; rw [h2] at this; cases this
          · intro e; cases e; exact absurd rfl ec
        · rw [h3]
          constructor
          · intro e
            have h5 := (h.mu_iff c' t').1 e
            have h6 := (h.mu_iff c t').1 h1
            rw [h6] at h5; cases h5; exact absurd rfl ec
          · intro e; cases e
      · rw [hthr t' et]; exact h.mu_iff _ _
  · intro t' c' hp
    by_cases et : t' = t
    · subst et; exact hptr c' hp
    · rw [hthr t' et] at hp; exact Nat.lt_of_lt_of_le (h.ptr_lt t' c' hp) hnc
  · intro t' l c' hs hm
    by_cases et : t' = t
    · subst et; exact hsnap l c' hs hm
    · rw [hthr t' et] at hs; exact Nat.lt_of_lt_of_le (h.snap_lt t' l c' hs hm) hnc
  · intro k c' hm
    rcases hmap k c' hm with h1 | h1
    · exact Nat.lt_of_lt_of_le (h.map_lt k c' h1) hnc
    · exact h1
  · intro c' hm
    rcases hfree c' hm with h1 | h1
    · exact Nat.lt_of_lt_of_le (h.free_lt c' h1) hnc
    · exact h1
  · intro c' hlt
    by_cases ec : c' = c
    · subst ec; exact hinit hlt
    · rw [hobj c' ec]
      by_cases hl : c' < s.nextC
      · exact h.inited c' hl
      · exact absurd (hnew c' (Nat.le_of_not_lt hl) hlt) ec
  · intro t'
    by_cases et : t' = t
    · subst et; exact hnp
    · rw [hthr t' et]; exact h.no_panic t'
  · intro t' sid
    by_cases et : t' = t
    · subst et; exact hwf.1 sid
    · rw [hthr t' et]; exact h.wf_ins t' sid
  · intro t'
    by_cases et : t' = t
    · subst et; exact hwf.2.1
    · rw [hthr t' et]; exact h.wf_start t'
  · intro t' l
    by_cases et : t' = t
    · subst et; exact hwf.2.2.1 l
    · rw [hthr t' et]; exact h.wf_snap t' l
  · intro t' c'
    by_cases et : t' = t
    · subst et; exact hwf.2.2.2 c'
    · rw [hthr t' et]; exact h.wf_ptr t' c'


/-- closes the routine side conditions of `InvA.frame` -/
macro "side_a" : tactic =>
  `(tactic| first
    | omega
    | assumption
    | (intros; simp_all [MuRel, ThreadWF, isPkt, isFlush, finishOp]; done)
    | (intros; simp_all [MuRel, ThreadWF, isPkt, isFlush, finishOp]; omega))

theorem invA_thr {s : State} (h : InvA s) (t : Tid) (th : Thread)
    (hh : th.pc.holds = (s.thr t).pc.holds)
    (hptr : ∀ c', th.pc.ptr = some c' → c' < s.nextC)
    (hsnap : ∀ l c', th.snap = some l → c' ∈ l → c' < s.nextC)
    (hnp : th.pc ≠ .panicked) (hwf : ThreadWF th) : InvA (setThr s t th) := by
  apply h.frame t s.nextC
  · intro t' e; simp [e]
  · intro c' _; rfl
  · exact Nat.le_refl _
  · intro c' h1 h2; exact absurd h2 (Nat.not_lt.2 h1)
  · intro k c' hm; exact Or.inl hm
  · intro c' hm; exact Or.inl hm
  · intro hl; exact absurd hl (Nat.lt_irrefl _)
  · left; simp [hh]
  · simpa using hptr
  · simpa using hsnap
  · simpa using hnp
  · simpa using hwf

theorem invA_finishOp {s : State} (h : InvA s) (t : Tid) (hh : (s.thr t).pc.holds = none) : InvA (finishOp s t) := by
  unfold finishOp
  apply invA_thr h t
  · rw [hh]; rfl
  all_goals simp [ThreadWF, isPkt, isFlush]

theorem vals_lt {s : State} (h : InvA s) {c : CId} (hc : c ∈ s.conns.vals) : c < s.nextC := by
  obtain ⟨k, hk⟩ := KMap.mem_vals hc
  exact h.map_lt k c hk

/-- `advance` applied after a step that changed object `c` (to `o`), possibly the map and the free list. -/
theorem invA_advance {s s1 : State} (h : InvA s) (t : Tid) (c : CId)
    (hthr : s1.thr = s.thr)
    (hobj : ∀ c', c' ≠ c → s1.obj c' = s.obj c')
    (hnc : s1.nextC = s.nextC)
    (hmap : ∀ k c', (k, c') ∈ s1.conns → (k, c') ∈ s.conns ∨ c' < s.nextC)
    (hfree : ∀ c', c' ∈ s1.free → c' ∈ s.free ∨ c' < s.nextC)
    (hinit : c < s.nextC → (s1.obj c).stream ≠ none)
    (hmu : ((s1.obj c).mu = (s.obj c).mu ∧ (s.thr t).pc.holds = none) ∨ ((s.obj c).mu = some t ∧ (s1.obj c).mu = none))
    (hwf : ∀ l, (s.thr t).snap = some l → isFlush (s.thr t).prog) : InvA (advance s1 t) := by
  have hsn := h.snap_lt t
  unfold advance
  rw [hthr]
  dsimp only
  split
  · next c2 rest hsnap =>
    apply h.frame t c
    · intro t' e; simp [e, hthr]
    · intro c' e; simpa using hobj c' e
    · simp [hnc]
    · intro c' h1 h2; simp [hnc] at h2; omega
    · simpa [hnc] using hmap
    · simpa [hnc] using hfree
    · simpa [hnc] using hinit
    · rcases hmu with ⟨h1, h2⟩ | ⟨h1, h2⟩
      · left; simp [h1, h2]
      · right; right; simp [h1, h2]
    · intro c'; simp only [setThr_thr, if_true, ptr_lock, setThr_nextC, hnc]
      intro e; cases e; exact hsn _ c2 hsnap (by simp)
    · intro l c'; simp only [setThr_thr, if_true, setThr_nextC, hnc]
      intro e hm; cases e; exact hsn _ c' hsnap (by simp [hm])
    · simp
    · have := hwf _ hsnap
      simp [ThreadWF, this]
  · apply h.frame t c
    · intro t' e; simp [finishOp, e, hthr]
    · intro c' e; simpa [finishOp] using hobj c' e
    · simp [finishOp, hnc]
    · intro c' h1 h2; simp [finishOp, hnc] at h2; omega
    · simpa [finishOp, hnc] using hmap
    · simpa [finishOp, hnc] using hfree
    · simpa [finishOp, hnc] using hinit
    · rcases hmu with ⟨h1, h2⟩ | ⟨h1, h2⟩
      · left; simp [finishOp, h1, h2]
      · right; right; simp [finishOp, h1, h2]
    · simp [finishOp]
    · simp [finishOp]
    · simp [finishOp]
    · simp [finishOp, ThreadWF]


macro "fr_side" : tactic =>
  `(tactic| first
    | (simp; done)
    | (intros; simp_all [MuRel, ThreadWF, isPkt, isFlush]; done)
    | (intros; simp at *; omega))

theorem invA_stepStart {s s' : State} {t : Tid} (h : InvA s) (hpc : (s.thr t).pc = .start)
    (hs : stepStart s t = some s') : InvA s' := by
  have hh : (s.thr t).pc.holds = none := by simp [hpc]
  have hsn := h.wf_start t hpc
  unfold stepStart at hs
  dsimp only at hs
  cases hp : (s.thr t).prog with
  | nil => simp [hp] at hs
  | cons op rest =>
    cases op with
    | flush =>
      simp only [hp] at hs
      cases hv : s.conns.vals with
      | nil => simp only [hv] at hs; cases hs; exact invA_finishOp h t hh
      | cons c r =>
        simp only [hv] at hs; cases hs
        apply invA_thr h t
        · simp [hh]
        · intro c' e; simp at e; subst e; exact vals_lt h (by simp [hv])
        · intro l c' e hm; simp at e; subst e; exact vals_lt h (by simp [hv, hm])
        · simp
        · simp [ThreadWF, isFlush]
    | flushold T ca =>
      simp only [hp] at hs
      cases hv : s.conns.vals with
      | nil => simp only [hv] at hs; cases hs; exact invA_finishOp h t hh
      | cons c r =>
        simp only [hv] at hs; cases hs
        apply invA_thr h t
        · simp [hh]
        · intro c' e; simp at e; subst e; exact vals_lt h (by simp [hv])
        · intro l c' e hm; simp at e; subst e; exact vals_lt h (by simp [hv, hm])
        · simp
        · simp [ThreadWF, isFlush]
    | pkt k kind =>
      simp only [hp] at hs
      cases hg : s.conns.get k with
      | some c =>
        simp only [hg] at hs; cases hs
        apply invA_thr h t
        · simp [hh]
        · intro c' e; simp at e; subst e; exact h.map_lt k _ (KMap.mem_of_get hg)
        · simp [hsn]
        · simp
        · simp [ThreadWF, isPkt, hsn]
      | none =>
        simp only [hg] at hs
        split at hs
        · cases hs; exact invA_finishOp h t hh
        · cases hs
          apply h.frame t s.nextC <;> fr_side

theorem invA_stepIns {s s' : State} {t : Tid} {sid : SId} (h : InvA s) (hpc : (s.thr t).pc = .ins sid)
    (hs : stepIns s t sid = some s') : InvA s' := by
  have hh : (s.thr t).pc.holds = none := by simp [hpc]
  obtain ⟨hsn, hpk⟩ := h.wf_ins t sid hpc
  unfold stepIns at hs
  dsimp only at hs
  cases hp : (s.thr t).prog with
  | nil => simp [hp, isPkt] at hpk
  | cons op rest =>
    cases op with
    | flush => simp [hp, isPkt] at hpk
    | flushold T ca => simp [hp, isPkt] at hpk
    | pkt k kind =>
      simp only [hp] at hs
      cases hf : s.free with
      | nil =>
        simp only [hf] at hs
        cases hg : s.conns.get k with
        | some c2 =>
          simp only [setObj_conns, hg] at hs; cases hs
          have hlt := h.map_lt k c2 (KMap.mem_of_get hg)
          apply h.frame t s.nextC <;> try fr_side
          · intro c' e; simp at e; subst e; exact Nat.lt_succ_of_lt hlt
        | none =>
          simp only [setObj_conns, hg] at hs; cases hs
          apply h.frame t s.nextC <;> try fr_side
          · intro k' c' hm; simp at hm
            rcases KMap.mem_set hm with e | e
            · cases e; right; simp
            · left; exact e
      | cons c f =>
        simp only [hf] at hs
        have hc : c < s.nextC := h.free_lt c (by simp [hf])
        have hfs : ∀ c', c' ∈ f → c' ∈ s.free := by intro c' hm; simp [hf, hm]
        cases hg : s.conns.get k with
        | some c2 =>
          simp only [setObj_conns, hg] at hs; cases hs
          have := h.map_lt k c2 (KMap.mem_of_get hg)
          apply h.frame t c <;> fr_side
        | none =>
          simp only [setObj_conns, hg] at hs; cases hs
          apply h.frame t c <;> try fr_side
          · intro k' c' hm; simp at hm
            rcases KMap.mem_set hm with e | e
            · cases e; right; simpa using hc
            · left; exact e


/-- skipFlush with queued pages from a Flush* visit (c.mu free): `t` takes c.mu and enters the callback. -/
theorem invA_flushDeliver {s : State} {t : Tid} {c : CId} {l : List CId} (h : InvA s) (hpc : (s.thr t).pc = .lock c)
    (hmu : (s.obj c).mu = none) (hsn : (s.thr t).snap = some l) : InvA (flushDeliver s t c) := by
  have hh : (s.thr t).pc.holds = none := by simp [hpc]
  have hc : c < s.nextC := h.ptr_lt t c (by simp [hpc])
  have hst := h.inited c hc
  have hsl := h.snap_lt t
  have hfl := h.wf_snap t l hsn
  unfold flushDeliver
  dsimp only
  cases hst2 : (s.obj c).stream with
  | none => exact absurd hst2 hst
  | some sid =>
    dsimp only
    split
    · apply h.frame t c <;> fr_side
    · apply h.frame t c <;> fr_side

/-- closeConnection from a Flush* visit (c.mu free): `t` takes c.mu, completes the stream, → `rm`. -/
theorem invA_lockClose {s : State} {t : Tid} {c : CId} {l : List CId} (h : InvA s) (hpc : (s.thr t).pc = .lock c)
    (hmu : (s.obj c).mu = none) (hsn : (s.thr t).snap = some l) :
    InvA (doClose (setObj s c { s.obj c with mu := some t }) t c) := by
  have hh : (s.thr t).pc.holds = none := by simp [hpc]
  have hc : c < s.nextC := h.ptr_lt t c (by simp [hpc])
  have hst := h.inited c hc
  have hsl := h.snap_lt t
  have hfl := h.wf_snap t l hsn
  cases hst2 : (s.obj c).stream with
  | none => exact absurd hst2 hst
  | some sid =>
    simp only [doClose, setObj_obj, if_true, hst2]
    apply h.frame t c <;> fr_side

theorem invA_lockSkip {s : State} {t : Tid} {c : CId} (h : InvA s) (hpc : (s.thr t).pc = .lock c) :
    InvA (advance s t) := by
  have hh : (s.thr t).pc.holds = none := by simp [hpc]
  have hc : c < s.nextC := h.ptr_lt t c (by simp [hpc])
  exact invA_advance h t c rfl (fun _ _ => rfl) rfl (fun _ _ hm => Or.inl hm) (fun _ hm => Or.inl hm)
    (fun _ => h.inited c hc) (Or.inl ⟨rfl, hh⟩) (h.wf_snap t)

theorem invA_stepLock {s s' : State} {t : Tid} {c : CId} (h : InvA s) (hpc : (s.thr t).pc = .lock c)
    (hs : stepLock s t c = some s') : InvA s' := by
  have hh : (s.thr t).pc.holds = none := by simp [hpc]
  have hc : c < s.nextC := h.ptr_lt t c (by simp [hpc])
  have hst := h.inited c hc
  have hsl := h.snap_lt t
  unfold stepLock at hs
  dsimp only at hs
  split at hs
  · cases hs
  · next hmu0 =>
    have hmu : (s.obj c).mu = none := by
      cases hm : (s.obj c).mu with
      | none => rfl
      | some x => simp [hm] at hmu0
    cases hsn : (s.thr t).snap with
    | some l =>
      have hfl := h.wf_snap t l hsn
      simp only [hsn] at hs
      split at hs
      · -- FlushWithOptions
        split at hs
        · cases hs; exact invA_lockSkip h hpc
        · split at hs
          · split at hs
            · cases hs; exact invA_flushDeliver h hpc hmu hsn
            · cases hs; exact invA_lockSkip h hpc
          · split at hs
            · cases hs; exact invA_lockClose h hpc hmu hsn
            · cases hs; exact invA_lockSkip h hpc
      · -- FlushAll
        split at hs
        · cases hs; exact invA_lockSkip h hpc
        · split at hs
          · cases hs; exact invA_flushDeliver h hpc hmu hsn
          · cases hs; exact invA_lockClose h hpc hmu hsn
      · next hx _ => cases hx
      · cases hs
    | none =>
      have hpk := h.wf_ptr t c (by simp [hpc]) hsn
      simp only [hsn] at hs
      cases hp : (s.thr t).prog with
      | nil => simp [hp, isPkt] at hpk
      | cons op rest =>
        cases op with
        | flush => simp [hp, isPkt] at hpk
        | flushold T ca => simp [hp, isPkt] at hpk
        | pkt k kind =>
          simp only [hp] at hs
          split at hs
          · cases hs
            apply invA_thr h t <;> simp [hh, ThreadWF]
          · split at hs
            · cases hst2 : (s.obj c).stream with
              | none => exact absurd hst2 hst
              | some sid =>
                simp only [hst2] at hs; cases hs
                apply invA_advance h t c
                · rfl
                · intro c' e; simp [e]
                · rfl
                · intro _ _ hm; exact Or.inl hm
                · intro _ hm; exact Or.inl hm
                · intro _
                  simp only [addLog_obj, setObj_obj, if_true]
                  split <;> simp [hst]
                · left; refine ⟨?_, hh⟩
                  simp only [addLog_obj, setObj_obj, if_true]
                  split <;> rfl
                · exact h.wf_snap t
            · cases hst2 : (s.obj c).stream with
              | none => exact absurd hst2 hst
              | some sid =>
                simp only [hst2] at hs; cases hs
                apply h.frame t c <;> fr_side

theorem invA_stepCb {s s' : State} {t : Tid} {c : CId} {fin : Bool} (h : InvA s) (hpc : (s.thr t).pc = .cb c fin)
    (hs : stepCb s t c fin = some s') : InvA s' := by
  have hh : (s.thr t).pc.holds = some c := by simp [hpc]
  have hmu : (s.obj c).mu = some t := (h.mu_iff c t).2 hh
  have hc : c < s.nextC := h.ptr_lt t c (by simp [hpc])
  have hst := h.inited c hc
  unfold stepCb at hs
  split at hs
  · cases hst2 : (s.obj c).stream with
    | none => exact absurd hst2 hst
    | some sid =>
      simp only [doClose, hst2, Option.some.injEq] at hs; cases hs
      have hwp := h.wf_ptr t c (by simp [hpc])
      have hws := h.wf_snap t
      have hsl := h.snap_lt t
      apply h.frame t c <;> fr_side
  · cases hs
    apply invA_advance h t c
    · rfl
    · intro c' e; simp [e]
    · rfl
    · intro _ _ hm; exact Or.inl hm
    · intro _ hm; exact Or.inl hm
    · intro _; simpa using hst
    · right; exact ⟨hmu, by simp⟩
    · exact h.wf_snap t

theorem invA_stepRm {s s' : State} {t : Tid} {c : CId} (h : InvA s) (hpc : (s.thr t).pc = .rm c)
    (hs : stepRm s t c = some s') : InvA s' := by
  have hh : (s.thr t).pc.holds = some c := by simp [hpc]
  have hmu : (s.obj c).mu = some t := (h.mu_iff c t).2 hh
  have hc : c < s.nextC := h.ptr_lt t c (by simp [hpc])
  have hst := h.inited c hc
  unfold stepRm at hs
  simp only [Option.some.injEq] at hs; cases hs
  apply invA_advance h t c
  · rfl
  · intro c' e; simp [e]
  · rfl
  · intro k c' hm; left; exact (KMap.mem_del (by simpa using hm)).1
  · intro c' hm
    simp only [setObj_free, List.mem_cons] at hm
    rcases hm with e | e
    · right; rw [e]; exact hc
    · left; exact e
  · intro _; simpa using hst
  · right; exact ⟨hmu, by simp⟩
  · exact h.wf_snap t

theorem invA_step {s s' : State} {t : Tid} (h : InvA s) (hs : step s t = some s') : InvA s' := by
  unfold step at hs
  split at hs
  · next hpc => exact invA_stepStart h hpc hs
  · next sid hpc => exact invA_stepIns h hpc hs
  · next c hpc => exact invA_stepLock h hpc hs
  · next c fin hpc => exact invA_stepCb h hpc hs
  · next c hpc => exact invA_stepRm h hpc hs
  · cases hs

theorem invA_reachable (progs : Tid → List Op) : ∀ s, (sys progs).Reachable s → InvA s :=
  Sys.invariant (S := sys progs) InvA (invA_init progs) (fun _ _ _ h hs => invA_step h hs)


/-! ### The map changes only by `set` and `del` -/

theorem step_conns {s s' : State} {t : Tid} (hs : step s t = some s') :
    s'.conns = s.conns ∨ (∃ k c, s'.conns = s.conns.set k c) ∨ (∃ k, s'.conns = s.conns.del k) := by
  simp only [step, stepStart, stepIns, stepLock, stepCb, stepRm, flushDeliver, doClose, advance, finishOp, doPanic] at hs
  repeat' split at hs
  all_goals first
    | (cases hs; done)
    | (cases hs; left; rfl)
    | (cases hs; right; left; exact ⟨_, _, rfl⟩)
    | (cases hs; right; right; exact ⟨_, rfl⟩)

theorem keys_nodup_reachable (progs : Tid → List Op) : ∀ s, (sys progs).Reachable s → (KMap.keys s.conns).Nodup := by
  apply Sys.invariant (S := sys progs) (fun s => (KMap.keys s.conns).Nodup)
  · simp [sys, init, KMap.keys]
  · intro s t s' h hs
    rcases step_conns hs with e | ⟨k, c, e⟩ | ⟨k, e⟩
    · rw [e]; exact h
    · rw [e]; exact KMap.nodup_set k c h
    · rw [e]; exact KMap.nodup_del k h

/-! ### Enabledness -/

theorem enabled_cb {s : State} {t : Tid} {c : CId} {f : Bool} (hpc : (s.thr t).pc = .cb c f) : step s t ≠ none := by
  simp only [step, hpc, stepCb]; split <;> simp

theorem enabled_rm {s : State} {t : Tid} {c : CId} (hpc : (s.thr t).pc = .rm c) : step s t ≠ none := by
  simp [step, hpc, stepRm]

theorem enabled_start {s : State} {t : Tid} (hpc : (s.thr t).pc = .start) (hp : (s.thr t).prog ≠ []) : step s t ≠ none := by
  simp only [step, hpc, stepStart]
  cases hq : (s.thr t).prog with
  | nil => exact absurd hq hp
  | cons op rest =>
    cases op with
    | flush => dsimp only; (repeat' split) <;> simp
    | flushold T ca => dsimp only; (repeat' split) <;> simp
    | pkt k kind => dsimp only; (repeat' split) <;> simp

theorem enabled_ins {s : State} {t : Tid} {sid : SId} (h : InvA s) (hpc : (s.thr t).pc = .ins sid) : step s t ≠ none := by
  have hpk := (h.wf_ins t sid hpc).2
  simp only [step, hpc, stepIns]
  cases hq : (s.thr t).prog with
  | nil => simp [hq, isPkt] at hpk
  | cons op rest =>
    cases op with
    | flush => simp [hq, isPkt] at hpk
    | flushold T ca => simp [hq, isPkt] at hpk
    | pkt k kind => dsimp only; (repeat' split) <;> simp

theorem enabled_lock {s : State} {t : Tid} {c : CId} (h : InvA s) (hpc : (s.thr t).pc = .lock c)
    (hmu : (s.obj c).mu = none) : step s t ≠ none := by
  simp only [step, hpc, stepLock, hmu]
  cases hsn : (s.thr t).snap with
  | some l =>
    simp only [Option.isSome_none, Bool.false_eq_true, if_false]
    (repeat' split) <;> simp_all
  | none =>
    have hpk := h.wf_ptr t c (by simp [hpc]) hsn
    cases hq : (s.thr t).prog with
    | nil => simp [hq, isPkt] at hpk
    | cons op rest =>
      cases op with
      | flush => simp [hq, isPkt] at hpk
      | flushold T ca => simp [hq, isPkt] at hpk
      | pkt k kind =>
        dsimp only
        simp only [Option.isSome_none, Bool.false_eq_true, if_false]
        (repeat' split) <;> simp

/-- Every unfinished thread can move, or waits for a connection mutex whose owner can move. -/
theorem progress {s : State} (h : InvA s) (t : Tid) (hnd : (s.thr t).done = false) :
    step s t ≠ none ∨ ∃ c t', (s.thr t).pc = .lock c ∧ (s.obj c).mu = some t' ∧ step s t' ≠ none := by
  cases hpc : (s.thr t).pc with
  | start =>
    left; apply enabled_start hpc
    intro e; simp [Thread.done, hpc, e] at hnd
  | ins sid => left; exact enabled_ins h hpc
  | lock c =>
    cases hm : (s.obj c).mu with
    | none => left; exact enabled_lock h hpc hm
    | some t' =>
      right
      refine ⟨c, t', rfl, hm, ?_⟩
      have hh := (h.mu_iff c t').1 hm
      cases hpc' : (s.thr t').pc with
      | cb c' f => exact enabled_cb hpc'
      | rm c' => exact enabled_rm hpc'
      | start => simp [hpc'] at hh
      | ins _ => simp [hpc'] at hh
      | lock _ => simp [hpc'] at hh
      | panicked => simp [hpc'] at hh
  | cb c f => left; exact enabled_cb hpc
  | rm c => left; exact enabled_rm hpc
  | panicked => exact absurd hpc (h.no_panic t)

/-! ### Stream-level properties (stated on the event log and the ghost `skey`, `kept`) -/

/-- right_stream: every packet delivered (or queued) went to a stream created for its own key. -/
def RightStream (s : State) : Prop :=
  (∀ sid t i k n, Ev.deliv sid t i k n ∈ s.log → s.skey sid = k) ∧
  (∀ sid t i k, Ev.queue sid t i k ∈ s.log → s.skey sid = k)

/-- number of ReassemblyComplete calls on stream `sid` so far -/
def ncomp (log : List Ev) (sid : SId) : Nat :=
  (log.filter (fun e => match e with | .complete x _ => x == sid | _ => false)).length

end Gp.Pool.Asm
