import Gp.Lemmas.Checksum
import Gp.Model.ChecksumEmit
/-
  Helper lemmas for C08: how writing a 16-bit field and flipping a bit change the word sum.
-/
namespace Gp.CksumEmit
open Gp Gp.Cksum

theorem u8_toNat (n : Nat) : (u8 n).toNat = n % 256 := by simp [u8]

theorem wordsum_putBe16 (v : Nat) (h : v < 65536) (q : Bytes) : wordsum (putBe16 v ++ q) = v + wordsum q := by
  simp only [putBe16, List.cons_append, List.nil_append, wordsum, u8_toNat]; omega

/-- a slice with at least two bytes at `off` splits around that 16-bit field -/
theorem split16 (bs : Bytes) (off : Nat) (h : off + 2 ≤ bs.length) :
    ∃ x y, bs = bs.take off ++ x :: y :: bs.drop (off + 2) ∧ get16At? bs off = some (be16 x y) := by
  have h1 : bs = bs.take off ++ bs.drop off := (List.take_append_drop off bs).symm
  have hl : (bs.drop off).length = bs.length - off := List.length_drop
  match hd : bs.drop off with
  | [] => rw [hd] at hl; simp at hl; omega
  | [x] => rw [hd] at hl; simp at hl; omega
  | x :: y :: rest =>
    refine ⟨x, y, ?_, ?_⟩
    · have : bs.drop (off + 2) = rest := by
        have : bs.drop (off + 2) = (bs.drop off).drop 2 := by rw [List.drop_drop]
        rw [this, hd]; rfl
      rw [this, ← hd]; exact h1
    · simp only [get16At?, hd]

theorem length_put16At (bs : Bytes) (off v : Nat) (h : off + 2 ≤ bs.length) : (put16At bs off v).length = bs.length := by
  simp only [put16At, putBe16, List.length_append, List.length_take, List.length_drop, List.length_cons, List.length_nil]; omega

theorem get16At_put16At (bs : Bytes) (off v : Nat) (h : off + 2 ≤ bs.length) (hv : v < 65536) :
    get16At? (put16At bs off v) off = some v := by
  have hl : (bs.take off).length = off := by rw [List.length_take]; omega
  simp only [get16At?, put16At, putBe16, List.append_assoc]
  rw [List.drop_append, hl, Nat.sub_self, List.drop_eq_nil_of_le (by omega)]
  simp only [List.nil_append, List.drop_zero, List.cons_append, be16, u8_toNat]
  congr 1; omega

theorem put16At_put16At (bs : Bytes) (off a b : Nat) (h : off + 2 ≤ bs.length) :
    put16At (put16At bs off a) off b = put16At bs off b := by
  have hl : (bs.take off).length = off := by rw [List.length_take]; omega
  simp only [put16At, putBe16, List.append_assoc]
  congr 1
  · rw [List.take_append, hl, Nat.sub_self, List.take_take]; simp
  · congr 1
    rw [List.drop_append, hl, List.drop_eq_nil_of_le (by omega)]
    simp

/-- writing `v` into an aligned 16-bit field changes the word sum by `v - old` -/
theorem wordsum_put16At (bs : Bytes) (off v old : Nat) (he : off % 2 = 0) (h : off + 2 ≤ bs.length) (hv : v < 65536)
    (hg : get16At? bs off = some old) : wordsum (put16At bs off v) + old = wordsum bs + v := by
  obtain ⟨x, y, hs, hg'⟩ := split16 bs off h
  have hl : (bs.take off).length = off := by rw [List.length_take]; omega
  rw [hg] at hg'
  have hold : old = be16 x y := by injection hg'
  have e1 : wordsum bs = wordsum (bs.take off) + (be16 x y + wordsum (bs.drop (off + 2))) := by
    conv => lhs; rw [hs]
    rw [wordsum_append _ _ (by rw [hl]; exact he)]
    simp only [wordsum, be16]
  have e2 : wordsum (put16At bs off v) = wordsum (bs.take off) + (v + wordsum (bs.drop (off + 2))) := by
    simp only [put16At, List.append_assoc]
    rw [wordsum_append _ _ (by rw [hl]; exact he), wordsum_putBe16 v hv]
  omega

theorem get16At_lt (bs : Bytes) (off e : Nat) (h : get16At? bs off = some e) : e < 65536 := by
  unfold get16At? at h
  split at h
  · injection h with h; subst h; rename_i a b _ _; have := u8_lt a; have := u8_lt b; simp only [be16]; omega
  · cases h

theorem get16At_isSome (bs : Bytes) (off : Nat) (h : off + 2 ≤ bs.length) : ∃ e, get16At? bs off = some e := by
  obtain ⟨x, y, _, hg⟩ := split16 bs off h; exact ⟨_, hg⟩

/-! ### bit flips -/

theorem flipByte_toNat (b : UInt8) (j : Nat) (hj : j < 8) :
    (flipByte b j).toNat = b.toNat + 2 ^ j ∨ (flipByte b j).toNat + 2 ^ j = b.toNat := by
  have hb := u8_lt b
  have : j = 0 ∨ j = 1 ∨ j = 2 ∨ j = 3 ∨ j = 4 ∨ j = 5 ∨ j = 6 ∨ j = 7 := by omega
  rcases this with rfl | rfl | rfl | rfl | rfl | rfl | rfl | rfl <;>
    (simp only [flipByte]; split <;> simp only [UInt8.toNat_ofNat'] <;> omega)

theorem length_flipBit (bs : Bytes) : ∀ i, (flipBit bs i).length = bs.length := by
  induction bs with
  | nil => intro i; simp [flipBit]
  | cons b r ih => intro i; simp only [flipBit]; split <;> simp [ih]

theorem pow2_bounds (k : Nat) (hk : k < 16) : 1 ≤ 2 ^ k ∧ 2 ^ k ≤ 32768 := by
  constructor
  · exact Nat.one_le_two_pow
  · have : 2 ^ k ≤ 2 ^ 15 := Nat.pow_le_pow_right (by omega) (by omega)
    omega

/-- flipping one bit changes the positional word sum by exactly ± 2^k, k < 16 -/
theorem wsP_flipBit (bs : Bytes) : ∀ (i : Nat) (hi : Bool), i < 8 * bs.length →
    ∃ k, k < 16 ∧ (wsP hi (flipBit bs i) = wsP hi bs + 2 ^ k ∨ wsP hi (flipBit bs i) + 2 ^ k = wsP hi bs) := by
  induction bs with
  | nil => intro i hi h; simp at h
  | cons b r ih =>
    intro i hi h
    simp only [flipBit]
    by_cases h8 : i < 8
    · rw [if_pos h8]
      simp only [wsP]
      have hf := flipByte_toNat b (7 - i) (by omega)
      cases hi with
      | true =>
        refine ⟨(7 - i) + 8, by omega, ?_⟩
        simp only [if_true]
        have e : 2 ^ ((7 - i) + 8) = 2 ^ (7 - i) * 256 := by rw [Nat.pow_add]
        rw [e]
        rcases hf with hf | hf
        · left; rw [hf]; simp only [Nat.add_mul]; omega
        · right; rw [← hf]; simp only [Nat.add_mul]; omega
      | false =>
        refine ⟨7 - i, by omega, ?_⟩
        simp only [Bool.false_eq_true, if_false, Nat.mul_one]
        rcases hf with hf | hf
        · left; omega
        · right; omega
    · rw [if_neg h8]
      simp only [wsP]
      have hlen : i - 8 < 8 * r.length := by simp only [List.length_cons] at h; omega
      obtain ⟨k, hk, hk'⟩ := ih (i - 8) (!hi) hlen
      refine ⟨k, hk, ?_⟩
      rcases hk' with e | e
      · left; omega
      · right; omega

theorem wordsum_flipBit (bs : Bytes) (i : Nat) (h : i < 8 * bs.length) :
    ∃ k, k < 16 ∧ (wordsum (flipBit bs i) = wordsum bs + 2 ^ k ∨ wordsum (flipBit bs i) + 2 ^ k = wordsum bs) := by
  simp only [wordsum_eq_wsP]; exact wsP_flipBit bs i true h

/-- ± 2^k (k < 16) is never a multiple of 65535 -/
theorem flip_changes_residue (a b k : Nat) (hk : k < 16) (h : a = b + 2 ^ k ∨ a + 2 ^ k = b) : a % 65535 ≠ b % 65535 := by
  have := pow2_bounds k hk
  rcases h with h | h <;> omega

end Gp.CksumEmit
