import Gp.Model.SBuf
/-
  Helper lemmas for property C18 (serialize buffer).  Core Lean only.

  The first section holds the *definitions* that occur in the statements of the
  property theorems of `Gp/Props/C18.lean` (`Inv`, `encode`, `AllOk`); everything
  after that is proof machinery.
-/
namespace Gp.C18
open Gp Gp.SBuf

/-! ## Definitions used in the property statements -/

/-- Representation invariant of writer.go's serializeBuffer. -/
def Inv (b : SBuf) : Prop :=
  b.start ≤ b.len ∧ b.len ≤ b.mem.length ∧ b.mem.length = b.prepended + b.appended

/-- Nested encoding of a layer stack given outermost-first: each layer's header (computed
    from the payload = encoding of the layers inside it) precedes that payload. -/
def encode : List Ser → List UInt8
  | [] => []
  | l :: rest => l.hdr (encode rest) ++ encode rest

/-- Every layer's serializer succeeds on the payload it is handed (`ls` outermost-first). -/
def AllOk : List Ser → Prop
  | [] => True
  | l :: rest => l.ok (encode rest) = true ∧ AllOk rest

/-! ## List plumbing -/

theorem zeros_length (n : Nat) : (zeros n).length = n := by simp [zeros]

theorem zeros_add (a b : Nat) : zeros (a + b) = zeros a ++ zeros b := by
  simp [zeros, List.replicate_append_replicate]

/-- The middle part of a three-way split is recovered by drop/take. -/
theorem mid_eq {α} (pre c post : List α) (s k : Nat) (hs : s = pre.length) (hk : k = c.length) :
    ((pre ++ c ++ post).drop s).take k = c := by
  subst hs hk
  rw [List.append_assoc, List.drop_left' rfl, List.take_left' rfl]

/-! ## Contents and the invariant -/

theorem contents_length (b : SBuf) (h : Inv b) : (contents b).length = b.len - b.start := by
  obtain ⟨h1, h2, _⟩ := h
  simp [contents, List.length_take, List.length_drop]; omega

/-- `contents` of a buffer whose memory is split three-ways at `start` and `len`. -/
theorem contents_of_split (b : SBuf) (pre c post : List UInt8)
    (hm : b.mem = pre ++ c ++ post) (hs : b.start = pre.length)
    (hl : b.len - b.start = c.length) : contents b = c := by
  unfold contents
  rw [hm]; exact mid_eq pre c post _ _ hs hl

/-- Under the invariant the memory is `junk ++ contents ++ junk`. -/
theorem mem_decomp (b : SBuf) (h : Inv b) :
    b.mem = b.mem.take b.start ++ contents b ++ b.mem.drop b.len := by
  obtain ⟨h1, h2, _⟩ := h
  unfold contents
  rw [List.take_drop, List.append_assoc]
  have : b.start + (b.len - b.start) = b.len := by omega
  rw [this]
  conv => lhs; rw [← List.take_append_drop b.start b.mem]
  congr 1
  conv => lhs; rw [← List.take_append_drop (b.len - b.start) (b.mem.drop b.start)]
  rw [List.take_drop, List.drop_drop, this]

/-- Existential form of `mem_decomp`, convenient for `obtain`. -/
theorem split_of_inv (b : SBuf) (h : Inv b) :
    ∃ pre post, b.mem = pre ++ contents b ++ post ∧ pre.length = b.start ∧
      post.length = b.mem.length - b.len := by
  refine ⟨b.mem.take b.start, b.mem.drop b.len, mem_decomp b h, ?_, ?_⟩
  · obtain ⟨h1, h2, _⟩ := h
    simp [List.length_take]; omega
  · simp [List.length_drop]

/-! ## prepend -/

/-- The buffer produced by the reallocation branch of `prepend` with growth `tp`. -/
def prependRealloc (b : SBuf) (n tp : Nat) : SBuf :=
  { b with
    mem := zeros (b.start + tp) ++ contents b ++
            zeros (cap b + tp - (b.start + tp) - (b.len - b.start)),
    len := tp + b.len, start := b.start + tp - n,
    prepended := b.prepended + tp, gen := b.gen + 1 }

theorem prepend_eq (b : SBuf) (n : Nat) :
    (prepend b n).1 =
      if b.start < n then prependRealloc b n (if b.prepended < n then n else b.prepended)
      else { b with start := b.start - n } := by
  unfold prepend prependRealloc
  by_cases hs : b.start < n <;> simp [hs]

theorem prependRealloc_contents (b : SBuf) (n tp : Nat) (h : Inv b) (htp : n ≤ tp) :
    contents (prependRealloc b n tp) = zeros n ++ contents b := by
  have hcl := contents_length b h
  obtain ⟨h1, h2, h3⟩ := h
  apply contents_of_split _ (zeros (b.start + tp - n)) _
    (zeros (cap b + tp - (b.start + tp) - (b.len - b.start)))
  · have : b.start + tp = (b.start + tp - n) + n := by omega
    simp only [prependRealloc]
    rw [this, zeros_add]; simp [List.append_assoc]
  · simp [prependRealloc, zeros_length]
  · simp [prependRealloc, zeros_length, hcl]; omega

theorem prepend_contents_drop (b : SBuf) (n : Nat) (h : Inv b) :
    (contents (prepend b n).1).drop n = contents b := by
  rw [prepend_eq]
  by_cases hs : b.start < n
  · simp only [hs, if_true]
    rw [prependRealloc_contents b n _ h (by split <;> omega)]
    exact List.drop_left' (zeros_length n)
  · simp only [hs, if_false]
    obtain ⟨h1, h2, h3⟩ := h
    simp only [contents]
    rw [List.drop_take, List.drop_drop]
    have e1 : b.start - n + n = b.start := by omega
    have e2 : b.len - (b.start - n) - n = b.len - b.start := by omega
    rw [e1, e2]

theorem prepend_contents_length (b : SBuf) (n : Nat) (h : Inv b) :
    (contents (prepend b n).1).length = n + (contents b).length := by
  rw [prepend_eq]
  by_cases hs : b.start < n
  · simp only [hs, if_true]
    rw [prependRealloc_contents b n _ h (by split <;> omega)]
    simp [zeros_length]
  · obtain ⟨h1, h2, h3⟩ := h
    simp only [hs, if_false, contents, List.length_take, List.length_drop]
    omega

/-! ## append -/

/-- The memory produced by the reallocation branch of `append` with growth `ta`. -/
def appendRealloc (b : SBuf) (ta : Nat) : SBuf :=
  { b with
    mem := zeros b.start ++ contents b ++ zeros (cap b + ta - b.start - (b.len - b.start)),
    appended := b.appended + ta, gen := b.gen + 1 }

theorem append_eq (b : SBuf) (n : Nat) :
    (append b n).1 =
      if cap b - b.len < n then
        { appendRealloc b (if b.appended < n then n else b.appended) with len := b.len + n }
      else { b with len := b.len + n } := by
  unfold append appendRealloc
  by_cases hs : cap b - b.len < n <;> simp [hs]

theorem appendRealloc_mem_length (b : SBuf) (ta : Nat) (h : Inv b) :
    (appendRealloc b ta).mem.length = cap b + ta := by
  have hcl := contents_length b h
  obtain ⟨h1, h2, h3⟩ := h
  simp [appendRealloc, zeros_length, hcl, cap]; omega

theorem appendRealloc_contents (b : SBuf) (n ta : Nat) (h : Inv b) (hta : n ≤ ta) :
    contents { appendRealloc b ta with len := b.len + n } = contents b ++ zeros n := by
  have hcl := contents_length b h
  obtain ⟨h1, h2, h3⟩ := h
  apply contents_of_split _ (zeros b.start) _
    (zeros (cap b + ta - b.start - (b.len - b.start) - n))
  · have : cap b + ta - b.start - (b.len - b.start)
        = n + (cap b + ta - b.start - (b.len - b.start) - n) := by simp only [cap]; omega
    simp only [appendRealloc]
    rw [this, zeros_add]; simp [List.append_assoc]
  · simp [appendRealloc, zeros_length]
  · simp [appendRealloc, zeros_length, hcl]; omega

theorem inv_append' (b : SBuf) (n : Nat) (h : Inv b) : Inv (append b n).1 := by
  rw [append_eq]
  by_cases hs : cap b - b.len < n
  · simp only [hs, if_true]
    have hm := appendRealloc_mem_length b (if b.appended < n then n else b.appended) h
    obtain ⟨h1, h2, h3⟩ := h
    refine ⟨?_, ?_, ?_⟩
    · show b.start ≤ b.len + n; omega
    · show b.len + n ≤ (appendRealloc b _).mem.length
      rw [hm]; simp only [cap] at hs ⊢; split <;> omega
    · show (appendRealloc b _).mem.length = b.prepended + (b.appended + _)
      rw [hm]; simp only [cap]; omega
  · obtain ⟨h1, h2, h3⟩ := h
    simp only [hs, if_false]
    simp only [Inv, cap] at hs ⊢; omega

theorem append_contents_take (b : SBuf) (n : Nat) (h : Inv b) :
    (contents (append b n).1).take (contents b).length = contents b := by
  rw [append_eq]
  by_cases hs : cap b - b.len < n
  · simp only [hs, if_true]
    rw [appendRealloc_contents b n _ h (by split <;> omega)]
    exact List.take_left' rfl
  · simp only [hs, if_false]
    rw [contents_length b h]
    obtain ⟨h1, h2, h3⟩ := h
    simp only [contents]
    rw [List.take_take]
    congr 1; omega

theorem append_contents_length (b : SBuf) (n : Nat) (h : Inv b) :
    (contents (append b n).1).length = (contents b).length + n := by
  rw [contents_length _ (inv_append' b n h), contents_length b h, append_eq]
  obtain ⟨h1, h2, h3⟩ := h
  by_cases hs : cap b - b.len < n
  · simp only [hs, if_true]
    show b.len + n - b.start = _; omega
  · simp only [hs, if_false]; omega

/-! ## fill -/

theorem splice_length {α} (l vs : List α) (o : Nat) (h : o + vs.length ≤ l.length) :
    (l.take o ++ vs ++ l.drop (o + vs.length)).length = l.length := by
  simp [List.length_take, List.length_drop]; omega

theorem fill_stale (b : SBuf) (w : Win) (vs : List UInt8) (h : w.gen ≠ b.gen) :
    fill b w vs = b := by simp [fill, h]

theorem fill_fields (b : SBuf) (w : Win) (vs : List UInt8) :
    (fill b w vs).start = b.start ∧ (fill b w vs).len = b.len ∧
    (fill b w vs).layers = b.layers ∧ (fill b w vs).gen = b.gen ∧
    (fill b w vs).prepended = b.prepended ∧ (fill b w vs).appended = b.appended := by
  unfold fill; split <;> simp

theorem fill_mem_length (b : SBuf) (w : Win) (vs : List UInt8)
    (hw : w.off + vs.length ≤ b.mem.length) : (fill b w vs).mem.length = b.mem.length := by
  unfold fill; split
  · exact splice_length _ _ _ hw
  · rfl

theorem inv_fill' (b : SBuf) (w : Win) (vs : List UInt8) (h : Inv b)
    (hw : w.off + vs.length ≤ b.mem.length) : Inv (fill b w vs) := by
  obtain ⟨e1, e2, _, _, e5, e6⟩ := fill_fields b w vs
  unfold Inv
  rw [fill_mem_length b w vs hw, e1, e2, e5, e6]; exact h

/-- Filling a current window lying inside the contents splices `vs` into the contents. -/
theorem fill_contents (b : SBuf) (w : Win) (vs : List UInt8) (h : Inv b)
    (hg : w.gen = b.gen) (h1 : b.start ≤ w.off) (h2 : w.off + vs.length ≤ b.len) :
    contents (fill b w vs) =
      (contents b).take (w.off - b.start) ++ vs ++
        (contents b).drop (w.off - b.start + vs.length) := by
  have hcl := contents_length b h
  obtain ⟨pre, post, hm, hpre, -⟩ := split_of_inv b h
  obtain ⟨i1, i2, i3⟩ := h
  have hoff : w.off = pre.length + (w.off - b.start) := by omega
  generalize w.off - b.start = o at hoff ⊢
  generalize contents b = C at hm hcl ⊢
  apply contents_of_split _ pre _ post
  · simp only [fill, hg, if_true]
    rw [hm, hoff, List.append_assoc pre C post, List.take_length_add_append, Nat.add_assoc,
      List.drop_length_add_append, List.take_append_of_le_length (by omega),
      List.drop_append_of_le_length (by omega)]
    simp [List.append_assoc]
  · rw [(fill_fields b w vs).1, hpre]
  · rw [(fill_fields b w vs).1, (fill_fields b w vs).2.1, splice_length _ _ _ (by omega), hcl]

/-! ## invariant preservation, windows -/

theorem inv_new' (p a : Nat) : Inv (new p a) := by
  simp [Inv, new, zeros]

theorem prependRealloc_mem_length (b : SBuf) (n tp : Nat) (h : Inv b) :
    (prependRealloc b n tp).mem.length = cap b + tp := by
  have hcl := contents_length b h
  obtain ⟨h1, h2, h3⟩ := h
  simp [prependRealloc, zeros_length, hcl, cap]; omega

theorem inv_prepend' (b : SBuf) (n : Nat) (h : Inv b) : Inv (prepend b n).1 := by
  rw [prepend_eq]
  by_cases hs : b.start < n
  · simp only [hs, if_true]
    have hm := prependRealloc_mem_length b n (if b.prepended < n then n else b.prepended) h
    obtain ⟨h1, h2, h3⟩ := h
    refine ⟨?_, ?_, ?_⟩
    · show b.start + _ - n ≤ _ + b.len; omega
    · show _ + b.len ≤ (prependRealloc b n _).mem.length
      rw [hm]; simp only [cap]; omega
    · show (prependRealloc b n _).mem.length = (b.prepended + _) + b.appended
      rw [hm]; simp only [cap]; omega
  · obtain ⟨h1, h2, h3⟩ := h
    simp only [hs, if_false]
    simp only [Inv] at ⊢; omega

theorem inv_clear' (b : SBuf) (h : Inv b) : Inv (clear b) := by
  obtain ⟨h1, h2, h3⟩ := h
  simp only [Inv, clear]; omega

theorem contents_clear (b : SBuf) : contents (clear b) = [] := by
  simp [contents, clear]

theorem inv_pushLayer' (b : SBuf) (t : Int) (h : Inv b) : Inv (pushLayer b t) := h

theorem contents_pushLayer (b : SBuf) (t : Int) : contents (pushLayer b t) = contents b := rfl

/-- Window returned by `prepend`. -/
theorem prepend_win (b : SBuf) (n : Nat) :
    (prepend b n).2 = { gen := (prepend b n).1.gen, off := (prepend b n).1.start, n := n } := rfl

/-- Window returned by `append`. -/
theorem append_win (b : SBuf) (n : Nat) :
    (append b n).2 = { gen := (append b n).1.gen, off := b.len, n := n } := rfl

theorem prepend_start_len (b : SBuf) (n : Nat) (h : Inv b) :
    (prepend b n).1.start + n ≤ (prepend b n).1.len := by
  have hi := inv_prepend' b n h
  have h1 := prepend_contents_length b n h
  rw [contents_length _ hi] at h1
  obtain ⟨i1, _, _⟩ := hi
  omega

theorem append_fields (b : SBuf) (n : Nat) :
    (append b n).1.start = b.start ∧ (append b n).1.len = b.len + n ∧
    (append b n).1.layers = b.layers ∧ (append b n).1.prepended = b.prepended := by
  rw [append_eq]; split <;> simp [appendRealloc]

theorem prepend_layers (b : SBuf) (n : Nat) : (prepend b n).1.layers = b.layers := by
  rw [prepend_eq]; split <;> simp [prependRealloc]

/-! ## step / run -/

theorem step_prepend (b : SBuf) (vs : List UInt8) :
    step b (.prepend vs) = fill (prepend b vs.length).1 (prepend b vs.length).2 vs := rfl

theorem step_append (b : SBuf) (vs : List UInt8) :
    step b (.append vs) = fill (append b vs.length).1 (append b vs.length).2 vs := rfl

theorem contents_step_prepend (b : SBuf) (vs : List UInt8) (h : Inv b) :
    contents (step b (.prepend vs)) = vs ++ contents b := by
  rw [step_prepend, fill_contents _ _ _ (inv_prepend' b _ h) rfl (Nat.le_refl _)
    (prepend_start_len b _ h)]
  simp only [prepend_win, Nat.sub_self, List.take_zero, Nat.zero_add, List.nil_append]
  rw [prepend_contents_drop b _ h]

theorem contents_step_append (b : SBuf) (vs : List UInt8) (h : Inv b) :
    contents (step b (.append vs)) = contents b ++ vs := by
  obtain ⟨f1, f2, -, -⟩ := append_fields b vs.length
  have hcl := contents_length b h
  have hl := append_contents_length b vs.length h
  have hi := h
  obtain ⟨i1, i2, i3⟩ := hi
  rw [step_append, fill_contents _ _ _ (inv_append' b _ h) rfl
    (by rw [f1]; exact i1) (by rw [f2]; exact Nat.le_refl _)]
  simp only [append_win, f1]
  rw [← hcl, append_contents_take b _ h, List.drop_of_length_le (by omega), List.append_nil]

theorem inv_step' (b : SBuf) (op : Op) (h : Inv b) : Inv (step b op) := by
  cases op with
  | prepend vs =>
    rw [step_prepend]
    apply inv_fill' _ _ _ (inv_prepend' b _ h)
    have := prepend_start_len b vs.length h
    have := (inv_prepend' b vs.length h).2.1
    simp only [prepend_win]; omega
  | append vs =>
    rw [step_append]
    apply inv_fill' _ _ _ (inv_append' b _ h)
    have := (append_fields b vs.length).2.1
    have := (inv_append' b vs.length h).2.1
    simp only [append_win]; omega
  | clear => exact inv_clear' b h
  | push t => exact inv_pushLayer' b t h

theorem layers_step (b : SBuf) (op : Op) :
    (step b op).layers = (specStep (contents b, b.layers) op).2 := by
  cases op with
  | prepend vs => rw [step_prepend, (fill_fields _ _ _).2.2.1, prepend_layers]; rfl
  | append vs => rw [step_append, (fill_fields _ _ _).2.2.1, (append_fields _ _).2.2.1]; rfl
  | clear => rfl
  | push t => rfl

theorem contents_step (b : SBuf) (op : Op) (h : Inv b) :
    contents (step b op) = (specStep (contents b, b.layers) op).1 := by
  cases op with
  | prepend vs => exact contents_step_prepend b vs h
  | append vs => exact contents_step_append b vs h
  | clear => exact contents_clear b
  | push t => rfl

theorem inv_run_from (b : SBuf) (ops : List Op) (h : Inv b) : Inv (run b ops) := by
  induction ops generalizing b with
  | nil => exact h
  | cons op ops ih => exact ih (step b op) (inv_step' b op h)

/-- Refinement from an arbitrary invariant state. -/
theorem refines_from (b : SBuf) (ops : List Op) (h : Inv b) :
    (contents (run b ops), (run b ops).layers) = ops.foldl specStep (contents b, b.layers) := by
  induction ops generalizing b with
  | nil => rfl
  | cons op ops ih =>
    simp only [run, List.foldl_cons] at ih ⊢
    rw [ih (step b op) (inv_step' b op h), contents_step b op h, layers_step b op]

/-! ## write -/

theorem write_current (b : SBuf) (w : Win) (i : Nat) (v : UInt8)
    (hg : w.gen = b.gen) (hi : i < w.n) :
    write b w i v = .ok { b with mem := b.mem.set (w.off + i) v } := by
  simp [write, hg, hi]

theorem contents_set (b : SBuf) (k : Nat) (v : UInt8) (hk : b.start ≤ k) :
    contents { b with mem := b.mem.set k v } = (contents b).set (k - b.start) v := by
  simp only [contents]
  rw [List.drop_set, if_neg (by omega), List.take_set]

theorem inv_set (b : SBuf) (k : Nat) (v : UInt8) (h : Inv b) :
    Inv { b with mem := b.mem.set k v } := by
  simpa [Inv] using h

/-! ## serializeLayers -/

/-- Abstract run of the SerializeLayers loop on (contents, layers), innermost-first. -/
def goSpec (c : List UInt8) (ts : List Int) : List Ser → Option (List UInt8 × List Int)
  | [] => some (c, ts)
  | l :: rest => if l.ok c then goSpec (l.hdr c ++ c) (ts ++ [l.typ]) rest else none

theorem go_refines (b : SBuf) (ls : List Ser) (h : Inv b) :
    match goSpec (contents b) b.layers ls with
    | some (c, ts) => ∃ b', serializeLayers.go b ls = .ok b' ∧ Inv b' ∧
        contents b' = c ∧ b'.layers = ts
    | none => serializeLayers.go b ls = .err "serialize" := by
  induction ls generalizing b with
  | nil => exact ⟨b, rfl, h, rfl, rfl⟩
  | cons l rest ih =>
    simp only [goSpec, serializeLayers.go]
    by_cases hok : l.ok (contents b) = true
    · simp only [hok, if_true]
      have hi1 := inv_step' b (.prepend (l.hdr (contents b))) h
      have hi2 := inv_step' _ (.push l.typ) hi1
      have e1 : contents (step (step b (.prepend (l.hdr (contents b)))) (.push l.typ))
          = l.hdr (contents b) ++ contents b := by
        rw [contents_step _ _ hi1, contents_step _ _ h]; rfl
      have e2 : (step (step b (.prepend (l.hdr (contents b)))) (.push l.typ)).layers
          = b.layers ++ [l.typ] := by
        rw [layers_step, layers_step]; rfl
      have := ih _ hi2
      rw [e1, e2] at this
      exact this
    · simp [hok]

theorem goSpec_snoc (c : List UInt8) (ts : List Int) (xs : List Ser) (l : Ser) :
    goSpec c ts (xs ++ [l]) =
      (goSpec c ts xs).bind (fun r =>
        if l.ok r.1 then some (l.hdr r.1 ++ r.1, r.2 ++ [l.typ]) else none) := by
  induction xs generalizing c ts with
  | nil => simp [goSpec]
  | cons x xs ih =>
    simp only [List.cons_append, goSpec]
    split
    · exact ih _ _
    · rfl

theorem goSpec_reverse (ls : List Ser) :
    (AllOk ls → goSpec [] [] ls.reverse = some (encode ls, (ls.map (·.typ)).reverse)) ∧
    (¬ AllOk ls → goSpec [] [] ls.reverse = none) := by
  induction ls with
  | nil => simp [goSpec, AllOk, encode]
  | cons l rest ih =>
    rw [List.reverse_cons, goSpec_snoc]
    by_cases hr : AllOk rest
    · rw [ih.1 hr]
      by_cases hl : l.ok (encode rest) = true
      · simp [AllOk, hl, hr, encode]
      · simp [AllOk, hl]
    · rw [ih.2 hr]
      simp [AllOk, hr]

theorem gen_le_step (b : SBuf) (op : Op) : b.gen ≤ (step b op).gen := by
  cases op with
  | prepend vs =>
    rw [step_prepend, (fill_fields _ _ _).2.2.2.1, prepend_eq]
    split
    · exact Nat.le_succ _
    · exact Nat.le_refl _
  | append vs =>
    rw [step_append, (fill_fields _ _ _).2.2.2.1, append_eq]
    split
    · exact Nat.le_succ _
    · exact Nat.le_refl _
  | clear => exact Nat.le_refl _
  | push t => exact Nat.le_refl _

theorem go_no_panic (b : SBuf) (ls : List Ser) (k : PanicKind) :
    serializeLayers.go b ls ≠ .panic k := by
  induction ls generalizing b with
  | nil => simp [serializeLayers.go]
  | cons l rest ih =>
    simp only [serializeLayers.go]
    split
    · exact ih _
    · simp

/-! ## serializeLayersObs: what a serializer can observe, and what an error leaves behind -/

theorem layers_after_ser (b : SBuf) (l : Ser) :
    (step (step b (.prepend (l.hdr (contents b)))) (.push l.typ)).layers = b.layers ++ [l.typ] := by
  rw [layers_step, layers_step]; rfl

/-- The observable loop agrees with the plain one on the result. -/
theorem goObs_agrees (b : SBuf) (obs : List (List Int)) (xs : List Ser) :
    (match serializeLayersObs.go b obs xs with
     | (.ok (), b', _) => Res.ok b'
     | (.err e, _, _) => .err e
     | (.panic k, _, _) => .panic k) = serializeLayers.go b xs := by
  induction xs generalizing b obs with
  | nil => rfl
  | cons l rest ih =>
    by_cases hok : l.ok (contents b) = true
    · simp only [serializeLayersObs.go, serializeLayers.go, hok, if_true]
      exact ih _ _
    · simp [serializeLayersObs.go, serializeLayers.go, hok]

/-- `n` = number of serializers that ran successfully.  Every serializer that was called (the first
    `min (n+1) |xs|` of them) found exactly the types of the serializers before it recorded; the buffer
    that is left has exactly the `n` successful ones recorded; the result is ok iff all ran. -/
theorem goObs_spec (xs done : List Ser) (b : SBuf) (obs : List (List Int))
    (hb : b.layers = done.map (·.typ)) :
    ∃ n, n ≤ xs.length ∧
      (serializeLayersObs.go b obs xs).2.2 = obs ++ (List.range (min (n + 1) xs.length)).map
          (fun i => ((done ++ xs).take (done.length + i)).map (·.typ)) ∧
      (serializeLayersObs.go b obs xs).2.1.layers = ((done ++ xs).take (done.length + n)).map (·.typ) ∧
      ((serializeLayersObs.go b obs xs).1 = .ok () ↔ n = xs.length) := by
  induction xs generalizing done b obs with
  | nil =>
    refine ⟨0, Nat.le_refl _, ?_, ?_, ?_⟩
    · simp [serializeLayersObs.go]
    · simp [serializeLayersObs.go, hb]
    · simp [serializeLayersObs.go]
  | cons l rest ih =>
    by_cases hok : l.ok (contents b) = true
    · have hb' : (step (step b (.prepend (l.hdr (contents b)))) (.push l.typ)).layers
          = (done ++ [l]).map (·.typ) := by
        rw [layers_after_ser, hb]; simp
      obtain ⟨n, hn, h1, h2, h3⟩ := ih (done ++ [l]) _ (obs ++ [b.layers]) hb'
      refine ⟨n + 1, by simp; omega, ?_, ?_, ?_⟩
      · simp only [serializeLayersObs.go, hok, if_true]
        rw [h1]
        have hm : min (n + 1 + 1) (l :: rest).length = min (n + 1) rest.length + 1 := by
          simp only [List.length_cons]; omega
        rw [hm, List.range_succ_eq_map, List.map_cons, List.map_map]
        simp only [List.append_assoc, List.singleton_append, Nat.add_zero]
        congr 1
        congr 1
        · rw [hb]; simp
        · apply List.map_congr_left
          intro i _
          simp only [Function.comp, List.length_append, List.length_singleton, List.append_assoc,
            List.singleton_append]
          rw [show done.length + 1 + i = done.length + Nat.succ i by omega]
      · simp only [serializeLayersObs.go, hok, if_true]
        rw [h2]
        simp only [List.length_append, List.length_singleton, List.append_assoc, List.singleton_append]
        rw [show done.length + 1 + n = done.length + (n + 1) by omega]
      · simp only [serializeLayersObs.go, hok, if_true, List.length_cons]
        rw [h3]; omega
    · refine ⟨0, Nat.zero_le _, ?_, ?_, ?_⟩
      · simp [serializeLayersObs.go, hok, hb]
      · simp [serializeLayersObs.go, hok, hb]
      · simp [serializeLayersObs.go, hok]

end Gp.C18
