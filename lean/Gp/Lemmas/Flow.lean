import Gp.Model.Flow
/- Helper lemmas for C17 (flows.go value theory).  Core Lean only. -/
namespace Gp.Flow
open Gp.Gen.Flow

/-! ### copy into a zeroed array -/

theorem zeroArr_length : zeroArr.length = maxEndpointSize := by
  simp [zeroArr]

theorem copyInto_zero {raw : List UInt8} (h : raw.length ≤ maxEndpointSize) :
    copyInto zeroArr raw = raw ++ List.replicate (maxEndpointSize - raw.length) 0 := by
  unfold copyInto
  rw [zeroArr_length, List.take_of_length_le h]
  simp [zeroArr, List.drop_replicate]

theorem copyInto_zero_length {raw : List UInt8} (h : raw.length ≤ maxEndpointSize) :
    (copyInto zeroArr raw).length = maxEndpointSize := by
  rw [copyInto_zero h]; simp; omega

theorem copyInto_zero_take {raw : List UInt8} (h : raw.length ≤ maxEndpointSize) :
    (copyInto zeroArr raw).take raw.length = raw := by
  rw [copyInto_zero h]; simp

theorem copyInto_zero_drop {raw : List UInt8} (h : raw.length ≤ maxEndpointSize) :
    (copyInto zeroArr raw).drop raw.length = List.replicate (maxEndpointSize - raw.length) 0 := by
  rw [copyInto_zero h]; simp

/-! ### representation: a well-formed value is determined by (typ, bytes) -/

theorem Endpoint.bytes_length {e : Endpoint} (h : e.WF) : e.bytes.length = e.len := by
  obtain ⟨h1, h2, _⟩ := h
  simp [Endpoint.bytes, List.length_take, h2]; omega

theorem Endpoint.raw_eq {e : Endpoint} (h : e.WF) :
    e.raw = e.bytes ++ List.replicate (maxEndpointSize - e.bytes.length) 0 := by
  have hl := Endpoint.bytes_length h
  obtain ⟨_, _, h3⟩ := h
  rw [hl, ← h3]
  exact (List.take_append_drop e.len e.raw).symm

theorem Endpoint.ext_bytes {a b : Endpoint} (ha : a.WF) (hb : b.WF)
    (ht : a.typ = b.typ) (hbytes : a.bytes = b.bytes) : a = b := by
  have hla := Endpoint.bytes_length ha
  have hlb := Endpoint.bytes_length hb
  have hra := Endpoint.raw_eq ha
  have hrb := Endpoint.raw_eq hb
  cases a; cases b
  simp only [Endpoint.mk.injEq]
  simp only at ht hla hlb hra hrb
  refine ⟨ht, ?_, ?_⟩
  · rw [← hla, ← hlb, hbytes]
  · rw [hra, hrb, hbytes]

theorem Flow.srcBytes_length {f : Flow} (h : f.WF) : f.srcBytes.length = f.slen := by
  obtain ⟨h1, _, h3, _⟩ := h
  simp [Flow.srcBytes, List.length_take, h3]; omega

theorem Flow.dstBytes_length {f : Flow} (h : f.WF) : f.dstBytes.length = f.dlen := by
  obtain ⟨_, h2, _, h4, _⟩ := h
  simp [Flow.dstBytes, List.length_take, h4]; omega

theorem Flow.endpoints_wf {f : Flow} (h : f.WF) : f.endpoints.1.WF ∧ f.endpoints.2.WF := by
  obtain ⟨h1, h2, h3, h4, h5, h6⟩ := h
  exact ⟨⟨h1, h3, h5⟩, ⟨h2, h4, h6⟩⟩

theorem Flow.ext_bytes {f g : Flow} (hf : f.WF) (hg : g.WF) (ht : f.typ = g.typ)
    (hs : f.srcBytes = g.srcBytes) (hd : f.dstBytes = g.dstBytes) : f = g := by
  have h1 := Endpoint.ext_bytes (Flow.endpoints_wf hf).1 (Flow.endpoints_wf hg).1 ht hs
  have h2 := Endpoint.ext_bytes (Flow.endpoints_wf hf).2 (Flow.endpoints_wf hg).2 ht hd
  cases f; cases g
  simp only [Flow.endpoints, Endpoint.mk.injEq] at h1 h2
  simp only [Flow.mk.injEq]
  exact ⟨h1.1, h1.2.1, h2.2.1, h1.2.2, h2.2.2⟩

/-! ### bytes.Compare(a,b) < 0 is a strict total order on byte strings -/

theorem u8_lt_irrefl (a : UInt8) : ¬ a < a := by
  rw [UInt8.lt_iff_toNat_lt]; omega

theorem u8_lt_trans {a b c : UInt8} (h1 : a < b) (h2 : b < c) : a < c := by
  rw [UInt8.lt_iff_toNat_lt] at *; omega

theorem u8_trichotomy (a b : UInt8) : a < b ∨ a = b ∨ b < a := by
  rw [UInt8.lt_iff_toNat_lt, UInt8.lt_iff_toNat_lt, ← UInt8.toNat_inj]; omega

theorem lexLt_irrefl : ∀ a : List UInt8, lexLt a a = false
  | [] => rfl
  | x :: xs => by
    simp [lexLt, lexLt_irrefl xs]

theorem lexLt_cons {a b : UInt8} {as bs : List UInt8} :
    lexLt (a :: as) (b :: bs) = true ↔ a < b ∨ (a = b ∧ lexLt as bs = true) := by
  simp [lexLt]

theorem lexLt_trans : ∀ {a b c : List UInt8}, lexLt a b = true → lexLt b c = true → lexLt a c = true
  | [], [], _, h, _ => by simp [lexLt] at h
  | [], _ :: _, [], _, h => by simp [lexLt] at h
  | [], _ :: _, _ :: _, _, _ => by simp [lexLt]
  | _ :: _, [], _, h, _ => by simp [lexLt] at h
  | _ :: _, _ :: _, [], _, h => by simp [lexLt] at h
  | x :: xs, y :: ys, z :: zs, h1, h2 => by
    rw [lexLt_cons] at *
    rcases h1 with h1 | ⟨e1, h1⟩ <;> rcases h2 with h2 | ⟨e2, h2⟩
    · exact .inl (u8_lt_trans h1 h2)
    · subst e2; exact .inl h1
    · subst e1; exact .inl h2
    · subst e1; subst e2; exact .inr ⟨rfl, lexLt_trans h1 h2⟩

theorem lexLt_trichotomy : ∀ a b : List UInt8, lexLt a b = true ∨ a = b ∨ lexLt b a = true
  | [], [] => .inr (.inl rfl)
  | [], _ :: _ => .inl rfl
  | _ :: _, [] => .inr (.inr rfl)
  | x :: xs, y :: ys => by
    simp only [lexLt_cons, List.cons.injEq]
    rcases u8_trichotomy x y with h | h | h
    · exact .inl (.inl h)
    · subst h
      rcases lexLt_trichotomy xs ys with h | h | h
      · exact .inl (.inr ⟨rfl, h⟩)
      · exact .inr (.inl ⟨rfl, h⟩)
      · exact .inr (.inr (.inr ⟨rfl, h⟩))
    · exact .inr (.inr (.inl h))

theorem lexLt_asymm {a b : List UInt8} (h : lexLt a b = true) : lexLt b a = false := by
  cases hba : lexLt b a with
  | false => rfl
  | true => have := lexLt_trans h hba; rw [lexLt_irrefl] at this; cases this

/-- A proper prefix is smaller (the "unequal-length addresses sharing a prefix" case). -/
theorem lexLt_prefix (a : List UInt8) (x : UInt8) (t : List UInt8) : lexLt a (a ++ x :: t) = true := by
  induction a with
  | nil => rfl
  | cons y ys ih => simp [lexLt, ih]

/-! ### LessThan on endpoints -/

theorem Endpoint.lessThan_iff (a b : Endpoint) :
    a.lessThan b = true ↔ a.typ < b.typ ∨ (a.typ = b.typ ∧ lexLt a.bytes b.bytes = true) := by
  simp [Endpoint.lessThan]

/-! ### hashing -/

theorem fnvStep_lt (h : Nat) (b : UInt8) : fnvStep h b < two64 :=
  Nat.mod_lt _ (by decide)

theorem foldl_fnvStep_lt (s : List UInt8) : ∀ h, h < two64 → s.foldl fnvStep h < two64 := by
  induction s with
  | nil => intro h hh; exact hh
  | cons b bs ih => intro h _; exact ih _ (fnvStep_lt h b)

theorem mixTyp_lt (h : Nat) (t : Int) : mixTyp h t < two64 :=
  Nat.mod_lt _ (by decide)

end Gp.Flow
