import Gp.Lemmas.PcapNgRT2
/-
  Round trip, part 3 (C14): the three option handlers as step functions on the value they build
  (section info, interface, packet options), and what folding them over the WRITTEN option lists gives.
-/
namespace Gp.PcapNg
open Gp.Gen.PcapNg

theorem fold_strOpt {X : Type} (step : Nat → Bytes → X → Option X) (code : Nat) (v : Bytes) (x x' : X)
    (h1 : step code v x = some x') (h2 : v = [] → x' = x) : optsFold step (strOpt code v) x = some x' := by
  unfold strOpt
  cases v with
  | nil => simp only [List.isEmpty_nil, if_true, optsFold]; rw [h2 rfl]
  | cons a t => simp only [List.isEmpty_cons, Bool.false_eq_true, if_false, optsFold, h1]

theorem valid_strOpt (code : Nat) (v : Bytes) (hc0 : code ≠ ngOptionCodeEndOfOptions) (hc : code < 65536)
    (hv : v.length < 65536) : ∀ o ∈ strOpt code v, OptValid o := by
  intro o ho
  unfold strOpt at ho
  split at ho
  · cases ho
  · simp only [List.mem_singleton] at ho
    subst ho
    exact ⟨hc0, hc, hv⟩

theorem len64_lt (v : Nat) : (putLe64 v).length < 65536 := by rw [length_putLe64]; decide
theorem len32_lt (v : Nat) : (putLe32 v).length < 65536 := by rw [length_putLe32]; decide

theorem optValid_mk (c : Nat) (v : Bytes) (h0 : c ≠ ngOptionCodeEndOfOptions) (h1 : c < 65536) (h2 : v.length < 65536) :
    OptValid (c, v) := ⟨h0, h1, h2⟩

/-! ### section header options -/

def shbStep (c : Nat) (v : Bytes) (x : Section) : Option Section :=
  some (if c = ngOptionCodeComment then { x with comment := v }
        else if c = ngOptionCodeHardware then { x with hardware := v }
        else if c = ngOptionCodeOS then { x with os := v }
        else if c = ngOptionCodeUserApplication then { x with app := v }
        else x)

theorem shb_keep (c : Nat) (v : Bytes) (s : S) :
    (shbHandle c v s).2.keep = s.keep ∧ (shbHandle c v s).2.blkLen = s.blkLen := by
  unfold shbHandle
  repeat' split
  all_goals exact ⟨rfl, rfl⟩

theorem shb_step (c : Nat) (v : Bytes) (s : S) (x' : Section) (_ : s.be = false)
    (h : shbStep c v s.curSec = some x') : ∃ s', shbHandle c v s = (.ok (), s') ∧ s'.curSec = x' := by
  simp only [shbStep, Option.some.injEq] at h
  subst h
  unfold shbHandle
  repeat' split
  all_goals exact ⟨_, rfl, rfl⟩

/-- the section options as written by writeSectionHeader -/
def shbOptList (i : Section) : List (Nat × Bytes) :=
  strOpt ngOptionCodeUserApplication i.app ++ strOpt ngOptionCodeComment i.comment
    ++ strOpt ngOptionCodeHardware i.hardware ++ strOpt ngOptionCodeOS i.os

theorem shb_fold (i : Section) : optsFold shbStep (shbOptList i) {} = some i := by
  unfold shbOptList
  rw [optsFold_append, optsFold_append, optsFold_append]
  rw [fold_strOpt shbStep _ i.app {} { app := i.app } (by simp [shbStep, ngOptionCodeUserApplication, ngOptionCodeComment, ngOptionCodeHardware, ngOptionCodeOS])
    (by intro h; cases i; simp_all)]
  simp only [Option.bind_some]
  rw [fold_strOpt shbStep _ i.comment _ { app := i.app, comment := i.comment } (by simp [shbStep])
    (by intro h; cases i; simp_all)]
  simp only [Option.bind_some]
  rw [fold_strOpt shbStep _ i.hardware _ { app := i.app, comment := i.comment, hardware := i.hardware }
    (by simp [shbStep, ngOptionCodeComment, ngOptionCodeHardware]) (by intro h; cases i; simp_all)]
  simp only [Option.bind_some]
  rw [fold_strOpt shbStep _ i.os _ { app := i.app, comment := i.comment, hardware := i.hardware, os := i.os }
    (by simp [shbStep, ngOptionCodeComment, ngOptionCodeHardware, ngOptionCodeOS]) (by intro h; cases i; simp_all)]

theorem shb_valid (i : Section) (h : i.app.length < 65536 ∧ i.comment.length < 65536 ∧ i.hardware.length < 65536 ∧ i.os.length < 65536) :
    ∀ o ∈ shbOptList i, OptValid o := by
  intro o ho
  unfold shbOptList at ho
  simp only [List.mem_append] at ho
  rcases ho with ((ho | ho) | ho) | ho
  · exact valid_strOpt _ _ (by decide) (by decide) h.1 o ho
  · exact valid_strOpt _ _ (by decide) (by decide) h.2.1 o ho
  · exact valid_strOpt _ _ (by decide) (by decide) h.2.2.1 o ho
  · exact valid_strOpt _ _ (by decide) (by decide) h.2.2.2 o ho

/-! ### interface description options -/

def idbStep (c : Nat) (v : Bytes) (x : Iface) : Option Iface :=
  if c = ngOptionCodeInterfaceName then some { x with name := v }
  else if c = ngOptionCodeComment then some { x with comment := v }
  else if c = ngOptionCodeInterfaceDescription then some { x with descr := v }
  else if c = ngOptionCodeInterfaceFilter then
    if v.length < 1 then none else some { x with filter := v.drop 1 }
  else if c = ngOptionCodeInterfaceOS then some { x with os := v }
  else if c = ngOptionCodeInterfaceTimestampOffset then
    if v.length < 8 then none else some { x with tsoff := getU false (v.take 8) }
  else if c = ngOptionCodeInterfaceTimestampResolution then
    if v.length < 1 then none else some { x with tsres := leNat (v.take 1) }
  else some x

theorem idb_keep (c : Nat) (v : Bytes) (s : S) :
    (idbHandle c v s).2.keep = s.keep ∧ (idbHandle c v s).2.blkLen = s.blkLen := by
  unfold idbHandle
  repeat' split
  all_goals exact ⟨rfl, rfl⟩

theorem idb_step (c : Nat) (v : Bytes) (s : S) (x' : Iface) (hbe : s.be = false)
    (h : idbStep c v s.curIf = some x') : ∃ s', idbHandle c v s = (.ok (), s') ∧ s'.curIf = x' := by
  unfold idbStep at h
  unfold idbHandle
  rw [hbe]
  repeat' split at h
  all_goals first
    | (simp only [Option.some.injEq] at h; subst h
       first
        | (simp [*]; done)
        | (simp [*, ngOptionCodeComment, ngOptionCodeInterfaceName, ngOptionCodeInterfaceDescription, ngOptionCodeInterfaceFilter,
             ngOptionCodeInterfaceOS, ngOptionCodeInterfaceTimestampOffset, ngOptionCodeInterfaceTimestampResolution,
             ngOptionCodeEpbFlags, ngOptionCodeEpbHash, ngOptionCodeEpbDropCount, ngOptionCodeEpbPacketID, ngOptionCodeEpbQueue,
             ngOptionCodeEpbVerdict]; done))
    | cases h

/-- the interface as collected from the options, before readInterfaceDescriptor computes the scale factors -/
def ifaceRaw (i : IfaceSpec) : Iface :=
  { name := i.name, comment := i.comment, descr := i.descr, filter := i.filter, os := i.os,
    linkType := i.linkType, tsres := 9, tsoff := i.tsoff, snaplen := i.snaplen }

/-- the interface as the reader stores it (nanosecond resolution: secondMask 10^9, scale 1/1) -/
def ifaceOf (i : IfaceSpec) : Iface := finishIface (ifaceRaw i) 9 1000000000 1 1

theorem idb_fold (i : IfaceSpec) (hoff : i.tsoff < 18446744073709551616) :
    optsFold idbStep (idbOptList i) { linkType := i.linkType, snaplen := i.snaplen } = some (ifaceRaw i) := by
  unfold idbOptList
  rw [optsFold_append, optsFold_append, optsFold_append, optsFold_append, optsFold_append, optsFold_append]
  rw [fold_strOpt idbStep _ i.name _ { name := i.name, linkType := i.linkType, snaplen := i.snaplen }
    (by simp [idbStep]) (by intro h; cases i; simp_all)]
  simp only [Option.bind_some]
  rw [fold_strOpt idbStep _ i.comment _ { name := i.name, comment := i.comment, linkType := i.linkType, snaplen := i.snaplen }
    (by simp [idbStep, ngOptionCodeComment, ngOptionCodeInterfaceName]) (by intro h; cases i; simp_all)]
  simp only [Option.bind_some]
  rw [fold_strOpt idbStep _ i.descr _ { name := i.name, comment := i.comment, descr := i.descr, linkType := i.linkType, snaplen := i.snaplen }
    (by simp [idbStep, ngOptionCodeComment, ngOptionCodeInterfaceName, ngOptionCodeInterfaceDescription]) (by intro h; cases i; simp_all)]
  simp only [Option.bind_some]
  have hfilter : optsFold idbStep (if i.filter.isEmpty = true then [] else [(ngOptionCodeInterfaceFilter, 0 :: i.filter)])
      { name := i.name, comment := i.comment, descr := i.descr, linkType := i.linkType, snaplen := i.snaplen }
      = some { name := i.name, comment := i.comment, descr := i.descr, filter := i.filter, linkType := i.linkType, snaplen := i.snaplen } := by
    cases hf : i.filter with
    | nil => simp [optsFold]
    | cons a t =>
      simp [optsFold, idbStep, ngOptionCodeComment, ngOptionCodeInterfaceName, ngOptionCodeInterfaceDescription,
        ngOptionCodeInterfaceFilter]
  rw [hfilter]
  simp only [Option.bind_some]
  rw [fold_strOpt idbStep _ i.os _ { name := i.name, comment := i.comment, descr := i.descr, filter := i.filter, os := i.os, linkType := i.linkType, snaplen := i.snaplen }
    (by simp [idbStep, ngOptionCodeComment, ngOptionCodeInterfaceName, ngOptionCodeInterfaceDescription,
        ngOptionCodeInterfaceFilter, ngOptionCodeInterfaceOS]) (by intro h; cases i; simp_all)]
  simp only [Option.bind_some]
  have htsoff : optsFold idbStep (if i.tsoff = 0 then [] else [(ngOptionCodeInterfaceTimestampOffset, putLe64 i.tsoff)])
      { name := i.name, comment := i.comment, descr := i.descr, filter := i.filter, os := i.os, linkType := i.linkType, snaplen := i.snaplen }
      = some { name := i.name, comment := i.comment, descr := i.descr, filter := i.filter, os := i.os, tsoff := i.tsoff, linkType := i.linkType, snaplen := i.snaplen } := by
    by_cases h0 : i.tsoff = 0
    · simp [optsFold, h0]
    · have e8 : (putLe64 i.tsoff).take 8 = putLe64 i.tsoff := rfl
      simp [optsFold, h0, idbStep, ngOptionCodeComment, ngOptionCodeInterfaceName, ngOptionCodeInterfaceDescription,
        ngOptionCodeInterfaceFilter, ngOptionCodeInterfaceOS, ngOptionCodeInterfaceTimestampOffset, length_putLe64, e8,
        getU_le64, Nat.mod_eq_of_lt hoff]
  rw [htsoff]
  simp only [Option.bind_some]
  simp [optsFold, idbStep, ngOptionCodeComment, ngOptionCodeInterfaceName, ngOptionCodeInterfaceDescription,
    ngOptionCodeInterfaceFilter, ngOptionCodeInterfaceOS, ngOptionCodeInterfaceTimestampOffset,
    ngOptionCodeInterfaceTimestampResolution, ifaceRaw, leNat]

/-- well-formed interface description: strings fit a 16 bit option length, numbers fit their fields -/
structure WfIface (i : IfaceSpec) : Prop where
  name : i.name.length < 65536
  comment : i.comment.length < 65536
  descr : i.descr.length < 65536
  filter : i.filter.length < 65535
  os : i.os.length < 65536
  linkType : i.linkType < 65536
  tsoff : i.tsoff < 18446744073709551616
  snaplen : i.snaplen < 4294967296

theorem idb_valid (i : IfaceSpec) (h : WfIface i) : ∀ o ∈ idbOptList i, OptValid o := by
  intro o ho
  unfold idbOptList at ho
  simp only [List.mem_append] at ho
  rcases ho with (((((ho | ho) | ho) | ho) | ho) | ho) | ho
  · exact valid_strOpt _ _ (by decide) (by decide) h.name o ho
  · exact valid_strOpt _ _ (by decide) (by decide) h.comment o ho
  · exact valid_strOpt _ _ (by decide) (by decide) h.descr o ho
  · split at ho
    · cases ho
    · simp only [List.mem_singleton] at ho
      subst ho
      exact optValid_mk _ _ (by decide) (by decide) (by have := h.filter; simp only [List.length_cons]; omega)
  · exact valid_strOpt _ _ (by decide) (by decide) h.os o ho
  · split at ho
    · cases ho
    · simp only [List.mem_singleton] at ho
      subst ho
      exact optValid_mk _ _ (by decide) (by decide) (len64_lt _)
  · simp only [List.mem_singleton] at ho
    subst ho
    exact optValid_mk _ _ (by decide) (by decide) (by decide)

/-! ### enhanced packet options -/

def pktStep (c : Nat) (v : Bytes) (x : PktOpts) : Option PktOpts :=
  if c = ngOptionCodeComment then some { x with comments := x.comments ++ [v] }
  else if c = ngOptionCodeEpbFlags then
    if v.length < 4 then none else some { x with flags := some (flagsOfU32 (leNat (v.take 4))) }
  else if c = ngOptionCodeEpbHash then
    if v.length < 1 then none else some { x with hashes := x.hashes ++ [(leNat (v.take 1), v.drop 1)] }
  else if c = ngOptionCodeEpbDropCount then
    if v.length < 8 then none else some { x with dropCount := some (leNat (v.take 8)) }
  else if c = ngOptionCodeEpbPacketID then
    if v.length < 8 then none else some { x with packetId := some (leNat (v.take 8)) }
  else if c = ngOptionCodeEpbQueue then
    if v.length < 4 then none else some { x with queue := some (leNat (v.take 4)) }
  else if c = ngOptionCodeEpbVerdict then
    if v.length < 1 then none else some { x with verdicts := x.verdicts ++ [(leNat (v.take 1), v.drop 1)] }
  else some x

theorem pkt_keep (c : Nat) (v : Bytes) (s : S) :
    (pktHandle c v s).2.keep = s.keep ∧ (pktHandle c v s).2.blkLen = s.blkLen := by
  unfold pktHandle
  repeat' split
  all_goals exact ⟨rfl, rfl⟩

theorem pkt_step (c : Nat) (v : Bytes) (s : S) (x' : PktOpts) (_ : s.be = false)
    (h : pktStep c v s.curOpts = some x') : ∃ s', pktHandle c v s = (.ok (), s') ∧ s'.curOpts = x' := by
  unfold pktStep at h
  unfold pktHandle
  repeat' split at h
  all_goals first
    | (simp only [Option.some.injEq] at h; subst h
       first
        | (simp [*]; done)
        | (simp [*, ngOptionCodeComment, ngOptionCodeInterfaceName, ngOptionCodeInterfaceDescription, ngOptionCodeInterfaceFilter,
             ngOptionCodeInterfaceOS, ngOptionCodeInterfaceTimestampOffset, ngOptionCodeInterfaceTimestampResolution,
             ngOptionCodeEpbFlags, ngOptionCodeEpbHash, ngOptionCodeEpbDropCount, ngOptionCodeEpbPacketID, ngOptionCodeEpbQueue,
             ngOptionCodeEpbVerdict]; done))
    | cases h

/-- what the masks of NgEpbFlags keep of the four fields -/
def normFlags (f : Flags) : Flags :=
  { dir := f.dir % 4, rcv := f.rcv / 4 % 8 * 4, fcs := f.fcs / 32 % 32 * 32, lle := f.lle / 65536 % 65536 * 65536 }

/-- packet options as they read back: numbers reduced to the width of their Go types -/
def normOpts (o : PktOpts) : PktOpts :=
  { comments := o.comments,
    flags := o.flags.map normFlags,
    hashes := o.hashes.map (fun h => (h.1 % 256, h.2)),
    dropCount := o.dropCount.map (· % 18446744073709551616),
    packetId := o.packetId.map (· % 18446744073709551616),
    queue := o.queue.map (· % 4294967296),
    verdicts := o.verdicts.map (fun h => (h.1 % 256, h.2)) }

theorem flags_roundtrip (f : Flags) : flagsOfU32 (leNat ((putLe32 (flagsToU32 f)).take 4)) = normFlags f := by
  have e : (putLe32 (flagsToU32 f)).take 4 = putLe32 (flagsToU32 f) := rfl
  rw [e, leNat_putLe32]
  simp only [flagsOfU32, flagsToU32, normFlags, Flags.mk.injEq]
  refine ⟨?_, ?_, ?_, ?_⟩ <;> omega

theorem fold_comments (cs : List Bytes) : ∀ x : PktOpts,
    optsFold pktStep (cs.map (fun c => (ngOptionCodeComment, c))) x = some { x with comments := x.comments ++ cs } := by
  induction cs with
  | nil => intro x; simp [optsFold]
  | cons c cs ih =>
    intro x
    simp only [List.map_cons, optsFold, pktStep, if_true]
    rw [ih]
    simp [List.append_assoc]

theorem fold_hashes (hs : List (Nat × Bytes)) : ∀ x : PktOpts,
    optsFold pktStep (hs.map (fun h => (ngOptionCodeEpbHash, u8 h.1 :: h.2))) x
      = some { x with hashes := x.hashes ++ hs.map (fun h => (h.1 % 256, h.2)) } := by
  induction hs with
  | nil => intro x; simp [optsFold]
  | cons h hs ih =>
    intro x
    have e1 : (u8 h.1 :: h.2).take 1 = [u8 h.1] := rfl
    have e2 : (u8 h.1 :: h.2).drop 1 = h.2 := rfl
    simp only [List.map_cons, optsFold, pktStep, ngOptionCodeEpbHash, ngOptionCodeComment, ngOptionCodeEpbFlags]
    simp only [show ¬ (3 = 1) by decide, show ¬ (3 = 2) by decide, if_false, if_true, List.length_cons,
      show ¬ (h.2.length + 1 < 1) by omega, e1, e2, leNat_u8]
    have := ih { x with hashes := x.hashes ++ [(h.1 % 256, h.2)] }
    simp only [ngOptionCodeEpbHash] at this
    rw [this]
    simp [List.append_assoc]

theorem fold_verdicts (hs : List (Nat × Bytes)) : ∀ x : PktOpts,
    optsFold pktStep (hs.map (fun h => (ngOptionCodeEpbVerdict, u8 h.1 :: h.2))) x
      = some { x with verdicts := x.verdicts ++ hs.map (fun h => (h.1 % 256, h.2)) } := by
  induction hs with
  | nil => intro x; simp [optsFold]
  | cons h hs ih =>
    intro x
    have e1 : (u8 h.1 :: h.2).take 1 = [u8 h.1] := rfl
    have e2 : (u8 h.1 :: h.2).drop 1 = h.2 := rfl
    simp only [List.map_cons, optsFold, pktStep, ngOptionCodeEpbVerdict, ngOptionCodeEpbHash, ngOptionCodeComment,
      ngOptionCodeEpbFlags, ngOptionCodeEpbDropCount, ngOptionCodeEpbPacketID, ngOptionCodeEpbQueue]
    simp only [show ¬ (7 = 1) by decide, show ¬ (7 = 2) by decide, show ¬ (7 = 3) by decide, show ¬ (7 = 4) by decide,
      show ¬ (7 = 5) by decide, show ¬ (7 = 6) by decide, if_false, if_true, List.length_cons,
      show ¬ (h.2.length + 1 < 1) by omega, e1, e2, leNat_u8]
    have := ih { x with verdicts := x.verdicts ++ [(h.1 % 256, h.2)] }
    simp only [ngOptionCodeEpbVerdict] at this
    rw [this]
    simp [List.append_assoc]

theorem fold_optFlags (f : Option Flags) (x : PktOpts) :
    optsFold pktStep (optFlags f) x = some (match f with | some f => { x with flags := some (normFlags f) } | none => x) := by
  cases f with
  | none => rfl
  | some f =>
    simp only [optFlags, optsFold, pktStep, ngOptionCodeEpbFlags, ngOptionCodeComment, show ¬ (2 = 1) by decide, if_false, if_true,
      length_putLe32, show ¬ (4 < 4) by decide, flags_roundtrip]

theorem fold_dropCount (v : Option Nat) (x : PktOpts) :
    optsFold pktStep (optU64 ngOptionCodeEpbDropCount v) x
      = some (match v with | some v => { x with dropCount := some (v % 18446744073709551616) } | none => x) := by
  cases v with
  | none => rfl
  | some v =>
    have e : (putLe64 v).take 8 = putLe64 v := rfl
    simp only [optU64, optsFold, pktStep, ngOptionCodeEpbDropCount, ngOptionCodeEpbHash, ngOptionCodeEpbFlags, ngOptionCodeComment,
      show ¬ (4 = 1) by decide, show ¬ (4 = 2) by decide, show ¬ (4 = 3) by decide, if_false, if_true,
      length_putLe64, show ¬ (8 < 8) by decide, e, leNat_putLe64]

theorem fold_packetId (v : Option Nat) (x : PktOpts) :
    optsFold pktStep (optU64 ngOptionCodeEpbPacketID v) x
      = some (match v with | some v => { x with packetId := some (v % 18446744073709551616) } | none => x) := by
  cases v with
  | none => rfl
  | some v =>
    have e : (putLe64 v).take 8 = putLe64 v := rfl
    simp only [optU64, optsFold, pktStep, ngOptionCodeEpbPacketID, ngOptionCodeEpbDropCount, ngOptionCodeEpbHash, ngOptionCodeEpbFlags,
      ngOptionCodeComment, show ¬ (5 = 1) by decide, show ¬ (5 = 2) by decide, show ¬ (5 = 3) by decide,
      show ¬ (5 = 4) by decide, if_false, if_true, length_putLe64, show ¬ (8 < 8) by decide, e, leNat_putLe64]

theorem fold_queue (v : Option Nat) (x : PktOpts) :
    optsFold pktStep (optU32 ngOptionCodeEpbQueue v) x
      = some (match v with | some v => { x with queue := some (v % 4294967296) } | none => x) := by
  cases v with
  | none => rfl
  | some v =>
    have e : (putLe32 v).take 4 = putLe32 v := rfl
    simp only [optU32, optsFold, pktStep, ngOptionCodeEpbQueue, ngOptionCodeEpbPacketID, ngOptionCodeEpbDropCount, ngOptionCodeEpbHash,
      ngOptionCodeEpbFlags, ngOptionCodeComment, show ¬ (6 = 1) by decide, show ¬ (6 = 2) by decide,
      show ¬ (6 = 3) by decide, show ¬ (6 = 4) by decide, show ¬ (6 = 5) by decide, if_false, if_true,
      length_putLe32, show ¬ (4 < 4) by decide, e, leNat_putLe32]

theorem pkt_fold (o : PktOpts) : optsFold pktStep (pktOptList o) {} = some (normOpts o) := by
  unfold pktOptList
  rw [optsFold_append, optsFold_append, optsFold_append, optsFold_append, optsFold_append, optsFold_append]
  rw [fold_comments]
  simp only [Option.bind_some, List.nil_append]
  rw [fold_optFlags]
  simp only [Option.bind_some]
  rw [fold_hashes]
  simp only [Option.bind_some]
  rw [fold_dropCount]
  simp only [Option.bind_some]
  rw [fold_packetId]
  simp only [Option.bind_some]
  rw [fold_queue]
  simp only [Option.bind_some]
  rw [fold_verdicts]
  simp only [normOpts, Option.some.injEq]
  cases o with
  | mk comments flags hashes dropCount packetId queue verdicts =>
    cases flags <;> cases dropCount <;> cases packetId <;> cases queue <;> simp

/-- well-formed packet options: every option value fits a 16 bit length -/
structure WfOpts (o : PktOpts) : Prop where
  comments : ∀ c ∈ o.comments, c.length < 65536
  hashes : ∀ h ∈ o.hashes, h.2.length < 65535
  verdicts : ∀ h ∈ o.verdicts, h.2.length < 65535

theorem valid_optU64 (code : Nat) (v : Option Nat) (h0 : code ≠ ngOptionCodeEndOfOptions) (h1 : code < 65536) :
    ∀ x ∈ optU64 code v, OptValid x := by
  intro x hx
  cases v with
  | none => cases hx
  | some v =>
    simp only [optU64, List.mem_singleton] at hx
    subst hx
    exact ⟨h0, h1, len64_lt _⟩

theorem valid_optU32 (code : Nat) (v : Option Nat) (h0 : code ≠ ngOptionCodeEndOfOptions) (h1 : code < 65536) :
    ∀ x ∈ optU32 code v, OptValid x := by
  intro x hx
  cases v with
  | none => cases hx
  | some v =>
    simp only [optU32, List.mem_singleton] at hx
    subst hx
    exact ⟨h0, h1, len32_lt _⟩

theorem valid_optFlags (f : Option Flags) : ∀ x ∈ optFlags f, OptValid x := by
  intro x hx
  cases f with
  | none => cases hx
  | some f =>
    simp only [optFlags, List.mem_singleton] at hx
    subst hx
    exact optValid_mk _ _ (by decide) (by decide) (len32_lt _)

theorem pkt_valid (o : PktOpts) (h : WfOpts o) : ∀ x ∈ pktOptList o, OptValid x := by
  intro x hx
  unfold pktOptList at hx
  simp only [List.mem_append, List.mem_map] at hx
  rcases hx with (((((hx | hx) | hx) | hx) | hx) | hx) | hx
  · obtain ⟨c, hc, rfl⟩ := hx
    exact optValid_mk _ _ (by decide) (by decide) (h.comments c hc)
  · exact valid_optFlags _ x hx
  · obtain ⟨c, hc, rfl⟩ := hx
    exact optValid_mk _ _ (by decide) (by decide) (by have := h.hashes c hc; simp only [List.length_cons]; omega)
  · exact valid_optU64 _ _ (by decide) (by decide) x hx
  · exact valid_optU64 _ _ (by decide) (by decide) x hx
  · exact valid_optU32 _ _ (by decide) (by decide) x hx
  · obtain ⟨c, hc, rfl⟩ := hx
    exact optValid_mk _ _ (by decide) (by decide) (by have := h.verdicts c hc; simp only [List.length_cons]; omega)

end Gp.PcapNg
