import Gp.Lemmas.PcapNgProg
import Gp.Model.PcapNgMem
/-
  Allocation bounds of the pcapng reader (C15): every allocation request derived from the memory
  events of a call (Gp/Model/PcapNgMem.lean) is bounded by twice the bytes that were present in
  the stream plus the constant `ngMaxPrealloc`, whatever the length fields of the file declare.
-/
namespace Gp.PcapNg
open Gp.Gen.PcapNg

/-- the bound: proportional to the bytes present, plus the constant ngMaxPrealloc
    (which also caps the snap-length driven pre-allocation of the zero-copy call) -/
def allocBound (avail : Nat) : Nat := 2 * avail + ngMaxPrealloc

theorem growLoop_allocs (n : Nat) (got : Bytes) :
    ∀ (fuel : Nat) (buf : Bytes) (hv : Nat) (al : List Nat), hv ≤ buf.length → hv ≤ got.length →
      ∀ a ∈ (growLoop n got fuel buf hv al).2.2, a ∈ al ∨ a ≤ 2 * got.length := by
  intro fuel
  induction fuel with
  | zero => intro buf hv al _ _ a ha; exact Or.inl ha
  | succ f ih =>
    intro buf hv al hle hle2 a ha
    simp only [growLoop] at ha
    split at ha
    · exact Or.inl ha
    · rename_i hfull
      have hchunk : ((got.drop hv).take (buf.length - hv)).length = buf.length - hv := by
        have h1 : ((got.drop hv).take (buf.length - hv)).length ≤ buf.length - hv := by
          rw [List.length_take]; exact Nat.min_le_left _ _
        omega
      have hgot : buf.length ≤ got.length := by
        rw [List.length_take, List.length_drop] at hchunk
        omega
      have hlen : (buf.take hv ++ (got.drop hv).take (buf.length - hv)
            ++ buf.drop (hv + ((got.drop hv).take (buf.length - hv)).length)).length = buf.length := by
        rw [List.length_append, List.length_append, hchunk, List.length_take, List.length_drop, Nat.min_eq_left hle]
        omega
      split at ha
      · exact Or.inl ha
      · rw [hlen] at ha
        have := ih _ _ _ (by rw [List.length_append, hlen]; omega) hgot a ha
        rcases this with h | h
        · rcases List.mem_append.mp h with h | h
          · exact Or.inl h
          · right
            simp only [List.mem_singleton] at h
            subst h
            split <;> omega
        · exact Or.inr h

theorem readDataMem_allocs (buf : Option Bytes) (n : Nat) (got : Bytes) :
    ∀ a ∈ (readDataMem buf n got).2.2, a ≤ ngMaxPrealloc ∨ a ≤ 2 * got.length := by
  have hgrow : ∀ a ∈ (growLoop n got (n + 1) (zerosM (if n > ngMaxPrealloc then ngMaxPrealloc else n)) 0
        [if n > ngMaxPrealloc then ngMaxPrealloc else n]).2.2, a ≤ ngMaxPrealloc ∨ a ≤ 2 * got.length := by
    intro a ha
    rcases growLoop_allocs n got _ _ 0 _ (Nat.zero_le _) (Nat.zero_le _) a ha with h | h
    · left
      simp only [List.mem_singleton] at h
      subst h
      split <;> omega
    · exact Or.inr h
  intro a ha
  unfold readDataMem at ha
  split at ha
  · split at ha
    · cases ha
    · exact hgrow a ha
  · exact hgrow a ha

theorem max_prealloc_ge : 65536 ≤ ngMaxPrealloc := by decide

theorem memStep_allocs (zero : Bool) (m : Mem) (e : MemEv) (avail : Nat) (he : EvOK avail e) :
    ∀ a ∈ (memStep zero m e).allocs, a ≤ allocBound avail := by
  intro a ha
  have hmp := max_prealloc_ge
  unfold allocBound
  cases e with
  | opt len =>
    simp only [EvOK] at he
    simp only [memStep] at ha
    split at ha
    · cases ha
    · simp only [List.mem_singleton] at ha; omega
  | name len =>
    simp only [EvOK] at he
    simp only [memStep, List.mem_singleton] at ha
    omega
  | dsb n got =>
    simp only [EvOK] at he
    simp only [memStep] at ha
    rcases readDataMem_allocs none n got a ha with h | h <;> omega
  | data n got snap =>
    simp only [EvOK] at he
    cases zero with
    | false =>
      simp only [memStep, Bool.false_eq_true, if_false] at ha
      rcases readDataMem_allocs none n got a ha with h | h <;> omega
    | true =>
      simp only [memStep, if_true, List.mem_append] at ha
      rcases ha with h | h
      · unfold preallocZ at h
        split at h
        · simp only [List.mem_singleton] at h
          omega
        · cases h
      · rcases readDataMem_allocs _ n got a h with h | h <;> omega

theorem memRun_allocs (zero : Bool) (avail : Nat) :
    ∀ (evs : List MemEv) (m : Mem), (∀ e ∈ evs, EvOK avail e) → ∀ a ∈ (memRun zero m evs).2, a ≤ allocBound avail := by
  intro evs
  induction evs with
  | nil => intro m _ a ha; cases ha
  | cons e es ih =>
    intro m hev a ha
    simp only [memRun, List.mem_append] at ha
    rcases ha with h | h
    · exact memStep_allocs zero m e avail (hev e (by simp)) a h
    · exact ih _ (fun e' he' => hev e' (by simp [he'])) a h

/-! ### where the data bytes live: the copying and the zero-copy call hand the same bytes to the caller -/

theorem take_add_drop (l : Bytes) (a b : Nat) : l.take a ++ (l.drop a).take b = l.take (a + b) := by
  rw [List.take_add]

theorem growLoop_full (n : Nat) (got : Bytes) (hg : got.length = n) :
    ∀ (fuel : Nat) (buf : Bytes) (hv : Nat) (al : List Nat), hv ≤ buf.length → buf.length ≤ n →
      (1 ≤ buf.length ∨ n = 0) → buf.take hv = got.take hv → n - buf.length < fuel →
      (growLoop n got fuel buf hv al).2.1 = true ∧ (growLoop n got fuel buf hv al).1.take n = got := by
  intro fuel
  induction fuel with
  | zero => intro buf hv al _ _ _ _ h; omega
  | succ f ih =>
    intro buf hv al hle hbn h1 htk hf
    have hchunk : ((got.drop hv).take (buf.length - hv)).length = buf.length - hv := by
      rw [List.length_take, List.length_drop]; omega
    have hbuf' : buf.take hv ++ (got.drop hv).take (buf.length - hv)
          ++ buf.drop (hv + ((got.drop hv).take (buf.length - hv)).length) = got.take buf.length := by
      rw [hchunk, htk, show hv + (buf.length - hv) = buf.length by omega, List.drop_length, List.append_nil,
        take_add_drop, show hv + (buf.length - hv) = buf.length by omega]
    have hlen' : (got.take buf.length).length = buf.length := by rw [List.length_take]; omega
    simp only [growLoop]
    rw [if_neg (by rw [hchunk]; omega), hbuf', hlen']
    by_cases hn : buf.length = n
    · rw [if_pos hn]
      refine ⟨rfl, ?_⟩
      rw [hn, List.take_take, Nat.min_self, ← hg, List.take_length]
    · rw [if_neg hn]
      have hL : 1 ≤ buf.length := by
        rcases h1 with h | h
        · exact h
        · omega
      refine ih _ _ _ ?_ ?_ ?_ ?_ ?_
      · rw [List.length_append, hlen']; omega
      · rw [List.length_append, hlen']; simp only [zerosM, List.length_replicate]; split <;> omega
      · left; rw [List.length_append, hlen']; omega
      · rw [List.take_left' hlen']
      · rw [List.length_append, hlen']; simp only [zerosM, List.length_replicate]; split <;> omega

theorem readDataMem_full (buf : Option Bytes) (n : Nat) (got : Bytes) (hg : got.length = n) :
    (readDataMem buf n got).2.1 = true ∧ (readDataMem buf n got).1.take n = got := by
  have hgrow : (growLoop n got (n + 1) (zerosM (if n > ngMaxPrealloc then ngMaxPrealloc else n)) 0
        [if n > ngMaxPrealloc then ngMaxPrealloc else n]).2.1 = true ∧
      (growLoop n got (n + 1) (zerosM (if n > ngMaxPrealloc then ngMaxPrealloc else n)) 0
        [if n > ngMaxPrealloc then ngMaxPrealloc else n]).1.take n = got := by
    have hmp : 1 ≤ ngMaxPrealloc := by decide
    refine growLoop_full n got hg _ _ 0 _ (Nat.zero_le _) ?_ ?_ (by simp) ?_
    · simp only [zerosM, List.length_replicate]; split <;> omega
    · simp only [zerosM, List.length_replicate]; split <;> omega
    · omega
  unfold readDataMem
  split
  · split
    · rename_i b hb
      have htk : got.take n = got := by rw [← hg, List.take_length]
      refine ⟨by simp [htk, hg], ?_⟩
      rw [htk, List.take_left' hg]
    · exact hgrow
  · exact hgrow

/-- the data slice handed to the caller holds exactly the bytes the stream delivered — for the copying call and for
    the zero-copy call, whatever the reused buffer contained -/
theorem memStep_view (zero : Bool) (m : Mem) (n : Nat) (got : Bytes) (snap : Nat) (hg : got.length = n) :
    (memStep zero m (.data n got snap)).view = some got := by
  cases zero with
  | false =>
    have h := readDataMem_full none n got hg
    simp only [memStep, Bool.false_eq_true, if_false, h.1, if_true, h.2]
  | true =>
    have h := readDataMem_full (preallocZ m n snap).1 n got hg
    simp only [memStep, if_true, h.1, h.2]

/-- the zero-copy call allocates nothing when its buffer is large enough -/
theorem memStep_zero_reuse (m : Mem) (b : Bytes) (n : Nat) (got : Bytes) (snap : Nat) (hb : m.pbuf = some b)
    (h : n ≤ b.length) : (memStep true m (.data n got snap)).allocs = [] := by
  have hpc : m.pcap = b.length := by unfold Mem.pcap; rw [hb]
  have hp : preallocZ m n snap = (m.pbuf, []) := by
    unfold preallocZ; rw [if_neg (by omega)]
  simp only [memStep, if_true, hp, List.nil_append, hb]
  unfold readDataMem
  simp only
  rw [if_pos h]

end Gp.PcapNg
