/-
  C11: FlushAll empties the pool; with page limits configured (fixed code: the limit loop of
  insertIntoConn) every connection stays below MaxBufferedPagesPerConnection and the page cache below
  MaxBufferedPagesTotal after every step.  Any sequence arithmetic.
-/
import Gp.Lemmas.AsmAcct

namespace Gp.Asm

/-! ### FlushAll closes every connection -/

theorem send_pages_le (A : SeqArith) (c : Conn) (used : Int) (r0 : Reasm) (rs : List Reasm) :
    (send A c used r0 rs).conn.pages.length ≤ c.pages.length := by
  rw [send_pages']
  have := addContiguous_length A c.nextSeq c.pages
  omega

theorem skipFlush_pages_lt (A : SeqArith) (c : Conn) (used : Int) (h : (skipFlush A c used).closed = false) :
    (skipFlush A c used).conn.pages.length < c.pages.length := by
  unfold skipFlush at h ⊢
  split
  · rename_i hp; rw [hp] at h; simp at h
  · rename_i p ps hp
    dsimp only
    have := send_pages_le A { c with nextSeq := (popPage A c.nextSeq p).2, pages := ps, npages := c.npages - 1 }
      (used - 1) (popPage A c.nextSeq p).1 []
    dsimp only at this
    rw [hp]; simp only [List.length_cons]; omega

theorem flushAllLoop_closed (A : SeqArith) (fuel : Nat) (c : Conn) (used : Int) (calls : List (List Reasm))
    (h : c.pages.length < fuel) : (flushAllLoop A fuel c used calls).closed = true := by
  induction fuel generalizing c used calls with
  | zero => omega
  | succ f ih =>
    simp only [flushAllLoop]
    split
    · rename_i hc; exact hc
    · rename_i hc
      have hc' : (skipFlush A c used).closed = false := by simpa using hc
      have := skipFlush_pages_lt A c used hc'
      exact ih _ _ _ (by omega)

theorem flushAllConn_closed (A : SeqArith) (c : Conn) (used : Int) : (flushAllConn A c used).closed = true :=
  flushAllLoop_closed A _ c used [] (Nat.lt_succ_self _)

theorem flushAllList_conns (A : SeqArith) (cs : List (Nat × Conn)) (acc : FlushRes)
    (he : acc.pool.conns = cs) : (flushAllList A cs acc).pool.conns = [] := by
  induction cs generalizing acc with
  | nil => exact he
  | cons x cs ih =>
    obtain ⟨k, c⟩ := x
    simp only [flushAllList]
    apply ih
    show (putBack acc.pool k (flushAllConn A c acc.pool.used)).conns = cs
    unfold putBack
    rw [if_pos (flushAllConn_closed A c acc.pool.used)]
    show remove k acc.pool.conns = cs
    rw [he]
    simp [remove]

theorem flushAll_conns (A : SeqArith) (P : Pool) : (flushAll A P).pool.conns = [] :=
  flushAllList_conns A P.conns _ rfl

theorem flushAllList_closedCount (A : SeqArith) (cs : List (Nat × Conn)) (acc : FlushRes) :
    (flushAllList A cs acc).closed = acc.closed + cs.length := by
  induction cs generalizing acc with
  | nil => rfl
  | cons x cs ih =>
    obtain ⟨k, c⟩ := x
    simp only [flushAllList, List.length_cons]
    rw [ih]; dsimp only; omega

/-! ### monotonicity: releasing pages never increases the counters -/

theorem send_npages_le (A : SeqArith) (c : Conn) (used : Int) (r0 : Reasm) (rs : List Reasm) :
    (send A c used r0 rs).conn.npages ≤ c.npages := by
  unfold send; dsimp only
  split <;> (dsimp only; omega)

/-- a step that only releases pages: the page counter does not grow -/
def Shrinks (c : Conn) (st : Step) : Prop := st.conn.npages ≤ c.npages

theorem skipFlush_shrinks (A : SeqArith) (c : Conn) (used : Int) : Shrinks c (skipFlush A c used) := by
  unfold skipFlush Shrinks
  split
  · exact Int.le_refl _
  · rename_i p ps hp
    dsimp only
    have := send_npages_le A { c with nextSeq := (popPage A c.nextSeq p).2, pages := ps, npages := c.npages - 1 }
      (used - 1) (popPage A c.nextSeq p).1 []
    dsimp only at this
    omega

theorem flushLoop_shrinks (A : SeqArith) (T : Int) (fuel : Nat) (c : Conn) (used : Int)
    (calls : List (List Reasm)) (fl : Bool) : Shrinks c (flushLoop A T fuel c used calls fl).1 := by
  induction fuel generalizing c used calls fl with
  | zero => exact Int.le_refl _
  | succ f ih =>
    simp only [flushLoop]
    split
    · exact Int.le_refl _
    · split
      · have hs := skipFlush_shrinks A c used
        split
        · exact hs
        · have := ih (skipFlush A c used).conn (skipFlush A c used).used (calls ++ (skipFlush A c used).calls) true
          unfold Shrinks at *; omega
      · exact Int.le_refl _

theorem flushConn_shrinks (A : SeqArith) (T : Int) (ca : Bool) (c : Conn) (used : Int) :
    Shrinks c (flushConn A T ca c used).1 := by
  unfold flushConn; dsimp only
  split <;> exact flushLoop_shrinks A T _ c used _ _

theorem flushAllLoop_shrinks (A : SeqArith) (fuel : Nat) (c : Conn) (used : Int)
    (calls : List (List Reasm)) : Shrinks c (flushAllLoop A fuel c used calls) := by
  induction fuel generalizing c used calls with
  | zero => exact Int.le_refl _
  | succ f ih =>
    simp only [flushAllLoop]
    have hs := skipFlush_shrinks A c used
    split
    · exact hs
    · have := ih (skipFlush A c used).conn (skipFlush A c used).used (calls ++ (skipFlush A c used).calls)
      unfold Shrinks at *; omega

/-- from the accounting law: if the page counter did not grow, `used` did not grow either -/
theorem used_le_of_law (c : Conn) (used : Int) (st : Step) (ha : Acct c) (hl : DeltaLaw c used st)
    (hs : Shrinks c st) : st.used ≤ used := by
  obtain ⟨_, l2, l3⟩ := hl
  unfold Acct at ha
  unfold Shrinks at hs
  cases hc : st.closed with
  | false => have := l2 hc; omega
  | true => have := l3 hc; omega

/-! ### the limit loop -/

theorem limitPops_post (A : SeqArith) (L : Lim) (n : Int) (ps : List Page) (np used : Int) :
    (limitPops A L n ps np used).rest = [] ∨
      limitHit L (np - (limitPops A L n ps np used).items.length)
        (used - (limitPops A L n ps np used).items.length) = false := by
  induction ps generalizing n np used with
  | nil => left; rfl
  | cons p ps ih =>
    simp only [limitPops]
    split
    · rcases ih (popPage A n p).2 (np - 1) (used - 1) with h | h
      · left; exact h
      · right
        simp only [List.length_cons]
        have e1 : np - ((((limitPops A L (popPage A n p).2 ps (np - 1) (used - 1)).items.length + 1 : Nat)) : Int)
            = np - 1 - ((limitPops A L (popPage A n p).2 ps (np - 1) (used - 1)).items.length : Int) := by omega
        have e2 : used - ((((limitPops A L (popPage A n p).2 ps (np - 1) (used - 1)).items.length + 1 : Nat)) : Int)
            = used - 1 - ((limitPops A L (popPage A n p).2 ps (np - 1) (used - 1)).items.length : Int) := by omega
        rw [e1, e2]; exact h
    · rename_i hh
      right
      simp only [List.length_nil]
      simpa using hh

theorem limitHit_false (L : Lim) (np used : Int) (h : limitHit L np used = false) :
    (L.maxPer > 0 → np < L.maxPer) ∧ (L.maxTot > 0 → used < L.maxTot) := by
  unfold limitHit at h
  simp only [Bool.or_eq_false_iff, Bool.and_eq_false_iff, decide_eq_false_iff_not] at h
  constructor
  · intro hp; rcases h.1 with h1 | h1 <;> omega
  · intro hp; rcases h.2 with h1 | h1 <;> omega

/-- bounds on the counters of one connection / the cache -/
def Bounded (L : Lim) (np used : Int) : Prop :=
  (L.maxPer > 0 → np < L.maxPer) ∧ (L.maxTot > 0 → used < L.maxTot)

theorem insertIntoConn_bound (A : SeqArith) (L : Lim) (c : Conn) (used seq : Int) (b : Bytes) (fin : Bool)
    (ts : Int) (st : Step) (ha : Acct c) (hb : Bounded L c.npages used)
    (hst : insertIntoConn A L c used seq b fin ts = .ok st) : Bounded L st.conn.npages st.used := by
  have hlaw := insertIntoConn_law A L c used seq b fin ts st ha hst
  unfold insertIntoConn at hst
  split at hst
  · cases hst
  · dsimp only at hst
    have hlen := limitPops_length A L c.nextSeq (insertPages A seq (pagesFromTCP A seq b fin ts) c.pages)
      (c.npages + ((pagesFromTCP A seq b fin ts).length : Int)) (used + ((pagesFromTCP A seq b fin ts).length : Int))
    have hpost := limitPops_post A L c.nextSeq (insertPages A seq (pagesFromTCP A seq b fin ts) c.pages)
      (c.npages + ((pagesFromTCP A seq b fin ts).length : Int)) (used + ((pagesFromTCP A seq b fin ts).length : Int))
    rw [length_insertPages] at hlen
    unfold Acct at ha
    generalize (pagesFromTCP A seq b fin ts) = new at hst hlen hpost
    generalize limitPops A L c.nextSeq (insertPages A seq new c.pages)
      (c.npages + (new.length : Int)) (used + (new.length : Int)) = R at hst hlen hpost
    -- bounds right after the limit loop
    have hmid : Bounded L (c.npages + (new.length : Int) - (R.items.length : Int))
        (used + (new.length : Int) - (R.items.length : Int)) := by
      rcases hpost with hp | hp
      · rw [hp] at hlen
        simp only [List.length_nil] at hlen
        obtain ⟨b1, b2⟩ := hb
        constructor
        · intro h; omega
        · intro h; have := b2 h; omega
      · exact limitHit_false L _ _ hp
    split at hst
    · cases hst; exact hmid
    · rename_i r0 rs hcons
      cases hst
      have hacc : Acct (⟨R.next, R.rest, c.npages + (new.length : Int) - (R.items.length : Int), c.lastSeen, c.sid⟩ : Conn) := by
        unfold Acct; dsimp only; omega
      have hsl := send_law A _ (used + (new.length : Int) - (R.items.length : Int)) r0 rs hacc
      have hsn := send_npages_le A (⟨R.next, R.rest, c.npages + (new.length : Int) - (R.items.length : Int), c.lastSeen, c.sid⟩ : Conn)
        (used + (new.length : Int) - (R.items.length : Int)) r0 rs
      have hsu := used_le_of_law _ _ _ hacc hsl hsn
      dsimp only at hsn
      obtain ⟨m1, m2⟩ := hmid
      constructor
      · intro h; have := m1 h; omega
      · intro h; have := m2 h; omega

theorem assembleConn_bound (A : SeqArith) (L : Lim) (c : Conn) (used : Int) (s : Seg) (st : Step)
    (ha : Acct c) (hb : Bounded L c.npages used) (hst : assembleConn A L c used s = .ok st) :
    Bounded L st.conn.npages st.used := by
  have hlaw := assembleConn_law A L c used s st ha hst
  unfold assembleConn at hst
  dsimp only at hst
  generalize hcc : (if c.lastSeen < s.ts then { c with lastSeen := s.ts } else c) = c1 at hst
  have h2 : c1.pages = c.pages := by rw [← hcc]; split <;> rfl
  have h3 : c1.npages = c.npages := by rw [← hcc]; split <;> rfl
  have ha1 : Acct c1 := by unfold Acct; rw [h2, h3]; exact ha
  have hb1 : Bounded L c1.npages used := by rw [h3]; exact hb
  have hsend : ∀ n r0, st = send A { c1 with nextSeq := n } used r0 [] → Bounded L st.conn.npages st.used := by
    intro n r0 e
    have hsn := send_npages_le A { c1 with nextSeq := n } used r0 []
    have hsu := used_le_of_law _ _ _ (show Acct { c1 with nextSeq := n } from ha1) (send_law A _ used r0 [] ha1) hsn
    rw [← e] at hsn hsu
    dsimp only at hsn
    obtain ⟨b1, b2⟩ := hb1
    exact ⟨fun h => by have := b1 h; omega, fun h => by have := b2 h; omega⟩
  split at hst
  · split at hst
    · cases hst; exact hsend _ _ rfl
    · exact insertIntoConn_bound A L c1 _ _ _ _ _ st ha1 hb1 hst
  · split at hst
    · exact insertIntoConn_bound A L c1 _ _ _ _ _ st ha1 hb1 hst
    · cases hst; exact hsend _ _ rfl

/-! ### the pool with fixed limits -/

def LimInv (L : Lim) (P : Pool) : Prop :=
  AcctInv P ∧ P.lim = L ∧
    (L.maxPer > 0 → ∀ k c, lookup k P.conns = some c → c.npages < L.maxPer) ∧
    (L.maxTot > 0 → P.used < L.maxTot)

theorem putBack_limInv (L : Lim) (P : Pool) (k : Nat) (c : Conn) (st : Step) (h : LimInv L P)
    (hold : oldPages k P.conns = c.npages) (hl : DeltaLaw c P.used st) (hw : NoWtf st.conn)
    (hb : Bounded L st.conn.npages st.used) : LimInv L (putBack P k st) := by
  obtain ⟨h1, h2, h3, h4⟩ := h
  refine ⟨putBack_acct P k c st h1 hold hl hw, by rw [putBack_lim]; exact h2, ?_, ?_⟩
  · intro hp k' c' hlk
    by_cases hk : k' = k
    · subst hk
      rw [lookup_putBack_self P k' st h1.1] at hlk
      split at hlk
      · cases hlk
      · cases hlk; exact hb.1 hp
    · rw [lookup_putBack_ne P k k' st h1.1 hk] at hlk
      exact h3 hp k' c' hlk
  · intro hp
    have : (putBack P k st).used = st.used := by unfold putBack; split <;> rfl
    rw [this]; exact hb.2 hp

theorem lim_poolStepInv (A : SeqArith) (hA : ∀ x, A.diff x x ≤ 0) (L : Lim) :
    PoolStepInv A (LimInv L) (fun s => s.seq ≠ invalidSeq) false where
  sorted := fun P h => h.1.1
  opt := fun h => by cases h
  asmOld := by
    intro P s c h hs hl
    obtain ⟨ha, hw⟩ := h.1.2.1 _ _ hl
    obtain ⟨st, hst, hw'⟩ := assembleConn_noWtf A hA P.lim c P.used s hw hs
    refine ⟨st, hst, putBack_limInv L P s.key c st h (oldPages_some _ _ _ hl)
      (assembleConn_law A P.lim c P.used s st ha hst) hw' ?_⟩
    have hb : Bounded L c.npages P.used := ⟨fun hp => h.2.2.1 hp _ _ hl, h.2.2.2⟩
    rw [← h.2.1] at hb ⊢
    exact assembleConn_bound A P.lim c P.used s st ha hb hst
  asmNew := by
    intro P s h hs hl
    have hw : NoWtf (freshConn s.ts P.nextSid) := by simp [NoWtf, HeadNe, freshConn]
    have ha : Acct (freshConn s.ts P.nextSid) := by simp [Acct, freshConn]
    obtain ⟨st, hst, hw'⟩ := assembleConn_noWtf A hA P.lim _ P.used s hw hs
    refine ⟨st, hst, ?_⟩
    have hP' : LimInv L { P with nextSid := P.nextSid + 1 } := h
    refine putBack_limInv L { P with nextSid := P.nextSid + 1 } s.key (freshConn s.ts P.nextSid) st hP'
      (oldPages_none _ _ hl) (assembleConn_law A P.lim _ P.used s st ha hst) hw' ?_
    have hb : Bounded L (freshConn s.ts P.nextSid).npages P.used :=
      ⟨fun hp => by show (0 : Int) < L.maxPer; omega, h.2.2.2⟩
    rw [← h.2.1] at hb ⊢
    exact assembleConn_bound A P.lim _ P.used s st ha hb hst
  flush := by
    intro P k c T ca h hl
    obtain ⟨ha, hw⟩ := h.1.2.1 _ _ hl
    have hlaw := flushConn_law A T ca c P.used ha
    have hsh := flushConn_shrinks A T ca c P.used
    have hu := used_le_of_law c P.used _ ha hlaw hsh
    refine putBack_limInv L P k c _ h (oldPages_some _ _ _ hl) hlaw (flushConn_noWtf A hA T ca c P.used hw) ⟨?_, ?_⟩
    · intro hp; have := h.2.2.1 hp _ _ hl; unfold Shrinks at hsh; omega
    · intro hp; have := h.2.2.2 hp; omega
  flushAll := by
    intro P k c h hl
    obtain ⟨ha, hw⟩ := h.1.2.1 _ _ hl
    have hlaw := flushAllConn_law A c P.used ha
    have hsh : Shrinks c (flushAllConn A c P.used) := flushAllLoop_shrinks A _ c P.used []
    have hu := used_le_of_law c P.used _ ha hlaw hsh
    refine putBack_limInv L P k c _ h (oldPages_some _ _ _ hl) hlaw (flushAllLoop_noWtf A hA _ c P.used _ hw) ⟨?_, ?_⟩
    · intro hp; have := h.2.2.1 hp _ _ hl; unfold Shrinks at hsh; omega
    · intro hp; have := h.2.2.2 hp; omega

theorem limInv_init (L : Lim) : LimInv L { lim := L } :=
  ⟨⟨by simp [KeysSorted], by intro k c h; simp [lookup] at h, rfl⟩, rfl,
   fun _ k c h => by simp [lookup] at h, fun hp => hp⟩

end Gp.Asm
