/-
  Lifting per-connection invariants to the pool and to whole histories (any sequence arithmetic).
-/
import Gp.Lemmas.AsmBasic

namespace Gp.Asm

/-- every live connection satisfies `Q key conn` -/
def PoolAll (Q : Nat → Conn → Prop) (P : Pool) : Prop := ∀ k c, (k, c) ∈ P.conns → Q k c

theorem lookup_mem {k : Nat} {cs : List (Nat × Conn)} {c : Conn} (h : lookup k cs = some c) :
    (k, c) ∈ cs := by
  induction cs with
  | nil => simp [lookup] at h
  | cons x cs ih =>
    obtain ⟨k', c'⟩ := x
    simp only [lookup] at h
    split at h
    · rename_i e; cases h; rw [e]; exact List.mem_cons_self
    · exact List.mem_cons_of_mem _ (ih h)

theorem mem_upsert {k : Nat} {c : Conn} {cs : List (Nat × Conn)} {x : Nat × Conn}
    (h : x ∈ upsert k c cs) : x = (k, c) ∨ x ∈ cs := by
  induction cs with
  | nil => simp [upsert] at h; exact Or.inl h
  | cons y cs ih =>
    obtain ⟨k', c'⟩ := y
    simp only [upsert] at h
    split at h
    · rcases List.mem_cons.1 h with h | h
      · exact Or.inl h
      · exact Or.inr (List.mem_cons_of_mem _ h)
    · split at h
      · rcases List.mem_cons.1 h with h | h
        · exact Or.inl h
        · exact Or.inr h
      · rcases List.mem_cons.1 h with h | h
        · exact Or.inr (by rw [h]; exact List.mem_cons_self)
        · rcases ih h with h | h
          · exact Or.inl h
          · exact Or.inr (List.mem_cons_of_mem _ h)

theorem mem_remove {k : Nat} {cs : List (Nat × Conn)} {x : Nat × Conn}
    (h : x ∈ remove k cs) : x ∈ cs := by
  induction cs with
  | nil => simp [remove] at h
  | cons y cs ih =>
    obtain ⟨k', c'⟩ := y
    simp only [remove] at h
    split at h
    · exact List.mem_cons_of_mem _ h
    · rcases List.mem_cons.1 h with h | h
      · rw [h]; exact List.mem_cons_self
      · exact List.mem_cons_of_mem _ (ih h)

theorem poolAll_putBack {Q : Nat → Conn → Prop} {P : Pool} (k : Nat) (st : Step)
    (hP : PoolAll Q P) (hst : st.closed = false → Q k st.conn) : PoolAll Q (putBack P k st) := by
  unfold putBack
  split
  · intro k' c' hm
    exact hP k' c' (mem_remove hm)
  · rename_i hc
    intro k' c' hm
    rcases mem_upsert hm with h | h
    · cases h; exact hst (by simpa using hc)
    · exact hP k' c' h

/-- A per-connection invariant `Q` that every entry point of the assembler preserves, for segments
    satisfying `Pre`; `asm` also says that the step does not panic. -/
structure ConnInv (A : SeqArith) (Q : Nat → Conn → Prop) (Pre : Seg → Prop) : Prop where
  fresh : ∀ k ts sid, Q k ⟨invalidSeq, [], 0, ts, sid⟩
  asm : ∀ L c used s, Q s.key c → Pre s →
    ∃ st, assembleConn A L c used s = .ok st ∧ (st.closed = false → Q s.key st.conn)
  flush : ∀ k T ca c used, Q k c → (flushConn A T ca c used).1.closed = false →
    Q k (flushConn A T ca c used).1.conn
  flushAll : ∀ k c used, Q k c → (flushAllConn A c used).closed = false →
    Q k (flushAllConn A c used).conn

def OpPre (Pre : Seg → Prop) : Op → Prop
  | .seg s => Pre s
  | _ => True

theorem assemble_preserves {A : SeqArith} {Q : Nat → Conn → Prop} {Pre : Seg → Prop}
    (h : ConnInv A Q Pre) (P : Pool) (s : Seg) (hP : PoolAll Q P) (hs : Pre s) :
    ∃ x, assemble A P s = .ok x ∧ PoolAll Q x.1 := by
  unfold assemble
  split
  · exact ⟨_, rfl, hP⟩
  · split
    · rename_i c hl
      obtain ⟨st, hst, hq⟩ := h.asm P.lim c P.used s (hP _ _ (lookup_mem hl)) hs
      rw [hst]
      exact ⟨_, rfl, poolAll_putBack _ _ hP hq⟩
    · split
      · exact ⟨_, rfl, hP⟩
      · obtain ⟨st, hst, hq⟩ := h.asm (newConn P s.ts).2.lim (newConn P s.ts).1 (newConn P s.ts).2.used s
          (h.fresh _ _ _) hs
        dsimp only
        rw [hst]
        refine ⟨_, rfl, poolAll_putBack _ _ ?_ hq⟩
        exact hP

theorem flushWithList_preserves {A : SeqArith} {Q : Nat → Conn → Prop} {Pre : Seg → Prop}
    (h : ConnInv A Q Pre) (T : Int) (ca : Bool) (cs : List (Nat × Conn)) (acc : FlushRes)
    (hcs : ∀ k c, (k, c) ∈ cs → Q k c) (hacc : PoolAll Q acc.pool) :
    PoolAll Q (flushWithList A T ca cs acc).pool := by
  induction cs generalizing acc with
  | nil => exact hacc
  | cons x cs ih =>
    obtain ⟨k, c⟩ := x
    simp only [flushWithList]
    apply ih
    · intro k' c' hm; exact hcs k' c' (List.mem_cons_of_mem _ hm)
    · exact poolAll_putBack _ _ hacc (h.flush k T ca c _ (hcs k c List.mem_cons_self))

theorem flushAllList_preserves {A : SeqArith} {Q : Nat → Conn → Prop} {Pre : Seg → Prop}
    (h : ConnInv A Q Pre) (cs : List (Nat × Conn)) (acc : FlushRes)
    (hcs : ∀ k c, (k, c) ∈ cs → Q k c) (hacc : PoolAll Q acc.pool) :
    PoolAll Q (flushAllList A cs acc).pool := by
  induction cs generalizing acc with
  | nil => exact hacc
  | cons x cs ih =>
    obtain ⟨k, c⟩ := x
    simp only [flushAllList]
    apply ih
    · intro k' c' hm; exact hcs k' c' (List.mem_cons_of_mem _ hm)
    · exact poolAll_putBack _ _ hacc (h.flushAll k c _ (hcs k c List.mem_cons_self))

theorem step_preserves {A : SeqArith} {Q : Nat → Conn → Prop} {Pre : Seg → Prop}
    (h : ConnInv A Q Pre) (P : Pool) (op : Op) (hP : PoolAll Q P) (hop : OpPre Pre op) :
    ∃ x, step A P op = .ok x ∧ PoolAll Q x.1 := by
  cases op with
  | opt a b => exact ⟨_, rfl, hP⟩
  | seg s =>
    obtain ⟨x, hx, hq⟩ := assemble_preserves h P s hP hop
    simp only [step, hx]
    exact ⟨_, rfl, hq⟩
  | flush T ca =>
    exact ⟨_, rfl, flushWithList_preserves h T ca P.conns _ hP hP⟩
  | flushAll =>
    exact ⟨_, rfl, flushAllList_preserves h P.conns _ hP hP⟩

theorem run_preserves {A : SeqArith} {Q : Nat → Conn → Prop} {Pre : Seg → Prop}
    (h : ConnInv A Q Pre) (P : Pool) (ops : List Op) (hP : PoolAll Q P)
    (hops : ∀ op ∈ ops, OpPre Pre op) :
    ∃ x, run A P ops = .ok x ∧ PoolAll Q x.1 := by
  induction ops generalizing P with
  | nil => exact ⟨_, rfl, hP⟩
  | cons op ops ih =>
    obtain ⟨x, hx, hq⟩ := step_preserves h P op hP (hops op List.mem_cons_self)
    obtain ⟨y, hy, hq'⟩ := ih x.1 hq (fun o ho => hops o (List.mem_cons_of_mem _ ho))
    simp only [run, hx, hy]
    exact ⟨_, rfl, hq'⟩

theorem poolAll_empty (Q : Nat → Conn → Prop) : PoolAll Q {} := by
  intro k c h; simp at h

/-! ### `asm_no_wtf` for every arithmetic with `diff x x ≤ 0` -/

theorem noWtf_connInv (A : SeqArith) (hA : ∀ x, A.diff x x ≤ 0) :
    ConnInv A (fun _ c => NoWtf c) (fun s => s.seq ≠ invalidSeq) where
  fresh := by intro k ts sid; simp [NoWtf, HeadNe]
  asm := by
    intro L c used s hq hs
    obtain ⟨st, h1, h2⟩ := assembleConn_noWtf A hA L c used s hq hs
    exact ⟨st, h1, fun _ => h2⟩
  flush := by intro k T ca c used hq _; exact flushConn_noWtf A hA T ca c used hq
  flushAll := by intro k c used hq _; exact flushAllLoop_noWtf A hA _ c used _ hq

end Gp.Asm
