import Gp.Lemmas.PcapNgProg
import Gp.Model.PcapNg
/-
  Safety of the pcapng reader model (C15): a Hoare logic over `Prog`
  (`Tr P p Q`: from a state with the interface invariant `Inv` and `P`, program `p` ends — on
  every stream and with every fuel — in a state with `Inv`, with `Q` if it succeeded and without
  a panic if it failed), and absence of hangs (`NoHang`: fuel > bytes left always suffices,
  because every loop iteration that continues has consumed input: `Progress`).
-/
namespace Gp.PcapNg
open Gp.Gen.PcapNg

def Err.isPanic : Err → Bool
  | .panic _ => true
  | _ => false

/-- every interface has usable timestamp divisors (convertTime cannot divide by zero) -/
def Inv (s : S) : Prop := ∀ i ∈ s.ifaces, i.secondMask ≠ 0 ∧ i.scaleDown ≠ 0

def Tr {α} (P : S → Prop) (p : Prog α) (Q : α → S → Prop) : Prop :=
  ∀ f s w, Inv s → P s →
    match run f p s w with
    | .ok a s' _ => Inv s' ∧ Q a s'
    | .fail e s' _ => Inv s' ∧ e.isPanic = false

/-- postcondition of one pure step -/
def PostA {α} (Q : α → S → Prop) (x : Except Err α × S) : Prop :=
  Inv x.2 ∧ match x.1 with
    | .ok a => Q a x.2
    | .error e => e.isPanic = false

/-- the same for one pure step -/
def ActOK {α} (P : S → Prop) (g : Act α) (Q : α → S → Prop) : Prop :=
  ∀ s, Inv s → P s → PostA Q (g s)

abbrev Safe {α} (p : Prog α) : Prop := Tr (fun _ => True) p (fun _ _ => True)

theorem Tr.pure {α} {P : S → Prop} {Q : α → S → Prop} (a : α) (h : ∀ s, P s → Q a s) :
    Tr P (Pure.pure a : Prog α) Q := by
  intro f s w hI hP
  exact ⟨hI, h s hP⟩

theorem Tr.bind {α β} {P : S → Prop} {R : α → S → Prop} {Q : β → S → Prop} {m : Prog α} {g : α → Prog β}
    (h1 : Tr P m R) (h2 : ∀ a, Tr (R a) (g a) Q) : Tr P (m >>= g) Q := by
  intro f s w hI hP
  have := h1 f s w hI hP
  show match run f (Prog.bind m g) s w with
    | .ok a s' _ => Inv s' ∧ Q a s'
    | .fail e s' _ => Inv s' ∧ e.isPanic = false
  simp only [run]
  cases hr : run f m s w with
  | ok a s' w' =>
    rw [hr] at this
    exact h2 a f s' w' this.1 this.2
  | fail e s' w' =>
    rw [hr] at this
    exact this

theorem Tr.act {α} {P : S → Prop} {Q : α → S → Prop} {g : Act α} (h : ActOK P g Q) : Tr P (Prog.act g) Q := by
  intro f s w hI hP
  have := h s hI hP
  simp only [run]
  cases hg : g s with
  | mk r s' =>
    rw [hg] at this
    cases r <;> exact ⟨this.1, this.2⟩

theorem Tr.io {α} {P : S → Prop} (p : Prim α) : Tr P (Prog.io p) (fun _ s => P s) := by
  intro f s w hI hP
  simp only [run]
  cases hp : p.run w with
  | mk r w' =>
    cases r with
    | ok a => exact ⟨hI, hP⟩
    | error e =>
      refine ⟨hI, ?_⟩
      cases p <;> simp only [Prim.run, takeN] at hp <;> (try split at hp) <;> (try split at hp) <;>
        simp only [Prod.mk.injEq] at hp <;> (try (obtain ⟨h1, _⟩ := hp; cases h1; rfl)) <;> (try (cases hp.1))

theorem Tr.weaken {α} {P P' : S → Prop} {Q Q' : α → S → Prop} {p : Prog α}
    (h : Tr P p Q) (hp : ∀ s, P' s → P s) (hq : ∀ a s, Q a s → Q' a s) : Tr P' p Q' := by
  intro f s w hI hP
  have := h f s w hI (hp s hP)
  cases hr : run f p s w with
  | ok a s' w' => rw [hr] at this; exact ⟨this.1, hq a s' this.2⟩
  | fail e s' w' => rw [hr] at this; exact this

theorem Tr.iter {α} {P : S → Prop} {Q : α → S → Prop} {body : Prog (Step α)}
    (h : Tr P body (fun st s => match st with | .again => P s | .done a => Q a s)) : Tr P (Prog.iter body) Q := by
  intro f s w hI hP
  simp only [run]
  generalize f = n at *
  suffices ∀ m s w, Inv s → P s →
      match runIter (run n body) m s w with
      | .ok a s' _ => Inv s' ∧ Q a s'
      | .fail e s' _ => Inv s' ∧ e.isPanic = false from this n s w hI hP
  intro m
  induction m with
  | zero => intro s w hI _; exact ⟨hI, rfl⟩
  | succ m ih =>
    intro s w hI hP
    have := h n s w hI hP
    simp only [runIter]
    cases hr : run n body s w with
    | ok st s' w' =>
      rw [hr] at this
      cases st with
      | again => exact ih s' w' this.1 this.2
      | done a => exact this
    | fail e s' w' => rw [hr] at this; exact this

theorem Tr.ite {α} {P : S → Prop} {Q : α → S → Prop} {c : Prop} [Decidable c] {p q : Prog α}
    (h1 : c → Tr P p Q) (h2 : ¬ c → Tr P q Q) : Tr P (if c then p else q) Q := by
  split
  · exact h1 ‹_›
  · exact h2 ‹_›

theorem tr_getS {P : S → Prop} : Tr P getS (fun a s => a = s ∧ P s) :=
  Tr.act (fun s hI hP => ⟨hI, rfl, hP⟩)

theorem tr_failM {α} {P : S → Prop} {Q : α → S → Prop} {e : Err} (he : e.isPanic = false) : Tr P (failM e : Prog α) Q :=
  Tr.act (fun _ hI _ => ⟨hI, he⟩)

/-- a state update that does not touch the interface table -/
theorem tr_modS {P Q : S → Prop} (g : S → S) (hi : ∀ s, (g s).ifaces = s.ifaces) (hq : ∀ s, P s → Q (g s)) :
    Tr P (modS g) (fun _ s => Q s) :=
  Tr.act (fun s hI hP => ⟨by intro i hm; rw [hi] at hm; exact hI i hm, hq s hP⟩)

/-! ### hangs -/

def NoHang {α} (p : Prog α) : Prop := ∀ f s w, w.inp.length < f → (run f p s w).isHang = false

/-- a loop body that asks for another iteration has consumed input -/
def Progress {α} (p : Prog (Step α)) : Prop :=
  ∀ f s w s' w', run f p s w = .ok .again s' w' → w'.inp.length < w.inp.length

/-- a successful run of `p` consumes at least `n` bytes -/
def Consumes {α} (n : Nat) (p : Prog α) : Prop :=
  ∀ f s w a s' w', run f p s w = .ok a s' w' → w'.inp.length + n ≤ w.inp.length

theorem NoHang.pure {α} (a : α) : NoHang (Pure.pure a : Prog α) := fun _ _ _ _ => rfl
/-- a pure step never reports the model artefact `hang` itself -/
def ActNoHang {α} (g : Act α) : Prop := ∀ s s', (g s) ≠ (.error .hang, s')

theorem NoHang.act {α} (g : Act α) (h : ActNoHang g) : NoHang (Prog.act g) := by
  intro f s w _
  simp only [run]
  cases hg : g s with
  | mk r s' =>
    cases r with
    | ok a => rfl
    | error e =>
      cases e <;> simp only [Out.isHang]
      exact absurd hg (h s s')

theorem NoHang.io {α} (p : Prim α) : NoHang (Prog.io p) := by
  intro f s w _
  simp only [run]
  cases hp : p.run w with
  | mk r w' =>
    cases r with
    | ok a => rfl
    | error e =>
      cases p <;> simp only [Prim.run, takeN] at hp <;> (try split at hp) <;> (try split at hp) <;>
        simp only [Prod.mk.injEq] at hp <;> (try (obtain ⟨h1, _⟩ := hp; cases h1; rfl)) <;> (try (cases hp.1))

theorem NoHang.bind {α β} {m : Prog α} {g : α → Prog β} (h1 : NoHang m) (h2 : ∀ a, NoHang (g a)) :
    NoHang (m >>= g) := by
  intro f s w hf
  show (run f (Prog.bind m g) s w).isHang = false
  simp only [run]
  have := h1 f s w hf
  have hr := run_reach f m s w
  cases hm : run f m s w with
  | ok a s' w' =>
    rw [hm] at hr
    exact h2 a f s' w' (by have := hr.len_le; simp only [Out.w] at this; omega)
  | fail e s' w' =>
    rw [hm] at this
    cases e <;> simp_all [Out.isHang]

theorem NoHang.ite {α} {c : Prop} [Decidable c] {p q : Prog α} (h1 : NoHang p) (h2 : NoHang q) :
    NoHang (if c then p else q) := by
  split <;> assumption

theorem NoHang.iter {α} {body : Prog (Step α)} (h1 : NoHang body) (h2 : Progress body) : NoHang (Prog.iter body) := by
  intro f s w hf
  simp only [run]
  suffices ∀ n s w, w.inp.length < n → w.inp.length < f → (runIter (run f body) n s w).isHang = false from this f s w hf hf
  intro n
  induction n with
  | zero => intro s w h; omega
  | succ n ih =>
    intro s w hn hf
    simp only [runIter]
    have hb := h1 f s w hf
    cases hr : run f body s w with
    | ok st s' w' =>
      cases st with
      | again =>
        have := h2 f s w s' w' hr
        exact ih s' w' (by omega) (by omega)
      | done a => rfl
    | fail e s' w' =>
      rw [hr] at hb
      cases e <;> simp_all [Out.isHang]

theorem takeN_ok {n : Nat} {e : Err} {w w' : Strm} {a : Bytes} (h : takeN n e w = (.ok a, w')) :
    w'.inp.length + n ≤ w.inp.length ∧ a.length = n := by
  unfold takeN at h
  split at h
  · simp only [Prod.mk.injEq, Except.ok.injEq] at h
    rw [← h.1, ← h.2]
    simp only [List.length_drop, List.length_take]
    omega
  · simp only [Prod.mk.injEq] at h; cases h.1

theorem run_io_ok {α} {f : Nat} {p : Prim α} {s s' : S} {w w' : Strm} {a : α}
    (h : run f (Prog.io p) s w = .ok a s' w') : p.run w = (.ok a, w') ∧ s' = s := by
  simp only [run] at h
  cases hp : p.run w with
  | mk r wr =>
    rw [hp] at h
    cases r with
    | error e => cases h
    | ok b =>
      simp only [Out.ok.injEq] at h
      obtain ⟨h1, h2, h3⟩ := h
      subst h1 h2 h3
      exact ⟨rfl, rfl⟩

theorem Consumes.io_rd (n : Nat) : Consumes n (rd n) := by
  intro f s w a s' w' h
  have := (run_io_ok h).1
  simp only [Prim.run] at this
  exact (takeN_ok this).1

theorem Consumes.io_rdW (n : Nat) : Consumes n (rdW n) := by
  intro f s w a s' w' h
  have := (run_io_ok h).1
  simp only [Prim.run] at this
  exact (takeN_ok this).1

theorem Consumes.io_rd0 (n : Nat) : Consumes n (Prog.io (.rd0 n)) := by
  intro f s w a s' w' h
  have := (run_io_ok h).1
  simp only [Prim.run] at this
  split at this
  · simp only [Prod.mk.injEq, Except.ok.injEq] at this
    rw [← this.2]; simp only [List.length_drop]; omega
  · split at this <;> (simp only [Prod.mk.injEq] at this; cases this.1)

theorem Consumes.io_line0 : Consumes 1 (Prog.io .line0) := by
  intro f s w a s' w' h
  have := (run_io_ok h).1
  simp only [Prim.run] at this
  split at this
  · rename_i p hp
    have hlt := findZero_lt hp
    simp only [Prod.mk.injEq, Except.ok.injEq] at this
    rw [← this.2]; simp only [List.length_drop]; omega
  · simp only [Prod.mk.injEq] at this; cases this.1

theorem Consumes.bind_left {α β} {n : Nat} {m : Prog α} {g : α → Prog β} (h : Consumes n m) : Consumes n (m >>= g) := by
  intro f s w b s'' w'' hr
  change run f (Prog.bind m g) s w = _ at hr
  simp only [run] at hr
  cases hm : run f m s w with
  | ok a s' w' =>
    rw [hm] at hr
    dsimp only at hr
    have h1 := h f s w a s' w' hm
    have h2 := run_reach f (g a) s' w'
    rw [hr] at h2
    have := h2.len_le
    simp only [Out.w] at this
    omega
  | fail e s' w' => rw [hm] at hr; cases hr

theorem Progress.of_consumes {α} {p : Prog (Step α)} (h : Consumes 1 p) : Progress p := by
  intro f s w s' w' hr
  have := h f s w _ s' w' hr
  omega

theorem Progress.bind_right {α β} {m : Prog α} {g : α → Prog (Step β)} (h : ∀ a, Progress (g a)) : Progress (m >>= g) := by
  intro f s w s'' w'' hr
  change run f (Prog.bind m g) s w = _ at hr
  simp only [run] at hr
  cases hm : run f m s w with
  | ok a s' w' =>
    rw [hm] at hr
    dsimp only at hr
    have h1 := h a f s' w' s'' w'' hr
    have h2 := run_reach f m s w
    rw [hm] at h2
    have := h2.len_le
    simp only [Out.w] at this
    omega
  | fail e s' w' => rw [hm] at hr; cases hr

theorem Progress.pure_done {α} (a : α) : Progress (Pure.pure (Step.done a) : Prog (Step α)) := by
  intro f s w s' w' hr
  cases hr

theorem Progress.ite {α} {c : Prop} [Decidable c] {p q : Prog (Step α)} (h1 : Progress p) (h2 : Progress q) :
    Progress (if c then p else q) := by
  split <;> assumption

theorem Progress.failM {α} (e : Err) : Progress (failM e : Prog (Step α)) := by
  intro f s w s' w' hr
  cases hr

end Gp.PcapNg
