import Gp.Lemmas.PcapNgSafe
/-
  Safety of the individual reader functions (Tr / NoHang for every function of Gp/Model/PcapNg.lean).
-/
namespace Gp.PcapNg
open Gp.Gen.PcapNg

/-! ### arithmetic of readInterfaceDescriptor -/

theorem pow10u64_ne_zero : ∀ e, e ≤ 19 → pow10u64 e ≠ 0 := by decide

theorem two_pow_mod_ne_zero {e : Nat} (h : e ≤ 63) : (2 ^ e) % two64 ≠ 0 := by
  have h1 : 2 ^ e < two64 := by
    have : two64 = 2 ^ 64 := by decide
    rw [this]
    exact Nat.pow_lt_pow_right (by decide) (by omega)
  rw [Nat.mod_eq_of_lt h1]
  exact Nat.pos_iff_ne_zero.mp (Nat.two_pow_pos e)

theorem modify_forall {α} (P : α → Prop) (g : α → α) (hg : ∀ a, P a → P (g a)) :
    ∀ (l : List α) (k : Nat), (∀ a ∈ l, P a) → ∀ a ∈ l.modify k g, P a := by
  intro l
  induction l with
  | nil => intro k h a ha; simp at ha
  | cons x r ih =>
    intro k h a ha
    cases k with
    | zero =>
      simp only [List.modify_zero_cons, List.mem_cons] at ha
      rcases ha with rfl | ha
      · exact hg x (h x (by simp))
      · exact h a (by simp [ha])
    | succ k =>
      simp only [List.modify_succ_cons, List.mem_cons] at ha
      rcases ha with rfl | ha
      · exact h a (by simp)
      · exact ih k (fun b hb => h b (by simp [hb])) a ha

theorem inv_setStatsF {s : S} (f : Stats → Stats) (h : Inv s) : Inv (setStatsF s f) := by
  unfold Inv setStatsF
  exact modify_forall (fun (i : Iface) => i.secondMask ≠ 0 ∧ i.scaleDown ≠ 0) (fun i => { i with stats := f i.stats })
    (fun a ha => ha) s.ifaces s.isbId h

theorem len_setStatsF (s : S) (f : Stats → Stats) : (setStatsF s f).ifaces.length = s.ifaces.length := by
  simp [setStatsF]

theorem convertTimeF_ok {s : S} {id : Nat} (ts : Nat) (hI : Inv s) (hid : id < s.ifaces.length) :
    ∃ t, convertTimeF s id ts = .ok t := by
  unfold convertTimeF
  have hget : s.ifaces[id]? = some s.ifaces[id] := List.getElem?_eq_getElem hid
  rw [hget]
  have := hI s.ifaces[id] (List.getElem_mem hid)
  simp only [this.1, this.2, or_self, if_false]
  exact ⟨_, rfl⟩

/-! ### pure steps -/

theorem ok_blockTypeStep (h : Bytes) : ActOK (fun _ => True) (blockTypeStep h) (fun _ _ => True) := by
  intro s hI _; exact ⟨hI, trivial⟩

theorem ok_blockMagicStep (h m : Bytes) : ActOK (fun _ => True) (blockMagicStep h m) (fun _ _ => True) := by
  intro s hI _
  unfold blockMagicStep
  split
  · exact ⟨hI, trivial⟩
  · split
    · exact ⟨hI, trivial⟩
    · exact ⟨hI, rfl⟩

theorem inv_append {s : S} {i : Iface} (hI : Inv s) (h1 : i.secondMask ≠ 0) (h2 : i.scaleDown ≠ 0) :
    Inv { s with ifaces := s.ifaces ++ [i] } := by
  intro j hj
  simp only [List.mem_append, List.mem_singleton] at hj
  rcases hj with hj | rfl
  · exact hI j hj
  · exact ⟨h1, h2⟩

theorem ok_idbFinishStep : ActOK (fun _ => True) idbFinishStep (fun _ s => s.ifaces ≠ []) := by
  intro s hI _
  unfold idbFinishStep
  simp only
  generalize (if s.curIf.tsres = 0 then 6 else s.curIf.tsres) = tsres
  by_cases hg : ((resBinary tsres && decide (resExp tsres > 63)) || (!resBinary tsres && decide (resExp tsres > 19))) = true
  · rw [if_pos hg]; exact ⟨hI, rfl⟩
  · rw [if_neg hg]
    simp only [Bool.or_eq_true, Bool.and_eq_true, decide_eq_true_eq, Bool.not_eq_true', not_or, not_and, Nat.not_lt] at hg
    have hnz : (if resBinary tsres = true then 2 ^ resExp tsres % two64 else pow10u64 (resExp tsres)) ≠ 0 := by
      split
      · rename_i hb; exact two_pow_mod_ne_zero (by have := hg.1 hb; omega)
      · rename_i hb
        exact pow10u64_ne_zero _ (by have := hg.2 (by simpa using hb); omega)
    generalize (if resBinary tsres = true then 2 ^ resExp tsres % two64 else pow10u64 (resExp tsres)) = sm at hnz
    by_cases h1 : sm < 1000000000
    · rw [if_pos h1, if_neg hnz]
      exact ⟨inv_append hI (by simpa [finishIface] using hnz) (by simp [finishIface]), by simp⟩
    · rw [if_neg h1]
      refine ⟨inv_append hI (by simpa [finishIface] using hnz) ?_, by simp⟩
      simp only [finishIface]
      have : 0 < sm / 1000000000 := Nat.div_pos (by omega) (by decide)
      omega

end Gp.PcapNg
