import Gp.Lemmas.PcapNgSafe
/-
  Safety of the individual reader functions (Tr / NoHang for every function of Gp/Model/PcapNg.lean).
-/
namespace Gp.PcapNg
open Gp.Gen.PcapNg

/-! ### arithmetic of readInterfaceDescriptor -/

theorem pow10u64_ne_zero : ∀ e, e ≤ 19 → pow10u64 e ≠ 0 := by decide

theorem two_pow_mod_ne_zero {e : Nat} (h : e ≤ 63) : (2 ^ e) % two64 ≠ 0 := by
  have h1 : 2 ^ e < two64 := by
    have : two64 = 2 ^ 64 := by decide
    rw [this]
    exact Nat.pow_lt_pow_right (by decide) (by omega)
  rw [Nat.mod_eq_of_lt h1]
  exact Nat.pos_iff_ne_zero.mp (Nat.two_pow_pos e)

theorem modify_forall {α} (P : α → Prop) (g : α → α) (hg : ∀ a, P a → P (g a)) :
    ∀ (l : List α) (k : Nat), (∀ a ∈ l, P a) → ∀ a ∈ l.modify k g, P a := by
  intro l
  induction l with
  | nil => intro k h a ha; simp at ha
  | cons x r ih =>
    intro k h a ha
    cases k with
    | zero =>
      simp only [List.modify_zero_cons, List.mem_cons] at ha
      rcases ha with rfl | ha
      · exact hg x (h x (by simp))
      · exact h a (by simp [ha])
    | succ k =>
      simp only [List.modify_succ_cons, List.mem_cons] at ha
      rcases ha with rfl | ha
      · exact h a (by simp)
      · exact ih k (fun b hb => h b (by simp [hb])) a ha

theorem inv_setStatsF {s : S} (f : Stats → Stats) (h : Inv s) : Inv (setStatsF s f) := by
  unfold Inv setStatsF
  exact modify_forall (fun (i : Iface) => i.secondMask ≠ 0 ∧ i.scaleDown ≠ 0) (fun i => { i with stats := f i.stats })
    (fun a ha => ha) s.ifaces s.isbId h

theorem len_setStatsF (s : S) (f : Stats → Stats) : (setStatsF s f).ifaces.length = s.ifaces.length := by
  simp [setStatsF]

theorem convertTimeF_ok {s : S} {id : Nat} (ts : Nat) (hI : Inv s) (hid : id < s.ifaces.length) :
    ∃ t, convertTimeF s id ts = .ok t := by
  unfold convertTimeF
  have hget : s.ifaces[id]? = some s.ifaces[id] := List.getElem?_eq_getElem hid
  rw [hget]
  have := hI s.ifaces[id] (List.getElem_mem hid)
  simp only [this.1, this.2, or_self, if_false]
  exact ⟨_, rfl⟩

/-! ### pure steps -/

theorem ok_blockTypeStep (h : Bytes) : ActOK (fun _ => True) (blockTypeStep h) (fun _ _ => True) := by
  intro s hI _; exact ⟨hI, trivial⟩

theorem ok_blockMagicStep (h m : Bytes) : ActOK (fun _ => True) (blockMagicStep h m) (fun _ _ => True) := by
  intro s hI _
  unfold blockMagicStep
  split
  · exact ⟨hI, trivial⟩
  · split
    · exact ⟨hI, trivial⟩
    · exact ⟨hI, rfl⟩

theorem inv_append {s : S} {i : Iface} (hI : Inv s) (h1 : i.secondMask ≠ 0) (h2 : i.scaleDown ≠ 0) :
    Inv { s with ifaces := s.ifaces ++ [i] } := by
  intro j hj
  simp only [List.mem_append, List.mem_singleton] at hj
  rcases hj with hj | rfl
  · exact hI j hj
  · exact ⟨h1, h2⟩

theorem ok_idbFinishStep : ActOK (fun _ => True) idbFinishStep (fun _ s => s.ifaces ≠ []) := by
  intro s hI _
  unfold idbFinishStep
  simp only
  generalize (if s.curIf.tsres = 0 then 6 else s.curIf.tsres) = tsres
  by_cases hg : ((resBinary tsres && decide (resExp tsres > 63)) || (!resBinary tsres && decide (resExp tsres > 19))) = true
  · rw [if_pos hg]; exact ⟨hI, rfl⟩
  · rw [if_neg hg]
    simp only [Bool.or_eq_true, Bool.and_eq_true, decide_eq_true_eq, Bool.not_eq_true', not_or, not_and, Nat.not_lt] at hg
    have hnz : (if resBinary tsres = true then 2 ^ resExp tsres % two64 else pow10u64 (resExp tsres)) ≠ 0 := by
      split
      · rename_i hb; exact two_pow_mod_ne_zero (by have := hg.1 hb; omega)
      · rename_i hb
        exact pow10u64_ne_zero _ (by have := hg.2 (by simpa using hb); omega)
    generalize (if resBinary tsres = true then 2 ^ resExp tsres % two64 else pow10u64 (resExp tsres)) = sm at hnz
    by_cases h1 : sm < 1000000000
    · rw [if_pos h1, if_neg hnz]
      exact ⟨inv_append hI (by simpa [finishIface] using hnz) (by simp [finishIface]), by simp⟩
    · rw [if_neg h1]
      refine ⟨inv_append hI (by simpa [finishIface] using hnz) ?_, by simp⟩
      simp only [finishIface]
      have : 0 < sm / 1000000000 := Nat.div_pos (by omega) (by decide)
      omega

/-! ### frames -/

/-- predicates that only look at the interface table and at `isbId` -/
def Stable (J : S → Prop) : Prop := ∀ s s', s'.ifaces = s.ifaces → s'.isbId = s.isbId → J s → J s'

theorem stable_true : Stable (fun _ => True) := fun _ _ _ _ _ => trivial

theorem inv_of_ifaces {s s' : S} (h : s'.ifaces = s.ifaces) (hI : Inv s) : Inv s' := by
  intro i hi; rw [h] at hi; exact hI i hi

/-- a pure step that leaves interfaces and isbId alone and reports no panic -/
theorem ok_frame {α} {J : S → Prop} (hJ : Stable J) (g : Act α)
    (hfr : ∀ s, (g s).2.ifaces = s.ifaces ∧ (g s).2.isbId = s.isbId)
    (hnp : ∀ s e, (g s).1 = .error e → e.isPanic = false) : ActOK J g (fun _ s => J s) := by
  intro s hI hP
  have h1 := hfr s
  refine ⟨inv_of_ifaces h1.1 hI, ?_⟩
  cases hr : (g s).1 with
  | ok a => exact hJ s _ h1.1 h1.2 hP
  | error e => exact hnp s e hr

theorem tr_frameS {J : S → Prop} (hJ : Stable J) (g : S → S) (h1 : ∀ s, (g s).ifaces = s.ifaces) (h2 : ∀ s, (g s).isbId = s.isbId) :
    Tr J (modS g) (fun _ s => J s) :=
  Tr.act (ok_frame hJ _ (fun s => ⟨h1 s, h2 s⟩) (fun s e h => by cases h))

theorem tr_decBlk {J : S → Prop} (hJ : Stable J) (n : Nat) : Tr J (decBlk n) (fun _ s => J s) :=
  tr_frameS hJ _ (fun _ => rfl) (fun _ => rfl)

theorem tr_discard {J : S → Prop} (hJ : Stable J) (n : Nat) : Tr J (discard n) (fun _ s => J s) := by
  unfold discard
  exact Tr.bind (Tr.io _) (fun _ => tr_decBlk hJ n)

theorem tr_discardW {J : S → Prop} (hJ : Stable J) (n : Nat) : Tr J (discardW n) (fun _ s => J s) := by
  unfold discardW
  exact Tr.bind (Tr.io _) (fun _ => tr_decBlk hJ n)

theorem tr_getS' {J : S → Prop} : Tr J getS (fun _ s => J s) :=
  Tr.weaken tr_getS (fun _ h => h) (fun _ _ h => h.2)

theorem tr_discardBlock {J : S → Prop} (hJ : Stable J) : Tr J discardBlock (fun _ s => J s) := by
  unfold discardBlock
  exact Tr.bind tr_getS' (fun s => tr_discard hJ _)

theorem tr_readBlock {J : S → Prop} (hJ : Stable J) : Tr J readBlock (fun _ s => J s) := by
  unfold readBlock
  refine Tr.bind (Tr.io _) (fun h => Tr.bind (R := fun _ s => J s) (Tr.act (ok_frame hJ _ (fun s => ⟨rfl, rfl⟩) (fun s e he => by cases he))) (fun b => ?_))
  split
  · refine Tr.bind (Tr.io _) (fun m => Tr.act (ok_frame hJ _ (fun s => ?_) (fun s e he => ?_)))
    · unfold blockMagicStep; split
      · exact ⟨rfl, rfl⟩
      · split <;> exact ⟨rfl, rfl⟩
    · unfold blockMagicStep at he
      split at he
      · cases he
      · split at he
        · cases he
        · cases he; rfl
  · exact tr_frameS hJ _ (fun _ => rfl) (fun _ => rfl)

theorem tr_readOption {J : S → Prop} (hJ : Stable J) : Tr J readOption (fun _ s => J s) := by
  unfold readOption
  refine Tr.bind (R := fun _ s => J s) (Tr.act (ok_frame hJ _ (fun s => ?_) (fun s e he => ?_))) (fun more => ?_)
  · unfold optStartStep; split <;> exact ⟨rfl, rfl⟩
  · unfold optStartStep at he; split at he <;> cases he
  · split
    · refine Tr.bind (Tr.io _) (fun h => Tr.bind (R := fun _ s => J s) (Tr.act (ok_frame hJ _ (fun s => ?_) (fun s e he => ?_))) (fun r => ?_))
      · unfold optHeadStep; simp only; split
        · split <;> exact ⟨rfl, rfl⟩
        · split <;> exact ⟨rfl, rfl⟩
      · unfold optHeadStep at he; simp only at he
        split at he
        · split at he
          · cases he; rfl
          · cases he
        · split at he <;> cases he
      · cases r with
        | none => exact Tr.pure _ (fun _ h => h)
        | some length =>
          refine Tr.bind (Tr.io _) (fun v => Tr.bind (tr_frameS hJ _ (fun _ => rfl) (fun _ => rfl)) (fun _ => ?_))
          dsimp only
          split
          · exact Tr.bind (tr_discard hJ _) (fun _ => tr_decBlk hJ _)
          · exact tr_decBlk hJ _
    · exact Tr.pure _ (fun _ h => h)

/-- an option loop keeps every stable predicate that its handler keeps -/
theorem tr_optLoop {J : S → Prop} (hJ : Stable J) (handle : Nat → Bytes → Act Unit)
    (hh : ∀ c v, ActOK J (handle c v) (fun _ s => J s)) : Tr J (optLoop handle) (fun _ s => J s) := by
  unfold optLoop
  refine Tr.iter (Tr.bind (tr_readOption hJ) (fun _ => Tr.act ?_))
  intro s hI hP
  unfold optSwitch
  split
  · exact ⟨hI, hP⟩
  · have := hh s.optCode s.optVal s hI hP
    cases hr : handle s.optCode s.optVal s with
    | mk r s' =>
      rw [hr] at this
      cases r with
      | ok a => exact ⟨this.1, this.2⟩
      | error e => exact ⟨this.1, this.2⟩

end Gp.PcapNg
