/-
  Structural lemmas about the assembler model that hold for EVERY sequence arithmetic `A`
  (list surgery of insertPos/insertPages, page splitting, pops), and the invariant behind
  `asm_no_wtf`: between operations the first queued page never sits at `nextSeq`.
-/
import Gp.Model.Asm

namespace Gp.Asm

/-! ### insertPos / insertPages -/

theorem insertPos_append (A : SeqArith) (seq : Int) (ps : List Page) :
    (insertPos A seq ps).1 ++ (insertPos A seq ps).2 = ps := by
  induction ps with
  | nil => rfl
  | cons p ps ih =>
    simp only [insertPos]
    split
    · rename_i h
      simp only [Bool.and_eq_true, List.isEmpty_iff] at h
      have : (insertPos A seq ps).2 = ps := by simpa [h.1] using ih
      simp [this]
    · simp [ih]

theorem insertPos_fst_cons (A : SeqArith) (seq : Int) (p : Page) (ps : List Page) :
    (insertPos A seq (p :: ps)).1 = [] ∨ ∃ t, (insertPos A seq (p :: ps)).1 = p :: t := by
  simp only [insertPos]
  split
  · exact Or.inl rfl
  · exact Or.inr ⟨_, rfl⟩

theorem mem_insertPages (A : SeqArith) (seq : Int) (new ps : List Page) (q : Page) :
    q ∈ insertPages A seq new ps ↔ q ∈ new ∨ q ∈ ps := by
  unfold insertPages
  have h := insertPos_append A seq ps
  constructor
  · intro hq
    simp only [List.mem_append] at hq
    rcases hq with (hq | hq) | hq
    · right; rw [← h]; exact List.mem_append_left _ hq
    · left; exact hq
    · right; rw [← h]; exact List.mem_append_right _ hq
  · intro hq
    simp only [List.mem_append]
    rcases hq with hq | hq
    · exact Or.inl (Or.inr hq)
    · rw [← h] at hq
      rcases List.mem_append.1 hq with hq | hq
      · exact Or.inl (Or.inl hq)
      · exact Or.inr hq

theorem length_insertPages (A : SeqArith) (seq : Int) (new ps : List Page) :
    (insertPages A seq new ps).length = new.length + ps.length := by
  unfold insertPages
  have h := congrArg List.length (insertPos_append A seq ps)
  simp only [List.length_append] at h ⊢
  omega

/-- first page of a list, as a predicate on its sequence number -/
def HeadNe (n : Int) : List Page → Prop
  | [] => True
  | p :: _ => p.seq ≠ n

theorem headNe_insertPages (A : SeqArith) (seq n : Int) (q : Page) (new ps : List Page)
    (hq : q.seq ≠ n) (hps : HeadNe n ps) : HeadNe n (insertPages A seq (q :: new) ps) := by
  show HeadNe n ((insertPos A seq ps).1 ++ (q :: new) ++ (insertPos A seq ps).2)
  cases ps with
  | nil => simpa [insertPos, HeadNe] using hq
  | cons p ps =>
    rcases insertPos_fst_cons A seq p ps with h | ⟨t, h⟩
    · rw [h]; simpa [HeadNe] using hq
    · rw [h]; simpa [HeadNe] using hps

/-! ### splitPages -/

theorem splitPages_head (A : SeqArith) (fuel : Nat) (seq : Int) (b : Bytes) (fin : Bool) (ts : Int) :
    ∃ r t, splitPages A fuel seq b fin ts = ⟨seq, r⟩ :: t := by
  cases fuel with
  | zero => exact ⟨_, _, rfl⟩
  | succ f =>
    simp only [splitPages]
    split
    · exact ⟨_, _, rfl⟩
    · exact ⟨_, _, rfl⟩

theorem pagesFromTCP_head (A : SeqArith) (seq : Int) (b : Bytes) (fin : Bool) (ts : Int) :
    ∃ r t, pagesFromTCP A seq b fin ts = ⟨seq, r⟩ :: t := splitPages_head A _ seq b fin ts

/-! ### addContiguous / limitPops -/

theorem addContiguous_headNe (A : SeqArith) (hA : ∀ x, A.diff x x ≤ 0) (n : Int) (ps : List Page) :
    HeadNe (addContiguous A n ps).next (addContiguous A n ps).rest := by
  induction ps generalizing n with
  | nil => simp [addContiguous, HeadNe]
  | cons p ps ih =>
    simp only [addContiguous]
    split
    · exact ih _
    · rename_i h
      simp only [HeadNe]
      intro e
      apply h
      rw [e]
      exact hA n

theorem limitPops_nil (A : SeqArith) (L : Lim) (n : Int) (ps : List Page) (np used : Int)
    (h : (limitPops A L n ps np used).items = []) :
    (limitPops A L n ps np used).next = n ∧ (limitPops A L n ps np used).rest = ps := by
  cases ps with
  | nil => simp [limitPops]
  | cons p ps =>
    simp only [limitPops] at h ⊢
    split
    · rename_i hh; simp [hh] at h
    · simp

/-! ### send / skipFlush / insertIntoConn / assembleConn keep the first page away from nextSeq -/

/-- the connection invariant behind `asm_no_wtf` -/
def NoWtf (c : Conn) : Prop := HeadNe c.nextSeq c.pages

theorem send_noWtf (A : SeqArith) (hA : ∀ x, A.diff x x ≤ 0) (c : Conn) (used : Int) (r0 : Reasm)
    (rs : List Reasm) : NoWtf (send A c used r0 rs).conn := by
  unfold send NoWtf
  dsimp only
  split <;> exact addContiguous_headNe A hA _ _

theorem skipFlush_noWtf (A : SeqArith) (hA : ∀ x, A.diff x x ≤ 0) (c : Conn) (used : Int)
    (h : NoWtf c) : NoWtf (skipFlush A c used).conn := by
  unfold skipFlush
  split
  · exact h
  · exact send_noWtf A hA _ _ _ _

theorem insertIntoConn_noWtf (A : SeqArith) (hA : ∀ x, A.diff x x ≤ 0) (L : Lim) (c : Conn)
    (used seq : Int) (b : Bytes) (fin : Bool) (ts : Int) (h : NoWtf c) (hseq : seq ≠ c.nextSeq) :
    ∃ st, insertIntoConn A L c used seq b fin ts = .ok st ∧ NoWtf st.conn := by
  unfold insertIntoConn
  have hw : wtfGuard c = false := by
    unfold NoWtf at h
    unfold wtfGuard
    cases hp : c.pages with
    | nil => rfl
    | cons p ps => rw [hp] at h; simpa [HeadNe] using h
  simp only [hw, Bool.false_eq_true, if_false]
  obtain ⟨r, t, hsp⟩ := pagesFromTCP_head A seq b fin ts
  split
  · rename_i hnil
    refine ⟨_, rfl, ?_⟩
    have := limitPops_nil A L _ _ _ _ hnil
    unfold NoWtf
    dsimp only
    rw [this.1, this.2, hsp]
    exact headNe_insertPages A seq _ ⟨seq, r⟩ t c.pages hseq h
  · exact ⟨_, rfl, send_noWtf A hA _ _ _ _⟩

theorem payloadSeq_invalid (A : SeqArith) (s : Seg) : payloadSeq A invalidSeq s = s.seq := by
  simp [payloadSeq]

theorem assembleConn_noWtf (A : SeqArith) (hA : ∀ x, A.diff x x ≤ 0) (L : Lim) (c : Conn)
    (used : Int) (s : Seg) (h : NoWtf c) (hs : s.seq ≠ invalidSeq) :
    ∃ st, assembleConn A L c used s = .ok st ∧ NoWtf st.conn := by
  unfold assembleConn
  dsimp only
  have hc : ∀ c' : Conn, c'.nextSeq = c.nextSeq → c'.pages = c.pages → NoWtf c' := by
    intro c' h1 h2; unfold NoWtf; rw [h1, h2]; exact h
  generalize hcc : (if c.lastSeen < s.ts then { c with lastSeen := s.ts } else c) = c1
  have h1 : c1.nextSeq = c.nextSeq := by rw [← hcc]; split <;> rfl
  have h2 : c1.pages = c.pages := by rw [← hcc]; split <;> rfl
  have hc1 : NoWtf c1 := hc c1 h1 h2
  by_cases hinv : c1.nextSeq = invalidSeq
  · rw [if_pos hinv]
    by_cases hsyn : s.syn = true
    · rw [if_pos hsyn]
      exact ⟨_, rfl, send_noWtf A hA _ _ _ _⟩
    · rw [if_neg hsyn]
      apply insertIntoConn_noWtf A hA L c1 used _ _ _ _ hc1
      rw [hinv, payloadSeq_invalid]; exact hs
  · rw [if_neg hinv]
    by_cases hd : A.diff c1.nextSeq (payloadSeq A c1.nextSeq s) > 0
    · rw [if_pos hd]
      apply insertIntoConn_noWtf A hA L c1 used _ _ _ _ hc1
      intro e
      rw [e] at hd
      have := hA c1.nextSeq
      omega
    · rw [if_neg hd]
      exact ⟨_, rfl, send_noWtf A hA _ _ _ _⟩

theorem flushLoop_noWtf (A : SeqArith) (hA : ∀ x, A.diff x x ≤ 0) (T : Int) (fuel : Nat) (c : Conn)
    (used : Int) (calls : List (List Reasm)) (fl : Bool) (h : NoWtf c) :
    NoWtf (flushLoop A T fuel c used calls fl).1.conn := by
  induction fuel generalizing c used calls fl with
  | zero => exact h
  | succ f ih =>
    simp only [flushLoop]
    split
    · exact h
    · split
      · split
        · exact skipFlush_noWtf A hA c used h
        · exact ih _ _ _ _ (skipFlush_noWtf A hA c used h)
      · exact h

theorem flushConn_noWtf (A : SeqArith) (hA : ∀ x, A.diff x x ≤ 0) (T : Int) (ca : Bool) (c : Conn)
    (used : Int) (h : NoWtf c) : NoWtf (flushConn A T ca c used).1.conn := by
  unfold flushConn
  dsimp only
  split <;> exact flushLoop_noWtf A hA T _ c used _ _ h

theorem flushAllLoop_noWtf (A : SeqArith) (hA : ∀ x, A.diff x x ≤ 0) (fuel : Nat) (c : Conn)
    (used : Int) (calls : List (List Reasm)) (h : NoWtf c) :
    NoWtf (flushAllLoop A fuel c used calls).conn := by
  induction fuel generalizing c used calls with
  | zero => exact h
  | succ f ih =>
    simp only [flushAllLoop]
    split
    · exact skipFlush_noWtf A hA c used h
    · exact ih _ _ _ (skipFlush_noWtf A hA c used h)

/-! ### the stream id of a connection never changes -/

theorem send_sid' (A : SeqArith) (c : Conn) (used : Int) (r0 : Reasm) (rs : List Reasm) :
    (send A c used r0 rs).conn.sid = c.sid := by
  unfold send; dsimp only; split <;> rfl

theorem skipFlush_sid (A : SeqArith) (c : Conn) (used : Int) : (skipFlush A c used).conn.sid = c.sid := by
  unfold skipFlush
  split
  · rfl
  · rw [send_sid']

theorem insertIntoConn_sid (A : SeqArith) (L : Lim) (c : Conn) (used seq : Int) (b : Bytes) (fin : Bool)
    (ts : Int) (st : Step) (h : insertIntoConn A L c used seq b fin ts = .ok st) : st.conn.sid = c.sid := by
  unfold insertIntoConn at h
  split at h
  · cases h
  · dsimp only at h
    split at h
    · cases h; rfl
    · cases h; rw [send_sid']

theorem assembleConn_sid (A : SeqArith) (L : Lim) (c : Conn) (used : Int) (s : Seg) (st : Step)
    (h : assembleConn A L c used s = .ok st) : st.conn.sid = c.sid := by
  unfold assembleConn at h
  dsimp only at h
  generalize hcc : (if c.lastSeen < s.ts then { c with lastSeen := s.ts } else c) = c1 at h
  have h1 : c1.sid = c.sid := by rw [← hcc]; split <;> rfl
  split at h
  · split at h
    · cases h; rw [send_sid']; exact h1
    · rw [insertIntoConn_sid A L c1 _ _ _ _ _ st h]; exact h1
  · split at h
    · rw [insertIntoConn_sid A L c1 _ _ _ _ _ st h]; exact h1
    · cases h; rw [send_sid']; exact h1

theorem flushLoop_sid (A : SeqArith) (T : Int) (fuel : Nat) (c : Conn) (used : Int)
    (calls : List (List Reasm)) (fl : Bool) : (flushLoop A T fuel c used calls fl).1.conn.sid = c.sid := by
  induction fuel generalizing c used calls fl with
  | zero => rfl
  | succ f ih =>
    simp only [flushLoop]
    split
    · rfl
    · split
      · split
        · exact skipFlush_sid A c used
        · rw [ih]; exact skipFlush_sid A c used
      · rfl

theorem flushConn_sid (A : SeqArith) (T : Int) (ca : Bool) (c : Conn) (used : Int) :
    (flushConn A T ca c used).1.conn.sid = c.sid := by
  unfold flushConn
  dsimp only
  split <;> exact flushLoop_sid A T _ c used _ _

theorem flushAllLoop_sid (A : SeqArith) (fuel : Nat) (c : Conn) (used : Int) (calls : List (List Reasm)) :
    (flushAllLoop A fuel c used calls).conn.sid = c.sid := by
  induction fuel generalizing c used calls with
  | zero => rfl
  | succ f ih =>
    simp only [flushAllLoop]
    split
    · exact skipFlush_sid A c used
    · rw [ih]; exact skipFlush_sid A c used

theorem flushAllConn_sid (A : SeqArith) (c : Conn) (used : Int) : (flushAllConn A c used).conn.sid = c.sid :=
  flushAllLoop_sid A _ c used _

end Gp.Asm
