/-
  Concrete tables used by the non-vacuity examples and the counterexample theorems of
  Gp/Props/C05/Parser.lean (engine dlp).
-/
import Gp.Lemmas.ParserLoop

namespace Gp.Parser.Ex

/-- A well-behaved layer: the object's state is the bytes it was decoded from; the first byte names
    the next type, the rest is the payload; empty data is an error with SetTruncated, first byte 255
    a panic.  It resets (ignores the old state) and makes progress. -/
def good : DLayer Bytes where
  canDecode := [10, 11]
  decode := fun _ data =>
    match data with
    | [] => .err [] true
    | b :: _ => if b = 255 then .panic [] false .index else .ok data (b = 254)
  nextType := fun s => match s with | b :: _ => (b.toNat : Int) | [] => 0
  payload := fun s => s.drop 1

theorem good_resets : Resets good := by intro s s' d; rfl

theorem good_progress : Progress good := by
  intro s data s' t h
  cases data with
  | nil => simp [good] at h
  | cons b rest =>
    simp only [good] at h
    by_cases hb : b = 255
    · simp [hb] at h
    · simp only [hb, if_false, DOut.ok.injEq] at h
      rw [← h.1]; simp [good]

def lookG (t : LType) : Look := if t = 10 then .found 0 else if t = 11 then .found 1 else .missing

/-- types 10 and 11: decodingLayerDecoder style; type 12: decodeIPv4 style, not in the parser's set -/
def regG (t : LType) : RegEntry Bytes :=
  if t = 10 ∨ t = 11 then .std good [] false true else if t = 12 then .std good [] true false else .none

def parserG (o : Opts) : Parser Bytes := ⟨fun _ => good, lookG, 10, some 0, o⟩

theorem parserG_consistent (o : Opts) : (parserG o).Consistent := by
  simp [Parser.Consistent, parserG, lookG]

theorem stdG : StdFor (fun _ => good) lookG regG := by
  intro t i h
  unfold lookG at h
  by_cases h10 : t = 10
  · exact ⟨good, [], false, true, by simp [regG, h10], rfl, rfl, rfl⟩
  · by_cases h11 : t = 11
    · exact ⟨good, [], false, true, by simp [regG, h11], rfl, rfl, rfl⟩
    · simp [h10, h11] at h

def st0 : PState Bytes := ⟨fun _ => [], false, []⟩

/-- A table with a decoder registered for LayerTypeZero. -/
def lookZ (t : LType) : Look := if t = 10 then .found 0 else if t = 0 then .found 1 else .missing
def parserZ : Parser Bytes := ⟨fun _ => good, lookZ, 10, some 0, ⟨false, false⟩⟩

/-- A layer that does NOT reset: a zero byte leaves the previous value in place (like IPv4.Padding). -/
def sticky : DLayer Nat where
  canDecode := [10]
  decode := fun s data =>
    match data with
    | [] => .err s true
    | b :: _ => if b = 0 then .ok s false else .ok b.toNat false
  nextType := fun _ => 0
  payload := fun _ => []

def parserS : Parser Nat := ⟨fun _ => sticky, fun t => if t = 10 then .found 0 else .missing, 10, some 0, ⟨false, false⟩⟩

end Gp.Parser.Ex
