/-
  Layer A, part 1: the regenerated sequence arithmetic of tcpassembly (Gp.Gen.SeqAsm) is correct
  across the 2^32 wrap for every pair of sequence numbers less than 2^30 apart.
-/
import Gp.Model.AsmSpec

namespace Gp.Asm
open Gp.Gen

/-- Sequence.Difference returns the true distance for |k| < 2^30, wherever `s` lies. -/
theorem difference_correct (s k : Int) (hs : 0 ≤ s) (hs' : s < 4294967296)
    (hk : -1073741824 < k) (hk' : k < 1073741824) :
    SeqAsm.difference s ((s + k) % 4294967296) = k := by
  unfold SeqAsm.difference
  dsimp only
  split
  · omega
  · split <;> omega

/-- Sequence.Add is addition modulo 2^32 and stays in [0, 2^32). -/
theorem add_mod (s n : Int) :
    SeqAsm.add s n = (s + n) % 4294967296 ∧ 0 ≤ SeqAsm.add s n ∧ SeqAsm.add s n < 4294967296 := by
  unfold SeqAsm.add
  omega

theorem difference_self (x : Int) : SeqAsm.difference x x = 0 := by
  unfold SeqAsm.difference
  dsimp only
  split <;> (try split) <;> omega

theorem wrap_add_valid (s n : Int) : wrapArith.add s n ≠ invalidSeq := by
  show SeqAsm.add s n ≠ SeqAsm.invalidSequence
  have := (add_mod s n).2.1
  unfold SeqAsm.invalidSequence
  omega

theorem wrap_diff_self (x : Int) : wrapArith.diff x x ≤ 0 := by
  show SeqAsm.difference x x ≤ 0
  rw [difference_self]; exact Int.le_refl 0

theorem wf_seq_ne (ops : List Op) (hwf : ∀ op ∈ ops, WfOp op) :
    ∀ op ∈ ops, (match op with | .seg s => s.seq ≠ invalidSeq | _ => True) := by
  intro op hop
  have := hwf op hop
  cases op with
  | seg s =>
    simp only [WfOp] at this
    show s.seq ≠ SeqAsm.invalidSequence
    unfold SeqAsm.invalidSequence
    omega
  | _ => trivial

end Gp.Asm
