import Gp.Lemmas.PcapNgCalls
import Gp.Lemmas.PcapNgTrunc
/-
  Prefix consistency of whole-file reads (C14): reading the first `k` bytes of ANY input returns the
  packets of the complete read that end at an offset ≤ k, followed by EOF / unexpected EOF (or an error
  wrapping one of them, in blocks whose errors the reader wraps) — lifted from `run_trunc` (one program
  run) to NewNgReader + a sequence of calls.
-/
namespace Gp.PcapNg
open Gp.Gen.PcapNg

/-- the reader on the stream cut after `k` more bytes -/
def Rd.cut (r : Rd) (k : Nat) : Rd := ⟨r.s, r.w.trunc k⟩

theorem run_fuel_eq {α} (p : Prog α) (nh : NoHang p) (f f' : Nat) (s : S) (w : Strm)
    (h1 : w.inp.length < f) (h2 : w.inp.length < f') : run f p s w = run f' p s w := by
  by_cases hle : f ≤ f'
  · exact (run_fuel p f f' hle s w (nh f s w h1)).symm
  · exact run_fuel p f' f (by omega) s w (nh f' s w h2)

theorem trunc_len (w : Strm) (k : Nat) : (w.trunc k).inp.length = min k w.inp.length := by
  simp [Strm.trunc, List.length_take]

/-- one call on the cut stream -/
theorem readPacket_trunc (r : Rd) (k : Nat) :
    TruncSpec (readPacket r) { r.w with ev := [] } k (readPacket (r.cut k)) := by
  unfold readPacket Rd.cut
  have e1 : ({ r.w.trunc k with ev := [] } : Strm) = ({ r.w with ev := [] } : Strm).trunc k := rfl
  show TruncSpec _ _ k (run ((r.w.trunc k).inp.length + 1) readPacketP r.s { r.w.trunc k with ev := [] })
  rw [e1]
  have hl : (({ r.w with ev := [] } : Strm).trunc k).inp.length ≤ r.w.inp.length := by
    rw [trunc_len]; exact Nat.min_le_right _ _
  have hl2 : (r.w.trunc k).inp.length = (({ r.w with ev := [] } : Strm).trunc k).inp.length := rfl
  rw [run_fuel_eq readPacketP NoHang.readPacketP ((r.w.trunc k).inp.length + 1) (r.w.inp.length + 1) r.s _
    (by omega) (by omega)]
  exact run_trunc _ readPacketP r.s { r.w with ev := [] } k

/-- the same with `TruncSpec` spelled out -/
theorem readPacket_cut_cases (r : Rd) (k : Nat) :
    (r.w.inp.length - (readPacket r).w.inp.length ≤ k →
        readPacket (r.cut k) = (readPacket r).mapW (Strm.trunc (k - (r.w.inp.length - (readPacket r).w.inp.length)))) ∧
    (k < r.w.inp.length - (readPacket r).w.inp.length →
        ∃ e s' w', readPacket (r.cut k) = .fail e s' w' ∧ w'.inp = [] ∧ ShortE e ∧
          (e = .werr → r.w.nWrap < (readPacket r).w.nWrap)) :=
  readPacket_trunc r k

/-- read until the first failure, recording the offset reached after each packet:
    (packets with end offsets, final error, offset reached by the failing call, final reader) -/
def readAllE : Nat → Nat → Rd → List (Pkt × Nat) × Err × Nat × Rd
  | 0, pos, r => ([], .hang, pos, r)
  | f + 1, pos, r =>
    match readPacket r with
    | .ok p s w =>
      ((p, pos + (r.w.inp.length - w.inp.length)) :: (readAllE f (pos + (r.w.inp.length - w.inp.length)) ⟨s, w⟩).1,
       (readAllE f (pos + (r.w.inp.length - w.inp.length)) ⟨s, w⟩).2)
    | .fail e s w => ([], e, pos + (r.w.inp.length - w.inp.length), ⟨s, w⟩)

/-- `readAllE` is `readAllF` with offsets -/
theorem readAllE_erase : ∀ (f pos : Nat) (r : Rd),
    (readAllE f pos r).1.map Prod.fst = (readAllF f r).1 ∧ (readAllE f pos r).2.1 = (readAllF f r).2.1 ∧
    (readAllE f pos r).2.2.2 = (readAllF f r).2.2 := by
  intro f
  induction f with
  | zero => intro pos r; exact ⟨rfl, rfl, rfl⟩
  | succ f ih =>
    intro pos r
    simp only [readAllE, readAllF]
    cases readPacket r with
    | ok p s w =>
      have := ih (pos + (r.w.inp.length - w.inp.length)) ⟨s, w⟩
      simp only [List.map_cons]
      exact ⟨by rw [this.1], this.2.1, this.2.2⟩
    | fail e s w => exact ⟨rfl, rfl, rfl⟩

theorem readAllE_pos_ge : ∀ (f pos : Nat) (r : Rd),
    (∀ x ∈ (readAllE f pos r).1, pos ≤ x.2) ∧ pos ≤ (readAllE f pos r).2.2.1 := by
  intro f
  induction f with
  | zero => intro pos r; exact ⟨fun x hx => (by cases hx), Nat.le_refl _⟩
  | succ f ih =>
    intro pos r
    simp only [readAllE]
    cases readPacket r with
    | ok p s w =>
      have := ih (pos + (r.w.inp.length - w.inp.length)) ⟨s, w⟩
      dsimp only
      refine ⟨fun x hx => ?_, by have := this.2; omega⟩
      simp only [List.mem_cons] at hx
      rcases hx with rfl | hx
      · simp
      · have := this.1 x hx; omega
    | fail e s w => exact ⟨fun x hx => (by cases hx), by simp⟩

theorem readPacket_wrap (r : Rd) : r.w.nWrap ≤ (readPacket r).w.nWrap :=
  (run_reach (r.w.inp.length + 1) readPacketP r.s { r.w with ev := [] }).wrap

theorem readAllE_wrap : ∀ (f pos : Nat) (r : Rd), r.w.nWrap ≤ (readAllE f pos r).2.2.2.w.nWrap := by
  intro f
  induction f with
  | zero => intro pos r; exact Nat.le_refl _
  | succ f ih =>
    intro pos r
    have h1 := readPacket_wrap r
    simp only [readAllE]
    cases hr : readPacket r with
    | ok p s w =>
      rw [hr] at h1
      have := ih (pos + (r.w.inp.length - w.inp.length)) ⟨s, w⟩
      simp only [Out.w] at h1
      simp only at this ⊢
      omega
    | fail e s w => rw [hr] at h1; exact h1

/-- result of a cut read relative to the complete read -/
def CutSpec (k : Nat) (nw : Nat) (full cut : List (Pkt × Nat) × Err × Nat × Rd) : Prop :=
  cut.1 = full.1.filter (fun x => decide (x.2 ≤ k)) ∧
  ((full.2.2.1 ≤ k ∧ cut.2.1 = full.2.1 ∧ cut.2.2.1 = full.2.2.1) ∨
   (k < full.2.2.1 ∧ ShortE cut.2.1 ∧ (cut.2.1 = .werr → nw < full.2.2.2.w.nWrap)))

theorem readAllE_cut : ∀ (f : Nat) (r : Rd) (pos k f' : Nat),
    r.w.inp.length < f → (r.cut (k - pos)).w.inp.length < f' → pos ≤ k →
    CutSpec k r.w.nWrap (readAllE f pos r) (readAllE f' pos (r.cut (k - pos))) := by
  intro f
  induction f with
  | zero => intro r pos k f' h; omega
  | succ f ih =>
    intro r pos k f' hf hf' hpos
    cases f' with
    | zero => omega
    | succ f' =>
      have hts := readPacket_cut_cases r (k - pos)
      have hlen := readPacket_len_le r
      have hcl : (r.cut (k - pos)).w.inp.length = min (k - pos) r.w.inp.length := trunc_len _ _
      simp only [readAllE]
      cases hr : readPacket r with
      | ok p s w =>
        rw [hr] at hts hlen
        have hc8 := readPacket_consumes hr
        simp only [Out.w] at hlen hts
        by_cases hc : r.w.inp.length - w.inp.length ≤ k - pos
        · -- the call fits into the cut stream
          have hot := hts.1 hc
          rw [hot]
          simp only [Out.mapW]
          have hwl : (w.trunc (k - pos - (r.w.inp.length - w.inp.length))).inp.length
              = min (k - pos - (r.w.inp.length - w.inp.length)) w.inp.length := trunc_len _ _
          have hpos' : pos + ((r.cut (k - pos)).w.inp.length - (w.trunc (k - pos - (r.w.inp.length - w.inp.length))).inp.length)
              = pos + (r.w.inp.length - w.inp.length) := by
            rw [hcl, hwl]; omega
          rw [hpos']
          have hk' : k - pos - (r.w.inp.length - w.inp.length) = k - (pos + (r.w.inp.length - w.inp.length)) := by omega
          have hcut : (⟨s, w.trunc (k - pos - (r.w.inp.length - w.inp.length))⟩ : Rd)
              = (⟨s, w⟩ : Rd).cut (k - (pos + (r.w.inp.length - w.inp.length))) := by
            rw [hk']; rfl
          rw [hcut]
          have := ih ⟨s, w⟩ (pos + (r.w.inp.length - w.inp.length)) k f' (by simp only; omega)
            (by rw [← hcut]; simp only; rw [hwl]; rw [hcl] at hf'; omega) (by omega)
          unfold CutSpec at this ⊢
          simp only at this ⊢
          refine ⟨?_, ?_⟩
          · rw [List.filter_cons, if_pos (by simp; omega), this.1]
          · rcases this.2 with h | ⟨h1, h2, h3⟩
            · exact Or.inl h
            · refine Or.inr ⟨h1, h2, fun he => ?_⟩
              have h4 := h3 he
              have h5 := readPacket_wrap r
              rw [hr] at h5
              simp only [Out.w] at h5
              omega
        · -- the call needs bytes beyond the cut
          obtain ⟨e', s', w', hot, hnil, hshort, hwr⟩ := hts.2 (by omega)
          rw [hot]
          have hge := readAllE_pos_ge f (pos + (r.w.inp.length - w.inp.length)) ⟨s, w⟩
          have hwm := readAllE_wrap f (pos + (r.w.inp.length - w.inp.length)) ⟨s, w⟩
          unfold CutSpec
          simp only
          refine ⟨?_, Or.inr ⟨by have := hge.2; omega, hshort, ?_⟩⟩
          · rw [List.filter_cons, if_neg (by simp; omega)]
            symm
            rw [List.filter_eq_nil_iff]
            intro x hx
            have := hge.1 x hx
            simp; omega
          · intro he
            have := hwr he
            simp only at hwm
            omega
      | fail e s w =>
        rw [hr] at hts hlen
        simp only [Out.w] at hlen hts
        by_cases hc : r.w.inp.length - w.inp.length ≤ k - pos
        · have hot := hts.1 hc
          rw [hot]
          simp only [Out.mapW]
          have hwl : (w.trunc (k - pos - (r.w.inp.length - w.inp.length))).inp.length
              = min (k - pos - (r.w.inp.length - w.inp.length)) w.inp.length := trunc_len _ _
          have hpos' : pos + ((r.cut (k - pos)).w.inp.length - (w.trunc (k - pos - (r.w.inp.length - w.inp.length))).inp.length)
              = pos + (r.w.inp.length - w.inp.length) := by
            rw [hcl, hwl]; omega
          unfold CutSpec
          simp only
          exact ⟨by simp, Or.inl ⟨by omega, trivial, hpos'⟩⟩
        · obtain ⟨e', s', w', hot, hnil, hshort, hwr⟩ := hts.2 (by omega)
          rw [hot]
          unfold CutSpec
          simp only
          exact ⟨by simp, Or.inr ⟨by omega, hshort, hwr⟩⟩

/-! ### NewNgReader -/

/-- NewNgReader + read to the first failure, with offsets into the input -/
def readFileE (cfg : Cfg) (inp : Bytes) : List (Pkt × Nat) × Err × Nat × Rd :=
  match openReader cfg inp with
  | .ok _ s w => readAllE (w.inp.length + 1) (inp.length - w.inp.length) ⟨s, w⟩
  | .fail e s w => ([], e, inp.length - w.inp.length, ⟨s, w⟩)

theorem readFileE_erase (cfg : Cfg) (inp : Bytes) :
    (readFileE cfg inp).1.map Prod.fst = (readFile cfg inp).1 ∧ (readFileE cfg inp).2.1 = (readFile cfg inp).2.1 ∧
    (readFileE cfg inp).2.2.2 = (readFile cfg inp).2.2 := by
  unfold readFileE readFile readAll
  cases openReader cfg inp with
  | ok u s w => exact readAllE_erase _ _ _
  | fail e s w => exact ⟨rfl, rfl, rfl⟩

def isGzip (inp : Bytes) : Prop :=
  match inp with
  | a :: b :: _ => a.toNat = magicGzip1 ∧ b.toNat = magicGzip2
  | _ => False

theorem run_bind_len_le {α β} (f : Nat) (m : Prog α) (g : α → Prog β) (s : S) (w : Strm) :
    (run f (m >>= g) s w).w.inp.length ≤ (run f m s w).w.inp.length := by
  rw [run_bind']
  cases hr : run f m s w with
  | ok a s' w' => exact (run_reach f (g a) s' w').len_le
  | fail e s' w' => exact Nat.le_refl _

/-- the first read of NewNgReader takes 8 bytes or everything -/
theorem openP_consumed (f : Nat) (s : S) (w : Strm) (h : 2 ≤ w.inp.length) :
    (run f openP s w).w.inp.length + 2 ≤ w.inp.length := by
  have h1 : (run f openP s w).w.inp.length ≤ (run f readBlock s w).w.inp.length := by
    unfold openP; exact run_bind_len_le _ _ _ _ _
  have h2 : (run f readBlock s w).w.inp.length ≤ (run f (Prog.io (.rd0 8)) s w).w.inp.length := by
    unfold readBlock; exact run_bind_len_le _ _ _ _ _
  have h3 : (run f (Prog.io (.rd0 8)) s w).w.inp.length + 2 ≤ w.inp.length := by
    simp only [run, Prim.run]
    by_cases h8 : 8 ≤ w.inp.length
    · simp only [h8, if_true, Out.w, List.length_drop]; omega
    · have hne : w.inp.isEmpty = false := by
        cases hw : w.inp with
        | nil => rw [hw] at h; simp at h
        | cons a t => rfl
      simp only [h8, if_false, hne, Bool.false_eq_true, Out.w, List.length_nil]
      omega
  omega

/-- what NewNgReader's caller gets from the outcome `o` of the open on an input of `total` bytes -/
def afterOpen (total : Nat) (o : Out Unit) : List (Pkt × Nat) × Err × Nat × Rd :=
  match o with
  | .ok _ s w => readAllE (w.inp.length + 1) (total - w.inp.length) ⟨s, w⟩
  | .fail e s w => ([], e, total - w.inp.length, ⟨s, w⟩)

theorem CutSpec.weaken {k nw nw' : Nat} {full cut : List (Pkt × Nat) × Err × Nat × Rd}
    (h : CutSpec k nw full cut) (hn : nw' ≤ nw) : CutSpec k nw' full cut := by
  refine ⟨h.1, ?_⟩
  rcases h.2 with h2 | ⟨h1, h2, h3⟩
  · exact Or.inl h2
  · exact Or.inr ⟨h1, h2, fun he => Nat.lt_of_le_of_lt hn (h3 he)⟩

theorem afterOpen_far {k c : Nat} {o : Out Unit} {total : Nat} (hc : total - o.w.inp.length = c) (hk : k < c) :
    (afterOpen total o).1.filter (fun x => decide (x.2 ≤ k)) = [] ∧ k < (afterOpen total o).2.2.1 ∧
    o.w.nWrap ≤ (afterOpen total o).2.2.2.w.nWrap := by
  cases o with
  | ok u s w =>
    simp only [Out.w] at hc
    simp only [afterOpen, hc, Out.w]
    have hge := readAllE_pos_ge (w.inp.length + 1) c ⟨s, w⟩
    have hwm := readAllE_wrap (w.inp.length + 1) c ⟨s, w⟩
    refine ⟨?_, by have := hge.2; omega, hwm⟩
    rw [List.filter_eq_nil_iff]
    intro x hx
    have := hge.1 x hx
    simp; omega
  | fail e s w =>
    simp only [Out.w] at hc
    simp only [afterOpen, hc, Out.w]
    exact ⟨rfl, hk, Nat.le_refl _⟩

/-- the outcome of the open on the cut stream, continued by the calls -/
theorem afterOpen_cut (o ot : Out Unit) (w0 : Strm) (k : Nat) (hlen : o.w.inp.length ≤ w0.inp.length)
    (hwrap : w0.nWrap ≤ o.w.nWrap) (hts : TruncSpec o w0 k ot) :
    CutSpec k w0.nWrap (afterOpen w0.inp.length o) (afterOpen (min k w0.inp.length) ot) := by
  by_cases hc : w0.inp.length - o.w.inp.length ≤ k
  · have hot := hts.1 hc
    rw [hot]
    cases o with
    | ok u s w =>
      simp only [Out.w] at hc hlen hwrap
      simp only [Out.mapW, afterOpen, Out.w]
      have hwl : (w.trunc (k - (w0.inp.length - w.inp.length))).inp.length
          = min (k - (w0.inp.length - w.inp.length)) w.inp.length := trunc_len _ _
      have hpos : min k w0.inp.length - (w.trunc (k - (w0.inp.length - w.inp.length))).inp.length
          = w0.inp.length - w.inp.length := by rw [hwl]; omega
      rw [hpos]
      have hcut : (⟨s, w.trunc (k - (w0.inp.length - w.inp.length))⟩ : Rd)
          = (⟨s, w⟩ : Rd).cut (k - (w0.inp.length - w.inp.length)) := rfl
      rw [hcut]
      have := readAllE_cut (w.inp.length + 1) ⟨s, w⟩ (w0.inp.length - w.inp.length) k
        (((⟨s, w⟩ : Rd).cut (k - (w0.inp.length - w.inp.length))).w.inp.length + 1) (Nat.lt_succ_self _) (Nat.lt_succ_self _) hc
      exact CutSpec.weaken this hwrap
    | fail e s w =>
      simp only [Out.w] at hc hlen
      simp only [Out.mapW, afterOpen, Out.w]
      have hwl : (w.trunc (k - (w0.inp.length - w.inp.length))).inp.length
          = min (k - (w0.inp.length - w.inp.length)) w.inp.length := trunc_len _ _
      have hpos : min k w0.inp.length - (w.trunc (k - (w0.inp.length - w.inp.length))).inp.length
          = w0.inp.length - w.inp.length := by rw [hwl]; omega
      exact ⟨by simp, Or.inl ⟨hc, rfl, hpos⟩⟩
  · obtain ⟨e', s', w', hot, hnil, hshort, hwr⟩ := hts.2 (by omega)
    rw [hot]
    have hfar := afterOpen_far (o := o) (total := w0.inp.length) rfl (by omega : k < w0.inp.length - o.w.inp.length)
    have hcut : afterOpen (min k w0.inp.length) (Out.fail e' s' w')
        = ([], e', min k w0.inp.length - w'.inp.length, ⟨s', w'⟩) := rfl
    rw [hcut]
    refine ⟨hfar.1.symm, Or.inr ⟨hfar.2.1, hshort, fun he => ?_⟩⟩
    have h1 := hwr he
    have h2 := hfar.2.2
    omega

theorem readFileE_eq (cfg : Cfg) (inp : Bytes) : readFileE cfg inp = afterOpen inp.length (openReader cfg inp) := by
  unfold readFileE afterOpen
  cases openReader cfg inp <;> rfl

theorem take_cons_cons (a b : UInt8) (t : Bytes) (k : Nat) (hk : 2 ≤ k) :
    (a :: b :: t).take k = a :: b :: t.take (k - 2) := by
  match k, hk with
  | k + 2, _ => simp

/-- Reading the first `k` bytes of ANY input that does not start with the gzip magic: the packets are
    those of the complete read that end at an offset ≤ k; if the complete read stopped at an offset
    ≤ k the outcome is the same, otherwise the cut read ends with EOF / unexpected EOF, or with an error
    wrapping one of them — and then the complete read wrapped an error too. -/
theorem readFileE_cut (cfg : Cfg) (inp : Bytes) (k : Nat) (hg : ¬ isGzip inp) :
    CutSpec k 0 (readFileE cfg inp) (readFileE cfg (inp.take k)) := by
  match inp, hg with
  | [], _ =>
    rw [List.take_nil]
    exact ⟨by simp [readFileE, openReader], Or.inl ⟨by simp [readFileE, openReader], rfl, rfl⟩⟩
  | [x], _ =>
    cases k with
    | zero =>
      refine ⟨by simp [readFileE, openReader], Or.inr ⟨by simp [readFileE, openReader], ?_, ?_⟩⟩
      · simp [readFileE, openReader, ShortE]
      · simp [readFileE, openReader]
    | succ k =>
      have : [x].take (k + 1) = [x] := by simp
      rw [this]
      exact ⟨by simp [readFileE, openReader], Or.inl ⟨by simp [readFileE, openReader], rfl, rfl⟩⟩
  | a :: b :: t, hg =>
    have hng : ¬ (a.toNat = magicGzip1 ∧ b.toNat = magicGzip2) := hg
    have hfull : openReader cfg (a :: b :: t)
        = run ((a :: b :: t).length + 1) openP { cfg := cfg } { inp := a :: b :: t } := by
      simp only [openReader, hng, if_false]
    rw [readFileE_eq, readFileE_eq, hfull]
    have hreach := run_reach ((a :: b :: t).length + 1) openP { cfg := cfg } { inp := a :: b :: t }
    by_cases hk : 2 ≤ k
    · have hcutop : openReader cfg ((a :: b :: t).take k)
          = run ((a :: b :: t).length + 1) openP { cfg := cfg } (({ inp := a :: b :: t } : Strm).trunc k) := by
        rw [take_cons_cons a b t k hk]
        simp only [openReader, hng, if_false]
        have e1 : ({ inp := a :: b :: t.take (k - 2) } : Strm) = (({ inp := a :: b :: t } : Strm).trunc k) := by
          simp only [Strm.trunc]; rw [take_cons_cons a b t k hk]
        rw [e1]
        refine run_fuel_eq openP NoHang.openP _ _ _ _ ?_ ?_
        · rw [trunc_len]; simp only [List.length_cons, List.length_take]; omega
        · rw [trunc_len]; simp only [List.length_cons]; omega
      rw [hcutop]
      have hlen : ((a :: b :: t).take k).length = min k (a :: b :: t).length := List.length_take
      rw [hlen]
      exact afterOpen_cut _ _ { inp := a :: b :: t } k hreach.len_le hreach.wrap (run_trunc _ openP _ _ k)
    · -- fewer than two bytes are left: NewNgReader fails in Peek(2)
      have hcons := openP_consumed ((a :: b :: t).length + 1) { cfg := cfg } { inp := a :: b :: t } (by simp)
      have hfar := afterOpen_far (k := k) (total := (a :: b :: t).length)
        (o := run ((a :: b :: t).length + 1) openP { cfg := cfg } { inp := a :: b :: t }) rfl
        (by simp only [List.length_cons] at hcons ⊢; omega)
      have hk01 : k = 0 ∨ k = 1 := by omega
      rcases hk01 with rfl | rfl
      · refine ⟨by rw [hfar.1]; simp [afterOpen, openReader], Or.inr ⟨hfar.2.1, ?_, ?_⟩⟩
        · simp [afterOpen, openReader, ShortE]
        · simp [afterOpen, openReader]
      · refine ⟨by rw [hfar.1]; simp [afterOpen, openReader], Or.inr ⟨hfar.2.1, ?_, ?_⟩⟩
        · simp [afterOpen, openReader, ShortE]
        · simp [afterOpen, openReader]

/-- the packets of a cut read are a prefix of the packets of the complete read -/
theorem readAllE_filter_take (k : Nat) : ∀ (f pos : Nat) (r : Rd),
    ∃ m, (readAllE f pos r).1.filter (fun x => decide (x.2 ≤ k)) = (readAllE f pos r).1.take m := by
  intro f
  induction f with
  | zero => intro pos r; exact ⟨0, rfl⟩
  | succ f ih =>
    intro pos r
    simp only [readAllE]
    cases readPacket r with
    | fail e s w => exact ⟨0, rfl⟩
    | ok p s w =>
      dsimp only
      by_cases hle : pos + (r.w.inp.length - w.inp.length) ≤ k
      · obtain ⟨m, hm⟩ := ih (pos + (r.w.inp.length - w.inp.length)) ⟨s, w⟩
        refine ⟨m + 1, ?_⟩
        rw [List.filter_cons, if_pos (by simpa using hle), hm, List.take_succ_cons]
      · refine ⟨0, ?_⟩
        rw [List.filter_cons, if_neg (by simpa using hle), List.take_zero, List.filter_eq_nil_iff]
        intro x hx
        have := (readAllE_pos_ge f (pos + (r.w.inp.length - w.inp.length)) ⟨s, w⟩).1 x hx
        simp; omega

theorem readFileE_filter_take (cfg : Cfg) (inp : Bytes) (k : Nat) :
    ∃ m, (readFileE cfg inp).1.filter (fun x => decide (x.2 ≤ k)) = (readFileE cfg inp).1.take m := by
  unfold readFileE
  cases openReader cfg inp with
  | ok u s w => exact readAllE_filter_take k _ _ _
  | fail e s w => exact ⟨0, rfl⟩

end Gp.PcapNg
