/-
  Per-stream invariants indexed by the full HISTORY of a stream (created / segments fed / items got /
  completed), lifted to histories of the whole assembler.  Generalises `AsmLog.StreamInv`:
  `R key conn hist` for live connections, `D key hist` for streams that are not (or no longer) live.
-/
import Gp.Lemmas.AsmLog

namespace Gp.Asm

def stepHist (st : Step) : List HEv :=
  st.calls.map HEv.got ++ (if st.closed then [HEv.completed] else [])

def tag (k sid : Nat) (h : List HEv) : Trace := h.map (fun e => (k, sid, e))

theorem histOf_append (k sid : Nat) (t1 t2 : Trace) :
    histOf k sid (t1 ++ t2) = histOf k sid t1 ++ histOf k sid t2 := by
  simp [histOf, List.filterMap_append]

theorem histOf_tag (k sid k' sid' : Nat) (h : List HEv) :
    histOf k sid (tag k' sid' h) = if k' = k ∧ sid' = sid then h else [] := by
  induction h with
  | nil => simp [tag, histOf]
  | cons e h ih =>
    have : tag k' sid' (e :: h) = (k', sid', e) :: tag k' sid' h := rfl
    rw [this]
    unfold histOf at ih ⊢
    rw [List.filterMap_cons]
    by_cases hc : k' = k ∧ sid' = sid
    · simp only [hc, and_self, if_true] at ih ⊢
      rw [ih]
    · simp only [hc, if_false] at ih ⊢
      exact ih

theorem evsOf_toT (k : Nat) (st : Step) : (evsOf k st).map toT = tag k st.conn.sid (stepHist st) := by
  unfold evsOf stepHist tag
  rw [List.map_append, List.map_append, List.map_map, List.map_map]
  congr 1
  split <;> rfl

structure StreamInv2 (A : SeqArith) (R : Nat → Conn → List HEv → Prop)
    (D : Nat → List HEv → Prop) (Pre : Seg → Prop) : Prop where
  nil : ∀ k, D k []
  fresh : ∀ k ts sid, R k ⟨invalidSeq, [], 0, ts, sid⟩ [HEv.created]
  asm : ∀ L c used s h, R s.key c h → Pre s →
    ∃ st, assembleConn A L c used s = .ok st ∧
      (st.closed = false → R s.key st.conn (h ++ HEv.fed s :: stepHist st)) ∧
      (st.closed = true → D s.key (h ++ HEv.fed s :: stepHist st))
  flush : ∀ k T ca c used h, R k c h →
    ((flushConn A T ca c used).1.closed = false →
      R k (flushConn A T ca c used).1.conn (h ++ stepHist (flushConn A T ca c used).1)) ∧
    ((flushConn A T ca c used).1.closed = true → D k (h ++ stepHist (flushConn A T ca c used).1))
  flushAll : ∀ k c used h, R k c h →
    ((flushAllConn A c used).closed = false →
      R k (flushAllConn A c used).conn (h ++ stepHist (flushAllConn A c used))) ∧
    ((flushAllConn A c used).closed = true → D k (h ++ stepHist (flushAllConn A c used)))

structure TraceInv (R : Nat → Conn → List HEv → Prop) (D : Nat → List HEv → Prop)
    (P : Pool) (tr : Trace) : Prop where
  sorted : KeysSorted P.conns
  live : ∀ k c, lookup k P.conns = some c → c.sid < P.nextSid ∧ R k c (histOf k c.sid tr)
  dead : ∀ k sid, (∀ c, lookup k P.conns = some c → c.sid ≠ sid) → D k (histOf k sid tr)
  unused : ∀ k sid, P.nextSid ≤ sid → histOf k sid tr = []

/-- writing back the result of a step of stream `(k, sid)` whose history grew by `hnew` -/
theorem putBack_traceInv {R : Nat → Conn → List HEv → Prop} {D : Nat → List HEv → Prop}
    (P : Pool) (tr : Trace) (k sid : Nat) (st : Step) (hnew : List HEv) (h : TraceInv R D P tr)
    (hold : ∀ c, lookup k P.conns = some c → c.sid = sid)
    (hsid : st.conn.sid = sid) (hlt : sid < P.nextSid)
    (hR : st.closed = false → R k st.conn (histOf k sid tr ++ hnew))
    (hD : st.closed = true → D k (histOf k sid tr ++ hnew)) :
    TraceInv R D (putBack P k st) (tr ++ tag k sid hnew) := by
  have hh : ∀ k' sid', histOf k' sid' (tr ++ tag k sid hnew) =
      histOf k' sid' tr ++ (if k = k' ∧ sid = sid' then hnew else []) := by
    intro k' sid'; rw [histOf_append, histOf_tag]
  refine ⟨?_, ?_, ?_, ?_⟩
  · unfold putBack
    split
    · exact sorted_remove _ _ h.sorted
    · exact sorted_upsert _ _ _ h.sorted
  · intro k' c' hl
    rw [putBack_nextSid]
    by_cases hk : k' = k
    · subst hk
      rw [lookup_putBack_self P k' st h.sorted] at hl
      split at hl
      · cases hl
      · rename_i hc
        cases hl
        rw [hsid]
        refine ⟨hlt, ?_⟩
        rw [hh, if_pos ⟨rfl, rfl⟩]
        exact hR (by simpa using hc)
    · rw [lookup_putBack_ne P k k' st h.sorted hk] at hl
      obtain ⟨a1, a2⟩ := h.live k' c' hl
      refine ⟨a1, ?_⟩
      rw [hh, if_neg (fun hx => hk hx.1.symm), List.append_nil]
      exact a2
  · intro k' sid' hnl
    rw [hh]
    by_cases hk : k' = k
    · subst hk
      rw [lookup_putBack_self P k' st h.sorted] at hnl
      by_cases hs : sid = sid'
      · subst hs
        rw [if_pos ⟨rfl, rfl⟩]
        by_cases hc : st.closed = true
        · exact hD hc
        · rw [if_neg hc] at hnl
          exact absurd hsid (hnl st.conn rfl)
      · rw [if_neg (fun hx => hs hx.2), List.append_nil]
        apply h.dead
        intro c hl e
        exact hs ((hold c hl).symm.trans e)
    · rw [if_neg (fun hx => hk hx.1.symm), List.append_nil]
      apply h.dead
      intro c hl
      rw [← lookup_putBack_ne P k k' st h.sorted hk] at hl
      exact hnl c hl
  · intro k' sid' hle
    rw [putBack_nextSid] at hle
    rw [hh, h.unused k' sid' hle, if_neg (by intro hx; omega)]
    rfl

theorem traceInv_newConn {R : Nat → Conn → List HEv → Prop} {D : Nat → List HEv → Prop}
    (P : Pool) (tr : Trace) (ts : Int) (h : TraceInv R D P tr) : TraceInv R D (newConn P ts).2 tr := by
  refine ⟨h.sorted, ?_, h.dead, ?_⟩
  · intro k c hl
    obtain ⟨a1, a2⟩ := h.live k c hl
    exact ⟨Nat.lt_succ_of_lt a1, a2⟩
  · intro k sid hle
    exact h.unused k sid (Nat.le_of_succ_le hle)

theorem opTrace_seg (P : Pool) (s : Seg) (out : OpOut) :
    opTrace P (.seg s) out =
      if received P s then
        match lookup s.key P.conns with
        | some c => (s.key, c.sid, HEv.fed s) :: out.evs.map toT
        | none => (s.key, P.nextSid, HEv.created) :: (s.key, P.nextSid, HEv.fed s) :: (out.evs.drop 1).map toT
      else [] := rfl

theorem assemble_traceInv {A : SeqArith} {R : Nat → Conn → List HEv → Prop}
    {D : Nat → List HEv → Prop} {Pre : Seg → Prop} (hI : StreamInv2 A R D Pre)
    (P : Pool) (tr : Trace) (s : Seg) (h : TraceInv R D P tr) (hs : Pre s) :
    ∃ x, assemble A P s = .ok x ∧ TraceInv R D x.1 (tr ++ opTrace P (.seg s) ⟨x.2, none⟩) := by
  unfold assemble
  by_cases h1 : (!s.syn && !s.fin && !s.rst && s.bytes.isEmpty) = true
  · rw [if_pos h1]
    have hr : received P s = false := by unfold received; rw [h1]; rfl
    refine ⟨_, rfl, ?_⟩
    rw [opTrace_seg, hr]
    simpa using h
  · rw [if_neg h1]
    have h1' : (!s.syn && !s.fin && !s.rst && s.bytes.isEmpty) = false := by simpa using h1
    cases hl : lookup s.key P.conns with
    | some c =>
      dsimp only
      have hr : received P s = true := by unfold received; rw [h1', hl]; rfl
      obtain ⟨a1, a2⟩ := h.live _ _ hl
      obtain ⟨st, hst, hR, hD⟩ := hI.asm P.lim c P.used s _ a2 hs
      rw [hst]
      refine ⟨_, rfl, ?_⟩
      rw [opTrace_seg, hr, if_pos rfl, hl]
      dsimp only
      have hsid := assembleConn_sid A _ _ _ _ _ hst
      have := putBack_traceInv P tr s.key c.sid st (HEv.fed s :: stepHist st) h
        (fun c' hl' => by rw [hl] at hl'; cases hl'; rfl) hsid a1 hR hD
      rw [evsOf_toT, hsid]
      exact this
    | none =>
      dsimp only
      by_cases h2 : (!s.syn && s.bytes.isEmpty) = true
      · rw [if_pos h2]
        have hr : received P s = false := by unfold received; rw [h1', hl, h2]; rfl
        refine ⟨_, rfl, ?_⟩
        rw [opTrace_seg, hr]
        simpa using h
      · rw [if_neg h2]
        have h2' : (!s.syn && s.bytes.isEmpty) = false := by simpa using h2
        have hr : received P s = true := by unfold received; rw [h1', hl, h2']; rfl
        have hP1 := traceInv_newConn P tr s.ts h
        have hR0 : R s.key (newConn P s.ts).1 [HEv.created] := hI.fresh _ _ _
        obtain ⟨st, hst, hR, hD⟩ := hI.asm (newConn P s.ts).2.lim (newConn P s.ts).1 (newConn P s.ts).2.used s _ hR0 hs
        rw [hst]
        refine ⟨_, rfl, ?_⟩
        rw [opTrace_seg, hr, if_pos rfl, hl]
        rw [show List.drop 1 (Ev.new s.key (newConn P s.ts).1.sid :: evsOf s.key st) = evsOf s.key st from rfl]
        have hsid := assembleConn_sid A _ _ _ _ _ hst
        have hu : histOf s.key P.nextSid tr = [] := h.unused _ _ (Nat.le_refl _)
        have := putBack_traceInv (newConn P s.ts).2 tr s.key P.nextSid st
          (HEv.created :: HEv.fed s :: stepHist st) hP1
          (fun c' hl' => by rw [show (newConn P s.ts).2.conns = P.conns from rfl, hl] at hl'; cases hl')
          hsid (Nat.lt_succ_self _)
          (by rw [hu]; exact hR) (by rw [hu]; exact hD)
        rw [evsOf_toT, hsid]
        exact this

theorem flushWithList_traceInv {A : SeqArith} {R : Nat → Conn → List HEv → Prop}
    {D : Nat → List HEv → Prop} {Pre : Seg → Prop} (hI : StreamInv2 A R D Pre)
    (T : Int) (ca : Bool) (tr : Trace) (cs : List (Nat × Conn)) (acc : FlushRes)
    (hcs : KeysSorted cs) (hin : ∀ k c, (k, c) ∈ cs → lookup k acc.pool.conns = some c)
    (h : TraceInv R D acc.pool (tr ++ acc.evs.map toT)) :
    TraceInv R D (flushWithList A T ca cs acc).pool (tr ++ (flushWithList A T ca cs acc).evs.map toT) := by
  induction cs generalizing acc with
  | nil => exact h
  | cons x cs ih =>
    obtain ⟨k, c⟩ := x
    unfold KeysSorted at hcs
    rw [List.pairwise_cons] at hcs
    simp only [flushWithList]
    apply ih _ hcs.2
    · intro k' c' hm
      have hlt := hcs.1 (k', c') hm
      have hne : k' ≠ k := by simp at hlt; omega
      show lookup k' (putBack acc.pool k _).conns = some c'
      rw [lookup_putBack_ne _ _ _ _ h.sorted hne]
      exact hin k' c' (List.mem_cons_of_mem _ hm)
    · have hl := hin k c List.mem_cons_self
      obtain ⟨a1, a2⟩ := h.live k c hl
      obtain ⟨hR, hD⟩ := hI.flush k T ca c acc.pool.used _ a2
      have hsid := flushConn_sid A T ca c acc.pool.used
      have := putBack_traceInv acc.pool (tr ++ acc.evs.map toT) k c.sid
        (flushConn A T ca c acc.pool.used).1 (stepHist (flushConn A T ca c acc.pool.used).1) h
        (fun c' hl' => by rw [hl] at hl'; cases hl'; rfl) hsid a1 hR hD
      show TraceInv R D _ (tr ++ (acc.evs ++ evsOf k (flushConn A T ca c acc.pool.used).1).map toT)
      rw [List.map_append, evsOf_toT, hsid, ← List.append_assoc]
      exact this

theorem flushAllList_traceInv {A : SeqArith} {R : Nat → Conn → List HEv → Prop}
    {D : Nat → List HEv → Prop} {Pre : Seg → Prop} (hI : StreamInv2 A R D Pre)
    (tr : Trace) (cs : List (Nat × Conn)) (acc : FlushRes)
    (hcs : KeysSorted cs) (hin : ∀ k c, (k, c) ∈ cs → lookup k acc.pool.conns = some c)
    (h : TraceInv R D acc.pool (tr ++ acc.evs.map toT)) :
    TraceInv R D (flushAllList A cs acc).pool (tr ++ (flushAllList A cs acc).evs.map toT) := by
  induction cs generalizing acc with
  | nil => exact h
  | cons x cs ih =>
    obtain ⟨k, c⟩ := x
    unfold KeysSorted at hcs
    rw [List.pairwise_cons] at hcs
    simp only [flushAllList]
    apply ih _ hcs.2
    · intro k' c' hm
      have hlt := hcs.1 (k', c') hm
      have hne : k' ≠ k := by simp at hlt; omega
      show lookup k' (putBack acc.pool k _).conns = some c'
      rw [lookup_putBack_ne _ _ _ _ h.sorted hne]
      exact hin k' c' (List.mem_cons_of_mem _ hm)
    · have hl := hin k c List.mem_cons_self
      obtain ⟨a1, a2⟩ := h.live k c hl
      obtain ⟨hR, hD⟩ := hI.flushAll k c acc.pool.used _ a2
      have hsid := flushAllConn_sid A c acc.pool.used
      have := putBack_traceInv acc.pool (tr ++ acc.evs.map toT) k c.sid
        (flushAllConn A c acc.pool.used) (stepHist (flushAllConn A c acc.pool.used)) h
        (fun c' hl' => by rw [hl] at hl'; cases hl'; rfl) hsid a1 hR hD
      show TraceInv R D _ (tr ++ (acc.evs ++ evsOf k (flushAllConn A c acc.pool.used)).map toT)
      rw [List.map_append, evsOf_toT, hsid, ← List.append_assoc]
      exact this

theorem step_traceInv {A : SeqArith} {R : Nat → Conn → List HEv → Prop}
    {D : Nat → List HEv → Prop} {Pre : Seg → Prop} (hI : StreamInv2 A R D Pre)
    (P : Pool) (tr : Trace) (op : Op) (h : TraceInv R D P tr) (hop : OpPre Pre op) :
    ∃ x, step A P op = .ok x ∧ TraceInv R D x.1 (tr ++ opTrace P op x.2) := by
  cases op with
  | opt a b =>
    refine ⟨_, rfl, ?_⟩
    show TraceInv R D { P with lim := ⟨a, b⟩ } (tr ++ [])
    rw [List.append_nil]
    exact ⟨h.sorted, h.live, h.dead, h.unused⟩
  | seg s =>
    obtain ⟨x, hx, hq⟩ := assemble_traceInv hI P tr s h hop
    simp only [step, hx]
    exact ⟨_, rfl, hq⟩
  | flush T ca =>
    refine ⟨_, rfl, ?_⟩
    exact flushWithList_traceInv hI T ca tr P.conns _ h.sorted
      (fun k c hm => lookup_of_mem k c _ h.sorted hm) (by simpa using h)
  | flushAll =>
    refine ⟨_, rfl, ?_⟩
    exact flushAllList_traceInv hI tr P.conns _ h.sorted
      (fun k c hm => lookup_of_mem k c _ h.sorted hm) (by simpa using h)

theorem run_traceInv {A : SeqArith} {R : Nat → Conn → List HEv → Prop}
    {D : Nat → List HEv → Prop} {Pre : Seg → Prop} (hI : StreamInv2 A R D Pre)
    (P : Pool) (tr : Trace) (ops : List Op) (h : TraceInv R D P tr)
    (hops : ∀ op ∈ ops, OpPre Pre op) :
    ∃ x, run A P ops = .ok x ∧ TraceInv R D x.1 (tr ++ runTrace A P ops) := by
  induction ops generalizing P tr with
  | nil => exact ⟨_, rfl, by simpa [runTrace] using h⟩
  | cons op ops ih =>
    obtain ⟨x, hx, hq⟩ := step_traceInv hI P tr op h (hops op List.mem_cons_self)
    obtain ⟨y, hy, hq'⟩ := ih x.1 _ hq (fun o ho => hops o (List.mem_cons_of_mem _ ho))
    simp only [run, runTrace, hx, hy]
    refine ⟨_, rfl, ?_⟩
    rw [← List.append_assoc]
    exact hq'

theorem traceInv_init {R : Nat → Conn → List HEv → Prop} {D : Nat → List HEv → Prop}
    (hnil : ∀ k, D k []) : TraceInv R D {} [] :=
  ⟨by simp [KeysSorted], by intro k c h; simp [lookup] at h, fun k _ _ => hnil k, fun _ _ _ => rfl⟩

end Gp.Asm
