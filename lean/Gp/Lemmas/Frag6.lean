/-
  Helper lemmas for C13 (engine frag6): the sorted insert of ip6defrag keeps the list equal to
  "the datagram's fragments filtered by already seen"; the completeness walk succeeds exactly when
  nothing is missing; the rebuilt payload is the concatenation.
-/
import Gp.Model.Frag6

namespace Gp.Frag6

/-! ### Sorted lists -/

def Srt (l : List Frag6) : Prop := l.Pairwise (fun a b => a.off < b.off)

theorem srt_ext : ∀ (l m : List Frag6), Srt l → Srt m → (∀ x, x ∈ l ↔ x ∈ m) → l = m
  | [], [], _, _, _ => rfl
  | [], b :: m, _, _, h => by
    have := (h b).2 (List.mem_cons_self ..); cases this
  | a :: l, [], _, _, h => by
    have := (h a).1 (List.mem_cons_self ..); cases this
  | a :: l, b :: m, hl, hm, h => by
    have hl' := List.pairwise_cons.1 hl
    have hm' := List.pairwise_cons.1 hm
    have hab : a = b := by
      have h1 := (h a).1 (List.mem_cons_self ..)
      have h2 := (h b).2 (List.mem_cons_self ..)
      rcases List.mem_cons.1 h1 with e | h1
      · exact e
      · rcases List.mem_cons.1 h2 with e | h2
        · exact e.symm
        · have := hl'.1 b h2; have := hm'.1 a h1; omega
    subst hab
    congr 1
    apply srt_ext l m hl'.2 hm'.2
    intro x
    constructor
    · intro hx
      rcases List.mem_cons.1 ((h x).1 (List.mem_cons_of_mem _ hx)) with e | hx'
      · subst e; have := hl'.1 x hx; omega
      · exact hx'
    · intro hx
      rcases List.mem_cons.1 ((h x).2 (List.mem_cons_of_mem _ hx)) with e | hx'
      · subst e; have := hm'.1 x hx; omega
      · exact hx'

theorem ins_dup : ∀ (l : List Frag6) (x : Frag6), Srt l → x ∈ l → ins x l = l
  | [], _, _, h => by cases h
  | g :: l, x, hs, h => by
    have hs' := List.pairwise_cons.1 hs
    unfold ins
    rcases List.mem_cons.1 h with e | h'
    · simp [e]
    · have := hs'.1 x h'
      have h1 : ¬ x.off = g.off := by omega
      have h2 : ¬ x.off < g.off := by omega
      simp [h1, h2, ins_dup l x hs'.2 h']

theorem ins_new : ∀ (l : List Frag6) (x : Frag6), Srt l → (∀ g ∈ l, g.off ≠ x.off) →
    Srt (ins x l) ∧ ∀ y, y ∈ ins x l ↔ y = x ∨ y ∈ l
  | [], x, _, _ => by simp [ins, Srt]
  | g :: l, x, hs, hne => by
    have hs' := List.pairwise_cons.1 hs
    unfold ins
    have h1 : ¬ x.off = g.off := fun e => hne g (List.mem_cons_self ..) e.symm
    by_cases h2 : x.off < g.off
    · simp only [h1, h2, if_true, if_false]
      refine ⟨List.pairwise_cons.2 ⟨?_, hs⟩, fun y => by simp⟩
      intro y hy
      rcases List.mem_cons.1 hy with e | hy'
      · rw [e]; exact h2
      · have := hs'.1 y hy'; omega
    · simp only [h1, h2, if_false]
      obtain ⟨ih1, ih2⟩ := ins_new l x hs'.2 (fun y hy => hne y (List.mem_cons_of_mem _ hy))
      refine ⟨List.pairwise_cons.2 ⟨?_, ih1⟩, ?_⟩
      · intro y hy
        rcases (ih2 y).1 hy with e | hy'
        · subst e; omega
        · exact hs'.1 y hy'
      · intro y
        simp only [List.mem_cons, ih2 y]
        constructor
        · rintro (e | e | e)
          · exact Or.inr (Or.inl e)
          · exact Or.inl e
          · exact Or.inr (Or.inr e)
        · rintro (e | e | e)
          · exact Or.inr (Or.inl e)
          · exact Or.inl e
          · exact Or.inr (Or.inr e)

theorem pairwise_trichotomy {R : Frag6 → Frag6 → Prop} : ∀ (l : List Frag6), l.Pairwise R →
    ∀ a b, a ∈ l → b ∈ l → a = b ∨ R a b ∨ R b a
  | [], _, _, _, ha, _ => by cases ha
  | c :: l, h, a, b, ha, hb => by
    have h' := List.pairwise_cons.1 h
    rcases List.mem_cons.1 ha with ea | ha'
    · rcases List.mem_cons.1 hb with eb | hb'
      · left; rw [ea, eb]
      · right; left; rw [ea]; exact h'.1 b hb'
    · rcases List.mem_cons.1 hb with eb | hb'
      · right; right; rw [eb]; exact h'.1 a ha'
      · exact pairwise_trichotomy l h'.2 a b ha' hb'

/-! ### Datagrams and their fragments -/

structure Piece6 where
  data : Bytes
  nh : Nat
  deriving DecidableEq, Repr

structure Dgram6 where
  src : Nat
  dst : Nat
  id : Nat
  pieces : List Piece6
  deriving Repr

def Dgram6.payload (D : Dgram6) : Bytes := D.pieces.flatMap (·.data)

/-- Next-header value of the last piece (what DefragIPv6 copies into the result). -/
def lastNh : List Piece6 → Nat
  | [] => 0
  | [p] => p.nh
  | _ :: q :: r => lastNh (q :: r)

/-- The stored form of the fragment carrying piece `p` at byte offset `start`. -/
def mk6 (D : Dgram6) (start : Nat) (p : Piece6) (more : Bool) : Frag6 :=
  { hdr := if start / 8 = 0 then some (D.src, D.dst) else none, off := start / 8, payload := p.data,
    more := more, nh := p.nh }

def mkFrags6 (D : Dgram6) : Nat → List Piece6 → List Frag6
  | _, [] => []
  | start, p :: rest => mk6 D start p (!rest.isEmpty) :: mkFrags6 D (start + p.data.length) rest

/-- The fragments of the datagram as DefragIPv6 stores them, in offset order. -/
def Dgram6.frags (D : Dgram6) : List Frag6 := mkFrags6 D 0 D.pieces

def total6 : List Piece6 → Nat
  | [] => 0
  | p :: r => p.data.length + total6 r

def Pieces6Ok : List Piece6 → Prop
  | [] => True
  | p :: rest => 0 < p.data.length ∧ (rest ≠ [] → p.data.length % 8 = 0) ∧ Pieces6Ok rest

/-- At least one piece, pieces non-empty, all but the last multiples of 8, at most 65535 bytes. -/
def Dgram6.wf (D : Dgram6) : Prop :=
  D.pieces ≠ [] ∧ Pieces6Ok D.pieces ∧ D.payload.length ≤ 65535

theorem payload6_length : ∀ (ps : List Piece6), (ps.flatMap (·.data)).length = total6 ps
  | [] => rfl
  | p :: r => by simp [List.flatMap_cons, total6, payload6_length r]

theorem mk6_nextOff (D : Dgram6) (s : Nat) (p : Piece6) (more : Bool) (hs : s % 8 = 0)
    (hal : p.data.length % 8 = 0) (hle : s + p.data.length ≤ 65535) :
    (mk6 D s p more).nextOff = (s + p.data.length) / 8 := by
  show u16 (s / 8 + u16 (p.data.length / 8)) = _
  unfold u16; omega

theorem mkFrags6_off (D : Dgram6) : ∀ (ps : List Piece6) (s : Nat) (f : Frag6), f ∈ mkFrags6 D s ps →
    s / 8 ≤ f.off
  | [], _, _, h => by cases h
  | p :: rest, s, f, h => by
    rcases List.mem_cons.1 h with e | h'
    · rw [e]; exact Nat.le_refl _
    · have := mkFrags6_off D rest (s + p.data.length) f h'
      have : s / 8 ≤ (s + p.data.length) / 8 := Nat.div_le_div_right (by omega)
      omega

theorem mkFrags6_srt (D : Dgram6) : ∀ (ps : List Piece6) (s : Nat), s % 8 = 0 → Pieces6Ok ps →
    Srt (mkFrags6 D s ps)
  | [], _, _, _ => List.Pairwise.nil
  | p :: rest, s, hs, hok => by
    cases rest with
    | nil => simp [mkFrags6, Srt]
    | cons q r =>
      have hal := hok.2.1 (by simp)
      have hpos := hok.1
      refine List.pairwise_cons.2 ⟨?_, mkFrags6_srt D (q :: r) (s + p.data.length) (by omega) hok.2.2⟩
      intro b hb
      have := mkFrags6_off D (q :: r) (s + p.data.length) b hb
      show s / 8 < b.off
      omega

/-! ### The completeness walk and the rebuild -/

/-- All pieces present: the walk succeeds and the payload is the concatenation. -/
theorem walk_gather_full (D : Dgram6) : ∀ (ps : List Piece6) (s : Nat), ps ≠ [] → s % 8 = 0 →
    Pieces6Ok ps → s + total6 ps ≤ 65535 →
    walk (mkFrags6 D s ps) = true ∧ gather (mkFrags6 D s ps) = (ps.flatMap (·.data), lastNh ps)
  | [], _, h, _, _, _ => absurd rfl h
  | [p], s, _, _, _, _ => by simp [mkFrags6, walk, gather, mk6, lastNh]
  | p :: q :: r, s, _, hs, hok, hle => by
    have hal := hok.2.1 (by simp)
    simp only [total6] at hle
    obtain ⟨ih1, ih2⟩ := walk_gather_full D (q :: r) (s + p.data.length) (by simp) (by omega) hok.2.2
      (by simp only [total6]; omega)
    have hn := mk6_nextOff D s p true hs hal (by omega)
    have hcons : mkFrags6 D s (p :: q :: r) =
        mk6 D s p true :: mk6 D (s + p.data.length) q (!r.isEmpty) ::
          mkFrags6 D (s + p.data.length + q.data.length) r := rfl
    have htail : mkFrags6 D (s + p.data.length) (q :: r) =
        mk6 D (s + p.data.length) q (!r.isEmpty) :: mkFrags6 D (s + p.data.length + q.data.length) r := rfl
    rw [hcons]
    rw [htail] at ih1 ih2
    constructor
    · rw [walk]
      have hm : (mk6 D s p true).more = true := rfl
      have ho : (mk6 D (s + p.data.length) q (!r.isEmpty)).off = (s + p.data.length) / 8 := rfl
      simp only [hm, Bool.not_true, Bool.false_eq_true, if_false, hn, ho, ne_eq, not_true_eq_false]
      exact ih1
    · rw [gather]
      have hm : (mk6 D s p true).more = true := rfl
      simp only [hm, Bool.not_true, Bool.false_eq_true, if_false, ih2, List.flatMap_cons, lastNh]
      rfl

/-- Something is missing behind a present fragment `g₀` that expects the chain to continue at
    `s`: the walk fails. -/
theorem walk_missing (D : Dgram6) (p : Frag6 → Bool) : ∀ (ps : List Piece6) (s : Nat) (g₀ : Frag6),
    s % 8 = 0 → Pieces6Ok ps → s + total6 ps ≤ 65535 → g₀.more = true → g₀.nextOff = s / 8 →
    (∃ g ∈ mkFrags6 D s ps, p g = false) → walk (g₀ :: (mkFrags6 D s ps).filter p) = false
  | [], _, _, _, _, _, _, _, ⟨g, hg, _⟩ => by cases hg
  | q :: rest, s, g₀, hs, hok, hle, hm, hn, hex => by
    simp only [total6] at hle
    have hcons : mkFrags6 D s (q :: rest) =
        mk6 D s q (!rest.isEmpty) :: mkFrags6 D (s + q.data.length) rest := rfl
    rw [hcons, List.filter_cons]
    by_cases hp : p (mk6 D s q (!rest.isEmpty)) = true
    · rw [if_pos hp, walk]
      have ho : (mk6 D s q (!rest.isEmpty)).off = s / 8 := rfl
      simp only [hm, Bool.not_true, Bool.false_eq_true, if_false, hn, ho, ne_eq, not_true_eq_false]
      -- the missing one is further down
      have hex' : ∃ g ∈ mkFrags6 D (s + q.data.length) rest, p g = false := by
        obtain ⟨g, hg, hpg⟩ := hex
        rw [hcons] at hg
        rcases List.mem_cons.1 hg with e | hg'
        · rw [e, hp] at hpg; cases hpg
        · exact ⟨g, hg', hpg⟩
      have hne : rest ≠ [] := by
        intro e; obtain ⟨g, hg, _⟩ := hex'; rw [e] at hg; cases hg
      have hal := hok.2.1 hne
      have hmore : (mk6 D s q (!rest.isEmpty)).more = true := by
        show (!rest.isEmpty) = true
        cases rest with
        | nil => exact absurd rfl hne
        | cons _ _ => rfl
      exact walk_missing D p rest (s + q.data.length) _ (by omega) hok.2.2 (by omega) hmore
        (mk6_nextOff D s q _ hs hal (by omega)) hex'
    · rw [if_neg hp]
      cases hL : (mkFrags6 D (s + q.data.length) rest).filter p with
      | nil => simp [walk, hm]
      | cons h t =>
        have hmem : h ∈ mkFrags6 D (s + q.data.length) rest := by
          have : h ∈ (mkFrags6 D (s + q.data.length) rest).filter p := by rw [hL]; exact List.mem_cons_self ..
          exact (List.mem_filter.1 this).1
        have hoff := mkFrags6_off D rest (s + q.data.length) h hmem
        have hne : rest ≠ [] := by intro e; rw [e] at hmem; cases hmem
        have hal := hok.2.1 hne
        have hpos := hok.1
        rw [walk]
        have : g₀.nextOff ≠ h.off := by rw [hn]; omega
        simp [hm, this]

/-- The answer of DefragIPv6 when at least one fragment of the datagram is still missing. -/
theorem finish_missing (D : Dgram6) (hD : D.wf) (p : Frag6 → Bool) (hex : ∃ g ∈ D.frags, p g = false) :
    finish (D.frags.filter p) = .none := by
  obtain ⟨hne, hok, hlen⟩ := hD
  unfold Dgram6.payload at hlen
  rw [payload6_length] at hlen
  unfold Dgram6.frags at *
  cases hps : D.pieces with
  | nil => exact absurd hps hne
  | cons q rest =>
    rw [hps] at hok hlen hex
    simp only [total6] at hlen
    have hcons : mkFrags6 D 0 (q :: rest) = mk6 D 0 q (!rest.isEmpty) :: mkFrags6 D (0 + q.data.length) rest := rfl
    rw [hcons, List.filter_cons]
    by_cases hp : p (mk6 D 0 q (!rest.isEmpty)) = true
    · rw [if_pos hp]
      have hex' : ∃ g ∈ mkFrags6 D (0 + q.data.length) rest, p g = false := by
        obtain ⟨g, hg, hpg⟩ := hex
        rw [hcons] at hg
        rcases List.mem_cons.1 hg with e | hg'
        · rw [e, hp] at hpg; cases hpg
        · exact ⟨g, hg', hpg⟩
      have hne' : rest ≠ [] := by
        intro e; obtain ⟨g, hg, _⟩ := hex'; rw [e] at hg; cases hg
      have hal := hok.2.1 hne'
      have hmore : (mk6 D 0 q (!rest.isEmpty)).more = true := by
        show (!rest.isEmpty) = true
        cases rest with
        | nil => exact absurd rfl hne'
        | cons _ _ => rfl
      have hw := walk_missing D p rest (0 + q.data.length) _ (by omega) hok.2.2 (by omega) hmore
        (mk6_nextOff D 0 q _ rfl hal (by omega)) hex'
      unfold finish
      have ho : (mk6 D 0 q (!rest.isEmpty)).off = 0 := rfl
      simp only [ho, ne_eq, not_true_eq_false, if_false, hw, Bool.not_false, if_true]
    · rw [if_neg hp]
      cases hL : (mkFrags6 D (0 + q.data.length) rest).filter p with
      | nil => rfl
      | cons h t =>
        have hmem : h ∈ mkFrags6 D (0 + q.data.length) rest := by
          have : h ∈ (mkFrags6 D (0 + q.data.length) rest).filter p := by rw [hL]; exact List.mem_cons_self ..
          exact (List.mem_filter.1 this).1
        have hoff := mkFrags6_off D rest (0 + q.data.length) h hmem
        have hne' : rest ≠ [] := by intro e; rw [e] at hmem; cases hmem
        have hal := hok.2.1 hne'
        have hpos := hok.1
        unfold finish
        have : h.off ≠ 0 := by omega
        simp [this]

/-- The answer of DefragIPv6 when every fragment is stored. -/
theorem finish_full (D : Dgram6) (hD : D.wf) :
    finish D.frags = .out D.src D.dst (lastNh D.pieces) D.payload := by
  obtain ⟨hne, hok, hlen⟩ := hD
  unfold Dgram6.payload at hlen
  rw [payload6_length] at hlen
  obtain ⟨hw, hg⟩ := walk_gather_full D D.pieces 0 hne rfl hok (by omega)
  unfold Dgram6.frags Dgram6.payload at *
  cases hps : D.pieces with
  | nil => exact absurd hps hne
  | cons q rest =>
    rw [hps] at hw hg
    have hcons : mkFrags6 D 0 (q :: rest) = mk6 D 0 q (!rest.isEmpty) :: mkFrags6 D (0 + q.data.length) rest := rfl
    rw [hcons] at hw hg ⊢
    unfold finish
    have ho : (mk6 D 0 q (!rest.isEmpty)).off = 0 := rfl
    have hh : (mk6 D 0 q (!rest.isEmpty)).hdr = some (D.src, D.dst) := rfl
    simp only [ho, ne_eq, not_true_eq_false, if_false, hw, Bool.not_true, Bool.false_eq_true, hg, hh]

/-! ### The map -/

theorem lookup_set_self (st : State) (id : Nat) (l : List Frag6) : (st.set id l).lookup id = some l := by
  simp [State.lookup, State.set]

theorem find_filter_ne (l : List (Nat × List Frag6)) (k k' : Nat) (h : k' ≠ k) :
    (l.filter (fun p => !decide (p.1 = k))).find? (fun p => decide (p.1 = k')) =
      l.find? (fun p => decide (p.1 = k')) := by
  induction l with
  | nil => rfl
  | cons a l ih =>
    rw [List.filter_cons]
    by_cases h1 : a.1 = k
    · have h2 : ¬ a.1 = k' := fun e => h (e.symm.trans h1)
      have e1 : (!decide (a.1 = k)) = false := by simp [h1]
      have e2 : decide (a.1 = k') = false := by simp [h2]
      rw [e1, List.find?_cons, e2]
      simpa using ih
    · have e1 : (!decide (a.1 = k)) = true := by simp [h1]
      rw [e1]
      simp only [if_true, List.find?_cons, ih]

theorem lookup_set_ne (st : State) (k k' : Nat) (l : List Frag6) (h : k' ≠ k) :
    (st.set k l).lookup k' = st.lookup k' := by
  have h2 : ¬ k = k' := fun e => h e.symm
  unfold State.lookup State.set
  simp only [List.find?_cons, h2, decide_false, find_filter_ne _ _ _ h]

theorem chain_set_self (st : State) (id : Nat) (l : List Frag6) : (st.set id l).chain id = l := by
  unfold State.chain; rw [lookup_set_self]

theorem chain_set_ne (st : State) (k k' : Nat) (l : List Frag6) (h : k' ≠ k) :
    (st.set k l).chain k' = st.chain k' := by
  unfold State.chain; rw [lookup_set_ne _ _ _ _ h]

end Gp.Frag6
