import Gp.Lemmas.Packet
/-
  The failure contract of C01 for the packet builder (framework part).  Core Lean only.
  Definitions used in the statements of Gp/Props/C01/Pkt.lean first, proof machinery after.
-/
namespace Gp.Pkt

/-! ## Definitions used in the property statements -/

/-- The failure contract of C01 on a finished packet `q`.  `failed` = some decoder failed.
    If failed: the last layer is a DecodeFailure (nil payload), it is the only DecodeFailure layer,
    and ErrorLayer() is that layer (`strong`) / is non-nil (`¬strong`: a decoder called
    SetErrorLayer itself earlier — "the first call is kept").
    If nothing failed: no DecodeFailure layer, and (`strong`) ErrorLayer() is nil. -/
def ContractG (strong : Bool) (failed : Bool) (q : Pkt) : Prop :=
  if failed then
    ∃ pre f, q.layers = pre ++ [f] ∧ f.fail = true ∧ f.payLen = 0 ∧ (∀ l ∈ pre, l.fail = false)
      ∧ (if strong then q.failure = some f else q.failure.isSome = true) ∧ q.last = some f
  else (∀ l ∈ q.layers, l.fail = false) ∧ (strong = true → q.failure = none)

/-- Full contract (no decoder calls SetErrorLayer itself). -/
abbrev Contract (failed : Bool) (q : Pkt) : Prop := ContractG true failed q
/-- Contract when decoders may call SetErrorLayer themselves. -/
abbrev ContractWeak (failed : Bool) (q : Pkt) : Prop := ContractG false failed q

/-- No DecodeFailure among the layers. -/
def NoFailLayers (p : Pkt) : Prop := ∀ l ∈ p.layers, l.fail = false

/-- Packet-level invariant while nothing has failed. -/
def CleanG (strong : Bool) (p : Pkt) : Prop := NoFailLayers p ∧ (strong = true → p.failure = none)

/-- Table-level hypothesis matching `strong`. -/
def TableOk (strong : Bool) (tab : Table) : Prop := NoScriptedFail tab ∧ (strong = true → NoSetErr tab)

/-! ## Invariants carried through decoder bodies -/

theorem eagerBeh_inv (I : Pkt → Prop) (run : DecId → Nat → Nat → Pkt → Option (Pkt × Out))
    (hrun : ∀ d off len p r, run d off len p = some r → I p → I r.1) (b : Beh) :
    (∀ a ∈ b.acts, ∀ p, I p → I (applyAct a p)) →
    ∀ p r, eagerBeh run b p = some r → I p → I r.1 := by
  induction b with
  | ret e => intro _ p r h hi; simp [eagerBeh] at h; subst h; exact hi
  | panic => intro _ p r h hi; simp [eagerBeh] at h; subst h; exact hi
  | act a k ih =>
    intro ha p r h hi
    simp only [eagerBeh] at h
    exact ih (fun a' h' => ha a' (by simp [Beh.acts, h'])) _ r h (ha a (by simp [Beh.acts]) p hi)
  | next d kOk kErr ih1 ih2 =>
    intro ha p r h hi
    have ha1 : ∀ a ∈ kOk.acts, ∀ p, I p → I (applyAct a p) := fun a h' => ha a (by simp [Beh.acts, h'])
    have ha2 : ∀ a ∈ kErr.acts, ∀ p, I p → I (applyAct a p) := fun a h' => ha a (by simp [Beh.acts, h'])
    cases d with
    | none => simp only [eagerBeh] at h; exact ih2 ha2 p r h hi
    | some d' =>
      simp only [eagerBeh] at h
      split at h
      · exact ih2 ha2 p r h hi
      · split at h
        · exact ih1 ha1 p r h hi
        · split at h
          · cases h
          · rename_i p' heq; exact ih1 ha1 p' r h (hrun _ _ _ _ _ heq hi)
          · rename_i p' heq; exact ih2 ha2 p' r h (hrun _ _ _ _ _ heq hi)
          · rename_i p' heq; cases h; exact hrun _ _ _ _ _ heq hi

theorem eagerDec_inv (I : Pkt → Prop) (tab : Table)
    (hact : ∀ d data off len, ∀ a ∈ (tab d data off len).acts, ∀ p, I p → I (applyAct a p)) :
    ∀ (fuel : Nat) (d : DecId) (off len : Nat) (p : Pkt) (r : Pkt × Out),
      eagerDec tab fuel d off len p = some r → I p → I r.1 := by
  intro fuel
  induction fuel with
  | zero => intro d off len p r h; simp [eagerDec] at h
  | succ n ih =>
    intro d off len p r h hi
    simp only [eagerDec] at h
    exact eagerBeh_inv I (eagerDec tab n) (fun d off len p r => ih d off len p r) _ (hact d p.data off len) p r h hi

theorem lazyBeh_inv (I : Pkt → Prop) (b : Beh) :
    (∀ a ∈ b.acts, ∀ p, I p → I (applyAct a p)) → ∀ lp : LPkt, I lp.p → I (lazyBeh b lp).1.p := by
  induction b with
  | ret e => intro _ lp hi; exact hi
  | panic => intro _ lp hi; exact hi
  | act a k ih =>
    intro ha lp hi
    exact ih (fun a' h' => ha a' (by simp [Beh.acts, h'])) { lp with p := applyAct a lp.p } (ha a (by simp [Beh.acts]) lp.p hi)
  | next d kOk kErr ih1 ih2 =>
    intro ha lp hi
    cases d with
    | none => exact ih2 (fun a h' => ha a (by simp [Beh.acts, h'])) lp hi
    | some d' => exact ih1 (fun a h' => ha a (by simp [Beh.acts, h'])) { lp with next := some d' } hi

/-- The `next` field is untouched by a body that… no: it can change; but `data` never does. -/
theorem cleanG_act (strong : Bool) (tab : Table) (hT : TableOk strong tab) (d : DecId) (data : Bytes) (off len : Nat) :
    ∀ a ∈ (tab d data off len).acts, ∀ p, CleanG strong p → CleanG strong (applyAct a p) := by
  intro a ha p hc
  obtain ⟨h1, h2⟩ := hc
  cases a with
  | add l =>
    refine ⟨?_, h2⟩
    intro l' hl'
    simp only [applyAct, Pkt.addLayer, List.mem_append, List.mem_singleton] at hl'
    rcases hl' with hl' | hl'
    · exact h1 l' hl'
    · subst hl'; exact hT.1 d data off len _ ha
  | setErr l =>
    refine ⟨h1, ?_⟩
    intro hs
    exact absurd ha (hT.2 hs d data off len l)
  | setLink l => exact ⟨h1, h2⟩
  | setNet l => exact ⟨h1, h2⟩
  | setTrans l => exact ⟨h1, h2⟩
  | setApp l => exact ⟨h1, h2⟩
  | trunc => exact ⟨h1, h2⟩

theorem failLayer_fail (p : Pkt) : (failLayer p).fail = true := by
  unfold failLayer; split <;> rfl

theorem failLayer_payLen (p : Pkt) : (failLayer p).payLen = 0 := by
  simp [Layer.payLen, failLayer_fail]

/-- addFinalDecodeError on a clean packet establishes the failed-contract. -/
theorem addFinal_contract (strong : Bool) (p : Pkt) (hc : CleanG strong p) : ContractG strong true (addFinal p) := by
  obtain ⟨h1, h2⟩ := hc
  simp only [ContractG, if_true]
  refine ⟨p.layers, failLayer p, rfl, failLayer_fail p, failLayer_payLen p, h1, ?_, rfl⟩
  cases strong with
  | true => simp only [if_true]; simp [addFinal, Pkt.addLayer, h2 rfl, setOnce]
  | false => simp [addFinal, setOnce_isSome]

theorem clean_contract (strong : Bool) (p : Pkt) (hc : CleanG strong p) : ContractG strong false p := by
  unfold ContractG
  simp only [Bool.false_eq_true, if_false]
  exact hc

theorem cleanG_init (strong : Bool) (data : Bytes) : CleanG strong { data := data } :=
  ⟨by intro l h; simp at h, fun _ => rfl⟩

/-! ## Eager -/

theorem newEager_contract (strong : Bool) (tab : Table) (hT : TableOk strong tab) (fuel : Nat) (data : Bytes)
    (first : Option DecId) (q : Pkt) (h : newEager tab fuel true data first = .ok q) :
    ContractG strong (eagerFailed tab fuel data first) q := by
  cases first with
  | none =>
    simp only [newEager, if_true] at h
    cases h
    exact addFinal_contract strong _ (cleanG_init strong data)
  | some d =>
    simp only [newEager] at h
    simp only [eagerFailed]
    cases hr : eagerDec tab fuel d 0 data.length { data := data } with
    | none => rw [hr] at h; cases h
    | some r =>
      obtain ⟨p, out⟩ := r
      have hc : CleanG strong p :=
        eagerDec_inv (CleanG strong) tab (cleanG_act strong tab hT) fuel d 0 data.length _ _ hr (cleanG_init strong data)
      rw [hr] at h
      cases out with
      | ret e =>
        cases e with
        | false => simp at h; subst h; exact clean_contract strong _ hc
        | true => simp at h; subst h; exact addFinal_contract strong _ hc
      | panic => simp at h; subst h; exact addFinal_contract strong _ hc

/-! ## Lazy -/

/-- After a failure the lazy packet is frozen: the DecodeFailure's payload is nil, so
    decodeNextLayer only clears `next`. -/
theorem force_frozen (strong : Bool) (tab : Table) : ∀ (n : Nat) (lp : LPkt) (q : Pkt),
    force tab n lp = some q → ContractG strong true lp.p → q = lp.p := by
  intro n
  induction n with
  | zero =>
    intro lp q h _
    cases hn : lp.next with
    | none => rw [force_of_none _ _ _ hn] at h; cases h; rfl
    | some d => simp [force, hn] at h
  | succ n ih =>
    intro lp q h hc
    cases hn : lp.next with
    | none => rw [force_of_none _ _ _ hn] at h; cases h; rfl
    | some d =>
      rw [force_succ_of_some _ _ _ _ hn] at h
      simp only [ContractG, if_true] at hc
      obtain ⟨pre, f, _, _, hpl, _, _, hlast⟩ := hc
      have hw : inputWin lp.p = (f.poff, 0) := by rw [inputWin_of_last _ _ hlast, hpl]
      have hlp : lp = ⟨lp.p, some d⟩ := by cases lp; simp at hn; simp [hn]
      rw [hlp, step_empty tab true lp.p d f.poff hw, force_of_none _ _ _ rfl] at h
      cases h; rfl

theorem stepFailed_of_none (tab : Table) (lp : LPkt) (h : lp.next = none) : stepFailed tab lp = false := by
  simp [stepFailed, h]

/-- One decodeNextLayer from a clean state: either nothing failed and the state stays clean, or the
    decoder failed and the failed-contract holds at once. -/
theorem step_contract (strong : Bool) (tab : Table) (hT : TableOk strong tab) (lp : LPkt) (hc : CleanG strong lp.p) :
    (stepFailed tab lp = false ∧ CleanG strong (step tab true lp).1.p)
    ∨ (stepFailed tab lp = true ∧ ContractG strong true (step tab true lp).1.p) := by
  cases hn : lp.next with
  | none =>
    left
    rw [step_of_none _ _ _ hn]
    exact ⟨stepFailed_of_none _ _ hn, hc⟩
  | some d =>
    have hlp : lp = ⟨lp.p, some d⟩ := by cases lp; simp at hn; simp [hn]
    by_cases hz : (inputWin lp.p).2 = 0
    · left
      have hw : inputWin lp.p = ((inputWin lp.p).1, 0) := by rw [← hz]
      refine ⟨by simp [stepFailed, hn, hz], ?_⟩
      rw [hlp, step_empty tab true lp.p d _ hw]
      exact hc
    · have hw : inputWin lp.p = ((inputWin lp.p).1, (inputWin lp.p).2) := rfl
      have hinv := lazyBeh_inv (CleanG strong) (tab d lp.p.data (inputWin lp.p).1 (inputWin lp.p).2)
        (cleanG_act strong tab hT d lp.p.data _ _) ⟨lp.p, none⟩ hc
      have hsf : stepFailed tab lp =
          outFailed (lazyBeh (tab d lp.p.data (inputWin lp.p).1 (inputWin lp.p).2) ⟨lp.p, none⟩).2 := by
        simp only [stepFailed, hn, hz, if_false]
      cases hb : lazyBeh (tab d lp.p.data (inputWin lp.p).1 (inputWin lp.p).2) ⟨lp.p, none⟩ with
      | mk lp2 out =>
        rw [hb] at hinv hsf
        cases out with
        | ret e =>
          cases e with
          | false =>
            left
            refine ⟨by rw [hsf]; rfl, ?_⟩
            rw [hlp, step_run_ok tab true lp.p d _ _ lp2 hw hz hb]
            exact hinv
          | true =>
            right
            refine ⟨by rw [hsf]; rfl, ?_⟩
            rw [hlp, step_run_err tab true lp.p d _ _ lp2 hw hz hb]
            exact addFinal_contract strong _ hinv
        | panic =>
          right
          refine ⟨by rw [hsf]; rfl, ?_⟩
          rw [hlp, step_run_panic tab lp.p d _ _ lp2 hw hz hb]
          exact addFinal_contract strong _ hinv

theorem force_contract (strong : Bool) (tab : Table) (hT : TableOk strong tab) : ∀ (n : Nat) (lp : LPkt) (q : Pkt),
    force tab n lp = some q → CleanG strong lp.p → ContractG strong (forceFailed tab n lp) q := by
  intro n
  induction n with
  | zero =>
    intro lp q h hc
    cases hn : lp.next with
    | none => rw [force_of_none _ _ _ hn] at h; cases h; exact clean_contract strong _ hc
    | some d => simp [force, hn] at h
  | succ n ih =>
    intro lp q h hc
    cases hn : lp.next with
    | none =>
      rw [force_of_none _ _ _ hn] at h; cases h
      simp only [forceFailed, hn, Option.isNone_none, if_true]
      exact clean_contract strong _ hc
    | some d =>
      rw [force_succ_of_some _ _ _ _ hn] at h
      simp only [forceFailed, hn, Option.isNone_some, Bool.false_eq_true, if_false]
      rcases step_contract strong tab hT lp hc with ⟨hf, hcl⟩ | ⟨hf, hct⟩
      · rw [hf, Bool.false_or]; exact ih _ _ h hcl
      · rw [hf, Bool.true_or]
        have := force_frozen strong tab n _ q h hct
        rw [this]; exact hct

/-! ## Read-only accessors on a finished packet -/

theorem lazyAcc_finished (tab : Table) (rc : Bool) (fuel : Nat) (a : Acc) (p : Pkt) :
    lazyAcc tab rc fuel a ⟨p, none⟩ = (⟨p, none⟩, evalEager a p) := by
  have hl : ∀ stop, loopUntil tab rc stop fuel ⟨p, none⟩ = .ok ⟨p, none⟩ := by
    intro stop; cases fuel <;> simp [loopUntil]
  have hf : ∀ pred num, findLoop tab rc pred fuel num ⟨p, none⟩ = (.ok ⟨p, none⟩, none) := by
    intro pred num; cases fuel <;> simp [findLoop]
  cases a with
  | layer t =>
    simp only [lazyAcc, lazyFind, evalEager]
    cases hfd : p.layers.find? (isTy t) with
    | some l => rfl
    | none => simp [hf]
  | layerClass c =>
    simp only [lazyAcc, lazyFind, evalEager]
    cases hfd : p.layers.find? (inClass c) with
    | some l => rfl
    | none => simp [hf]
  | layers => simp [lazyAcc, hl, afterLoop, evalEager]
  | link => simp [lazyAcc, hl, afterLoop, evalEager]
  | net => simp [lazyAcc, hl, afterLoop, evalEager]
  | trans => simp [lazyAcc, hl, afterLoop, evalEager]
  | app => simp [lazyAcc, hl, afterLoop, evalEager]
  | err => simp [lazyAcc, hl, afterLoop, evalEager]
  | string => simp [lazyAcc, hl, afterLoop, evalEager]
  | dump => simp [lazyAcc, hl, afterLoop, evalEager]

/-! ## No panic escapes with recovery on -/

theorem loopUntil_no_panic (tab : Table) (stop : Pkt → Bool) : ∀ (n : Nat) (lp lp' : LPkt),
    loopUntil tab true stop n lp ≠ .panic lp' := by
  intro n
  induction n with
  | zero => intro lp lp'; simp only [loopUntil]; split <;> simp
  | succ n ih =>
    intro lp lp'
    simp only [loopUntil]
    split
    · simp
    · rw [step_true_pair]; exact ih _ _

theorem findLoop_no_panic (tab : Table) (pred : Layer → Bool) : ∀ (n num : Nat) (lp lp' : LPkt),
    (findLoop tab true pred n num lp).1 ≠ .panic lp' := by
  intro n
  induction n with
  | zero => intro num lp lp'; simp only [findLoop]; split <;> simp
  | succ n ih =>
    intro num lp lp'
    simp only [findLoop]
    split
    · simp
    · rw [step_true_pair]
      simp only
      split
      · simp
      · exact ih _ _ _

theorem afterLoop_no_panic (lp : LPkt) (r : LRes) (f : Pkt → Ans) (hf : ∀ p, f p ≠ .panic)
    (hr : ∀ lp', r ≠ .panic lp') : (afterLoop lp r f).2 ≠ .panic := by
  cases r with
  | ok lp' => exact hf _
  | panic lp' => exact absurd rfl (hr lp')
  | diverge => simp [afterLoop]

theorem lazyFind_no_panic (tab : Table) (pred : Layer → Bool) (n : Nat) (lp : LPkt) :
    (lazyFind tab true n pred lp).2 ≠ .panic := by
  unfold lazyFind
  split
  · simp
  · have := findLoop_no_panic tab pred n lp.p.layers.length lp
    split
    · simp
    · rename_i lp' _ heq; exact absurd (by rw [heq]) (this lp')
    · simp

theorem lazyAcc_no_panic (tab : Table) (n : Nat) (a : Acc) (lp : LPkt) : (lazyAcc tab true n a lp).2 ≠ .panic := by
  cases a with
  | layer t => exact lazyFind_no_panic tab _ n lp
  | layerClass c => exact lazyFind_no_panic tab _ n lp
  | layers => exact afterLoop_no_panic _ _ _ (by intro p; simp) (loopUntil_no_panic tab _ n lp)
  | link => exact afterLoop_no_panic _ _ _ (by intro p; simp) (loopUntil_no_panic tab _ n lp)
  | net => exact afterLoop_no_panic _ _ _ (by intro p; simp) (loopUntil_no_panic tab _ n lp)
  | trans => exact afterLoop_no_panic _ _ _ (by intro p; simp) (loopUntil_no_panic tab _ n lp)
  | app => exact afterLoop_no_panic _ _ _ (by intro p; simp) (loopUntil_no_panic tab _ n lp)
  | err => exact afterLoop_no_panic _ _ _ (by intro p; simp) (loopUntil_no_panic tab _ n lp)
  | string => exact afterLoop_no_panic _ _ _ (by intro p; simp) (loopUntil_no_panic tab _ n lp)
  | dump => exact afterLoop_no_panic _ _ _ (by intro p; simp) (loopUntil_no_panic tab _ n lp)

end Gp.Pkt
