import Gp.Lemmas.PcapNgSafe3
/-
  Termination of the pcapng reader model (C15): no loop of any reader function runs out of fuel
  when the fuel exceeds the number of bytes left (`NoHang`), because every loop iteration that
  asks for another one has consumed input (`Progress`); successful calls consume input (`Consumes`).
-/
namespace Gp.PcapNg
open Gp.Gen.PcapNg

theorem run_pure' {α} (f : Nat) (a : α) (s : S) (w : Strm) : run f (Pure.pure a : Prog α) s w = .ok a s w := rfl

theorem run_bind' {α β} (f : Nat) (m : Prog α) (g : α → Prog β) (s : S) (w : Strm) :
    run f (m >>= g) s w = match run f m s w with
      | .ok a s' w' => run f (g a) s' w'
      | .fail e s' w' => .fail e s' w' := by
  show run f (Prog.bind m g) s w = _
  simp only [run]
  cases run f m s w <;> rfl

theorem run_act' {α} (f : Nat) (g : Act α) (s : S) (w : Strm) :
    run f (Prog.act g) s w = match g s with
      | (.ok a, s') => .ok a s' w
      | (.error e, s') => .fail e s' w := rfl

/-! ### pure steps never report `hang` -/

theorem convertTimeF_err {s : S} {id ts : Nat} {e : Err} (h : convertTimeF s id ts = .error e) : e.isPanic = true := by
  unfold convertTimeF at h
  split at h
  · cases h; rfl
  · split at h
    · cases h; rfl
    · cases h

theorem convertTimeF_not_hang {s : S} {id ts : Nat} : convertTimeF s id ts ≠ .error .hang := by
  intro h
  have := convertTimeF_err h
  cases this

theorem nh_getS : ActNoHang (fun s : S => ((.ok s : Except Err S), s)) := by
  intro s s' h; cases h

theorem NoHang.getS : NoHang getS := NoHang.act _ nh_getS

theorem NoHang.modS (g : S → S) : NoHang (modS g) := NoHang.act _ (by intro s s' h; cases h)

theorem NoHang.failM {α} {e : Err} (he : e ≠ .hang) : NoHang (failM e : Prog α) :=
  NoHang.act _ (by intro s s' h; cases h; exact he rfl)

theorem nh_blockTypeStep (h : Bytes) : ActNoHang (blockTypeStep h) := by
  intro s s' hh; cases hh

theorem nh_blockMagicStep (h m : Bytes) : ActNoHang (blockMagicStep h m) := by
  intro s s' hh
  unfold blockMagicStep at hh
  repeat' split at hh
  all_goals cases hh

theorem nh_optStartStep : ActNoHang optStartStep := by
  intro s s' hh
  unfold optStartStep at hh
  repeat' split at hh
  all_goals cases hh

theorem nh_optHeadStep (h : Bytes) : ActNoHang (optHeadStep h) := by
  intro s s' hh
  unfold optHeadStep at hh
  simp only at hh
  repeat' split at hh
  all_goals cases hh

theorem nh_optSwitch (handle : Nat → Bytes → Act Unit) (hh : ∀ c v, ActNoHang (handle c v)) :
    ActNoHang (optSwitch handle) := by
  intro s s' h
  unfold optSwitch at h
  split at h
  · cases h
  · split at h
    · cases h
    · rename_i e s1 heq
      simp only [Prod.mk.injEq, Except.error.injEq] at h
      obtain ⟨h1, h2⟩ := h
      subst h1
      exact hh _ _ s s1 heq

theorem nh_shbHandle (c : Nat) (v : Bytes) : ActNoHang (shbHandle c v) := by
  intro s s' hh
  unfold shbHandle at hh
  repeat' split at hh
  all_goals cases hh

theorem nh_idbHandle (c : Nat) (v : Bytes) : ActNoHang (idbHandle c v) := by
  intro s s' hh
  unfold idbHandle at hh
  repeat' split at hh
  all_goals cases hh

theorem nh_pktHandle (c : Nat) (v : Bytes) : ActNoHang (pktHandle c v) := by
  intro s s' hh
  unfold pktHandle at hh
  repeat' split at hh
  all_goals cases hh

theorem nh_isbHandle (c : Nat) (v : Bytes) : ActNoHang (isbHandle c v) := by
  intro s s' hh
  unfold isbHandle at hh
  repeat' split at hh
  all_goals cases hh
  all_goals (rename_i he; exact absurd he convertTimeF_not_hang)

theorem nh_idbFinishStep : ActNoHang idbFinishStep := by
  intro s s' hh
  unfold idbFinishStep at hh
  simp only at hh
  repeat' split at hh
  all_goals cases hh

theorem nh_isbHeadStep (h : Bytes) : ActNoHang (isbHeadStep h) := by
  intro s s' hh
  unfold isbHeadStep at hh
  simp only at hh
  repeat' split at hh
  all_goals cases hh
  all_goals (rename_i he; exact absurd he convertTimeF_not_hang)

theorem nh_dsbHeadStep (h : Bytes) : ActNoHang (dsbHeadStep h) := by
  intro s s' hh
  unfold dsbHeadStep at hh
  simp only at hh
  repeat' split at hh
  all_goals cases hh

theorem nh_nrbHeadStep (h : Bytes) : ActNoHang (nrbHeadStep h) := by
  intro s s' hh
  unfold nrbHeadStep at hh
  simp only at hh
  repeat' split at hh
  all_goals cases hh

theorem nh_firstIfaceStep : ActNoHang firstIfaceStep := by
  intro s s' hh
  unfold firstIfaceStep at hh
  repeat' split at hh
  all_goals cases hh

theorem nh_shbVersionStep (h : Bytes) : ActNoHang (shbVersionStep h) := by
  intro s s' hh
  unfold shbVersionStep at hh
  simp only at hh
  repeat' split at hh
  all_goals cases hh

theorem nh_pktHeadStep (epb : Bool) (h : Bytes) : ActNoHang (pktHeadStep epb h) := by
  intro s s' hh
  unfold pktHeadStep at hh
  simp only at hh
  repeat' split at hh
  all_goals cases hh
  all_goals (rename_i he; exact absurd he convertTimeF_not_hang)

theorem nh_spbHeadStep (h : Bytes) : ActNoHang (spbHeadStep h) := by
  intro s s' hh
  unfold spbHeadStep at hh
  simp only at hh
  repeat' split at hh
  all_goals cases hh

theorem nh_hdrFinishStep : ActNoHang hdrFinishStep := by
  intro s s' hh
  unfold hdrFinishStep at hh
  repeat' split at hh
  all_goals cases hh

/-! ### blocks and options -/

theorem NoHang.decBlk (n : Nat) : NoHang (decBlk n) := NoHang.modS _

theorem NoHang.discard (n : Nat) : NoHang (discard n) := by
  unfold Gp.PcapNg.discard
  exact NoHang.bind (NoHang.io _) (fun _ => NoHang.decBlk n)

theorem NoHang.discardW (n : Nat) : NoHang (discardW n) := by
  unfold Gp.PcapNg.discardW
  exact NoHang.bind (NoHang.io _) (fun _ => NoHang.decBlk n)

theorem NoHang.discardBlock : NoHang discardBlock := by
  unfold Gp.PcapNg.discardBlock
  exact NoHang.bind NoHang.getS (fun _ => NoHang.discard _)

theorem NoHang.readBlock : NoHang readBlock := by
  unfold Gp.PcapNg.readBlock
  refine NoHang.bind (NoHang.io _) (fun h => NoHang.bind (NoHang.act _ (nh_blockTypeStep h)) (fun b => ?_))
  split
  · exact NoHang.bind (NoHang.io _) (fun m => NoHang.act _ (nh_blockMagicStep h m))
  · exact NoHang.modS _

theorem NoHang.readOption : NoHang readOption := by
  unfold Gp.PcapNg.readOption
  refine NoHang.bind (NoHang.act _ nh_optStartStep) (fun more => ?_)
  split
  · refine NoHang.bind (NoHang.io _) (fun h => NoHang.bind (NoHang.act _ (nh_optHeadStep h)) (fun r => ?_))
    cases r with
    | none => exact NoHang.pure _
    | some length =>
      refine NoHang.bind (NoHang.io _) (fun v => NoHang.bind (NoHang.modS _) (fun _ => ?_))
      dsimp only
      split
      · exact NoHang.bind (NoHang.discard _) (fun _ => NoHang.decBlk _)
      · exact NoHang.decBlk _
  · exact NoHang.pure _

theorem Consumes.readBlock : Consumes 8 readBlock := by
  unfold Gp.PcapNg.readBlock
  exact Consumes.bind_left (Consumes.io_rd0 8)

/-- readOption either reads the 4 byte option header or fakes an end-of-options -/
theorem readOption_spec {f : Nat} {s s' : S} {w w' : Strm} (h : run f readOption s w = .ok () s' w') :
    w'.inp.length + 4 ≤ w.inp.length ∨ s'.optCode = ngOptionCodeEndOfOptions := by
  unfold Gp.PcapNg.readOption at h
  rw [run_bind', run_act'] at h
  by_cases h4 : s.blkLen = 4
  · right
    simp only [optStartStep, h4, if_true] at h
    rw [if_neg (by simp)] at h
    rw [run_pure'] at h
    cases h
    rfl
  · left
    simp only [optStartStep, h4, if_false] at h
    rw [if_pos trivial] at h
    exact Consumes.bind_left (Consumes.io_rd 4) f s w () s' w' h

theorem Progress.optBody (handle : Nat → Bytes → Act Unit) :
    Progress (readOption >>= fun _ => Prog.act (optSwitch handle)) := by
  intro f s w s' w' hr
  rw [run_bind'] at hr
  cases h1 : run f readOption s w with
  | fail e s1 w1 => rw [h1] at hr; cases hr
  | ok a s1 w1 =>
    rw [h1] at hr
    simp only at hr
    rw [run_act'] at hr
    cases hs : optSwitch handle s1 with
    | mk r s2 =>
      rw [hs] at hr
      cases r with
      | error e => cases hr
      | ok st =>
        simp only [Out.ok.injEq] at hr
        obtain ⟨hst, _, hw⟩ := hr
        subst hst hw
        rcases readOption_spec h1 with hc | hc
        · omega
        · unfold optSwitch at hs
          rw [if_pos hc] at hs
          cases hs

theorem NoHang.optLoop (handle : Nat → Bytes → Act Unit) (hh : ∀ c v, ActNoHang (handle c v)) :
    NoHang (optLoop handle) := by
  unfold Gp.PcapNg.optLoop
  exact NoHang.iter (NoHang.bind NoHang.readOption (fun _ => NoHang.act _ (nh_optSwitch handle hh))) (Progress.optBody handle)

/-! ### block bodies -/

theorem NoHang.readIDB : NoHang readIDB := by
  unfold Gp.PcapNg.readIDB
  refine NoHang.bind (NoHang.io _) (fun h => NoHang.bind (NoHang.modS _) (fun _ => ?_))
  refine NoHang.bind (NoHang.optLoop _ nh_idbHandle) (fun _ => ?_)
  exact NoHang.bind NoHang.discardBlock (fun _ => NoHang.act _ nh_idbFinishStep)

theorem NoHang.readISB : NoHang readISB := by
  unfold Gp.PcapNg.readISB
  refine NoHang.bind (NoHang.io _) (fun h => NoHang.bind (NoHang.act _ (nh_isbHeadStep h)) (fun _ => ?_))
  exact NoHang.bind (NoHang.optLoop _ nh_isbHandle) (fun _ => NoHang.discardBlock)

theorem NoHang.readDSB : NoHang readDSB := by
  unfold Gp.PcapNg.readDSB
  refine NoHang.bind (NoHang.io _) (fun h => NoHang.bind (NoHang.act _ (nh_dsbHeadStep h)) (fun n => ?_))
  exact NoHang.bind (NoHang.io _) (fun _ => NoHang.modS _)

theorem NoHang.nrbNames : NoHang nrbNames := by
  unfold Gp.PcapNg.nrbNames
  refine NoHang.iter (NoHang.bind NoHang.getS (fun s => ?_)) (Progress.bind_right (fun s => ?_))
  · split
    · exact NoHang.bind (NoHang.io _) (fun b => NoHang.bind (NoHang.modS _) (fun _ => NoHang.pure _))
    · exact NoHang.pure _
  · split
    · exact Progress.of_consumes (Consumes.bind_left Consumes.io_line0)
    · exact Progress.pure_done _

theorem NoHang.readNRB : NoHang readNRB := by
  unfold Gp.PcapNg.readNRB
  refine NoHang.bind (NoHang.iter (NoHang.bind NoHang.getS (fun s => ?_)) (Progress.bind_right (fun s => ?_)))
    (fun _ => NoHang.discardBlock)
  · split
    · refine NoHang.bind (NoHang.io _) (fun h => NoHang.bind (NoHang.act _ (nh_nrbHeadStep h)) (fun k => ?_))
      cases k with
      | addr n padding =>
        refine NoHang.bind (NoHang.io _) (fun _ => NoHang.bind NoHang.nrbNames (fun _ => ?_))
        exact NoHang.bind (NoHang.modS _) (fun _ => NoHang.bind (NoHang.discard _) (fun _ => NoHang.pure _))
      | skip n => exact NoHang.bind (NoHang.discardW _) (fun _ => NoHang.pure _)
      | endRec => exact NoHang.pure _
    · exact NoHang.pure _
  · split
    · exact Progress.of_consumes (Consumes.bind_left (n := 1) (by
        intro f s w a s' w' h
        have := Consumes.io_rdW 4 f s w a s' w' h
        omega))
    · exact Progress.pure_done _

theorem NoHang.skipSection : NoHang skipSection := by
  unfold Gp.PcapNg.skipSection
  refine NoHang.iter (NoHang.bind NoHang.readBlock (fun _ => NoHang.bind NoHang.getS (fun s => ?_))) ?_
  · split
    · exact NoHang.pure _
    · exact NoHang.bind NoHang.discardBlock (fun _ => NoHang.pure _)
  · exact Progress.of_consumes (Consumes.bind_left (n := 1) (by
      intro f s w a s' w' h
      have := Consumes.readBlock f s w a s' w' h
      omega))

theorem Consumes.weaken {α} {n m : Nat} {p : Prog α} (h : Consumes n p) (hm : m ≤ n) : Consumes m p := by
  intro f s w a s' w' hr
  have := h f s w a s' w' hr
  omega

theorem NoHang.fiOther (t : Nat) : NoHang (fiOther t) := by
  unfold Gp.PcapNg.fiOther
  split
  · exact NoHang.readDSB
  · split
    · exact NoHang.readNRB
    · exact NoHang.pure _

theorem NoHang.firstInterface : NoHang firstInterface := by
  unfold Gp.PcapNg.firstInterface
  refine NoHang.iter (NoHang.bind NoHang.readBlock (fun _ => NoHang.bind NoHang.getS (fun s => ?_))) ?_
  · dsimp only
    split
    · exact NoHang.bind NoHang.readIDB (fun _ => NoHang.act _ nh_firstIfaceStep)
    · split
      · exact NoHang.failM (by intro h; cases h)
      · exact NoHang.bind (NoHang.fiOther _) (fun _ => NoHang.bind NoHang.discardBlock (fun _ => NoHang.pure _))
  · exact Progress.of_consumes (Consumes.bind_left (Consumes.weaken Consumes.readBlock (by omega)))

theorem NoHang.readSectionHeader : NoHang readSectionHeader := by
  unfold Gp.PcapNg.readSectionHeader
  refine NoHang.bind (NoHang.modS _) (fun _ => ?_)
  refine NoHang.bind (NoHang.iter (NoHang.bind (NoHang.io _) (fun h => NoHang.bind (NoHang.act _ (nh_shbVersionStep h)) (fun skipIt => ?_))) ?_) (fun _ => ?_)
  · split
    · exact NoHang.bind NoHang.discardBlock (fun _ => NoHang.bind NoHang.skipSection (fun _ => NoHang.pure _))
    · exact NoHang.pure _
  · exact Progress.of_consumes (Consumes.bind_left (Consumes.weaken (Consumes.io_rd 12) (by omega)))
  · refine NoHang.bind (NoHang.optLoop _ nh_shbHandle) (fun _ => NoHang.bind NoHang.discardBlock (fun _ => ?_))
    refine NoHang.bind (NoHang.modS _) (fun _ => NoHang.bind NoHang.getS (fun s => ?_))
    split
    · exact NoHang.firstInterface
    · exact NoHang.pure _

/-! ### packets -/

theorem NoHang.pktBlockBody (t : Nat) : NoHang (pktBlockBody t) := by
  unfold Gp.PcapNg.pktBlockBody
  split
  · exact NoHang.bind (NoHang.io _) (fun h => NoHang.bind (NoHang.act _ (nh_pktHeadStep _ h)) (fun _ => NoHang.pure _))
  · split
    · exact NoHang.bind (NoHang.io _) (fun h => NoHang.bind (NoHang.act _ (nh_spbHeadStep h)) (fun _ => NoHang.pure _))
    · split
      · exact NoHang.bind NoHang.readIDB (fun _ => NoHang.pure _)
      · split
        · exact NoHang.bind NoHang.readISB (fun _ => NoHang.pure _)
        · split
          · exact NoHang.bind NoHang.readSectionHeader (fun _ => NoHang.pure _)
          · split
            · exact NoHang.bind NoHang.readNRB (fun _ => NoHang.pure _)
            · exact NoHang.bind NoHang.discardBlock (fun _ => NoHang.pure _)

theorem NoHang.hdrTail (found : Bool) : NoHang (hdrTail found) := by
  unfold Gp.PcapNg.hdrTail
  split
  · exact NoHang.pure _
  · refine NoHang.bind (NoHang.act _ nh_hdrFinishStep) (fun k => ?_)
    cases k with
    | take ci lt snap => exact NoHang.pure _
    | skipIt => exact NoHang.bind NoHang.discardBlock (fun _ => NoHang.pure _)
    | skipErr => exact NoHang.bind NoHang.discardBlock (fun _ => NoHang.failM (by intro h; cases h))

theorem NoHang.readPacketHeader : NoHang readPacketHeader := by
  unfold Gp.PcapNg.readPacketHeader
  refine NoHang.iter (NoHang.bind NoHang.readBlock (fun _ => NoHang.bind NoHang.getS (fun s =>
    NoHang.bind (NoHang.pktBlockBody _) (fun found => NoHang.hdrTail found)))) ?_
  exact Progress.of_consumes (Consumes.bind_left (Consumes.weaken Consumes.readBlock (by omega)))

theorem NoHang.discardPad (n : Nat) : NoHang (discardPad n) := by
  unfold Gp.PcapNg.discardPad
  split
  · exact NoHang.discard _
  · exact NoHang.pure _

theorem NoHang.pktOptsP : NoHang pktOptsP := by
  unfold Gp.PcapNg.pktOptsP
  refine NoHang.bind NoHang.getS (fun s => ?_)
  split
  · exact NoHang.optLoop _ nh_pktHandle
  · exact NoHang.pure _

theorem NoHang.pktRest (ci : CapInfo) (lt snap : Nat) : NoHang (pktRest ci lt snap) := by
  unfold Gp.PcapNg.pktRest
  refine NoHang.bind (NoHang.io _) (fun data => NoHang.bind (NoHang.modS _) (fun _ => ?_))
  refine NoHang.bind (NoHang.discardPad _) (fun _ => NoHang.bind (NoHang.modS _) (fun _ => ?_))
  refine NoHang.bind NoHang.pktOptsP (fun _ => NoHang.bind NoHang.discardBlock (fun _ => ?_))
  exact NoHang.bind NoHang.getS (fun _ => NoHang.pure _)

theorem NoHang.readPacketP : NoHang readPacketP := by
  unfold Gp.PcapNg.readPacketP
  exact NoHang.bind NoHang.readPacketHeader (fun r => NoHang.pktRest r.1 r.2.1 r.2.2)

theorem NoHang.openP : NoHang openP := by
  unfold Gp.PcapNg.openP
  refine NoHang.bind NoHang.readBlock (fun _ => NoHang.bind NoHang.getS (fun s => ?_))
  split
  · exact NoHang.failM (by intro h; cases h)
  · exact NoHang.readSectionHeader

/-! ### successful calls consume input -/

theorem Consumes.iter {α} {n : Nat} {body : Prog (Step α)} (h : Consumes n body) : Consumes n (Prog.iter body) := by
  intro f s w a s' w' hr
  simp only [run] at hr
  generalize f = fb at hr
  suffices ∀ m s w, runIter (run fb body) m s w = .ok a s' w' → w'.inp.length + n ≤ w.inp.length from this _ s w hr
  intro m
  induction m with
  | zero => intro s w h0; cases h0
  | succ m ih =>
    intro s w h0
    simp only [runIter] at h0
    cases hb : run fb body s w with
    | fail e s1 w1 => rw [hb] at h0; cases h0
    | ok st s1 w1 =>
      rw [hb] at h0
      have h1 := h fb s w st s1 w1 hb
      cases st with
      | again =>
        have := ih s1 w1 h0
        omega
      | done b =>
        simp only [Out.ok.injEq] at h0
        obtain ⟨_, _, hw⟩ := h0
        subst hw
        exact h1

theorem Consumes.readPacketP : Consumes 8 readPacketP := by
  unfold Gp.PcapNg.readPacketP
  refine Consumes.bind_left ?_
  unfold Gp.PcapNg.readPacketHeader
  exact Consumes.iter (Consumes.bind_left Consumes.readBlock)

end Gp.PcapNg
