/-
  Helper lemmas for C13 (engine frag6), part 2: histories of DefragIPv6 calls (other
  Identifications interleaved, duplicates) and the completing call.
-/
import Gp.Lemmas.Frag6

namespace Gp.Frag6

/-- One call `DefragIPv6(ipv6, fg)`: `src dst` stand for the IPv6 header passed along. -/
structure In6 where
  src : Nat
  dst : Nat
  id : Nat
  x : Frag6
  deriving Repr

def step6 (st : State) (i : In6) : State × Reply := defrag st i.src i.dst i.id i.x

def run6 (st : State) : List In6 → State × List Reply
  | [] => (st, [])
  | i :: r =>
    let (s1, o) := step6 st i
    let (s2, os) := run6 s1 r
    (s2, o :: os)

/-- The fragments (as stored) offered so far under Identification `id`. -/
def offered6 (id : Nat) : List In6 → List Frag6
  | [] => []
  | i :: r => if i.id = id then norm i.src i.dst i.x :: offered6 id r else offered6 id r

theorem offered6_append (id : Nat) : ∀ (a b : List In6), offered6 id (a ++ b) = offered6 id a ++ offered6 id b
  | [], _ => rfl
  | i :: a, b => by
    simp only [List.cons_append, offered6, offered6_append id a b]
    split <;> simp

theorem mem_offered6 (id : Nat) : ∀ (l : List In6) (i : In6), i ∈ l → i.id = id →
    norm i.src i.dst i.x ∈ offered6 id l
  | [], _, h, _ => by cases h
  | a :: l, i, h, hk => by
    rcases List.mem_cons.1 h with e | h'
    · rw [← e]; simp [offered6, hk]
    · have := mem_offered6 id l i h' hk
      simp only [offered6]; split <;> simp [this]

def GInv6 (D : Dgram6) (H : List In6) (st : State) : Prop :=
  ∃ p : Frag6 → Bool, (∀ g, p g = true ↔ g ∈ offered6 D.id H) ∧ st.chain D.id = D.frags.filter p

/-- While `j` is missing: calls for this Identification carry fragments of the datagram other than `j`. -/
def Adm6 (D : Dgram6) (j : Frag6) (i : In6) : Prop :=
  i.id = D.id → norm i.src i.dst i.x ∈ D.frags ∧ norm i.src i.dst i.x ≠ j

theorem ginv6_init (D : Dgram6) (st : State) (h : st.lookup D.id = none) : GInv6 D [] st := by
  refine ⟨fun _ => false, fun g => by simp [offered6], ?_⟩
  have : D.frags.filter (fun _ => false) = [] := List.filter_eq_nil_iff.2 (fun _ _ => by simp)
  unfold State.chain; rw [h, this]

section
variable (D : Dgram6) (hD : D.wf)
include hD

theorem frags_srt : Srt D.frags := mkFrags6_srt D D.pieces 0 rfl hD.2.1

theorem filter_add_mem6 (p : Frag6 → Bool) (f : Frag6) (hf : f ∈ D.frags) (x : Frag6) :
    x ∈ D.frags.filter (fun g => p g || decide (g = f)) ↔ x = f ∨ x ∈ D.frags.filter p := by
  simp only [List.mem_filter, Bool.or_eq_true, decide_eq_true_eq]
  constructor
  · rintro ⟨hx, h | h⟩
    · exact Or.inr ⟨hx, h⟩
    · exact Or.inl h
  · rintro (h | ⟨hx, h⟩)
    · exact ⟨h ▸ hf, Or.inr h⟩
    · exact ⟨hx, Or.inl h⟩

/-- The stored list after a fragment of the datagram arrives. -/
theorem ins_family (p : Frag6 → Bool) (f : Frag6) (hf : f ∈ D.frags) :
    ins f (D.frags.filter p) = D.frags.filter (fun g => p g || decide (g = f)) := by
  have hs := frags_srt D hD
  have hsp : Srt (D.frags.filter p) := hs.filter p
  cases hpf : p f with
  | true =>
    rw [ins_dup _ f hsp (List.mem_filter.2 ⟨hf, hpf⟩)]
    apply List.filter_congr
    intro x _
    by_cases e : x = f
    · simp [e, hpf]
    · simp [e]
  | false =>
    have hne : ∀ g ∈ D.frags.filter p, g.off ≠ f.off := by
      intro g hg
      have hg' := List.mem_filter.1 hg
      have hgf : g ≠ f := by intro e; rw [e, hpf] at hg'; cases hg'.2
      rcases pairwise_trichotomy D.frags hs g f hg'.1 hf with e | h | h
      · exact absurd e hgf
      · omega
      · omega
    obtain ⟨h1, h2⟩ := ins_new _ f hsp hne
    apply srt_ext _ _ h1 (hs.filter _)
    intro x
    rw [h2 x, filter_add_mem6 D hD p f hf x]

theorem ginv6_step (j : Frag6) (hj : j ∈ D.frags) (H : List In6) (st : State) (i : In6)
    (hnj : j ∉ offered6 D.id H) (hadm : Adm6 D j i) (inv : GInv6 D H st) :
    GInv6 D (H ++ [i]) (step6 st i).1 ∧ j ∉ offered6 D.id (H ++ [i]) ∧
    (i.id = D.id → (step6 st i).2 = .none) := by
  obtain ⟨p, hp, hch⟩ := inv
  by_cases hk : i.id = D.id
  · obtain ⟨hfF, hfj⟩ := hadm hk
    have hoff : offered6 D.id (H ++ [i]) = offered6 D.id H ++ [norm i.src i.dst i.x] := by
      simp [offered6_append, offered6, hk]
    have hnj' : j ∉ offered6 D.id (H ++ [i]) := by
      rw [hoff, List.mem_append, List.mem_singleton]
      rintro (h | h)
      · exact hnj h
      · exact hfj h.symm
    have hstep : step6 st i = (st.set D.id (ins (norm i.src i.dst i.x) (st.chain D.id)),
        finish (ins (norm i.src i.dst i.x) (st.chain D.id))) := by
      unfold step6 defrag; rw [hk]
    rw [hstep, hch, ins_family D hD p _ hfF]
    refine ⟨⟨_, ?_, by rw [chain_set_self]⟩, hnj', fun _ => ?_⟩
    · intro g
      rw [hoff, List.mem_append, List.mem_singleton, ← hp g]
      simp
    · apply finish_missing D hD
      refine ⟨j, hj, ?_⟩
      have : p j = false := by
        cases h : p j with
        | false => rfl
        | true => exact absurd ((hp j).1 h) hnj
      simp [this, hfj.symm]
  · have hoff : offered6 D.id (H ++ [i]) = offered6 D.id H := by simp [offered6_append, offered6, hk]
    refine ⟨⟨p, by intro g; rw [hoff]; exact hp g, ?_⟩, by rw [hoff]; exact hnj, fun h => absurd h hk⟩
    show (st.set i.id _).chain D.id = _
    rw [chain_set_ne _ _ _ _ (fun e => hk e.symm)]; exact hch

theorem ginv6_run (j : Frag6) (hj : j ∈ D.frags) : ∀ (pre : List In6) (H : List In6) (st : State),
    j ∉ offered6 D.id H → (∀ i ∈ pre, Adm6 D j i) → GInv6 D H st →
    GInv6 D (H ++ pre) (run6 st pre).1 ∧ j ∉ offered6 D.id (H ++ pre) ∧
    (∀ (n : Nat) (i : In6), pre[n]? = some i → i.id = D.id → (run6 st pre).2[n]? = some Reply.none)
  | [], H, st, hnj, _, inv => by
    simp only [List.append_nil, run6]
    exact ⟨inv, hnj, fun n i h => by simp at h⟩
  | i :: pre, H, st, hnj, hadm, inv => by
    obtain ⟨inv1, hnj1, hr1⟩ := ginv6_step D hD j hj H st i hnj (hadm i (List.mem_cons_self ..)) inv
    obtain ⟨inv2, hnj2, hr2⟩ := ginv6_run j hj pre (H ++ [i]) (step6 st i).1 hnj1
      (fun o ho => hadm o (List.mem_cons_of_mem _ ho)) inv1
    have happ : H ++ [i] ++ pre = H ++ i :: pre := by simp
    rw [happ] at inv2 hnj2
    refine ⟨by simpa [run6] using inv2, hnj2, ?_⟩
    intro n i' hi hk
    cases n with
    | zero =>
      simp only [List.getElem?_cons_zero, Option.some.injEq] at hi
      simp only [run6, List.getElem?_cons_zero, Option.some.injEq]
      subst hi; exact hr1 hk
    | succ n =>
      simp only [List.getElem?_cons_succ] at hi
      simp only [run6, List.getElem?_cons_succ]
      exact hr2 n i' hi hk

theorem complete6 (j : Frag6) (hj : j ∈ D.frags) (H : List In6) (st : State) (i : In6)
    (hi : i.id = D.id) (hx : norm i.src i.dst i.x = j)
    (hcov : ∀ g ∈ D.frags, g ≠ j → g ∈ offered6 D.id H) (inv : GInv6 D H st) :
    (step6 st i).2 = .out D.src D.dst (lastNh D.pieces) D.payload := by
  obtain ⟨p, hp, hch⟩ := inv
  have hstep : (step6 st i).2 = finish (ins (norm i.src i.dst i.x) (st.chain D.id)) := by
    unfold step6 defrag; rw [hi]
  rw [hstep, hx, hch, ins_family D hD p j hj]
  have hall : D.frags.filter (fun g => p g || decide (g = j)) = D.frags := by
    apply List.filter_eq_self.2
    intro g hg
    by_cases e : g = j
    · simp [e]
    · simp [(hp g).2 (hcov g hg e)]
  rw [hall]
  exact finish_full D hD

end

end Gp.Frag6
