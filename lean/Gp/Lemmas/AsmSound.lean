/-
  Layer B: stream soundness in OFFSET SPACE (the model instantiated with `flatArith`: unbounded
  integers, the SYN of a connection at position 0, byte `j` of the stream at position `j+1`).
  Invariant: every queued page is a slice of S at its own position; nextSeq = accounted bytes + 1.
-/
import Gp.Model.AsmSpec
import Gp.Lemmas.AsmBasic
import Gp.Lemmas.AsmLog

namespace Gp.Asm

theorem invalidSeq_eq : invalidSeq = -1 := rfl
@[simp] theorem flat_diff (s t : Int) : flatArith.diff s t = t - s := rfl
@[simp] theorem flat_add (s n : Int) : flatArith.add s n = s + n := rfl

/-! ### slices -/

theorem slice_length (S : Bytes) (a n : Nat) (h : a + n ≤ S.length) : (slice S a n).length = n := by
  simp only [slice, List.length_take, List.length_drop]; omega

theorem slice_drop (S : Bytes) (a n d : Nat) : (slice S a n).drop d = slice S (a + d) (n - d) := by
  simp only [slice, List.drop_take, List.drop_drop]

theorem slice_take (S : Bytes) (a n m : Nat) : (slice S a n).take m = slice S a (min m n) := by
  simp only [slice, List.take_take]

theorem slice_zero_len (S : Bytes) (a : Nat) : slice S a 0 = [] := by simp [slice]

/-! ### encoding of the observer position as the flat nextSeq -/

def enc : Option Nat → Int
  | none => -1
  | some p => (p : Int) + 1

def PosOk (S : Bytes) : Option Nat → Prop
  | none => True
  | some p => p ≤ S.length

/-- a queued page is a slice of the stream at its own position, with no skip/start marks -/
def PageOk (S : Bytes) (pg : Page) : Prop :=
  ∃ off : Nat, pg.seq = (off : Int) + 1 ∧ off + pg.r.bytes.length ≤ S.length ∧
    pg.r.bytes = slice S off pg.r.bytes.length ∧ pg.r.skip = 0 ∧ pg.r.start = false

/-- byteSpan in offset space, data not beyond the expected position: the already delivered prefix
    is trimmed and what remains is exactly the stream at the expected position. -/
theorem byteSpan_flat_le (S : Bytes) (p off : Nat) (b : Bytes) (hb : b = slice S off b.length)
    (hlen : off + b.length ≤ S.length) (hp : p ≤ S.length) (hle : off ≤ p) :
    let x := byteSpan flatArith ((p : Int) + 1) ((off : Int) + 1) b
    x.1 = slice S p x.1.length ∧ p + x.1.length ≤ S.length ∧ x.2 = ((p + x.1.length : Nat) : Int) + 1 := by
  intro x
  have hx : x = byteSpan flatArith ((p : Int) + 1) ((off : Int) + 1) b := rfl
  unfold byteSpan at hx
  rw [if_neg (by rw [invalidSeq_eq]; omega)] at hx
  dsimp only at hx
  split at hx
  · rename_i h1
    simp only [flat_diff] at h1
    have hpo : p = off := by omega
    subst hpo
    rw [hx]
    refine ⟨hb, hlen, ?_⟩
    simp only [flat_add]
    omega
  · rename_i h1
    split at hx
    · rw [hx]
      refine ⟨by simp [slice_zero_len], by simpa using hp, by simp⟩
    · rename_i h2
      simp only [flat_diff] at h1 h2
      have hd : (flatArith.diff ((off : Int) + 1) ((p : Int) + 1)).toNat = p - off := by
        simp only [flat_diff]; omega
      rw [hd] at hx
      have hl : (b.drop (p - off)).length = b.length - (p - off) := by simp
      rw [hx]
      refine ⟨?_, ?_, ?_⟩
      · show b.drop (p - off) = slice S p (b.drop (p - off)).length
        rw [hl]
        conv => lhs; rw [hb]
        rw [slice_drop]
        congr 1
        omega
      · show p + (b.drop (p - off)).length ≤ S.length
        rw [hl]; omega
      · show flatArith.add ((p : Int) + 1) ((b.length : Int) - flatArith.diff ((off : Int) + 1) ((p : Int) + 1)) = _
        simp only [flat_add, flat_diff]
        rw [hl]; omega

/-- byteSpan in offset space, nothing known or data strictly beyond the expected position:
    the bytes are passed unchanged and the next position is just past them. -/
theorem byteSpan_flat_none (off : Nat) (b : Bytes) :
    byteSpan flatArith (-1) ((off : Int) + 1) b = (b, ((off + b.length : Nat) : Int) + 1) := by
  unfold byteSpan
  rw [if_pos (by rw [invalidSeq_eq])]
  simp only [flat_add]
  congr 1
  omega

theorem byteSpan_flat_gt (p off : Nat) (b : Bytes) (hlt : p < off) :
    byteSpan flatArith ((p : Int) + 1) ((off : Int) + 1) b = (b, ((off + b.length : Nat) : Int) + 1) := by
  unfold byteSpan
  rw [if_neg (by rw [invalidSeq_eq]; omega)]
  dsimp only
  rw [if_pos (by simp only [flat_diff]; omega)]
  simp only [flat_add]
  congr 1
  omega

/-! ### popPage (addNextFromConn) -/

theorem popPage_bytes (A : SeqArith) (n : Int) (p : Page) :
    (popPage A n p).1.bytes = (byteSpan A n p.seq p.r.bytes).1 := rfl
theorem popPage_next (A : SeqArith) (n : Int) (p : Page) :
    (popPage A n p).2 = (byteSpan A n p.seq p.r.bytes).2 := rfl
theorem popPage_start (A : SeqArith) (n : Int) (p : Page) : (popPage A n p).1.start = p.r.start := rfl
theorem popPage_fin (A : SeqArith) (n : Int) (p : Page) : (popPage A n p).1.fin = p.r.fin := rfl
theorem popPage_seen (A : SeqArith) (n : Int) (p : Page) : (popPage A n p).1.seen = p.r.seen := rfl
theorem popPage_skip (A : SeqArith) (n : Int) (p : Page) :
    (popPage A n p).1.skip =
      if n = invalidSeq then -1 else if A.diff n p.seq > 0 then A.diff n p.seq else p.r.skip := rfl

/-- Releasing a consistent page from observer position `pos` yields an item that continues the
    stream, and the new nextSeq encodes the new position.  Also: what the skip is. -/
theorem popPage_flat (S : Bytes) (pos : Option Nat) (pg : Page) (hpos : PosOk S pos)
    (hpg : PageOk S pg) :
    ∃ pos' : Nat, itemOk S pos (popPage flatArith (enc pos) pg).1 (some pos') ∧
      (popPage flatArith (enc pos) pg).2 = enc (some pos') ∧ pos' ≤ S.length := by
  obtain ⟨off, hseq, hlen, hb, hsk, hst⟩ := hpg
  cases pos with
  | none =>
    refine ⟨off + pg.r.bytes.length, ?_, ?_, hlen⟩
    · have hbs : (popPage flatArith (enc none) pg).1.bytes = pg.r.bytes := by
        rw [popPage_bytes, hseq]; show (byteSpan flatArith (-1) _ _).1 = _; rw [byteSpan_flat_none]
      simp only [itemOk]
      right
      refine ⟨by rw [popPage_start]; exact hst, ?_, off, ?_, ?_, ?_⟩
      · rw [popPage_skip]; simp [enc, invalidSeq_eq]
      · rw [hbs]; exact hlen
      · rw [hbs]; exact hb
      · rw [hbs]
    · rw [popPage_next, hseq]; show (byteSpan flatArith (-1) _ _).2 = _; rw [byteSpan_flat_none]; rfl
  | some p =>
    have hp : p ≤ S.length := hpos
    by_cases hlt : p < off
    · refine ⟨off + pg.r.bytes.length, ?_, ?_, hlen⟩
      · have hbs : (popPage flatArith (enc (some p)) pg).1.bytes = pg.r.bytes := by
          rw [popPage_bytes, hseq]; show (byteSpan flatArith ((p : Int) + 1) _ _).1 = _
          rw [byteSpan_flat_gt p off _ hlt]
        simp only [itemOk]
        refine ⟨by rw [popPage_start]; exact hst, off - p, ?_, ?_, ?_, ?_⟩
        · rw [popPage_skip, hseq]
          have h1 : ¬ enc (some p) = invalidSeq := by simp only [enc, invalidSeq_eq]; omega
          have h2 : flatArith.diff (enc (some p)) ((off : Int) + 1) > 0 := by
            simp only [enc, flat_diff]; omega
          rw [if_neg h1, if_pos h2]
          simp only [enc, flat_diff]
          omega
        · rw [hbs]; omega
        · rw [hbs]
          have : p + (off - p) = off := by omega
          rw [this]; exact hb
        · rw [hbs]
          have : p + (off - p) = off := by omega
          rw [this]
      · rw [popPage_next, hseq]; show (byteSpan flatArith ((p : Int) + 1) _ _).2 = _
        rw [byteSpan_flat_gt p off _ hlt]; rfl
    · have hle : off ≤ p := by omega
      have hx := byteSpan_flat_le S p off pg.r.bytes hb hlen hp hle
      simp only [] at hx
      obtain ⟨hx1, hx2, hx3⟩ := hx
      have hbs : (popPage flatArith (enc (some p)) pg).1.bytes
          = (byteSpan flatArith ((p : Int) + 1) ((off : Int) + 1) pg.r.bytes).1 := by
        rw [popPage_bytes, hseq]; rfl
      refine ⟨p + (byteSpan flatArith ((p : Int) + 1) ((off : Int) + 1) pg.r.bytes).1.length, ?_, ?_, hx2⟩
      · simp only [itemOk]
        refine ⟨by rw [popPage_start]; exact hst, 0, ?_, ?_, ?_, ?_⟩
        · rw [popPage_skip, hseq]
          have h1 : ¬ enc (some p) = invalidSeq := by simp only [enc, invalidSeq_eq]; omega
          have h2 : ¬ flatArith.diff (enc (some p)) ((off : Int) + 1) > 0 := by
            simp only [enc, flat_diff]; omega
          rw [if_neg h1, if_neg h2]
          simpa using hsk
        · rw [hbs]; simpa using hx2
        · rw [hbs]; simpa using hx1
        · rw [hbs]; simp
      · rw [popPage_next, hseq]; show (byteSpan flatArith ((p : Int) + 1) _ _).2 = _
        rw [hx3]; rfl

/-! ### replay -/

theorem replay_append (S : Bytes) (a b c : Option Nat) (xs ys : List Reasm)
    (h1 : replay S a xs b) (h2 : replay S b ys c) : replay S a (xs ++ ys) c := by
  induction xs generalizing a with
  | nil => simp only [replay] at h1; subst h1; exact h2
  | cons x xs ih =>
    obtain ⟨mid, hm, hr⟩ := h1
    exact ⟨mid, hm, ih mid hr⟩

theorem replay_single (S : Bytes) (a b : Option Nat) (r : Reasm) (h : itemOk S a r b) :
    replay S a [r] b := ⟨b, h, rfl⟩

def PagesOk (S : Bytes) (ps : List Page) : Prop := ∀ pg ∈ ps, PageOk S pg

theorem addContiguous_flat (S : Bytes) (pos : Option Nat) (ps : List Page) (hpos : PosOk S pos)
    (hps : PagesOk S ps) :
    ∃ pos', replay S pos (addContiguous flatArith (enc pos) ps).items pos' ∧
      (addContiguous flatArith (enc pos) ps).next = enc pos' ∧ PosOk S pos' ∧
      PagesOk S (addContiguous flatArith (enc pos) ps).rest ∧ (pos.isSome → pos'.isSome) := by
  induction ps generalizing pos with
  | nil => exact ⟨pos, rfl, rfl, hpos, hps, id⟩
  | cons p ps ih =>
    simp only [addContiguous]
    split
    · obtain ⟨p1, h1, h2, h3⟩ := popPage_flat S pos p hpos (hps p List.mem_cons_self)
      have := ih (some p1) h3 (fun q hq => hps q (List.mem_cons_of_mem _ hq))
      rw [← h2] at this
      obtain ⟨pos', r1, r2, r3, r4, r5⟩ := this
      exact ⟨pos', ⟨some p1, h1, r1⟩, r2, r3, r4, fun _ => r5 rfl⟩
    · exact ⟨pos, rfl, rfl, hpos, hps, id⟩

theorem limitPops_flat (S : Bytes) (L : Lim) (pos : Option Nat) (ps : List Page) (np used : Int)
    (hpos : PosOk S pos) (hps : PagesOk S ps) :
    ∃ pos', replay S pos (limitPops flatArith L (enc pos) ps np used).items pos' ∧
      (limitPops flatArith L (enc pos) ps np used).next = enc pos' ∧ PosOk S pos' ∧
      PagesOk S (limitPops flatArith L (enc pos) ps np used).rest ∧
      ((limitPops flatArith L (enc pos) ps np used).items ≠ [] → pos'.isSome) := by
  induction ps generalizing pos np used with
  | nil => exact ⟨pos, rfl, rfl, hpos, hps, fun h => absurd rfl h⟩
  | cons p ps ih =>
    simp only [limitPops]
    split
    · obtain ⟨p1, h1, h2, h3⟩ := popPage_flat S pos p hpos (hps p List.mem_cons_self)
      have := ih (some p1) (np - 1) (used - 1) h3 (fun q hq => hps q (List.mem_cons_of_mem _ hq))
      rw [← h2] at this
      obtain ⟨pos', r1, r2, r3, r4, r5⟩ := this
      refine ⟨pos', ⟨some p1, h1, r1⟩, r2, r3, r4, fun _ => ?_⟩
      by_cases hi : (limitPops flatArith L (popPage flatArith (enc pos) p).2 ps (np - 1) (used - 1)).items = []
      · have := limitPops_nil flatArith L _ ps (np - 1) (used - 1) hi
        rw [this.1, h2] at r2
        cases pos' with
        | none => simp [enc] at r2; omega
        | some _ => rfl
      · exact r5 hi
    · exact ⟨pos, rfl, rfl, hpos, hps, fun h => absurd rfl h⟩

/-! ### field lemmas for `send` -/

theorem send_calls (A : SeqArith) (c : Conn) (used : Int) (r0 : Reasm) (rs : List Reasm) :
    (send A c used r0 rs).calls = [r0 :: (rs ++ (addContiguous A c.nextSeq c.pages).items)] := by
  unfold send; dsimp only; split <;> rfl
theorem send_nextSeq (A : SeqArith) (c : Conn) (used : Int) (r0 : Reasm) (rs : List Reasm) :
    (send A c used r0 rs).conn.nextSeq = (addContiguous A c.nextSeq c.pages).next := by
  unfold send; dsimp only; split <;> rfl
theorem send_pages (A : SeqArith) (c : Conn) (used : Int) (r0 : Reasm) (rs : List Reasm) :
    (send A c used r0 rs).conn.pages = (addContiguous A c.nextSeq c.pages).rest := by
  unfold send; dsimp only; split <;> rfl
theorem send_sid (A : SeqArith) (c : Conn) (used : Int) (r0 : Reasm) (rs : List Reasm) :
    (send A c used r0 rs).conn.sid = c.sid := by
  unfold send; dsimp only; split <;> rfl
theorem send_lastSeen (A : SeqArith) (c : Conn) (used : Int) (r0 : Reasm) (rs : List Reasm) :
    (send A c used r0 rs).conn.lastSeen = c.lastSeen := by
  unfold send; dsimp only; split <;> rfl

/-- the connection invariant of layer B, relative to the observer position `pos` -/
def ConnOk (S : Bytes) (c : Conn) (pos : Option Nat) : Prop :=
  c.nextSeq = enc pos ∧ PosOk S pos ∧ PagesOk S c.pages

theorem send_flat (S : Bytes) (c : Conn) (used : Int) (r0 : Reasm) (rs : List Reasm)
    (pos0 pos1 : Option Nat) (hc : ConnOk S c pos1) (hr : replay S pos0 (r0 :: rs) pos1) :
    ∃ pos', replay S pos0 (send flatArith c used r0 rs).calls.flatten pos' ∧
      ConnOk S (send flatArith c used r0 rs).conn pos' ∧ (pos1.isSome → pos'.isSome) := by
  obtain ⟨h1, h2, h3⟩ := hc
  obtain ⟨pos', r1, r2, r3, r4, r5⟩ := addContiguous_flat S pos1 c.pages h2 h3
  rw [← h1] at r1 r2 r4
  refine ⟨pos', ?_, ⟨?_, r3, ?_⟩, r5⟩
  · rw [send_calls]
    simp only [List.flatten_cons, List.flatten_nil, List.append_nil]
    have := replay_append S pos0 pos1 pos' (r0 :: rs) _ hr r1
    simpa using this
  · rw [send_nextSeq]; exact r2
  · rw [send_pages]; exact r4

theorem skipFlush_flat (S : Bytes) (c : Conn) (used : Int) (pos : Option Nat) (hc : ConnOk S c pos) :
    ∃ pos', replay S pos (skipFlush flatArith c used).calls.flatten pos' ∧
      ConnOk S (skipFlush flatArith c used).conn pos' := by
  unfold skipFlush
  split
  · exact ⟨pos, rfl, hc⟩
  · rename_i p ps hp
    obtain ⟨h1, h2, h3⟩ := hc
    rw [hp] at h3
    obtain ⟨p1, i1, i2, i3⟩ := popPage_flat S pos p h2 (h3 p List.mem_cons_self)
    rw [← h1] at i1 i2
    obtain ⟨pos', r1, r2, _⟩ := send_flat S
      { c with nextSeq := (popPage flatArith c.nextSeq p).2, pages := ps, npages := c.npages - 1 }
      (used - 1) (popPage flatArith c.nextSeq p).1 [] pos (some p1)
      ⟨i2, i3, fun q hq => h3 q (List.mem_cons_of_mem _ hq)⟩ (replay_single S _ _ _ i1)
    exact ⟨pos', r1, r2⟩

/-! ### pagesFromTCP, insertIntoConn, AssembleWithTimestamp in offset space -/

theorem pageOk_mk (S : Bytes) (off : Nat) (b : Bytes) (fin : Bool) (ts : Int)
    (hb : b = slice S off b.length) (hlen : off + b.length ≤ S.length) :
    PageOk S ⟨(off : Int) + 1, ⟨b, 0, false, fin, ts⟩⟩ := ⟨off, rfl, hlen, hb, rfl, rfl⟩

theorem take_slice_ok (S : Bytes) (off n : Nat) (b : Bytes) (hb : b = slice S off b.length) :
    b.take n = slice S off (b.take n).length := by
  have h : (b.take n).length = min n b.length := by simp
  rw [h]
  conv => lhs; rw [hb]
  exact slice_take S off b.length n

theorem drop_slice_ok (S : Bytes) (off n : Nat) (b : Bytes) (hb : b = slice S off b.length) :
    b.drop n = slice S (off + n) (b.drop n).length := by
  have h : (b.drop n).length = b.length - n := by simp
  rw [h]
  conv => lhs; rw [hb]
  exact slice_drop S off b.length n

theorem splitPages_flat (S : Bytes) (fuel : Nat) (off : Nat) (b : Bytes) (fin : Bool) (ts : Int)
    (hb : b = slice S off b.length) (hlen : off + b.length ≤ S.length) :
    PagesOk S (splitPages flatArith fuel ((off : Int) + 1) b fin ts) := by
  induction fuel generalizing off b with
  | zero =>
    intro pg hpg
    simp only [splitPages, List.mem_singleton] at hpg
    rw [hpg]; exact pageOk_mk S off b fin ts hb hlen
  | succ f ih =>
    have hpage : ∀ fl, PageOk S ⟨(off : Int) + 1, ⟨b.take (min b.length pageBytes), 0, false, fl, ts⟩⟩ := by
      intro fl
      apply pageOk_mk
      · exact take_slice_ok S off _ b hb
      · have : (b.take (min b.length pageBytes)).length ≤ b.length := by
          simp only [List.length_take]; omega
        omega
    simp only [splitPages]
    split
    · intro pg hpg
      simp only [List.mem_singleton] at hpg
      rw [hpg]; exact hpage fin
    · intro pg hpg
      rcases List.mem_cons.1 hpg with hpg | hpg
      · rw [hpg]; exact hpage false
      · have hseq : flatArith.add ((off : Int) + 1) ((min b.length pageBytes : Nat) : Int)
            = ((off + min b.length pageBytes : Nat) : Int) + 1 := by
          simp only [flat_add]; omega
        rw [hseq] at hpg
        refine ih (off + min b.length pageBytes) (b.drop (min b.length pageBytes)) ?_ ?_ pg hpg
        · exact drop_slice_ok S off _ b hb
        · have : (b.drop (min b.length pageBytes)).length = b.length - min b.length pageBytes := by simp
          omega

theorem pagesOk_insertPages (S : Bytes) (A : SeqArith) (seq : Int) (new ps : List Page)
    (h1 : PagesOk S new) (h2 : PagesOk S ps) : PagesOk S (insertPages A seq new ps) := by
  intro pg hpg
  rcases (mem_insertPages A seq new ps pg).1 hpg with h | h
  · exact h1 pg h
  · exact h2 pg h

theorem send_flat' (S : Bytes) (c : Conn) (used : Int) (r0 : Reasm) (rs : List Reasm)
    (pos0 pos1 : Option Nat) (hc : ConnOk S c pos1) (hr : replay S pos0 (r0 :: rs) pos1) :
    ∃ pos', replay S pos0 (send flatArith c used r0 rs).calls.flatten pos' ∧
      ConnOk S (send flatArith c used r0 rs).conn pos' := by
  obtain ⟨pos', h1, h2, _⟩ := send_flat S c used r0 rs pos0 pos1 hc hr
  exact ⟨pos', h1, h2⟩

/-- insertIntoConn of a consistent payload never panics when the first page is not at nextSeq;
    the released items continue the stream. -/
theorem insertIntoConn_flat (S : Bytes) (L : Lim) (c : Conn) (used : Int) (off : Nat) (b : Bytes)
    (fin : Bool) (ts : Int) (pos : Option Nat) (hc : ConnOk S c pos) (hw : wtfGuard c = false)
    (hb : b = slice S off b.length) (hlen : off + b.length ≤ S.length) :
    ∃ st, insertIntoConn flatArith L c used ((off : Int) + 1) b fin ts = .ok st ∧
      ∃ pos', replay S pos st.calls.flatten pos' ∧ ConnOk S st.conn pos' := by
  obtain ⟨h1, h2, h3⟩ := hc
  unfold insertIntoConn
  simp only [hw, Bool.false_eq_true, if_false]
  have hnew : PagesOk S (pagesFromTCP flatArith ((off : Int) + 1) b fin ts) :=
    splitPages_flat S _ off b fin ts hb hlen
  have hall := pagesOk_insertPages S flatArith ((off : Int) + 1) _ c.pages hnew h3
  obtain ⟨pos1, r1, r2, r3, r4, r5⟩ := limitPops_flat S L pos _
    (c.npages + ((pagesFromTCP flatArith ((off : Int) + 1) b fin ts).length : Int))
    (used + ((pagesFromTCP flatArith ((off : Int) + 1) b fin ts).length : Int)) h2 hall
  rw [← h1] at r1 r2 r4 r5
  split
  · rename_i hnil
    refine ⟨_, rfl, pos1, ?_, ⟨r2, r3, r4⟩⟩
    rw [hnil] at r1
    simpa using r1
  · rename_i r0 rs hcons
    rw [hcons] at r1
    refine ⟨_, rfl, ?_⟩
    exact send_flat' S _ _ r0 rs pos pos1 ⟨r2, r3, r4⟩ r1

/-- a segment consistent with stream `S` in offset space (SYN at 0, byte j at j+1) -/
def FlatSegOk (S : Bytes) (s : Seg) : Prop :=
  if s.syn then s.seq = 0 ∧ s.bytes.length ≤ S.length ∧ s.bytes = slice S 0 s.bytes.length
  else ∃ off : Nat, s.seq = (off : Int) + 1 ∧ off + s.bytes.length ≤ S.length ∧
    s.bytes = slice S off s.bytes.length

theorem wtfGuard_of_noWtf (c : Conn) (h : NoWtf c) : wtfGuard c = false := by
  unfold NoWtf at h
  unfold wtfGuard
  cases hp : c.pages with
  | nil => rfl
  | cons p ps => rw [hp] at h; simpa [HeadNe] using h

theorem enc_ne_invalid (p : Nat) : enc (some p) ≠ invalidSeq := by
  simp only [enc, invalidSeq_eq]; omega

/-- payload position of a consistent segment -/
theorem flatSeg_payload (S : Bytes) (s : Seg) (hs : FlatSegOk S s) :
    ∃ off : Nat, off + s.bytes.length ≤ S.length ∧ s.bytes = slice S off s.bytes.length ∧
      (∀ p, payloadSeq flatArith (enc (some p)) s = (off : Int) + 1) ∧
      (s.syn = false → s.seq = (off : Int) + 1) ∧ (s.syn = true → off = 0 ∧ s.seq = 0) := by
  unfold FlatSegOk at hs
  by_cases hsyn : s.syn = true
  · rw [if_pos hsyn] at hs
    refine ⟨0, by omega, hs.2.2, ?_, by simp [hsyn], fun _ => ⟨rfl, hs.1⟩⟩
    intro p
    unfold payloadSeq
    rw [if_pos (by simp [hsyn, enc_ne_invalid])]
    simp [hs.1]
  · rw [if_neg hsyn] at hs
    obtain ⟨off, h1, h2, h3⟩ := hs
    refine ⟨off, h2, h3, ?_, fun _ => h1, fun h => absurd h hsyn⟩
    intro p
    unfold payloadSeq
    rw [if_neg (by simp [hsyn])]
    exact h1

theorem assembleConn_flat (S : Bytes) (L : Lim) (c : Conn) (used : Int) (s : Seg) (pos : Option Nat)
    (hc : ConnOk S c pos) (hw : NoWtf c) (hs : FlatSegOk S s) :
    ∃ st, assembleConn flatArith L c used s = .ok st ∧
      ∃ pos', replay S pos st.calls.flatten pos' ∧ ConnOk S st.conn pos' := by
  obtain ⟨off, hlen, hb, hpay, hns, hsy⟩ := flatSeg_payload S s hs
  unfold assembleConn
  dsimp only
  generalize hcc : (if c.lastSeen < s.ts then { c with lastSeen := s.ts } else c) = c1
  have h1 : c1.nextSeq = c.nextSeq := by rw [← hcc]; split <;> rfl
  have h2 : c1.pages = c.pages := by rw [← hcc]; split <;> rfl
  have hc1 : ConnOk S c1 pos := by
    obtain ⟨a1, a2, a3⟩ := hc
    exact ⟨by rw [h1]; exact a1, a2, by rw [h2]; exact a3⟩
  have hw1 : wtfGuard c1 = false := by
    apply wtfGuard_of_noWtf; unfold NoWtf; rw [h1, h2]; exact hw
  obtain ⟨e1, e2, e3⟩ := hc1
  cases pos with
  | none =>
    have hinv : c1.nextSeq = invalidSeq := e1
    rw [if_pos hinv]
    by_cases hsyn : s.syn = true
    · rw [if_pos hsyn]
      obtain ⟨ho, hq⟩ := hsy hsyn
      subst ho
      refine ⟨_, rfl, ?_⟩
      refine send_flat' S _ _ _ [] none (some s.bytes.length) ⟨?_, ?_, e3⟩ ?_
      · show flatArith.add (payloadSeq flatArith c1.nextSeq s) ((s.bytes.length : Int) + 1) = _
        rw [hinv, payloadSeq_invalid, hq]
        simp only [flat_add, enc]; omega
      · show s.bytes.length ≤ S.length; omega
      · apply replay_single
        exact Or.inl ⟨rfl, rfl, by show s.bytes.length ≤ S.length; omega, hb, rfl⟩
    · rw [if_neg hsyn]
      have hsf : s.syn = false := by simpa using hsyn
      rw [hinv, payloadSeq_invalid, hns hsf]
      exact insertIntoConn_flat S L c1 used off s.bytes _ s.ts none ⟨e1, e2, e3⟩ hw1 hb hlen
  | some p =>
    have hinv : ¬ c1.nextSeq = invalidSeq := by rw [e1]; exact enc_ne_invalid p
    rw [if_neg hinv, e1, hpay p]
    have henc : enc (some p) = (p : Int) + 1 := rfl
    rw [henc]
    by_cases hd : flatArith.diff ((p : Int) + 1) ((off : Int) + 1) > 0
    · rw [if_pos hd]
      exact insertIntoConn_flat S L c1 used off s.bytes _ s.ts (some p) ⟨e1, e2, e3⟩ hw1 hb hlen
    · rw [if_neg hd]
      have hle : off ≤ p := by simp only [flat_diff] at hd; omega
      have hx := byteSpan_flat_le S p off s.bytes hb hlen e2 hle
      simp only [] at hx
      obtain ⟨hx1, hx2, hx3⟩ := hx
      refine ⟨_, rfl, ?_⟩
      refine send_flat' S _ _ _ [] (some p)
        (some (p + (byteSpan flatArith ((p : Int) + 1) ((off : Int) + 1) s.bytes).1.length)) ⟨?_, hx2, e3⟩ ?_
      · show (byteSpan flatArith ((p : Int) + 1) ((off : Int) + 1) s.bytes).2 = _
        exact hx3
      · apply replay_single
        refine ⟨rfl, 0, rfl, ?_, ?_, ?_⟩
        · simpa using hx2
        · simpa using hx1
        · simp

/-! ### Flush* in offset space -/

theorem flushLoop_flat (S : Bytes) (T : Int) (fuel : Nat) (c : Conn) (used : Int)
    (calls : List (List Reasm)) (fl : Bool) (pos0 pos : Option Nat) (hc : ConnOk S c pos)
    (hr : replay S pos0 calls.flatten pos) :
    ∃ pos', replay S pos0 (flushLoop flatArith T fuel c used calls fl).1.calls.flatten pos' ∧
      ConnOk S (flushLoop flatArith T fuel c used calls fl).1.conn pos' := by
  induction fuel generalizing c used calls fl pos with
  | zero => exact ⟨pos, hr, hc⟩
  | succ f ih =>
    simp only [flushLoop]
    split
    · exact ⟨pos, hr, hc⟩
    · split
      · obtain ⟨pos1, r1, r2⟩ := skipFlush_flat S c used pos hc
        have hr' : replay S pos0 (calls ++ (skipFlush flatArith c used).calls).flatten pos1 := by
          rw [List.flatten_append]; exact replay_append S pos0 pos pos1 _ _ hr r1
        split
        · exact ⟨pos1, hr', r2⟩
        · exact ih _ _ _ _ pos1 r2 hr'
      · exact ⟨pos, hr, hc⟩

theorem flushConn_flat (S : Bytes) (T : Int) (ca : Bool) (c : Conn) (used : Int) (pos : Option Nat)
    (hc : ConnOk S c pos) :
    ∃ pos', replay S pos (flushConn flatArith T ca c used).1.calls.flatten pos' ∧
      ConnOk S (flushConn flatArith T ca c used).1.conn pos' := by
  unfold flushConn
  dsimp only
  have h := flushLoop_flat S T c.pages.length c used [] false pos pos hc rfl
  split
  · exact h
  · exact h

theorem flushAllLoop_flat (S : Bytes) (fuel : Nat) (c : Conn) (used : Int)
    (calls : List (List Reasm)) (pos0 pos : Option Nat) (hc : ConnOk S c pos)
    (hr : replay S pos0 calls.flatten pos) :
    ∃ pos', replay S pos0 (flushAllLoop flatArith fuel c used calls).calls.flatten pos' ∧
      ConnOk S (flushAllLoop flatArith fuel c used calls).conn pos' := by
  induction fuel generalizing c used calls pos with
  | zero => exact ⟨pos, hr, hc⟩
  | succ f ih =>
    simp only [flushAllLoop]
    obtain ⟨pos1, r1, r2⟩ := skipFlush_flat S c used pos hc
    have hr' : replay S pos0 (calls ++ (skipFlush flatArith c used).calls).flatten pos1 := by
      rw [List.flatten_append]; exact replay_append S pos0 pos pos1 _ _ hr r1
    split
    · exact ⟨pos1, hr', r2⟩
    · exact ih _ _ _ pos1 r2 hr'

theorem flushAllConn_flat (S : Bytes) (c : Conn) (used : Int) (pos : Option Nat) (hc : ConnOk S c pos) :
    ∃ pos', replay S pos (flushAllConn flatArith c used).calls.flatten pos' ∧
      ConnOk S (flushAllConn flatArith c used).conn pos' :=
  flushAllLoop_flat S _ c used [] pos pos hc rfl

/-! ### Layer B for whole histories -/

theorem flat_diff_self (x : Int) : flatArith.diff x x ≤ 0 := by simp

/-- invariant of a live connection in offset space, after its stream has received `items` -/
def FlatR (Sf : Nat → Bytes) (k : Nat) (c : Conn) (items : List Reasm) : Prop :=
  ∃ pos, replay (Sf k) none items pos ∧ ConnOk (Sf k) c pos ∧ NoWtf c

def FlatD (Sf : Nat → Bytes) (k : Nat) (items : List Reasm) : Prop :=
  ∃ pos, replay (Sf k) none items pos

theorem flatSeg_seq_ne (S : Bytes) (s : Seg) (h : FlatSegOk S s) : s.seq ≠ invalidSeq := by
  unfold FlatSegOk at h
  rw [invalidSeq_eq]
  split at h
  · rw [h.1]; omega
  · obtain ⟨off, h1, _⟩ := h; rw [h1]; omega

theorem flat_streamInv (Sf : Nat → Bytes) :
    StreamInv flatArith (FlatR Sf) (FlatD Sf) (fun s => FlatSegOk (Sf s.key) s) where
  dead := by intro k c items ⟨pos, h, _⟩; exact ⟨pos, h⟩
  nil := by intro k; exact ⟨none, rfl⟩
  fresh := by
    intro k ts sid
    exact ⟨none, rfl, ⟨rfl, trivial, by intro pg h; simp at h⟩, by simp [NoWtf, HeadNe]⟩
  asm := by
    intro L c used s items ⟨pos, h1, h2, h3⟩ hs
    obtain ⟨st, e1, pos', e2, e3⟩ := assembleConn_flat (Sf s.key) L c used s pos h2 h3 hs
    obtain ⟨st', e1', e4⟩ := assembleConn_noWtf flatArith flat_diff_self L c used s h3
      (flatSeg_seq_ne _ s hs)
    rw [e1] at e1'; cases e1'
    exact ⟨st, e1, pos', replay_append _ _ _ _ _ _ h1 e2, e3, e4⟩
  flush := by
    intro k T ca c used items ⟨pos, h1, h2, h3⟩
    obtain ⟨pos', e2, e3⟩ := flushConn_flat (Sf k) T ca c used pos h2
    exact ⟨pos', replay_append _ _ _ _ _ _ h1 e2, e3, flushConn_noWtf flatArith flat_diff_self T ca c used h3⟩
  flushAll := by
    intro k c used items ⟨pos, h1, h2, h3⟩
    obtain ⟨pos', e2, e3⟩ := flushAllConn_flat (Sf k) c used pos h2
    exact ⟨pos', replay_append _ _ _ _ _ _ h1 e2, e3, flushAllLoop_noWtf flatArith flat_diff_self _ c used _ h3⟩

/-- Layer B: every history of consistent segments, in offset space, runs without panic and every
    stream's items replay against its sender's stream. -/
theorem flat_sound (Sf : Nat → Bytes) (ops : List Op)
    (hops : ∀ op ∈ ops, OpPre (fun s => FlatSegOk (Sf s.key) s) op) :
    ∃ x, run flatArith {} ops = .ok x ∧
      LogInv (FlatR Sf) (FlatD Sf) x.1 (allEvs x.2) := by
  obtain ⟨x, h1, h2⟩ := run_logInv (flat_streamInv Sf) {} [] ops (logInv_init (fun k => ⟨none, rfl⟩)) hops
  exact ⟨x, h1, by simpa using h2⟩

end Gp.Asm
