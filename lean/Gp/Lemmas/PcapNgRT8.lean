import Gp.Lemmas.PcapNgRT7
/-
  Round trip, part 8 (C14): NewNgReader + read-everything on a written file.
-/
namespace Gp.PcapNg
open Gp.Gen.PcapNg

/-- well-formed file: strings fit 16 bit option lengths, blocks are shorter than 2^32 bytes, the item calls are
    well-formed (`WfItems`) for a reader with options `cfg` -/
structure WfFile (cfg : Cfg) (f : FileSpec) : Prop where
  sect : f.sect.app.length < 65536 ∧ f.sect.comment.length < 65536 ∧ f.sect.hardware.length < 65536 ∧ f.sect.os.length < 65536
  shbLen : (writeSHB f.sect).length < 4294967296
  if0 : WfIface f.if0
  if0Len : (writeIDB f.if0).length < 4294967296
  items : WfItems cfg f.if0.linkType [f.if0] f.items

/-- with WantMixedLinkType the link type of the first interface does not matter -/
theorem wfItems_mixed (cfg : Cfg) (hm : cfg.mixed = true) (a b : Nat) :
    ∀ (items : List Item) (ifs : List IfaceSpec), WfItems cfg a ifs items → WfItems cfg b ifs items := by
  intro items
  induction items with
  | nil => intro ifs _; trivial
  | cons it r ih =>
    intro ifs hw
    cases it with
    | iface i => exact ⟨hw.1, hw.2.1, ih _ hw.2.2⟩
    | pkt iface ts len data opts =>
      obtain ⟨⟨sp, hsp, _⟩, h2, h3, h4, h5, h6, h7⟩ := hw
      exact ⟨⟨sp, hsp, Or.inl hm⟩, h2, h3, h4, h5, h6, ih _ h7⟩
    | stats id st => exact absurd hw (by simp [WfItems])
    | dsb typ payload => exact ⟨hw.1, hw.2.1, ih _ hw.2.2⟩

/-- NewNgReader's program on a written section header (+ first interface unless WantMixedLinkType) -/
theorem eats_openP (s : S) (sect : Section) (i : IfaceSpec) (hbe : s.be = false) (hff : s.firstFound = false)
    (hws : sect.app.length < 65536 ∧ sect.comment.length < 65536 ∧ sect.hardware.length < 65536 ∧ sect.os.length < 65536)
    (hls : (writeSHB sect).length < 4294967296) (hwf : WfIface i) (hli : (writeIDB i).length < 4294967296) :
    Eats openP s (writeSHB sect ++ (if s.cfg.mixed then [] else writeIDB i))
      (fun _ s' => s'.core = if s.cfg.mixed then { s.core with sect := sect, ifaces := [] }
                             else { s.core with sect := sect, linkType := i.linkType, firstFound := true, ifaces := [ifaceOf i] }) := by
  rw [writeSHB_eq, length_blockBytes] at hls
  have hbl : (shbBody sect).length = 16 + (encOpts (shbOptList sect)).length := by
    simp only [shbBody, List.length_append, length_putLe16, length_putLe32, length_putLe64]
  have hsplit : writeSHB sect ++ (if s.cfg.mixed then [] else writeIDB i)
      = (putLe32 ngBlockTypeSectionHeader ++ putLe32 ((shbBody sect).length + 12) ++ putLe32 ngByteOrderMagic)
        ++ (putLe16 ngVersionMajor ++ putLe16 ngVersionMinor ++ putLe64 18446744073709551615 ++ encOpts (shbOptList sect)
              ++ putLe32 ((shbBody sect).length + 12) ++ (if s.cfg.mixed then [] else writeIDB i)) := by
    rw [writeSHB_eq, blockBytes_split]
    simp only [shbBody, List.append_assoc]
  unfold openP
  refine Eats.bindD hsplit (eats_readBlock_shb s ((shbBody sect).length + 12) hbe hls (by omega)) ?_
  refine Eats.bindD0 (EatsD.getS _) ?_
  dsimp only
  rw [if_neg (by simp)]
  refine Eats.weaken (eats_readSectionHeader { s with blkTyp := ngBlockTypeSectionHeader, be := false, blkLen := (shbBody sect).length + 12 - 12 }
    sect i (putLe32 ((shbBody sect).length + 12)) rfl hff rfl hws (by show (shbBody sect).length + 12 - 12 = _; omega)
    (by show (shbBody sect).length + 12 - 12 < _; omega) hwf hli) ?_
  intro _ s' h
  rw [h]
  simp only [S.core, hbe]

theorem openReader_cons (cfg : Cfg) (a b : UInt8) (t : Bytes) (h : ¬ (a.toNat = magicGzip1 ∧ b.toNat = magicGzip2)) :
    openReader cfg (a :: b :: t) = run ((a :: b :: t).length + 1) openP { cfg := cfg } { inp := a :: b :: t } := by
  simp only [openReader, h, if_false]

theorem shb_not_gzip : ¬ ((u8 ngBlockTypeSectionHeader).toNat = magicGzip1 ∧ (u8 (ngBlockTypeSectionHeader / 256)).toNat = magicGzip2) := by
  decide

/-- NewNgReader on a written file -/
theorem openReader_written (cfg : Cfg) (sect : Section) (i : IfaceSpec) (rest : Bytes)
    (hws : sect.app.length < 65536 ∧ sect.comment.length < 65536 ∧ sect.hardware.length < 65536 ∧ sect.os.length < 65536)
    (hls : (writeSHB sect).length < 4294967296) (hwf : WfIface i) (hli : (writeIDB i).length < 4294967296) :
    ∃ s ev, openReader cfg (writeSHB sect ++ writeIDB i ++ rest)
        = .ok () s ⟨(if cfg.mixed then writeIDB i else []) ++ rest, ev, 0⟩ ∧
      s.core = (if cfg.mixed then coreOf cfg sect 0 false [] else coreOf cfg sect i.linkType true [i]) := by
  have hcons : ∃ t, writeSHB sect ++ writeIDB i ++ rest
      = u8 ngBlockTypeSectionHeader :: u8 (ngBlockTypeSectionHeader / 256) :: t := ⟨_, rfl⟩
  obtain ⟨t, ht⟩ := hcons
  have hstream : writeSHB sect ++ writeIDB i ++ rest
      = (writeSHB sect ++ (if cfg.mixed then [] else writeIDB i)) ++ ((if cfg.mixed then writeIDB i else []) ++ rest) := by
    cases cfg.mixed <;> simp [List.append_assoc]
  obtain ⟨u, s', ev', hq, hev⟩ := eats_openP { cfg := cfg } sect i rfl rfl hws hls hwf hli
    ((if cfg.mixed then writeIDB i else []) ++ rest) [] 0
  refine ⟨s', ev', ?_, ?_⟩
  · rw [ht, openReader_cons cfg _ _ t shb_not_gzip, ← ht, hstream]
    exact hev.at_fuel NoHang.openP (Nat.lt_succ_self _)
  · rw [hq]
    cases cfg with
    | mk mixed errMismatch skipUnknown => cases mixed <;> rfl

/-- NewNgReader followed by calls until the first failure, on a written well-formed file: the expected packets,
    then io.EOF, everything consumed, no wrapped read error; section info and interfaces as written -/
theorem readFile_written (cfg : Cfg) (f : FileSpec) (hw : WfFile cfg f) :
    (writeFile f).2 = 0 ∧
    ∃ rf, readFile cfg (writeFile f).1 = (expect cfg f.if0.linkType [f.if0] f.items, .eof, rf) ∧
      rf.s.core = coreOf cfg f.sect (if cfg.mixed then 0 else f.if0.linkType) (!cfg.mixed) (finalIfs [f.if0] f.items) ∧
      rf.w.inp = [] ∧ rf.w.nWrap = 0 := by
  have hwi := writeItems_wf cfg f.if0.linkType f.items [f.if0] hw.items
  have hfile : writeFile f = (writeSHB f.sect ++ writeIDB f.if0 ++ blocksOf f.items, 0) := by
    unfold writeFile
    simp only [List.length_cons, List.length_nil] at hwi
    rw [hwi]
  rw [hfile]
  refine ⟨rfl, ?_⟩
  obtain ⟨s, ev, hopen, hcore⟩ := openReader_written cfg f.sect f.if0 (blocksOf f.items) hw.sect hw.shbLen hw.if0 hw.if0Len
  unfold readFile readAll
  simp only [hopen]
  cases hm : cfg.mixed with
  | true =>
    rw [hm] at hcore
    simp only [if_true] at hcore ⊢
    have hra := ra_items cfg f.sect 0 false 0 (.iface f.if0 :: f.items) []
      ⟨hw.if0, hw.if0Len, wfItems_mixed cfg hm _ 0 _ _ hw.items⟩
    obtain ⟨rf, h1, h2, h3, h4⟩ := hra.readAll s ev ((blocksOf (.iface f.if0 :: f.items)).length + 1) hcore (Nat.lt_succ_self _)
    refine ⟨rf, ?_, h2, h3, h4⟩
    have hexp : expect cfg 0 [] (.iface f.if0 :: f.items) = expect cfg f.if0.linkType [f.if0] f.items :=
      expect_mixed cfg hm 0 f.if0.linkType f.items [f.if0]
    rw [← hexp]
    exact h1
  | false =>
    rw [hm] at hcore
    simp only [Bool.false_eq_true, if_false, List.nil_append] at hcore ⊢
    have hra := ra_items cfg f.sect f.if0.linkType true 0 f.items [f.if0] hw.items
    obtain ⟨rf, h1, h2, h3, h4⟩ := hra.readAll s ev ((blocksOf f.items).length + 1) hcore (Nat.lt_succ_self _)
    exact ⟨rf, h1, h2, h3, h4⟩

end Gp.PcapNg
