import Gp.Lemmas.Reader
/-
  C20 helper lemmas, part 2: the hand-shake invariant and its preservation.
-/
namespace Gp.Reader

/-- Assembler side: where it is determines which channels are closed and whether batches remain. -/
def InvA (s : State) : Prop :=
  match s.apc with
  | .send => s.aprog ≠ [] ∧ s.rClosed = false ∧ s.dClosed = false
  | .waitDone => s.rClosed = false ∧ s.dClosed = false
  | .closeR => s.aprog = [] ∧ s.rClosed = false ∧ s.dClosed = false
  | .closeD => s.aprog = [] ∧ s.rClosed = true ∧ s.dClosed = false
  | .fin => s.aprog = [] ∧ s.rClosed = true ∧ s.dClosed = true
  | .panicked => False

/-- Consumer side: where it is determines `closed`/`first`/`current` and whether the assembler
    is waiting for an acknowledgement (`apc = waitDone`: a batch is outstanding). -/
def InvC (s : State) : Prop :=
  match s.cpc with
  | .idle =>
    (s.closed = true → s.rClosed = true ∧ s.current = []) ∧
    (s.closed = false → s.first = true → s.apc ≠ .waitDone) ∧
    (s.closed = false → s.first = false → s.apc = .waitDone)
  | .rdSend _ _ => s.closed = false ∧ s.first = false ∧ s.current = [] ∧ s.apc = .waitDone
  | .rdRecv _ _ => s.closed = false ∧ s.first = false ∧ s.current = [] ∧ s.apc ≠ .waitDone
  | .clAck => s.closed = false ∧ s.first = false ∧ s.apc = .waitDone
  | .clRecv => s.closed = true ∧ s.current = [] ∧ s.apc ≠ .waitDone
  | .clSend => s.closed = true ∧ s.current = [] ∧ s.apc = .waitDone
  | .panicked => False

def Inv (s : State) : Prop := s.initiated = true ∧ InvA s ∧ InvC s

theorem asmNext_ne_waitDone (bs : List Batch) : asmNext bs ≠ .waitDone := by
  cases bs <;> simp [asmNext]

theorem readTail_nil (le : Bool) (n : Nat) (lr : Bool) : readTail le n [] lr = (.eof, [], lr) := rfl

theorem stripEmpty_nil (le lr : Bool) : stripEmpty le [] lr = ([], lr) := rfl

theorem inv_init (le : Bool) (bs : List Batch) (p : List COp) : Inv (init le bs p) := by
  refine ⟨rfl, ?_, ?_⟩
  · cases bs <;> simp [InvA, init, asmNext]
  · simp [InvC, init, asmNext_ne_waitDone]

/-- The consumer part of the invariant after `readLoop`, from what holds before it. -/
theorem invC_readLoop (s : State) (n : Nat) (l : Bool)
    (hcl : s.closed = true → s.rClosed = true ∧ s.current = [])
    (h1 : s.closed = false → s.first = true → s.apc ≠ .waitDone)
    (h2 : s.closed = false → s.first = false → s.apc = .waitDone) :
    InvC (readLoop s n l) := by
  unfold readLoop
  split
  · rename_i hc
    simp only [Bool.and_eq_true, Bool.not_eq_eq_eq_not, Bool.not_true, List.isEmpty_iff] at hc
    split
    · rename_i hf
      simp only [InvC]
      exact ⟨hc.1, trivial, hc.2, h1 hc.1 hf⟩
    · rename_i hf
      simp only [Bool.not_eq_true] at hf
      simp only [InvC]
      exact ⟨hc.1, hf, hc.2, h2 hc.1 hf⟩
  · rename_i hc
    simp only [Bool.and_eq_true, Bool.not_eq_eq_eq_not, Bool.not_true, List.isEmpty_iff] at hc
    unfold finishRead
    simp only [InvC]
    refine ⟨?_, h1, h2⟩
    intro hcl'
    obtain ⟨hr, hcur⟩ := hcl hcl'
    exact ⟨hr, by rw [hcur, readTail_nil]⟩

theorem readLoop_apc (s : State) (n : Nat) (l : Bool) : (readLoop s n l).apc = s.apc := by
  unfold readLoop finishRead
  split
  · split <;> rfl
  · rfl

theorem readLoop_aprog (s : State) (n : Nat) (l : Bool) : (readLoop s n l).aprog = s.aprog := by
  unfold readLoop finishRead
  split
  · split <;> rfl
  · rfl

theorem readLoop_rClosed (s : State) (n : Nat) (l : Bool) : (readLoop s n l).rClosed = s.rClosed := by
  unfold readLoop finishRead
  split
  · split <;> rfl
  · rfl

theorem readLoop_dClosed (s : State) (n : Nat) (l : Bool) : (readLoop s n l).dClosed = s.dClosed := by
  unfold readLoop finishRead
  split
  · split <;> rfl
  · rfl

theorem readLoop_initiated (s : State) (n : Nat) (l : Bool) : (readLoop s n l).initiated = s.initiated := by
  unfold readLoop finishRead
  split
  · split <;> rfl
  · rfl

theorem readLoop_lossErrors (s : State) (n : Nat) (l : Bool) : (readLoop s n l).lossErrors = s.lossErrors := by
  unfold readLoop finishRead
  split
  · split <;> rfl
  · rfl

theorem invA_readLoop (s : State) (n : Nat) (l : Bool) (h : InvA s) : InvA (readLoop s n l) := by
  unfold InvA at h ⊢
  rw [readLoop_apc, readLoop_aprog, readLoop_rClosed, readLoop_dClosed]
  exact h

/-- InvA only looks at these four fields. -/
theorem invA_congr {s s' : State} (h1 : s'.apc = s.apc) (h2 : s'.aprog = s.aprog)
    (h3 : s'.rClosed = s.rClosed) (h4 : s'.dClosed = s.dClosed) (h : InvA s) : InvA s' := by
  unfold InvA at h ⊢
  rw [h1, h2, h3, h4]; exact h

theorem invA_next {s : State} (hp : s.apc = .waitDone) (h : InvA s) :
    InvA { s with apc := asmNext s.aprog } := by
  unfold InvA at h
  rw [hp] at h
  cases hb : s.aprog with
  | nil => simp [InvA, asmNext, h.1, h.2]
  | cons b bs => simp [InvA, asmNext, h.1, h.2]

/-- InvC looks at the assembler only through "is it waiting for the acknowledgement". -/
theorem invC_congr {s s' : State} (h1 : s'.cpc = s.cpc) (h2 : s'.closed = s.closed)
    (h3 : s'.first = s.first) (h4 : s'.current = s.current)
    (h5 : s'.apc = .waitDone ↔ s.apc = .waitDone) (h6 : s.rClosed = true → s'.rClosed = true)
    (h : InvC s) : InvC s' := by
  unfold InvC at h ⊢
  rw [h1, h2, h3, h4]
  revert h
  cases s.cpc <;> intro h <;> simp only [ne_eq, h5] at h ⊢ <;> try exact h
  exact ⟨fun x => ⟨h6 (h.1 x).1, (h.1 x).2⟩, h.2⟩

theorem inv_step {s s' : State} (hi : Inv s) (hs : Step s s') : Inv s' := by
  obtain ⟨hini, hA, hC⟩ := hi
  cases hs with
  | asmPanicSend hp hb hc =>
    exfalso
    unfold InvA at hA; rw [hp] at hA
    cases hc with
    | inl h => rw [hini] at h; cases h
    | inr h => rw [hA.2.1] at h; cases h
  | asmDoneClosed hp hc =>
    exfalso
    unfold InvA at hA; rw [hp] at hA
    rw [hA.2] at hc; cases hc
  | closeR hp hc =>
    unfold InvA at hA; rw [hp] at hA
    refine ⟨hini, ?_, ?_⟩
    · simp [InvA, hA.1, hA.2.2]
    · exact invC_congr (s := s) rfl rfl rfl rfl (by simp [hp]) (fun _ => rfl) hC
  | closeRPanic hp hc =>
    exfalso
    unfold InvA at hA; rw [hp] at hA
    rw [hA.2.1] at hc; cases hc
  | closeD hp hc =>
    unfold InvA at hA; rw [hp] at hA
    refine ⟨hini, ?_, ?_⟩
    · simp [InvA, hA.1, hA.2.1]
    · exact invC_congr (s := s) rfl rfl rfl rfl (by simp [hp]) (fun h => h) hC
  | closeDPanic hp hc =>
    exfalso
    unfold InvA at hA; rw [hp] at hA
    rw [hA.2.2] at hc; cases hc
  | @start op rest hp hc =>
    unfold InvC at hC; rw [hp] at hC
    simp only at hC
    obtain ⟨h1, h2, h3⟩ := hC
    cases op with
    | rd n l =>
      unfold startOp
      simp only [hini, Bool.not_true, Bool.false_eq_true, if_false]
      refine ⟨by simp [readLoop_initiated], invA_readLoop _ n l (invA_congr rfl rfl rfl rfl hA), ?_⟩
      apply invC_readLoop
      · intro hcl
        obtain ⟨hr, hcur⟩ := h1 hcl
        exact ⟨hr, by simp only [hcur, stripEmpty_nil]⟩
      · exact h2
      · exact h3
    | close =>
      unfold startOp
      simp only
      split
      · rename_i hc2
        simp only [Bool.and_eq_true, Bool.not_eq_eq_eq_not, Bool.not_true] at hc2
        exact ⟨hini, invA_congr rfl rfl rfl rfl hA, by simp only [InvC]; exact ⟨hc2.2, hc2.1, h3 hc2.2 hc2.1⟩⟩
      · rename_i hc2
        simp only [Bool.and_eq_true, Bool.not_eq_eq_eq_not, Bool.not_true, not_and, Bool.not_eq_false] at hc2
        refine ⟨hini, invA_congr rfl rfl rfl rfl hA, ?_⟩
        simp only [InvC]
        refine ⟨trivial, trivial, ?_⟩
        cases hcl : s.closed with
        | true =>
          have hr := (h1 hcl).1
          intro hw
          unfold InvA at hA; rw [hw] at hA
          rw [hA.1] at hr; cases hr
        | false =>
          cases hf : s.first with
          | true => exact h2 hcl hf
          | false => rw [hc2 hf] at hcl; cases hcl
  | @rdRecvClosed n l hp hc =>
    refine ⟨by simp [readLoop_initiated, hini], invA_readLoop _ n l (invA_congr rfl rfl rfl rfl hA), ?_⟩
    apply invC_readLoop
    · intro _; exact ⟨hc, rfl⟩
    · intro h; cases h
    · intro h; cases h
  | clRecvClosed hp hc =>
    unfold InvC at hC; rw [hp] at hC
    refine ⟨hini, invA_congr rfl rfl rfl rfl hA, ?_⟩
    simp only [InvC]
    exact ⟨fun _ => ⟨hc, hC.2.1⟩, fun h => (by rw [hC.1] at h; cases h), fun h => (by rw [hC.1] at h; cases h)⟩
  | sendPanic hp hc =>
    exfalso
    have hw : s.apc = .waitDone := by
      unfold InvC at hC
      rcases hp with ⟨n, l, hp⟩ | hp | hp <;> rw [hp] at hC
      · exact hC.2.2.2
      · exact hC.2.2
      · exact hC.2.2
    unfold InvA at hA; rw [hw] at hA
    rw [hA.2] at hc; cases hc
  | @deliverRd b bs n l hp hb hi' hr hcp =>
    unfold InvA at hA; rw [hp] at hA
    unfold InvC at hC; rw [hcp] at hC
    refine ⟨by simp [readLoop_initiated, hini], invA_readLoop _ n l (by simp [InvA, hA.2.1, hA.2.2]), ?_⟩
    apply invC_readLoop
    · intro hcl; rw [hC.1] at hcl; cases hcl
    · intro _ hf; rw [hC.2.1] at hf; cases hf
    · intro _ _; rfl
  | deliverCl hp hb hi' hr hcp =>
    unfold InvA at hA; rw [hp] at hA
    unfold InvC at hC; rw [hcp] at hC
    exact ⟨hini, by simp [InvA, hA.2.1, hA.2.2], by simp only [InvC]; exact ⟨hC.1, hC.2.1, trivial⟩⟩
  | @ackRd n l hp hc hcp =>
    unfold InvC at hC; rw [hcp] at hC
    refine ⟨hini, ?_, ?_⟩
    · exact invA_congr (s := { s with apc := asmNext s.aprog }) rfl rfl rfl rfl (invA_next hp hA)
    · simp only [InvC]
      exact ⟨hC.1, hC.2.1, hC.2.2.1, asmNext_ne_waitDone _⟩
  | ackClAck hp hc hcp =>
    refine ⟨hini, ?_, ?_⟩
    · exact invA_congr (s := { s with apc := asmNext s.aprog }) rfl rfl rfl rfl (invA_next hp hA)
    · simp only [InvC]
      exact ⟨trivial, trivial, asmNext_ne_waitDone _⟩
  | ackClSend hp hc hcp =>
    unfold InvC at hC; rw [hcp] at hC
    refine ⟨hini, ?_, ?_⟩
    · exact invA_congr (s := { s with apc := asmNext s.aprog }) rfl rfl rfl rfl (invA_next hp hA)
    · simp only [InvC]
      exact ⟨hC.1, hC.2.1, asmNext_ne_waitDone _⟩

theorem inv_reachable {s0 s : State} (h0 : Inv s0) (hr : Reachable s0 s) : Inv s := by
  induction hr with
  | refl => exact h0
  | step t _ hs ih => exact inv_step ih (step_Step hs)

end Gp.Reader
