/-
  Helper lemmas for C13 (engine frag4), part 1: list utilities (strictly sorted lists are
  determined by their members, maxima, sums over filters) and the association-list state.
-/
import Gp.Model.Frag4

namespace Gp.Frag4

/-! ### Strictly sorted lists -/

/-- Strictly increasing FragOffset field. -/
def Srt (l : List Frag) : Prop := l.Pairwise (fun a b => a.off < b.off)

theorem srt_ext : ∀ (l m : List Frag), Srt l → Srt m → (∀ x, x ∈ l ↔ x ∈ m) → l = m
  | [], [], _, _, _ => rfl
  | [], b :: m, _, _, h => by
    have := (h b).2 (List.mem_cons_self ..); cases this
  | a :: l, [], _, _, h => by
    have := (h a).1 (List.mem_cons_self ..); cases this
  | a :: l, b :: m, hl, hm, h => by
    have hl' := List.pairwise_cons.1 hl
    have hm' := List.pairwise_cons.1 hm
    have hab : a = b := by
      have h1 := (h a).1 (List.mem_cons_self ..)
      have h2 := (h b).2 (List.mem_cons_self ..)
      rcases List.mem_cons.1 h1 with e | h1
      · exact e
      · rcases List.mem_cons.1 h2 with e | h2
        · exact e.symm
        · have := hl'.1 b h2; have := hm'.1 a h1; omega
    subst hab
    congr 1
    apply srt_ext l m hl'.2 hm'.2
    intro x
    constructor
    · intro hx
      rcases List.mem_cons.1 ((h x).1 (List.mem_cons_of_mem _ hx)) with e | hx'
      · subst e; have := hl'.1 x hx; omega
      · exact hx'
    · intro hx
      rcases List.mem_cons.1 ((h x).2 (List.mem_cons_of_mem _ hx)) with e | hx'
      · subst e; have := hm'.1 x hx; omega
      · exact hx'

theorem pairwise_trichotomy {R : Frag → Frag → Prop} : ∀ (l : List Frag), l.Pairwise R →
    ∀ a b, a ∈ l → b ∈ l → a = b ∨ R a b ∨ R b a
  | [], _, _, _, ha, _ => by cases ha
  | c :: l, h, a, b, ha, hb => by
    have h' := List.pairwise_cons.1 h
    rcases List.mem_cons.1 ha with ea | ha'
    · rcases List.mem_cons.1 hb with eb | hb'
      · left; rw [ea, eb]
      · right; left; rw [ea]; exact h'.1 b hb'
    · rcases List.mem_cons.1 hb with eb | hb'
      · right; right; rw [eb]; exact h'.1 a ha'
      · exact pairwise_trichotomy l h'.2 a b ha' hb'

/-! ### The walk of insert -/

theorem insLoop_dup : ∀ (l : List Frag) (f : Frag), Srt l → f ∈ l → insLoop f l = .dup
  | [], _, _, h => by cases h
  | g :: l, f, hs, h => by
    have hs' := List.pairwise_cons.1 hs
    unfold insLoop
    rcases List.mem_cons.1 h with e | h'
    · simp [e]
    · have hlt := hs'.1 f h'
      have h1 : ¬ f.off = g.off := by omega
      have h2 : ¬ f.off < g.off := by omega
      simp [h1, h2, insLoop_dup l f hs'.2 h']

theorem insLoop_ins : ∀ (l : List Frag) (f : Frag), Srt l → (∀ g ∈ l, g.off ≠ f.off) →
    (∃ g ∈ l, f.off < g.off) →
    ∃ l', insLoop f l = .ins l' ∧ Srt l' ∧ ∀ x, x ∈ l' ↔ x = f ∨ x ∈ l
  | [], _, _, _, ⟨g, hg, _⟩ => by cases hg
  | g :: l, f, hs, hne, hex => by
    have hs' := List.pairwise_cons.1 hs
    unfold insLoop
    have h1 : ¬ f.off = g.off := fun e => hne g (List.mem_cons_self ..) e.symm
    by_cases h2 : f.off < g.off
    · refine ⟨f :: g :: l, by simp [h1, h2], ?_, fun x => by simp⟩
      refine List.pairwise_cons.2 ⟨?_, hs⟩
      intro x hx
      rcases List.mem_cons.1 hx with e | hx'
      · rw [e]; exact h2
      · have := hs'.1 x hx'; omega
    · have hex' : ∃ g' ∈ l, f.off < g'.off := by
        obtain ⟨g', hg', hlt⟩ := hex
        rcases List.mem_cons.1 hg' with e | hg''
        · subst e; exact absurd hlt h2
        · exact ⟨g', hg'', hlt⟩
      obtain ⟨l', he, hsl, hm⟩ := insLoop_ins l f hs'.2 (fun x hx => hne x (List.mem_cons_of_mem _ hx)) hex'
      refine ⟨g :: l', by simp [h1, h2, he], ?_, ?_⟩
      · refine List.pairwise_cons.2 ⟨?_, hsl⟩
        intro x hx
        rcases (hm x).1 hx with e | hx'
        · subst e; omega
        · exact hs'.1 x hx'
      · intro x
        simp only [List.mem_cons, hm x]
        constructor
        · rintro (e | e | e)
          · exact Or.inr (Or.inl e)
          · exact Or.inl e
          · exact Or.inr (Or.inr e)
        · rintro (e | e | e)
          · exact Or.inr (Or.inl e)
          · exact Or.inl e
          · exact Or.inr (Or.inr e)

/-- Whatever the walk does, it only ever stores the new fragment or keeps old ones. -/
theorem insLoop_mem : ∀ (l : List Frag) (f : Frag) (l' : List Frag), insLoop f l = .ins l' →
    ∀ x ∈ l', x = f ∨ x ∈ l
  | [], f, l', h => by simp [insLoop] at h
  | g :: l, f, l', h => by
    unfold insLoop at h
    split at h
    · cases h
    · split at h
      · cases h; intro x hx; simpa using hx
      · split at h
        · rename_i t' he
          cases h
          intro x hx
          rcases List.mem_cons.1 hx with e | hx'
          · exact Or.inr (e ▸ List.mem_cons_self ..)
          · rcases insLoop_mem l f t' he x hx' with e | hm
            · exact Or.inl e
            · exact Or.inr (List.mem_cons_of_mem _ hm)
        · cases h
        · cases h

theorem place_mem (fl : FL) (f : Frag) (l : List Frag) (h : place fl f = some l) :
    ∀ x ∈ l, x = f ∨ x ∈ fl.list := by
  unfold place at h
  split at h
  · cases h; intro x hx
    rcases List.mem_append.1 hx with hx | hx
    · exact Or.inr hx
    · exact Or.inl (by simpa using hx)
  · split at h
    · cases h
    · cases h; intro x hx; exact Or.inr hx
    · rename_i l' he
      cases h
      exact insLoop_mem _ _ _ he

/-! ### End offsets, maxima and sums -/

/-- One past the last byte the fragment claims: `FragOffset*8 + len(Payload)`. -/
def Frag.endOff (f : Frag) : Nat := f.byteOff + f.payload.length

def maxEnd : List Frag → Nat
  | [] => 0
  | f :: l => max f.endOff (maxEnd l)

def sumLen : List Frag → Nat
  | [] => 0
  | f :: l => f.payload.length + sumLen l

theorem maxEnd_le_iff : ∀ (l : List Frag) (m : Nat), maxEnd l ≤ m ↔ ∀ g ∈ l, g.endOff ≤ m
  | [], m => by simp [maxEnd]
  | f :: l, m => by
    simp only [maxEnd, List.mem_cons, forall_eq_or_imp, ← maxEnd_le_iff l m]
    omega

theorem le_maxEnd (l : List Frag) (g : Frag) (h : g ∈ l) : g.endOff ≤ maxEnd l :=
  (maxEnd_le_iff l _).1 (Nat.le_refl _) g h

theorem maxEnd_congr (l m : List Frag) (h : ∀ x, x ∈ l ↔ x ∈ m) : maxEnd l = maxEnd m := by
  apply Nat.le_antisymm
  · exact (maxEnd_le_iff l _).2 (fun g hg => le_maxEnd m g ((h g).1 hg))
  · exact (maxEnd_le_iff m _).2 (fun g hg => le_maxEnd l g ((h g).2 hg))

theorem lt_maxEnd : ∀ (l : List Frag) (m : Nat), m < maxEnd l → ∃ g ∈ l, m < g.endOff
  | [], m, h => by simp [maxEnd] at h
  | f :: l, m, h => by
    simp only [maxEnd] at h
    by_cases hf : m < f.endOff
    · exact ⟨f, List.mem_cons_self .., hf⟩
    · obtain ⟨g, hg, hlt⟩ := lt_maxEnd l m (by omega)
      exact ⟨g, List.mem_cons_of_mem _ hg, hlt⟩

theorem sumLen_filter_le : ∀ (l : List Frag) (p : Frag → Bool), sumLen (l.filter p) ≤ sumLen l
  | [], _ => by simp [sumLen]
  | f :: l, p => by
    have := sumLen_filter_le l p
    by_cases h : p f <;> simp [List.filter, h, sumLen] <;> omega

theorem sumLen_filter_lt : ∀ (l : List Frag) (p : Frag → Bool) (g : Frag), g ∈ l → p g = false →
    0 < g.payload.length → sumLen (l.filter p) < sumLen l
  | [], _, _, h, _, _ => by cases h
  | f :: l, p, g, h, hp, hpos => by
    have hle := sumLen_filter_le l p
    rcases List.mem_cons.1 h with e | h'
    · subst e; simp [List.filter, hp, sumLen]; omega
    · have := sumLen_filter_lt l p g h' hp hpos
      by_cases h : p f <;> simp [List.filter, h, sumLen] <;> omega

/-- Adding one (new) member of a duplicate-free list to the filter adds its length to the sum. -/
theorem sumLen_filter_add : ∀ (l : List Frag) (p : Frag → Bool) (f : Frag), l.Nodup → f ∈ l →
    p f = false →
    sumLen (l.filter (fun g => p g || decide (g = f))) = sumLen (l.filter p) + f.payload.length
  | [], _, _, _, h, _ => by cases h
  | h :: l, p, f, hnd, hmem, hp => by
    have hnd' := List.nodup_cons.1 hnd
    by_cases e : h = f
    · subst e
      have hcongr : l.filter (fun g => p g || decide (g = h)) = l.filter p := by
        apply List.filter_congr
        intro x hx
        have : x ≠ h := fun e => hnd'.1 (e ▸ hx)
        simp [this]
      simp [List.filter, hp, sumLen, hcongr]; omega
    · have hmem' : f ∈ l := by
        rcases List.mem_cons.1 hmem with e' | h'
        · exact absurd e'.symm e
        · exact h'
      have ih := sumLen_filter_add l p f hnd'.2 hmem' hp
      by_cases hph : p h <;> simp [List.filter, hph, e, sumLen, ih] <;> omega

/-! ### The flow map -/

theorem lookup_mem (st : State) (k : Key) (fl : FL) (h : st.lookup k = some fl) : (k, fl) ∈ st.flows := by
  unfold State.lookup at h
  split at h
  · rename_i p hp
    cases h
    have h1 := List.find?_some hp
    have h2 := List.mem_of_find?_eq_some hp
    have : p.1 = k := by simpa using h1
    rw [← this]; exact h2
  · cases h

theorem lookup_erase_self (st : State) (k : Key) : (st.erase k).lookup k = none := by
  unfold State.lookup State.erase
  have : (st.flows.filter (fun p => !decide (p.1 = k))).find? (fun p => decide (p.1 = k)) = none := by
    apply List.find?_eq_none.2
    intro x hx
    have := (List.mem_filter.1 hx).2
    simpa using this
  simp [this]

theorem find_filter_ne (l : List (Key × FL)) (k k' : Key) (h : k' ≠ k) :
    (l.filter (fun p => !decide (p.1 = k))).find? (fun p => decide (p.1 = k')) =
      l.find? (fun p => decide (p.1 = k')) := by
  induction l with
  | nil => rfl
  | cons a l ih =>
    rw [List.filter_cons]
    by_cases h1 : a.1 = k
    · have h2 : ¬ a.1 = k' := fun e => h (e.symm.trans h1)
      have e1 : (!decide (a.1 = k)) = false := by simp [h1]
      have e2 : decide (a.1 = k') = false := by simp [h2]
      rw [e1, List.find?_cons, e2]
      simpa using ih
    · have e1 : (!decide (a.1 = k)) = true := by simp [h1]
      rw [e1]
      simp only [if_true, List.find?_cons, ih]

theorem lookup_erase_ne (st : State) (k k' : Key) (h : k' ≠ k) : (st.erase k).lookup k' = st.lookup k' := by
  unfold State.lookup State.erase
  simp only [find_filter_ne _ _ _ h]

theorem lookup_set_self (st : State) (k : Key) (fl : FL) : (st.set k fl).lookup k = some fl := by
  simp [State.lookup, State.set]

theorem lookup_set_ne (st : State) (k k' : Key) (fl : FL) (h : k' ≠ k) : (st.set k fl).lookup k' = st.lookup k' := by
  have h2 : ¬ k = k' := fun e => h e.symm
  have := lookup_erase_ne st k k' h
  unfold State.lookup at this ⊢
  simp only [State.set, List.find?, h2, decide_false]
  exact this

/-- Keys of the association list are pairwise distinct (a Go map has one entry per key). -/
def State.wf (st : State) : Prop := (st.flows.map (·.1)).Nodup

theorem wf_empty : State.wf {} := by simp [State.wf]

theorem wf_erase (st : State) (k : Key) (h : st.wf) : (st.erase k).wf := by
  unfold State.wf State.erase at *
  exact (List.filter_sublist.map _).nodup h

theorem wf_set (st : State) (k : Key) (fl : FL) (h : st.wf) : (st.set k fl).wf := by
  have h1 := wf_erase st k h
  unfold State.wf State.set at *
  simp only [List.map_cons, List.nodup_cons]
  refine ⟨?_, h1⟩
  intro hm
  obtain ⟨p, hp, e⟩ := List.mem_map.1 hm
  have := (List.mem_filter.1 hp).2
  simp [e] at this

theorem wf_discard (st : State) (t : Int) (h : st.wf) : (discard st t).1.wf := by
  unfold State.wf discard at *
  exact (List.filter_sublist.map _).nodup h

end Gp.Frag4
