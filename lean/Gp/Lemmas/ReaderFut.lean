import Gp.Lemmas.ReaderInv
/-
  C20 helper lemmas, part 3: the observations already made plus those the sequential reference
  reader still makes from the current state are the same in every reachable state.
-/
namespace Gp.Reader

/-! ### stripEmpty / readTail on a stream with more slices behind -/

theorem stripEmpty_append (le : Bool) (cur X : List Slice) (lr : Bool) :
    stripEmpty le (cur ++ X) lr =
      stripEmpty le ((stripEmpty le cur lr).1 ++ X) (stripEmpty le cur lr).2 := by
  induction cur generalizing lr with
  | nil => simp [stripEmpty]
  | cons a rest ih =>
    by_cases hb : a.bytes = []
    · by_cases hu : unreported le lr a = true
      · simp only [List.cons_append, stripEmpty, hb, hu, if_true]
      · simp only [List.cons_append, stripEmpty, hb, hu, if_true]
        exact ih false
    · simp only [List.cons_append, stripEmpty, hb, if_false]

/-- The front slice is one Read can return something from. -/
def Workable (le lr : Bool) (cur : List Slice) : Prop :=
  ∀ a r, cur = a :: r → a.bytes ≠ [] ∨ unreported le lr a = true

theorem workable_strip (le : Bool) (cur : List Slice) (lr : Bool) :
    Workable le (stripEmpty le cur lr).2 (stripEmpty le cur lr).1 :=
  fun a r h => stripEmpty_head le cur lr a r h

theorem workable_nil (le lr : Bool) : Workable le lr [] := fun _ _ h => by cases h

theorem stripEmpty_workable (le : Bool) (a : Slice) (r X : List Slice) (lr : Bool)
    (hw : Workable le lr (a :: r)) : stripEmpty le ((a :: r) ++ X) lr = ((a :: r) ++ X, lr) := by
  by_cases hb : a.bytes = []
  · have hu : unreported le lr a = true := by
      cases hw a r rfl with
      | inl h => exact absurd hb h
      | inr h => exact h
    simp only [List.cons_append, stripEmpty, hb, hu, if_true]
  · simp only [List.cons_append, stripEmpty, hb, if_false]

theorem readTail_append (le : Bool) (n : Nat) (a : Slice) (r X : List Slice) (lr : Bool) :
    readTail le n ((a :: r) ++ X) lr =
      ((readTail le n (a :: r) lr).1, (readTail le n (a :: r) lr).2.1 ++ X,
       (readTail le n (a :: r) lr).2.2) := by
  simp only [List.cons_append, readTail]
  split <;> rfl

/-- Read first strips: stripping the front part beforehand changes nothing. -/
theorem seqRead_absorb (le : Bool) (n : Nat) (cur X : List Slice) (lr : Bool) :
    seqRead le n (cur ++ X, lr, false) =
      seqRead le n ((stripEmpty le cur lr).1 ++ X, (stripEmpty le cur lr).2, false) := by
  rw [seqRead_open le n _ rfl, seqRead_open le n _ rfl]
  simp only
  rw [← stripEmpty_append]

theorem seqRead_work (le : Bool) (n : Nat) (a : Slice) (r X : List Slice) (lr : Bool)
    (hw : Workable le lr (a :: r)) :
    seqRead le n ((a :: r) ++ X, lr, false) =
      ((readTail le n (a :: r) lr).1,
       ((readTail le n (a :: r) lr).2.1 ++ X, (readTail le n (a :: r) lr).2.2, false)) := by
  rw [seqRead_open le n _ rfl]
  simp only
  rw [stripEmpty_workable le a r X lr hw]
  simp only
  rw [readTail_append]
  rfl

theorem seqRead_nil (le : Bool) (n : Nat) (lr cl : Bool) :
    seqRead le n ([], lr, cl) = (.eof, ([], lr, true)) := by
  cases cl with
  | true => exact seqRead_closed le n _ rfl
  | false => rw [seqRead_open le n _ rfl]; rfl

/-! ### the reference run, one call at a time -/

theorem seqRun_rd_step (le : Bool) (n : Nat) (l : Bool) (p : List COp) (q : Q) :
    seqRun le (.rd n l :: p) q =
      ((seqRead le (bufSize n l) q).1 ::
        (seqRun le (if l && (seqRead le (bufSize n l) q).1 != .eof then .rd n true :: p else p)
          (seqRead le (bufSize n l) q).2).1,
       (seqRun le (if l && (seqRead le (bufSize n l) q).1 != .eof then .rd n true :: p else p)
          (seqRead le (bufSize n l) q).2).2) := by
  cases l with
  | false => simp [seqRun, bufSize]
  | true =>
    simp only [bufSize, if_true, Bool.true_and]
    rw [seqRun, seqDrain]
    by_cases h : (seqRead le (n + 1) q).1 = .eof
    · simp [h]
    · simp only [h, dite_false]
      have hne : ((seqRead le (n + 1) q).1 != Obs.eof) = true := by simpa using h
      simp only [hne, if_true]
      rw [seqRun]
      simp

theorem seqRun_rd_congr (le : Bool) (n : Nat) (l : Bool) (p : List COp) (q q' : Q)
    (h : seqRead le (bufSize n l) q = seqRead le (bufSize n l) q') :
    seqRun le (.rd n l :: p) q = seqRun le (.rd n l :: p) q' := by
  rw [seqRun_rd_step, seqRun_rd_step, h]

theorem seqRun_close (le : Bool) (p : List COp) (q : Q) :
    seqRun le (.close :: p) q = seqRun le p ([], q.2.1, true) := by
  rw [seqRun]

/-! ### observations made so far ++ observations still to come -/

/-- The reference reader's view of a state: unread slices (in `current`, then undelivered), the
    loss flag, `closed`. -/
def qOf (s : State) : Q :=
  (if s.closed then [] else s.current ++ s.aprog.flatten, s.lossReported, s.closed)

def fut (s : State) : List Obs × Q := seqRun s.lossErrors (pending s) (qOf s)

/-- All results of the consumer's program as determined in state `s`, and the reference
    reader's final state. -/
def total (s : State) : List Obs × Q := (s.out ++ (fut s).1, (fut s).2)

theorem readLoop_total (s : State) (n : Nat) (l : Bool)
    (hcl : s.closed = true → s.current = [])
    (hw : Workable s.lossErrors s.lossReported s.current) :
    total (readLoop s n l) =
      (s.out ++ (seqRun s.lossErrors (.rd n l :: s.cprog) (qOf s)).1,
       (seqRun s.lossErrors (.rd n l :: s.cprog) (qOf s)).2) := by
  unfold readLoop
  split
  · split <;> rfl
  · rename_i hc
    simp only [Bool.and_eq_true, Bool.not_eq_eq_eq_not, Bool.not_true, List.isEmpty_iff] at hc
    have key : seqRead s.lossErrors (bufSize n l) (qOf s) =
        ((readTail s.lossErrors (bufSize n l) s.current s.lossReported).1, qOf (finishRead s n l)) := by
      cases hclosed : s.closed with
      | true =>
        have hcur := hcl hclosed
        simp only [qOf, finishRead, hclosed, hcur, if_true, readTail_nil]
        exact seqRead_closed _ _ _ rfl
      | false =>
        cases hcur : s.current with
        | nil => exact absurd ⟨hclosed, hcur⟩ hc
        | cons a r =>
          rw [hcur] at hw
          simp only [qOf, finishRead, hclosed, hcur, Bool.false_eq_true, if_false]
          exact seqRead_work _ _ a r _ _ hw
    rw [seqRun_rd_step, key]
    simp only [total, fut]
    have hp : pending (finishRead s n l) =
        (if (l && (readTail s.lossErrors (bufSize n l) s.current s.lossReported).1 != .eof) = true
          then .rd n true :: s.cprog else s.cprog) := rfl
    have ho : (finishRead s n l).out =
        s.out ++ [(readTail s.lossErrors (bufSize n l) s.current s.lossReported).1] := rfl
    have hl : (finishRead s n l).lossErrors = s.lossErrors := rfl
    rw [hp, ho, hl, List.append_assoc]
    rfl

theorem invA_rClosed {s : State} (h : InvA s) (hr : s.rClosed = true) : s.aprog = [] := by
  unfold InvA at h
  revert h
  cases s.apc <;> intro h <;> simp only at h
  · rw [h.2.1] at hr; cases hr
  · rw [h.1] at hr; cases hr
  · exact h.1
  · exact h.1
  · exact h.1

theorem total_step {s s' : State} (hi : Inv s) (hs : Step s s') :
    total s' = total s ∧ s'.lossErrors = s.lossErrors := by
  have hi' := inv_step hi hs
  obtain ⟨hini, hA, hC⟩ := hi
  cases hs with
  | asmPanicSend hp hb hc => exact hi'.2.1.elim
  | asmDoneClosed hp hc => exact ⟨rfl, rfl⟩
  | closeR hp hc => exact ⟨rfl, rfl⟩
  | closeRPanic hp hc => exact hi'.2.1.elim
  | closeD hp hc => exact ⟨rfl, rfl⟩
  | closeDPanic hp hc => exact hi'.2.1.elim
  | @start op rest hp hc =>
    unfold InvC at hC; rw [hp] at hC
    simp only at hC
    have hts : total s = (s.out ++ (seqRun s.lossErrors (op :: rest) (qOf s)).1,
        (seqRun s.lossErrors (op :: rest) (qOf s)).2) := by
      simp only [total, fut, pending, hp, hc]
    cases op with
    | rd n l =>
      unfold startOp
      simp only [hini, Bool.not_true, Bool.false_eq_true, if_false]
      refine ⟨?_, by rw [readLoop_lossErrors]⟩
      rw [readLoop_total _ n l, hts]
      · simp only
        rw [seqRun_rd_congr]
        cases hclosed : s.closed with
        | true =>
          have hcur := (hC.1 hclosed).2
          simp only [qOf, hclosed, hcur, stripEmpty_nil, if_true]
        | false =>
          simp only [qOf, hclosed, Bool.false_eq_true, if_false]
          exact (seqRead_absorb _ _ _ _ _).symm
      · intro hclosed
        have hcur := (hC.1 hclosed).2
        simp only [hcur, stripEmpty_nil]
      · exact workable_strip _ _ _
    | close =>
      unfold startOp
      simp only
      split
      · refine ⟨?_, rfl⟩
        rw [hts]
        simp only [total, fut, pending, qOf]
      · refine ⟨?_, rfl⟩
        rw [hts]
        simp only [total, fut, pending, qOf, seqRun_close, if_true]
  | @rdRecvClosed n l hp hc =>
    unfold InvC at hC; rw [hp] at hC
    simp only at hC
    refine ⟨?_, by rw [readLoop_lossErrors]⟩
    rw [readLoop_total _ n l]
    · have hap := invA_rClosed hA hc
      simp only [total, fut, pending, hp]
      rw [seqRun_rd_congr]
      simp only [qOf, hC.1, hC.2.2.1, hap, if_true, Bool.false_eq_true, if_false,
        List.flatten_nil, List.append_nil, seqRead_nil]
    · intro _; rfl
    · exact workable_nil _ _
  | clRecvClosed hp hc =>
    unfold InvC at hC; rw [hp] at hC
    refine ⟨?_, rfl⟩
    simp only [total, fut, pending, hp, qOf, hC.1, if_true, seqRun_close]
  | sendPanic hp hc => exact hi'.2.2.elim
  | @deliverRd b bs n l hp hb hi2 hr hcp =>
    unfold InvC at hC; rw [hcp] at hC
    simp only at hC
    refine ⟨?_, by rw [readLoop_lossErrors]⟩
    rw [readLoop_total _ n l]
    · simp only [total, fut, pending, hcp]
      rw [seqRun_rd_congr]
      simp only [qOf, hC.1, hC.2.2.1, hb, Bool.false_eq_true, if_false, List.flatten_cons,
        List.nil_append]
      exact (seqRead_absorb _ _ _ _ _).symm
    · intro hclosed
      rw [hC.1] at hclosed; cases hclosed
    · exact workable_strip _ _ _
  | deliverCl hp hb hi2 hr hcp =>
    unfold InvC at hC; rw [hcp] at hC
    refine ⟨?_, rfl⟩
    simp only [total, fut, pending, hcp, qOf, hC.1, if_true]
  | @ackRd n l hp hc hcp =>
    refine ⟨?_, rfl⟩
    simp only [total, fut, pending, hcp, qOf]
  | ackClAck hp hc hcp =>
    refine ⟨?_, rfl⟩
    simp only [total, fut, pending, hcp, qOf, seqRun_close, if_true]
  | ackClSend hp hc hcp =>
    refine ⟨?_, rfl⟩
    simp only [total, fut, pending, hcp, qOf]

theorem total_reachable {s0 s : State} (h0 : Inv s0) (hr : Reachable s0 s) :
    total s = total s0 ∧ s.lossErrors = s0.lossErrors := by
  induction hr with
  | refl => exact ⟨rfl, rfl⟩
  | step t hr' hs ih =>
    have hi := inv_reachable h0 hr'
    have := total_step hi (step_Step hs)
    exact ⟨this.1.trans ih.1, this.2.trans ih.2⟩

theorem total_init (le : Bool) (bs : List Batch) (p : List COp) :
    total (init le bs p) = seqRun le p (bs.flatten, false, false) := by
  simp [total, fut, pending, qOf, init]

end Gp.Reader
