import Gp.Lemmas.PcapNgRT3
/-
  Round trip, part 4 (C14): what the reader does on a written interface description block and on a written
  enhanced packet block.
-/
namespace Gp.PcapNg
open Gp.Gen.PcapNg

/-- the part of the reader state that lives across blocks -/
structure Core where
  cfg : Cfg
  be : Bool
  sect : Section
  linkType : Nat
  firstFound : Bool
  ifaces : List Iface

def S.core (s : S) : Core := ⟨s.cfg, s.be, s.sect, s.linkType, s.firstFound, s.ifaces⟩

theorem core_of_keep {s s' : S} (h : s'.keep = s.keep) : s'.core = s.core := by
  simp only [S.keep, Keep.mk.injEq] at h
  simp only [S.core, h]

theorem blockBytes_split (typ : Nat) (body : Bytes) :
    blockBytes typ body = (putLe32 typ ++ putLe32 (body.length + 12)) ++ (body ++ putLe32 (body.length + 12)) := by
  simp only [blockBytes, List.append_assoc]

/-- the loop body of readPacketHeader -/
def hdrBody : Prog (Step (CapInfo × Nat × Nat)) := do
  readBlock
  let s ← getS
  let found ← pktBlockBody s.blkTyp
  hdrTail found

theorem readPacketHeader_eq : readPacketHeader = Prog.iter hdrBody := rfl

theorem hdrTail_false : hdrTail false = (Pure.pure .again : Prog (Step (CapInfo × Nat × Nat))) := by
  unfold hdrTail
  simp

/-! ### interface description block -/

theorem idbFinish_ns (s : S) (h : s.curIf.tsres = 9) :
    idbFinishStep s = (.ok (), { s with ifaces := s.ifaces ++ [finishIface s.curIf 9 1000000000 1 1] }) := by
  have h1 : resExp 9 = 9 := by decide
  have h2 : resBinary 9 = false := by decide
  have h3 : pow10u64 9 = 1000000000 := by decide
  simp [idbFinishStep, h, h1, h2, h3]

/-- the body of a written interface description block -/
def idbBody (i : IfaceSpec) : Bytes :=
  putLe16 i.linkType ++ putLe16 0 ++ putLe32 i.snaplen ++ encOpts (idbOptList i)

theorem writeIDB_eq (i : IfaceSpec) : writeIDB i = blockBytes ngBlockTypeInterfaceDescriptor (idbBody i) := rfl

theorem pktBlockBody_idb : pktBlockBody ngBlockTypeInterfaceDescriptor = (do readIDB; Pure.pure false) := by
  unfold pktBlockBody
  rw [if_neg (by decide), if_neg (by decide), if_pos rfl]

/-- readInterfaceDescriptor on the body and trailer of a written block -/
theorem eats_readIDB (s : S) (i : IfaceSpec) (tr : Bytes) (hwf : WfIface i) (hbe : s.be = false) (htr : tr.length = 4)
    (hlen : s.blkLen = (idbBody i).length + 4) (hlt : s.blkLen < 4294967296) :
    Eats readIDB s (idbBody i ++ tr) (fun _ s' => s'.keep = { s.keep with ifaces := s.ifaces ++ [ifaceOf i] }) := by
  unfold readIDB
  have hsplit : idbBody i ++ tr = (putLe16 i.linkType ++ putLe16 0 ++ putLe32 i.snaplen) ++ (encOpts (idbOptList i) ++ tr) := by
    simp only [idbBody, List.append_assoc]
  have hbl : (idbBody i).length = 8 + (encOpts (idbOptList i)).length := by
    simp only [idbBody, List.length_append, length_putLe16, length_putLe32]
  refine Eats.bindD hsplit (EatsD.rd s (by rfl)) ?_
  have e1 : (putLe16 i.linkType ++ putLe16 0 ++ putLe32 i.snaplen).take 2 = putLe16 i.linkType := rfl
  have e2 : (putLe16 i.linkType ++ putLe16 0 ++ putLe32 i.snaplen).drop 4 = putLe32 i.snaplen := rfl
  have hs1 : ({ s with blkLen := sub32 s.blkLen 8,
                       curIf := { linkType := getU s.be ((putLe16 i.linkType ++ putLe16 0 ++ putLe32 i.snaplen).take 2),
                                  snaplen := getU s.be ((putLe16 i.linkType ++ putLe16 0 ++ putLe32 i.snaplen).drop 4) } } : S)
      = { s with blkLen := (encOpts (idbOptList i)).length + 4, curIf := { linkType := i.linkType, snaplen := i.snaplen } } := by
    rw [hbe, e1, e2, getU_le16, getU_le32, Nat.mod_eq_of_lt hwf.linkType, Nat.mod_eq_of_lt hwf.snaplen,
      sub32_eq (by omega) hlt]
    have : s.blkLen - 8 = (encOpts (idbOptList i)).length + 4 := by omega
    rw [this]
  refine Eats.bindD0 (EatsD.eq (EatsD.modS _ s) hs1) ?_
  refine Eats.bind rfl (eats_optLoop idbHandle (fun s => s.curIf) idbStep idb_keep (fun _ _ _ _ => rfl) idb_step
    (idbOptList i) _ (ifaceRaw i) (idb_valid i hwf) hbe rfl (by show (encOpts (idbOptList i)).length + 4 < _; omega)
    (idb_fold i hwf.tsoff)) ?_
  intro _ s2 ⟨hk2, hb2, hc2⟩
  have hk2 : s2.keep = s.keep := hk2
  have hc2 : s2.curIf = ifaceRaw i := hc2
  refine Eats.bind1 (R := fun _ s3 => s3.keep = s.keep ∧ s3.curIf = ifaceRaw i) ?_ ?_
  · refine Eats.weaken (eats_discardBlock s2 tr (by rw [hb2]; exact htr)) ?_
    intro _ s3 ⟨_, h3⟩
    subst h3
    exact ⟨hk2, hc2⟩
  · intro _ s3 ⟨hk3, hc3⟩
    have hfin := idbFinish_ns s3 (by rw [hc3]; rfl)
    refine Eats.act hfin ?_
    have hi : s3.ifaces = s.ifaces := congrArg Keep.ifaces hk3
    simp only [S.keep, Keep.mk.injEq] at hk3 ⊢
    rw [hc3]
    exact ⟨hk3.1, hk3.2.1, hk3.2.2.1, hk3.2.2.2.1, hk3.2.2.2.2.1, by rw [hi]; rfl, hk3.2.2.2.2.2.2⟩

/-- one iteration of the readPacketHeader loop on a written interface description block -/
theorem eats_hdrBody_idb (s : S) (i : IfaceSpec) (hwf : WfIface i) (hbe : s.be = false)
    (hlt : (writeIDB i).length < 4294967296) :
    Eats hdrBody s (writeIDB i)
      (fun st s' => st = .again ∧ s'.core = { s.core with ifaces := s.ifaces ++ [ifaceOf i] }) := by
  rw [writeIDB_eq, length_blockBytes] at hlt
  rw [writeIDB_eq, blockBytes_split]
  unfold hdrBody
  refine Eats.bindD rfl (eats_readBlock s ngBlockTypeInterfaceDescriptor ((idbBody i).length + 12) hbe (by decide) (by decide)
    hlt (by omega)) ?_
  refine Eats.bindD0 (EatsD.getS _) ?_
  dsimp only
  rw [pktBlockBody_idb]
  refine Eats.bind1 (R := fun found s' => found = false ∧ s'.core = { s.core with ifaces := s.ifaces ++ [ifaceOf i] }) ?_ ?_
  · refine Eats.bind1 (eats_readIDB _ i _ hwf hbe rfl (by show (idbBody i).length + 12 - 8 = _; omega)
      (by show (idbBody i).length + 12 - 8 < _; omega)) ?_
    intro _ s2 hk2
    refine Eats.pure ⟨rfl, ?_⟩
    simp only [S.keep, Keep.mk.injEq] at hk2
    simp only [S.core, Core.mk.injEq]
    exact ⟨hk2.1, hk2.2.1, hk2.2.2.1, hk2.2.2.2.1, hk2.2.2.2.2.1, hk2.2.2.2.2.2.1⟩
  · intro found s2 ⟨hf, hc⟩
    subst hf
    rw [hdrTail_false]
    exact Eats.pure ⟨rfl, hc⟩

/-! ### enhanced packet block -/

/-- the timestamp the reader computes from the written value `ts` (UnixNano) on an interface with offset `tsoff`:
    the model's expression for a nanosecond-resolution interface -/
def tsRead (tsoff : Nat) (ts : Int) : Time :=
  timeUnix (toI64 (((ts % 18446744073709551616).toNat / 1000000000 + tsoff) % two64))
           (toI64 ((ts % 18446744073709551616).toNat % 1000000000 * 1 % two64 / 1))

theorem convertTime_ns (s : S) (id : Nat) (sp : IfaceSpec) (u : Nat) (h : s.ifaces[id]? = some (ifaceOf sp)) :
    convertTimeF s id u
      = .ok (timeUnix (toI64 ((u / 1000000000 + sp.tsoff) % two64)) (toI64 (u % 1000000000 * 1 % two64 / 1))) := by
  unfold convertTimeF
  rw [h]
  simp [ifaceOf, finishIface, ifaceRaw]

def epbHead (iface : Nat) (ts : Int) (caplen len : Nat) : Bytes :=
  putLe32 iface ++ tsWords ts ++ putLe32 caplen ++ putLe32 len

def epbTail (data : Bytes) (opts : PktOpts) : Bytes :=
  data ++ zeros (pad4 data.length) ++ encOpts (pktOptList opts)

theorem writeEPB_eq (iface : Nat) (ts : Int) (len : Nat) (data : Bytes) (opts : PktOpts) :
    writeEPB iface ts len data opts
      = blockBytes ngBlockTypeEnhancedPacket (epbHead iface ts data.length len ++ epbTail data opts) := by
  simp only [writeEPB, epbHead, epbTail, List.append_assoc]

theorem length_epbHead (iface : Nat) (ts : Int) (caplen len : Nat) : (epbHead iface ts caplen len).length = 20 := rfl

theorem pktBlockBody_epb : pktBlockBody ngBlockTypeEnhancedPacket
    = (do let h ← rd 20; Prog.act (pktHeadStep true h); Pure.pure true) := by
  unfold pktBlockBody
  rw [if_pos (Or.inl rfl)]
  rfl

/-- the packet as the reader returns it -/
def expPkt (cfg : Cfg) (sp : IfaceSpec) (iface : Nat) (ts : Int) (len : Nat) (data : Bytes) (opts : PktOpts) : Pkt :=
  { ci := { iface := iface, ts := tsRead sp.tsoff ts, caplen := data.length, len := len },
    ancil := if cfg.mixed then some sp.linkType else none,
    data := data,
    opts := normOpts opts }

theorem pktHead_epb (s : S) (sp : IfaceSpec) (iface : Nat) (ts : Int) (caplen len : Nat) (hbe : s.be = false)
    (hi : iface < 4294967296) (hc : caplen < 4294967296) (hl : len < 4294967296)
    (hif : s.ifaces[iface]? = some (ifaceOf sp)) :
    pktHeadStep true (epbHead iface ts caplen len) s
      = (.ok (), { s with blkLen := sub32 s.blkLen 20,
                          ci := { iface := iface, ts := tsRead sp.tsoff ts, caplen := caplen, len := len } }) := by
  have e1 : (epbHead iface ts caplen len).take 4 = putLe32 iface := rfl
  have e2 : (epbHead iface ts caplen len).drop 4 = tsWords ts ++ (putLe32 caplen ++ putLe32 len) := rfl
  have e3 : ((epbHead iface ts caplen len).drop 12).take 4 = putLe32 caplen := rfl
  have e4 : ((epbHead iface ts caplen len).drop 16).take 4 = putLe32 len := rfl
  have hlt : iface < s.ifaces.length := by
    have := List.getElem?_eq_some_iff.mp hif
    exact this.1
  simp only [pktHeadStep, hbe, if_true, e1, e2, e3, e4, getU_le32, Nat.mod_eq_of_lt hi, Nat.mod_eq_of_lt hc,
    Nat.mod_eq_of_lt hl, ts64_tsWords, ge_iff_le, Nat.not_le.mpr hlt, if_false]
  rw [convertTime_ns _ iface sp _ (by exact hif)]
  rfl

theorem hdrFinish_take (s : S) (sp : IfaceSpec) (hcl : s.ci.caplen ≤ s.ci.len) (hcb : s.ci.caplen ≤ s.blkLen)
    (hif : s.ifaces[s.ci.iface]? = some (ifaceOf sp)) (hacc : s.cfg.mixed = true ∨ sp.linkType = s.linkType) :
    hdrFinishStep s = (.ok (.take s.ci sp.linkType sp.snaplen), s) := by
  unfold hdrFinishStep
  rw [if_neg (by omega), if_neg (by omega), hif]
  have hl : (ifaceOf sp).linkType = sp.linkType := rfl
  have hs : (ifaceOf sp).snaplen = sp.snaplen := rfl
  rcases hacc with hm | hm
  · simp [hm, hl, hs]
  · cases hmx : s.cfg.mixed <;> simp [hl, hs, hm]

/-- one iteration of the readPacketHeader loop on the header and the first 20 bytes of a written enhanced packet
    block whose packet is returned -/
theorem eats_hdrBody_epb (s : S) (sp : IfaceSpec) (iface : Nat) (ts : Int) (caplen len total : Nat) (hbe : s.be = false)
    (hi : iface < 4294967296) (hcl : caplen ≤ len) (hl : len < 4294967296)
    (htot : total < 4294967296) (hct : caplen + 32 ≤ total)
    (hif : s.ifaces[iface]? = some (ifaceOf sp)) (hacc : s.cfg.mixed = true ∨ sp.linkType = s.linkType) :
    EatsD hdrBody s (putLe32 ngBlockTypeEnhancedPacket ++ putLe32 total ++ epbHead iface ts caplen len)
      (.done ({ iface := iface, ts := tsRead sp.tsoff ts, caplen := caplen, len := len }, sp.linkType, sp.snaplen))
      { s with blkTyp := ngBlockTypeEnhancedPacket, blkLen := total - 28,
               ci := { iface := iface, ts := tsRead sp.tsoff ts, caplen := caplen, len := len } } := by
  unfold hdrBody
  refine Eats.bindD rfl (eats_readBlock s ngBlockTypeEnhancedPacket total hbe (by decide) (by decide) htot (by omega)) ?_
  refine Eats.bindD0 (EatsD.getS _) ?_
  dsimp only
  rw [pktBlockBody_epb]
  have hph := pktHead_epb { s with blkTyp := ngBlockTypeEnhancedPacket, blkLen := total - 8 } sp iface ts caplen len hbe hi
    (by omega) hl hif
  have hb : sub32 (total - 8) 20 = total - 28 := by rw [sub32_eq (by omega) (by omega)]; omega
  simp only [hb] at hph
  refine Eats.bindD1 (s1 := { s with blkTyp := ngBlockTypeEnhancedPacket, blkLen := total - 28, ci := { iface := iface, ts := tsRead sp.tsoff ts, caplen := caplen, len := len } }) (a := true) ?_ ?_
  · refine Eats.bindD1 (EatsD.rd _ (length_epbHead iface ts caplen len)) ?_
    exact Eats.bindD0 (EatsD.act hph) (EatsD.pure _ _)
  · unfold hdrTail
    rw [if_neg (by simp)]
    have hfin := hdrFinish_take { s with blkTyp := ngBlockTypeEnhancedPacket, blkLen := total - 28, ci := { iface := iface, ts := tsRead sp.tsoff ts, caplen := caplen, len := len } } sp hcl
      (by show caplen ≤ total - 28; omega) hif hacc
    refine Eats.bindD0 (EatsD.act hfin) ?_
    exact EatsD.pure _ _

theorem pktOptsP_epb (s : S) (hty : s.blkTyp = ngBlockTypeEnhancedPacket) :
    ∀ bs Q, Eats (optLoop pktHandle) s bs Q → Eats pktOptsP s bs Q := by
  intro bs Q h
  unfold pktOptsP
  refine Eats.bindD0 (EatsD.getS s) ?_
  rw [if_pos hty]
  exact h

/-- the rest of ReadPacketData after the header: data, padding, options, trailer of a written block -/
theorem eats_pktRest (s : S) (ci : CapInfo) (lt snap : Nat) (data : Bytes) (opts : PktOpts) (tr : Bytes)
    (hbe : s.be = false) (hty : s.blkTyp = ngBlockTypeEnhancedPacket) (hcap : ci.caplen = data.length)
    (hlen : s.blkLen = (epbTail data opts).length + 4) (hlt : s.blkLen < 4294967296) (hwf : WfOpts opts)
    (htr : tr.length = 4) :
    Eats (pktRest ci lt snap) s (epbTail data opts ++ tr)
      (fun p s' => p = { ci := ci, ancil := if s.cfg.mixed then some lt else none, data := data, opts := normOpts opts }
        ∧ s'.core = s.core) := by
  unfold pktRest
  have hsplit : epbTail data opts ++ tr = data ++ (zeros (pad4 data.length) ++ (encOpts (pktOptList opts) ++ tr)) := by
    simp only [epbTail, List.append_assoc]
  have hL : (epbTail data opts).length = data.length + pad4 data.length + (encOpts (pktOptList opts)).length := by
    simp only [epbTail, List.length_append, length_zeros]
  rw [hcap]
  refine Eats.bindD hsplit (EatsD.rdData s rfl) ?_
  refine Eats.bindD0 (EatsD.modS _ s) ?_
  have hpd : (4 - data.length % 4) % 4 = pad4 data.length := rfl
  rw [hpd]
  -- padding
  have hpad : EatsD (discardPad (pad4 data.length)) { s with blkLen := sub32 s.blkLen data.length } (zeros (pad4 data.length)) ()
      { s with blkLen := (encOpts (pktOptList opts)).length + 4 } := by
    unfold discardPad
    by_cases hp : pad4 data.length > 0
    · rw [if_pos hp]
      refine EatsD.eq (eats_discard _ _ _ (length_zeros _)) ?_
      show ({ s with blkLen := sub32 (sub32 s.blkLen data.length) (pad4 data.length) } : S) = _
      rw [sub32_eq (a := s.blkLen) (by omega) hlt, sub32_eq (by omega) (by omega)]
      have : s.blkLen - data.length - pad4 data.length = (encOpts (pktOptList opts)).length + 4 := by omega
      rw [this]
    · rw [if_neg hp]
      have h0 : pad4 data.length = 0 := by omega
      rw [h0]
      refine EatsD.eq (EatsD.pure _ _) ?_
      show ({ s with blkLen := sub32 s.blkLen data.length } : S) = _
      rw [sub32_eq (by omega) hlt]
      have : s.blkLen - data.length = (encOpts (pktOptList opts)).length + 4 := by omega
      rw [this]
  refine Eats.bindD rfl hpad ?_
  refine Eats.bindD0 (EatsD.modS _ _) ?_
  -- options
  refine Eats.bind rfl (pktOptsP_epb { s with blkLen := (encOpts (pktOptList opts)).length + 4, curOpts := {} } hty _ _
    (eats_optLoop pktHandle (fun s => s.curOpts) pktStep pkt_keep (fun _ _ _ _ => rfl)
    pkt_step (pktOptList opts) { s with blkLen := (encOpts (pktOptList opts)).length + 4, curOpts := {} } (normOpts opts)
    (pkt_valid opts hwf) hbe rfl
    (by show (encOpts (pktOptList opts)).length + 4 < _; omega) (pkt_fold opts))) ?_
  intro _ s2 ⟨hk2, hb2, hc2⟩
  have hk2 : s2.keep = s.keep := hk2
  have hc2 : s2.curOpts = normOpts opts := hc2
  refine Eats.bind1 (R := fun _ s3 => s3.keep = s.keep ∧ s3.curOpts = normOpts opts) ?_ ?_
  · refine Eats.weaken (eats_discardBlock s2 tr (by rw [hb2]; exact htr)) ?_
    intro _ s3 ⟨_, h3⟩
    subst h3
    exact ⟨hk2, hc2⟩
  · intro _ s3 ⟨hk3, hc3⟩
    refine Eats.bindD0 (EatsD.getS s3) ?_
    have hcfg : s3.cfg = s.cfg := congrArg Keep.cfg hk3
    refine Eats.pure ⟨?_, core_of_keep hk3⟩
    rw [hc3, hcfg]

/-! ### packets of an interface with another link type are skipped (WantMixedLinkType off, ErrorOnMismatchingLinkType off) -/

theorem hdrFinish_skip (s : S) (sp : IfaceSpec) (hcl : s.ci.caplen ≤ s.ci.len) (hcb : s.ci.caplen ≤ s.blkLen)
    (hif : s.ifaces[s.ci.iface]? = some (ifaceOf sp)) (hmx : s.cfg.mixed = false) (hne : sp.linkType ≠ s.linkType)
    (herr : s.cfg.errMismatch = false) :
    hdrFinishStep s = (.ok .skipIt, s) := by
  unfold hdrFinishStep
  rw [if_neg (by omega), if_neg (by omega), hif]
  have hl : (ifaceOf sp).linkType = sp.linkType := rfl
  simp [hmx, hl, hne, herr]

/-- one iteration of the readPacketHeader loop on a written enhanced packet block whose interface has another link
    type than the first one: the block is skipped -/
theorem eats_hdrBody_epb_skip (s : S) (sp : IfaceSpec) (iface : Nat) (ts : Int) (len : Nat) (data : Bytes) (opts : PktOpts)
    (hbe : s.be = false) (hi : iface < 4294967296) (hcl : data.length ≤ len) (hl : len < 4294967296)
    (hlt : (writeEPB iface ts len data opts).length < 4294967296)
    (hif : s.ifaces[iface]? = some (ifaceOf sp)) (hmx : s.cfg.mixed = false) (hne : sp.linkType ≠ s.linkType)
    (herr : s.cfg.errMismatch = false) :
    Eats hdrBody s (writeEPB iface ts len data opts) (fun st s' => st = .again ∧ s'.core = s.core) := by
  rw [writeEPB_eq, length_blockBytes] at hlt
  rw [writeEPB_eq, blockBytes_split]
  have hbl : (epbHead iface ts data.length len ++ epbTail data opts).length = 20 + (epbTail data opts).length := by
    rw [List.length_append, length_epbHead]
  have hLt : (epbTail data opts).length = data.length + pad4 data.length + (encOpts (pktOptList opts)).length := by
    simp only [epbTail, List.length_append, length_zeros]
  have hsplit : (putLe32 ngBlockTypeEnhancedPacket ++ putLe32 ((epbHead iface ts data.length len ++ epbTail data opts).length + 12))
        ++ (epbHead iface ts data.length len ++ epbTail data opts
              ++ putLe32 ((epbHead iface ts data.length len ++ epbTail data opts).length + 12))
      = (putLe32 ngBlockTypeEnhancedPacket ++ putLe32 ((epbHead iface ts data.length len ++ epbTail data opts).length + 12))
        ++ (epbHead iface ts data.length len
            ++ (epbTail data opts ++ putLe32 ((epbHead iface ts data.length len ++ epbTail data opts).length + 12))) := by
    simp only [List.append_assoc]
  rw [hsplit]
  unfold hdrBody
  refine Eats.bindD rfl (eats_readBlock s ngBlockTypeEnhancedPacket _ hbe (by decide) (by decide) hlt (by omega)) ?_
  refine Eats.bindD0 (EatsD.getS _) ?_
  dsimp only
  rw [pktBlockBody_epb]
  have hph := pktHead_epb { s with blkTyp := ngBlockTypeEnhancedPacket, blkLen := (epbHead iface ts data.length len ++ epbTail data opts).length + 12 - 8 } sp iface ts data.length len hbe hi
    (by omega) hl hif
  refine Eats.bindD rfl (a := true) (s1 := { s with blkTyp := ngBlockTypeEnhancedPacket, blkLen := sub32 ((epbHead iface ts data.length len ++ epbTail data opts).length + 12 - 8) 20, ci := { iface := iface, ts := tsRead sp.tsoff ts, caplen := data.length, len := len } }) ?_ ?_
  · exact (Eats.bindD1 (EatsD.rd _ (length_epbHead iface ts data.length len)) (Eats.bindD0 (EatsD.act hph) (EatsD.pure _ _)))
  · unfold hdrTail
    rw [if_neg (by simp)]
    have hfin := hdrFinish_skip { s with blkTyp := ngBlockTypeEnhancedPacket, blkLen := sub32 ((epbHead iface ts data.length len ++ epbTail data opts).length + 12 - 8) 20, ci := { iface := iface, ts := tsRead sp.tsoff ts, caplen := data.length, len := len } } sp hcl
      (by show data.length ≤ sub32 _ 20; rw [sub32_eq (by omega) (by omega)]; omega) hif hmx hne herr
    refine Eats.bindD0 (EatsD.act hfin) ?_
    show Eats (discardBlock >>= fun _ => Pure.pure Step.again) _ _ _
    refine Eats.bindD1 (eats_discardBlock _ _ ?_) ?_
    · show (epbTail data opts ++ putLe32 _).length = sub32 _ 20
      rw [sub32_eq (by omega) (by omega), List.length_append, length_putLe32]; omega
    · exact Eats.pure ⟨rfl, rfl⟩

end Gp.PcapNg
