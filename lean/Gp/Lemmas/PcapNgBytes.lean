import Gp.Model.PcapNgWrite
/-
  Byte-level facts for the pcapng round trip (C14): little-endian encode/decode, lengths.
-/
namespace Gp.PcapNg
open Gp.Gen.PcapNg

theorem u8_toNat (n : Nat) : (u8 n).toNat = n % 256 := by
  simp [u8]

theorem leNat_nil : leNat [] = 0 := rfl

theorem leNat_cons (b : UInt8) (r : Bytes) : leNat (b :: r) = b.toNat + 256 * leNat r := rfl

theorem leNat_append (a b : Bytes) : leNat (a ++ b) = leNat a + 256 ^ a.length * leNat b := by
  induction a with
  | nil => simp [leNat]
  | cons x r ih =>
    simp only [List.cons_append, leNat_cons, ih, List.length_cons, Nat.pow_succ]
    rw [Nat.mul_add, ← Nat.mul_assoc, Nat.add_assoc, Nat.mul_comm (256 ^ r.length) 256]

theorem leNat_u8 (n : Nat) : leNat [u8 n] = n % 256 := by
  simp only [leNat_cons, leNat_nil, u8_toNat]
  omega

theorem leNat_putLe16 (n : Nat) : leNat (putLe16 n) = n % 65536 := by
  simp only [putLe16, leNat_cons, leNat_nil, u8_toNat]
  omega

theorem leNat_putLe32 (n : Nat) : leNat (putLe32 n) = n % 4294967296 := by
  simp only [putLe32, leNat_cons, leNat_nil, u8_toNat]
  omega

theorem length_putLe16 (n : Nat) : (putLe16 n).length = 2 := rfl
theorem length_putLe32 (n : Nat) : (putLe32 n).length = 4 := rfl
theorem length_putLe64 (n : Nat) : (putLe64 n).length = 8 := rfl

theorem leNat_putLe64 (n : Nat) : leNat (putLe64 n) = n % 18446744073709551616 := by
  unfold putLe64
  rw [leNat_append, leNat_putLe32, leNat_putLe32, length_putLe32]
  simp only [two32]
  omega

theorem length_tsWords (ts : Int) : (tsWords ts).length = 8 := rfl

theorem length_zeros (n : Nat) : (zeros n).length = n := by simp [zeros]

theorem pad4_lt (n : Nat) : pad4 n < 4 := by unfold pad4; omega

theorem pad4_mod (n : Nat) : (n + pad4 n) % 4 = 0 := by unfold pad4; omega

theorem length_optBytes (o : Nat × Bytes) : (optBytes o).length = 4 + o.2.length + pad4 o.2.length := by
  simp only [optBytes, List.length_append, length_putLe16, length_zeros]

theorem length_blockBytes (typ : Nat) (body : Bytes) : (blockBytes typ body).length = body.length + 12 := by
  simp only [blockBytes, List.length_append, length_putLe32]
  omega

/-- the two 32 bit words of a timestamp, read back -/
theorem ts64_tsWords (ts : Int) (rest : Bytes) :
    ts64 false (tsWords ts ++ rest) = (ts % 18446744073709551616).toNat := by
  have h1 : (tsWords ts ++ rest).take 4 = putLe32 ((ts % 18446744073709551616).toNat / two32) := by
    simp [tsWords, putLe32]
  have h2 : ((tsWords ts ++ rest).drop 4).take 4 = putLe32 (ts % 18446744073709551616).toNat := by
    simp [tsWords, putLe32]
  unfold ts64
  rw [h1, h2]
  simp only [getU, Bool.false_eq_true, if_false, leNat_putLe32, two32]
  have : (ts % 18446744073709551616).toNat < 18446744073709551616 := by omega
  omega

end Gp.PcapNg
