/-
  Helper lemmas for Gp/Props/C05/Parser.lean (engine dlp): the three look-up containers.
-/
import Gp.Model.Parser

namespace Gp.Parser

/-! ### map -/

theorem mapFold_apply (d : Nat) (ts : List LType) (m : MapC) (x : LType) :
    (ts.foldl (fun m t => fun x => if x = t then some d else m x) m) x
      = if x ∈ ts then some d else m x := by
  induction ts generalizing m with
  | nil => simp
  | cons t ts ih =>
    simp only [List.foldl_cons, ih, List.mem_cons]
    by_cases h1 : x ∈ ts
    · simp [h1]
    · by_cases h2 : x = t <;> simp [h1, h2]

theorem mapLook_put (m : MapC) (p : PutOp) (t : LType) :
    mapLook (mapPut m p) t = if t ∈ p.1 then .found p.2 else mapLook m t := by
  unfold mapLook mapPut
  rw [mapFold_apply]
  by_cases h : t ∈ p.1 <;> simp [h]

/-! ### array -/

theorem arrLook_append_single (dl : Arr) (t' : LType) (d : Nat) (t : LType) :
    arrLook (dl ++ [(t', d)]) t =
      match arrLook dl t with
      | .missing => if t' = t then .found d else .missing
      | r => r := by
  induction dl with
  | nil => simp [arrLook]
  | cons e es ih =>
    simp only [List.cons_append, arrLook]
    by_cases h : e.1 = t
    · simp [h]
    · simp [h, ih]

theorem arrReplace_some (dl dl' : Arr) (t' : LType) (d : Nat) (h : arrReplace dl t' d = some dl') (t : LType) :
    arrLook dl' t = if t = t' then .found d else arrLook dl t := by
  induction dl generalizing dl' with
  | nil => simp [arrReplace] at h
  | cons e es ih =>
    unfold arrReplace at h
    by_cases he : e.1 = t'
    · simp only [he, if_true, Option.some.injEq] at h
      subst h
      by_cases ht : t = t'
      · simp [arrLook, ht]
      · have : ¬ t' = t := fun x => ht x.symm
        simp [arrLook, ht, he, this]
    · simp only [he, if_false] at h
      cases hr : arrReplace es t' d with
      | none => simp [hr] at h
      | some es' =>
        simp only [hr, Option.some.injEq] at h
        subst h
        have := ih es' hr
        by_cases ht : t = t'
        · subst ht
          simp [arrLook, he, this]
        · simp [arrLook, this, ht]

theorem arrReplace_none (dl : Arr) (t' : LType) (d : Nat) (h : arrReplace dl t' d = none) :
    arrLook dl t' = .missing := by
  induction dl with
  | nil => simp [arrLook]
  | cons e es ih =>
    unfold arrReplace at h
    by_cases he : e.1 = t'
    · simp [he] at h
    · simp only [he, if_false] at h
      cases hr : arrReplace es t' d with
      | none => simp [arrLook, he, ih hr]
      | some es' => simp [hr] at h

theorem arrLook_put1 (dl : Arr) (t' : LType) (d : Nat) (t : LType) :
    arrLook (arrPut1 dl t' d) t = if t = t' then .found d else arrLook dl t := by
  unfold arrPut1
  cases hr : arrReplace dl t' d with
  | some dl' => exact arrReplace_some dl dl' t' d hr t
  | none =>
    simp only
    rw [arrLook_append_single]
    have hm := arrReplace_none dl t' d hr
    by_cases ht : t = t'
    · subst ht; simp [hm]
    · have : ¬ t' = t := fun x => ht x.symm
      simp only [ht, if_false, this]
      cases arrLook dl t <;> rfl

theorem arrFold_look (d : Nat) (ts : List LType) (dl : Arr) (t : LType) :
    arrLook (ts.foldl (fun dl t => arrPut1 dl t d) dl) t = if t ∈ ts then .found d else arrLook dl t := by
  induction ts generalizing dl with
  | nil => simp
  | cons t' ts ih =>
    simp only [List.foldl_cons, ih, List.mem_cons, arrLook_put1]
    by_cases h1 : t ∈ ts
    · simp [h1]
    · by_cases h2 : t = t' <;> simp [h1, h2]

theorem arrLook_put (dl : Arr) (p : PutOp) (t : LType) :
    arrLook (arrPut dl p) t = if t ∈ p.1 then .found p.2 else arrLook dl t := by
  unfold arrPut
  exact arrFold_look p.2 p.1 dl t

/-- array and map containers stay equal under the same Put. -/
theorem arr_map_step (dl : Arr) (m : MapC) (p : PutOp) (h : ∀ t, arrLook dl t = mapLook m t) :
    ∀ t, arrLook (arrPut dl p) t = mapLook (mapPut m p) t := by
  intro t
  rw [arrLook_put, mapLook_put, h]

theorem arr_map_fold (ps : List PutOp) (dl : Arr) (m : MapC) (h : ∀ t, arrLook dl t = mapLook m t) :
    ∀ t, arrLook (ps.foldl arrPut dl) t = mapLook (ps.foldl mapPut m) t := by
  induction ps generalizing dl m with
  | nil => simpa using h
  | cons p ps ih =>
    simp only [List.foldl_cons]
    exact ih _ _ (arr_map_step dl m p h)

/-! ### sparse -/

/-- Look-up with a natural-number type. -/
theorem sparseLook_nat (dl : Sparse) (n : Nat) :
    sparseLook dl (n : Int) =
      match dl[n]? with
      | some (some d) => .found d
      | _ => .missing := by
  unfold sparseLook
  by_cases h : (n : Int) < (dl.length : Int)
  · have hn : n < dl.length := by omega
    have h0 : ¬ ((n : Int) < 0) := by omega
    simp only [h, if_true, h0, if_false, Int.toNat_natCast]
    rw [List.getElem?_eq_getElem hn]
    cases dl[n] <;> rfl
  · have hn : dl.length ≤ n := by omega
    simp only [h, if_false]
    rw [List.getElem?_eq_none hn]

theorem sparseLook_neg (dl : Sparse) (t : LType) (h : t < 0) : sparseLook dl t = .panic .index := by
  unfold sparseLook
  have : t < (dl.length : Int) := by omega
  simp [this, h]

theorem sparseLook_grow (dl : Sparse) (k : Nat) (n : Nat) :
    sparseLook (dl ++ List.replicate k none) (n : Int) = sparseLook dl (n : Int) := by
  rw [sparseLook_nat, sparseLook_nat]
  by_cases h : n < dl.length
  · rw [List.getElem?_append_left h]
  · have h' : dl.length ≤ n := by omega
    rw [List.getElem?_append_right h', List.getElem?_eq_none h', List.getElem?_replicate]
    by_cases h2 : n - dl.length < k <;> simp [h2]

theorem sparseLook_set (dl : Sparse) (i : Nat) (d : Nat) (hi : i < dl.length) (n : Nat) :
    sparseLook (dl.set i (some d)) (n : Int) = if n = i then .found d else sparseLook dl (n : Int) := by
  rw [sparseLook_nat, sparseLook_nat, List.getElem?_set]
  by_cases h : i = n
  · subst h; simp [hi]
  · have : ¬ n = i := fun x => h x.symm
    simp [h, this]

theorem sparseMax_ge_init (len : Int) (ts : List LType) : len - 1 ≤ sparseMax len ts := by
  unfold sparseMax
  generalize len - 1 = m
  induction ts generalizing m with
  | nil => simp
  | cons t ts ih =>
    simp only [List.foldl_cons]
    by_cases h : t > m
    · simp only [h, if_true]; have := ih t; omega
    · simp only [h, if_false]; exact ih m

theorem sparseMax_ge_mem (len : Int) (ts : List LType) (t : LType) (ht : t ∈ ts) : t ≤ sparseMax len ts := by
  unfold sparseMax
  generalize len - 1 = m
  induction ts generalizing m with
  | nil => simp at ht
  | cons t' ts ih =>
    simp only [List.foldl_cons]
    have hmono : ∀ (m : Int) (l : List LType), m ≤ l.foldl (fun m t => if t > m then t else m) m := by
      intro m l
      induction l generalizing m with
      | nil => simp
      | cons a l ihl =>
        simp only [List.foldl_cons]
        by_cases h : a > m
        · simp only [h, if_true]; have := ihl a; omega
        · simp only [h, if_false]; exact ihl m
    rcases List.mem_cons.mp ht with h | h
    · subst h
      by_cases h2 : t > m
      · simp only [h2, if_true]; exact hmono t ts
      · simp only [h2, if_false]; have := hmono m ts; omega
    · exact ih h _

/-- The assignment loop succeeds when every type is a valid index, and then behaves like a map update. -/
theorem sparseAssign_ok (ts : List LType) (d : Nat) (dl : Sparse)
    (h : ∀ t ∈ ts, 0 ≤ t ∧ t < (dl.length : Int)) :
    ∃ dl', sparseAssign dl ts d = .ok dl' ∧ dl'.length = dl.length ∧
      ∀ n : Nat, sparseLook dl' (n : Int) = if (n : Int) ∈ ts then .found d else sparseLook dl (n : Int) := by
  induction ts generalizing dl with
  | nil => exact ⟨dl, rfl, rfl, by simp⟩
  | cons t ts ih =>
    have ht := h t (List.mem_cons_self ..)
    have hlen : (dl.set t.toNat (some d)).length = dl.length := by simp
    have h' : ∀ u ∈ ts, 0 ≤ u ∧ u < ((dl.set t.toNat (some d)).length : Int) := by
      intro u hu; rw [hlen]; exact h u (List.mem_cons_of_mem _ hu)
    obtain ⟨dl', h1, h2, h3⟩ := ih (dl.set t.toNat (some d)) h'
    refine ⟨dl', ?_, by rw [h2, hlen], ?_⟩
    · unfold sparseAssign
      have : ¬ (t < 0 ∨ (dl.length : Int) ≤ t) := by omega
      simp only [this, if_false]
      exact h1
    · intro n
      rw [h3 n, sparseLook_set dl t.toNat d (by omega) n]
      simp only [List.mem_cons]
      by_cases hn : (n : Int) ∈ ts
      · simp [hn]
      · by_cases he : (n : Int) = t
        · subst he
          simp
        · have : ¬ n = t.toNat := by omega
          simp [hn, he, this]

/-- Put of non-negative types never panics and behaves like the map's Put on every non-negative type. -/
theorem sparsePut_ok (dl : Sparse) (p : PutOp) (h : ∀ t ∈ p.1, 0 ≤ t) :
    ∃ dl', sparsePut dl p = .ok dl' ∧
      ∀ n : Nat, sparseLook dl' (n : Int) = if (n : Int) ∈ p.1 then .found p.2 else sparseLook dl (n : Int) := by
  unfold sparsePut
  have hge := sparseMax_ge_init (dl.length : Int) p.1
  have hmem := sparseMax_ge_mem (dl.length : Int) p.1
  generalize sparseMax (dl.length : Int) p.1 = mx at hge hmem
  by_cases hx : mx - (dl.length : Int) + 1 > 0
  · simp only [hx, if_true]
    have hb : ∀ t ∈ p.1, 0 ≤ t ∧ t < ((dl ++ List.replicate (mx - (dl.length : Int) + 1).toNat none).length : Int) := by
      intro t ht
      have := hmem t ht
      have := h t ht
      simp only [List.length_append, List.length_replicate]
      omega
    obtain ⟨dl', h1, _, h3⟩ := sparseAssign_ok p.1 p.2 _ hb
    refine ⟨dl', h1, ?_⟩
    intro n
    rw [h3 n, sparseLook_grow]
  · simp only [hx, if_false]
    have hb : ∀ t ∈ p.1, 0 ≤ t ∧ t < (dl.length : Int) := by
      intro t ht
      have := hmem t ht
      have := h t ht
      omega
    obtain ⟨dl', h1, _, h3⟩ := sparseAssign_ok p.1 p.2 _ hb
    exact ⟨dl', h1, h3⟩

/-- The assignment loop panics as soon as it meets a negative type (all others being in range). -/
theorem sparseAssign_neg (ts : List LType) (d : Nat) (dl : Sparse)
    (hr : ∀ t ∈ ts, t < (dl.length : Int)) (hn : ∃ t ∈ ts, t < 0) :
    sparseAssign dl ts d = .panic .index := by
  induction ts generalizing dl with
  | nil => obtain ⟨t, ht, _⟩ := hn; simp at ht
  | cons t ts ih =>
    unfold sparseAssign
    by_cases h : t < 0 ∨ (dl.length : Int) ≤ t
    · simp [h]
    · simp only [h, if_false]
      apply ih
      · intro u hu; simp only [List.length_set]; exact hr u (List.mem_cons_of_mem _ hu)
      · obtain ⟨u, hu, hneg⟩ := hn
        rcases List.mem_cons.mp hu with e | e
        · subst e; omega
        · exact ⟨u, e, hneg⟩

theorem sparsePut_neg (dl : Sparse) (p : PutOp) (hn : ∃ t ∈ p.1, t < 0) :
    sparsePut dl p = .panic .index := by
  unfold sparsePut
  have hge := sparseMax_ge_init (dl.length : Int) p.1
  have hmem := sparseMax_ge_mem (dl.length : Int) p.1
  generalize sparseMax (dl.length : Int) p.1 = mx at hge hmem
  by_cases hx : mx - (dl.length : Int) + 1 > 0
  · simp only [hx, if_true]
    apply sparseAssign_neg _ _ _ _ hn
    intro t ht
    have := hmem t ht
    simp only [List.length_append, List.length_replicate]
    omega
  · simp only [hx, if_false]
    apply sparseAssign_neg _ _ _ _ hn
    intro t ht
    have := hmem t ht
    omega

/-- sparse and map containers stay equal (on non-negative types) under the same sequence of Puts. -/
theorem sparse_map_from (ps : List PutOp) (dl : Sparse) (m : MapC)
    (hnn : ∀ p ∈ ps, ∀ t ∈ p.1, 0 ≤ t)
    (h : ∀ n : Nat, sparseLook dl (n : Int) = mapLook m (n : Int)) :
    ∃ dl', sparseFrom dl ps = .ok dl' ∧ ∀ n : Nat, sparseLook dl' (n : Int) = mapLook (ps.foldl mapPut m) (n : Int) := by
  induction ps generalizing dl m with
  | nil => exact ⟨dl, rfl, by simpa using h⟩
  | cons p ps ih =>
    obtain ⟨dl1, h1, h2⟩ := sparsePut_ok dl p (hnn p (List.mem_cons_self ..))
    have hstep : ∀ n : Nat, sparseLook dl1 (n : Int) = mapLook (mapPut m p) (n : Int) := by
      intro n; rw [h2 n, mapLook_put, h n]
    obtain ⟨dl', h3, h4⟩ := ih dl1 (mapPut m p) (fun q hq => hnn q (List.mem_cons_of_mem _ hq)) hstep
    refine ⟨dl', ?_, ?_⟩
    · unfold sparseFrom; rw [h1]; exact h3
    · simpa [List.foldl_cons] using h4

/-- The map container after a Put sequence: the LAST Put naming the type wins. -/
theorem mapLook_fold_last (ps : List PutOp) (m : MapC) (t : LType) :
    mapLook (ps.foldl mapPut m) t =
      match ps.reverse.find? (fun p => p.1.contains t) with
      | some p => .found p.2
      | none => mapLook m t := by
  induction ps generalizing m with
  | nil => simp
  | cons p ps ih =>
    simp only [List.foldl_cons, List.reverse_cons, List.find?_append]
    rw [ih]
    cases hf : List.find? (fun p => p.1.contains t) ps.reverse with
    | some q => simp
    | none =>
      simp only [Option.none_or, List.find?_cons, List.find?_nil]
      rw [mapLook_put]
      by_cases hc : t ∈ p.1
      · simp [hc]
      · simp [hc]

end Gp.Parser
