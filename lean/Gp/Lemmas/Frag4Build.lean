/-
  Helper lemmas for C13 (engine frag4), part 2: the loop of `build`.
  * `buildLoop_safe`: for ANY list of fragments that passed securityChecks, the loop never
    panics and every byte of its result was placed at that offset by a fragment of the list.
  * `buildLoop_contig`: on a contiguous chain it returns the concatenation.
-/
import Gp.Lemmas.Frag4Basic

namespace Gp.Frag4
open Gp.Gen.Frag

/-- Fragment `g` carries byte `b` for absolute payload offset `i` of its datagram. -/
def Placed (g : Frag) (i : Nat) (b : UInt8) : Prop :=
  g.byteOff ≤ i ∧ g.payload[i - g.byteOff]? = some b

theorem sec_facts (g : Frag) (h : securityChecks g = true) :
    g.off ≤ 8189 ∧ g.byteOff = g.off * 8 ∧ g.byteOff + g.length ≤ 65535 ∧
    (g.mf = true → 8 ≤ g.fragLength) := by
  unfold securityChecks at h
  simp only [ip4MinimumFragmentSize, ip4MaximumFragmentOffset, ip4MaximumSize] at h
  simp at h
  obtain ⟨h1, ho, h3⟩ := h
  have hb : g.byteOff = g.off * 8 := by unfold Frag.byteOff u16; omega
  refine ⟨ho, hb, h3, ?_⟩
  intro hm
  rcases h1 with h1 | h1
  · rw [hm] at h1; cases h1
  · have := of_decide_eq_false h1; omega

theorem securityChecks_of (g : Frag) (h1 : g.mf = true → 8 ≤ g.fragLength) (h2 : g.off ≤ 8189)
    (h3 : g.byteOff + g.length ≤ 65535) : securityChecks g = true := by
  unfold securityChecks
  simp [ip4MinimumFragmentSize, ip4MaximumFragmentOffset, ip4MaximumSize]
  refine ⟨?_, h2, h3⟩
  cases hm : g.mf with
  | false => exact Or.inl rfl
  | true => have := h1 hm; exact Or.inr (decide_eq_false (by omega))

/-- The check added to build by frag-5, in Nat terms. -/
theorem consistent_facts (g : Frag) (hlen : g.length ≤ 65535)
    (hc : ¬ ((g.length : Int) - (g.ihl : Int) * 4 ≠ (g.payload.length : Int))) :
    g.fragLength = g.payload.length ∧ g.length = g.ihl * 4 + g.payload.length ∧ g.hdrLen = g.ihl * 4 := by
  have hc' : (g.length : Int) - (g.ihl : Int) * 4 = (g.payload.length : Int) := by
    exact Decidable.of_not_not hc
  unfold Frag.fragLength Frag.hdrLen sub16 u16
  omega

theorem buildLoop_safe (S : Frag → Prop) : ∀ (L : List Frag) (cur : Nat) (acc : Bytes),
    (∀ g ∈ L, securityChecks g = true ∧ S g) → cur = acc.length → cur ≤ 65535 →
    (∀ i b, acc[i]? = some b → ∃ g, S g ∧ Placed g i b) →
    (∀ k, buildLoop L cur acc ≠ .panic k) ∧
    (∀ out, buildLoop L cur acc = .ok out → ∀ i b, out[i]? = some b → ∃ g, S g ∧ Placed g i b)
  | [], cur, acc, _, _, _, hacc => by
    refine ⟨fun k h => by simp [buildLoop] at h, ?_⟩
    intro out h
    simp only [buildLoop, Res.ok.injEq] at h
    subst h; exact hacc
  | g :: L, cur, acc, hL, hcur, hle, hacc => by
    have hg := hL g (List.mem_cons_self ..)
    have hL' : ∀ x ∈ L, securityChecks x = true ∧ S x := fun x hx => hL x (List.mem_cons_of_mem _ hx)
    obtain ⟨ho, hb, hsz, _⟩ := sec_facts g hg.1
    rw [buildLoop]
    split
    · exact ⟨fun k h => (by cases h), fun out h => (by cases h)⟩
    · rename_i hc
      obtain ⟨hfl, hlen, _⟩ := consistent_facts g (by omega) hc
      split
      · -- fragment starts exactly at currentOffset
        rename_i heq
        apply buildLoop_safe S L _ _ hL'
        · simp [u16, hfl, hcur]; omega
        · unfold u16; omega
        · intro i b hi
          rw [List.getElem?_append] at hi
          split at hi
          · exact hacc i b hi
          · rename_i hlt
            refine ⟨g, hg.2, ?_, ?_⟩
            · omega
            · rw [heq, hcur]; exact hi
      · split
        · -- overlapping fragment
          rename_i hne hlt
          have hst : sub16 cur g.byteOff = cur - g.byteOff := by unfold sub16; omega
          simp only [hst]
          split
          · exact ⟨fun k h => (by cases h), fun out h => (by cases h)⟩
          · rename_i hstart
            have hstart' : cur - g.byteOff ≤ g.payload.length := by omega
            simp only [hstart', if_true]
            apply buildLoop_safe S L _ _ hL'
            · simp [u16, sub16, hfl, hcur, List.length_drop]; omega
            · unfold u16 sub16; omega
            · intro i b hi
              rw [List.getElem?_append] at hi
              split at hi
              · exact hacc i b hi
              · rename_i hge
                refine ⟨g, hg.2, by omega, ?_⟩
                rw [List.getElem?_drop] at hi
                have : cur - g.byteOff + (i - acc.length) = i - g.byteOff := by omega
                rw [this] at hi; exact hi
        · exact ⟨fun k h => (by cases h), fun out h => (by cases h)⟩

/-! ### Contiguous chains -/

/-- Every fragment starts where the previous one ends, the first at `s`. -/
def Contig : Nat → List Frag → Prop
  | _, [] => True
  | s, f :: r => f.byteOff = s ∧ Contig (s + f.payload.length) r

/-- Header and payload agree (`len(Payload) = Length - 4*IHL`, no uint16 wrap). -/
def Frag.consistent (g : Frag) : Prop :=
  (g.length : Int) - (g.ihl : Int) * 4 = (g.payload.length : Int) ∧ g.fragLength = g.payload.length

theorem buildLoop_contig : ∀ (L : List Frag) (s : Nat) (acc : Bytes), Contig s L →
    (∀ g ∈ L, g.consistent) → s + sumLen L ≤ 65535 →
    buildLoop L s acc = .ok (acc ++ L.flatMap (·.payload))
  | [], s, acc, _, _, _ => by simp [buildLoop]
  | g :: L, s, acc, hc, hg, hle => by
    obtain ⟨h1, h2⟩ := hg g (List.mem_cons_self ..)
    simp only [sumLen] at hle
    rw [buildLoop]
    have hn : ¬ ((g.length : Int) - (g.ihl : Int) * 4 ≠ (g.payload.length : Int)) := by omega
    simp only [hn, if_false, hc.1, if_true, h2]
    have hu : u16 (s + g.payload.length) = s + g.payload.length := by unfold u16; omega
    rw [hu, buildLoop_contig L _ _ hc.2 (fun x hx => hg x (List.mem_cons_of_mem _ hx)) (by omega)]
    simp [List.flatMap_cons, List.append_assoc]

end Gp.Frag4
