import Gp.Model.ReasmSpec
/-
  C11 (reassembly half): page accounting and closed-flag discipline of every half-connection function,
  for ANY sequence arithmetic and ANY input (no consistency hypotheses).
-/
set_option linter.unusedSimpArgs false
set_option linter.unusedVariables false
namespace Gp.Reasm
open Gp

/-- pages a half connection holds: queued for out-of-order data + kept on request of the stream -/
def held (h : Half) : Int := (h.queue.length : Int) + h.saved.length

/-- the per-connection counter `half.pages` is exact -/
def Bal (h : Half) : Prop := h.pages = held h

theorem ovLoop_count (A : Arith) (start end_ : Int) : ∀ (rev back : List Page) (bytes : List UInt8) (dropped : Nat) (r : Ov),
    ovLoop A start end_ bytes rev back dropped = .ok r →
    r.dropped + r.front.length + r.back.length = dropped + rev.length + back.length
  | [], back, bytes, dropped, r, h => by
    simp only [ovLoop] at h
    obtain rfl := Res.ok.inj h
    simp
  | cur :: rest, back, bytes, dropped, r, h => by
    simp only [ovLoop] at h
    split at h
    · have := ovLoop_count A start end_ rest (cur :: back) bytes dropped r h
      simp only [List.length_cons] at this ⊢; omega
    · split at h
      · obtain rfl := Res.ok.inj h
        simp
      · split at h
        · have := ovLoop_count A start end_ rest back bytes (dropped + 1) r h
          simp only [List.length_cons] at this ⊢; omega
        · split at h
          · split at h
            · cases h
            · obtain rfl := Res.ok.inj h
              simp
          · split at h
            · split at h
              · cases h
              · have := ovLoop_count A start end_ rest _ bytes dropped r h
                simp only [List.length_cons] at this ⊢; omega
            · split at h
              · split at h
                · cases h
                · have := ovLoop_count A start end_ rest _ [] dropped r h
                  simp only [List.length_cons] at this ⊢; omega
              · have := ovLoop_count A start end_ rest (cur :: back) bytes dropped r h
                simp only [List.length_cons] at this ⊢; omega

/-- `checkOverlap` changes `half.pages` and `pc.used` by exactly the change of the queue length and touches
    nothing else -/
theorem checkOverlap_acct (A : Arith) (h : Half) (used : Int) (queue : Bool) (start : Int) (bytes : List UInt8)
    (ts : Int) (fin : Bool) (h' : Half) (used' : Int) (bs : List UInt8)
    (hc : checkOverlap A h used queue start bytes ts fin = .ok (h', used', bs)) :
    h' = { h with queue := h'.queue, pages := h'.pages } ∧
    h'.pages - h.pages = (h'.queue.length : Int) - h.queue.length ∧
    used' - used = (h'.queue.length : Int) - h.queue.length := by
  unfold checkOverlap at hc
  split at hc
  · rename_i r hr
    have hcnt := ovLoop_count A _ _ _ _ _ _ _ hr
    simp only [List.length_reverse, List.length_nil, Nat.add_zero, Nat.zero_add] at hcnt
    split at hc
    · simp only [Res.ok.injEq, Prod.mk.injEq] at hc
      obtain ⟨rfl, rfl, rfl⟩ := hc
      simp only [List.length_append]
      refine ⟨by first | rfl | trivial, ?_, ?_⟩ <;> omega
    · simp only [Res.ok.injEq, Prod.mk.injEq] at hc
      obtain ⟨rfl, rfl, rfl⟩ := hc
      simp only [List.length_append]
      refine ⟨by first | rfl | trivial, ?_, ?_⟩ <;> omega
  · cases hc
  · cases hc

theorem pageCount_le (l : List Cont) : pageCount l ≤ l.length := by
  simp only [pageCount]; exact List.length_filter_le _ _

theorem pageCount_append' (a b : List Cont) : pageCount (a ++ b) = pageCount a + pageCount b := by
  simp [pageCount, List.filter_append]

theorem pageCount_pages' (ps : List Page) : pageCount (ps.map Page.toCont) = ps.length := by
  induction ps with
  | nil => rfl
  | cons p rest ih => simp only [pageCount, List.map_cons, Page.toCont] at ih ⊢; simp [ih]

theorem splitPagesAux_pos (A : Arith) (seen : Int) (fin : Bool) (fuel : Nat) (seq : Int) (bytes : List UInt8) :
    0 < (splitPagesAux A seen fin fuel seq bytes).length := by
  cases fuel <;> simp [splitPagesAux]
  split <;> simp

theorem convertKept_count (A : Arith) (ts : Int) (c : Cont) (skip : Int) (ps : List Page) (n : Nat)
    (h : convertKept A ts c skip = .ok (ps, n)) : (ps.length : Int) = pageCount [c] + n := by
  unfold convertKept at h
  split at h
  · cases h
  · split at h
    · rename_i hl
      obtain ⟨rfl, rfl⟩ := Prod.mk.inj (Res.ok.inj h)
      simp [pageCount, hl]
    · rename_i hl
      split at h <;>
      · obtain ⟨rfl, rfl⟩ := Prod.mk.inj (Res.ok.inj h)
        simp [pageCount, hl]

theorem convertAll_count (A : Arith) (ts : Int) : ∀ (cs : List Cont) (skip : Int) (ps : List Page) (n : Nat),
    convertAll A ts cs skip = .ok (ps, n) → (ps.length : Int) = pageCount cs + n
  | [], _, ps, n, h => by
    simp only [convertAll] at h
    obtain ⟨rfl, rfl⟩ := Prod.mk.inj (Res.ok.inj h)
    simp [pageCount]
  | c :: rest, skip, ps, n, h => by
    simp only [convertAll] at h
    split at h
    · rename_i ps1 n1 h1
      split at h
      · rename_i ps2 n2 h2
        obtain ⟨rfl, rfl⟩ := Prod.mk.inj (Res.ok.inj h)
        have e1 := convertKept_count A ts c skip ps1 n1 h1
        have e2 := convertAll_count A ts rest 0 ps2 n2 h2
        have : pageCount (c :: rest) = pageCount [c] + pageCount rest := pageCount_append' [c] rest
        rw [this]
        simp only [List.length_append, Int.natCast_add]
        omega
      · cases h
      · cases h
    · cases h
    · cases h

theorem cleanSG_acct (A : Arith) (h : Half) (used : Int) (all : List Cont) (toKeep ts : Int) (h' : Half) (used' : Int)
    (hc : cleanSG A h used all toKeep ts = .ok (h', used')) :
    h' = { h with saved := h'.saved, pages := h'.pages } ∧
    h'.pages - h.pages = (h'.saved.length : Int) - pageCount all ∧
    used' - used = (h'.saved.length : Int) - pageCount all := by
  unfold cleanSG at hc
  generalize (if toKeep < 0 then (all.length, (0 : Int)) else findKeep toKeep all 0 toKeep 0) = r at hc
  obtain ⟨ndx, skip⟩ := r
  simp only at hc
  split at hc
  · rename_i ps created hcv
    obtain ⟨rfl, rfl⟩ := Prod.mk.inj (Res.ok.inj hc)
    have e := convertAll_count A ts _ _ _ _ hcv
    have e2 : pageCount all = pageCount (all.take ndx) + pageCount (all.drop ndx) := by
      rw [← pageCount_append', List.take_append_drop]
    refine ⟨rfl, ?_, ?_⟩ <;> simp only <;> omega
  · cases hc
  · cases hc

theorem closeHalf_acct (h : Half) (used : Int) :
    (closeHalf h used).1.closed = true ∧ held (closeHalf h used).1 = 0 ∧
    (closeHalf h used).2 - used = held (closeHalf h used).1 - held h ∧
    (closeHalf h used).1.pages - h.pages = held (closeHalf h used).1 - held h ∧
    (closeHalf h used).1.lastSeen = h.lastSeen := by
  simp [closeHalf, held]; omega

theorem addPending_acct (A : Arith) (h : Half) (used : Int) (firstSeq : Int) (ret : List Cont) :
    (addPending A h used firstSeq ret).1 = { h with saved := [], pages := (addPending A h used firstSeq ret).1.pages } ∧
    (∃ pre : List Page, (addPending A h used firstSeq ret).2.2.1 = pre.map Page.toCont ++ ret ∧
      (addPending A h used firstSeq ret).1.pages - h.pages = (pre.length : Int) - h.saved.length ∧
      (addPending A h used firstSeq ret).2.1 - used = (pre.length : Int) - h.saved.length) := by
  unfold addPending
  cases hs : h.saved with
  | nil => simp only; exact ⟨by rw [← hs], [], by simp⟩
  | cons p rest =>
    simp only
    split
    · exact ⟨rfl, [], by simp; omega⟩
    · exact ⟨rfl, p :: rest, by simp⟩

theorem addContiguousAux_acct (A : Arith) : ∀ (q : List Page) (last : Int) (ret : List Cont),
    ∃ taken, q = taken ++ (addContiguousAux A q last ret).1 ∧
      (addContiguousAux A q last ret).2.2 = ret ++ taken.map Page.toCont
  | [], last, ret => ⟨[], by simp [addContiguousAux]⟩
  | p :: rest, last, ret => by
    simp only [addContiguousAux]
    split
    · obtain ⟨taken, h1, h2⟩ := addContiguousAux_acct A rest (A.add last ↑p.bytes.length) (ret ++ [p.toCont])
      exact ⟨p :: taken, by rw [List.cons_append, ← h1], by rw [h2]; simp⟩
    · exact ⟨[], by simp⟩

theorem addContiguous_acct (A : Arith) (h : Half) (last : Int) (ret : List Cont) :
    ∃ taken, h.queue = taken ++ (addContiguous A h last ret).1.queue ∧
      (addContiguous A h last ret).2.2 = ret ++ taken.map Page.toCont ∧
      (addContiguous A h last ret).1 = { h with queue := (addContiguous A h last ret).1.queue } := by
  unfold addContiguous
  cases hq : h.queue with
  | nil => simp only; exact ⟨[], by simp [hq], by simp, by first | trivial | rw [← hq]⟩
  | cons p rest =>
    simp only
    obtain ⟨taken, h1, h2⟩ := addContiguousAux_acct A (p :: rest)
      (if last = invalidSeq then p.seq else last) ret
    exact ⟨taken, h1, h2, by first | rfl | trivial⟩

/-- accounting of one `sendToConnection`; `r0` is the chunk handed in (the live packet, or a page that was
    just popped from the queue) -/
structure SendAcct (h : Half) (used : Int) (r0 : Cont) (s : Sent) : Prop where
  same : s.half = { h with saved := s.half.saved, queue := s.half.queue, pages := s.half.pages, closed := s.half.closed }
  closed : s.half.closed = (h.closed || s.closed)
  empty : s.closed = true → held s.half = 0
  qlen : s.half.queue.length ≤ h.queue.length
  used : s.used - used = held s.half - held h - (if r0.live then 0 else 1)
  pages : s.half.pages - h.pages = held s.half - held h - (if r0.live then 0 else 1)

theorem sendToConnection_acct (A : Arith) (h : Half) (used : Int) (r0 : Cont) (ts : Int) (keep : KeepRule) (s : Sent)
    (hs : sendToConnection A h used [r0] ts keep = .ok s) : SendAcct h used r0 s := by
  unfold sendToConnection at hs
  simp only at hs
  obtain ⟨hap1, pre, hap2, hap3, hap4⟩ := addPending_acct A h used r0.seq [r0]
  generalize addPending A h used r0.seq [r0] = ap at hs hap1 hap2 hap3 hap4
  obtain ⟨h1, used1, ret1, savedLen⟩ := ap
  simp only at hs hap1 hap2 hap3 hap4
  obtain ⟨taken, hac1, hac2, hac3⟩ := addContiguous_acct A h1 (A.add r0.seq ↑r0.bytes.length) ret1
  generalize addContiguous A h1 (A.add r0.seq ↑r0.bytes.length) ret1 = ac at hs hac1 hac2 hac3
  obtain ⟨h2, e, all⟩ := ac
  simp only at hs hac1 hac2 hac3
  have hq1 : h1.queue = h.queue := by rw [hap1]
  have hs1 : h1.saved = [] := by rw [hap1]
  have hpc : (pageCount all : Int) = pre.length + (if r0.live then 0 else 1) + taken.length := by
    rw [hac2, hap2, pageCount_append', pageCount_append', pageCount_pages', pageCount_pages']
    have : pageCount [r0] = if r0.live then 0 else 1 := by
      simp only [pageCount, List.filter_cons, List.filter_nil]
      cases r0.live <;> simp
    rw [this]
    cases r0.live <;> simp <;> omega
  have hqlen : (h.queue.length : Int) = taken.length + h2.queue.length := by
    rw [← hq1, hac1, List.length_append]; omega
  have hp2 : h2.pages = h1.pages := by rw [hac3]
  have hsv2 : h2.saved = [] := by rw [hac3]; exact hs1
  split at hs
  · rename_i h3 used3 hcl
    obtain ⟨hc1, hc2, hc3⟩ := cleanSG_acct A h2 used1 all _ ts h3 used3 hcl
    have hq3 : h3.queue = h2.queue := by rw [hc1]
    have hcl3 : h3.closed = h.closed := by rw [hc1, hac3, hap1]
    split at hs
    · obtain rfl := Res.ok.inj hs
      have hca := closeHalf_acct h3 used3
      exact {
        same := by simp only [closeHalf]; rw [hc1, hac3, hap1]
        closed := by simp [closeHalf]
        empty := fun _ => hca.2.1
        qlen := by simp [closeHalf]
        used := by
          have := hca.2.2.1
          simp only [held] at this hca ⊢
          rw [hq3] at this
          cases hlive : r0.live <;> simp only [hlive, Bool.false_eq_true, if_false, if_true] at hpc ⊢ <;> omega
        pages := by
          have := hca.2.2.2.1
          simp only [held] at this hca ⊢
          rw [hq3] at this
          cases hlive : r0.live <;> simp only [hlive, Bool.false_eq_true, if_false, if_true] at hpc ⊢ <;> omega }
    · obtain rfl := Res.ok.inj hs
      exact {
        same := by simp only; rw [hc1, hac3, hap1]
        closed := by simp only [Bool.or_false]; exact hcl3
        empty := fun hc => by simp at hc
        qlen := by simp only [hq3]; omega
        used := by
          simp only [held, hq3]
          cases hlive : r0.live <;> simp only [hlive, Bool.false_eq_true, if_false, if_true] at hpc ⊢ <;> omega
        pages := by
          simp only [held, hq3]
          cases hlive : r0.live <;> simp only [hlive, Bool.false_eq_true, if_false, if_true] at hpc ⊢ <;> omega }
  · cases hs
  · cases hs

/-- accounting and closed-flag discipline of one step on a half connection -/
structure Acct (h : Half) (used : Int) (o : Out) : Prop where
  used : o.used - used = held o.half - held h
  pages : o.half.pages - h.pages = held o.half - held h
  closedT : o.closed = true → h.closed = false ∧ o.half.closed = true
  closedF : o.closed = false → o.half.closed = h.closed
  quiet : h.closed = true → o.closed = false ∧ o.half.queue = h.queue ∧ o.half.saved = h.saved
  empty : o.closed = true → held o.half = 0

theorem handleBytes_acct (A : Arith) (cfg : Cfg) (h : Half) (used : Int) (queue : Bool) (seq : Int) (bytes : List UInt8)
    (ts : Int) (syn fin : Bool) (h' : Half) (used' : Int) (ret : List Cont)
    (hb : handleBytes A cfg h used queue seq bytes ts syn fin = .ok (h', used', ret)) :
    h' = { h with queue := h'.queue, pages := h'.pages } ∧
    (ret = [] ∨ ∃ r0, ret = [r0]) ∧
    used' - used = held h' - held h + pageCount ret ∧
    h'.pages - h.pages = held h' - held h + pageCount ret := by
  unfold handleBytes at hb
  split at hb
  · split at hb
    · rename_i h1 used1 bs hco
      obtain ⟨hs1, hp1, hu1⟩ := checkOverlap_acct A h used true seq bytes ts fin h1 used1 bs hco
      have hsv : h1.saved = h.saved := by rw [hs1]
      split at hb
      · unfold addNextFromConn at hb
        cases hq : h1.queue with
        | nil =>
          simp only [hq, Res.ok.injEq, Prod.mk.injEq] at hb
          obtain ⟨rfl, rfl, rfl⟩ := hb
          refine ⟨hs1, Or.inl rfl, ?_, ?_⟩ <;> simp only [held, hsv, pageCount, List.filter_nil, List.length_nil] <;> omega
        | cons p rest =>
          simp only [hq, List.nil_append, Res.ok.injEq, Prod.mk.injEq] at hb
          obtain ⟨rfl, rfl, rfl⟩ := hb
          refine ⟨by simp only; rw [hs1], Or.inr ⟨_, rfl⟩, ?_, ?_⟩ <;>
            simp only [held, hsv, hq, List.length_cons, pageCount, List.filter_cons, List.filter_nil, Page.toCont,
              Bool.not_false, if_true, List.length_nil] at hp1 hu1 ⊢ <;> omega
      · simp only [Res.ok.injEq, Prod.mk.injEq] at hb
        obtain ⟨rfl, rfl, rfl⟩ := hb
        refine ⟨hs1, Or.inl rfl, ?_, ?_⟩ <;> simp only [held, hsv, pageCount, List.filter_nil, List.length_nil] <;> omega
    · cases hb
    · cases hb
  · split at hb
    · rename_i bs0 seq0 hoe
      split at hb
      · rename_i h1 used1 bs hco
        obtain ⟨hs1, hp1, hu1⟩ := checkOverlap_acct A h used false seq0 bs0 ts fin h1 used1 bs hco
        have hsv : h1.saved = h.saved := by rw [hs1]
        split at hb
        · simp only [Res.ok.injEq, Prod.mk.injEq] at hb
          obtain ⟨rfl, rfl, rfl⟩ := hb
          refine ⟨hs1, Or.inr ⟨_, rfl⟩, ?_, ?_⟩ <;>
            simp only [held, hsv, pageCount, List.filter_cons, List.filter_nil, Bool.not_true, Bool.false_eq_true,
              if_false, List.length_nil] <;> omega
        · simp only [Res.ok.injEq, Prod.mk.injEq] at hb
          obtain ⟨rfl, rfl, rfl⟩ := hb
          refine ⟨hs1, Or.inl rfl, ?_, ?_⟩ <;> simp only [held, hsv, pageCount, List.filter_nil, List.length_nil] <;> omega
      · cases hb
      · cases hb
    · cases hb
    · cases hb

theorem finishAssemble_acct (A : Arith) (h : Half) (used : Int) (ret : List Cont) (ts : Int) (keep : KeepRule) (bump : Bool)
    (o : Out) (hret : ret = [] ∨ ∃ r0, ret = [r0]) (hopen : h.closed = false)
    (hf : finishAssemble A h used ret ts keep bump = .ok o) :
    o.used - used = held o.half - held h - pageCount ret ∧
    o.half.pages - h.pages = held o.half - held h - pageCount ret ∧
    (o.closed = true → o.half.closed = true ∧ held o.half = 0) ∧ (o.closed = false → o.half.closed = false) := by
  unfold finishAssemble at hf
  rcases hret with rfl | ⟨r0, rfl⟩
  · simp only [List.length_nil, Nat.lt_irrefl, if_false, Res.ok.injEq] at hf
    subst hf
    simp [pageCount, hopen]
  · simp only [List.length_cons, List.length_nil, Nat.zero_add, Nat.lt_add_one, if_true] at hf
    split at hf
    · rename_i s hs
      have ac := sendToConnection_acct A h used r0 ts keep s hs
      obtain rfl := Res.ok.inj hf
      have hpc : (pageCount [r0] : Int) = if r0.live then 0 else 1 := by
        simp only [pageCount, List.filter_cons, List.filter_nil]
        cases r0.live <;> simp
      have hheld : ∀ ns : Int, held ({ s.half with nextSeq := ns } : Half) = held s.half := fun _ => rfl
      rw [hpc]
      refine ⟨?_, ?_, ?_, ?_⟩
      · simp only; split <;> exact ac.used
      · simp only; split <;> exact ac.pages
      · intro hc
        simp only at hc
        have := ac.closed; rw [hc] at this
        constructor
        · simp only; split <;> simp [this]
        · simp only; split <;> exact ac.empty hc
      · intro hc
        simp only at hc
        have := ac.closed; rw [hc, hopen] at this
        simp only; split <;> simp [this]
    · cases hf
    · cases hf

theorem decideQueue_same (A : Arith) (h : Half) (syn : Bool) (acc : Nat) (seq : Int) :
    (decideQueue A h syn acc seq).1 = { h with nextSeq := (decideQueue A h syn acc seq).1.nextSeq } := by
  unfold decideQueue
  split
  · split
    · rfl
    · split <;> rfl
  · split <;> rfl

theorem assemble_acct (A : Arith) (cfg : Cfg) (h : Half) (used : Int) (p : Seg) (acc : Nat) (keep : KeepRule) (o : Out)
    (ha : assemble A cfg h used p acc keep = .ok o) : Acct h used o := by
  unfold assemble at ha
  generalize hh0 : (if h.lastSeen < p.ts then { h with lastSeen := p.ts } else h) = h0 at ha
  have hc0 : h0.closed = h.closed := by rw [← hh0]; split <;> rfl
  have hq0 : h0.queue = h.queue := by rw [← hh0]; split <;> rfl
  have hs0 : h0.saved = h.saved := by rw [← hh0]; split <;> rfl
  have hp0 : h0.pages = h.pages := by rw [← hh0]; split <;> rfl
  have hheld0 : held h0 = held h := by simp only [held, hq0, hs0]
  simp only at ha
  split at ha
  · obtain rfl := Res.ok.inj ha
    exact { used := by simp [hheld0], pages := by simp [hheld0, hp0], closedT := fun hc => by simp at hc,
            closedF := fun _ => hc0, quiet := fun _ => ⟨rfl, hq0, hs0⟩, empty := fun hc => by simp at hc }
  · split at ha
    · obtain rfl := Res.ok.inj ha
      exact { used := by simp [hheld0], pages := by simp [hheld0, hp0], closedT := fun hc => by simp at hc,
              closedF := fun _ => hc0, quiet := fun _ => ⟨rfl, hq0, hs0⟩, empty := fun hc => by simp at hc }
    · rename_i hcl
      have hopen0 : h0.closed = false := by simpa using hcl
      have hopen : h.closed = false := by rw [← hc0]; exact hopen0
      have hd := decideQueue_same A h0 p.syn acc (if p.syn = true then A.add p.seq 1 else p.seq)
      generalize decideQueue A h0 p.syn acc (if p.syn = true then A.add p.seq 1 else p.seq) = d at ha hd
      obtain ⟨h1, queue⟩ := d
      simp only at ha hd
      have hheld1 : held h1 = held h0 := by rw [hd]; rfl
      have hp1 : h1.pages = h0.pages := by rw [hd]
      have hc1 : h1.closed = false := by rw [hd]; exact hopen0
      split at ha
      · rename_i h2 used2 ret hhb
        obtain ⟨hs2, hret, hu2, hpg2⟩ := handleBytes_acct A cfg h1 used queue _ p.bytes p.ts p.syn _ h2 used2 ret hhb
        have hc2 : h2.closed = false := by rw [hs2]; exact hc1
        obtain ⟨e1, e2, e3, e4⟩ := finishAssemble_acct A h2 used2 ret p.ts keep _ o hret hc2 ha
        exact {
          used := by omega
          pages := by omega
          closedT := fun hc => ⟨hopen, (e3 hc).1⟩
          closedF := fun hc => by rw [e4 hc, hopen]
          quiet := fun hc => by rw [hopen] at hc; cases hc
          empty := fun hc => (e3 hc).2 }
      · cases ha
      · cases ha

theorem skipFlush_acct (A : Arith) (h : Half) (used : Int) (keep : KeepRule) (o : Out) (hopen : h.closed = false)
    (hs : skipFlush A h used keep = .ok o) :
    Acct h used o ∧ (o.closed = false → o.half.queue.length < h.queue.length) := by
  unfold skipFlush at hs
  cases hq : h.queue with
  | nil =>
    simp only [hq, Res.ok.injEq] at hs
    subst hs
    have hca := closeHalf_acct h used
    refine ⟨{
      used := hca.2.2.1
      pages := hca.2.2.2.1
      closedT := fun _ => ⟨hopen, hca.1⟩
      closedF := fun hc => by simp at hc
      quiet := fun hc => by rw [hopen] at hc; cases hc
      empty := fun _ => hca.2.1 }, fun hc => by simp at hc⟩
  | cons p rest =>
    simp only [hq, addNextFromConn, List.nil_append] at hs
    split at hs
    · rename_i s hsend
      have ac := sendToConnection_acct A { h with queue := rest } used p.toCont 0 keep s hsend
      obtain rfl := Res.ok.inj hs
      have hheld : ∀ ns : Int, held ({ s.half with nextSeq := ns } : Half) = held s.half := fun _ => rfl
      have hh : held ({ h with queue := rest } : Half) = held h - 1 := by
        simp only [held, hq, List.length_cons]; omega
      have hlive : p.toCont.live = false := rfl
      have hu := ac.used
      have hpg := ac.pages
      rw [hlive, hh] at hu hpg
      simp only [Bool.false_eq_true, if_false] at hu hpg
      refine ⟨{
        used := by
          simp only
          split
          · show s.used - used = held s.half - held h; omega
          · show s.used - used = held s.half - held h; omega
        pages := by
          have e0 : ({ h with queue := rest } : Half).pages = h.pages := rfl
          rw [e0] at hpg
          simp only
          split
          · show s.half.pages - h.pages = held s.half - held h; omega
          · show s.half.pages - h.pages = held s.half - held h; omega
        closedT := fun hc => by
          simp only at hc
          have := ac.closed; rw [hc] at this
          exact ⟨hopen, by simp only; split <;> simp [this]⟩
        closedF := fun hc => by
          simp only at hc
          have := ac.closed; rw [hc] at this
          simp only; split <;> simp [this, hopen]
        quiet := fun hc => by rw [hopen] at hc; cases hc
        empty := fun hc => by
          simp only at hc
          simp only; split <;> exact ac.empty hc }, ?_⟩
      intro _
      have := ac.qlen
      simp only at this ⊢
      split <;> simp only [List.length_cons] <;> omega
    · cases hs
    · cases hs

/-- a step that changes nothing that counts -/
theorem Acct.ofSame {h : Half} {used : Int} {o : Out} (h1 : o.half = h) (h2 : o.used = used) (h3 : o.closed = false) :
    Acct h used o where
  used := by rw [h1, h2]; simp
  pages := by rw [h1]; simp
  closedT := fun hc => by rw [h3] at hc; cases hc
  closedF := fun _ => by rw [h1]
  quiet := fun _ => ⟨h3, by rw [h1], by rw [h1]⟩
  empty := fun hc => by rw [h3] at hc; cases hc

/-- re-labelling the result of a closing step -/
theorem Acct.closing {h : Half} {used : Int} {o1 o : Out} (a1 : Acct h used o1) (hc1 : o1.closed = true)
    (e1 : o.half = o1.half) (e2 : o.used = o1.used) (e3 : o.closed = true) : Acct h used o where
  used := by rw [e1, e2]; exact a1.used
  pages := by rw [e1]; exact a1.pages
  closedT := fun _ => by rw [e1]; exact a1.closedT hc1
  closedF := fun hc => by rw [e3] at hc; cases hc
  quiet := fun hc => by have := (a1.closedT hc1).1; rw [hc] at this; cases this
  empty := fun _ => by rw [e1]; exact a1.empty hc1

/-- a step that left the half open, followed by closeHalfConnection -/
theorem Acct.thenClose {h : Half} {used : Int} {o1 o : Out} (a1 : Acct h used o1) (hopen : h.closed = false)
    (e1 : o.half = (closeHalf o1.half o1.used).1) (e2 : o.used = (closeHalf o1.half o1.used).2) (e3 : o.closed = true) :
    Acct h used o := by
  have hca := closeHalf_acct o1.half o1.used
  exact {
    used := by have := a1.used; have := hca.2.2.1; rw [e1, e2]; omega
    pages := by have := a1.pages; have := hca.2.2.2.1; rw [e1]; omega
    closedT := fun _ => ⟨hopen, by rw [e1]; exact hca.1⟩
    closedF := fun hc => by rw [e3] at hc; cases hc
    quiet := fun hc => by rw [hopen] at hc; cases hc
    empty := fun _ => by rw [e1]; exact hca.2.1 }

/-- composition: a step that left the half open, followed by another step -/
theorem Acct.trans {h : Half} {used : Int} {o1 o2 : Out} (a1 : Acct h used o1) (hopen : h.closed = false)
    (h1 : o1.closed = false) (a2 : Acct o1.half o1.used o2) : Acct h used o2 where
  used := by have := a1.used; have := a2.used; omega
  pages := by have := a1.pages; have := a2.pages; omega
  closedT := fun hc => ⟨hopen, (a2.closedT hc).2⟩
  closedF := fun hc => by rw [a2.closedF hc, a1.closedF h1]
  quiet := fun hc => by rw [hopen] at hc; cases hc
  empty := a2.empty

theorem flushLoop_acct (A : Arith) (t : Int) (keep : KeepRule) :
    ∀ (fuel : Nat) (h : Half) (used : Int) (sgs : List SG) (fl : Bool) (o : Out), h.closed = false →
      flushLoop A t keep fuel h used sgs fl = .ok o → Acct h used o
  | 0, h, used, sgs, fl, o, hopen, hf => by
    simp only [flushLoop, Res.ok.injEq] at hf
    subst hf
    exact Acct.ofSame rfl rfl rfl
  | fuel + 1, h, used, sgs, fl, o, hopen, hf => by
    simp only [flushLoop] at hf
    split at hf
    · simp only [Res.ok.injEq] at hf
      subst hf
      exact Acct.ofSame rfl rfl rfl
    · split at hf
      · split at hf
        · rename_i o1 hs
          obtain ⟨a1, _⟩ := skipFlush_acct A h used keep o1 hopen hs
          split at hf
          · rename_i hc1
            simp only [Res.ok.injEq] at hf
            subst hf
            exact a1.closing hc1 rfl rfl rfl
          · rename_i hc1
            have hc1' : o1.closed = false := by simpa using hc1
            have hopen1 : o1.half.closed = false := by rw [a1.closedF hc1', hopen]
            exact a1.trans hopen hc1' (flushLoop_acct A t keep fuel o1.half o1.used _ true o hopen1 hf)
        · cases hf
        · cases hf
      · simp only [Res.ok.injEq] at hf
        subst hf
        exact Acct.ofSame rfl rfl rfl

theorem flushClose_acct (A : Arith) (h : Half) (used : Int) (t tc ls : Int) (keep : KeepRule) (o : Out)
    (hf : flushClose A h used t tc ls keep = .ok o) : Acct h used o := by
  unfold flushClose at hf
  split at hf
  · simp only [Res.ok.injEq] at hf
    subst hf
    exact Acct.ofSame rfl rfl rfl
  · rename_i hc
    have hopen : h.closed = false := by simpa using hc
    split at hf
    · rename_i o1 hl
      have a1 := flushLoop_acct A t keep _ h used [] false o1 hopen hl
      split at hf
      · obtain rfl := Res.ok.inj hf; exact a1
      · split at hf
        · obtain rfl := Res.ok.inj hf
          exact a1.thenClose hopen rfl rfl rfl
        · obtain rfl := Res.ok.inj hf; exact a1
    · cases hf
    · cases hf

theorem flushAllLoop_acct (A : Arith) (keep : KeepRule) :
    ∀ (fuel : Nat) (h : Half) (used : Int) (sgs : List SG) (o : Out),
      flushAllLoop A keep fuel h used sgs = .ok o →
      Acct h used o ∧ (h.queue.length + 2 ≤ fuel → o.half.closed = true)
  | 0, h, used, sgs, o, hf => by
    simp only [flushAllLoop, Res.ok.injEq] at hf
    subst hf
    exact ⟨Acct.ofSame rfl rfl rfl, fun hc => by omega⟩
  | fuel + 1, h, used, sgs, o, hf => by
    simp only [flushAllLoop] at hf
    split at hf
    · rename_i hc
      simp only [Res.ok.injEq] at hf
      subst hf
      exact ⟨Acct.ofSame rfl rfl rfl, fun _ => hc⟩
    · rename_i hc
      have hopen : h.closed = false := by simpa using hc
      split at hf
      · rename_i o1 hs
        obtain ⟨a1, hlen⟩ := skipFlush_acct A h used keep o1 hopen hs
        split at hf
        · rename_i hc1
          simp only [Res.ok.injEq] at hf
          subst hf
          exact ⟨a1.closing hc1 rfl rfl rfl, fun _ => (a1.closedT hc1).2⟩
        · rename_i hc1
          have hc1' : o1.closed = false := by simpa using hc1
          obtain ⟨a2, hf2⟩ := flushAllLoop_acct A keep fuel o1.half o1.used _ o hf
          refine ⟨a1.trans hopen hc1' a2, fun hfu => hf2 ?_⟩
          have := hlen hc1'
          omega
      · cases hf
      · cases hf

theorem flushAllHalf_acct (A : Arith) (h : Half) (used : Int) (keep : KeepRule) (o : Out)
    (hf : flushAllHalf A h used keep = .ok o) : Acct h used o ∧ o.half.closed = true := by
  unfold flushAllHalf at hf
  obtain ⟨a, hc⟩ := flushAllLoop_acct A keep _ h used [] o hf
  exact ⟨a, hc (Nat.le_refl _)⟩

/-- a closed half connection gets no data -/
theorem assemble_quiet (A : Arith) (cfg : Cfg) (h : Half) (used : Int) (p : Seg) (acc : Nat) (keep : KeepRule) (o : Out)
    (hc : h.closed = true) (ha : assemble A cfg h used p acc keep = .ok o) : o.sgs = [] := by
  unfold assemble at ha
  generalize hh0 : (if h.lastSeen < p.ts then { h with lastSeen := p.ts } else h) = h0 at ha
  have hc0 : h0.closed = true := by rw [← hh0]; split <;> exact hc
  simp only at ha
  split at ha
  · obtain rfl := Res.ok.inj ha; rfl
  · first
    | (obtain rfl := Res.ok.inj ha; rfl)
    | (rw [if_pos hc0] at ha; obtain rfl := Res.ok.inj ha; rfl)

theorem flushClose_quiet (A : Arith) (h : Half) (used : Int) (t tc ls : Int) (keep : KeepRule) (o : Out)
    (hc : h.closed = true) (hf : flushClose A h used t tc ls keep = .ok o) : o.sgs = [] := by
  unfold flushClose at hf
  rw [if_pos hc] at hf
  obtain rfl := Res.ok.inj hf; rfl

theorem flushAllHalf_quiet (A : Arith) (h : Half) (used : Int) (keep : KeepRule) (o : Out)
    (hc : h.closed = true) (hf : flushAllHalf A h used keep = .ok o) : o.sgs = [] := by
  unfold flushAllHalf at hf
  simp only [flushAllLoop, hc, if_true] at hf
  obtain rfl := Res.ok.inj hf; rfl

end Gp.Reasm
