import Gp.Model.PoolReasm
import Gp.Lemmas.PoolBase
/-
  Invariants of the reassembly StreamPool LTS (Gp/Model/PoolReasm.lean) and their preservation.
-/
namespace Gp.Pool.Reasm
open Gp.Pool

/-- connection whose mutex a thread at this pc holds -/
def PC.holds : PC → Option CId
  | .cb c _ _ => some c
  | .rm c _ => some c
  | _ => none

/-- connection object a thread at this pc points to -/
def PC.ptr : PC → Option CId
  | .lock c _ => some c
  | .cb c _ _ => some c
  | .rm c _ => some c
  | .rm2 c => some c
  | _ => none

@[simp] theorem holds_start : PC.holds .start = none := rfl
@[simp] theorem holds_ins (sid : SId) : PC.holds (.ins sid) = none := rfl
@[simp] theorem holds_lock (c : CId) (h : Bool) : PC.holds (.lock c h) = none := rfl
@[simp] theorem holds_cb (c : CId) (h f : Bool) : PC.holds (.cb c h f) = some c := rfl
@[simp] theorem holds_rm (c : CId) (k : List Bool) : PC.holds (.rm c k) = some c := rfl
@[simp] theorem holds_rm2 (c : CId) : PC.holds (.rm2 c) = none := rfl
@[simp] theorem holds_panicked : PC.holds .panicked = none := rfl
@[simp] theorem ptr_start : PC.ptr .start = none := rfl
@[simp] theorem ptr_ins (sid : SId) : PC.ptr (.ins sid) = none := rfl
@[simp] theorem ptr_lock (c : CId) (h : Bool) : PC.ptr (.lock c h) = some c := rfl
@[simp] theorem ptr_cb (c : CId) (h f : Bool) : PC.ptr (.cb c h f) = some c := rfl
@[simp] theorem ptr_rm (c : CId) (k : List Bool) : PC.ptr (.rm c k) = some c := rfl
@[simp] theorem ptr_rm2 (c : CId) : PC.ptr (.rm2 c) = some c := rfl
@[simp] theorem ptr_panicked : PC.ptr .panicked = none := rfl

def isPkt : List Op → Prop
  | .pkt _ _ :: _ => True
  | _ => False

def isFlush : List Op → Prop
  | .flush :: _ => True
  | .flushold _ _ :: _ => True
  | _ => False

/-- First group of invariants: mutex ownership, object initialisation, no panic, well-formedness.
    They hold in EVERY reachable state. -/
structure InvA (s : State) : Prop where
  mu_iff   : ∀ c t, (s.obj c).mu = some t ↔ (s.thr t).pc.holds = some c
  ptr_lt   : ∀ t c, (s.thr t).pc.ptr = some c → c < s.nextC
  snap_lt  : ∀ t l c, (s.thr t).snap = some l → c ∈ l → c < s.nextC
  map_lt   : ∀ k c, (k, c) ∈ s.conns → c < s.nextC
  free_lt  : ∀ c, c ∈ s.free → c < s.nextC
  inited   : ∀ c, c < s.nextC → (s.obj c).stream ≠ none
  no_panic : ∀ t, (s.thr t).pc ≠ .panicked
  wf_ins   : ∀ t sid, (s.thr t).pc = .ins sid → (s.thr t).snap = none ∧ isPkt (s.thr t).prog
  wf_start : ∀ t, (s.thr t).pc = .start → (s.thr t).snap = none
  wf_snap  : ∀ t l, (s.thr t).snap = some l → isFlush (s.thr t).prog
  wf_ptr   : ∀ t c, (s.thr t).pc.ptr = some c → (s.thr t).snap = none → isPkt (s.thr t).prog

@[simp] theorem setThr_thr (s : State) (t : Tid) (th : Thread) (t' : Tid) :
    (setThr s t th).thr t' = if t' = t then th else s.thr t' := rfl
@[simp] theorem setThr_obj (s : State) (t : Tid) (th : Thread) : (setThr s t th).obj = s.obj := rfl
@[simp] theorem setThr_conns (s : State) (t : Tid) (th : Thread) : (setThr s t th).conns = s.conns := rfl
@[simp] theorem setThr_free (s : State) (t : Tid) (th : Thread) : (setThr s t th).free = s.free := rfl
@[simp] theorem setThr_nextC (s : State) (t : Tid) (th : Thread) : (setThr s t th).nextC = s.nextC := rfl
@[simp] theorem setThr_nextS (s : State) (t : Tid) (th : Thread) : (setThr s t th).nextS = s.nextS := rfl
@[simp] theorem setThr_skey (s : State) (t : Tid) (th : Thread) : (setThr s t th).skey = s.skey := rfl
@[simp] theorem setThr_kept (s : State) (t : Tid) (th : Thread) : (setThr s t th).kept = s.kept := rfl
@[simp] theorem setThr_log (s : State) (t : Tid) (th : Thread) : (setThr s t th).log = s.log := rfl

@[simp] theorem setObj_obj (s : State) (c : CId) (o : Conn) (c' : CId) :
    (setObj s c o).obj c' = if c' = c then o else s.obj c' := rfl
@[simp] theorem setObj_thr (s : State) (c : CId) (o : Conn) : (setObj s c o).thr = s.thr := rfl
@[simp] theorem setObj_conns (s : State) (c : CId) (o : Conn) : (setObj s c o).conns = s.conns := rfl
@[simp] theorem setObj_free (s : State) (c : CId) (o : Conn) : (setObj s c o).free = s.free := rfl
@[simp] theorem setObj_nextC (s : State) (c : CId) (o : Conn) : (setObj s c o).nextC = s.nextC := rfl
@[simp] theorem setObj_nextS (s : State) (c : CId) (o : Conn) : (setObj s c o).nextS = s.nextS := rfl
@[simp] theorem setObj_skey (s : State) (c : CId) (o : Conn) : (setObj s c o).skey = s.skey := rfl
@[simp] theorem setObj_kept (s : State) (c : CId) (o : Conn) : (setObj s c o).kept = s.kept := rfl
@[simp] theorem setObj_log (s : State) (c : CId) (o : Conn) : (setObj s c o).log = s.log := rfl

@[simp] theorem addLog_thr (s : State) (e : Ev) : (addLog s e).thr = s.thr := rfl
@[simp] theorem addLog_obj (s : State) (e : Ev) : (addLog s e).obj = s.obj := rfl
@[simp] theorem addLog_conns (s : State) (e : Ev) : (addLog s e).conns = s.conns := rfl
@[simp] theorem addLog_free (s : State) (e : Ev) : (addLog s e).free = s.free := rfl
@[simp] theorem addLog_nextC (s : State) (e : Ev) : (addLog s e).nextC = s.nextC := rfl
@[simp] theorem addLog_nextS (s : State) (e : Ev) : (addLog s e).nextS = s.nextS := rfl
@[simp] theorem addLog_skey (s : State) (e : Ev) : (addLog s e).skey = s.skey := rfl
@[simp] theorem addLog_kept (s : State) (e : Ev) : (addLog s e).kept = s.kept := rfl
@[simp] theorem addLog_log (s : State) (e : Ev) : (addLog s e).log = e :: s.log := rfl

theorem invA_init (progs : Tid → List Op) : InvA (init progs) := by
  constructor <;> simp [init]


def ThreadWF (th : Thread) : Prop :=
  (∀ sid, th.pc = .ins sid → th.snap = none ∧ isPkt th.prog) ∧ (th.pc = .start → th.snap = none) ∧
  (∀ l, th.snap = some l → isFlush th.prog) ∧ (∀ c, th.pc.ptr = some c → th.snap = none → isPkt th.prog)

/-- How one step may change row `c` of the mutex table together with thread `t`. -/
def MuRel (s s' : State) (t : Tid) (c : CId) : Prop :=
    ((s'.obj c).mu = (s.obj c).mu ∧ (s'.thr t).pc.holds = (s.thr t).pc.holds)
  ∨ ((s.obj c).mu = none ∧ (s.thr t).pc.holds = none ∧ (s'.obj c).mu = some t ∧ (s'.thr t).pc.holds = some c)
  ∨ ((s.obj c).mu = some t ∧ (s'.obj c).mu = none ∧ (s'.thr t).pc.holds = none)

/-- Frame rule for InvA: a step changes one thread `t` and at most one object `c`. -/
theorem InvA.frame {s s' : State} (h : InvA s) (t : Tid) (c : CId)
    (hthr : ∀ t', t' ≠ t → s'.thr t' = s.thr t')
    (hobj : ∀ c', c' ≠ c → s'.obj c' = s.obj c')
    (hnc : s.nextC ≤ s'.nextC)
    (hnew : ∀ c', s.nextC ≤ c' → c' < s'.nextC → c' = c)
    (hmap : ∀ k c', (k, c') ∈ s'.conns → (k, c') ∈ s.conns ∨ c' < s'.nextC)
    (hfree : ∀ c', c' ∈ s'.free → c' ∈ s.free ∨ c' < s'.nextC)
    (hinit : c < s'.nextC → (s'.obj c).stream ≠ none)
    (hmu : MuRel s s' t c)
    (hptr : ∀ c', (s'.thr t).pc.ptr = some c' → c' < s'.nextC)
    (hsnap : ∀ l c', (s'.thr t).snap = some l → c' ∈ l → c' < s'.nextC)
    (hnp : (s'.thr t).pc ≠ .panicked)
    (hwf : ThreadWF (s'.thr t)) : InvA s' := by
  have holdsOld : ∀ c', (s.obj c').mu = some t ↔ (s.thr t).pc.holds = some c' := fun c' => h.mu_iff c' t
  constructor
  · intro c' t'
    by_cases ec : c' = c
    · subst ec
      by_cases et : t' = t
      · subst et
        rcases hmu with ⟨h1, h2⟩ | ⟨h1, h2, h3, h4⟩ | ⟨h1, h2, h3⟩
        · rw [h1, h2]; exact h.mu_iff _ _
        · simp [h3, h4]
        · simp [h2, h3]
      · rw [hthr t' et]
        rcases hmu with ⟨h1, _⟩ | ⟨h1, h2, h3, h4⟩ | ⟨h1, h2, h3⟩
        · rw [h1]; exact h.mu_iff _ _
        · rw [h3]
          constructor
          · intro e; cases e; exact absurd rfl et
          · intro e; have := (h.mu_iff c' t').2 e; rw [h1] at this; cases this
        · rw [h2]
          constructor
          · intro e; cases e
          · intro e; have := (h.mu_iff c' t').2 e; rw [h1] at this; cases this; exact absurd rfl et
    · rw [hobj c' ec]
      by_cases et : t' = t
      · subst et
        rcases hmu with ⟨_, h2⟩ | ⟨h1, h2, h3, h4⟩ | ⟨h1, h2, h3⟩
        · rw [h2]; exact h.mu_iff _ _
        · rw [h4]
          constructor
          · intro e; have := (h.mu_iff c' t').1 e; rw [h2] at this; cases this
          · intro e; cases e; exact absurd rfl ec
        · rw [h3]
          constructor
          · intro e
            have h5 := (h.mu_iff c' t').1 e
            have h6 := (h.mu_iff c t').1 h1
            rw [h6] at h5; cases h5; exact absurd rfl ec
          · intro e; cases e
      · rw [hthr t' et]; exact h.mu_iff _ _
  · intro t' c' hp
    by_cases et : t' = t
    · subst et; exact hptr c' hp
    · rw [hthr t' et] at hp; exact Nat.lt_of_lt_of_le (h.ptr_lt t' c' hp) hnc
  · intro t' l c' hs hm
    by_cases et : t' = t
    · subst et; exact hsnap l c' hs hm
    · rw [hthr t' et] at hs; exact Nat.lt_of_lt_of_le (h.snap_lt t' l c' hs hm) hnc
  · intro k c' hm
    rcases hmap k c' hm with h1 | h1
    · exact Nat.lt_of_lt_of_le (h.map_lt k c' h1) hnc
    · exact h1
  · intro c' hm
    rcases hfree c' hm with h1 | h1
    · exact Nat.lt_of_lt_of_le (h.free_lt c' h1) hnc
    · exact h1
  · intro c' hlt
    by_cases ec : c' = c
    · subst ec; exact hinit hlt
    · rw [hobj c' ec]
      by_cases hl : c' < s.nextC
      · exact h.inited c' hl
      · exact absurd (hnew c' (Nat.le_of_not_lt hl) hlt) ec
  · intro t'
    by_cases et : t' = t
    · subst et; exact hnp
    · rw [hthr t' et]; exact h.no_panic t'
  · intro t' sid
    by_cases et : t' = t
    · subst et; exact hwf.1 sid
    · rw [hthr t' et]; exact h.wf_ins t' sid
  · intro t'
    by_cases et : t' = t
    · subst et; exact hwf.2.1
    · rw [hthr t' et]; exact h.wf_start t'
  · intro t' l
    by_cases et : t' = t
    · subst et; exact hwf.2.2.1 l
    · rw [hthr t' et]; exact h.wf_snap t' l
  · intro t' c'
    by_cases et : t' = t
    · subst et; exact hwf.2.2.2 c'
    · rw [hthr t' et]; exact h.wf_ptr t' c'


/-- closes the routine side conditions of `InvA.frame` -/
macro "side_a" : tactic =>
  `(tactic| first
    | omega
    | assumption
    | (intros; simp_all [MuRel, ThreadWF, isPkt, isFlush, finishOp]; done)
    | (intros; simp_all [MuRel, ThreadWF, isPkt, isFlush, finishOp]; omega))

theorem invA_thr {s : State} (h : InvA s) (t : Tid) (th : Thread)
    (hh : th.pc.holds = (s.thr t).pc.holds)
    (hptr : ∀ c', th.pc.ptr = some c' → c' < s.nextC)
    (hsnap : ∀ l c', th.snap = some l → c' ∈ l → c' < s.nextC)
    (hnp : th.pc ≠ .panicked) (hwf : ThreadWF th) : InvA (setThr s t th) := by
  apply h.frame t s.nextC
  · intro t' e; simp [e]
  · intro c' _; rfl
  · exact Nat.le_refl _
  · intro c' h1 h2; exact absurd h2 (Nat.not_lt.2 h1)
  · intro k c' hm; exact Or.inl hm
  · intro c' hm; exact Or.inl hm
  · intro hl; exact absurd hl (Nat.lt_irrefl _)
  · left; simp [hh]
  · simpa using hptr
  · simpa using hsnap
  · simpa using hnp
  · simpa using hwf

theorem invA_finishOp {s : State} (h : InvA s) (t : Tid) (hh : (s.thr t).pc.holds = none) : InvA (finishOp s t) := by
  unfold finishOp
  apply invA_thr h t
  · rw [hh]; rfl
  all_goals simp [ThreadWF, isPkt, isFlush]

theorem vals_lt {s : State} (h : InvA s) {c : CId} (hc : c ∈ s.conns.vals) : c < s.nextC := by
  obtain ⟨k, hk⟩ := KMap.mem_vals hc
  exact h.map_lt k c hk

/-- `advance` applied after a step that changed object `c` (to `o`), possibly the map and the free list. -/
theorem invA_advance {s s1 : State} (h : InvA s) (t : Tid) (c : CId)
    (hthr : s1.thr = s.thr)
    (hobj : ∀ c', c' ≠ c → s1.obj c' = s.obj c')
    (hnc : s1.nextC = s.nextC)
    (hmap : ∀ k c', (k, c') ∈ s1.conns → (k, c') ∈ s.conns ∨ c' < s.nextC)
    (hfree : ∀ c', c' ∈ s1.free → c' ∈ s.free ∨ c' < s.nextC)
    (hinit : c < s.nextC → (s1.obj c).stream ≠ none)
    (hmu : ((s1.obj c).mu = (s.obj c).mu ∧ (s.thr t).pc.holds = none) ∨ ((s.obj c).mu = some t ∧ (s1.obj c).mu = none))
    (hwf : ∀ l, (s.thr t).snap = some l → isFlush (s.thr t).prog) : InvA (advance s1 t) := by
  have hsn := h.snap_lt t
  unfold advance
  rw [hthr]
  dsimp only
  split
  · next c2 rest hsnap =>
    apply h.frame t c
    · intro t' e; simp [e, hthr]
    · intro c' e; simpa using hobj c' e
    · simp [hnc]
    · intro c' h1 h2; simp [hnc] at h2; omega
    · simpa [hnc] using hmap
    · simpa [hnc] using hfree
    · simpa [hnc] using hinit
    · rcases hmu with ⟨h1, h2⟩ | ⟨h1, h2⟩
      · left; simp [h1, h2]
      · right; right; simp [h1, h2]
    · intro c'; simp only [setThr_thr, if_true, ptr_lock, setThr_nextC, hnc]
      intro e; cases e; exact hsn _ c2 hsnap (by simp)
    · intro l c'; simp only [setThr_thr, if_true, setThr_nextC, hnc]
      intro e hm; cases e; exact hsn _ c' hsnap (by simp [hm])
    · simp
    · have := hwf _ hsnap
      simp [ThreadWF, this]
  · apply h.frame t c
    · intro t' e; simp [finishOp, e, hthr]
    · intro c' e; simpa [finishOp] using hobj c' e
    · simp [finishOp, hnc]
    · intro c' h1 h2; simp [finishOp, hnc] at h2; omega
    · simpa [finishOp, hnc] using hmap
    · simpa [finishOp, hnc] using hfree
    · simpa [finishOp, hnc] using hinit
    · rcases hmu with ⟨h1, h2⟩ | ⟨h1, h2⟩
      · left; simp [finishOp, h1, h2]
      · right; right; simp [finishOp, h1, h2]
    · simp [finishOp]
    · simp [finishOp]
    · simp [finishOp]
    · simp [finishOp, ThreadWF]


macro "fr_side" : tactic =>
  `(tactic| first
    | (simp; done)
    | (intros; simp_all [MuRel, ThreadWF, isPkt, isFlush]; done)
    | (intros; simp at *; omega))


theorem getHalf_mem {m : KMap} {k : Key} {c : CId} {hb : Bool} (h : getHalf m k = some (c, hb)) : ∃ k', (k', c) ∈ m := by
  unfold getHalf at h
  split at h
  · next c' hg => cases h; exact ⟨k, KMap.mem_of_get hg⟩
  · split at h
    · next c' hg => cases h; exact ⟨k.rev, KMap.mem_of_get hg⟩
    · cases h

theorem invA_stepStart {s s' : State} {t : Tid} (h : InvA s) (hpc : (s.thr t).pc = .start)
    (hs : stepStart s t = some s') : InvA s' := by
  have hh : (s.thr t).pc.holds = none := by simp [hpc]
  have hsn := h.wf_start t hpc
  unfold stepStart at hs
  dsimp only at hs
  cases hp : (s.thr t).prog with
  | nil => simp [hp] at hs
  | cons op rest =>
    cases op with
    | flush =>
      simp only [hp] at hs
      cases hv : s.conns.vals with
      | nil => simp only [hv] at hs; cases hs; exact invA_finishOp h t hh
      | cons c r =>
        simp only [hv] at hs; cases hs
        apply invA_thr h t
        · simp [hh]
        · intro c' e; simp at e; subst e; exact vals_lt h (by simp [hv])
        · intro l c' e hm; simp at e; subst e; exact vals_lt h (by simp [hv, hm])
        · simp
        · simp [ThreadWF, isFlush]
    | flushold T ca =>
      simp only [hp] at hs
      cases hv : s.conns.vals with
      | nil => simp only [hv] at hs; cases hs; exact invA_finishOp h t hh
      | cons c r =>
        simp only [hv] at hs; cases hs
        apply invA_thr h t
        · simp [hh]
        · intro c' e; simp at e; subst e; exact vals_lt h (by simp [hv])
        · intro l c' e hm; simp at e; subst e; exact vals_lt h (by simp [hv, hm])
        · simp
        · simp [ThreadWF, isFlush]
    | pkt k kind =>
      simp only [hp] at hs
      cases hg : getHalf s.conns k with
      | some ch =>
        obtain ⟨c, hb⟩ := ch
        simp only [hg] at hs; cases hs
        obtain ⟨k', hk'⟩ := getHalf_mem hg
        apply invA_thr h t
        · simp [hh]
        · intro c' e; simp at e; subst e; exact h.map_lt k' _ hk'
        · simp [hsn]
        · simp
        · simp [ThreadWF, isPkt, hsn]
      | none =>
        simp only [hg] at hs
        cases hs
        apply h.frame t s.nextC <;> fr_side

theorem invA_stepIns {s s' : State} {t : Tid} {sid : SId} (h : InvA s) (hpc : (s.thr t).pc = .ins sid)
    (hs : stepIns true s t sid = some s') : InvA s' := by
  have hh : (s.thr t).pc.holds = none := by simp [hpc]
  obtain ⟨hsn, hpk⟩ := h.wf_ins t sid hpc
  unfold stepIns at hs
  dsimp only at hs
  cases hp : (s.thr t).prog with
  | nil => simp [hp, isPkt] at hpk
  | cons op rest =>
    cases op with
    | flush => simp [hp, isPkt] at hpk
    | flushold T ca => simp [hp, isPkt] at hpk
    | pkt k kind =>
      simp only [hp] at hs
      cases hf : s.free with
      | nil =>
        simp only [hf] at hs
        cases hg : getHalf s.conns k with
        | some ch =>
          obtain ⟨c2, h2⟩ := ch
          simp only [setObj_conns, hg, Bool.not_true, Bool.false_and, Bool.false_eq_true, if_false] at hs; cases hs
          obtain ⟨k', hk'⟩ := getHalf_mem hg
          have hlt := h.map_lt k' c2 hk'
          apply h.frame t s.nextC <;> try fr_side
          · intro c' e; simp at e; subst e; exact Nat.lt_succ_of_lt hlt
        | none =>
          simp only [setObj_conns, hg] at hs; cases hs
          apply h.frame t s.nextC <;> try fr_side
          · intro k' c' hm; simp at hm
            rcases KMap.mem_set hm with e | e
            · cases e; right; simp
            · left; exact e
      | cons c f =>
        simp only [hf] at hs
        have hc : c < s.nextC := h.free_lt c (by simp [hf])
        have hfs : ∀ c', c' ∈ f → c' ∈ s.free := by intro c' hm; simp [hf, hm]
        cases hg : getHalf s.conns k with
        | some ch =>
          obtain ⟨c2, h2⟩ := ch
          simp only [setObj_conns, hg, Bool.not_true, Bool.false_and, Bool.false_eq_true, if_false] at hs; cases hs
          obtain ⟨k', hk'⟩ := getHalf_mem hg
          have hlt := h.map_lt k' c2 hk'
          apply h.frame t c <;> fr_side
        | none =>
          simp only [setObj_conns, hg] at hs; cases hs
          apply h.frame t c <;> try fr_side
          · intro k' c' hm; simp at hm
            rcases KMap.mem_set hm with e | e
            · cases e; right; simpa using hc
            · left; exact e

/-- closeHalfConnection continuation inside AssembleWithContext, from an intermediate state `s1` in
    which `t` owns `c.mu`. -/
theorem invA_afterCloseHalf {s s1 : State} (h : InvA s) (t : Tid) (c : CId)
    (hc : c < s.nextC)
    (hthr : s1.thr = s.thr)
    (hobj : ∀ c', c' ≠ c → s1.obj c' = s.obj c')
    (hnc : s1.nextC = s.nextC) (hcn : s1.conns = s.conns) (hfr : s1.free = s.free)
    (hmu1 : (s1.obj c).mu = some t) (hst : (s1.obj c).stream = (s.obj c).stream)
    (hcase : ((s.obj c).mu = none ∧ (s.thr t).pc.holds = none) ∨ (s.obj c).mu = some t)
    (hptr : (s.thr t).pc.ptr = some c) : InvA (afterCloseHalf s1 t c) := by
  have hinit := h.inited c hc
  have hholds : (s.obj c).mu = some t → (s.thr t).pc.holds = some c := (h.mu_iff c t).1
  have hwp := h.wf_ptr t c hptr
  have hws := h.wf_snap t
  have hsl := h.snap_lt t
  unfold afterCloseHalf
  dsimp only
  split
  · cases hst2 : (s1.obj c).stream with
    | none => rw [hst] at hst2; exact absurd hst2 hinit
    | some sid =>
      dsimp only
      apply h.frame t c
      · intro t' e; simp [e, hthr]
      · intro c' e; simpa using hobj c' e
      · simp [hnc]
      · intro c' h1 h2; simp [hnc] at h2; omega
      · intro k c' hm; left; simpa [hcn] using hm
      · intro c' hm; left; simpa [hfr] using hm
      · intro _; simp [hst, hinit]
      · rcases hcase with ⟨h1, h2⟩ | h1
        · right; left; simp [h1, h2, hmu1]
        · left; simp [h1, hmu1, hholds h1]
      · intro c' e; simp at e; subst e; simpa [hnc] using hc
      · intro l c' e hm; simp [hthr] at e; simpa [hnc] using hsl l c' e hm
      · simp
      · simp only [setThr_thr, if_true, ThreadWF, addLog_thr, hthr]
        refine ⟨by simp, by simp, hws, ?_⟩
        intro c' _; exact hwp
  · apply invA_advance h t c
    · simp [hthr]
    · intro c' e; simpa [e] using hobj c' e
    · simp [hnc]
    · intro k c' hm; left; simpa [hcn] using hm
    · intro c' hm; left; simpa [hfr] using hm
    · intro _; simp [hst, hinit]
    · rcases hcase with ⟨h1, h2⟩ | h1
      · left; simp [h1, h2]
      · right; simp [h1]
    · exact hws

/-- End of a Flush* visit of `c`, from an intermediate state `s1` in which `t` owns `c.mu`. -/
theorem invA_flushEnd {s s1 : State} (h : InvA s) (t : Tid) (c : CId)
    (hc : c < s.nextC)
    (hthr : s1.thr = s.thr)
    (hobj : ∀ c', c' ≠ c → s1.obj c' = s.obj c')
    (hnc : s1.nextC = s.nextC)
    (hmap : ∀ k c', (k, c') ∈ s1.conns → (k, c') ∈ s.conns ∨ c' < s.nextC)
    (hfree : ∀ c', c' ∈ s1.free → c' ∈ s.free ∨ c' < s.nextC)
    (hst : (s1.obj c).stream ≠ none)
    (hcase : ((s.obj c).mu = none ∧ (s.thr t).pc.holds = none) ∨ (s.obj c).mu = some t)
    (hsn : ∃ l, (s.thr t).snap = some l) : InvA (flushEnd s1 t c) := by
  have hholds : (s.obj c).mu = some t → (s.thr t).pc.holds = some c := (h.mu_iff c t).1
  have hws := h.wf_snap t
  have hsl := h.snap_lt t
  have hadv : InvA (advance (setObj s1 c { s1.obj c with mu := none }) t) := by
    apply invA_advance h t c
    · simp [hthr]
    · intro c' e; simpa [e] using hobj c' e
    · simp [hnc]
    · simpa using hmap
    · simpa using hfree
    · intro _; simpa using hst
    · rcases hcase with ⟨h1, h2⟩ | h1
      · left; simp [h1, h2]
      · right; simp [h1]
    · exact hws
  unfold flushEnd
  dsimp only
  split
  · exact hadv
  · split
    · obtain ⟨l, hl⟩ := hsn
      apply h.frame t c
      · intro t' e; simp [e, hthr]
      · intro c' e; simpa [e] using hobj c' e
      · simp [hnc]
      · intro c' h1 h2; simp [hnc] at h2; omega
      · simpa [hnc] using hmap
      · simpa [hnc] using hfree
      · intro _; simpa using hst
      · rcases hcase with ⟨h1, h2⟩ | h1
        · left; simp [h1, h2]
        · right; right; simp [h1]
      · intro c' e; simp at e; subst e; simpa [hnc] using hc
      · intro l' c' e hm; simp [hthr] at e; simpa [hnc] using hsl l' c' e hm
      · simp
      · simp only [setThr_thr, if_true, ThreadWF, hthr]
        refine ⟨by simp, by simp, hws, ?_⟩
        intro c' _ e; simp [hl] at e
    · exact hadv

theorem closeHalf_mu (o : Conn) (hb : Bool) : (o.closeHalf hb).mu = o.mu := by
  unfold Conn.closeHalf; split <;> rfl
theorem closeHalf_stream (o : Conn) (hb : Bool) : (o.closeHalf hb).stream = o.stream := by
  unfold Conn.closeHalf; split <;> rfl
theorem closeHalf_key (o : Conn) (hb : Bool) : (o.closeHalf hb).key = o.key := by
  unfold Conn.closeHalf; split <;> rfl
theorem setQ_mu (o : Conn) (hb : Bool) (q : Option Nat) : (o.setQ hb q).mu = o.mu := by
  unfold Conn.setQ; split <;> rfl
theorem setQ_stream (o : Conn) (hb : Bool) (q : Option Nat) : (o.setQ hb q).stream = o.stream := by
  unfold Conn.setQ; split <;> rfl
theorem setQ_key (o : Conn) (hb : Bool) (q : Option Nat) : (o.setQ hb q).key = o.key := by
  unfold Conn.setQ; split <;> rfl
theorem see_mu (o : Conn) (hb : Bool) (ts : Nat) : (o.see hb ts).mu = o.mu := by
  unfold Conn.see; split <;> rfl
theorem see_stream (o : Conn) (hb : Bool) (ts : Nat) : (o.see hb ts).stream = o.stream := by
  unfold Conn.see; split <;> rfl
theorem see_key (o : Conn) (hb : Bool) (ts : Nat) : (o.see hb ts).key = o.key := by
  unfold Conn.see; split <;> rfl

/-- A step of a Flush* visit that leaves `t` inside the critical section of `c` (at `cb` or `rm`),
    from an intermediate state `s1` in which `t` owns `c.mu`; `o'` is the new value of the object. -/
theorem invA_flushStay {s s1 : State} (h : InvA s) (t : Tid) (c : CId) (o' : Conn) (e : Ev) (pc' : PC)
    (hc : c < s.nextC)
    (hthr : s1.thr = s.thr)
    (hobj : ∀ c', c' ≠ c → s1.obj c' = s.obj c')
    (hnc : s1.nextC = s.nextC)
    (hmap : ∀ k c', (k, c') ∈ s1.conns → (k, c') ∈ s.conns ∨ c' < s.nextC)
    (hfree : ∀ c', c' ∈ s1.free → c' ∈ s.free ∨ c' < s.nextC)
    (hmu' : o'.mu = some t) (hst' : o'.stream ≠ none)
    (hcase : ((s.obj c).mu = none ∧ (s.thr t).pc.holds = none) ∨ (s.obj c).mu = some t)
    (hsn : ∃ l, (s.thr t).snap = some l)
    (hpc' : pc'.holds = some c ∧ pc'.ptr = some c ∧ pc' ≠ .panicked ∧ (∀ sid, pc' ≠ .ins sid) ∧ pc' ≠ .start) :
    InvA (setThr (addLog (setObj s1 c o') e) t { s1.thr t with pc := pc' }) := by
  have hholds : (s.obj c).mu = some t → (s.thr t).pc.holds = some c := (h.mu_iff c t).1
  have hws := h.wf_snap t
  have hsl := h.snap_lt t
  obtain ⟨l, hl⟩ := hsn
  obtain ⟨p1, p2, p3, p4, p5⟩ := hpc'
  apply h.frame t c
  · intro t' e; simp [e, hthr]
  · intro c' e; simpa [e] using hobj c' e
  · simp [hnc]
  · intro c' h1 h2; simp [hnc] at h2; omega
  · simpa [hnc] using hmap
  · simpa [hnc] using hfree
  · intro _; simpa using hst'
  · rcases hcase with ⟨h1, h2⟩ | h1
    · right; left; simp [h1, h2, hmu', p1]
    · left; simp [h1, hmu', hholds h1, p1]
  · intro c' e; simp [p2] at e; subst e; simpa [hnc] using hc
  · intro l' c' e hm; simp [hthr] at e; simpa [hnc] using hsl l' c' e hm
  · simpa using p3
  · simp only [setThr_thr, if_true, ThreadWF, hthr]
    refine ⟨fun sid e => absurd e (p4 sid), fun e => absurd e p5, hws, ?_⟩
    intro c' _ e; simp [hl] at e

/-- The loop of a Flush* visit over the halves `hs`, from an intermediate state `s1` in which `t` owns `c.mu`. -/
theorem invA_flushHalves {s : State} (h : InvA s) (t : Tid) (c : CId) (hs : List Bool) :
    ∀ (s1 : State),
    c < s.nextC →
    s1.thr = s.thr →
    (∀ c', c' ≠ c → s1.obj c' = s.obj c') →
    s1.nextC = s.nextC →
    (∀ k c', (k, c') ∈ s1.conns → (k, c') ∈ s.conns ∨ c' < s.nextC) →
    (∀ c', c' ∈ s1.free → c' ∈ s.free ∨ c' < s.nextC) →
    (s1.obj c).mu = some t → (s1.obj c).stream ≠ none →
    (((s.obj c).mu = none ∧ (s.thr t).pc.holds = none) ∨ (s.obj c).mu = some t) →
    (∃ l, (s.thr t).snap = some l) → InvA (flushHalves s1 t c hs) := by
  induction hs with
  | nil =>
    intro s1 hc hthr hobj hnc hmap hfree hmu1 hst hcase hsn
    exact invA_flushEnd h t c hc hthr hobj hnc hmap hfree hst hcase hsn
  | cons hb hs ih =>
    intro s1 hc hthr hobj hnc hmap hfree hmu1 hst hcase hsn
    unfold flushHalves
    dsimp only
    split
    · exact ih s1 hc hthr hobj hnc hmap hfree hmu1 hst hcase hsn
    · split
      · -- deliver
        cases hst2 : (s1.obj c).stream with
        | none => exact absurd hst2 hst
        | some sid =>
          dsimp only
          apply invA_flushStay h t c _ _ _ hc hthr hobj hnc hmap hfree _ _ hcase hsn
          · simp
          · rw [setQ_mu]; exact hmu1
          · rw [setQ_stream]; exact hst
      · split
        · -- closeHalfConnection
          split
          · cases hst2 : (s1.obj c).stream with
            | none => exact absurd hst2 hst
            | some sid =>
              dsimp only
              apply invA_flushStay h t c _ _ _ hc hthr hobj hnc hmap hfree _ _ hcase hsn
              · simp
              · rw [closeHalf_mu]; exact hmu1
              · rw [closeHalf_stream]; exact hst
          · apply ih (setObj s1 c ((s1.obj c).closeHalf hb)) hc
            · simpa using hthr
            · intro c' e; simpa [e] using hobj c' e
            · simpa using hnc
            · simpa using hmap
            · simpa using hfree
            · simp [closeHalf_mu, hmu1]
            · simp [closeHalf_stream, hst]
            · exact hcase
            · exact hsn
        · exact ih s1 hc hthr hobj hnc hmap hfree hmu1 hst hcase hsn

theorem invA_stepLock {s s' : State} {t : Tid} {c : CId} {hb : Bool} (h : InvA s) (hpc : (s.thr t).pc = .lock c hb)
    (hs : stepLock s t c hb = some s') : InvA s' := by
  have hh : (s.thr t).pc.holds = none := by simp [hpc]
  have hc : c < s.nextC := h.ptr_lt t c (by simp [hpc])
  have hst := h.inited c hc
  have hsl := h.snap_lt t
  unfold stepLock at hs
  dsimp only at hs
  split at hs
  · cases hs
  · next hmu0 =>
    have hmu : (s.obj c).mu = none := by
      cases hm : (s.obj c).mu with
      | none => rfl
      | some x => simp [hm] at hmu0
    cases hsn : (s.thr t).snap with
    | some l =>
      simp only [hsn] at hs
      cases hs
      apply invA_flushHalves h t c [true, false] _ hc
      · rfl
      · intro c' e; simp [e]
      · rfl
      · intro _ _ hm; exact Or.inl hm
      · intro _ hm; exact Or.inl hm
      · simp
      · simpa using hst
      · left; exact ⟨hmu, hh⟩
      · exact ⟨l, hsn⟩
    | none =>
      have hpk := h.wf_ptr t c (by simp [hpc]) hsn
      simp only [hsn] at hs
      cases hp : (s.thr t).prog with
      | nil => simp [hp, isPkt] at hpk
      | cons op rest =>
        cases op with
        | flush => simp [hp, isPkt] at hpk
        | flushold T ca => simp [hp, isPkt] at hpk
        | pkt k kind =>
          simp only [hp] at hs
          cases hst2 : (s.obj c).stream with
          | none => exact absurd hst2 hst
          | some sid =>
            simp only [hst2] at hs
            split at hs
            · cases hs
              apply invA_advance h t c
              · rfl
              · intro c' e; simp [e]
              · rfl
              · intro _ _ hm; exact Or.inl hm
              · intro _ hm; exact Or.inl hm
              · intro _; simp [see_stream, hst]
              · left; exact ⟨by simp [see_mu], hh⟩
              · exact h.wf_snap t
            · split at hs
              · cases hs
                apply invA_advance h t c
                · rfl
                · intro c' e; simp [e]
                · rfl
                · intro _ _ hm; exact Or.inl hm
                · intro _ hm; exact Or.inl hm
                · intro _; simp [setQ_stream, see_stream, hst]
                · left; exact ⟨by simp [setQ_mu, see_mu], hh⟩
                · exact h.wf_snap t
              · cases hs
                apply h.frame t c <;> try fr_side
                · intro _; simp [see_stream, hst]

theorem invA_stepCb {s s' : State} {t : Tid} {c : CId} {hb fin : Bool} (h : InvA s) (hpc : (s.thr t).pc = .cb c hb fin)
    (hs : stepCb s t c hb fin = some s') : InvA s' := by
  have hh : (s.thr t).pc.holds = some c := by simp [hpc]
  have hmu : (s.obj c).mu = some t := (h.mu_iff c t).2 hh
  have hc : c < s.nextC := h.ptr_lt t c (by simp [hpc])
  have hst := h.inited c hc
  unfold stepCb at hs
  dsimp only at hs
  split at hs
  · next hsn0 =>
    have hsn : ∃ l, (s.thr t).snap = some l := by
      cases hq : (s.thr t).snap with
      | none => simp [hq] at hsn0
      | some l => exact ⟨l, rfl⟩
    split at hs
    · cases hst2 : (s.obj c).stream with
      | none => exact absurd hst2 hst
      | some sid =>
        simp only [hst2] at hs; cases hs
        apply invA_flushStay h t c _ _ _ hc rfl (fun _ _ => rfl) rfl (fun _ _ hm => Or.inl hm) (fun _ hm => Or.inl hm) _ _ (Or.inr hmu) hsn
        · simp
        · rw [closeHalf_mu]; exact hmu
        · rw [closeHalf_stream]; exact hst
    · cases hs
      apply invA_flushHalves h t c _ _ hc
      · rfl
      · intro c' e; simp [e]
      · rfl
      · intro _ _ hm; exact Or.inl hm
      · intro _ hm; exact Or.inl hm
      · simp [closeHalf_mu, hmu]
      · simp [closeHalf_stream, hst]
      · right; exact hmu
      · exact hsn
  · split at hs
    · cases hs
      apply invA_afterCloseHalf h t c hc
      · rfl
      · intro c' e; simp [e]
      · rfl
      · rfl
      · rfl
      · simp [closeHalf_mu, hmu]
      · simp [closeHalf_stream]
      · right; exact hmu
      · simp [hpc]
    · cases hs
      apply invA_advance h t c
      · rfl
      · intro c' e; simp [e]
      · rfl
      · intro _ _ hm; exact Or.inl hm
      · intro _ hm; exact Or.inl hm
      · intro _; simpa using hst
      · right; exact ⟨hmu, by simp⟩
      · exact h.wf_snap t

theorem doRemove_thr (s : State) (c : CId) : (doRemove s c).thr = s.thr := by unfold doRemove; split <;> rfl
theorem doRemove_obj (s : State) (c : CId) : (doRemove s c).obj = s.obj := by unfold doRemove; split <;> rfl
theorem doRemove_nextC (s : State) (c : CId) : (doRemove s c).nextC = s.nextC := by unfold doRemove; split <;> rfl
theorem doRemove_nextS (s : State) (c : CId) : (doRemove s c).nextS = s.nextS := by unfold doRemove; split <;> rfl
theorem doRemove_skey (s : State) (c : CId) : (doRemove s c).skey = s.skey := by unfold doRemove; split <;> rfl
theorem doRemove_kept (s : State) (c : CId) : (doRemove s c).kept = s.kept := by unfold doRemove; split <;> rfl
theorem doRemove_log (s : State) (c : CId) : (doRemove s c).log = s.log := by unfold doRemove; split <;> rfl

theorem doRemove_map {s : State} {c : CId} {k : Key} {c' : CId} (hm : (k, c') ∈ (doRemove s c).conns) : (k, c') ∈ s.conns := by
  unfold doRemove at hm
  split at hm
  · exact (KMap.mem_del hm).1
  · exact hm

theorem doRemove_free {s : State} {c : CId} {c' : CId} (hm : c' ∈ (doRemove s c).free) : c' ∈ s.free ∨ c' = c := by
  unfold doRemove at hm
  split at hm
  · simp only [List.mem_cons] at hm
    rcases hm with e | e
    · exact Or.inr e
    · exact Or.inl e
  · exact Or.inl hm

theorem invA_stepRm {s s' : State} {t : Tid} {c : CId} {cont : List Bool} (h : InvA s) (hpc : (s.thr t).pc = .rm c cont)
    (hs : stepRm s t c cont = some s') : InvA s' := by
  have hh : (s.thr t).pc.holds = some c := by simp [hpc]
  have hmu : (s.obj c).mu = some t := (h.mu_iff c t).2 hh
  have hc : c < s.nextC := h.ptr_lt t c (by simp [hpc])
  have hst := h.inited c hc
  have hfree : ∀ c', c' ∈ (doRemove s c).free → c' ∈ s.free ∨ c' < s.nextC := by
    intro c' hm
    rcases doRemove_free hm with e | e
    · exact Or.inl e
    · right; rw [e]; exact hc
  unfold stepRm at hs
  dsimp only at hs
  split at hs
  · next hsn0 =>
    have hsn : ∃ l, (s.thr t).snap = some l := by
      cases hq : (s.thr t).snap with
      | none => simp [hq] at hsn0
      | some l => exact ⟨l, rfl⟩
    cases hs
    apply invA_flushHalves h t c _ _ hc
    · exact doRemove_thr s c
    · intro c' _; rw [doRemove_obj]
    · exact doRemove_nextC s c
    · intro k c' hm; exact Or.inl (doRemove_map hm)
    · exact hfree
    · rw [doRemove_obj]; exact hmu
    · rw [doRemove_obj]; exact hst
    · right; exact hmu
    · exact hsn
  · cases hs
    apply invA_advance h t c
    · simp [doRemove_thr]
    · intro c' e; simp [e, doRemove_obj]
    · simp [doRemove_nextC]
    · intro k c' hm; exact Or.inl (doRemove_map (by simpa using hm))
    · intro c' hm; exact hfree c' (by simpa using hm)
    · intro _; simpa [doRemove_obj] using hst
    · right; exact ⟨hmu, by simp⟩
    · exact h.wf_snap t

theorem invA_stepRm2 {s s' : State} {t : Tid} {c : CId} (h : InvA s) (hpc : (s.thr t).pc = .rm2 c)
    (hs : stepRm2 s t c = some s') : InvA s' := by
  have hh : (s.thr t).pc.holds = none := by simp [hpc]
  have hc : c < s.nextC := h.ptr_lt t c (by simp [hpc])
  have hst := h.inited c hc
  unfold stepRm2 at hs
  cases hs
  apply invA_advance h t c
  · exact doRemove_thr s c
  · intro c' _; rw [doRemove_obj]
  · exact doRemove_nextC s c
  · intro k c' hm; exact Or.inl (doRemove_map hm)
  · intro c' hm
    rcases doRemove_free hm with e | e
    · exact Or.inl e
    · right; rw [e]; exact hc
  · intro _; rw [doRemove_obj]; exact hst
  · left; exact ⟨by rw [doRemove_obj], hh⟩
  · exact h.wf_snap t

theorem invA_step {s s' : State} {t : Tid} (h : InvA s) (hs : step true s t = some s') : InvA s' := by
  unfold step at hs
  split at hs
  · next hpc => exact invA_stepStart h hpc hs
  · next sid hpc => exact invA_stepIns h hpc hs
  · next c hb hpc => exact invA_stepLock h hpc hs
  · next c hb fin hpc => exact invA_stepCb h hpc hs
  · next c cont hpc => exact invA_stepRm h hpc hs
  · next c hpc => exact invA_stepRm2 h hpc hs
  · cases hs

/-- InvA holds in every reachable state of the FIXED reassembly pool (proposed_fixes/pool-1). -/
theorem invA_reachable (progs : Tid → List Op) : ∀ s, (sys true progs).Reachable s → InvA s :=
  Sys.invariant (S := sys true progs) InvA (invA_init progs) (fun _ _ _ h hs => invA_step h hs)

/-! ### The map: changes only by `set` (on a key absent in BOTH directions) and `del` -/

theorem advance_conns (s : State) (t : Tid) : (advance s t).conns = s.conns := by
  unfold advance; dsimp only; split <;> rfl

theorem flushEnd_conns (s : State) (t : Tid) (c : CId) : (flushEnd s t c).conns = s.conns := by
  unfold flushEnd; dsimp only
  split
  · rw [advance_conns]; rfl
  · split
    · rfl
    · rw [advance_conns]; rfl

theorem flushHalves_conns (t : Tid) (c : CId) (hs : List Bool) : ∀ s : State, (flushHalves s t c hs).conns = s.conns := by
  induction hs with
  | nil => intro s; exact flushEnd_conns s t c
  | cons hb hs ih =>
    intro s
    unfold flushHalves; dsimp only
    split
    · exact ih s
    · split
      · split <;> rfl
      · split
        · split
          · split <;> rfl
          · rw [ih]; rfl
        · exact ih s

theorem afterCloseHalf_conns (s : State) (t : Tid) (c : CId) : (afterCloseHalf s t c).conns = s.conns := by
  unfold afterCloseHalf; dsimp only
  split
  · split <;> rfl
  · rw [advance_conns]; rfl

theorem doRemove_conns (s : State) (c : CId) : (doRemove s c).conns = s.conns ∨ ∃ k, (doRemove s c).conns = s.conns.del k := by
  unfold doRemove
  split
  · right; exact ⟨_, rfl⟩
  · left; rfl

theorem step_conns {fixed : Bool} {s s' : State} {t : Tid} (hs : step fixed s t = some s') :
    s'.conns = s.conns ∨ (∃ k c, getHalf s.conns k = none ∧ s'.conns = s.conns.set k c) ∨ (∃ k, s'.conns = s.conns.del k) := by
  unfold step at hs
  split at hs
  · simp only [stepStart, finishOp] at hs
    repeat' split at hs
    all_goals first
      | (cases hs; done)
      | (cases hs; left; rfl)
  · simp only [stepIns, doPanic] at hs
    repeat' split at hs
    all_goals first
      | (cases hs; done)
      | (cases hs; left; rfl)
      | (cases hs; right; left; refine ⟨_, _, ?_, rfl⟩; first | assumption | simp_all)
  · left
    simp only [stepLock] at hs
    repeat' split at hs
    all_goals first
      | (cases hs; done)
      | (cases hs; rw [flushHalves_conns]; rfl)
      | (cases hs; rw [advance_conns]; rfl)
      | (cases hs; rfl)
  · left
    simp only [stepCb] at hs
    repeat' split at hs
    all_goals first
      | (cases hs; done)
      | (cases hs; rw [flushHalves_conns]; rfl)
      | (cases hs; rw [afterCloseHalf_conns]; rfl)
      | (cases hs; rw [advance_conns]; rfl)
      | (cases hs; rfl)
  · next c cont _ =>
    simp only [stepRm] at hs
    split at hs
    · cases hs
      rw [flushHalves_conns]
      rcases doRemove_conns s c with e | ⟨k, e⟩
      · left; exact e
      · right; right; exact ⟨k, e⟩
    · cases hs
      rw [advance_conns]
      show (doRemove s c).conns = _ ∨ _
      rcases doRemove_conns s c with e | ⟨k, e⟩
      · left; exact e
      · right; right; exact ⟨k, e⟩
  · next c _ =>
    simp only [stepRm2] at hs
    cases hs
    rw [advance_conns]
    rcases doRemove_conns s c with e | ⟨k, e⟩
    · left; exact e
    · right; right; exact ⟨k, e⟩
  · cases hs

theorem keys_nodup_reachable (fixed : Bool) (progs : Tid → List Op) :
    ∀ s, (sys fixed progs).Reachable s → (KMap.keys s.conns).Nodup := by
  apply Sys.invariant (S := sys fixed progs) (fun s => (KMap.keys s.conns).Nodup)
  · simp [sys, init, KMap.keys]
  · intro s t s' h hs
    rcases step_conns hs with e | ⟨k, c, _, e⟩ | ⟨k, e⟩
    · rw [e]; exact h
    · rw [e]; exact KMap.nodup_set k c h
    · rw [e]; exact KMap.nodup_del k h

theorem getHalf_none {m : KMap} {k : Key} (h : getHalf m k = none) : m.get k = none ∧ m.get k.rev = none := by
  unfold getHalf at h
  split at h
  · cases h
  · next h1 =>
    split at h
    · cases h
    · next h2 => exact ⟨h1, h2⟩

/-- One entry per connection: the two directions of a connection are never both keys of the map. -/
def OneDir (m : KMap) : Prop := ∀ k, m.get k ≠ none → m.get k.rev = none

theorem oneDir_reachable (fixed : Bool) (progs : Tid → List Op) :
    ∀ s, (sys fixed progs).Reachable s → OneDir s.conns := by
  apply Sys.invariant (S := sys fixed progs) (fun s => OneDir s.conns)
  · intro k; simp [sys, init, KMap.get]
  · intro s t s' h hs
    rcases step_conns hs with e | ⟨k, c, hg, e⟩ | ⟨k, e⟩
    · rw [e]; exact h
    · rw [e]
      obtain ⟨h1, h2⟩ := getHalf_none hg
      intro k' hk'
      rw [KMap.get_set] at hk' ⊢
      by_cases e1 : k' = k
      · subst e1
        have : ¬ k'.rev = k' := Key.rev_ne k'
        simp [this, h2]
      · simp only [e1, if_false] at hk'
        by_cases e2 : k'.rev = k
        · exfalso
          have : k' = k.rev := by rw [← e2, Key.rev_rev]
          rw [this] at hk'; exact hk' h2
        · simp only [e2, if_false]; exact h k' hk'
    · rw [e]
      intro k' hk'
      rw [KMap.get_del] at hk' ⊢
      by_cases e1 : k' = k
      · simp [e1] at hk'
      · simp only [e1, if_false] at hk'
        by_cases e2 : k'.rev = k
        · simp [e2]
        · simp only [e2, if_false]; exact h k' hk'

/-! ### Enabledness -/

theorem enabled_cb {fixed : Bool} {s : State} {t : Tid} {c : CId} {hb f : Bool} (hpc : (s.thr t).pc = .cb c hb f) :
    step fixed s t ≠ none := by
  simp only [step, hpc, stepCb]; (repeat' split) <;> simp

theorem enabled_rm {fixed : Bool} {s : State} {t : Tid} {c : CId} {cont : List Bool} (hpc : (s.thr t).pc = .rm c cont) :
    step fixed s t ≠ none := by
  simp only [step, hpc, stepRm]; split <;> simp

theorem enabled_rm2 {fixed : Bool} {s : State} {t : Tid} {c : CId} (hpc : (s.thr t).pc = .rm2 c) : step fixed s t ≠ none := by
  simp [step, hpc, stepRm2]

theorem enabled_start {fixed : Bool} {s : State} {t : Tid} (hpc : (s.thr t).pc = .start) (hp : (s.thr t).prog ≠ []) :
    step fixed s t ≠ none := by
  simp only [step, hpc, stepStart]
  cases hq : (s.thr t).prog with
  | nil => exact absurd hq hp
  | cons op rest =>
    cases op with
    | flush => dsimp only; (repeat' split) <;> simp
    | flushold T ca => dsimp only; (repeat' split) <;> simp
    | pkt k kind => dsimp only; (repeat' split) <;> simp

theorem enabled_ins {fixed : Bool} {s : State} {t : Tid} {sid : SId} (h : InvA s) (hpc : (s.thr t).pc = .ins sid) :
    step fixed s t ≠ none := by
  have hpk := (h.wf_ins t sid hpc).2
  simp only [step, hpc, stepIns]
  cases hq : (s.thr t).prog with
  | nil => simp [hq, isPkt] at hpk
  | cons op rest =>
    cases op with
    | flush => simp [hq, isPkt] at hpk
    | flushold T ca => simp [hq, isPkt] at hpk
    | pkt k kind => dsimp only; (repeat' split) <;> simp

theorem enabled_lock {fixed : Bool} {s : State} {t : Tid} {c : CId} {hb : Bool} (h : InvA s) (hpc : (s.thr t).pc = .lock c hb)
    (hmu : (s.obj c).mu = none) : step fixed s t ≠ none := by
  simp only [step, hpc, stepLock, hmu]
  cases hsn : (s.thr t).snap with
  | some l =>
    simp
  | none =>
    have hpk := h.wf_ptr t c (by simp [hpc]) hsn
    cases hq : (s.thr t).prog with
    | nil => simp [hq, isPkt] at hpk
    | cons op rest =>
      cases op with
      | flush => simp [hq, isPkt] at hpk
      | flushold T ca => simp [hq, isPkt] at hpk
      | pkt k kind =>
        dsimp only
        simp only [Option.isSome_none, Bool.false_eq_true, if_false]
        (repeat' split) <;> simp

theorem progress {fixed : Bool} {s : State} (h : InvA s) (t : Tid) (hnd : (s.thr t).done = false) :
    step fixed s t ≠ none ∨ ∃ c hb t', (s.thr t).pc = .lock c hb ∧ (s.obj c).mu = some t' ∧ step fixed s t' ≠ none := by
  cases hpc : (s.thr t).pc with
  | start =>
    left; apply enabled_start hpc
    intro e; simp [Thread.done, hpc, e] at hnd
  | ins sid => left; exact enabled_ins h hpc
  | lock c hb =>
    cases hm : (s.obj c).mu with
    | none => left; exact enabled_lock h hpc hm
    | some t' =>
      right
      refine ⟨c, hb, t', rfl, hm, ?_⟩
      have hh := (h.mu_iff c t').1 hm
      cases hpc' : (s.thr t').pc with
      | cb c' _ f => exact enabled_cb hpc'
      | rm c' _ => exact enabled_rm hpc'
      | rm2 c' => simp [hpc'] at hh
      | start => simp [hpc'] at hh
      | ins _ => simp [hpc'] at hh
      | lock _ _ => simp [hpc'] at hh
      | panicked => simp [hpc'] at hh
  | cb c hb f => left; exact enabled_cb hpc
  | rm c cont => left; exact enabled_rm hpc
  | rm2 c => left; exact enabled_rm2 hpc
  | panicked => exact absurd hpc (h.no_panic t)

/-! ### Stream-level properties (stated on the event log and the ghost `skey`, `kept`) -/

/-- right_stream: every packet delivered (or queued) went to a stream created for its own key (either direction of its connection). -/
def RightStream (s : State) : Prop :=
  (∀ sid t i k n, Ev.deliv sid t i k n ∈ s.log → (s.skey sid = k ∨ s.skey sid = k.rev)) ∧
  (∀ sid t i k, Ev.queue sid t i k ∈ s.log → (s.skey sid = k ∨ s.skey sid = k.rev))

/-- number of ReassemblyComplete calls on stream `sid` so far -/
def ncomp (log : List Ev) (sid : SId) : Nat :=
  (log.filter (fun e => match e with | .complete x _ => x == sid | _ => false)).length

end Gp.Pool.Reasm
