import Gp.Lemmas.ReasmPoolInv
/-
  C11 (reassembly half): the page limit.  With MaxBufferedPagesPerConnection = L > 0 and packets of at
  most one page, a half connection never queues more than L pages (any history, any input, any arithmetic).
-/
set_option linter.unusedSimpArgs false
set_option linter.unusedVariables false
namespace Gp.Reasm
open Gp

theorem splitPages_one (A : Arith) (seq : Int) (bytes : List UInt8) (ts : Int) (fin : Bool)
    (h : bytes.length ≤ pageBytes) : (splitPages A seq bytes ts fin).length = 1 := by
  unfold splitPages
  cases hb : bytes.length with
  | zero => simp [splitPagesAux]
  | succ n =>
    simp only [splitPagesAux]
    have : min bytes.length pageBytes = bytes.length := Nat.min_eq_left h
    rw [this, List.drop_length]
    simp

theorem checkOverlap_qlen (A : Arith) (h : Half) (used : Int) (queue : Bool) (start : Int) (bytes : List UInt8)
    (ts : Int) (fin : Bool) (h' : Half) (used' : Int) (bs : List UInt8)
    (hlen : bytes.length ≤ pageBytes)
    (hc : checkOverlap A h used queue start bytes ts fin = .ok (h', used', bs)) :
    h'.queue.length ≤ h.queue.length + (if queue then 1 else 0) := by
  unfold checkOverlap at hc
  split at hc
  · rename_i r hr
    have hcnt := ovLoop_count A _ _ _ _ _ _ _ hr
    simp only [List.length_reverse, List.length_nil, Nat.add_zero, Nat.zero_add] at hcnt
    -- the packet's bytes are never longer than they were
    have hrb : r.bytes.length ≤ bytes.length := by
      have : ∀ (rev back : List Page) (b : List UInt8) (d : Nat) (r : Ov),
          ovLoop A start (A.add start ↑bytes.length) b rev back d = .ok r → r.bytes.length ≤ b.length := by
        intro rev
        induction rev with
        | nil =>
          intro back b d r h
          simp only [ovLoop, Res.ok.injEq] at h; subst h; exact Nat.le_refl _
        | cons cur rest ih =>
          intro back b d r h
          simp only [ovLoop] at h
          split at h
          · exact ih _ _ _ _ h
          · split at h
            · obtain rfl := Res.ok.inj h; exact Nat.le_refl _
            · split at h
              · exact ih _ _ _ _ h
              · split at h
                · split at h
                  · cases h
                  · obtain rfl := Res.ok.inj h; exact Nat.le_refl _
                · split at h
                  · split at h
                    · cases h
                    · exact ih _ _ _ _ h
                  · split at h
                    · split at h
                      · cases h
                      · have := ih _ _ _ _ h; simp only [List.length_nil] at this; omega
                    · exact ih _ _ _ _ h
      exact this _ _ _ _ _ hr
    split at hc
    · rename_i hq
      simp only [Res.ok.injEq, Prod.mk.injEq] at hc
      obtain ⟨rfl, rfl, rfl⟩ := hc
      have h1 := splitPages_one A start r.bytes ts fin (by omega)
      simp only [hq.2, if_true, List.length_append, h1]
      omega
    · simp only [Res.ok.injEq, Prod.mk.injEq] at hc
      obtain ⟨rfl, rfl, rfl⟩ := hc
      simp only [List.length_append]
      split <;> omega
  · cases hc
  · cases hc

theorem overlapExisting_len (A : Arith) (h : Half) (seq : Int) (bytes bs : List UInt8) (s' : Int)
    (hoe : overlapExisting A h seq bytes = .ok (bs, s')) : bs.length ≤ bytes.length := by
  unfold overlapExisting at hoe
  by_cases h1 : h.nextSeq = invalidSeq
  · rw [if_pos h1] at hoe
    simp only [Res.ok.injEq, Prod.mk.injEq] at hoe
    obtain ⟨rfl, _⟩ := hoe; exact Nat.le_refl _
  · rw [if_neg h1] at hoe
    simp only at hoe
    by_cases h2 : A.diff seq h.nextSeq = 0
    · rw [if_pos h2] at hoe
      simp only [Res.ok.injEq, Prod.mk.injEq] at hoe
      obtain ⟨rfl, _⟩ := hoe; exact Nat.le_refl _
    · rw [if_neg h2] at hoe
      have key : ∀ k : Nat, (bytes.drop k).length ≤ bytes.length := fun k => by
        rw [List.length_drop]; omega
      repeat' split at hoe
      all_goals first
        | (cases hoe; done)
        | (simp only [Res.ok.injEq, Prod.mk.injEq] at hoe
           obtain ⟨rfl, _⟩ := hoe
           exact key _)

theorem handleBytes_qlen (A : Arith) (cfg : Cfg) (h : Half) (used : Int) (queue : Bool) (seq : Int) (bytes : List UInt8)
    (ts : Int) (syn fin : Bool) (h' : Half) (used' : Int) (ret : List Cont) (L : Nat)
    (hL : 0 < L) (hcfg : cfg.maxPer = L) (hbal : Bal h) (hq : h.queue.length ≤ L) (hlen : bytes.length ≤ pageBytes)
    (hb : handleBytes A cfg h used queue seq bytes ts syn fin = .ok (h', used', ret)) :
    h'.queue.length ≤ L := by
  unfold handleBytes at hb
  split at hb
  · split at hb
    · rename_i h1 used1 bs hco
      have hql := checkOverlap_qlen A h used true seq bytes ts fin h1 used1 bs hlen hco
      obtain ⟨hs1, hp1, hu1⟩ := checkOverlap_acct A h used true seq bytes ts fin h1 used1 bs hco
      have hsv : h1.saved = h.saved := by rw [hs1]
      simp only [if_true] at hql
      split at hb
      · unfold addNextFromConn at hb
        cases hq1 : h1.queue with
        | nil =>
          simp only [hq1, Res.ok.injEq, Prod.mk.injEq] at hb
          obtain ⟨rfl, _, _⟩ := hb
          rw [hq1]; simp
        | cons p rest =>
          simp only [hq1, List.nil_append, Res.ok.injEq, Prod.mk.injEq] at hb
          obtain ⟨rfl, _, _⟩ := hb
          rw [hq1] at hql
          simp only [List.length_cons] at hql ⊢
          omega
      · rename_i hlim
        simp only [Res.ok.injEq, Prod.mk.injEq] at hb
        obtain ⟨rfl, _, _⟩ := hb
        -- the limit is not hit: pages < L, and the queue is part of the pages
        have hnot : ¬ (h1.pages ≥ (L : Int)) := by
          intro hge
          apply hlim
          simp only [limitHit, hcfg]
          simp
          left; exact ⟨by omega, hge⟩
        have hb1 : h1.pages = held h1 := by
          have : h.pages = held h := hbal
          simp only [held, hsv] at *
          omega
        simp only [held] at hb1
        omega
    · cases hb
    · cases hb
  · split at hb
    · rename_i bs0 seq0 hoe
      have hlen0 : bs0.length ≤ pageBytes := Nat.le_trans (overlapExisting_len A h seq bytes bs0 seq0 hoe) hlen
      split at hb
      · rename_i h1 used1 bs hco
        have hql := checkOverlap_qlen A h used false seq0 bs0 ts fin h1 used1 bs hlen0 hco
        simp only [Bool.false_eq_true, if_false, Nat.add_zero] at hql
        split at hb <;>
        · simp only [Res.ok.injEq, Prod.mk.injEq] at hb
          obtain ⟨rfl, _, _⟩ := hb
          omega
      · cases hb
      · cases hb
    · cases hb
    · cases hb

/-- Assemble step: the queue of the half connection stays within the limit -/
theorem assemble_qlen (A : Arith) (cfg : Cfg) (h : Half) (used : Int) (p : Seg) (acc : Nat) (keep : KeepRule) (o : Out)
    (L : Nat) (hL : 0 < L) (hcfg : cfg.maxPer = L) (hbal : Bal h) (hq : h.queue.length ≤ L)
    (hlen : p.bytes.length ≤ pageBytes) (ha : assemble A cfg h used p acc keep = .ok o) :
    o.half.queue.length ≤ L := by
  unfold assemble at ha
  generalize hh0 : (if h.lastSeen < p.ts then { h with lastSeen := p.ts } else h) = h0 at ha
  have hq0 : h0.queue = h.queue := by rw [← hh0]; split <;> rfl
  have hs0 : h0.saved = h.saved := by rw [← hh0]; split <;> rfl
  have hp0 : h0.pages = h.pages := by rw [← hh0]; split <;> rfl
  have hbal0 : Bal h0 := by unfold Bal held at *; rw [hp0, hq0, hs0]; exact hbal
  simp only at ha
  split at ha
  · obtain rfl := Res.ok.inj ha; rw [hq0]; exact hq
  · split at ha
    · obtain rfl := Res.ok.inj ha; rw [hq0]; exact hq
    · have hd := decideQueue_same A h0 p.syn acc (if p.syn = true then A.add p.seq 1 else p.seq)
      generalize decideQueue A h0 p.syn acc (if p.syn = true then A.add p.seq 1 else p.seq) = d at ha hd
      obtain ⟨h1, queue⟩ := d
      simp only at ha hd
      have hbal1 : Bal h1 := by rw [hd]; exact hbal0
      have hq1 : h1.queue.length ≤ L := by rw [hd]; simp only; rw [hq0]; exact hq
      split at ha
      · rename_i h2 used2 ret hhb
        have hq2 := handleBytes_qlen A cfg h1 used queue _ p.bytes p.ts p.syn _ h2 used2 ret L hL hcfg hbal1 hq1 hlen hhb
        obtain ⟨_, hret, _, _⟩ := handleBytes_acct A cfg h1 used queue _ p.bytes p.ts p.syn _ h2 used2 ret hhb
        unfold finishAssemble at ha
        rcases hret with rfl | ⟨r0, rfl⟩
        · simp only [List.length_nil, Nat.lt_irrefl, if_false, Res.ok.injEq] at ha
          subst ha; exact hq2
        · simp only [List.length_cons, List.length_nil, Nat.zero_add, Nat.lt_add_one, if_true] at ha
          split at ha
          · rename_i s hs
            have ac := sendToConnection_acct A h2 used2 r0 p.ts keep s hs
            obtain rfl := Res.ok.inj ha
            simp only
            split <;> exact Nat.le_trans ac.qlen hq2
          · cases ha
          · cases ha
      · cases ha
      · cases ha

/-! ### flushes never lengthen a queue -/

theorem skipFlush_qle (A : Arith) (h : Half) (used : Int) (keep : KeepRule) (o : Out)
    (hs : skipFlush A h used keep = .ok o) : o.half.queue.length ≤ h.queue.length := by
  unfold skipFlush at hs
  cases hq : h.queue with
  | nil =>
    simp only [hq, Res.ok.injEq] at hs
    subst hs; simp [closeHalf]
  | cons p rest =>
    simp only [hq, addNextFromConn, List.nil_append] at hs
    split at hs
    · rename_i s hsend
      have ac := sendToConnection_acct A { h with queue := rest } used p.toCont 0 keep s hsend
      obtain rfl := Res.ok.inj hs
      have := ac.qlen
      simp only at this ⊢
      split <;> simp only [List.length_cons] <;> omega
    · cases hs
    · cases hs

theorem flushLoop_qle (A : Arith) (t : Int) (keep : KeepRule) :
    ∀ (fuel : Nat) (h : Half) (used : Int) (sgs : List SG) (fl : Bool) (o : Out),
      flushLoop A t keep fuel h used sgs fl = .ok o → o.half.queue.length ≤ h.queue.length
  | 0, h, used, sgs, fl, o, hf => by
    simp only [flushLoop, Res.ok.injEq] at hf; subst hf; exact Nat.le_refl _
  | fuel + 1, h, used, sgs, fl, o, hf => by
    simp only [flushLoop] at hf
    split at hf
    · simp only [Res.ok.injEq] at hf; subst hf; exact Nat.le_refl _
    · split at hf
      · split at hf
        · rename_i o1 hs
          have h1 := skipFlush_qle A h used keep o1 hs
          split at hf
          · simp only [Res.ok.injEq] at hf; subst hf; exact h1
          · exact Nat.le_trans (flushLoop_qle A t keep fuel o1.half o1.used _ true o hf) h1
        · cases hf
        · cases hf
      · simp only [Res.ok.injEq] at hf; subst hf; exact Nat.le_refl _

theorem flushClose_qle (A : Arith) (h : Half) (used : Int) (t tc ls : Int) (keep : KeepRule) (o : Out)
    (hf : flushClose A h used t tc ls keep = .ok o) : o.half.queue.length ≤ h.queue.length := by
  unfold flushClose at hf
  split at hf
  · simp only [Res.ok.injEq] at hf; subst hf; exact Nat.le_refl _
  · split at hf
    · rename_i o1 hl
      have h1 := flushLoop_qle A t keep _ h used [] false o1 hl
      split at hf
      · obtain rfl := Res.ok.inj hf; exact h1
      · split at hf
        · obtain rfl := Res.ok.inj hf; simp [closeHalf]
        · obtain rfl := Res.ok.inj hf; exact h1
    · cases hf
    · cases hf

theorem flushAllLoop_qle (A : Arith) (keep : KeepRule) :
    ∀ (fuel : Nat) (h : Half) (used : Int) (sgs : List SG) (o : Out),
      flushAllLoop A keep fuel h used sgs = .ok o → o.half.queue.length ≤ h.queue.length
  | 0, h, used, sgs, o, hf => by
    simp only [flushAllLoop, Res.ok.injEq] at hf; subst hf; exact Nat.le_refl _
  | fuel + 1, h, used, sgs, o, hf => by
    simp only [flushAllLoop] at hf
    split at hf
    · simp only [Res.ok.injEq] at hf; subst hf; exact Nat.le_refl _
    · split at hf
      · rename_i o1 hs
        have h1 := skipFlush_qle A h used keep o1 hs
        split at hf
        · simp only [Res.ok.injEq] at hf; subst hf; exact h1
        · exact Nat.le_trans (flushAllLoop_qle A keep fuel o1.half o1.used _ o hf) h1
      · cases hf
      · cases hf

/-! ### pool level -/

/-- every half connection of the pool queues at most `L` pages -/
def QInv (L : Nat) (st : St) : Prop :=
  ∀ c ∈ st.conns, c.c2s.queue.length ≤ L ∧ c.s2c.queue.length ≤ L

/-- histories with a fixed limit and packets of at most one page -/
def Op.small : Op → Prop
  | .opts _ _ => False
  | .seg _ _ p _ _ _ => p.bytes.length ≤ pageBytes
  | _ => True

theorem overConns_q (f : Conn → Int → Res ConnOut) (L : Nat) :
    ∀ (l : List Conn) (used : Int) (cs : List Conn) (u' : Int) (evs : List Ev) (fl cl : Nat),
      (∀ c ∈ l, c.c2s.queue.length ≤ L ∧ c.s2c.queue.length ≤ L) →
      (∀ c ∈ l, ∀ u o, f c u = .ok o → o.conn.c2s.queue.length ≤ c.c2s.queue.length ∧
          o.conn.s2c.queue.length ≤ c.s2c.queue.length) →
      overConns f l used = .ok (cs, u', evs, fl, cl) →
      ∀ x ∈ cs, x.c2s.queue.length ≤ L ∧ x.s2c.queue.length ≤ L
  | [], used, cs, u', evs, fl, cl, _, _, h => by
    simp only [overConns, Res.ok.injEq, Prod.mk.injEq] at h
    obtain ⟨rfl, _⟩ := h
    intro x hx; simp at hx
  | c :: rest, used, cs, u', evs, fl, cl, hq, hf, h => by
    simp only [overConns] at h
    split at h
    · rename_i o ho
      have hle := hf c (List.mem_cons_self ..) used o ho
      have hqc := hq c (List.mem_cons_self ..)
      split at h
      · rename_i cs1 u1 evs1 fl1 cl1 hrest
        have ih := overConns_q f L rest o.used cs1 u1 evs1 fl1 cl1
          (fun x hx => hq x (List.mem_cons_of_mem _ hx)) (fun x hx => hf x (List.mem_cons_of_mem _ hx)) hrest
        simp only [Res.ok.injEq, Prod.mk.injEq] at h
        obtain ⟨rfl, _⟩ := h
        intro x hx
        split at hx
        · exact ih x hx
        · rcases List.mem_cons.mp hx with rfl | hx
          · exact ⟨by omega, by omega⟩
          · exact ih x hx
      · cases h
      · cases h
    · cases h
    · cases h

theorem step_qinv (A : Arith) (L : Nat) (hL : 0 < L) (st : St) (op : Op) (rp : Reply) (hinv : PoolInv st)
    (hq : QInv L st) (hcfg : st.cfg.maxPer = L) (hop : op.small) (h : step A st op = .ok rp) :
    QInv L rp.st ∧ rp.st.cfg.maxPer = L := by
  cases op with
  | opts p t => exact absurd hop (by simp [Op.small])
  | seg id dir p acc keep cmpl =>
    simp only [step, opSeg] at h
    obtain ⟨hinv1, hc1, hcfg1⟩ := lookupConn_inv st id dir p.ts hinv
    have hq1 : QInv L (lookupConn st id dir p.ts).1 := by
      unfold lookupConn
      cases hf : findConn id st.conns with
      | some c => exact hq
      | none =>
        intro x hx
        rcases insertConn_mem.mp hx with rfl | hx
        · simp [newConn]
        · exact hq x hx
    generalize lookupConn st id dir p.ts = r at h hinv1 hc1 hcfg1 hq1
    obtain ⟨st1, c, ev0⟩ := r
    simp only at h hinv1 hc1 hcfg1 hq1
    unfold opSegOn at h
    simp only at h
    split at h
    · rename_i o ha
      obtain rfl := Res.ok.inj h
      refine ⟨?_, by simp only; rw [hcfg1]; exact hcfg⟩
      have hck := hinv1.ok c hc1
      have hqc := hq1 c hc1
      have hnew : (c.setHalf (dir == c.firstDir) o.half).c2s.queue.length ≤ L ∧
          (c.setHalf (dir == c.firstDir) o.half).s2c.queue.length ≤ L := by
        cases hb : (dir == c.firstDir) with
        | true =>
          simp only [hb, Conn.half, Conn.setHalf, if_true] at ha ⊢
          exact ⟨assemble_qlen A st1.cfg c.c2s st1.used p acc keep o L hL (by rw [hcfg1]; exact hcfg) hck.1.1 hqc.1 hop ha, hqc.2⟩
        | false =>
          simp only [hb, Conn.half, Conn.setHalf, Bool.false_eq_true, if_false] at ha ⊢
          exact ⟨hqc.1, assemble_qlen A st1.cfg c.s2c st1.used p acc keep o L hL (by rw [hcfg1]; exact hcfg) hck.2.1 hqc.2 hop ha⟩
      intro x hx
      simp only at hx
      split at hx
      · exact hq1 x (removeConn_mem hx).1
      · rcases setConn_mem hx with rfl | ⟨hx, _⟩
        · exact hnew
        · exact hq1 x hx
    · cases h
    · cases h
  | flush t tc keep cmpl =>
    simp only [step, opFlush] at h
    split at h
    · rename_i cs u evs fl cl hov
      obtain rfl := Res.ok.inj h
      refine ⟨?_, hcfg⟩
      refine overConns_q _ L st.conns st.used cs u evs fl cl hq ?_ hov
      intro c hc u' o ho
      unfold flushConn at ho
      split at ho
      · rename_i o1 h1
        simp only at ho
        split at ho
        · rename_i o2 h2
          obtain rfl := Res.ok.inj ho
          exact ⟨flushClose_qle A _ _ _ _ _ keep o2 h2, flushClose_qle A _ _ _ _ _ keep o1 h1⟩
        · cases ho
        · cases ho
      · cases ho
      · cases ho
    · cases h
    · cases h
  | flushAll keep cmpl =>
    simp only [step, opFlushAll] at h
    split at h
    · rename_i cs u evs fl cl hov
      obtain rfl := Res.ok.inj h
      refine ⟨?_, hcfg⟩
      refine overConns_q _ L st.conns st.used cs u evs fl cl hq ?_ hov
      intro c hc u' o ho
      unfold flushAllConn at ho
      split at ho
      · rename_i o1 h1
        simp only at ho
        split at ho
        · rename_i o2 h2
          obtain rfl := Res.ok.inj ho
          exact ⟨flushAllLoop_qle A keep _ _ _ _ o2 h2, flushAllLoop_qle A keep _ _ _ _ o1 h1⟩
        · cases ho
        · cases ho
      · cases ho
      · cases ho
    · cases h
    · cases h

theorem run_qinv (A : Arith) (L : Nat) (hL : 0 < L) : ∀ (ops : List Op) (st st' : St) (evs : List Ev),
    PoolInv st → QInv L st → st.cfg.maxPer = L → (∀ op ∈ ops, op.small) →
    run A st ops = .ok (st', evs) → QInv L st'
  | [], st, st', evs, _, hq, _, _, h => by
    simp only [run, Res.ok.injEq, Prod.mk.injEq] at h
    obtain ⟨rfl, _⟩ := h; exact hq
  | op :: rest, st, st', evs, hinv, hq, hcfg, hops, h => by
    simp only [run] at h
    split at h
    · rename_i rp hs
      split at h
      · rename_i st2 evs2 hr
        simp only [Res.ok.injEq, Prod.mk.injEq] at h
        obtain ⟨rfl, _⟩ := h
        obtain ⟨hq', hcfg'⟩ := step_qinv A L hL st op rp hinv hq hcfg (hops op (List.mem_cons_self ..)) hs
        exact run_qinv A L hL rest rp.st _ evs2 (step_inv A st op rp hinv hs) hq' hcfg'
          (fun o ho => hops o (List.mem_cons_of_mem _ ho)) hr
      · cases h
      · cases h
    · cases h
    · cases h

end Gp.Reasm
