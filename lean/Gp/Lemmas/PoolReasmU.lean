import Gp.Lemmas.PoolReasmN
/-
  Third group of invariants of the reassembly StreamPool LTS (fixed variant): the stream LIFECYCLE.  They
  hold in EVERY reachable state — also along executions with stale recycling or foreign removes: a stream
  id is handed to exactly one connection object, ReassemblyComplete runs in the step that closes the
  second half, half-closed flags are cleared only by `reset`, which installs a fresh stream, and data
  callbacks (ReassembledSG) are made on open halves only.  (`Accept` is called BEFORE the `half.closed`
  test in AssembleWithContext, so an Accept callback can follow the stream's completion: not claimed.)
-/
namespace Gp.Pool.Reasm
open Gp.Pool

/-- stream on which the event is a data callback (Reassembled) -/
def Ev.delivOn : Ev → Option SId
  | .deliv sid _ _ _ _ => some sid
  | .fdeliv sid _ _ _ => some sid
  | _ => none

/-- Every data callback in the log (newest first) was made when its stream had not been completed. -/
def LogOK : List Ev → Prop
  | [] => True
  | e :: l => LogOK l ∧ ∀ sid, Ev.delivOn e = some sid → ncomp l sid = 0

structure InvU (s : State) : Prop where
  u1 : ∀ c sid, c < s.nextC → (s.obj c).stream = some sid → sid < s.nextS
  u2 : ∀ t sid, (s.thr t).pc = .ins sid →
        sid < s.nextS ∧ ncomp s.log sid = 0 ∧ (∀ c, c < s.nextC → (s.obj c).stream ≠ some sid) ∧
        (∀ t', (s.thr t').pc = .ins sid → t' = t)
  u3 : ∀ c c' sid, c < s.nextC → c' < s.nextC → (s.obj c).stream = some sid → (s.obj c').stream = some sid → c = c'
  u4 : ∀ c sid, c < s.nextC → (s.obj c).stream = some sid → (s.obj c).both = false → ncomp s.log sid = 0
  u5 : ∀ sid, ncomp s.log sid ≤ 1
  u6 : ∀ sid, s.nextS ≤ sid → ncomp s.log sid = 0
  u7 : ∀ t c hb f, (s.thr t).pc = .cb c hb f → (s.obj c).both = false
  u8 : LogOK s.log

theorem invU_init (progs : Tid → List Op) : InvU (init progs) := by
  constructor <;> simp [init, LogOK]

/-- an event that is not a completion and, if it is a data callback, goes to a stream not yet completed -/
def QuietEv (s : State) (e : Ev) : Prop :=
  (∀ sid t, e ≠ .complete sid t) ∧ (∀ sid, Ev.delivOn e = some sid → ncomp s.log sid = 0)

theorem ncomp_quiet {s : State} {e : Ev} (h : QuietEv s e) (sid : SId) : ncomp (e :: s.log) sid = ncomp s.log sid := by
  cases e <;> first | rfl | exact absurd rfl (h.1 _ _)

/-- Frame rule: thread `t` changes, objects keep stream/closed, the counters are untouched, the log grows
    by at most one quiet event. -/
theorem InvU.frame {s s' : State} (h : InvU s) (t : Tid)
    (hthr : ∀ t', t' ≠ t → s'.thr t' = s.thr t')
    (hstream : ∀ c, (s'.obj c).stream = (s.obj c).stream)
    (hclosed : ∀ c, (s'.obj c).both = (s.obj c).both)
    (hnc : s'.nextC = s.nextC) (hns : s'.nextS = s.nextS)
    (hlog : s'.log = s.log ∨ ∃ e, s'.log = e :: s.log ∧ QuietEv s e)
    (hins : ∀ sid, (s'.thr t).pc ≠ .ins sid)
    (hcb : ∀ c hb f, (s'.thr t).pc = .cb c hb f → (s.obj c).both = false) : InvU s' := by
  have hnco : ∀ sid, ncomp s'.log sid = ncomp s.log sid := by
    intro sid
    rcases hlog with e | ⟨e, he, hq⟩
    · rw [e]
    · rw [he]; exact ncomp_quiet hq sid
  constructor
  · intro c sid; rw [hnc, hstream, hns]; exact h.u1 c sid
  · intro t' sid hp
    by_cases e : t' = t
    · subst e; exact absurd hp (hins sid)
    · rw [hthr t' e] at hp
      obtain ⟨h1, h2, h3, h4⟩ := h.u2 t' sid hp
      rw [hns, hnco, hnc]
      refine ⟨h1, h2, ?_, ?_⟩
      · intro c; rw [hstream]; exact h3 c
      · intro t'' hp'
        by_cases e2 : t'' = t
        · subst e2; exact absurd hp' (hins sid)
        · rw [hthr t'' e2] at hp'; exact h4 t'' hp'
  · intro c c' sid; rw [hnc, hstream, hstream]; exact h.u3 c c' sid
  · intro c sid; rw [hnc, hstream, hclosed, hnco]; exact h.u4 c sid
  · intro sid; rw [hnco]; exact h.u5 sid
  · intro sid; rw [hns, hnco]; exact h.u6 sid
  · intro t' c hb f hp
    rw [hclosed]
    by_cases e : t' = t
    · subst e; exact hcb c hb f hp
    · rw [hthr t' e] at hp; exact h.u7 t' c hb f hp
  · rcases hlog with e | ⟨e, he, hq⟩
    · rw [e]; exact h.u8
    · rw [he]; exact ⟨h.u8, hq.2⟩

theorem invU_thr {s : State} (h : InvU s) (t : Tid) (th : Thread)
    (hins : ∀ sid, th.pc ≠ .ins sid)
    (hcb : ∀ c hb f, th.pc = .cb c hb f → (s.obj c).both = false) : InvU (setThr s t th) := by
  apply h.frame t <;> first
    | rfl
    | (intros; rfl)
    | (intro t' e; simp [e]; done)
    | (left; rfl)
    | simpa using hins
    | simpa using hcb

theorem invU_finishOp {s : State} (h : InvU s) (t : Tid) : InvU (finishOp s t) := by
  unfold finishOp
  apply invU_thr h t <;> simp

/-- `advance` after a quiet change of the objects / the log. -/
theorem invU_advance {s s1 : State} (h : InvU s) (t : Tid)
    (hthr : s1.thr = s.thr)
    (hstream : ∀ c, (s1.obj c).stream = (s.obj c).stream)
    (hclosed : ∀ c, (s1.obj c).both = (s.obj c).both)
    (hnc : s1.nextC = s.nextC) (hns : s1.nextS = s.nextS)
    (hlog : s1.log = s.log ∨ ∃ e, s1.log = e :: s.log ∧ QuietEv s e) : InvU (advance s1 t) := by
  unfold advance
  rw [hthr]
  dsimp only
  split
  · apply h.frame t
    · intro t' e; simp [e, hthr]
    · simpa using hstream
    · simpa using hclosed
    · simpa using hnc
    · simpa using hns
    · simpa using hlog
    · simp
    · simp
  · apply h.frame t
    · intro t' e; simp [finishOp, e, hthr]
    · simpa [finishOp] using hstream
    · simpa [finishOp] using hclosed
    · simpa [finishOp] using hnc
    · simpa [finishOp] using hns
    · simpa [finishOp] using hlog
    all_goals simp [finishOp]

/-- `factory.New`: a fresh stream id is handed to thread `t`. -/
theorem invU_new {s : State} (h : InvU s) (t : Tid) (th : Thread) (k : Key) (hthpc : th.pc = .ins s.nextS) :
    InvU (addLog { (setThr s t th) with nextS := s.nextS + 1, skey := upd s.skey s.nextS k }
      (.new s.nextS k t)) := by
  constructor
  · intro c sid hc hst
    exact Nat.lt_succ_of_lt (h.u1 c sid hc hst)
  · intro t' sid hpc
    by_cases e : t' = t
    · subst e
      simp only [addLog_thr, setThr_thr, if_true, hthpc, PC.ins.injEq] at hpc
      subst hpc
      refine ⟨Nat.lt_succ_self _, ?_, ?_, ?_⟩
      · show ncomp (Ev.new s.nextS k t' :: s.log) s.nextS = 0
        simp [h.u6 _ (Nat.le_refl _)]
      · intro c hc hst
        exact absurd (h.u1 c _ hc hst) (Nat.lt_irrefl _)
      · intro t'' hpc'
        by_cases e2 : t'' = t'
        · exact e2
        · simp only [addLog_thr, setThr_thr, e2, if_false] at hpc'
          exact absurd (h.u2 t'' _ hpc').1 (Nat.lt_irrefl _)
    · simp only [addLog_thr, setThr_thr, e, if_false] at hpc
      obtain ⟨h1, h2, h3, h4⟩ := h.u2 t' sid hpc
      refine ⟨Nat.lt_succ_of_lt h1, ?_, h3, ?_⟩
      · show ncomp (Ev.new s.nextS k t :: s.log) sid = 0
        simpa using h2
      · intro t'' hpc'
        by_cases e2 : t'' = t
        · subst e2
          simp only [addLog_thr, setThr_thr, if_true, hthpc, PC.ins.injEq] at hpc'
          exact absurd (hpc' ▸ h1) (Nat.lt_irrefl _)
        · simp only [addLog_thr, setThr_thr, e2, if_false] at hpc'
          exact h4 t'' hpc'
  · exact h.u3
  · intro c sid hc hst hcl
    show ncomp (Ev.new s.nextS k t :: s.log) sid = 0
    simpa using h.u4 c sid hc hst hcl
  · intro sid
    show ncomp (Ev.new s.nextS k t :: s.log) sid ≤ 1
    simpa using h.u5 sid
  · intro sid hle
    show ncomp (Ev.new s.nextS k t :: s.log) sid = 0
    simpa using h.u6 sid (Nat.le_of_succ_le hle)
  · intro t' c hb f hpc
    by_cases e : t' = t
    · subst e; simp [hthpc] at hpc
    · simp only [addLog_thr, setThr_thr, e, if_false] at hpc
      exact h.u7 t' c hb f hpc
  · exact ⟨h.u8, by intro sid e; cases e⟩

/-- `newConnection` + double-checked insert: object `cn` is reset for stream `sid` (whoever points to it). -/
theorem invU_reset {s s' : State} (h : InvU s) (t : Tid) (sid : SId) (cn cT : CId)
    (hpc : (s.thr t).pc = .ins sid)
    (hcn : cn < s'.nextC) (hsplit : ∀ c, c < s'.nextC → c < s.nextC ∨ c = cn)
    (hthr : ∀ t', t' ≠ t → s'.thr t' = s.thr t')
    (hT : Bool) (htpc : (s'.thr t).pc = .lock cT hT)
    (hobj : ∀ c, c ≠ cn → s'.obj c = s.obj c)
    (hnst : (s'.obj cn).stream = some sid) (hncl : (s'.obj cn).both = false)
    (hns : s'.nextS = s.nextS) (hlog : s'.log = s.log) : InvU s' := by
  obtain ⟨hb1, hb2, hb3, hb4⟩ := h.u2 t sid hpc
  constructor
  · intro c sid' hc hst
    rw [hns]
    by_cases e : c = cn
    · subst e; rw [hnst] at hst; cases hst; exact hb1
    · rw [hobj c e] at hst
      rcases hsplit c hc with h1 | h1
      · exact h.u1 c sid' h1 hst
      · exact absurd h1 e
  · intro t' sid' hp
    by_cases e : t' = t
    · subst e; rw [htpc] at hp; cases hp
    · rw [hthr t' e] at hp
      obtain ⟨h1, h2, h3, h4⟩ := h.u2 t' sid' hp
      have hne : sid' ≠ sid := by
        intro e2; subst e2; exact e (hb4 t' hp)
      rw [hns, hlog]
      refine ⟨h1, h2, ?_, ?_⟩
      · intro c hc hst
        by_cases e2 : c = cn
        · subst e2; rw [hnst] at hst; cases hst; exact hne rfl
        · rw [hobj c e2] at hst
          rcases hsplit c hc with h7 | h7
          · exact h3 c h7 hst
          · exact e2 h7
      · intro t'' hp'
        by_cases e2 : t'' = t
        · subst e2; rw [htpc] at hp'; cases hp'
        · rw [hthr t'' e2] at hp'; exact h4 t'' hp'
  · intro c c' sid' hc hc' hst hst'
    by_cases e : c = cn
    · by_cases e' : c' = cn
      · rw [e, e']
      · exfalso
        subst e
        rw [hnst] at hst; cases hst
        rw [hobj c' e'] at hst'
        rcases hsplit c' hc' with h7 | h7
        · exact hb3 c' h7 hst'
        · exact e' h7
    · by_cases e' : c' = cn
      · exfalso
        subst e'
        rw [hnst] at hst'; cases hst'
        rw [hobj c e] at hst
        rcases hsplit c hc with h7 | h7
        · exact hb3 c h7 hst
        · exact e h7
      · rw [hobj c e] at hst; rw [hobj c' e'] at hst'
        rcases hsplit c hc with h7 | h7
        · rcases hsplit c' hc' with h8 | h8
          · exact h.u3 c c' sid' h7 h8 hst hst'
          · exact absurd h8 e'
        · exact absurd h7 e
  · intro c sid' hc hst hcl
    rw [hlog]
    by_cases e : c = cn
    · subst e; rw [hnst] at hst; cases hst; exact hb2
    · rw [hobj c e] at hst hcl
      rcases hsplit c hc with h7 | h7
      · exact h.u4 c sid' h7 hst hcl
      · exact absurd h7 e
  · intro sid'; rw [hlog]; exact h.u5 sid'
  · intro sid' hle
    rw [hns] at hle; rw [hlog]
    exact h.u6 sid' hle
  · intro t' c hb fl hp
    by_cases e : t' = t
    · subst e; rw [htpc] at hp; cases hp
    · rw [hthr t' e] at hp
      by_cases e2 : c = cn
      · rw [e2]; exact hncl
      · rw [hobj c e2]; exact h.u7 t' c hb fl hp
  · rw [hlog]; exact h.u8

/-- closeHalfConnection closing the second half: ReassemblyComplete on `c`'s stream, → `rm c`. -/
theorem invU_close {s s' : State} (h : InvU s) (t : Tid) (c : CId) (sid : SId)
    (hc : c < s.nextC) (hst : (s.obj c).stream = some sid) (hcl : (s.obj c).both = false)
    (hexcl : ∀ t', t' ≠ t → (s.thr t').pc.holds ≠ some c)
    (hthr : ∀ t', t' ≠ t → s'.thr t' = s.thr t')
    (cont : List Bool) (htpc : (s'.thr t).pc = .rm c cont)
    (hobj : ∀ c', c' ≠ c → s'.obj c' = s.obj c')
    (hstream : (s'.obj c).stream = (s.obj c).stream) (hclosed : (s'.obj c).both = true)
    (hnc : s'.nextC = s.nextC) (hns : s'.nextS = s.nextS)
    (hlog : s'.log = .complete sid t :: s.log) : InvU s' := by
  have hs : ∀ c', (s'.obj c').stream = (s.obj c').stream := by
    intro c'; by_cases e : c' = c
    · rw [e]; exact hstream
    · rw [hobj c' e]
  have hnco : ∀ sid', ncomp s'.log sid' = ncomp s.log sid' + (if sid = sid' then 1 else 0) := by
    intro sid'; rw [hlog]; exact ncomp_complete _ _ _ _
  have hnco' : ∀ sid', sid' ≠ sid → ncomp s'.log sid' = ncomp s.log sid' := by
    intro sid' e
    have e3 : ¬ sid = sid' := fun e2 => e e2.symm
    rw [hnco]; simp [e3]
  have hsidlt := h.u1 c sid hc hst
  have hn0 := h.u4 c sid hc hst hcl
  constructor
  · intro c' sid'; rw [hnc, hs, hns]; exact h.u1 c' sid'
  · intro t' sid' hp
    by_cases e : t' = t
    · subst e; rw [htpc] at hp; cases hp
    · rw [hthr t' e] at hp
      obtain ⟨h1, h2, h3, h4⟩ := h.u2 t' sid' hp
      have hne : sid' ≠ sid := fun e2 => h3 c hc (e2 ▸ hst)
      rw [hns, hnco' sid' hne, hnc]
      refine ⟨h1, h2, ?_, ?_⟩
      · intro c'; rw [hs]; exact h3 c'
      · intro t'' hp'
        by_cases e2 : t'' = t
        · subst e2; rw [htpc] at hp'; cases hp'
        · rw [hthr t'' e2] at hp'; exact h4 t'' hp'
  · intro c1 c2 sid'; rw [hnc, hs, hs]; exact h.u3 c1 c2 sid'
  · intro c' sid' hc' hst' hcl'
    rw [hnc] at hc'; rw [hs] at hst'
    by_cases e : c' = c
    · rw [e, hclosed] at hcl'; cases hcl'
    · rw [hobj c' e] at hcl'
      have hne2 : sid' ≠ sid := fun e2 => e (h.u3 c' c sid hc' hc (e2 ▸ hst') hst)
      rw [hnco' sid' hne2]; exact h.u4 c' sid' hc' hst' hcl'
  · intro sid'
    by_cases e : sid' = sid
    · rw [hnco, e, hn0]; simp
    · rw [hnco' sid' e]; exact h.u5 sid'
  · intro sid' hle
    rw [hns] at hle
    have hne : sid' ≠ sid := fun e => absurd hsidlt (Nat.not_lt.2 (e ▸ hle))
    rw [hnco' sid' hne]; exact h.u6 sid' hle
  · intro t' c' hb fl hp
    by_cases e : t' = t
    · subst e; rw [htpc] at hp; cases hp
    · rw [hthr t' e] at hp
      have hne : c' ≠ c := fun e2 => hexcl t' e (by rw [hp, e2]; rfl)
      rw [hobj c' hne]; exact h.u7 t' c' hb fl hp
  · rw [hlog]; exact ⟨h.u8, by intro sid' e; cases e⟩


theorem invU_stepStart {s s' : State} {t : Tid} (h : InvU s)
    (hpc : (s.thr t).pc = .start) (hs : stepStart s t = some s') : InvU s' := by
  unfold stepStart at hs
  dsimp only at hs
  cases hp : (s.thr t).prog with
  | nil => simp [hp] at hs
  | cons op rest =>
    cases op with
    | flush =>
      simp only [hp] at hs
      cases hv : s.conns.vals with
      | nil => simp only [hv] at hs; cases hs; exact invU_finishOp h t
      | cons c r => simp only [hv] at hs; cases hs; apply invU_thr h t <;> simp
    | flushold T ca =>
      simp only [hp] at hs
      cases hv : s.conns.vals with
      | nil => simp only [hv] at hs; cases hs; exact invU_finishOp h t
      | cons c r => simp only [hv] at hs; cases hs; apply invU_thr h t <;> simp
    | pkt k kind =>
      simp only [hp] at hs
      cases hg : getHalf s.conns k with
      | some ch => obtain ⟨c, hb⟩ := ch; simp only [hg] at hs; cases hs; apply invU_thr h t <;> simp
      | none =>
        simp only [hg] at hs
        cases hs; exact invU_new h t _ k rfl

theorem invU_stepIns {s s' : State} {t : Tid} {sid : SId} (hA : InvA s) (h : InvU s)
    (hpc : (s.thr t).pc = .ins sid) (hs : stepIns true s t sid = some s') : InvU s' := by
  obtain ⟨hsn, hpk⟩ := hA.wf_ins t sid hpc
  unfold stepIns at hs
  dsimp only at hs
  cases hp : (s.thr t).prog with
  | nil => simp [hp, isPkt] at hpk
  | cons op rest =>
    cases op with
    | flush => simp [hp, isPkt] at hpk
    | flushold T ca => simp [hp, isPkt] at hpk
    | pkt k kind =>
      simp only [hp] at hs
      cases hf : s.free with
      | nil =>
        simp only [hf] at hs
        cases hg : getHalf s.conns k with
        | some ch =>
          obtain ⟨c2, h2⟩ := ch
          simp only [setObj_conns, hg, Bool.not_true, Bool.false_and, Bool.false_eq_true, if_false] at hs; cases hs
          apply invU_reset h t sid s.nextC c2 hpc
          · show s.nextC < s.nextC + 1; omega
          · intro c hc; have : c < s.nextC + 1 := hc; omega
          · intro t' e; simp [e]
          · simp; rfl
          · intro c e; simp [e]
          · simp
          · simp [Conn.both]
          · rfl
          · rfl
        | none =>
          simp only [setObj_conns, hg] at hs; cases hs
          apply invU_reset h t sid s.nextC s.nextC hpc
          · show s.nextC < s.nextC + 1; omega
          · intro c hc; have : c < s.nextC + 1 := hc; omega
          · intro t' e; simp [e]
          · simp; rfl
          · intro c e; simp [e]
          · simp
          · simp [Conn.both]
          · rfl
          · rfl
      | cons c f =>
        simp only [hf] at hs
        have hc : c < s.nextC := hA.free_lt c (by simp [hf])
        cases hg : getHalf s.conns k with
        | some ch =>
          obtain ⟨c2, h2⟩ := ch
          simp only [setObj_conns, hg, Bool.not_true, Bool.false_and, Bool.false_eq_true, if_false] at hs; cases hs
          apply invU_reset h t sid c c2 hpc
          · exact hc
          · intro c' hc'; exact Or.inl hc'
          · intro t' e; simp [e]
          · simp; rfl
          · intro c' e; simp [e]
          · simp
          · simp [Conn.both]
          · rfl
          · rfl
        | none =>
          simp only [setObj_conns, hg] at hs; cases hs
          apply invU_reset h t sid c c hpc
          · exact hc
          · intro c' hc'; exact Or.inl hc'
          · intro t' e; simp [e]
          · simp; rfl
          · intro c' e; simp [e]
          · simp
          · simp [Conn.both]
          · rfl
          · rfl

/-- an object is replaced by a value with the same stream / both-closed flag -/
theorem invU_setObj {s : State} (h : InvU s) (t : Tid) (c : CId) (o' : Conn)
    (hnoins : ∀ sid, (s.thr t).pc ≠ .ins sid)
    (hstream : o'.stream = (s.obj c).stream) (hboth : o'.both = (s.obj c).both) :
    InvU (setObj s c o') := by
  apply h.frame t
  · intro t' _; rfl
  · intro c'; simp only [setObj_obj]; split <;> simp_all
  · intro c'; simp only [setObj_obj]; split <;> simp_all
  · rfl
  · rfl
  · left; rfl
  · exact hnoins
  · exact h.u7 t

theorem invU_flushEnd {s1 : State} (h : InvU s1) (t : Tid) (c : CId) : InvU (flushEnd s1 t c) := by
  have hadv : InvU (advance (setObj s1 c { s1.obj c with mu := none }) t) := by
    apply invU_advance h t
    · rfl
    · intro c'; simp only [setObj_obj]; split <;> simp_all
    · intro c'; simp only [setObj_obj]; split <;> simp_all [Conn.both]
    · rfl
    · rfl
    · left; rfl
  unfold flushEnd
  dsimp only
  split
  · exact hadv
  · split
    · apply h.frame t
      · intro t' e; simp [e]
      · intro c'; simp only [setThr_obj, setObj_obj]; split <;> simp_all
      · intro c'; simp only [setThr_obj, setObj_obj]; split <;> simp_all [Conn.both]
      · rfl
      · rfl
      · left; rfl
      · simp
      · simp
    · exact hadv

/-- The loop of a Flush* visit over the halves `hs`, from an intermediate state `s1`. -/
theorem invU_flushHalves (t : Tid) (c : CId) (hs : List Bool) :
    ∀ (s1 : State), InvU s1 → c < s1.nextC → (s1.obj c).stream ≠ none →
    (∀ sid, (s1.thr t).pc ≠ .ins sid) →
    (∀ t', t' ≠ t → (s1.thr t').pc.holds ≠ some c) → InvU (flushHalves s1 t c hs) := by
  induction hs with
  | nil =>
    intro s1 h hc hst hnoins hexcl
    exact invU_flushEnd h t c
  | cons hb hs ih =>
    intro s1 h hc hst hnoins hexcl
    unfold flushHalves
    dsimp only
    split
    · exact ih s1 h hc hst hnoins hexcl
    · next hopen0 =>
      have hopen : (s1.obj c).halfClosed hb = false := by simpa using hopen0
      have hcl : (s1.obj c).both = false := both_false_of_half hopen
      split
      · cases hst2 : (s1.obj c).stream with
        | none => exact absurd hst2 hst
        | some sid =>
          dsimp only
          apply h.frame t
          · intro t' e; simp [e]
          · intro c'; simp only [setThr_obj, addLog_obj, setObj_obj]; split <;> simp_all [setQ_stream]
          · intro c'; simp only [setThr_obj, addLog_obj, setObj_obj]; split <;> simp_all [setQ_both]
          · rfl
          · rfl
          · right
            refine ⟨_, rfl, And.intro (by intro _ _ e; cases e) ?_⟩
            intro sid' e; simp only [Ev.delivOn, Option.some.injEq] at e; subst e; exact h.u4 c sid hc hst2 hcl
          · simp
          · intro c' hb' f e; simp at e; rw [← e.1]; exact hcl
      · split
        · split
          · next hboth' =>
            cases hst2 : (s1.obj c).stream with
            | none => exact absurd hst2 hst
            | some sid =>
              dsimp only
              apply invU_close h t c sid hc hst2 hcl hexcl
              · intro t' e; simp [e]
              · simp; rfl
              · intro c' e; simp [e]
              · simp [closeHalf_stream]
              · simpa [bothClosed_eq] using hboth'
              · rfl
              · rfl
              · rfl
          · next hboth' =>
            have hb2 : ((s1.obj c).closeHalf hb).both = false := by simpa [bothClosed_eq] using hboth'
            apply ih (setObj s1 c ((s1.obj c).closeHalf hb))
            · exact invU_setObj h t c _ hnoins (closeHalf_stream _ _) (by rw [hb2, hcl])
            · exact hc
            · simp [closeHalf_stream, hst]
            · exact hnoins
            · exact hexcl
        · exact ih s1 h hc hst hnoins hexcl

theorem invU_stepLock {s s' : State} {t : Tid} {c : CId} {hb : Bool} (hA : InvA s) (h : InvU s)
    (hpc : (s.thr t).pc = .lock c hb) (hs : stepLock s t c hb = some s') : InvU s' := by
  have hc : c < s.nextC := hA.ptr_lt t c (by simp [hpc])
  have hst := hA.inited c hc
  have hnoins : ∀ sid', (s.thr t).pc ≠ .ins sid' := by intro sid' e; rw [hpc] at e; cases e
  unfold stepLock at hs
  dsimp only at hs
  split at hs
  · cases hs
  · next hmu0 =>
    have hmu : (s.obj c).mu = none := by
      cases hm : (s.obj c).mu with
      | none => rfl
      | some x => simp [hm] at hmu0
    have hexcl := excl_of_mu hA (t := t) (Or.inl hmu)
    cases hsn : (s.thr t).snap with
    | some l =>
      simp only [hsn] at hs
      cases hs
      apply invU_flushHalves t c [true, false]
      · exact invU_setObj h t c _ hnoins rfl rfl
      · exact hc
      · simpa using hst
      · simpa using hnoins
      · simpa using hexcl
    | none =>
      have hpk := hA.wf_ptr t c (by simp [hpc]) hsn
      simp only [hsn] at hs
      cases hp : (s.thr t).prog with
      | nil => simp [hp, isPkt] at hpk
      | cons op rest =>
        cases op with
        | flush => simp [hp, isPkt] at hpk
        | flushold T ca => simp [hp, isPkt] at hpk
        | pkt k kind =>
          simp only [hp] at hs
          cases hst2 : (s.obj c).stream with
          | none => exact absurd hst2 hst
          | some sid =>
            have hqa : ∀ i, QuietEv s (.accept sid t i) := by
              intro i; exact And.intro (by intro _ _ e; cases e) (by intro _ e; simp [Ev.delivOn] at e)
            simp only [hst2] at hs
            split at hs
            · cases hs
              apply invU_advance h t
              · rfl
              · intro c'; simp only [addLog_obj, setObj_obj]; split <;> simp_all [see_stream]
              · intro c'; simp only [addLog_obj, setObj_obj]; split <;> simp_all [see_both]
              · rfl
              · rfl
              · right; exact ⟨_, rfl, hqa _⟩
            · next hhc0 =>
              have hhc : (s.obj c).halfClosed hb = false := by simpa [see_halfClosed] using hhc0
              have hcl := both_false_of_half hhc
              have h1 : InvU (addLog (setObj s c ((s.obj c).see hb kind.ts)) (.accept sid t (s.thr t).pos)) := by
                apply h.frame t
                · intro t' _; rfl
                · intro c'; simp only [addLog_obj, setObj_obj]; split <;> simp_all [see_stream]
                · intro c'; simp only [addLog_obj, setObj_obj]; split <;> simp_all [see_both]
                · rfl
                · rfl
                · right; exact ⟨_, rfl, hqa _⟩
                · exact hnoins
                · exact h.u7 t
              split at hs
              · cases hs
                apply invU_advance h1 t
                · rfl
                · intro c'; simp only [addLog_obj, setObj_obj]; split <;> simp_all [setQ_stream]
                · intro c'; simp only [addLog_obj, setObj_obj]; split <;> simp_all [setQ_both]
                · rfl
                · rfl
                · right; exact ⟨_, rfl, And.intro (by intro _ _ e; cases e) (by intro _ e; simp [Ev.delivOn] at e)⟩
              · cases hs
                apply h1.frame t
                · intro t' e; simp [e]
                · intro c'; simp only [setThr_obj, addLog_obj, setObj_obj]; split <;> simp_all
                · intro c'; simp only [setThr_obj, addLog_obj, setObj_obj]; split <;> simp_all [Conn.both]
                · rfl
                · rfl
                · right
                  refine ⟨_, rfl, And.intro (by intro _ _ e; cases e) ?_⟩
                  intro sid' e; simp only [Ev.delivOn, Option.some.injEq] at e; subst e
                  show ncomp (Ev.accept sid t (s.thr t).pos :: s.log) sid = 0
                  simpa using h.u4 c sid hc hst2 hcl
                · simp
                · intro c' hb' f e; simp at e; rw [← e.1]; simpa [see_both] using hcl

theorem invU_afterCloseHalf {s1 : State} (h : InvU s1) (t : Tid) (c : CId)
    (hc : c < s1.nextC) (hst : (s1.obj c).stream ≠ none)
    (hexcl : ∀ t', t' ≠ t → (s1.thr t').pc.holds ≠ some c)
    (o1 : Conn) (hstream : o1.stream = (s1.obj c).stream) (hcl : (s1.obj c).both = false) :
    InvU (afterCloseHalf (setObj s1 c o1) t c) := by
  unfold afterCloseHalf
  dsimp only
  split
  · next hboth' =>
    cases hst2 : (s1.obj c).stream with
    | none => exact absurd hst2 hst
    | some sid =>
      have : ((setObj s1 c o1).obj c).stream = some sid := by simp [hstream, hst2]
      rw [this]
      dsimp only
      apply invU_close h t c sid hc hst2 hcl hexcl
      · intro t' e; simp [e]
      · simp; rfl
      · intro c' e; simp [e]
      · simp [hstream]
      · simpa [bothClosed_eq] using hboth'
      · rfl
      · rfl
      · rfl
  · next hboth' =>
    have hb2 : o1.both = false := by simpa [bothClosed_eq] using hboth'
    apply invU_advance h t
    · rfl
    · intro c'; simp only [setObj_obj]; split <;> simp_all
    · intro c'; simp only [setObj_obj]; split
      · next e =>
        subst e
        show ({ o1 with mu := none } : Conn).both = (s1.obj c').both
        rw [hcl]; exact hb2
      · next e => simp [e]
    · rfl
    · rfl
    · left; rfl

theorem invU_stepCb {s s' : State} {t : Tid} {c : CId} {hb fin : Bool} (hA : InvA s) (h : InvU s)
    (hpc : (s.thr t).pc = .cb c hb fin) (hs : stepCb s t c hb fin = some s') : InvU s' := by
  have hh : (s.thr t).pc.holds = some c := by simp [hpc]
  have hmu : (s.obj c).mu = some t := (hA.mu_iff c t).2 hh
  have hc : c < s.nextC := hA.ptr_lt t c (by simp [hpc])
  have hst := hA.inited c hc
  have hcl := h.u7 t c hb fin hpc
  have hnoins : ∀ sid', (s.thr t).pc ≠ .ins sid' := by intro sid' e; rw [hpc] at e; cases e
  have hexcl := excl_of_mu hA (t := t) (Or.inr hmu)
  unfold stepCb at hs
  dsimp only at hs
  split at hs
  · split at hs
    · next hboth' =>
      cases hst2 : (s.obj c).stream with
      | none => exact absurd hst2 hst
      | some sid =>
        simp only [hst2] at hs; cases hs
        apply invU_close h t c sid hc hst2 hcl hexcl
        · intro t' e; simp [e]
        · simp; rfl
        · intro c' e; simp [e]
        · simp [closeHalf_stream]
        · simpa [bothClosed_eq] using hboth'
        · rfl
        · rfl
        · rfl
    · next hboth' =>
      have hb2 : ((s.obj c).closeHalf hb).both = false := by simpa [bothClosed_eq] using hboth'
      cases hs
      apply invU_flushHalves t c _
      · exact invU_setObj h t c _ hnoins (closeHalf_stream _ _) (by rw [hb2, hcl])
      · exact hc
      · simp [closeHalf_stream, hst]
      · simpa using hnoins
      · simpa using hexcl
  · split at hs
    · cases hs
      exact invU_afterCloseHalf h t c hc hst hexcl _ (closeHalf_stream _ _) hcl
    · cases hs
      apply invU_advance h t
      · rfl
      · intro c'; simp only [setObj_obj]; split <;> simp_all
      · intro c'; simp only [setObj_obj]; split <;> simp_all [Conn.both]
      · rfl
      · rfl
      · left; rfl

theorem invU_doRemove {s : State} (h : InvU s) (t : Tid) (c : CId) (hnoins : ∀ sid, (s.thr t).pc ≠ .ins sid) :
    InvU (doRemove s c) := by
  apply h.frame t
  · intro t' _; rw [doRemove_thr]
  · intro c'; rw [doRemove_obj]
  · intro c'; rw [doRemove_obj]
  · exact doRemove_nextC s c
  · exact doRemove_nextS s c
  · left; exact doRemove_log s c
  · rw [doRemove_thr]; exact hnoins
  · rw [doRemove_thr]; exact h.u7 t

theorem invU_stepRm {s s' : State} {t : Tid} {c : CId} {cont : List Bool} (hA : InvA s) (h : InvU s)
    (hpc : (s.thr t).pc = .rm c cont) (hs : stepRm s t c cont = some s') : InvU s' := by
  have hh : (s.thr t).pc.holds = some c := by simp [hpc]
  have hmu : (s.obj c).mu = some t := (hA.mu_iff c t).2 hh
  have hc : c < s.nextC := hA.ptr_lt t c (by simp [hpc])
  have hst := hA.inited c hc
  have hnoins : ∀ sid', (s.thr t).pc ≠ .ins sid' := by intro sid' e; rw [hpc] at e; cases e
  have hexcl := excl_of_mu hA (t := t) (Or.inr hmu)
  have h1 := invU_doRemove h t c hnoins
  unfold stepRm at hs
  dsimp only at hs
  split at hs
  · cases hs
    apply invU_flushHalves t c cont _ h1
    · rw [doRemove_nextC]; exact hc
    · rw [doRemove_obj]; exact hst
    · rw [doRemove_thr]; exact hnoins
    · rw [doRemove_thr]; exact hexcl
  · cases hs
    apply invU_advance h1 t
    · rfl
    · intro c'; simp only [setObj_obj]; split <;> simp_all
    · intro c'; simp only [setObj_obj]; split <;> simp_all [Conn.both]
    · rfl
    · rfl
    · left; rfl

theorem invU_stepRm2 {s s' : State} {t : Tid} {c : CId} (h : InvU s)
    (hpc : (s.thr t).pc = .rm2 c) (hs : stepRm2 s t c = some s') : InvU s' := by
  have hnoins : ∀ sid', (s.thr t).pc ≠ .ins sid' := by intro sid' e; rw [hpc] at e; cases e
  unfold stepRm2 at hs
  cases hs
  exact invU_advance (invU_doRemove h t c hnoins) t rfl (fun _ => rfl) (fun _ => rfl) rfl rfl (Or.inl rfl)

theorem invU_step {s s' : State} {t : Tid} (hA : InvA s) (h : InvU s) (hs : step true s t = some s') : InvU s' := by
  unfold step at hs
  split at hs
  · next hpc => exact invU_stepStart h hpc hs
  · next sid hpc => exact invU_stepIns hA h hpc hs
  · next c hb hpc => exact invU_stepLock hA h hpc hs
  · next c hb fin hpc => exact invU_stepCb hA h hpc hs
  · next c cont hpc => exact invU_stepRm hA h hpc hs
  · next c hpc => exact invU_stepRm2 h hpc hs
  · cases hs

/-- InvU holds in EVERY reachable state of the fixed pool (no restriction on recycling / removes). -/
theorem invU_reachable (progs : Tid → List Op) : ∀ s, (sys true progs).Reachable s → InvU s := by
  intro s hr
  have key : InvU s ∧ InvA s := by
    induction hr with
    | init => exact ⟨invU_init progs, invA_init progs⟩
    | step hr' hs ih => exact ⟨invU_step ih.2 ih.1 hs, invA_step ih.2 hs⟩
  exact key.1

/-- no_callback_after_complete, as a state predicate on the log (newest first): a data callback
    (ReassembledSG) on stream `sid` is never preceded by a ReassemblyComplete of `sid`. -/
def NoCallbackAfterComplete (s : State) : Prop :=
  ∀ (l1 l2 : List Ev) (e : Ev) (sid : SId), s.log = l1 ++ e :: l2 → Ev.delivOn e = some sid → ncomp l2 sid = 0

theorem logOK_split {log : List Ev} (h : LogOK log) :
    ∀ (l1 l2 : List Ev) (e : Ev) (sid : SId), log = l1 ++ e :: l2 → Ev.delivOn e = some sid → ncomp l2 sid = 0 := by
  intro l1
  induction l1 generalizing log with
  | nil =>
    intro l2 e sid hl hd
    simp only [List.nil_append] at hl
    subst hl
    exact h.2 sid hd
  | cons a l1 ih =>
    intro l2 e sid hl hd
    simp only [List.cons_append] at hl
    subst hl
    exact ih h.1 l2 e sid rfl hd

end Gp.Pool.Reasm
