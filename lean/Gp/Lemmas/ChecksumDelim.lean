import Gp.Lemmas.ChecksumPseudo
/-
  Helper lemmas for C08: what the decoders hand to VerifyChecksum (UDP length-field delimitation,
  GRE stored checksum), on emitted and on bit-flipped segments.
-/
namespace Gp.CksumEmit
open Gp Gp.Cksum

theorem put16At_shape6 (a b c d e f g h : UInt8) (rest : Bytes) (v : Nat) :
    put16At (a :: b :: c :: d :: e :: f :: g :: h :: rest) 6 v = a :: b :: c :: d :: e :: f :: u8 (v / 256) :: u8 v :: rest := by
  simp [put16At, putBe16]

/-- the emitted UDP segment: ports, the FixLengths length word, two checksum bytes, the payload -/
theorem emitUdp_shape (net : Net) (sp dp : Nat) (payload : Bytes) :
    ∃ e0 e1, emitUdp net sp dp payload =
      u8 (sp / 256) :: u8 sp :: u8 (dp / 256) :: u8 dp :: u8 (udpLen net payload.length / 256) :: u8 (udpLen net payload.length) :: e0 :: e1 :: payload := by
  unfold emitUdp emitAt
  simp only [udpHdr, putBe16, List.cons_append, List.nil_append, put16At_shape6]
  exact ⟨_, _, rfl⟩

theorem greDecode_stored (data : Bytes) (st : Nat) (h : greDecode data = some (true, st)) :
    get16At? data 4 = some st := by
  unfold greDecode at h
  split at h
  · rename_i b0 b1 _ _ _
    simp only at h
    split at h
    · cases h
    · rename_i stored hs
      repeat' split at h
      all_goals first | cases h | skip
      all_goals (
        simp only [Option.some.injEq, Prod.mk.injEq] at h
        obtain ⟨hc, rfl⟩ := h
        simp only [hc, Bool.true_or, if_true] at hs
        exact hs)
  · cases h

theorem udpDelim_shape (a b c d l0 l1 e0 e1 : UInt8) (p : Bytes) (L : Nat) (h0 : l0 = u8 (L / 256)) (h1 : l1 = u8 L)
    (hL : L < 65536) (hc : L = 8 + p.length ∨ L = 0) :
    udpDelim (a :: b :: c :: d :: l0 :: l1 :: e0 :: e1 :: p) = some (a :: b :: c :: d :: l0 :: l1 :: e0 :: e1 :: p) := by
  have hb : be16 l0 l1 = L := by subst h0 h1; simp only [be16, u8_toNat]; omega
  simp only [udpDelim, hb]
  rcases hc with hc | hc
  · rw [if_pos (by omega)]
    have : (if L > (a :: b :: c :: d :: l0 :: l1 :: e0 :: e1 :: p).length then (a :: b :: c :: d :: l0 :: l1 :: e0 :: e1 :: p).length else L) = (a :: b :: c :: d :: l0 :: l1 :: e0 :: e1 :: p).length := by
      simp only [List.length_cons]; split <;> omega
    rw [this, List.take_length]
  · rw [if_neg (by omega), if_pos hc]

theorem flipBit_udp_shape (a b c d l0 l1 e0 e1 : UInt8) (p : Bytes) (i : Nat) (h4 : i / 8 ≠ 4) (h5 : i / 8 ≠ 5) :
    ∃ a' b' c' d' e0' e1' p', flipBit (a :: b :: c :: d :: l0 :: l1 :: e0 :: e1 :: p) i = a' :: b' :: c' :: d' :: l0 :: l1 :: e0' :: e1' :: p' ∧
      p'.length = p.length := by
  simp only [flipBit]
  repeat' split
  all_goals first
    | exact ⟨_, _, _, _, _, _, _, rfl, rfl⟩
    | exact ⟨_, _, _, _, _, _, _, rfl, length_flipBit _ _⟩
    | omega

/-! ### IPv4 and TCP: what the decoder delimits for an emitted header / segment -/

theorem ip4Contents_shape (b0 tos l0 l1 : UInt8) (rest : Bytes) (L ihl : Nat) (hL : be16 l0 l1 = L) (hi : b0.toNat % 16 = ihl)
    (hlen : (b0 :: tos :: l0 :: l1 :: rest).length = L) (h20 : 20 ≤ L) (h5 : 5 ≤ ihl) (hle : ihl * 4 ≤ L)
    (hopt : ip4OptsOk 64 (((b0 :: tos :: l0 :: l1 :: rest).take (ihl * 4)).drop 20) = true) :
    ip4Contents (b0 :: tos :: l0 :: l1 :: rest) = some ((b0 :: tos :: l0 :: l1 :: rest).take (ihl * 4)) := by
  have e : (if L = 0 then (b0 :: tos :: l0 :: l1 :: rest).length % 65536 else L) = L := by split <;> omega
  have n1 : ¬ L < 20 := by omega
  have n2 : ¬ ihl < 5 := by omega
  have n3 : ¬ ihl * 4 > L := by omega
  have n4 : ¬ L > L := by omega
  simp only [ip4Contents, hL, hi]
  rw [e]
  simp only [hlen, n1, n2, n3, n4, if_false, hopt, and_self, if_true]

theorem put16At_shape10 (x0 x1 x2 x3 x4 x5 x6 x7 x8 x9 x10 x11 : UInt8) (rest : Bytes) (v : Nat) :
    put16At (x0 :: x1 :: x2 :: x3 :: x4 :: x5 :: x6 :: x7 :: x8 :: x9 :: x10 :: x11 :: rest) 10 v =
      x0 :: x1 :: x2 :: x3 :: x4 :: x5 :: x6 :: x7 :: x8 :: x9 :: u8 (v / 256) :: u8 v :: rest := by
  simp [put16At, putBe16]

theorem emitIp4_shape (f : Ip4F) (n : Nat) :
    ∃ e0 e1, emitAt 0 10 postId (ip4Hdr f n) =
      u8 (64 + (5 + f.opts.length / 4)) :: u8 f.tos :: u8 ((20 + f.opts.length + n) % 65536 / 256) :: u8 ((20 + f.opts.length + n) % 65536) ::
      (u8 (f.id / 256) :: u8 f.id :: u8 (f.ff / 256) :: u8 f.ff :: u8 f.ttl :: u8 f.proto :: e0 :: e1 :: (f.src ++ f.dst ++ f.opts)) := by
  unfold emitAt
  simp only [ip4Hdr, putBe16, List.cons_append, List.nil_append, put16At_shape10, List.append_assoc]
  exact ⟨_, _, rfl⟩

/-- the IPv4 decoder hands exactly the emitted header to VerifyChecksum -/
theorem ip4Contents_emitted (f : Ip4F) (payload : Bytes) (hs : f.src.length = 4) (hd : f.dst.length = 4)
    (ho4 : f.opts.length % 4 = 0) (ho : f.opts.length ≤ 40) (hok : ip4OptsOk 64 f.opts = true)
    (htot : 20 + f.opts.length + payload.length < 65536) :
    ip4Contents (emitIp4 f payload) = some (emitAt 0 10 postId (ip4Hdr f payload.length)) := by
  have hHlen : (emitAt 0 10 postId (ip4Hdr f payload.length)).length = 20 + f.opts.length := by
    rw [emitAt_length postId (by rw [ip4Hdr_length]; omega), ip4Hdr_length]; omega
  obtain ⟨e0, e1, hsH⟩ := emitIp4_shape f payload.length
  unfold emitIp4
  generalize emitAt 0 10 postId (ip4Hdr f payload.length) = H at *
  have htake : (H ++ payload).take (20 + f.opts.length) = H := by
    rw [List.take_append, hHlen, Nat.sub_self, List.take_zero, List.append_nil, ← hHlen, List.take_length]
  have hdrop : H.drop 20 = f.opts := by
    obtain ⟨a, b, c, d, hsrc⟩ := len4 f.src hs
    obtain ⟨a', b', c', d', hdst⟩ := len4 f.dst hd
    rw [hsH, hsrc, hdst]; simp
  have hdl : (H ++ payload).length = 20 + f.opts.length + payload.length := by rw [List.length_append, hHlen]
  have e4 : (5 + f.opts.length / 4) * 4 = 20 + f.opts.length := by omega
  have key := ip4Contents_shape (u8 (64 + (5 + f.opts.length / 4))) (u8 f.tos) (u8 ((20 + f.opts.length + payload.length) % 65536 / 256))
    (u8 ((20 + f.opts.length + payload.length) % 65536))
    ((u8 (f.id / 256) :: u8 f.id :: u8 (f.ff / 256) :: u8 f.ff :: u8 f.ttl :: u8 f.proto :: e0 :: e1 :: (f.src ++ f.dst ++ f.opts)) ++ payload)
    (20 + f.opts.length + payload.length) (5 + f.opts.length / 4)
    (by simp only [be16, u8_toNat]; omega) (by rw [u8_toNat]; omega)
    (by rw [← List.cons_append, ← List.cons_append, ← List.cons_append, ← List.cons_append, ← hsH]; exact hdl)
    (by omega) (by omega) (by omega)
    (by rw [← List.cons_append, ← List.cons_append, ← List.cons_append, ← List.cons_append, ← hsH, e4, htake, hdrop]; exact hok)
  rw [← List.cons_append, ← List.cons_append, ← List.cons_append, ← List.cons_append, ← hsH, e4, htake] at key
  exact key

theorem put16At_shape16 (x0 x1 x2 x3 x4 x5 x6 x7 x8 x9 x10 x11 x12 x13 x14 x15 x16 x17 : UInt8) (rest : Bytes) (v : Nat) :
    put16At (x0 :: x1 :: x2 :: x3 :: x4 :: x5 :: x6 :: x7 :: x8 :: x9 :: x10 :: x11 :: x12 :: x13 :: x14 :: x15 :: x16 :: x17 :: rest) 16 v =
      x0 :: x1 :: x2 :: x3 :: x4 :: x5 :: x6 :: x7 :: x8 :: x9 :: x10 :: x11 :: x12 :: x13 :: x14 :: x15 :: u8 (v / 256) :: u8 v :: rest := by
  simp [put16At, putBe16]

theorem emitTcp_shape (net : Net) (f : TcpF) (payload : Bytes) :
    ∃ x0 x1 x2 x3 x4 x5 x6 x7 x8 x9 x10 x11 x13 x14 x15 e0 e1 u0 u1, emitTcp net f payload =
      x0 :: x1 :: x2 :: x3 :: x4 :: x5 :: x6 :: x7 :: x8 :: x9 :: x10 :: x11 ::
      u8 ((((20 + f.opts.length) / 4) * 4096 + f.flags) / 256) :: x13 :: x14 :: x15 :: e0 :: e1 :: u0 :: u1 :: (f.opts ++ payload) := by
  unfold emitTcp emitAt
  simp only [tcpHdr, putBe16, putBe32, List.cons_append, List.nil_append, put16At_shape16]
  exact ⟨_, _, _, _, _, _, _, _, _, _, _, _, _, _, _, _, _, _, _, rfl⟩

/-- the TCP decoder accepts the emitted segment iff its options walk accepts the options that were written -/
theorem tcpDelim_emitted (net : Net) (f : TcpF) (payload : Bytes) (ho4 : f.opts.length % 4 = 0) (ho : f.opts.length ≤ 40)
    (hf : f.flags < 512) :
    tcpDelim (emitTcp net f payload) = tcpOptsCheck 64 f.opts := by
  obtain ⟨x0, x1, x2, x3, x4, x5, x6, x7, x8, x9, x10, x11, x13, x14, x15, e0, e1, u0, u1, hs⟩ := emitTcp_shape net f payload
  rw [hs]
  have hb : (u8 ((((20 + f.opts.length) / 4) * 4096 + f.flags) / 256)).toNat / 16 = (20 + f.opts.length) / 4 := by
    rw [u8_toNat]; omega
  have hd4 : (20 + f.opts.length) / 4 * 4 = 20 + f.opts.length := by omega
  simp only [tcpDelim, List.length_cons, List.length_append, List.drop_succ_cons, List.drop_zero, hb, hd4]
  rw [if_neg (by omega), if_neg (by omega), if_neg (by omega)]
  congr 1
  have : 20 + f.opts.length = f.opts.length + 20 := by omega
  rw [this]
  simp [List.take_succ_cons]

end Gp.CksumEmit
