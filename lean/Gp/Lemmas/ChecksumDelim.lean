import Gp.Lemmas.ChecksumPseudo
/-
  Helper lemmas for C08: what the decoders hand to VerifyChecksum (UDP length-field delimitation,
  GRE stored checksum), on emitted and on bit-flipped segments.
-/
namespace Gp.CksumEmit
open Gp Gp.Cksum

theorem put16At_shape6 (a b c d e f g h : UInt8) (rest : Bytes) (v : Nat) :
    put16At (a :: b :: c :: d :: e :: f :: g :: h :: rest) 6 v = a :: b :: c :: d :: e :: f :: u8 (v / 256) :: u8 v :: rest := by
  simp [put16At, putBe16]

/-- the emitted UDP segment: ports, the FixLengths length word, two checksum bytes, the payload -/
theorem emitUdp_shape (net : Net) (sp dp : Nat) (payload : Bytes) :
    ∃ e0 e1, emitUdp net sp dp payload =
      u8 (sp / 256) :: u8 sp :: u8 (dp / 256) :: u8 dp :: u8 (udpLen net payload.length / 256) :: u8 (udpLen net payload.length) :: e0 :: e1 :: payload := by
  unfold emitUdp emitAt
  simp only [udpHdr, putBe16, List.cons_append, List.nil_append, put16At_shape6]
  exact ⟨_, _, rfl⟩

theorem greDecode_stored (data : Bytes) (st : Nat) (h : greDecode data = some (true, st)) :
    get16At? data 4 = some st := by
  unfold greDecode at h
  split at h
  · rename_i b0 b1 _ _ _
    simp only at h
    split at h
    · cases h
    · rename_i stored hs
      repeat' split at h
      all_goals first | cases h | skip
      all_goals (
        simp only [Option.some.injEq, Prod.mk.injEq] at h
        obtain ⟨hc, rfl⟩ := h
        simp only [hc, Bool.true_or, if_true] at hs
        exact hs)
  · cases h

theorem udpDelim_shape (a b c d l0 l1 e0 e1 : UInt8) (p : Bytes) (L : Nat) (h0 : l0 = u8 (L / 256)) (h1 : l1 = u8 L)
    (hL : L < 65536) (hc : L = 8 + p.length ∨ L = 0) :
    udpDelim (a :: b :: c :: d :: l0 :: l1 :: e0 :: e1 :: p) = some (a :: b :: c :: d :: l0 :: l1 :: e0 :: e1 :: p) := by
  have hb : be16 l0 l1 = L := by subst h0 h1; simp only [be16, u8_toNat]; omega
  simp only [udpDelim, hb]
  rcases hc with hc | hc
  · rw [if_pos (by omega)]
    have : (if L > (a :: b :: c :: d :: l0 :: l1 :: e0 :: e1 :: p).length then (a :: b :: c :: d :: l0 :: l1 :: e0 :: e1 :: p).length else L) = (a :: b :: c :: d :: l0 :: l1 :: e0 :: e1 :: p).length := by
      simp only [List.length_cons]; split <;> omega
    rw [this, List.take_length]
  · rw [if_neg (by omega), if_pos hc]

theorem flipBit_udp_shape (a b c d l0 l1 e0 e1 : UInt8) (p : Bytes) (i : Nat) (h4 : i / 8 ≠ 4) (h5 : i / 8 ≠ 5) :
    ∃ a' b' c' d' e0' e1' p', flipBit (a :: b :: c :: d :: l0 :: l1 :: e0 :: e1 :: p) i = a' :: b' :: c' :: d' :: l0 :: l1 :: e0' :: e1' :: p' ∧
      p'.length = p.length := by
  simp only [flipBit]
  repeat' split
  all_goals first
    | exact ⟨_, _, _, _, _, _, _, rfl, rfl⟩
    | exact ⟨_, _, _, _, _, _, _, rfl, length_flipBit _ _⟩
    | omega

end Gp.CksumEmit
