/-
  Transfer of the history-indexed results (completeness) from offset space to the model with the real
  sequence arithmetic: the traces of the two runs agree up to the sequence numbers inside `fed`.
-/
import Gp.Lemmas.AsmWrap
import Gp.Lemmas.AsmCover

namespace Gp.Asm

def liftHEv (i : Int) : HEv → HEv
  | .fed s => .fed (liftSeg i s)
  | e => e

def liftEntry (I : Nat → Int) (e : Nat × Nat × HEv) : Nat × Nat × HEv := (e.1, e.2.1, liftHEv (I e.1) e.2.2)

theorem liftEntry_toT (I : Nat → Int) (e : Ev) : liftEntry I (toT e) = toT e := by
  cases e <;> rfl

theorem map_liftEntry_toT (I : Nat → Int) (evs : List Ev) : (evs.map toT).map (liftEntry I) = evs.map toT := by
  induction evs with
  | nil => rfl
  | cons e evs ih => simp only [List.map_cons, ih, liftEntry_toT]

theorem received_lift (I : Nat → Int) (P : Pool) (s : Seg) :
    received (liftPool I P) (liftSeg (I s.key) s) = received P s := by
  unfold received
  show (!(!s.syn && !s.fin && !s.rst && s.bytes.isEmpty) && ((lookup s.key (liftConns I P.conns)).isSome || !(!s.syn && s.bytes.isEmpty))) = _
  rw [lookup_lift]
  cases lookup s.key P.conns <;> rfl

theorem opTrace_lift (I : Nat → Int) (P : Pool) (op : Op) (out : OpOut) :
    opTrace (liftPool I P) (liftOp I op) out = (opTrace P op out).map (liftEntry I) := by
  cases op with
  | seg s =>
    show opTrace (liftPool I P) (.seg (liftSeg (I s.key) s)) out = _
    rw [opTrace_seg, opTrace_seg, received_lift]
    split
    · show (match lookup s.key (liftConns I P.conns) with | some c => _ | none => _) = _
      rw [lookup_lift]
      cases lookup s.key P.conns with
      | some c =>
        simp only [Option.map, List.map_cons, map_liftEntry_toT]
        rfl
      | none =>
        simp only [Option.map, List.map_cons, map_liftEntry_toT]
        rfl
    · rfl
  | opt a b => show out.evs.map toT = _; rw [show opTrace P (.opt a b) out = out.evs.map toT from rfl, map_liftEntry_toT]
  | flush T ca => show out.evs.map toT = _; rw [show opTrace P (.flush T ca) out = out.evs.map toT from rfl, map_liftEntry_toT]
  | flushAll => show out.evs.map toT = _; rw [show opTrace P .flushAll out = out.evs.map toT from rfl, map_liftEntry_toT]

theorem runTrace_sim (Sf : Nat → Bytes) (hS : ∀ k, (Sf k).length + 2 < 1073741824) (I : Nat → Int)
    (P : Pool) (log : List Ev) (ops : List Op) (h : LogInv (FlatR Sf) (FlatD Sf) P log)
    (hops : ∀ op ∈ ops, FlatOpOk Sf op) :
    runTrace wrapArith (liftPool I P) (ops.map (liftOp I)) = (runTrace flatArith P ops).map (liftEntry I) := by
  induction ops generalizing P log with
  | nil => rfl
  | cons op ops ih =>
    obtain ⟨x, hx, hq⟩ := step_logInv (flat_streamInv Sf) P log op h (hops op List.mem_cons_self)
    simp only [List.map_cons, runTrace]
    rw [step_sim Sf hS I P log op h (hops op List.mem_cons_self), hx]
    show opTrace (liftPool I P) (liftOp I op) x.2 ++ runTrace wrapArith (liftPool I x.1) (ops.map (liftOp I)) = _
    rw [opTrace_lift, ih x.1 _ hq (fun o ho => hops o (List.mem_cons_of_mem _ ho)), List.map_append]

theorem histOf_map_lift (I : Nat → Int) (k sid : Nat) (tr : Trace) :
    histOf k sid (tr.map (liftEntry I)) = (histOf k sid tr).map (liftHEv (I k)) := by
  induction tr with
  | nil => rfl
  | cons e tr ih =>
    obtain ⟨k', sid', ev⟩ := e
    unfold histOf at ih ⊢
    simp only [List.map_cons, List.filterMap_cons, liftEntry]
    by_cases hc : k' = k ∧ sid' = sid
    · obtain ⟨e1, e2⟩ := hc
      subst e1; subst e2
      simp only [and_self, if_true, List.map_cons]
      rw [ih]
    · simp only [hc, if_false]
      exact ih

theorem gotItems_map_lift (i : Int) (h : List HEv) : gotItems (h.map (liftHEv i)) = gotItems h := by
  induction h with
  | nil => rfl
  | cons e h ih => cases e <;> simp [gotItems, liftHEv, ih]

/-! ### fed entries of a trace come from the operations -/

theorem fed_of_opTrace (P : Pool) (op : Op) (out : OpOut) (k sid : Nat) (f : Seg)
    (h : (k, sid, HEv.fed f) ∈ opTrace P op out) : op = .seg f := by
  have hT : ∀ evs : List Ev, (k, sid, HEv.fed f) ∉ evs.map toT := by
    intro evs hm
    obtain ⟨e, _, he⟩ := List.mem_map.1 hm
    cases e <;> cases he
  cases op with
  | seg s =>
    rw [opTrace_seg] at h
    split at h
    · split at h
      · rcases List.mem_cons.1 h with e | e
        · cases e; rfl
        · exact absurd e (hT _)
      · rcases List.mem_cons.1 h with e | e
        · cases e
        · rcases List.mem_cons.1 e with e | e
          · cases e; rfl
          · exact absurd e (hT _)
    · simp at h
  | opt a b => exact absurd h (hT _)
  | flush T ca => exact absurd h (hT _)
  | flushAll => exact absurd h (hT _)

theorem fed_of_runTrace (A : SeqArith) (P : Pool) (ops : List Op) (k sid : Nat) (f : Seg)
    (h : (k, sid, HEv.fed f) ∈ runTrace A P ops) : Op.seg f ∈ ops := by
  induction ops generalizing P with
  | nil => simp [runTrace] at h
  | cons op ops ih =>
    simp only [runTrace] at h
    cases hs : step A P op with
    | ok x =>
      rw [hs] at h
      rcases List.mem_append.1 h with a | a
      · rw [← fed_of_opTrace P op x.2 k sid f a]; exact List.mem_cons_self
      · exact List.mem_cons_of_mem _ (ih x.1 a)
    | err e => rw [hs] at h; simp at h
    | panic q => rw [hs] at h; simp at h

theorem fed_key_opTrace (P : Pool) (op : Op) (out : OpOut) (k sid : Nat) (f : Seg)
    (h : (k, sid, HEv.fed f) ∈ opTrace P op out) : f.key = k := by
  have hT : ∀ evs : List Ev, (k, sid, HEv.fed f) ∉ evs.map toT := by
    intro evs hm
    obtain ⟨e, _, he⟩ := List.mem_map.1 hm
    cases e <;> cases he
  cases op with
  | seg s =>
    rw [opTrace_seg] at h
    split at h
    · split at h
      · rcases List.mem_cons.1 h with e | e
        · cases e; rfl
        · exact absurd e (hT _)
      · rcases List.mem_cons.1 h with e | e
        · cases e
        · rcases List.mem_cons.1 e with e | e
          · cases e; rfl
          · exact absurd e (hT _)
    · simp at h
  | opt a b => exact absurd h (hT _)
  | flush T ca => exact absurd h (hT _)
  | flushAll => exact absurd h (hT _)

theorem fed_key (A : SeqArith) (P : Pool) (ops : List Op) (k sid : Nat) (f : Seg)
    (h : (k, sid, HEv.fed f) ∈ runTrace A P ops) : f.key = k := by
  induction ops generalizing P with
  | nil => simp [runTrace] at h
  | cons op ops ih =>
    simp only [runTrace] at h
    cases hs : step A P op with
    | ok x =>
      rw [hs] at h
      rcases List.mem_append.1 h with a | a
      · exact fed_key_opTrace P op x.2 k sid f a
      · exact ih x.1 a
    | err e => rw [hs] at h; simp at h
    | panic q => rw [hs] at h; simp at h

theorem mem_histOf (k sid : Nat) (tr : Trace) (e : HEv) : e ∈ histOf k sid tr ↔ (k, sid, e) ∈ tr := by
  unfold histOf
  rw [List.mem_filterMap]
  constructor
  · rintro ⟨⟨k', sid', e'⟩, hm, he⟩
    dsimp only at he
    split at he
    · rename_i hc; cases he; obtain ⟨a, b⟩ := hc; subst a; subst b; exact hm
    · cases he
  · intro hm
    exact ⟨(k, sid, e), hm, by simp⟩

/-! ### completeness with the real arithmetic -/

theorem covW_lift (S : Bytes) (hS : S.length + 2 < 1073741824) (isn : Nat) (hi : isn < 4294967296)
    (f : Seg) (hf : FlatSegOk S f) (x : Nat) (h : covW isn (liftSeg (isn : Int) f) x) : covF f x := by
  unfold FlatSegOk at hf
  rcases h with ⟨a, b⟩ | ⟨a, b, c⟩
  · exact Or.inl ⟨a, by show (x : Int) < (f.bytes.length : Int); have : (liftSeg (isn : Int) f).bytes = f.bytes := rfl; rw [this] at b; omega⟩
  · have hsyn : f.syn = false := a
    rw [if_neg (by simp [hsyn])] at hf
    obtain ⟨off, h1, h2, _⟩ := hf
    have hoff : offW isn (liftSeg (isn : Int) f) = off := by
      unfold offW
      show (((wseq (isn : Int) f.seq) - (isn : Int) - 1) % 4294967296).toNat = off
      rw [h1]; unfold wseq; omega
    rw [hoff] at b c
    have hb : (liftSeg (isn : Int) f).bytes = f.bytes := rfl
    rw [hb] at c
    exact Or.inr ⟨hsyn, by rw [h1]; omega, by rw [h1]; omega⟩

theorem wrap_complete (snd : Nat → Sender) (hsnd : SendersOk snd) (ops : List Op)
    (hops : ∀ op ∈ ops, OpOk snd op) :
    ∃ P outs, run wrapArith {} ops = .ok (P, outs) ∧
      ∀ k sid, ∃ pos, replay (snd k).S none (gotItems (histOf k sid (runTrace wrapArith {} ops))) pos ∧
        (synFed (histOf k sid (runTrace wrapArith {} ops)) →
          (∀ x, x < (snd k).S.length → fedOffsW (snd k).isn (histOf k sid (runTrace wrapArith {} ops)) x) →
          pos = some (snd k).S.length) := by
  obtain ⟨fops, e1, e2⟩ := ops_to_flat snd hsnd ops hops
  obtain ⟨x, h1, h2⟩ := flat_complete (streamOf snd) fops e2
  have hinit : LogInv (FlatR (streamOf snd)) (FlatD (streamOf snd)) {} [] := logInv_init (fun k => ⟨none, rfl⟩)
  have hsim := run_sim (streamOf snd) (fun k => (hsnd k).2) (isnOf snd) {} [] fops hinit e2
  have htr := runTrace_sim (streamOf snd) (fun k => (hsnd k).2) (isnOf snd) {} [] fops hinit e2
  rw [h1] at hsim
  refine ⟨liftPool (isnOf snd) x.1, x.2, by rw [e1]; exact hsim, fun k sid => ?_⟩
  obtain ⟨pos, r1, r2⟩ := h2 k sid
  rw [e1]
  have hP0 : liftPool (isnOf snd) ({} : Pool) = {} := rfl
  rw [hP0] at htr
  rw [htr, histOf_map_lift, gotItems_map_lift]
  refine ⟨pos, r1, fun hsyn hall => r2 ?_ ?_⟩
  · obtain ⟨s', hs', hsy⟩ := hsyn
    obtain ⟨e, he, hee⟩ := List.mem_map.1 hs'
    cases e with
    | fed f => simp only [liftHEv, HEv.fed.injEq] at hee; exact ⟨f, he, by rw [← hee] at hsy; exact hsy⟩
    | created => cases hee
    | got i => cases hee
    | completed => cases hee
  · intro y hy
    obtain ⟨s', hs', hcv⟩ := hall y hy
    obtain ⟨e, he, hee⟩ := List.mem_map.1 hs'
    cases e with
    | fed f =>
      simp only [liftHEv, HEv.fed.injEq] at hee
      have hfop : Op.seg f ∈ fops := fed_of_runTrace flatArith {} fops k sid f ((mem_histOf k sid _ _).1 he)
      have hfok : FlatSegOk (streamOf snd f.key) f := e2 _ hfop
      -- the key of a segment in the history of (k, sid) is k
      have hkey : f.key = k := by
        have := (mem_histOf k sid _ _).1 he
        exact fed_key flatArith {} fops k sid f this
      rw [hkey] at hfok
      refine ⟨f, he, covW_lift (snd k).S (hsnd k).2 (snd k).isn (hsnd k).1 f hfok y ?_⟩
      rw [← hee] at hcv
      exact hcv
    | created => cases hee
    | got i => cases hee
    | completed => cases hee

end Gp.Asm
