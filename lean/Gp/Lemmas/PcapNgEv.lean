import Gp.Lemmas.PcapNgHang
/-
  Big-step evaluation of reader programs "for all sufficiently large fuel" (`Ev` / `EvF`), and on top of
  it a small parsing logic: `Eats p s bs Q` — started in state `s` on ANY stream that begins with the
  bytes `bs`, program `p` succeeds, consumes exactly `bs` (the rest of the stream, the wrap counter are
  untouched) and ends with a result and state satisfying `Q`.  Used for the round-trip theorem (C14).
-/
namespace Gp.PcapNg
open Gp.Gen.PcapNg

/-- for all sufficiently large fuel, `p` started in `(s, w)` returns `a` in `(s', w')` -/
def Ev {α} (p : Prog α) (s : S) (w : Strm) (a : α) (s' : S) (w' : Strm) : Prop :=
  ∃ f0, ∀ f, f0 ≤ f → run f p s w = .ok a s' w'

/-- for all sufficiently large fuel, `p` started in `(s, w)` fails with `e` in `(s', w')` -/
def EvF {α} (p : Prog α) (s : S) (w : Strm) (e : Err) (s' : S) (w' : Strm) : Prop :=
  ∃ f0, ∀ f, f0 ≤ f → run f p s w = (.fail e s' w' : Out α)

theorem Ev.pure {α} (a : α) (s : S) (w : Strm) : Ev (Pure.pure a : Prog α) s w a s w := ⟨0, fun _ _ => rfl⟩

theorem Ev.bind {α β} {m : Prog α} {g : α → Prog β} {s s1 s2 : S} {w w1 w2 : Strm} {a : α} {b : β}
    (h1 : Ev m s w a s1 w1) (h2 : Ev (g a) s1 w1 b s2 w2) : Ev (m >>= g) s w b s2 w2 := by
  obtain ⟨f1, h1⟩ := h1
  obtain ⟨f2, h2⟩ := h2
  refine ⟨max f1 f2, fun f hf => ?_⟩
  rw [run_bind', h1 f (by omega)]
  exact h2 f (by omega)

theorem Ev.act {α} {g : Act α} {s s' : S} {w : Strm} {a : α} (h : g s = (.ok a, s')) : Ev (Prog.act g) s w a s' w :=
  ⟨0, fun f _ => by rw [run_act', h]⟩

theorem Ev.io {α} {p : Prim α} {s : S} {w w' : Strm} {a : α} (h : p.run w = (.ok a, w')) : Ev (Prog.io p) s w a s w' :=
  ⟨0, fun f _ => by simp only [run, h]⟩

theorem EvF.bind_left {α β} {m : Prog α} {g : α → Prog β} {s s1 : S} {w w1 : Strm} {e : Err}
    (h1 : EvF m s w e s1 w1) : EvF (m >>= g) s w e s1 w1 := by
  obtain ⟨f1, h1⟩ := h1
  refine ⟨f1, fun f hf => ?_⟩
  rw [run_bind', h1 f hf]

theorem EvF.bind_right {α β} {m : Prog α} {g : α → Prog β} {s s1 s2 : S} {w w1 w2 : Strm} {a : α} {e : Err}
    (h1 : Ev m s w a s1 w1) (h2 : EvF (g a) s1 w1 e s2 w2) : EvF (m >>= g) s w e s2 w2 := by
  obtain ⟨f1, h1⟩ := h1
  obtain ⟨f2, h2⟩ := h2
  refine ⟨max f1 f2, fun f hf => ?_⟩
  rw [run_bind', h1 f (by omega)]
  exact h2 f (by omega)

theorem EvF.io {α} {p : Prim α} {s : S} {w w' : Strm} {e : Err} (h : p.run w = (.error e, w')) :
    EvF (Prog.io p) s w e s w' :=
  ⟨0, fun f _ => by simp only [run, h]⟩

theorem EvF.act {α} {g : Act α} {s s' : S} {w : Strm} {e : Err} (h : g s = (.error e, s')) :
    EvF (Prog.act g) s w e s' w :=
  ⟨0, fun f _ => by rw [run_act', h]⟩

/-! ### loops -/

def EvI {α} (body : Prog (Step α)) (s : S) (w : Strm) (a : α) (s' : S) (w' : Strm) : Prop :=
  ∃ f0 n0, ∀ f n, f0 ≤ f → n0 ≤ n → runIter (run f body) n s w = .ok a s' w'

def EvFI {α} (body : Prog (Step α)) (s : S) (w : Strm) (e : Err) (s' : S) (w' : Strm) : Prop :=
  ∃ f0 n0, ∀ f n, f0 ≤ f → n0 ≤ n → runIter (run f body) n s w = (.fail e s' w' : Out α)

theorem EvI.done {α} {body : Prog (Step α)} {s s' : S} {w w' : Strm} {a : α}
    (h : Ev body s w (.done a) s' w') : EvI body s w a s' w' := by
  obtain ⟨f0, h⟩ := h
  refine ⟨f0, 1, fun f n hf hn => ?_⟩
  cases n with
  | zero => omega
  | succ n => simp only [runIter, h f hf]

theorem EvI.again {α} {body : Prog (Step α)} {s s1 s2 : S} {w w1 w2 : Strm} {a : α}
    (h : Ev body s w .again s1 w1) (h2 : EvI body s1 w1 a s2 w2) : EvI body s w a s2 w2 := by
  obtain ⟨f0, h⟩ := h
  obtain ⟨f1, n1, h2⟩ := h2
  refine ⟨max f0 f1, n1 + 1, fun f n hf hn => ?_⟩
  cases n with
  | zero => omega
  | succ n =>
    simp only [runIter, h f (by omega)]
    exact h2 f n (by omega) (by omega)

theorem EvFI.fail {α} {body : Prog (Step α)} {s s' : S} {w w' : Strm} {e : Err}
    (h : EvF body s w e s' w') : EvFI (α := α) body s w e s' w' := by
  obtain ⟨f0, h⟩ := h
  refine ⟨f0, 1, fun f n hf hn => ?_⟩
  cases n with
  | zero => omega
  | succ n => simp only [runIter, h f hf]

theorem EvFI.again {α} {body : Prog (Step α)} {s s1 s2 : S} {w w1 w2 : Strm} {e : Err}
    (h : Ev body s w .again s1 w1) (h2 : EvFI (α := α) body s1 w1 e s2 w2) : EvFI (α := α) body s w e s2 w2 := by
  obtain ⟨f0, h⟩ := h
  obtain ⟨f1, n1, h2⟩ := h2
  refine ⟨max f0 f1, n1 + 1, fun f n hf hn => ?_⟩
  cases n with
  | zero => omega
  | succ n =>
    simp only [runIter, h f (by omega)]
    exact h2 f n (by omega) (by omega)

theorem Ev.iter {α} {body : Prog (Step α)} {s s' : S} {w w' : Strm} {a : α}
    (h : EvI body s w a s' w') : Ev (Prog.iter body) s w a s' w' := by
  obtain ⟨f0, n0, h⟩ := h
  refine ⟨max f0 n0, fun f hf => ?_⟩
  simp only [run]
  exact h f f (by omega) (by omega)

theorem EvF.iter {α} {body : Prog (Step α)} {s s' : S} {w w' : Strm} {e : Err}
    (h : EvFI (α := α) body s w e s' w') : EvF (Prog.iter body) s w e s' w' := by
  obtain ⟨f0, n0, h⟩ := h
  refine ⟨max f0 n0, fun f hf => ?_⟩
  simp only [run]
  exact h f f (by omega) (by omega)

/-! ### from "sufficiently large fuel" to the fuel of the entry points -/

theorem Ev.at_fuel {α} {p : Prog α} {s s' : S} {w w' : Strm} {a : α} (h : Ev p s w a s' w') (nh : NoHang p)
    {f : Nat} (hf : w.inp.length < f) : run f p s w = .ok a s' w' := by
  obtain ⟨f0, h⟩ := h
  have h1 := run_fuel p f (max f0 f) (by omega) s w (nh f s w hf)
  rw [← h1]
  exact h _ (by omega)

theorem EvF.at_fuel {α} {p : Prog α} {s s' : S} {w w' : Strm} {e : Err} (h : EvF p s w e s' w') (nh : NoHang p)
    {f : Nat} (hf : w.inp.length < f) : run f p s w = .fail e s' w' := by
  obtain ⟨f0, h⟩ := h
  have h1 := run_fuel p f (max f0 f) (by omega) s w (nh f s w hf)
  rw [← h1]
  exact h _ (by omega)

/-! ### the parsing logic -/

/-- `p` eats exactly `bs` -/
def Eats {α} (p : Prog α) (s : S) (bs : Bytes) (Q : α → S → Prop) : Prop :=
  ∀ rest ev nw, ∃ a s' ev', Q a s' ∧ Ev p s ⟨bs ++ rest, ev, nw⟩ a s' ⟨rest, ev', nw⟩

theorem Eats.pure {α} {a : α} {s : S} {Q : α → S → Prop} (h : Q a s) : Eats (Pure.pure a : Prog α) s [] Q :=
  fun rest ev nw => ⟨a, s, ev, h, Ev.pure a s _⟩

theorem Eats.bind {α β} {m : Prog α} {g : α → Prog β} {s : S} {bs b1 b2 : Bytes} {R : α → S → Prop} {Q : β → S → Prop}
    (hb : bs = b1 ++ b2) (h1 : Eats m s b1 R) (h2 : ∀ a s1, R a s1 → Eats (g a) s1 b2 Q) : Eats (m >>= g) s bs Q := by
  intro rest ev nw
  subst hb
  obtain ⟨a, s1, ev1, hr, he1⟩ := h1 (b2 ++ rest) ev nw
  obtain ⟨b, s2, ev2, hq, he2⟩ := h2 a s1 hr rest ev1 nw
  refine ⟨b, s2, ev2, hq, ?_⟩
  rw [List.append_assoc]
  exact Ev.bind he1 he2

/-- bind whose first part eats nothing -/
theorem Eats.bind0 {α β} {m : Prog α} {g : α → Prog β} {s : S} {bs : Bytes} {R : α → S → Prop} {Q : β → S → Prop}
    (h1 : Eats m s [] R) (h2 : ∀ a s1, R a s1 → Eats (g a) s1 bs Q) : Eats (m >>= g) s bs Q :=
  Eats.bind (List.nil_append bs).symm h1 h2

/-- bind whose second part eats nothing -/
theorem Eats.bind1 {α β} {m : Prog α} {g : α → Prog β} {s : S} {bs : Bytes} {R : α → S → Prop} {Q : β → S → Prop}
    (h1 : Eats m s bs R) (h2 : ∀ a s1, R a s1 → Eats (g a) s1 [] Q) : Eats (m >>= g) s bs Q :=
  Eats.bind (List.append_nil bs).symm h1 h2

theorem Eats.weaken {α} {p : Prog α} {s : S} {bs : Bytes} {Q Q' : α → S → Prop}
    (h : Eats p s bs Q) (hq : ∀ a s', Q a s' → Q' a s') : Eats p s bs Q' := by
  intro rest ev nw
  obtain ⟨a, s', ev', h1, h2⟩ := h rest ev nw
  exact ⟨a, s', ev', hq a s' h1, h2⟩

theorem Eats.act {α} {g : Act α} {s s' : S} {a : α} {Q : α → S → Prop} (h : g s = (.ok a, s')) (hq : Q a s') :
    Eats (Prog.act g) s [] Q :=
  fun rest ev nw => ⟨a, s', ev, hq, Ev.act h⟩

theorem Eats.getS {s : S} {Q : S → S → Prop} (hq : Q s s) : Eats getS s [] Q := Eats.act rfl hq

theorem Eats.modS {g : S → S} {s : S} {Q : Unit → S → Prop} (hq : Q () (g s)) : Eats (modS g) s [] Q := Eats.act rfl hq

theorem take_append_len {b rest : Bytes} {n : Nat} (h : b.length = n) : (b ++ rest).take n = b := by
  rw [← h, List.take_left']
  rfl

theorem drop_append_len {b rest : Bytes} {n : Nat} (h : b.length = n) : (b ++ rest).drop n = rest := by
  rw [← h, List.drop_left']
  rfl

theorem takeN_append {b rest : Bytes} {n : Nat} (h : b.length = n) (e : Err) (ev : List MemEv) (nw : Nat) :
    takeN n e ⟨b ++ rest, ev, nw⟩ = (.ok b, ⟨rest, ev, nw⟩) := by
  unfold takeN
  have : n ≤ (b ++ rest).length := by rw [List.length_append]; omega
  simp only [this, if_true, take_append_len h, drop_append_len h]

theorem Eats.rd {b : Bytes} {n : Nat} {s : S} {Q : Bytes → S → Prop} (h : b.length = n) (hq : Q b s) :
    Eats (rd n) s b Q :=
  fun rest ev nw => ⟨b, s, ev, hq, Ev.io (by simp only [Prim.run]; exact takeN_append h _ _ _)⟩

theorem Eats.rd0 {b : Bytes} {n : Nat} {s : S} {Q : Bytes → S → Prop} (h : b.length = n) (hq : Q b s) :
    Eats (Prog.io (.rd0 n)) s b Q := by
  intro rest ev nw
  refine ⟨b, s, ev, hq, Ev.io ?_⟩
  have : n ≤ (b ++ rest).length := by rw [List.length_append]; omega
  simp only [Prim.run, this, if_true, take_append_len h, drop_append_len h]

theorem Eats.skip {b : Bytes} {n : Nat} {s : S} {Q : Unit → S → Prop} (h : b.length = n) (hq : Q () s) :
    Eats (Prog.io (.skip n)) s b Q := by
  intro rest ev nw
  refine ⟨(), s, ev, hq, Ev.io ?_⟩
  have : n ≤ (b ++ rest).length := by rw [List.length_append]; omega
  simp only [Prim.run, this, if_true, drop_append_len h]

theorem Eats.rdOpt {b : Bytes} {n : Nat} {s : S} {Q : Bytes → S → Prop} (h : b.length = n) (hn : n < 65536) (hq : Q b s) :
    Eats (Prog.io (.rdOpt n)) s b Q := by
  intro rest ev nw
  refine ⟨b, s, ev ++ [.opt (n % 65536)], hq, Ev.io ?_⟩
  simp only [Prim.run, Nat.mod_eq_of_lt hn]
  exact takeN_append h _ _ _

theorem Eats.rdData {b : Bytes} {n snap : Nat} {s : S} {Q : Bytes → S → Prop} (h : b.length = n) (hq : Q b s) :
    Eats (Prog.io (.rdData n snap)) s b Q := by
  intro rest ev nw
  refine ⟨b, s, ev ++ [.data n ((b ++ rest).take n) snap], hq, Ev.io ?_⟩
  simp only [Prim.run]
  exact takeN_append h _ _ _

/-- loops: `EatsI body s bs Q` = the loop with this body, entered in `s`, eats `bs` and ends with `Q` -/
def EatsI {α} (body : Prog (Step α)) (s : S) (bs : Bytes) (Q : α → S → Prop) : Prop :=
  ∀ rest ev nw, ∃ a s' ev', Q a s' ∧ EvI body s ⟨bs ++ rest, ev, nw⟩ a s' ⟨rest, ev', nw⟩

theorem Eats.iter {α} {body : Prog (Step α)} {s : S} {bs : Bytes} {Q : α → S → Prop}
    (h : EatsI body s bs Q) : Eats (Prog.iter body) s bs Q := by
  intro rest ev nw
  obtain ⟨a, s', ev', h1, h2⟩ := h rest ev nw
  exact ⟨a, s', ev', h1, Ev.iter h2⟩

/-- last iteration -/
theorem EatsI.done {α} {body : Prog (Step α)} {s : S} {bs : Bytes} {Q : α → S → Prop}
    (h : Eats body s bs (fun st s' => ∃ a, st = .done a ∧ Q a s')) : EatsI body s bs Q := by
  intro rest ev nw
  obtain ⟨st, s', ev', ⟨a, hst, hq⟩, h2⟩ := h rest ev nw
  subst hst
  exact ⟨a, s', ev', hq, EvI.done h2⟩

/-- one more iteration -/
theorem EatsI.again {α} {body : Prog (Step α)} {s : S} {bs b1 b2 : Bytes} {R : S → Prop} {Q : α → S → Prop}
    (hb : bs = b1 ++ b2) (h1 : Eats body s b1 (fun st s' => st = .again ∧ R s'))
    (h2 : ∀ s1, R s1 → EatsI body s1 b2 Q) : EatsI body s bs Q := by
  intro rest ev nw
  subst hb
  obtain ⟨st, s1, ev1, ⟨hst, hr⟩, he1⟩ := h1 (b2 ++ rest) ev nw
  subst hst
  obtain ⟨a, s2, ev2, hq, he2⟩ := h2 s1 hr rest ev1 nw
  refine ⟨a, s2, ev2, hq, ?_⟩
  rw [List.append_assoc]
  exact EvI.again he1 he2

/-! ### a loop followed by a continuation: peeling one iteration -/

theorem isHang_ok {α} (a : α) (s : S) (w : Strm) : (Out.ok a s w).isHang = false := rfl

/-- more loop fuel and more program fuel do not change a loop that ended -/
theorem runIter_mono {α} (body : Prog (Step α)) {f f' n n' : Nat} (hf : f ≤ f') (hn : n ≤ n') (s : S) (w : Strm)
    (hh : (runIter (run f body) n s w).isHang = false) :
    runIter (run f' body) n' s w = runIter (run f body) n s w :=
  runIter_fuel (run f body) (run f' body) (fun s w h => run_fuel body f f' hf s w h) n n' hn s w hh

theorem Ev.iter_bind_again {α β} {body : Prog (Step α)} {g : α → Prog β} {s s1 s2 : S} {w w1 w2 : Strm} {b : β}
    (h1 : Ev body s w .again s1 w1) (h2 : Ev (Prog.iter body >>= g) s1 w1 b s2 w2) :
    Ev (Prog.iter body >>= g) s w b s2 w2 := by
  obtain ⟨f1, h1⟩ := h1
  obtain ⟨f2, h2⟩ := h2
  refine ⟨max f1 f2 + 1, fun f hf => ?_⟩
  cases f with
  | zero => omega
  | succ f' =>
    have hb := h1 (f' + 1) (by omega)
    have h2' := h2 f' (by omega)
    rw [run_bind'] at h2' ⊢
    simp only [run] at h2' ⊢
    simp only [runIter, hb]
    cases hit : runIter (run f' body) f' s1 w1 with
    | fail e s3 w3 => rw [hit] at h2'; cases h2'
    | ok a s3 w3 =>
      rw [hit] at h2'
      simp only at h2'
      have hm := runIter_mono body (Nat.le_succ f') (Nat.le_refl f') s1 w1 (by rw [hit]; rfl)
      rw [hm, hit]
      simp only
      rw [run_fuel (g a) f' (f' + 1) (Nat.le_succ f') s3 w3 (by rw [h2']; rfl)]
      exact h2'

theorem EvF.iter_bind_again {α β} {body : Prog (Step α)} {g : α → Prog β} {s s1 s2 : S} {w w1 w2 : Strm} {e : Err}
    (he : e ≠ .hang) (h1 : Ev body s w .again s1 w1) (h2 : EvF (Prog.iter body >>= g) s1 w1 e s2 w2) :
    EvF (Prog.iter body >>= g) s w e s2 w2 := by
  have hnh : (Out.fail e s2 w2 : Out β).isHang = false := by
    cases e <;> first | rfl | exact absurd rfl he
  obtain ⟨f1, h1⟩ := h1
  obtain ⟨f2, h2⟩ := h2
  refine ⟨max f1 f2 + 1, fun f hf => ?_⟩
  cases f with
  | zero => omega
  | succ f' =>
    have hb := h1 (f' + 1) (by omega)
    have h2' := h2 f' (by omega)
    have key : run (f' + 1) (Prog.iter body >>= g) s1 w1 = .fail e s2 w2 := by
      rw [run_fuel (Prog.iter body >>= g) f' (f' + 1) (Nat.le_succ f') s1 w1 (by rw [h2']; exact hnh)]
      exact h2'
    rw [run_bind'] at h2' ⊢
    simp only [run] at h2' ⊢
    simp only [runIter, hb]
    cases hit : runIter (run f' body) f' s1 w1 with
    | fail e' s3 w3 =>
      rw [hit] at h2'
      simp only [Out.fail.injEq] at h2'
      obtain ⟨rfl, rfl, rfl⟩ := h2'
      have hnh' : (Out.fail e' s3 w3 : Out α).isHang = false := by
        cases e' <;> first | rfl | exact absurd rfl he
      have hm := runIter_mono body (Nat.le_succ f') (Nat.le_refl f') s1 w1 (by rw [hit]; exact hnh')
      rw [hm, hit]
    | ok a s3 w3 =>
      rw [hit] at h2'
      simp only at h2'
      have hm := runIter_mono body (Nat.le_succ f') (Nat.le_refl f') s1 w1 (by rw [hit]; rfl)
      rw [hm, hit]
      simp only
      rw [run_fuel (g a) f' (f' + 1) (Nat.le_succ f') s3 w3 (by rw [h2']; exact hnh)]
      exact h2'

theorem Eats.iter_bind_again {α β} {body : Prog (Step α)} {g : α → Prog β} {s : S} {bs b1 b2 : Bytes}
    {R : S → Prop} {Q : β → S → Prop} (hb : bs = b1 ++ b2)
    (h1 : Eats body s b1 (fun st s' => st = .again ∧ R s'))
    (h2 : ∀ s1, R s1 → Eats (Prog.iter body >>= g) s1 b2 Q) : Eats (Prog.iter body >>= g) s bs Q := by
  intro rest ev nw
  subst hb
  obtain ⟨st, s1, ev1, ⟨hst, hr⟩, he1⟩ := h1 (b2 ++ rest) ev nw
  subst hst
  obtain ⟨b, s2, ev2, hq, he2⟩ := h2 s1 hr rest ev1 nw
  refine ⟨b, s2, ev2, hq, ?_⟩
  rw [List.append_assoc]
  exact Ev.iter_bind_again he1 he2

/-- `p` eats all of `bs`, which is everything that is left, and then fails with io.EOF -/
def EatsEOF {α} (p : Prog α) (s : S) (bs : Bytes) (Q : S → Prop) : Prop :=
  ∀ ev nw, ∃ s' ev', Q s' ∧ EvF p s ⟨bs, ev, nw⟩ .eof s' ⟨[], ev', nw⟩

theorem EatsEOF.iter_bind_again {α β} {body : Prog (Step α)} {g : α → Prog β} {s : S} {bs b1 b2 : Bytes}
    {R : S → Prop} {Q : S → Prop} (hb : bs = b1 ++ b2)
    (h1 : Eats body s b1 (fun st s' => st = .again ∧ R s'))
    (h2 : ∀ s1, R s1 → EatsEOF (Prog.iter body >>= g) s1 b2 Q) : EatsEOF (Prog.iter body >>= g) s bs Q := by
  intro ev nw
  subst hb
  obtain ⟨st, s1, ev1, ⟨hst, hr⟩, he1⟩ := h1 b2 ev nw
  subst hst
  obtain ⟨s2, ev2, hq, he2⟩ := h2 s1 hr ev1 nw
  exact ⟨s2, ev2, hq, EvF.iter_bind_again (by intro h; cases h) he1 he2⟩

end Gp.PcapNg
