import Gp.Model.Pcap
/-
  Helper lemmas and the specification-side definitions used in the statements of
  Gp/Props/C14/Pcap.lean and Gp/Props/C15/Pcap.lean.
-/
namespace Gp.Pcap
open Gp.Gen.Pcap

/-! ## bytes -/

theorem u8_toNat (n : Nat) : (u8 n).toNat = n % 256 := by
  unfold u8
  simp [UInt8.toNat_ofNat']

theorem rd32_le_put (n : Nat) :
    rd32 false (u8 n) (u8 (n / 256)) (u8 (n / 65536)) (u8 (n / 16777216)) = n % 4294967296 := by
  simp only [rd32, be32, u8_toNat]
  simp
  omega

theorem rd16_le_put (n : Nat) : rd16 false (u8 n) (u8 (n / 256)) = n % 65536 := by
  simp only [rd16, be16, u8_toNat]
  simp
  omega

/-! ## specification side -/

/-- The packets the property quantifies over (decidable): capture length = |data| ≤ length,
    within the snap length written to the file header, timestamp and length representable
    in the 32-bit fields. -/
def WfPkt (snaplen : Nat) (p : Pkt) : Prop :=
  p.caplen = p.data.length ∧ p.caplen ≤ p.len ∧ p.len < 4294967296 ∧ p.caplen ≤ snaplen ∧
  p.sec < 4294967296 ∧ p.nsec < 1000000000

instance (snaplen : Nat) (p : Pkt) : Decidable (WfPkt snaplen p) := by
  unfold WfPkt; infer_instance

/-- The arguments of the WritePacket call for a packet. -/
def ciOf (p : Pkt) : CI := { sec := p.sec, nsec := p.nsec, caplen := p.caplen, len := p.len }

def inputs (ps : List Pkt) : List (CI × Bytes) := ps.map (fun p => (ciOf p, p.data))

/-- Timestamp truncated to the resolution of the file. -/
def truncTs (nanos : Bool) (p : Pkt) : Pkt :=
  { p with nsec := p.nsec / tsScaler nanos * tsScaler nanos }

/-- Number of records wholly contained in the first `j` bytes after the file header. -/
def whole : Nat → List Pkt → Nat
  | _, [] => 0
  | j, p :: ps => if 16 + p.data.length ≤ j then whole (j - (16 + p.data.length)) ps + 1 else 0

/-- The outcome after the last whole record when the record area is cut after `j` bytes and
    the stream then ends with io.EOF (`f = false`) or a read error (`f = true`). -/
def prefixEnd (f : Bool) : Nat → List Pkt → Stop
  | _, [] => if f then .ioerr else .eof
  | j, p :: ps =>
    if 16 + p.data.length ≤ j then prefixEnd f (j - (16 + p.data.length)) ps
    else if f then .ioerr else if j = 0 ∨ j = 16 then .eof else .ueof

/-- One record as the writer lays it out. -/
def encPkt (nanos : Bool) (p : Pkt) : Bytes := packetHeader nanos (ciOf p) ++ p.data

def encAll (nanos : Bool) : List Pkt → Bytes
  | [] => []
  | p :: ps => encPkt nanos p ++ encAll nanos ps

/-- The reader state right after a successfully parsed little-endian header. -/
def readerAt (nanos : Bool) (snaplen linktype : Nat) (s : Stream) (cap : Nat) : Reader :=
  { s := s, bigEndian := false, nanoFactor := if nanos then 1 else 1000, snaplen := snaplen,
    linkType := linktype, bufCap := cap }

/-! ## writer -/

theorem u32OfInt_nat (n : Nat) : u32OfInt (n : Int) = n % 4294967296 := by
  unfold u32OfInt
  omega

theorem writePacket_wf (nanos : Bool) (snaplen : Nat) (p : Pkt) (h : WfPkt snaplen p) :
    writePacket nanos (ciOf p) p.data = some (encPkt nanos p) := by
  obtain ⟨h1, h2, -⟩ := h
  unfold writePacket ciOf encPkt
  simp only
  rw [if_neg (by simp [h1]), if_neg (by omega)]
  rfl

theorem writePackets_wf (nanos : Bool) (snaplen : Nat) (ps : List Pkt) (h : ∀ p ∈ ps, WfPkt snaplen p) :
    writePackets nanos (inputs ps) = (encAll nanos ps, ps.map (fun _ => true)) := by
  induction ps with
  | nil => rfl
  | cons p ps ih =>
    have hp := writePacket_wf nanos snaplen p (h p (by simp))
    have ih' := ih (fun q hq => h q (by simp [hq]))
    simp only [inputs, List.map_cons, writePackets] at ih' ⊢
    rw [ih', hp]
    rfl

theorem fileHeader_length (nanos : Bool) (snaplen lt : Nat) : (fileHeader nanos snaplen lt).length = 24 := by
  simp [fileHeader, putLe32, putLe16, zeros]

theorem encPkt_length (nanos : Bool) (p : Pkt) : (encPkt nanos p).length = 16 + p.data.length := by
  simp [encPkt, packetHeader, putLe32]; omega

/-! ## reader: file header -/

theorem readFull_append (b rest : Bytes) (f : Bool) (n : Nat) (hn : b.length = n) (h0 : n ≠ 0) :
    readFull { data := b ++ rest, fail := f } n = .got b { data := rest, fail := f } := by
  unfold readFull
  rw [if_neg h0, if_pos (by simp; omega)]
  simp [← hn]

theorem readFull_short (s : Stream) (n : Nat) (h : s.data.length < n) :
    readFull s n = .stop (if s.fail then .ioerr else if s.data.length = 0 then .eof else .ueof) s.drained := by
  unfold readFull
  rw [if_neg (by omega), if_neg (by omega)]

theorem magic_us_val : rd32 false (u8 2712847316) (u8 10597059) (u8 41394) (u8 161) = 2712847316 := by
  simp [rd32, be32, u8_toNat]

theorem magic_ns_val : rd32 false (u8 2712812621) (u8 10596924) (u8 41394) (u8 161) = 2712812621 := by
  simp [rd32, be32, u8_toNat]

/-- NewReader on a header produced by WriteFileHeader (any gzip behaviour: the magic is not gzip's). -/
theorem openReader_fileHeader (gz : Stream → Option Stream) (nanos : Bool) (snaplen lt : Nat) (rest : Bytes) (f : Bool)
    (hs : snaplen < 4294967296) (hl : lt < 65536) :
    openReader gz { data := fileHeader nanos snaplen lt ++ rest, fail := f } =
      .ok (readerAt nanos snaplen lt { data := rest, fail := f } 0) [4096, 24] := by
  have e32s := rd32_le_put snaplen
  have e32l := rd32_le_put lt
  rw [Nat.mod_eq_of_lt hs] at e32s
  rw [Nat.mod_eq_of_lt (by omega : lt < 4294967296)] at e32l
  cases nanos
  · have e1 := rd16_le_put versionMajor
    have e2 := rd16_le_put versionMinor
    simp only [openReader, fileHeader, tsScaler, putLe32, putLe16, zeros, List.replicate, List.cons_append,
      List.nil_append, u8_toNat]
    rw [if_neg (by decide)]
    unfold readHeader
    rw [show ∀ (a0 a1 a2 a3 a4 a5 a6 a7 a8 a9 a10 a11 a12 a13 a14 a15 a16 a17 a18 a19 a20 a21 a22 a23 : UInt8),
      readFull { data := a0 :: a1 :: a2 :: a3 :: a4 :: a5 :: a6 :: a7 :: a8 :: a9 :: a10 :: a11 :: a12 :: a13 :: a14 :: a15 :: a16 :: a17 :: a18 :: a19 :: a20 :: a21 :: a22 :: a23 :: rest, fail := f } 24
        = .got [a0, a1, a2, a3, a4, a5, a6, a7, a8, a9, a10, a11, a12, a13, a14, a15, a16, a17, a18, a19, a20, a21, a22, a23] { data := rest, fail := f } from
      fun a0 a1 a2 a3 a4 a5 a6 a7 a8 a9 a10 a11 a12 a13 a14 a15 a16 a17 a18 a19 a20 a21 a22 a23 =>
        readFull_append [a0, a1, a2, a3, a4, a5, a6, a7, a8, a9, a10, a11, a12, a13, a14, a15, a16, a17, a18, a19, a20, a21, a22, a23] rest f 24 rfl (by decide)]
    simp only [e1, e2, e32s, e32l]
    simp [readerAt, magicMicroseconds, magicNanoseconds, magicNanosecondsBigendian, versionMajor, versionMinor,
      Nat.mod_eq_of_lt hl, magic_us_val]
  · have e1 := rd16_le_put versionMajor
    have e2 := rd16_le_put versionMinor
    simp only [openReader, fileHeader, tsScaler, putLe32, putLe16, zeros, List.replicate, List.cons_append,
      List.nil_append, u8_toNat]
    rw [if_neg (by decide)]
    unfold readHeader
    rw [show ∀ (a0 a1 a2 a3 a4 a5 a6 a7 a8 a9 a10 a11 a12 a13 a14 a15 a16 a17 a18 a19 a20 a21 a22 a23 : UInt8),
      readFull { data := a0 :: a1 :: a2 :: a3 :: a4 :: a5 :: a6 :: a7 :: a8 :: a9 :: a10 :: a11 :: a12 :: a13 :: a14 :: a15 :: a16 :: a17 :: a18 :: a19 :: a20 :: a21 :: a22 :: a23 :: rest, fail := f } 24
        = .got [a0, a1, a2, a3, a4, a5, a6, a7, a8, a9, a10, a11, a12, a13, a14, a15, a16, a17, a18, a19, a20, a21, a22, a23] { data := rest, fail := f } from
      fun a0 a1 a2 a3 a4 a5 a6 a7 a8 a9 a10 a11 a12 a13 a14 a15 a16 a17 a18 a19 a20 a21 a22 a23 =>
        readFull_append [a0, a1, a2, a3, a4, a5, a6, a7, a8, a9, a10, a11, a12, a13, a14, a15, a16, a17, a18, a19, a20, a21, a22, a23] rest f 24 rfl (by decide)]
    simp only [e1, e2, e32s, e32l]
    simp [readerAt, magicMicroseconds, magicNanoseconds, magicNanosecondsBigendian, versionMajor, versionMinor,
      Nat.mod_eq_of_lt hl, magic_ns_val, nanosPerNano, nanosPerMicro]

/-! ## reader: one record -/

/-- `r.packetBuf[:caplen]` never panics: the buffer was just made large enough. -/
theorem bufFor_ok (zc : Bool) (r : Reader) (caplen : Nat) : ¬ (zc = true ∧ (bufFor zc r caplen).1 < caplen) := by
  unfold bufFor
  intro ⟨hz, h⟩
  subst hz
  simp only [if_true] at h
  split at h
  · dsimp only at h
    split at h <;> omega
  · dsimp only at h; omega

theorem normTime_id (sec nsec : Nat) (h : nsec < 1000000000) : normTime sec nsec = (sec, nsec) := by
  unfold normTime
  congr 1 <;> omega

theorem frac_round (nanos : Bool) (nsec : Nat) (h : nsec < 1000000000) :
    (nsec / tsScaler nanos % 4294967296 * (if nanos then 1 else 1000)) % 4294967296
      = nsec / tsScaler nanos * tsScaler nanos ∧ nsec / tsScaler nanos * tsScaler nanos < 1000000000 := by
  cases nanos <;> simp [tsScaler, nanosPerNano, nanosPerMicro] <;> omega

/-- Reading one record laid out by the writer: the packet comes back (timestamp truncated to the
    file's resolution) and the stream is positioned after it. -/
theorem read_encPkt (zc nanos : Bool) (snaplen lt cap : Nat) (p : Pkt) (rest : Bytes) (f : Bool)
    (h : WfPkt snaplen p) :
    let r := readerAt nanos snaplen lt { data := encPkt nanos p ++ rest, fail := f } cap
    (read zc r).out = .pkt (truncTs nanos p) ∧
    (read zc r).r = readerAt nanos snaplen lt { data := rest, fail := f } (bufFor zc r p.caplen).1 := by
  obtain ⟨h1, h2, h3, h4, h5, h6⟩ := h
  intro r
  have hcl : p.caplen < 4294967296 := by omega
  have e_put : ∀ n : Nat, n < 4294967296 →
      rd32 false (u8 (u32OfInt (n : Int))) (u8 (u32OfInt (n : Int) / 256)) (u8 (u32OfInt (n : Int) / 65536))
        (u8 (u32OfInt (n : Int) / 16777216)) = n := by
    intro n hn
    rw [rd32_le_put, u32OfInt_nat, Nat.mod_mod, Nat.mod_eq_of_lt hn]
  have e_sec := e_put p.sec h5
  have e_cl := e_put p.caplen hcl
  have e_len := e_put p.len h3
  have e_fr := rd32_le_put (p.nsec / tsScaler nanos)
  obtain ⟨hfr, hfr2⟩ := frac_round nanos p.nsec h6
  have hrd : readFull r.s 16 =
      .got (packetHeader nanos (ciOf p)) { data := p.data ++ rest, fail := f } := by
    have := readFull_append (packetHeader nanos (ciOf p)) (p.data ++ rest) f 16
      (by simp [packetHeader, putLe32]) (by decide)
    simpa [r, readerAt, encPkt, List.append_assoc] using this
  have hdata : readFull { data := p.data ++ rest, fail := f } p.caplen = .got p.data { data := rest, fail := f } := by
    by_cases h0 : p.caplen = 0
    · have : p.data = [] := by
        have : p.data.length = 0 := by omega
        exact List.eq_nil_of_length_eq_zero this
      simp [readFull, h0, this]
    · exact readFull_append p.data rest f p.caplen h1.symm h0
  have hnp := bufFor_ok zc { r with s := { data := p.data ++ rest, fail := f } } p.caplen
  unfold read
  rw [hrd]
  simp only [packetHeader, ciOf, putLe32, List.cons_append, List.nil_append]
  simp only [e_sec, e_cl, e_len, e_fr, r, readerAt] at hnp ⊢
  rw [if_neg (by omega), if_neg (by omega)]
  unfold readData
  simp only [readerAt] at hnp ⊢
  rw [if_neg hnp, hdata]
  simp only [hfr, normTime_id _ _ hfr2]
  exact ⟨rfl, rfl⟩

/-- A record cut before its end: no packet; io.EOF when nothing of the header (or, after a whole
    header, nothing of the data) arrived, otherwise io.ErrUnexpectedEOF; the stream's own error
    if it fails. -/
theorem read_encPkt_cut (zc nanos : Bool) (snaplen lt cap : Nat) (p : Pkt) (f : Bool) (j : Nat)
    (h : WfPkt snaplen p) (hj : j < 16 + p.data.length) :
    (read zc (readerAt nanos snaplen lt { data := (encPkt nanos p).take j, fail := f } cap)).out =
      .stop (if f then .ioerr else if j = 0 ∨ j = 16 then .eof else .ueof) := by
  obtain ⟨h1, h2, h3, h4, h5, h6⟩ := h
  have hlen : ((encPkt nanos p).take j).length = j := by
    rw [List.length_take, encPkt_length]; omega
  by_cases hj16 : j < 16
  · -- inside the record header
    unfold read
    rw [readFull_short _ _ (by simpa [readerAt, hlen] using hj16)]
    simp only [readerAt, hlen]
    cases f
    · have : (j = 0 ∨ j = 16) = (j = 0) := by apply propext; omega
      simp [this]
    · simp
  · -- header complete, data cut
    have hcl : p.caplen < 4294967296 := by omega
    have e_put : ∀ n : Nat, n < 4294967296 →
        rd32 false (u8 (u32OfInt (n : Int))) (u8 (u32OfInt (n : Int) / 256)) (u8 (u32OfInt (n : Int) / 65536))
          (u8 (u32OfInt (n : Int) / 16777216)) = n := by
      intro n hn
      rw [rd32_le_put, u32OfInt_nat, Nat.mod_mod, Nat.mod_eq_of_lt hn]
    have e_cl := e_put p.caplen hcl
    have e_len := e_put p.len h3
    have htake : (encPkt nanos p).take j = packetHeader nanos (ciOf p) ++ p.data.take (j - 16) := by
      unfold encPkt
      rw [List.take_append]
      have : (packetHeader nanos (ciOf p)).length = 16 := by simp [packetHeader, putLe32]
      rw [this, List.take_of_length_le (by omega)]
    have hrd : readFull (readerAt nanos snaplen lt { data := (encPkt nanos p).take j, fail := f } cap).s 16 =
        .got (packetHeader nanos (ciOf p)) { data := p.data.take (j - 16), fail := f } := by
      have := readFull_append (packetHeader nanos (ciOf p)) (p.data.take (j - 16)) f 16
        (by simp [packetHeader, putLe32]) (by decide)
      simpa [readerAt, htake] using this
    have hdata : readFull { data := p.data.take (j - 16), fail := f } p.caplen =
        .stop (if f then .ioerr else if j = 16 then .eof else .ueof) { data := [], fail := f } := by
      rw [readFull_short _ _ (by simp [List.length_take]; omega)]
      simp only [List.length_take, Stream.drained]
      have : (min (j - 16) p.data.length = 0) = (j = 16) := by
        apply propext; constructor <;> intro hh <;> omega
      simp only [this]
    have hnp := bufFor_ok zc { (readerAt nanos snaplen lt { data := p.data.take (j - 16), fail := f } cap) with
      s := { data := p.data.take (j - 16), fail := f } } p.caplen
    unfold read
    rw [hrd]
    simp only [packetHeader, ciOf, putLe32, List.cons_append, List.nil_append]
    simp only [e_cl, e_len, readerAt] at hnp ⊢
    rw [if_neg (by omega), if_neg (by omega)]
    unfold readData
    simp only at hnp ⊢
    rw [if_neg hnp, hdata]
    cases f
    · have : (j = 0 ∨ j = 16) = (j = 16) := by apply propext; omega
      simp [this]
    · simp

/-! ## readAll -/

theorem readAll_pkt (zc : Bool) (r : Reader) (p : Pkt) (h : (read zc r).out = .pkt p) :
    readAll zc r = (p :: (readAll zc (read zc r).r).1, (readAll zc (read zc r).r).2) := by
  rw [readAll]
  split
  · rename_i q hq
    rw [h] at hq
    cases hq
    rfl
  · rename_i hq
    exact absurd h (hq p)

theorem readAll_stop (zc : Bool) (r : Reader) (h : ∀ p, (read zc r).out ≠ .pkt p) :
    readAll zc r = ([], (read zc r).out) := by
  rw [readAll]
  split
  · rename_i q hq
    exact absurd hq (h q)
  · rfl

theorem read_empty (zc : Bool) (r : Reader) (h : r.s.data = []) :
    (read zc r).out = .stop (if r.s.fail then .ioerr else .eof) := by
  unfold read
  rw [readFull_short _ _ (by simp [h])]
  simp [h]

/-- The record area cut after `j` bytes: exactly the whole records come back, then the
    outcome `prefixEnd`. -/
theorem readAll_records (zc nanos : Bool) (snaplen lt : Nat) (f : Bool) (ps : List Pkt)
    (hwf : ∀ p ∈ ps, WfPkt snaplen p) :
    ∀ (j cap : Nat),
      readAll zc (readerAt nanos snaplen lt { data := (encAll nanos ps).take j, fail := f } cap) =
        ((ps.map (truncTs nanos)).take (whole j ps), .stop (prefixEnd f j ps)) := by
  induction ps with
  | nil =>
    intro j cap
    have h := read_empty zc (readerAt nanos snaplen lt { data := ([] : Bytes).take j, fail := f } cap) (by simp [readerAt])
    rw [show encAll nanos [] = [] from rfl, readAll_stop _ _ (by rw [h]; intro p hp; cases hp), h]
    simp [readerAt, whole, prefixEnd]
  | cons p ps ih =>
    intro j cap
    have hp : WfPkt snaplen p := hwf p (by simp)
    have ih' := ih (fun q hq => hwf q (by simp [hq]))
    have hlen := encPkt_length nanos p
    by_cases hj : 16 + p.data.length ≤ j
    · have htake : (encAll nanos (p :: ps)).take j =
          encPkt nanos p ++ (encAll nanos ps).take (j - (16 + p.data.length)) := by
        show (encPkt nanos p ++ encAll nanos ps).take j = _
        rw [List.take_append, hlen, List.take_of_length_le (by omega)]
      obtain ⟨ho, hr⟩ := read_encPkt zc nanos snaplen lt cap p ((encAll nanos ps).take (j - (16 + p.data.length))) f hp
      rw [htake, readAll_pkt _ _ _ ho, hr, ih']
      simp [whole, prefixEnd, hj, List.take_succ_cons]
    · have htake : (encAll nanos (p :: ps)).take j = (encPkt nanos p).take j := by
        show (encPkt nanos p ++ encAll nanos ps).take j = _
        rw [List.take_append_of_le_length (by omega)]
      have ho := read_encPkt_cut zc nanos snaplen lt cap p f j hp (by omega)
      rw [htake, readAll_stop _ _ (by rw [ho]; intro q hq; cases hq), ho]
      simp [whole, prefixEnd, hj]

/-! ## whole files -/

theorem openReader_lt2 (gz : Stream → Option Stream) (s : Stream) (h : s.data.length < 2) :
    openReader gz s = .fail (.stop (if s.fail then .ioerr else .eof)) := by
  unfold openReader
  split
  · rename_i g1 g2 t hd
    rw [hd] at h; simp at h; omega
  · rfl

theorem openReader_short (gz : Stream → Option Stream) (s : Stream) (g1 g2 : UInt8) (t : Bytes)
    (hd : s.data = g1 :: g2 :: t) (hg : g1.toNat ≠ magicGzip1) (h : s.data.length < 24) :
    openReader gz s = .fail (.stop (if s.fail then .ioerr else .ueof)) := by
  unfold openReader
  rw [hd]
  simp only
  rw [if_neg (by intro hh; exact hg hh.1)]
  unfold readHeader
  rw [readFull_short _ _ h]
  have : s.data.length ≠ 0 := by rw [hd]; simp
  simp [this]

/-- The outcome of NewReader when the file is cut inside the 24-byte header. -/
def headerEnd (f : Bool) (k : Nat) : Stop := if f then .ioerr else if k < 2 then .eof else .ueof

theorem fileHeader_cons (nanos : Bool) (snaplen lt : Nat) :
    ∃ g1 g2 t, fileHeader nanos snaplen lt = g1 :: g2 :: t ∧ g1.toNat ≠ magicGzip1 := by
  cases nanos
  · exact ⟨_, _, _, rfl, by simp [tsScaler, u8_toNat, magicMicroseconds, magicGzip1]⟩
  · exact ⟨_, _, _, rfl, by simp [tsScaler, u8_toNat, magicNanoseconds, magicGzip1, nanosPerNano, nanosPerMicro]⟩

theorem openReader_header_cut (gz : Stream → Option Stream) (nanos : Bool) (snaplen lt : Nat) (f : Bool) (k : Nat)
    (hk : k < 24) :
    openReader gz { data := (fileHeader nanos snaplen lt).take k, fail := f } = .fail (.stop (headerEnd f k)) := by
  have hl := fileHeader_length nanos snaplen lt
  have hlen : ((fileHeader nanos snaplen lt).take k).length = k := by rw [List.length_take]; omega
  by_cases h2 : k < 2
  · rw [openReader_lt2 _ _ (by simpa [hlen] using h2)]
    simp [headerEnd, h2]
  · obtain ⟨g1, g2, t, he, hg⟩ := fileHeader_cons nanos snaplen lt
    obtain ⟨k', rfl⟩ : ∃ k', k = k' + 2 := ⟨k - 2, by omega⟩
    rw [openReader_short gz _ g1 g2 (t.take k') (by simp [he, List.take]) hg (by simpa [hlen] using hk)]
    simp [headerEnd, h2]

/-- The file written for well-formed packets, cut after `k` bytes and followed by EOF or an
    I/O error, as seen by NewReader + repeated read calls. -/
theorem readFile_written_cut (gz : Stream → Option Stream) (zc nanos : Bool) (snaplen lt : Nat) (ps : List Pkt)
    (f : Bool) (k : Nat) (hs : snaplen < 4294967296) (hl : lt < 65536) (hwf : ∀ p ∈ ps, WfPkt snaplen p) :
    readFile gz zc { data := (writeFile nanos snaplen lt (inputs ps)).take k, fail := f } =
      if 24 ≤ k then
        (some (lt, snaplen, nanos), (ps.map (truncTs nanos)).take (whole (k - 24) ps),
          .stop (prefixEnd f (k - 24) ps))
      else (none, [], .stop (headerEnd f k)) := by
  have hw : writeFile nanos snaplen lt (inputs ps) = fileHeader nanos snaplen lt ++ encAll nanos ps := by
    unfold writeFile
    rw [writePackets_wf nanos snaplen ps hwf]
  have hlen := fileHeader_length nanos snaplen lt
  rw [hw]
  by_cases hk : 24 ≤ k
  · rw [if_pos hk, List.take_append, hlen, List.take_of_length_le (by omega)]
    unfold readFile
    rw [openReader_fileHeader gz nanos snaplen lt _ f hs hl]
    simp only
    rw [readAll_records zc nanos snaplen lt f ps hwf]
    cases nanos <;> simp [readerAt]
  · rw [if_neg hk, List.take_append_of_le_length (by omega)]
    unfold readFile
    rw [openReader_header_cut gz nanos snaplen lt f k (by omega)]

theorem writeFile_length (nanos : Bool) (snaplen lt : Nat) (ps : List Pkt) (hwf : ∀ p ∈ ps, WfPkt snaplen p) :
    (writeFile nanos snaplen lt (inputs ps)).length = 24 + (encAll nanos ps).length := by
  unfold writeFile
  rw [writePackets_wf nanos snaplen ps hwf]
  simp [fileHeader_length]

theorem encAll_length (nanos : Bool) (ps : List Pkt) :
    (encAll nanos ps).length = (ps.map (fun p => 16 + p.data.length)).sum := by
  induction ps with
  | nil => rfl
  | cons p ps ih => simp [encAll, encPkt_length, ih]

/-- With the whole record area available every record is whole and the end is a clean EOF. -/
theorem whole_all (nanos : Bool) (ps : List Pkt) (j : Nat) (h : (encAll nanos ps).length ≤ j) :
    whole j ps = ps.length ∧ prefixEnd false j ps = .eof := by
  induction ps generalizing j with
  | nil => simp [whole, prefixEnd]
  | cons p ps ih =>
    have hl : (encAll nanos (p :: ps)).length = 16 + p.data.length + (encAll nanos ps).length := by
      simp [encAll, encPkt_length]
    have := ih (j - (16 + p.data.length)) (by omega)
    simp [whole, prefixEnd, show 16 + p.data.length ≤ j by omega, this]

theorem prefixEnd_cases (j : Nat) (ps : List Pkt) : prefixEnd false j ps = .eof ∨ prefixEnd false j ps = .ueof := by
  induction ps generalizing j with
  | nil => simp [prefixEnd]
  | cons p ps ih =>
    unfold prefixEnd
    split
    · exact ih _
    · simp only [Bool.false_eq_true, if_false]
      split <;> simp

theorem prefixEnd_fail (j : Nat) (ps : List Pkt) : prefixEnd true j ps = .ioerr := by
  induction ps generalizing j with
  | nil => simp [prefixEnd]
  | cons p ps ih =>
    unfold prefixEnd
    split
    · exact ih _
    · simp

/-! ## copying vs zero-copy calls -/

/-- Two reader states that differ at most in the capacity of the reusable packet buffer. -/
def SameBut (r1 r2 : Reader) : Prop :=
  r1.s = r2.s ∧ r1.bigEndian = r2.bigEndian ∧ r1.nanoFactor = r2.nanoFactor ∧
  r1.snaplen = r2.snaplen ∧ r1.linkType = r2.linkType

theorem readData_mode (z1 z2 : Bool) (r1 r2 : Reader) (h : SameBut r1 r2) (sec frac caplen len : Nat) :
    (readData z1 r1 sec frac caplen len).out = (readData z2 r2 sec frac caplen len).out ∧
    SameBut (readData z1 r1 sec frac caplen len).r (readData z2 r2 sec frac caplen len).r := by
  obtain ⟨hs, h2, h3, h4, h5⟩ := h
  unfold readData
  simp only
  rw [if_neg (bufFor_ok z1 r1 caplen), if_neg (bufFor_ok z2 r2 caplen), hs]
  cases readFull r2.s caplen <;> simp [SameBut, h2, h3, h4, h5]

theorem read_mode (z1 z2 : Bool) (r1 r2 : Reader) (h : SameBut r1 r2) :
    (read z1 r1).out = (read z2 r2).out ∧ SameBut (read z1 r1).r (read z2 r2).r := by
  have h' := h
  obtain ⟨hs, h2, h3, h4, h5⟩ := h
  unfold read
  rw [hs]
  split
  · simp [SameBut, h2, h3, h4, h5]
  · simp only [h2, h3, h4]
    split
    · simp [SameBut, h2, h3, h4, h5]
    · split
      · simp [SameBut, h2, h3, h4, h5]
      · apply readData_mode
        simp [SameBut, h2, h3, h4, h5]
  · simp [SameBut, h2, h3, h4, h5]

theorem readAll_mode (z1 z2 : Bool) : ∀ (n : Nat) (r1 r2 : Reader), r1.s.data.length ≤ n → SameBut r1 r2 →
    readAll z1 r1 = readAll z2 r2 := by
  intro n
  induction n with
  | zero =>
    intro r1 r2 hn h
    have e1 : r1.s.data = [] := List.eq_nil_of_length_eq_zero (by omega)
    have e2 : r2.s.data = [] := by rw [← h.1]; exact e1
    have o1 := read_empty z1 r1 e1
    have o2 := read_empty z2 r2 e2
    rw [readAll_stop _ _ (by rw [o1]; intro p hp; cases hp), readAll_stop _ _ (by rw [o2]; intro p hp; cases hp), o1, o2, h.1]
  | succ n ih =>
    intro r1 r2 hn h
    obtain ⟨ho, hr⟩ := read_mode z1 z2 r1 r2 h
    cases hout : (read z1 r1).out with
    | pkt p =>
      have hlt := read_pkt_lt z1 r1 p hout
      rw [readAll_pkt z1 r1 p hout, readAll_pkt z2 r2 p (by rw [← ho]; exact hout), ih _ _ (by omega) hr]
    | stop k =>
      rw [readAll_stop z1 r1 (by rw [hout]; intro p hp; cases hp), readAll_stop z2 r2 (by rw [← ho, hout]; intro p hp; cases hp), ho]
    | err =>
      rw [readAll_stop z1 r1 (by rw [hout]; intro p hp; cases hp), readAll_stop z2 r2 (by rw [← ho, hout]; intro p hp; cases hp), ho]
    | panic k =>
      rw [readAll_stop z1 r1 (by rw [hout]; intro p hp; cases hp), readAll_stop z2 r2 (by rw [← ho, hout]; intro p hp; cases hp), ho]

/-! ## safety of a single call from an arbitrary state -/

theorem len16 (b : Bytes) (h : b.length = 16) :
    ∃ a0 a1 a2 a3 a4 a5 a6 a7 a8 a9 a10 a11 a12 a13 a14 a15,
      b = [a0, a1, a2, a3, a4, a5, a6, a7, a8, a9, a10, a11, a12, a13, a14, a15] := by
  repeat (cases b with | nil => simp at h | cons _ b => ?_)
  cases b with
  | nil => exact ⟨_, _, _, _, _, _, _, _, _, _, _, _, _, _, _, _, rfl⟩
  | cons _ _ => simp at h

theorem len24 (b : Bytes) (h : b.length = 24) :
    ∃ a0 a1 a2 a3 a4 a5 a6 a7 a8 a9 a10 a11 a12 a13 a14 a15 a16 a17 a18 a19 a20 a21 a22 a23,
      b = [a0, a1, a2, a3, a4, a5, a6, a7, a8, a9, a10, a11, a12, a13, a14, a15, a16, a17, a18, a19, a20, a21, a22, a23] := by
  repeat (cases b with | nil => simp at h | cons _ b => ?_)
  cases b with
  | nil => exact ⟨_, _, _, _, _, _, _, _, _, _, _, _, _, _, _, _, _, _, _, _, _, _, _, _, rfl⟩
  | cons _ _ => simp at h

/-- What "safe" means for one read call started in state `r` (C15). -/
structure StepSafe (r : Reader) (st : Step) : Prop where
  noPanic : ∀ k, st.out ≠ .panic k
  pktOk   : ∀ p, st.out = .pkt p →
              p.data.length = p.caplen ∧ p.caplen ≤ p.len ∧ p.caplen ≤ r.snaplen ∧
              p.data = (r.s.data.drop 16).take p.caplen ∧
              st.r.s.data.length + 16 + p.caplen = r.s.data.length
  allocOk : ∀ a ∈ st.alloc, a ≤ r.snaplen
  mono    : st.r.s.data.length ≤ r.s.data.length
  frame   : st.r.snaplen = r.snaplen ∧ st.r.bigEndian = r.bigEndian ∧ st.r.nanoFactor = r.nanoFactor ∧
              st.r.linkType = r.linkType ∧ st.r.s.fail = r.s.fail

theorem bufFor_alloc (zc : Bool) (r : Reader) (caplen : Nat) (h : caplen ≤ r.snaplen) :
    ∀ a ∈ (bufFor zc r caplen).2, a ≤ r.snaplen := by
  unfold bufFor
  intro a ha
  split at ha
  · split at ha
    · simp only [List.mem_singleton] at ha
      subst ha
      split <;> omega
    · simp at ha
  · simp only [List.mem_singleton] at ha
    omega

theorem readFull_data {s s' : Stream} {n : Nat} {b : Bytes} (h : readFull s n = .got b s') :
    b = s.data.take n ∧ s'.data = s.data.drop n := by
  unfold readFull at h
  split at h
  · cases h; simp_all
  · split at h
    · cases h; simp
    · cases h

theorem readData_safe (zc : Bool) (r : Reader) (sec frac caplen len : Nat) (hc : caplen ≤ r.snaplen) (hl : caplen ≤ len)
    (st : Step) (hst : st = readData zc r sec frac caplen len) :
    (∀ k, st.out ≠ .panic k) ∧
    (∀ p, st.out = .pkt p → p.data.length = p.caplen ∧ p.caplen = caplen ∧ p.len = len ∧
        p.data = r.s.data.take caplen ∧ st.r.s.data.length + caplen = r.s.data.length) ∧
    (∀ a ∈ st.alloc, a ≤ r.snaplen) ∧ st.r.s.data.length ≤ r.s.data.length ∧
    (st.r.snaplen = r.snaplen ∧ st.r.bigEndian = r.bigEndian ∧ st.r.nanoFactor = r.nanoFactor ∧
      st.r.linkType = r.linkType ∧ st.r.s.fail = r.s.fail) := by
  have ha := bufFor_alloc zc r caplen hc
  subst hst
  unfold readData
  simp only
  rw [if_neg (bufFor_ok zc r caplen)]
  cases hrf : readFull r.s caplen with
  | stop k s' =>
    have := readFull_stop hrf
    simp only
    refine ⟨(by intro k hk; cases hk), (by intro p hp; cases hp), ha, (by simp [this.1]), trivial, trivial, trivial, trivial, this.2⟩
  | got d s' =>
    have h1 := readFull_got hrf
    have h2 := readFull_data hrf
    simp only
    refine ⟨(by intro k hk; cases hk), ?_, ha, (by omega), trivial, trivial, trivial, trivial, h1.2.2⟩
    intro p hp
    cases hp
    exact ⟨h1.2.1, rfl, rfl, h2.1, h1.1⟩

theorem read_safe (zc : Bool) (r : Reader) : StepSafe r (read zc r) := by
  unfold read
  split
  · rename_i k s' hrf
    have := readFull_stop hrf
    constructor <;> simp [this.1, this.2]
  · rename_i t0 t1 t2 t3 u0 u1 u2 u3 c0 c1 c2 c3 n0 n1 n2 n3 s' hrf
    have h1 := readFull_got hrf
    have h2 := readFull_data hrf
    simp only
    split
    · constructor <;> simp [h1.2.2] <;> omega
    · split
      · constructor <;> simp [h1.2.2] <;> omega
      · rename_i hc hl
        have hs := readData_safe zc { r with s := s' } (rd32 r.bigEndian t0 t1 t2 t3)
          (rd32 r.bigEndian u0 u1 u2 u3 * r.nanoFactor % 4294967296) (rd32 r.bigEndian c0 c1 c2 c3)
          (rd32 r.bigEndian n0 n1 n2 n3) (by simpa using hc) (by simpa using hl) _ rfl
        obtain ⟨s1, s2, s3, s4, s5⟩ := hs
        constructor
        · exact s1
        · intro p hp
          obtain ⟨q1, q2, q3, q4, q5⟩ := s2 p hp
          simp only at q4 q5
          refine ⟨q1, by omega, by rw [q2]; simpa using hc, by rw [q4, q2, h2.2], by omega⟩
        · exact s3
        · simp only at s4; omega
        · simp only at s5; simp [s5, h1.2.2]
  · rename_i b s' hne hrf
    have h1 := readFull_got hrf
    obtain ⟨a0, a1, a2, a3, a4, a5, a6, a7, a8, a9, a10, a11, a12, a13, a14, a15, hb⟩ := len16 b h1.2.1
    exact (hne _ _ _ _ _ _ _ _ _ _ _ _ _ _ _ _ hb).elim

/-! ## safety of NewReader -/

theorem readHeader_safe (s : Stream) :
    (∀ k, readHeader s ≠ .fail (.panic k)) ∧
    (∀ r al, readHeader s = .ok r al →
      al = [4096, 24] ∧ r.s.data = s.data.drop 24 ∧ 24 ≤ s.data.length ∧ r.s.fail = s.fail ∧ r.bufCap = 0 ∧
      r.snaplen < 4294967296) := by
  unfold readHeader
  split
  · exact ⟨(by intro k h; cases h), (by intro r al h; cases h)⟩
  · rename_i m0 m1 m2 m3 v0 v1 w0 w1 _ _ _ _ _ _ _ _ s0 s1 s2 s3 l0 l1 l2 l3 s' hrf
    have h1 := readFull_got hrf
    have h2 := readFull_data hrf
    have hlt : ∀ be, rd32 be s0 s1 s2 s3 < 4294967296 := by
      intro be
      have := s0.toNat_lt; have := s1.toNat_lt; have := s2.toNat_lt; have := s3.toNat_lt
      cases be <;> simp only [rd32, be32] <;> split <;> omega
    simp only
    constructor
    · intro k
      repeat' split
      all_goals (intro h; cases h)
    · intro r al
      repeat' split
      all_goals intro h
      all_goals cases h
      all_goals exact ⟨rfl, h2.2, (by omega), h1.2.2, rfl, (by dsimp only; exact hlt _)⟩
  · rename_i b s' hne hrf
    have h1 := readFull_got hrf
    obtain ⟨a0, a1, a2, a3, a4, a5, a6, a7, a8, a9, a10, a11, a12, a13, a14, a15, a16, a17, a18, a19, a20, a21, a22, a23, hb⟩ :=
      len24 b h1.2.1
    exact (hne _ _ _ _ _ _ _ _ _ _ _ _ _ _ _ _ _ _ _ _ _ _ _ _ hb).elim

/-- NewReader never panics; on success the reader is positioned 24 bytes into the (possibly
    gzip-decompressed) stream and has allocated the bufio buffer and the header buffer. -/
theorem openReader_safe (gz : Stream → Option Stream) (s : Stream) :
    (∀ k, openReader gz s ≠ .fail (.panic k)) ∧
    (∀ r al, openReader gz s = .ok r al →
      al = [4096, 24] ∧ r.bufCap = 0 ∧ r.snaplen < 4294967296 ∧
      ∃ src, (src = s ∨ gz s = some src) ∧ r.s.data = src.data.drop 24 ∧ 24 ≤ src.data.length ∧ r.s.fail = src.fail) := by
  unfold openReader
  split
  · split
    · split
      · rename_i s' hgz
        have := readHeader_safe s'
        refine ⟨this.1, ?_⟩
        intro r al h
        obtain ⟨q1, q2, q3, q4, q5, q6⟩ := this.2 r al h
        exact ⟨q1, q5, q6, s', Or.inr hgz, q2, q3, q4⟩
      · exact ⟨(by intro k h; cases h), (by intro r al h; cases h)⟩
    · have := readHeader_safe s
      refine ⟨this.1, ?_⟩
      intro r al h
      obtain ⟨q1, q2, q3, q4, q5, q6⟩ := this.2 r al h
      exact ⟨q1, q5, q6, s, Or.inl rfl, q2, q3, q4⟩
  · exact ⟨(by intro k h; cases h), (by intro r al h; cases h)⟩

/-! ## call sequences -/

/-- The outcomes of a sequence of read calls with the given modes (true = zero-copy). -/
def outs (r : Reader) : List Bool → List Out
  | [] => []
  | zc :: ms => (read zc r).out :: outs (read zc r).r ms

theorem outs_mode : ∀ (ms1 ms2 : List Bool) (r1 r2 : Reader), ms1.length = ms2.length → SameBut r1 r2 →
    outs r1 ms1 = outs r2 ms2 := by
  intro ms1
  induction ms1 with
  | nil => intro ms2 r1 r2 hl _; cases ms2 with | nil => rfl | cons _ _ => simp at hl
  | cons z1 ms1 ih =>
    intro ms2 r1 r2 hl h
    cases ms2 with
    | nil => simp at hl
    | cons z2 ms2 =>
      obtain ⟨ho, hr⟩ := read_mode z1 z2 r1 r2 h
      simp only [outs, ho]
      rw [ih ms2 _ _ (by simpa using hl) hr]

/-- Every read call of an arbitrary sequence of calls (with SetSnaplen calls in between),
    paired with the state it started from. -/
def steps (r : Reader) : List Op → List (Reader × Step)
  | [] => []
  | .read zc :: ops => (r, read zc r) :: steps (read zc r).r ops
  | .setSnaplen n :: ops => steps (setSnaplen r n) ops

theorem steps_safe (ops : List Op) : ∀ (r : Reader), ∀ x ∈ steps r ops,
    StepSafe x.1 x.2 ∧ x.1.s.data.length ≤ r.s.data.length ∧ x.1.s.fail = r.s.fail := by
  induction ops with
  | nil => intro r x hx; simp [steps] at hx
  | cons op ops ih =>
    intro r x hx
    cases op with
    | read zc =>
      simp only [steps, List.mem_cons] at hx
      rcases hx with rfl | hx
      · exact ⟨read_safe zc r, Nat.le_refl _, rfl⟩
      · have hs := read_safe zc r
        obtain ⟨a, b, c⟩ := ih _ x hx
        exact ⟨a, Nat.le_trans b hs.mono, by rw [c, hs.frame.2.2.2.2]⟩
    | setSnaplen n =>
      simp only [steps] at hx
      exact ih (setSnaplen r n) x hx

/-- Each returned packet consumed at least 16 bytes: the number of packets is bounded by the input. -/
theorem readAll_count (zc : Bool) : ∀ (n : Nat) (r : Reader), r.s.data.length ≤ n →
    16 * (readAll zc r).1.length ≤ r.s.data.length := by
  intro n
  induction n with
  | zero =>
    intro r hn
    have e : r.s.data = [] := List.eq_nil_of_length_eq_zero (by omega)
    have o := read_empty zc r e
    rw [readAll_stop _ _ (by rw [o]; intro p hp; cases hp)]
    simp
  | succ n ih =>
    intro r hn
    cases hout : (read zc r).out with
    | pkt p =>
      have hs := (read_safe zc r).pktOk p hout
      rw [readAll_pkt zc r p hout]
      have := ih (read zc r).r (by omega)
      simp only [List.length_cons]
      omega
    | stop k => rw [readAll_stop zc r (by rw [hout]; intro p hp; cases hp)]; simp
    | err => rw [readAll_stop zc r (by rw [hout]; intro p hp; cases hp)]; simp
    | panic k => rw [readAll_stop zc r (by rw [hout]; intro p hp; cases hp)]; simp

theorem readFull_stop_kind {s s' : Stream} {n : Nat} {k : Stop} (h : readFull s n = .stop k s') :
    k = if s.fail then .ioerr else if s.data.length = 0 then .eof else .ueof := by
  unfold readFull at h
  split at h
  · cases h
  · split at h
    · cases h
    · cases h; rfl

/-- On a failing stream a call never reports end of file: the stream's error surfaces. -/
theorem read_fail_kind (zc : Bool) (r : Reader) (hf : r.s.fail = true) (k : Stop) (h : (read zc r).out = .stop k) :
    k = .ioerr := by
  revert h
  unfold read
  split
  · rename_i k' s' hrf
    have := readFull_stop_kind hrf
    intro h; cases h
    simpa [hf] using this
  · rename_i s' hrf
    have h1 := readFull_got hrf
    simp only
    split
    · intro h; cases h
    · split
      · intro h; cases h
      · unfold readData
        simp only
        split
        · intro h; cases h
        · split
          · rename_i k' s'' hrf2
            have := readFull_stop_kind hrf2
            intro h; cases h
            simpa [h1.2.2, hf] using this
          · intro h; cases h
  · intro h; cases h

theorem readAll_fail (zc : Bool) : ∀ (n : Nat) (r : Reader), r.s.data.length ≤ n → r.s.fail = true →
    (readAll zc r).2 = .stop .ioerr ∨ (readAll zc r).2 = .err := by
  intro n
  induction n with
  | zero =>
    intro r hn hf
    have e : r.s.data = [] := List.eq_nil_of_length_eq_zero (by omega)
    have o := read_empty zc r e
    rw [readAll_stop _ _ (by rw [o]; intro p hp; cases hp), o]
    simp [hf]
  | succ n ih =>
    intro r hn hf
    have hs := read_safe zc r
    cases hout : (read zc r).out with
    | pkt p =>
      have hp := hs.pktOk p hout
      rw [readAll_pkt zc r p hout]
      exact ih (read zc r).r (by omega) (by rw [hs.frame.2.2.2.2, hf])
    | stop k =>
      rw [readAll_stop zc r (by rw [hout]; intro p hp; cases hp), hout, read_fail_kind zc r hf k hout]
      exact Or.inl rfl
    | err => rw [readAll_stop zc r (by rw [hout]; intro p hp; cases hp), hout]; exact Or.inr rfl
    | panic k => exact absurd hout (hs.noPanic k)

/-! ## the specification function `whole` -/

theorem whole_le (j : Nat) (ps : List Pkt) : whole j ps ≤ ps.length := by
  induction ps generalizing j with
  | nil => simp [whole]
  | cons p ps ih =>
    unfold whole
    split
    · have := ih (j - (16 + p.data.length)); simp; omega
    · simp

/-- `whole j ps` records fit into `j` bytes, and the next one (if any) does not. -/
theorem whole_spec (nanos : Bool) (j : Nat) (ps : List Pkt) :
    (encAll nanos (ps.take (whole j ps))).length ≤ j ∧
    (whole j ps < ps.length → j < (encAll nanos (ps.take (whole j ps + 1))).length) := by
  induction ps generalizing j with
  | nil => simp [whole, encAll]
  | cons p ps ih =>
    unfold whole
    split
    · rename_i h
      obtain ⟨a, b⟩ := ih (j - (16 + p.data.length))
      simp only [List.take_succ_cons, encAll, List.length_append, encPkt_length, List.length_cons]
      constructor
      · omega
      · intro hlt
        have := b (by omega)
        omega
    · rename_i h
      simp [encAll, encPkt_length]
      omega

end Gp.Pcap
