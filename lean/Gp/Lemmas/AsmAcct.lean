/-
  Page accounting (C11): `connection.pages` counts the linked pages, `pageCache.used` is the sum over
  the live connections; FlushAll closes every connection.  Any sequence arithmetic.
-/
import Gp.Lemmas.AsmInv
import Gp.Lemmas.AsmGap

namespace Gp.Asm

def Acct (c : Conn) : Prop := c.npages = (c.pages.length : Int)

/-- effect of one connection step on pageCache.used -/
def DeltaLaw (c : Conn) (used : Int) (st : Step) : Prop :=
  Acct st.conn ∧ (st.closed = false → st.used = used - c.npages + st.conn.npages) ∧
    (st.closed = true → st.used = used - c.npages)

theorem addContiguous_length (A : SeqArith) (n : Int) (ps : List Page) :
    (addContiguous A n ps).items.length + (addContiguous A n ps).rest.length = ps.length := by
  induction ps generalizing n with
  | nil => rfl
  | cons p ps ih =>
    simp only [addContiguous]
    split
    · simp only [List.length_cons]; have := ih (popPage A n p).2; omega
    · rfl

theorem limitPops_length (A : SeqArith) (L : Lim) (n : Int) (ps : List Page) (np used : Int) :
    (limitPops A L n ps np used).items.length + (limitPops A L n ps np used).rest.length = ps.length := by
  induction ps generalizing n np used with
  | nil => rfl
  | cons p ps ih =>
    simp only [limitPops]
    split
    · simp only [List.length_cons]; have := ih (popPage A n p).2 (np - 1) (used - 1); omega
    · rfl

theorem send_law (A : SeqArith) (c : Conn) (used : Int) (r0 : Reasm) (rs : List Reasm) (h : Acct c) :
    DeltaLaw c used (send A c used r0 rs) := by
  have hl := addContiguous_length A c.nextSeq c.pages
  unfold Acct at h
  unfold send DeltaLaw Acct
  dsimp only
  split
  · refine ⟨?_, fun hc => by cases hc, fun _ => ?_⟩
    · show c.npages - _ = _; omega
    · show used - _ - _ = _; omega
  · refine ⟨?_, fun _ => ?_, fun hc => by cases hc⟩
    · show c.npages - _ = _; omega
    · show used - _ = used - c.npages + (c.npages - _); omega

theorem skipFlush_law (A : SeqArith) (c : Conn) (used : Int) (h : Acct c) :
    DeltaLaw c used (skipFlush A c used) := by
  unfold skipFlush
  split
  · rename_i hp
    unfold Acct at h; rw [hp] at h
    refine ⟨by unfold Acct; rw [hp]; exact h, fun hc => by cases hc, fun _ => ?_⟩
    show used = used - c.npages
    simp at h; omega
  · rename_i p ps hp
    unfold Acct at h; rw [hp] at h
    simp only [List.length_cons] at h
    have := send_law A { c with nextSeq := (popPage A c.nextSeq p).2, pages := ps, npages := c.npages - 1 }
      (used - 1) (popPage A c.nextSeq p).1 [] (by unfold Acct; show c.npages - 1 = _; omega)
    obtain ⟨a1, a2, a3⟩ := this
    refine ⟨a1, fun hc => ?_, fun hc => ?_⟩
    · have := a2 hc; simp only [] at this; omega
    · have := a3 hc; simp only [] at this; omega

theorem insertIntoConn_law (A : SeqArith) (L : Lim) (c : Conn) (used seq : Int) (b : Bytes) (fin : Bool)
    (ts : Int) (st : Step) (h : Acct c) (hst : insertIntoConn A L c used seq b fin ts = .ok st) :
    DeltaLaw c used st := by
  unfold insertIntoConn at hst
  split at hst
  · cases hst
  · dsimp only at hst
    have hlen := limitPops_length A L c.nextSeq (insertPages A seq (pagesFromTCP A seq b fin ts) c.pages)
      (c.npages + ((pagesFromTCP A seq b fin ts).length : Int)) (used + ((pagesFromTCP A seq b fin ts).length : Int))
    rw [length_insertPages] at hlen
    unfold Acct at h
    split at hst
    · rename_i hnil
      cases hst
      rw [hnil] at hlen
      simp only [List.length_nil] at hlen
      refine ⟨?_, fun _ => ?_, fun hc => by cases hc⟩
      · unfold Acct; show c.npages + _ - _ = _; rw [hnil]; simp only [List.length_nil]; omega
      · show used + _ - _ = used - c.npages + (c.npages + _ - _); omega
    · rename_i r0 rs hcons
      cases hst
      have hacc : Acct ({ c with nextSeq := (limitPops A L c.nextSeq (insertPages A seq (pagesFromTCP A seq b fin ts) c.pages)
          (c.npages + ((pagesFromTCP A seq b fin ts).length : Int)) (used + ((pagesFromTCP A seq b fin ts).length : Int))).next,
          pages := (limitPops A L c.nextSeq (insertPages A seq (pagesFromTCP A seq b fin ts) c.pages)
          (c.npages + ((pagesFromTCP A seq b fin ts).length : Int)) (used + ((pagesFromTCP A seq b fin ts).length : Int))).rest,
          npages := c.npages + ((pagesFromTCP A seq b fin ts).length : Int) - ((limitPops A L c.nextSeq (insertPages A seq (pagesFromTCP A seq b fin ts) c.pages)
          (c.npages + ((pagesFromTCP A seq b fin ts).length : Int)) (used + ((pagesFromTCP A seq b fin ts).length : Int))).items.length : Int) } : Conn) := by
        unfold Acct; dsimp only; omega
      obtain ⟨a1, a2, a3⟩ := send_law A _ (used + ((pagesFromTCP A seq b fin ts).length : Int) - ((limitPops A L c.nextSeq (insertPages A seq (pagesFromTCP A seq b fin ts) c.pages)
          (c.npages + ((pagesFromTCP A seq b fin ts).length : Int)) (used + ((pagesFromTCP A seq b fin ts).length : Int))).items.length : Int)) r0 rs hacc
      refine ⟨a1, fun hc => ?_, fun hc => ?_⟩
      · have := a2 hc; dsimp only at this; omega
      · have := a3 hc; dsimp only at this; omega

theorem assembleConn_law (A : SeqArith) (L : Lim) (c : Conn) (used : Int) (s : Seg) (st : Step)
    (h : Acct c) (hst : assembleConn A L c used s = .ok st) : DeltaLaw c used st := by
  unfold assembleConn at hst
  dsimp only at hst
  generalize hcc : (if c.lastSeen < s.ts then { c with lastSeen := s.ts } else c) = c1 at hst
  have h2 : c1.pages = c.pages := by rw [← hcc]; split <;> rfl
  have h3 : c1.npages = c.npages := by rw [← hcc]; split <;> rfl
  have ha1 : Acct c1 := by unfold Acct; rw [h2, h3]; exact h
  have conv : ∀ st, DeltaLaw c1 used st → DeltaLaw c used st := by
    intro st ⟨a1, a2, a3⟩; unfold DeltaLaw; rw [← h3]; exact ⟨a1, a2, a3⟩
  split at hst
  · split at hst
    · cases hst; exact conv _ (send_law A _ used _ [] ha1)
    · exact conv _ (insertIntoConn_law A L c1 _ _ _ _ _ st ha1 hst)
  · split at hst
    · exact conv _ (insertIntoConn_law A L c1 _ _ _ _ _ st ha1 hst)
    · cases hst; exact conv _ (send_law A _ used _ [] ha1)

theorem deltaLaw_trans (c : Conn) (used : Int) (st1 st2 : Step) (calls : List (List Reasm))
    (h1 : DeltaLaw c used st1) (hc : st1.closed = false) (h2 : DeltaLaw st1.conn st1.used st2) :
    DeltaLaw c used { st2 with calls := calls } := by
  obtain ⟨_, a2, _⟩ := h1
  obtain ⟨b1, b2, b3⟩ := h2
  have := a2 hc
  refine ⟨b1, fun h => ?_, fun h => ?_⟩
  · have := b2 h; show st2.used = _; omega
  · have := b3 h; show st2.used = _; omega

theorem deltaLaw_refl (c : Conn) (used : Int) (calls : List (List Reasm)) (h : Acct c) :
    DeltaLaw c used { conn := c, closed := false, used := used, calls := calls } :=
  ⟨h, fun _ => by show used = used - c.npages + c.npages; omega, fun hc => by cases hc⟩

theorem flushLoop_law (A : SeqArith) (T : Int) (fuel : Nat) (c : Conn) (used : Int)
    (calls : List (List Reasm)) (fl : Bool) (h : Acct c) :
    DeltaLaw c used (flushLoop A T fuel c used calls fl).1 := by
  induction fuel generalizing c used calls fl with
  | zero => exact deltaLaw_refl c used calls h
  | succ f ih =>
    simp only [flushLoop]
    split
    · exact deltaLaw_refl c used calls h
    · split
      · have hs := skipFlush_law A c used h
        split
        · obtain ⟨a1, a2, a3⟩ := hs
          exact ⟨a1, a2, a3⟩
        · rename_i hc
          have hc' : (skipFlush A c used).closed = false := by simpa using hc
          have := ih (skipFlush A c used).conn (skipFlush A c used).used (calls ++ (skipFlush A c used).calls) true hs.1
          have := deltaLaw_trans c used _ _ (flushLoop A T f (skipFlush A c used).conn (skipFlush A c used).used (calls ++ (skipFlush A c used).calls) true).1.calls hs hc' this
          exact this
      · exact deltaLaw_refl c used calls h

theorem flushConn_law (A : SeqArith) (T : Int) (ca : Bool) (c : Conn) (used : Int) (h : Acct c) :
    DeltaLaw c used (flushConn A T ca c used).1 := by
  have hl := flushLoop_law A T c.pages.length c used [] false h
  unfold flushConn
  dsimp only
  split
  · rename_i hcond
    simp only [Bool.and_eq_true, Bool.not_eq_true', List.isEmpty_iff, decide_eq_true_eq] at hcond
    obtain ⟨a1, a2, _⟩ := hl
    have hu := a2 hcond.1.1.2
    unfold Acct at a1
    rw [hcond.1.2] at a1
    refine ⟨by unfold Acct; show _ = _; rw [hcond.1.2]; exact a1, fun hc => by cases hc, fun _ => ?_⟩
    show (flushLoop A T c.pages.length c used [] false).1.used = _
    simp at a1
    omega
  · exact hl

theorem flushAllLoop_law (A : SeqArith) (fuel : Nat) (c : Conn) (used : Int)
    (calls : List (List Reasm)) (h : Acct c) : DeltaLaw c used (flushAllLoop A fuel c used calls) := by
  induction fuel generalizing c used calls with
  | zero => exact deltaLaw_refl c used calls h
  | succ f ih =>
    simp only [flushAllLoop]
    have hs := skipFlush_law A c used h
    split
    · obtain ⟨a1, a2, a3⟩ := hs
      exact ⟨a1, a2, a3⟩
    · rename_i hc
      have hc' : (skipFlush A c used).closed = false := by simpa using hc
      have := ih (skipFlush A c used).conn (skipFlush A c used).used (calls ++ (skipFlush A c used).calls) hs.1
      exact deltaLaw_trans c used _ _ (flushAllLoop A f (skipFlush A c used).conn (skipFlush A c used).used (calls ++ (skipFlush A c used).calls)).calls hs hc' this

end Gp.Asm
