/-
  Page accounting (C11): `connection.pages` counts the linked pages, `pageCache.used` is the sum over
  the live connections; FlushAll closes every connection.  Any sequence arithmetic.
-/
import Gp.Lemmas.AsmInv
import Gp.Lemmas.AsmGap

namespace Gp.Asm

def Acct (c : Conn) : Prop := c.npages = (c.pages.length : Int)

/-- effect of one connection step on pageCache.used -/
def DeltaLaw (c : Conn) (used : Int) (st : Step) : Prop :=
  Acct st.conn ∧ (st.closed = false → st.used = used - c.npages + st.conn.npages) ∧
    (st.closed = true → st.used = used - c.npages)

theorem addContiguous_length (A : SeqArith) (n : Int) (ps : List Page) :
    (addContiguous A n ps).items.length + (addContiguous A n ps).rest.length = ps.length := by
  induction ps generalizing n with
  | nil => rfl
  | cons p ps ih =>
    simp only [addContiguous]
    split
    · simp only [List.length_cons]; have := ih (popPage A n p).2; omega
    · simp

theorem limitPops_length (A : SeqArith) (L : Lim) (n : Int) (ps : List Page) (np used : Int) :
    (limitPops A L n ps np used).items.length + (limitPops A L n ps np used).rest.length = ps.length := by
  induction ps generalizing n np used with
  | nil => rfl
  | cons p ps ih =>
    simp only [limitPops]
    split
    · simp only [List.length_cons]; have := ih (popPage A n p).2 (np - 1) (used - 1); omega
    · simp

theorem send_law (A : SeqArith) (c : Conn) (used : Int) (r0 : Reasm) (rs : List Reasm) (h : Acct c) :
    DeltaLaw c used (send A c used r0 rs) := by
  have hl := addContiguous_length A c.nextSeq c.pages
  unfold Acct at h
  unfold send DeltaLaw Acct
  dsimp only
  split
  · refine ⟨?_, ?_, ?_⟩
    · dsimp only; omega
    · intro hc; cases hc
    · intro _; dsimp only; omega
  · refine ⟨?_, ?_, ?_⟩
    · dsimp only; omega
    · intro _; dsimp only; omega
    · intro hc; cases hc

theorem skipFlush_law (A : SeqArith) (c : Conn) (used : Int) (h : Acct c) :
    DeltaLaw c used (skipFlush A c used) := by
  unfold skipFlush
  split
  · rename_i hp
    unfold Acct at h; rw [hp] at h
    refine ⟨?_, ?_, ?_⟩
    · unfold Acct; dsimp only; rw [hp]; exact h
    · intro hc; cases hc
    · intro _; dsimp only; simp at h; omega
  · rename_i p ps hp
    dsimp only
    unfold Acct at h; rw [hp] at h
    simp only [List.length_cons] at h
    have := send_law A { c with nextSeq := (popPage A c.nextSeq p).2, pages := ps, npages := c.npages - 1 }
      (used - 1) (popPage A c.nextSeq p).1 [] (by unfold Acct; dsimp only; omega)
    obtain ⟨a1, a2, a3⟩ := this
    refine ⟨a1, ?_, ?_⟩
    · intro hc; have := a2 hc; dsimp only at this; omega
    · intro hc; have := a3 hc; dsimp only at this; omega

theorem insertIntoConn_law (A : SeqArith) (L : Lim) (c : Conn) (used seq : Int) (b : Bytes) (fin : Bool)
    (ts : Int) (st : Step) (h : Acct c) (hst : insertIntoConn A L c used seq b fin ts = .ok st) :
    DeltaLaw c used st := by
  unfold insertIntoConn at hst
  split at hst
  · cases hst
  · dsimp only at hst
    have hlen := limitPops_length A L c.nextSeq (insertPages A seq (pagesFromTCP A seq b fin ts) c.pages)
      (c.npages + ((pagesFromTCP A seq b fin ts).length : Int)) (used + ((pagesFromTCP A seq b fin ts).length : Int))
    rw [length_insertPages] at hlen
    unfold Acct at h
    generalize (pagesFromTCP A seq b fin ts) = new at hst hlen
    generalize limitPops A L c.nextSeq (insertPages A seq new c.pages)
      (c.npages + (new.length : Int)) (used + (new.length : Int)) = R at hst hlen
    split at hst
    · rename_i hnil
      cases hst
      rw [hnil] at hlen
      simp only [List.length_nil] at hlen
      refine ⟨?_, ?_, ?_⟩
      · unfold Acct; dsimp only; rw [hnil]; simp only [List.length_nil]; omega
      · intro _; dsimp only; omega
      · intro hc; cases hc
    · rename_i r0 rs hcons
      cases hst
      have hacc : Acct (⟨R.next, R.rest, c.npages + (new.length : Int) - (R.items.length : Int), c.lastSeen, c.sid⟩ : Conn) := by
        unfold Acct; dsimp only; omega
      obtain ⟨a1, a2, a3⟩ := send_law A _ (used + (new.length : Int) - (R.items.length : Int)) r0 rs hacc
      refine ⟨a1, ?_, ?_⟩
      · intro hc; have := a2 hc; dsimp only at this; omega
      · intro hc; have := a3 hc; dsimp only at this; omega

theorem assembleConn_law (A : SeqArith) (L : Lim) (c : Conn) (used : Int) (s : Seg) (st : Step)
    (h : Acct c) (hst : assembleConn A L c used s = .ok st) : DeltaLaw c used st := by
  unfold assembleConn at hst
  dsimp only at hst
  generalize hcc : (if c.lastSeen < s.ts then { c with lastSeen := s.ts } else c) = c1 at hst
  have h2 : c1.pages = c.pages := by rw [← hcc]; split <;> rfl
  have h3 : c1.npages = c.npages := by rw [← hcc]; split <;> rfl
  have ha1 : Acct c1 := by unfold Acct; rw [h2, h3]; exact h
  have conv : ∀ st, DeltaLaw c1 used st → DeltaLaw c used st := by
    intro st ⟨a1, a2, a3⟩; unfold DeltaLaw; rw [← h3]; exact ⟨a1, a2, a3⟩
  split at hst
  · split at hst
    · cases hst; exact conv _ (send_law A _ used _ [] ha1)
    · exact conv _ (insertIntoConn_law A L c1 _ _ _ _ _ st ha1 hst)
  · split at hst
    · exact conv _ (insertIntoConn_law A L c1 _ _ _ _ _ st ha1 hst)
    · cases hst; exact conv _ (send_law A _ used _ [] ha1)

theorem deltaLaw_trans (c : Conn) (used : Int) (st1 st2 : Step) (calls : List (List Reasm))
    (h1 : DeltaLaw c used st1) (hc : st1.closed = false) (h2 : DeltaLaw st1.conn st1.used st2) :
    DeltaLaw c used { st2 with calls := calls } := by
  obtain ⟨_, a2, _⟩ := h1
  obtain ⟨b1, b2, b3⟩ := h2
  have := a2 hc
  refine ⟨b1, ?_, ?_⟩
  · intro h; have := b2 h; show st2.used = used - c.npages + st2.conn.npages; omega
  · intro h; have := b3 h; show st2.used = _; omega

theorem deltaLaw_refl (c : Conn) (used : Int) (calls : List (List Reasm)) (h : Acct c) :
    DeltaLaw c used { conn := c, closed := false, used := used, calls := calls } :=
  ⟨h, fun _ => (by show used = used - c.npages + c.npages; omega), fun hc => (by cases hc)⟩

theorem flushLoop_law (A : SeqArith) (T : Int) (fuel : Nat) (c : Conn) (used : Int)
    (calls : List (List Reasm)) (fl : Bool) (h : Acct c) :
    DeltaLaw c used (flushLoop A T fuel c used calls fl).1 := by
  induction fuel generalizing c used calls fl with
  | zero => exact deltaLaw_refl c used calls h
  | succ f ih =>
    simp only [flushLoop]
    split
    · exact deltaLaw_refl c used calls h
    · split
      · have hs := skipFlush_law A c used h
        split
        · obtain ⟨a1, a2, a3⟩ := hs
          exact ⟨a1, a2, a3⟩
        · rename_i hc
          have hc' : (skipFlush A c used).closed = false := by simpa using hc
          have := ih (skipFlush A c used).conn (skipFlush A c used).used (calls ++ (skipFlush A c used).calls) true hs.1
          have := deltaLaw_trans c used _ _ (flushLoop A T f (skipFlush A c used).conn (skipFlush A c used).used (calls ++ (skipFlush A c used).calls) true).1.calls hs hc' this
          exact this
      · exact deltaLaw_refl c used calls h

theorem flushConn_law (A : SeqArith) (T : Int) (ca : Bool) (c : Conn) (used : Int) (h : Acct c) :
    DeltaLaw c used (flushConn A T ca c used).1 := by
  have hl := flushLoop_law A T c.pages.length c used [] false h
  unfold flushConn
  dsimp only
  split
  · rename_i hcond
    simp only [Bool.and_eq_true, Bool.not_eq_true', List.isEmpty_iff, decide_eq_true_eq] at hcond
    obtain ⟨a1, a2, _⟩ := hl
    have hu := a2 hcond.1.1.2
    unfold Acct at a1
    rw [hcond.1.2] at a1
    refine ⟨?_, ?_, ?_⟩
    · unfold Acct; dsimp only; rw [hcond.1.2]; exact a1
    · intro hc; cases hc
    · intro _
      show (flushLoop A T c.pages.length c used [] false).1.used = _
      simp at a1
      omega
  · exact hl

theorem flushAllLoop_law (A : SeqArith) (fuel : Nat) (c : Conn) (used : Int)
    (calls : List (List Reasm)) (h : Acct c) : DeltaLaw c used (flushAllLoop A fuel c used calls) := by
  induction fuel generalizing c used calls with
  | zero => exact deltaLaw_refl c used calls h
  | succ f ih =>
    simp only [flushAllLoop]
    have hs := skipFlush_law A c used h
    split
    · obtain ⟨a1, a2, a3⟩ := hs
      exact ⟨a1, a2, a3⟩
    · rename_i hc
      have hc' : (skipFlush A c used).closed = false := by simpa using hc
      have := ih (skipFlush A c used).conn (skipFlush A c used).used (calls ++ (skipFlush A c used).calls) hs.1
      exact deltaLaw_trans c used _ _ (flushAllLoop A f (skipFlush A c used).conn (skipFlush A c used).used (calls ++ (skipFlush A c used).calls)).calls hs hc' this

theorem flushAllConn_law (A : SeqArith) (c : Conn) (used : Int) (h : Acct c) :
    DeltaLaw c used (flushAllConn A c used) := flushAllLoop_law A _ c used [] h

/-! ### the pool: used = Σ pages of live connections -/

def sumPages (cs : List (Nat × Conn)) : Int := (cs.map (fun kc => kc.2.npages)).sum

def oldPages (k : Nat) (cs : List (Nat × Conn)) : Int :=
  match lookup k cs with
  | some c => c.npages
  | none => 0

theorem sumPages_cons (x : Nat × Conn) (cs : List (Nat × Conn)) :
    sumPages (x :: cs) = x.2.npages + sumPages cs := by simp [sumPages]

theorem oldPages_cons (k k' : Nat) (c' : Conn) (cs : List (Nat × Conn)) :
    oldPages k ((k', c') :: cs) = if k = k' then c'.npages else oldPages k cs := by
  unfold oldPages
  by_cases h : k = k'
  · simp [lookup, h]
  · simp [lookup, h]

theorem oldPages_of_lt (k : Nat) (cs : List (Nat × Conn)) (h : ∀ a ∈ cs, k < a.1) : oldPages k cs = 0 := by
  unfold oldPages; rw [lookup_none_of_lt k cs h]

theorem sum_upsert (k : Nat) (c : Conn) (cs : List (Nat × Conn)) (h : KeysSorted cs) :
    sumPages (upsert k c cs) = sumPages cs - oldPages k cs + c.npages := by
  induction cs with
  | nil => simp [upsert, sumPages, oldPages, lookup]
  | cons x cs ih =>
    obtain ⟨k', c'⟩ := x
    unfold KeysSorted at h
    rw [List.pairwise_cons] at h
    simp only [upsert]
    split
    · rename_i e
      rw [sumPages_cons, sumPages_cons, oldPages_cons, if_pos e]
      dsimp only; omega
    · rename_i hne
      split
      · rename_i hlt
        rw [sumPages_cons, oldPages_cons, if_neg hne, oldPages_of_lt k cs (fun a ha => Nat.lt_trans hlt (h.1 a ha))]
        dsimp only; omega
      · rw [sumPages_cons, sumPages_cons, ih h.2, oldPages_cons, if_neg hne]
        dsimp only; omega

theorem sum_remove (k : Nat) (cs : List (Nat × Conn)) (h : KeysSorted cs) :
    sumPages (remove k cs) = sumPages cs - oldPages k cs := by
  induction cs with
  | nil => simp [remove, sumPages, oldPages, lookup]
  | cons x cs ih =>
    obtain ⟨k', c'⟩ := x
    unfold KeysSorted at h
    rw [List.pairwise_cons] at h
    simp only [remove]
    split
    · rename_i e
      rw [sumPages_cons, oldPages_cons, if_pos e]
      dsimp only; omega
    · rename_i hne
      rw [sumPages_cons, sumPages_cons, ih h.2, oldPages_cons, if_neg hne]
      dsimp only; omega

/-- the accounting invariant of the whole assembler -/
def AcctInv (P : Pool) : Prop :=
  KeysSorted P.conns ∧ (∀ k c, lookup k P.conns = some c → Acct c ∧ NoWtf c) ∧ P.used = sumPages P.conns

theorem putBack_acct (P : Pool) (k : Nat) (c : Conn) (st : Step) (h : AcctInv P)
    (hold : oldPages k P.conns = c.npages) (hl : DeltaLaw c P.used st) (hw : NoWtf st.conn) :
    AcctInv (putBack P k st) := by
  obtain ⟨h1, h2, h3⟩ := h
  obtain ⟨l1, l2, l3⟩ := hl
  refine ⟨?_, ?_, ?_⟩
  · unfold putBack
    split
    · exact sorted_remove _ _ h1
    · exact sorted_upsert _ _ _ h1
  · intro k' c' hlk
    by_cases hk : k' = k
    · subst hk
      rw [lookup_putBack_self P k' st h1] at hlk
      split at hlk
      · cases hlk
      · cases hlk; exact ⟨l1, hw⟩
    · rw [lookup_putBack_ne P k k' st h1 hk] at hlk
      exact h2 k' c' hlk
  · unfold putBack
    split
    · rename_i hc
      show st.used = sumPages (remove k P.conns)
      rw [sum_remove k _ h1, hold, l3 hc, h3]
    · rename_i hc
      show st.used = sumPages (upsert k st.conn P.conns)
      rw [sum_upsert k _ _ h1, hold, l2 (by simpa using hc), h3]

theorem oldPages_some (k : Nat) (cs : List (Nat × Conn)) (c : Conn) (h : lookup k cs = some c) :
    oldPages k cs = c.npages := by unfold oldPages; rw [h]

theorem oldPages_none (k : Nat) (cs : List (Nat × Conn)) (h : lookup k cs = none) :
    oldPages k cs = 0 := by unfold oldPages; rw [h]

theorem acct_poolStepInv (A : SeqArith) (hA : ∀ x, A.diff x x ≤ 0) :
    PoolStepInv A AcctInv (fun s => s.seq ≠ invalidSeq) true where
  sorted := fun P h => h.1
  opt := fun _ P a b h => h
  asmOld := by
    intro P s c h hs hl
    obtain ⟨ha, hw⟩ := h.2.1 _ _ hl
    obtain ⟨st, hst, hw'⟩ := assembleConn_noWtf A hA P.lim c P.used s hw hs
    exact ⟨st, hst, putBack_acct P s.key c st h (oldPages_some _ _ _ hl)
      (assembleConn_law A P.lim c P.used s st ha hst) hw'⟩
  asmNew := by
    intro P s h hs hl
    have hw : NoWtf (freshConn s.ts P.nextSid) := by simp [NoWtf, HeadNe, freshConn]
    have ha : Acct (freshConn s.ts P.nextSid) := by simp [Acct, freshConn]
    obtain ⟨st, hst, hw'⟩ := assembleConn_noWtf A hA P.lim _ P.used s hw hs
    refine ⟨st, hst, ?_⟩
    exact putBack_acct { P with nextSid := P.nextSid + 1 } s.key (freshConn s.ts P.nextSid) st h
      (oldPages_none _ _ hl) (assembleConn_law A P.lim _ P.used s st ha hst) hw'
  flush := by
    intro P k c T ca h hl
    obtain ⟨ha, hw⟩ := h.2.1 _ _ hl
    exact putBack_acct P k c _ h (oldPages_some _ _ _ hl) (flushConn_law A T ca c P.used ha)
      (flushConn_noWtf A hA T ca c P.used hw)
  flushAll := by
    intro P k c h hl
    obtain ⟨ha, hw⟩ := h.2.1 _ _ hl
    exact putBack_acct P k c _ h (oldPages_some _ _ _ hl) (flushAllConn_law A c P.used ha)
      (flushAllLoop_noWtf A hA _ c P.used _ hw)

theorem acctInv_init : AcctInv {} := ⟨by simp [KeysSorted], by intro k c h; simp [lookup] at h, rfl⟩

end Gp.Asm
