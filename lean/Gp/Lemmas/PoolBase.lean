import Gp.Model.PoolBase
/-
  Helper lemmas shared by the two StreamPool models: function update, the key-sorted
  association list, runs of the generic LTS.
-/
namespace Gp.Pool

@[simp] theorem upd_same {α : Type} (f : Nat → α) (i : Nat) (v : α) : upd f i v i = v := by simp [upd]
theorem upd_other {α : Type} (f : Nat → α) {i j : Nat} (v : α) (h : j ≠ i) : upd f i v j = f j := by simp [upd, h]
theorem upd_apply {α : Type} (f : Nat → α) (i j : Nat) (v : α) : upd f i v j = if j = i then v else f j := rfl

theorem Key.rev_rev (k : Key) : k.rev.rev = k := by cases k; simp [Key.rev]
theorem Key.rev_ne (k : Key) : k.rev ≠ k := by cases k with | mk p d => cases d <;> simp [Key.rev]
theorem Key.rev_inj {a b : Key} (h : a.rev = b.rev) : a = b := by
  have := congrArg Key.rev h; simpa [Key.rev_rev] using this

namespace KMap

theorem get_del (m : KMap) (k k' : Key) : get (del m k) k' = if k' = k then none else get m k' := by
  induction m with
  | nil => simp [del, get]
  | cons a m ih =>
    obtain ⟨ka, ca⟩ := a
    by_cases h1 : ka = k
    · subst h1
      simp only [del, if_true, ih, get]
      by_cases h2 : k' = ka
      · simp [h2]
      · have : ¬ ka = k' := fun h => h2 h.symm
        simp [h2, this]
    · simp only [del, h1, if_false, get, ih]
      by_cases h2 : k' = k
      · subst h2; simp [h1]
      · simp [h2]

theorem get_ins (m : KMap) (k k' : Key) (c : CId) (hk : get m k = none) :
    get (ins m k c) k' = if k' = k then some c else get m k' := by
  induction m with
  | nil =>
    by_cases h : k' = k
    · subst h; simp [ins, get]
    · have : ¬ k = k' := fun e => h e.symm
      simp [ins, get, h, this]
  | cons a m ih =>
    obtain ⟨ka, ca⟩ := a
    have hne : ¬ ka = k := by
      intro e; subst e; simp [get] at hk
    have hk' : get m k = none := by simpa [get, hne] using hk
    simp only [ins]
    by_cases hl : k.lt ka = true
    · simp only [hl, if_true, get]
      by_cases h : k' = k
      · subst h; simp
      · have : ¬ k = k' := fun e => h e.symm
        simp [h, this]
    · simp only [hl]
      show get ((ka, ca) :: ins m k c) k' = _
      simp only [get, ih hk']
      by_cases h : k' = k
      · subst h; simp [hne]
      · simp [h]

theorem get_set (m : KMap) (k k' : Key) (c : CId) : get (set m k c) k' = if k' = k then some c else get m k' := by
  unfold set
  rw [get_ins _ _ _ _ (by simp [get_del])]
  by_cases h : k' = k
  · simp [h]
  · simp [h, get_del]

theorem mem_del {m : KMap} {k : Key} {x : Key × CId} (h : x ∈ del m k) : x ∈ m ∧ x.1 ≠ k := by
  induction m with
  | nil => simp [del] at h
  | cons a m ih =>
    obtain ⟨ka, ca⟩ := a
    by_cases h1 : ka = k
    · simp only [del, h1, if_true] at h
      exact ⟨List.mem_cons_of_mem _ (ih h).1, (ih h).2⟩
    · simp only [del, h1, if_false, List.mem_cons] at h
      rcases h with h | h
      · subst h; exact ⟨List.mem_cons_self, h1⟩
      · exact ⟨List.mem_cons_of_mem _ (ih h).1, (ih h).2⟩

theorem mem_ins {m : KMap} {k : Key} {c : CId} {x : Key × CId} (h : x ∈ ins m k c) : x = (k, c) ∨ x ∈ m := by
  induction m with
  | nil => simp [ins] at h; exact Or.inl h
  | cons a m ih =>
    obtain ⟨ka, ca⟩ := a
    simp only [ins] at h
    split at h
    · simp only [List.mem_cons] at h
      rcases h with h | h | h
      · exact Or.inl h
      · exact Or.inr (h ▸ List.mem_cons_self)
      · exact Or.inr (List.mem_cons_of_mem _ h)
    · simp only [List.mem_cons] at h
      rcases h with h | h
      · exact Or.inr (h ▸ List.mem_cons_self)
      · rcases ih h with h | h
        · exact Or.inl h
        · exact Or.inr (List.mem_cons_of_mem _ h)

theorem mem_set {m : KMap} {k : Key} {c : CId} {x : Key × CId} (h : x ∈ set m k c) : x = (k, c) ∨ x ∈ m := by
  rcases mem_ins h with h | h
  · exact Or.inl h
  · exact Or.inr (mem_del h).1

theorem mem_of_get {m : KMap} {k : Key} {c : CId} (h : get m k = some c) : (k, c) ∈ m := by
  induction m with
  | nil => simp [get] at h
  | cons a m ih =>
    obtain ⟨ka, ca⟩ := a
    simp only [get] at h
    split at h
    · next e => cases h; subst e; exact List.mem_cons_self
    · exact List.mem_cons_of_mem _ (ih h)

theorem mem_vals {m : KMap} {c : CId} (h : c ∈ vals m) : ∃ k, (k, c) ∈ m := by
  simp only [vals, List.mem_map] at h
  obtain ⟨⟨k, c'⟩, hm, rfl⟩ := h
  exact ⟨k, hm⟩

def keys (m : KMap) : List Key := m.map (·.1)

theorem mem_keys_del {m : KMap} {k k' : Key} (h : k' ∈ keys (del m k)) : k' ∈ keys m ∧ k' ≠ k := by
  simp only [keys, List.mem_map] at h
  obtain ⟨x, hx, rfl⟩ := h
  have := mem_del hx
  exact ⟨by simp only [keys, List.mem_map]; exact ⟨x, this.1, rfl⟩, this.2⟩

theorem nodup_del {m : KMap} (k : Key) (h : (keys m).Nodup) : (keys (del m k)).Nodup := by
  induction m with
  | nil => simp [del, keys]
  | cons a m ih =>
    obtain ⟨ka, ca⟩ := a
    have h' : ka ∉ keys m ∧ (keys m).Nodup := by simpa [keys] using h
    by_cases e : ka = k
    · simp only [del, e, if_true]; exact ih h'.2
    · simp only [del, e, if_false]
      show (ka :: keys (del m k)).Nodup
      refine List.nodup_cons.2 ⟨?_, ih h'.2⟩
      intro hm; exact h'.1 (mem_keys_del hm).1

theorem mem_keys_ins {m : KMap} {k k' : Key} {c : CId} (h : k' ∈ keys (ins m k c)) : k' = k ∨ k' ∈ keys m := by
  simp only [keys, List.mem_map] at h
  obtain ⟨x, hx, rfl⟩ := h
  rcases mem_ins hx with e | e
  · left; rw [e]
  · right; simp only [keys, List.mem_map]; exact ⟨x, e, rfl⟩

theorem nodup_ins {m : KMap} (k : Key) (c : CId) (h : (keys m).Nodup) (hk : k ∉ keys m) : (keys (ins m k c)).Nodup := by
  induction m with
  | nil => simp [ins, keys]
  | cons a m ih =>
    obtain ⟨ka, ca⟩ := a
    have h' : ka ∉ keys m ∧ (keys m).Nodup := by simpa [keys] using h
    have hk' : k ≠ ka ∧ k ∉ keys m := by simpa [keys] using hk
    simp only [ins]
    split
    · show (k :: ka :: keys m).Nodup
      exact List.nodup_cons.2 ⟨by simpa [keys] using hk, h⟩
    · show (ka :: keys (ins m k c)).Nodup
      refine List.nodup_cons.2 ⟨?_, ih h'.2 hk'.2⟩
      intro hm
      rcases mem_keys_ins hm with e | e
      · exact hk'.1 e.symm
      · exact h'.1 e

theorem nodup_set {m : KMap} (k : Key) (c : CId) (h : (keys m).Nodup) : (keys (set m k c)).Nodup := by
  unfold set
  exact nodup_ins k c (nodup_del k h) (fun hm => (mem_keys_del hm).2 rfl)

theorem get_of_mem_nodup {m : KMap} {k : Key} {c : CId} (hm : (k, c) ∈ m) (hn : (keys m).Nodup) : get m k = some c := by
  induction m with
  | nil => cases hm
  | cons a m ih =>
    obtain ⟨ka, ca⟩ := a
    have h' : ka ∉ keys m ∧ (keys m).Nodup := by simpa [keys] using hn
    simp only [List.mem_cons] at hm
    rcases hm with e | e
    · cases e; simp [get]
    · have hne : ¬ ka = k := by
        intro e2; subst e2
        exact h'.1 (by simp only [keys, List.mem_map]; exact ⟨(ka, c), e, rfl⟩)
      simp only [get, hne, if_false]
      exact ih e h'.2

theorem get_of_mem_vals {m : KMap} {c : CId} (hc : c ∈ vals m) (hn : (keys m).Nodup) : ∃ k, get m k = some c := by
  obtain ⟨k, hk⟩ := mem_vals hc
  exact ⟨k, get_of_mem_nodup hk hn⟩

end KMap

namespace Sys
variable {σ : Type}

theorem reachable_runStrict (S : Sys σ) {s s' : σ} (h : Reachable S s) (ts : List Tid)
    (hr : runStrict S s ts = some s') : Reachable S s' := by
  induction ts generalizing s with
  | nil => simp [runStrict] at hr; exact hr ▸ h
  | cons t ts ih =>
    simp only [runStrict] at hr
    split at hr
    · next s1 h1 => exact ih (Reachable.step h h1) hr
    · cases hr

theorem ReachableR.reachable {S : Sys σ} {ok : σ → Tid → Prop} {s : σ} (h : ReachableR S ok s) : Reachable S s := by
  induction h with
  | init => exact .init
  | step _ _ hs ih => exact .step ih hs

theorem reachable_of_run (S : Sys σ) (ts : List Tid) (h : (runStrict S S.init ts).isSome = true) :
    Reachable S ((runStrict S S.init ts).get h) :=
  reachable_runStrict S .init ts (Option.some_get h).symm

theorem reachable_run (S : Sys σ) {s : σ} (h : Reachable S s) (ts : List Tid) : Reachable S (run S s ts) := by
  induction ts generalizing s with
  | nil => exact h
  | cons t ts ih =>
    simp only [run]
    split
    · next s1 h1 => exact ih (Reachable.step h h1)
    · exact ih h

theorem reachableR_runG (S : Sys σ) {ok : σ → Tid → Prop} (okb : σ → Tid → Bool)
    (hok : ∀ s t, okb s t = true → ok s t) {s : σ} (h : ReachableR S ok s) (ts : List Tid) :
    ReachableR S ok (runG S okb s ts) := by
  induction ts generalizing s with
  | nil => exact h
  | cons t ts ih =>
    simp only [runG]
    split
    · next hb =>
      split
      · next s1 h1 => exact ih (ReachableR.step h (hok _ _ hb) h1)
      · exact ih h
    · exact ih h

/-- `reachableR_runG` when the decidable guard is only sound in states satisfying an invariant `I`. -/
theorem reachableR_runG_inv (S : Sys σ) {ok : σ → Tid → Prop} (okb : σ → Tid → Bool) (I : σ → Prop)
    (hIstep : ∀ s t s', I s → S.step s t = some s' → I s')
    (hok : ∀ s t, I s → okb s t = true → ok s t) {s : σ} (h : ReachableR S ok s) (hI : I s) (ts : List Tid) :
    ReachableR S ok (runG S okb s ts) := by
  induction ts generalizing s with
  | nil => exact h
  | cons t ts ih =>
    simp only [runG]
    split
    · next hb =>
      split
      · next s1 h1 => exact ih (ReachableR.step h (hok _ _ hI hb) h1) (hIstep _ _ _ hI h1)
      · exact ih h hI
    · exact ih h hI

/-- Invariant rule. -/
theorem invariant {S : Sys σ} (I : σ → Prop) (h0 : I S.init)
    (hstep : ∀ s t s', I s → S.step s t = some s' → I s') : ∀ s, Reachable S s → I s := by
  intro s h
  induction h with
  | init => exact h0
  | step _ hs ih => exact hstep _ _ _ ih hs

theorem invariantR {S : Sys σ} {ok : σ → Tid → Prop} (I : σ → Prop) (h0 : I S.init)
    (hstep : ∀ s t s', I s → ok s t → S.step s t = some s' → I s') : ∀ s, ReachableR S ok s → I s := by
  intro s h
  induction h with
  | init => exact h0
  | step _ hok hs ih => exact hstep _ _ _ ih hok hs

end Sys
end Gp.Pool
