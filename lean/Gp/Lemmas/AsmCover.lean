/-
  Offset space: everything that was fed to a connection is either behind nextSeq or still queued
  (`Cov`), the queue obeys the order invariant `J`, and between operations the first page lies
  strictly beyond nextSeq (`HeadBeyond`).  Consequence: once the SYN and every byte of the stream were
  fed, everything is accounted for (`asm_complete`).
-/
import Gp.Lemmas.AsmOrder
import Gp.Lemmas.AsmTrace
import Gp.Lemmas.AsmGap

namespace Gp.Asm

/-- offset `x` of the stream lies in the payload of the offset-space segment `s` -/
def covF (s : Seg) (x : Nat) : Prop :=
  (s.syn = true ∧ (x : Int) < (s.bytes.length : Int)) ∨
  (s.syn = false ∧ s.seq ≤ (x : Int) + 1 ∧ (x : Int) + 1 < s.seq + (s.bytes.length : Int))

def Cov (F : Nat → Prop) (n : Int) (pages : List Page) : Prop :=
  ∀ x, F x → ((x : Int) + 1 < n) ∨ (∃ pg ∈ pages, pg.seq ≤ (x : Int) + 1 ∧ (x : Int) + 1 < pg.seq + plen pg)

def HeadBeyond (n : Int) : List Page → Prop
  | [] => True
  | q :: _ => n < q.seq

/-- structural facts about (nextSeq, queue) relative to the set `F` of fed offsets -/
structure Ord (F : Nat → Prop) (n : Int) (pages : List Page) : Prop where
  nonneg : ∀ pg ∈ pages, 0 ≤ pg.seq
  j : J n pages
  cov : Cov F n pages
  head : HeadBeyond n pages

theorem cov_weaken (F : Nat → Prop) (n n' : Int) (ps ps' : List Page) (h : Cov F n ps) (hn : n ≤ n')
    (hs : ∀ pg ∈ ps, pg ∈ ps' ∨ pg.seq + plen pg ≤ n') : Cov F n' ps' := by
  intro x hx
  rcases h x hx with a | ⟨pg, hpg, a1, a2⟩
  · left; omega
  · rcases hs pg hpg with b | b
    · right; exact ⟨pg, b, a1, a2⟩
    · left; omega

theorem cov_pop (F : Nat → Prop) (n : Int) (p : Page) (ps : List Page) (h : Cov F n (p :: ps)) :
    Cov F (max n (p.seq + plen p)) ps := by
  apply cov_weaken F n _ (p :: ps) ps h (by omega)
  intro pg hpg
  rcases List.mem_cons.1 hpg with e | e
  · right; rw [e]; omega
  · left; exact e

theorem addContiguous_cov (F : Nat → Prop) (n : Int) (ps : List Page) (h : Cov F n ps)
    (hp : ∀ pg ∈ ps, 0 ≤ pg.seq) :
    Cov F (addContiguous flatArith n ps).next (addContiguous flatArith n ps).rest := by
  induction ps generalizing n with
  | nil => exact h
  | cons p ps ih =>
    simp only [addContiguous]
    split
    · have hn := popPage_flat_next n p (hp p List.mem_cons_self)
      have := cov_pop F n p ps h
      rw [← hn] at this
      exact ih _ this (fun q hq => hp q (List.mem_cons_of_mem _ hq))
    · exact h

theorem limitPops_cov (F : Nat → Prop) (L : Lim) (n : Int) (ps : List Page) (np used : Int)
    (h : Cov F n ps) (hp : ∀ pg ∈ ps, 0 ≤ pg.seq) :
    Cov F (limitPops flatArith L n ps np used).next (limitPops flatArith L n ps np used).rest := by
  induction ps generalizing n np used with
  | nil => exact h
  | cons p ps ih =>
    simp only [limitPops]
    split
    · have hn := popPage_flat_next n p (hp p List.mem_cons_self)
      have := cov_pop F n p ps h
      rw [← hn] at this
      exact ih _ _ _ this (fun q hq => hp q (List.mem_cons_of_mem _ hq))
    · exact h

/-- sendToConnection keeps the structural facts -/
theorem send_ord (F : Nat → Prop) (c : Conn) (used : Int) (r0 : Reasm) (rs : List Reasm)
    (hnn : ∀ pg ∈ c.pages, 0 ≤ pg.seq) (hj : J c.nextSeq c.pages) (hc : Cov F c.nextSeq c.pages) :
    Ord F (send flatArith c used r0 rs).conn.nextSeq (send flatArith c used r0 rs).conn.pages := by
  rw [send_nextSeq, send_pages]
  obtain ⟨a1, _, a3⟩ := addContiguous_J c.nextSeq c.pages hj hnn
  refine ⟨fun pg hpg => hnn pg (addContiguous_rest_sub flatArith _ _ pg hpg), a1,
    addContiguous_cov F _ _ hc hnn, ?_⟩
  cases hr : (addContiguous flatArith c.nextSeq c.pages).rest with
  | nil => trivial
  | cons q ys => exact a3 q ys hr

theorem skipFlush_ord (F : Nat → Prop) (c : Conn) (used : Int) (h : Ord F c.nextSeq c.pages) :
    Ord F (skipFlush flatArith c used).conn.nextSeq (skipFlush flatArith c used).conn.pages := by
  unfold skipFlush
  split
  · exact h
  · rename_i p ps hp
    dsimp only
    have hnn : ∀ pg ∈ ps, 0 ≤ pg.seq := fun pg hpg => h.nonneg pg (by rw [hp]; exact List.mem_cons_of_mem _ hpg)
    have hp0 : 0 ≤ p.seq := h.nonneg p (by rw [hp]; exact List.mem_cons_self)
    have hn := popPage_flat_next c.nextSeq p hp0
    have hj := h.j; rw [hp] at hj
    have hc := h.cov; rw [hp] at hc
    apply send_ord F _ _ _ _ hnn
    · show J (popPage flatArith c.nextSeq p).2 ps
      rw [hn]; exact hj.2
    · show Cov F (popPage flatArith c.nextSeq p).2 ps
      rw [hn]; exact cov_pop F _ p ps hc

/-! ### inserting a packet -/

theorem splitPages_cover (fuel : Nat) (s : Int) (b : Bytes) (fin : Bool) (ts : Int) (x : Int)
    (h1 : s ≤ x) (h2 : x < s + (b.length : Int)) :
    ∃ pg ∈ splitPages flatArith fuel s b fin ts, pg.seq ≤ x ∧ x < pg.seq + plen pg := by
  induction fuel generalizing s b with
  | zero => exact ⟨_, List.mem_singleton.2 rfl, h1, h2⟩
  | succ f ih =>
    simp only [splitPages]
    split
    · rename_i he
      simp only [List.isEmpty_iff, List.drop_eq_nil_iff] at he
      refine ⟨_, List.mem_singleton.2 rfl, h1, ?_⟩
      simp only [plen, List.length_take]
      omega
    · by_cases hx : x < s + ((min b.length pageBytes : Nat) : Int)
      · refine ⟨_, List.mem_cons_self, h1, ?_⟩
        simp only [plen, List.length_take]
        omega
      · obtain ⟨pg, hpg, a1, a2⟩ := ih (flatArith.add s ((min b.length pageBytes : Nat) : Int))
          (b.drop (min b.length pageBytes)) (by simp only [flat_add]; omega)
          (by simp only [flat_add, List.length_drop]; omega)
        exact ⟨pg, List.mem_cons_of_mem _ hpg, a1, a2⟩

theorem splitPages_nonneg (fuel : Nat) (s : Int) (b : Bytes) (fin : Bool) (ts : Int) (hs : 0 ≤ s) :
    ∀ pg ∈ splitPages flatArith fuel s b fin ts, 0 ≤ pg.seq := by
  intro pg hpg
  have := chain_ge s _ (splitPages_chain fuel s b fin ts) pg hpg
  omega

theorem headBeyond_insert (n s : Int) (B ps : List Page) (hc : Chain s B) (hs : n < s)
    (h : HeadBeyond n ps) : HeadBeyond n (insertPages flatArith s B ps) := by
  cases hq : insertPages flatArith s B ps with
  | nil => trivial
  | cons q ys =>
    have hm : q ∈ insertPages flatArith s B ps := by rw [hq]; exact List.mem_cons_self
    show n < q.seq
    -- the head of the result is the head of B or the head of ps
    cases ps with
    | nil =>
      rcases (mem_insertPages flatArith s B [] q).1 hm with e | e
      · have := chain_ge s B hc q e; omega
      · simp at e
    | cons p ps' =>
      rw [insertPages_cons] at hq
      split at hq
      · cases B with
        | nil => simp only [List.nil_append, List.cons.injEq] at hq; rw [← hq.1]; exact h
        | cons b bs =>
          simp only [List.cons_append, List.cons.injEq] at hq
          rw [← hq.1, hc.1]; exact hs
      · simp only [List.cons.injEq] at hq
        rw [← hq.1]; exact h

/-- insertIntoConn keeps the structural facts and accounts for the new payload -/
theorem insertIntoConn_ord (F : Nat → Prop) (L : Lim) (c : Conn) (used : Int) (s : Int) (b : Bytes)
    (fin : Bool) (ts : Int) (st : Step) (h : Ord F c.nextSeq c.pages) (hs : c.nextSeq < s) (hs0 : 0 ≤ s)
    (hst : insertIntoConn flatArith L c used s b fin ts = .ok st) :
    Ord (fun x => F x ∨ (s ≤ (x : Int) + 1 ∧ (x : Int) + 1 < s + (b.length : Int)))
      st.conn.nextSeq st.conn.pages := by
  unfold insertIntoConn at hst
  split at hst
  · cases hst
  · dsimp only at hst
    have hchain : Chain s (pagesFromTCP flatArith s b fin ts) := splitPages_chain _ s b fin ts
    have hnn : ∀ pg ∈ insertPages flatArith s (pagesFromTCP flatArith s b fin ts) c.pages, 0 ≤ pg.seq := by
      intro pg hpg
      rcases (mem_insertPages flatArith s _ _ pg).1 hpg with e | e
      · exact splitPages_nonneg _ s b fin ts hs0 pg e
      · exact h.nonneg pg e
    have hj := J_insert c.nextSeq s _ c.pages h.j hchain
    have hcov : Cov (fun x => F x ∨ (s ≤ (x : Int) + 1 ∧ (x : Int) + 1 < s + (b.length : Int))) c.nextSeq
        (insertPages flatArith s (pagesFromTCP flatArith s b fin ts) c.pages) := by
      intro x hx
      rcases hx with hx | hx
      · rcases h.cov x hx with a | ⟨pg, hpg, a⟩
        · left; exact a
        · right; exact ⟨pg, (mem_insertPages flatArith s _ _ pg).2 (Or.inr hpg), a⟩
      · obtain ⟨pg, hpg, a⟩ := splitPages_cover (b.length + 1) s b fin ts ((x : Int) + 1) hx.1 hx.2
        right; exact ⟨pg, (mem_insertPages flatArith s _ _ pg).2 (Or.inl hpg), a⟩
    have hhead := headBeyond_insert c.nextSeq s _ c.pages hchain hs h.head
    generalize (pagesFromTCP flatArith s b fin ts) = new at hst hnn hj hcov hhead
    have hlj := limitPops_J L c.nextSeq (insertPages flatArith s new c.pages)
      (c.npages + (new.length : Int)) (used + (new.length : Int)) hj hnn
    have hlc := limitPops_cov _ L c.nextSeq (insertPages flatArith s new c.pages)
      (c.npages + (new.length : Int)) (used + (new.length : Int)) hcov hnn
    have hls := limitPops_rest_sub flatArith L c.nextSeq (insertPages flatArith s new c.pages)
      (c.npages + (new.length : Int)) (used + (new.length : Int))
    split at hst
    · rename_i hnil
      cases hst
      have := limitPops_nil flatArith L _ _ _ _ hnil
      dsimp only
      rw [this.1, this.2]
      exact ⟨hnn, hj, hcov, hhead⟩
    · cases hst
      exact send_ord _ _ _ _ _ (fun pg hpg => hnn pg (hls pg hpg)) hlj.1 hlc

/-! ### nextSeq never moves backwards -/

theorem send_next_ge (c : Conn) (used : Int) (r0 : Reasm) (rs : List Reasm)
    (hnn : ∀ pg ∈ c.pages, 0 ≤ pg.seq) (hj : J c.nextSeq c.pages) :
    c.nextSeq ≤ (send flatArith c used r0 rs).conn.nextSeq := by
  rw [send_nextSeq]
  exact (addContiguous_J c.nextSeq c.pages hj hnn).2.1

theorem skipFlush_next_ge (F : Nat → Prop) (c : Conn) (used : Int) (h : Ord F c.nextSeq c.pages) :
    c.nextSeq ≤ (skipFlush flatArith c used).conn.nextSeq := by
  unfold skipFlush
  split
  · exact Int.le_refl _
  · rename_i p ps hp
    dsimp only
    have hnn : ∀ pg ∈ ps, 0 ≤ pg.seq := fun pg hpg => h.nonneg pg (by rw [hp]; exact List.mem_cons_of_mem _ hpg)
    have hp0 : 0 ≤ p.seq := h.nonneg p (by rw [hp]; exact List.mem_cons_self)
    have hn := popPage_flat_next c.nextSeq p hp0
    have hj := h.j; rw [hp] at hj
    have := send_next_ge { c with nextSeq := (popPage flatArith c.nextSeq p).2, pages := ps, npages := c.npages - 1 }
      (used - 1) (popPage flatArith c.nextSeq p).1 [] hnn (by show J (popPage flatArith c.nextSeq p).2 ps; rw [hn]; exact hj.2)
    dsimp only at this
    omega

theorem insertIntoConn_next_ge (F : Nat → Prop) (L : Lim) (c : Conn) (used : Int) (s : Int) (b : Bytes)
    (fin : Bool) (ts : Int) (st : Step) (h : Ord F c.nextSeq c.pages) (hs0 : 0 ≤ s)
    (hst : insertIntoConn flatArith L c used s b fin ts = .ok st) : c.nextSeq ≤ st.conn.nextSeq := by
  unfold insertIntoConn at hst
  split at hst
  · cases hst
  · dsimp only at hst
    have hchain : Chain s (pagesFromTCP flatArith s b fin ts) := splitPages_chain _ s b fin ts
    have hnn : ∀ pg ∈ insertPages flatArith s (pagesFromTCP flatArith s b fin ts) c.pages, 0 ≤ pg.seq := by
      intro pg hpg
      rcases (mem_insertPages flatArith s _ _ pg).1 hpg with e | e
      · exact splitPages_nonneg _ s b fin ts hs0 pg e
      · exact h.nonneg pg e
    have hj := J_insert c.nextSeq s _ c.pages h.j hchain
    generalize (pagesFromTCP flatArith s b fin ts) = new at hst hnn hj
    have hlj := limitPops_J L c.nextSeq (insertPages flatArith s new c.pages)
      (c.npages + (new.length : Int)) (used + (new.length : Int)) hj hnn
    have hls := limitPops_rest_sub flatArith L c.nextSeq (insertPages flatArith s new c.pages)
      (c.npages + (new.length : Int)) (used + (new.length : Int))
    generalize limitPops flatArith L c.nextSeq (insertPages flatArith s new c.pages)
      (c.npages + (new.length : Int)) (used + (new.length : Int)) = R at hst hlj hls
    split at hst
    · cases hst; exact hlj.2
    · rename_i r0 rs _
      cases hst
      have := send_next_ge (⟨R.next, R.rest, c.npages + (new.length : Int) - (R.items.length : Int), c.lastSeen, c.sid⟩ : Conn)
        (used + (new.length : Int) - (R.items.length : Int)) r0 rs
        (fun pg hpg => hnn pg (hls pg hpg)) hlj.1
      have h2 := hlj.2
      dsimp only at this
      omega

/-! ### AssembleWithTimestamp -/

theorem assembleConn_ord (F : Nat → Prop) (S : Bytes) (L : Lim) (c : Conn) (used : Int) (s : Seg)
    (st : Step) (pos : Option Nat) (hc : ConnOk S c pos) (ho : Ord F c.nextSeq c.pages)
    (hs : FlatSegOk S s) (hst : assembleConn flatArith L c used s = .ok st) :
    Ord (fun x => F x ∨ covF s x) st.conn.nextSeq st.conn.pages ∧ c.nextSeq ≤ st.conn.nextSeq ∧
      (s.syn = true → 0 ≤ st.conn.nextSeq) := by
  obtain ⟨off, hlen, hb, hpay, hns, hsy⟩ := flatSeg_payload S s hs
  unfold assembleConn at hst
  dsimp only at hst
  generalize hcc : (if c.lastSeen < s.ts then { c with lastSeen := s.ts } else c) = c1 at hst
  have h1 : c1.nextSeq = c.nextSeq := by rw [← hcc]; split <;> rfl
  have h2 : c1.pages = c.pages := by rw [← hcc]; split <;> rfl
  have ho1 : Ord F c1.nextSeq c1.pages := by rw [h1, h2]; exact ho
  obtain ⟨e1, e2, _⟩ := hc
  rw [← h1] at e1
  rw [← h1]
  -- the three ways a payload at flat sequence number q is handled
  have hcovq : ∀ q : Int, (s.syn = true → q = 1) → (s.syn = false → q = s.seq) → ∀ x, covF s x →
      (q ≤ (x : Int) + 1 ∧ (x : Int) + 1 < q + (s.bytes.length : Int)) := by
    intro q hq1 hq2 x hx
    rcases hx with ⟨a, b⟩ | ⟨a, b, c⟩
    · rw [hq1 a]; omega
    · rw [hq2 a]; exact ⟨b, c⟩
  have hinsert : ∀ q : Int, (s.syn = true → q = 1) → (s.syn = false → q = s.seq) → c1.nextSeq < q → 0 ≤ q →
      ∀ fin, insertIntoConn flatArith L c1 used q s.bytes fin s.ts = .ok st →
      Ord (fun x => F x ∨ covF s x) st.conn.nextSeq st.conn.pages ∧ c1.nextSeq ≤ st.conn.nextSeq := by
    intro q hq1 hq2 hlt h0 fin hi
    have := insertIntoConn_ord F L c1 used q s.bytes fin s.ts st ho1 hlt h0 hi
    refine ⟨⟨this.nonneg, this.j, ?_, this.head⟩, insertIntoConn_next_ge F L c1 used q s.bytes fin s.ts st ho1 h0 hi⟩
    intro x hx
    apply this.cov x
    rcases hx with hx | hx
    · exact Or.inl hx
    · exact Or.inr (hcovq q hq1 hq2 x hx)
  have hdirect : ∀ (n' : Int) r0, c1.nextSeq ≤ n' → (∀ x, covF s x → (x : Int) + 1 < n') →
      st = send flatArith { c1 with nextSeq := n' } used r0 [] →
      Ord (fun x => F x ∨ covF s x) st.conn.nextSeq st.conn.pages ∧ c1.nextSeq ≤ st.conn.nextSeq ∧
        n' ≤ st.conn.nextSeq := by
    intro n' r0 hle hcv e
    have hj' : J n' c1.pages := J_mono _ _ _ hle ho1.j
    have hc' : Cov (fun x => F x ∨ covF s x) n' c1.pages := by
      intro x hx
      rcases hx with hx | hx
      · rcases ho1.cov x hx with a | a
        · left; omega
        · right; exact a
      · left; exact hcv x hx
    rw [e]
    have := send_next_ge { c1 with nextSeq := n' } used r0 [] ho1.nonneg hj'
    dsimp only at this
    exact ⟨send_ord _ { c1 with nextSeq := n' } used r0 [] ho1.nonneg hj' hc', by omega, this⟩
  cases pos with
  | none =>
    have hinv : c1.nextSeq = invalidSeq := e1
    rw [if_pos hinv] at hst
    by_cases hsyn : s.syn = true
    · rw [if_pos hsyn] at hst
      obtain ⟨ho0, hq⟩ := hsy hsyn
      cases hst
      have := hdirect (flatArith.add (payloadSeq flatArith c1.nextSeq s) ((s.bytes.length : Int) + 1)) _
        (by rw [hinv, payloadSeq_invalid, hq, invalidSeq_eq]; simp only [flat_add]; omega)
        (by
          intro x hx
          rw [hinv, payloadSeq_invalid, hq]
          simp only [flat_add]
          rcases hx with ⟨_, b⟩ | ⟨a, _⟩
          · omega
          · rw [hsyn] at a; cases a) rfl
      refine ⟨this.1, this.2.1, fun _ => ?_⟩
      have h4 : 0 ≤ flatArith.add (payloadSeq flatArith c1.nextSeq s) ((s.bytes.length : Int) + 1) := by
        rw [hinv, payloadSeq_invalid, hq]; simp only [flat_add]; omega
      have h5 := this.2.2
      omega
    · rw [if_neg hsyn] at hst
      have hsf : s.syn = false := by simpa using hsyn
      rw [hinv, payloadSeq_invalid] at hst
      have := hinsert s.seq (fun h => by rw [hsf] at h; cases h) (fun _ => rfl)
        (by rw [hinv, invalidSeq_eq, hns hsf]; omega) (by rw [hns hsf]; omega) _ hst
      exact ⟨this.1, this.2, fun h => by rw [hsf] at h; cases h⟩
  | some p =>
    have hinv : ¬ c1.nextSeq = invalidSeq := by rw [e1]; exact enc_ne_invalid p
    rw [if_neg hinv, e1, hpay p] at hst
    have hq1 : s.syn = true → (off : Int) + 1 = 1 := fun h => by rw [(hsy h).1]; rfl
    have hq2 : s.syn = false → (off : Int) + 1 = s.seq := fun h => (hns h).symm
    have hnonneg : ∀ n' : Int, c1.nextSeq ≤ n' → 0 ≤ n' := by
      intro n' h; rw [e1] at h; simp only [enc] at h; omega
    split at hst
    · rename_i hd
      have := hinsert ((off : Int) + 1) hq1 hq2 (by rw [e1]; simp only [flat_diff] at hd; omega) (by omega) _ hst
      exact ⟨this.1, this.2, fun _ => hnonneg _ this.2⟩
    · rename_i hd
      cases hst
      have hnx := byteSpan_flat_next (enc (some p)) ((off : Int) + 1) s.bytes (fun h => by omega)
      have := hdirect (byteSpan flatArith (enc (some p)) ((off : Int) + 1) s.bytes).2 _
        (by rw [hnx, e1]; omega)
        (by
          intro x hx
          have := hcovq ((off : Int) + 1) hq1 hq2 x hx
          rw [hnx]; omega) rfl
      exact ⟨this.1, this.2.1, fun _ => hnonneg _ this.2.1⟩

/-! ### Flush* -/

theorem flushLoop_ord (F : Nat → Prop) (T : Int) (fuel : Nat) (c : Conn) (used : Int)
    (calls : List (List Reasm)) (fl : Bool) (h : Ord F c.nextSeq c.pages) :
    Ord F (flushLoop flatArith T fuel c used calls fl).1.conn.nextSeq
        (flushLoop flatArith T fuel c used calls fl).1.conn.pages ∧
      c.nextSeq ≤ (flushLoop flatArith T fuel c used calls fl).1.conn.nextSeq := by
  induction fuel generalizing c used calls fl with
  | zero => exact ⟨h, Int.le_refl _⟩
  | succ f ih =>
    simp only [flushLoop]
    split
    · exact ⟨h, Int.le_refl _⟩
    · split
      · have h1 := skipFlush_ord F c used h
        have h2 := skipFlush_next_ge F c used h
        split
        · exact ⟨h1, h2⟩
        · obtain ⟨a1, a2⟩ := ih (skipFlush flatArith c used).conn (skipFlush flatArith c used).used
            (calls ++ (skipFlush flatArith c used).calls) true h1
          exact ⟨a1, by omega⟩
      · exact ⟨h, Int.le_refl _⟩

theorem flushConn_ord (F : Nat → Prop) (T : Int) (ca : Bool) (c : Conn) (used : Int)
    (h : Ord F c.nextSeq c.pages) :
    Ord F (flushConn flatArith T ca c used).1.conn.nextSeq (flushConn flatArith T ca c used).1.conn.pages ∧
      c.nextSeq ≤ (flushConn flatArith T ca c used).1.conn.nextSeq := by
  have := flushLoop_ord F T c.pages.length c used [] false h
  unfold flushConn; dsimp only
  split
  · exact this
  · exact this

theorem flushAllLoop_ord (F : Nat → Prop) (fuel : Nat) (c : Conn) (used : Int)
    (calls : List (List Reasm)) (h : Ord F c.nextSeq c.pages) :
    Ord F (flushAllLoop flatArith fuel c used calls).conn.nextSeq
        (flushAllLoop flatArith fuel c used calls).conn.pages ∧
      c.nextSeq ≤ (flushAllLoop flatArith fuel c used calls).conn.nextSeq := by
  induction fuel generalizing c used calls with
  | zero => exact ⟨h, Int.le_refl _⟩
  | succ f ih =>
    simp only [flushAllLoop]
    have h1 := skipFlush_ord F c used h
    have h2 := skipFlush_next_ge F c used h
    split
    · exact ⟨h1, h2⟩
    · obtain ⟨a1, a2⟩ := ih (skipFlush flatArith c used).conn (skipFlush flatArith c used).used
        (calls ++ (skipFlush flatArith c used).calls) h1
      exact ⟨a1, by omega⟩

/-! ### the history-indexed invariant and completeness -/

theorem gotItems_append (h1 h2 : List HEv) : gotItems (h1 ++ h2) = gotItems h1 ++ gotItems h2 := by
  induction h1 with
  | nil => rfl
  | cons e h1 ih => cases e <;> simp [gotItems, ih]

theorem gotItems_stepHist (st : Step) : gotItems (stepHist st) = st.calls.flatten := by
  unfold stepHist
  rw [gotItems_append]
  have h1 : ∀ calls : List (List Reasm), gotItems (calls.map HEv.got) = calls.flatten := by
    intro calls
    induction calls with
    | nil => rfl
    | cons x xs ih => simp [gotItems, ih]
  rw [h1]
  split <;> simp [gotItems]

/-- offsets fed to the stream so far -/
def fedOffs (h : List HEv) (x : Nat) : Prop := ∃ s, HEv.fed s ∈ h ∧ covF s x

def StrongR (Sf : Nat → Bytes) (k : Nat) (c : Conn) (h : List HEv) : Prop :=
  ∃ pos, replay (Sf k) none (gotItems h) pos ∧ ConnOk (Sf k) c pos ∧ NoWtf c ∧
    Ord (fedOffs h) c.nextSeq c.pages ∧ (synFed h → 0 ≤ c.nextSeq)

/-- everything accounted for once the SYN and every byte were fed -/
def StrongD (Sf : Nat → Bytes) (k : Nat) (h : List HEv) : Prop :=
  ∃ pos, replay (Sf k) none (gotItems h) pos ∧
    (synFed h → (∀ x, x < (Sf k).length → fedOffs h x) → pos = some (Sf k).length)

theorem complete_of_facts (S : Bytes) (c : Conn) (pos : Option Nat) (F : Nat → Prop)
    (hc : ConnOk S c pos) (ho : Ord F c.nextSeq c.pages) (hsyn : 0 ≤ c.nextSeq)
    (hall : ∀ x, x < S.length → F x) : pos = some S.length := by
  obtain ⟨e1, e2, _⟩ := hc
  cases pos with
  | none => rw [e1] at hsyn; simp [enc] at hsyn
  | some p =>
    have hp : p ≤ S.length := e2
    by_cases hlt : p < S.length
    · exfalso
      rcases ho.cov p (hall p hlt) with a | ⟨pg, hpg, a1, a2⟩
      · rw [e1] at a; simp only [enc] at a; omega
      · cases hps : c.pages with
        | nil => rw [hps] at hpg; simp at hpg
        | cons q ys =>
          have hh := ho.head
          have hj := ho.j
          rw [hps] at hh hj hpg
          have hq : c.nextSeq < q.seq := hh
          rw [e1] at hq
          simp only [enc] at hq
          rcases List.mem_cons.1 hpg with e | e
          · rw [e] at a1; omega
          · have := J_head_min c.nextSeq q ys hj hh pg e
            omega
    · have : p = S.length := by omega
      rw [this]

theorem strongD_of_facts (Sf : Nat → Bytes) (k : Nat) (c : Conn) (h : List HEv) (hr : StrongR Sf k c h) :
    StrongD Sf k h := by
  obtain ⟨pos, h1, h2, _, h4, h5⟩ := hr
  exact ⟨pos, h1, fun hs hall => complete_of_facts (Sf k) c pos _ h2 h4 (h5 hs) hall⟩

theorem ord_mono (F F' : Nat → Prop) (n : Int) (ps : List Page) (hF : ∀ x, F' x → F x) (h : Ord F n ps) :
    Ord F' n ps := ⟨h.nonneg, h.j, fun x hx => h.cov x (hF x hx), h.head⟩

theorem fed_mem_stepHist (s : Seg) (st : Step) : ¬ HEv.fed s ∈ stepHist st := by
  unfold stepHist
  intro h
  rcases List.mem_append.1 h with h | h
  · obtain ⟨c, _, e⟩ := List.mem_map.1 h; cases e
  · split at h <;> simp at h

theorem fed_mem_append_stepHist (s : Seg) (h : List HEv) (st : Step) :
    HEv.fed s ∈ h ++ stepHist st ↔ HEv.fed s ∈ h := by
  constructor
  · intro hm
    rcases List.mem_append.1 hm with a | a
    · exact a
    · exact absurd a (fed_mem_stepHist s st)
  · intro hm; exact List.mem_append_left _ hm

theorem fed_mem_asm (s s' : Seg) (h : List HEv) (st : Step) :
    HEv.fed s' ∈ h ++ HEv.fed s :: stepHist st ↔ HEv.fed s' ∈ h ∨ s' = s := by
  constructor
  · intro hm
    rcases List.mem_append.1 hm with a | a
    · exact Or.inl a
    · rcases List.mem_cons.1 a with e | e
      · cases e; exact Or.inr rfl
      · exact absurd e (fed_mem_stepHist s' st)
  · intro hm
    rcases hm with a | a
    · exact List.mem_append_left _ a
    · rw [a]; exact List.mem_append_right _ List.mem_cons_self

theorem strong_streamInv2 (Sf : Nat → Bytes) :
    StreamInv2 flatArith (StrongR Sf) (StrongD Sf) (fun s => FlatSegOk (Sf s.key) s) where
  nil := fun k => ⟨none, rfl, fun ⟨s, hs, _⟩ => by simp at hs⟩
  fresh := by
    intro k ts sid
    refine ⟨none, rfl, ⟨rfl, trivial, by intro pg h; simp at h⟩, by simp [NoWtf, HeadNe], ?_, ?_⟩
    · exact ⟨by intro pg h; simp at h, trivial, by intro x ⟨s, hs, _⟩; simp at hs, trivial⟩
    · intro ⟨s, hs, _⟩; simp at hs
  asm := by
    intro L c used s h ⟨pos, h1, h2, h3, h4, h5⟩ hs
    obtain ⟨st, e1, pos', e2, e3⟩ := assembleConn_flat (Sf s.key) L c used s pos h2 h3 hs
    obtain ⟨st', e1', e4⟩ := assembleConn_noWtf flatArith flat_diff_self L c used s h3 (flatSeg_seq_ne _ s hs)
    rw [e1] at e1'; cases e1'
    obtain ⟨o1, o2, o3⟩ := assembleConn_ord (fedOffs h) (Sf s.key) L c used s st pos h2 h4 hs e1
    have hR : StrongR Sf s.key st.conn (h ++ HEv.fed s :: stepHist st) := by
      refine ⟨pos', ?_, e3, e4, ?_, ?_⟩
      · rw [gotItems_append]
        show replay _ none (gotItems h ++ gotItems (HEv.fed s :: stepHist st)) pos'
        have : gotItems (HEv.fed s :: stepHist st) = st.calls.flatten := by
          show gotItems (stepHist st) = _; exact gotItems_stepHist st
        rw [this]
        exact replay_append _ _ _ _ _ _ h1 e2
      · apply ord_mono _ _ _ _ _ o1
        intro x ⟨s', hs', hc'⟩
        rcases (fed_mem_asm s s' h st).1 hs' with a | a
        · exact Or.inl ⟨s', a, hc'⟩
        · rw [a] at hc'; exact Or.inr hc'
      · intro ⟨s', hs', hsyn'⟩
        rcases (fed_mem_asm s s' h st).1 hs' with a | a
        · have := h5 ⟨s', a, hsyn'⟩; omega
        · rw [a] at hsyn'; exact o3 hsyn'
    exact ⟨st, e1, fun _ => hR, fun _ => strongD_of_facts Sf s.key st.conn _ hR⟩
  flush := by
    intro k T ca c used h ⟨pos, h1, h2, h3, h4, h5⟩
    obtain ⟨pos', e2, e3⟩ := flushConn_flat (Sf k) T ca c used pos h2
    obtain ⟨o1, o2⟩ := flushConn_ord (fedOffs h) T ca c used h4
    have hR : StrongR Sf k (flushConn flatArith T ca c used).1.conn (h ++ stepHist (flushConn flatArith T ca c used).1) := by
      refine ⟨pos', ?_, e3, flushConn_noWtf flatArith flat_diff_self T ca c used h3, ?_, ?_⟩
      · rw [gotItems_append, gotItems_stepHist]
        exact replay_append _ _ _ _ _ _ h1 e2
      · apply ord_mono _ _ _ _ _ o1
        intro x ⟨s', hs', hc'⟩
        exact ⟨s', (fed_mem_append_stepHist s' h _).1 hs', hc'⟩
      · intro ⟨s', hs', hsyn'⟩
        have := h5 ⟨s', (fed_mem_append_stepHist s' h _).1 hs', hsyn'⟩
        omega
    exact ⟨fun _ => hR, fun _ => strongD_of_facts Sf k _ _ hR⟩
  flushAll := by
    intro k c used h ⟨pos, h1, h2, h3, h4, h5⟩
    obtain ⟨pos', e2, e3⟩ := flushAllConn_flat (Sf k) c used pos h2
    obtain ⟨o1, o2⟩ := flushAllLoop_ord (fedOffs h) (c.pages.length + 1) c used [] h4
    have hR : StrongR Sf k (flushAllConn flatArith c used).conn (h ++ stepHist (flushAllConn flatArith c used)) := by
      refine ⟨pos', ?_, e3, flushAllLoop_noWtf flatArith flat_diff_self _ c used _ h3, ?_, ?_⟩
      · rw [gotItems_append, gotItems_stepHist]
        exact replay_append _ _ _ _ _ _ h1 e2
      · apply ord_mono _ _ _ _ _ o1
        intro x ⟨s', hs', hc'⟩
        exact ⟨s', (fed_mem_append_stepHist s' h _).1 hs', hc'⟩
      · intro ⟨s', hs', hsyn'⟩
        have := h5 ⟨s', (fed_mem_append_stepHist s' h _).1 hs', hsyn'⟩
        have o2' : c.nextSeq ≤ (flushAllConn flatArith c used).conn.nextSeq := o2
        omega
    exact ⟨fun _ => hR, fun _ => strongD_of_facts Sf k _ _ hR⟩

/-- Offset space: for every history of consistent segments and every stream, the items replay, and
    once the SYN and every byte were fed to that stream the replay position is the end of the stream. -/
theorem flat_complete (Sf : Nat → Bytes) (ops : List Op)
    (hops : ∀ op ∈ ops, OpPre (fun s => FlatSegOk (Sf s.key) s) op) :
    ∃ x, run flatArith {} ops = .ok x ∧
      ∀ k sid, StrongD Sf k (histOf k sid (runTrace flatArith {} ops)) := by
  obtain ⟨x, h1, h2⟩ := run_traceInv (strong_streamInv2 Sf) {} [] ops
    (traceInv_init (fun k => ⟨none, rfl, fun ⟨s, hs, _⟩ => by simp at hs⟩)) hops
  refine ⟨x, h1, fun k sid => ?_⟩
  simp only [List.nil_append] at h2
  by_cases hl : ∃ c, lookup k x.1.conns = some c ∧ c.sid = sid
  · obtain ⟨c, hc, hs⟩ := hl
    have := (h2.live k c hc).2
    rw [hs] at this
    exact strongD_of_facts Sf k c _ this
  · exact h2.dead k sid (fun c hc hs => hl ⟨c, hc, hs⟩)

/-- the gap in front of the first queued page contains no byte that was ever handed to the connection -/
theorem gap_not_fed (F : Nat → Prop) (n : Int) (q : Page) (ys : List Page) (h : Ord F n (q :: ys))
    (x : Nat) (h1 : n ≤ (x : Int) + 1) (h2 : (x : Int) + 1 < q.seq) : ¬ F x := by
  intro hx
  have hlt : n < q.seq := by omega
  rcases h.cov x hx with a | ⟨pg, hpg, a1, a2⟩
  · omega
  · rcases List.mem_cons.1 hpg with e | e
    · rw [e] at a1; omega
    · have := J_head_min n q ys h.j hlt pg e; omega

theorem flat_gap_missing (Sf : Nat → Bytes) (ops : List Op)
    (hops : ∀ op ∈ ops, OpPre (fun s => FlatSegOk (Sf s.key) s) op) :
    ∃ x, run flatArith {} ops = .ok x ∧
      ∀ k c, lookup k x.1.conns = some c → ∀ q ys, c.pages = q :: ys →
        ∀ y : Nat, c.nextSeq ≤ (y : Int) + 1 → (y : Int) + 1 < q.seq →
          ¬ fedOffs (histOf k c.sid (runTrace flatArith {} ops)) y := by
  obtain ⟨x, h1, h2⟩ := run_traceInv (strong_streamInv2 Sf) {} [] ops
    (traceInv_init (fun k => ⟨none, rfl, fun ⟨s, hs, _⟩ => by simp at hs⟩)) hops
  refine ⟨x, h1, fun k c hl q ys hp y hy1 hy2 => ?_⟩
  simp only [List.nil_append] at h2
  obtain ⟨_, _, _, _, ho, _⟩ := (h2.live k c hl).2
  rw [hp] at ho
  exact gap_not_fed _ _ q ys ho y hy1 hy2

end Gp.Asm
