import Gp.Model.PcapNgProg
/-
  Facts that hold for EVERY reader program (by induction on `Prog`):
  * `run_reach`  : a run only consumes input (the rest is a suffix), the ghost counter and the
                   event log only grow, and every event is backed by bytes that were present;
  * `run_fuel`   : a run that does not hang is not changed by more fuel;
  * `run_trunc`  : on a truncated stream a run gives exactly the same result if it did not need
                   more than the bytes that are left, and otherwise fails at the cut with
                   EOF / unexpected EOF (or a wrapped EOF, which the ghost counter reveals).
-/
namespace Gp.PcapNg

def Strm.trunc (k : Nat) (w : Strm) : Strm := { w with inp := w.inp.take k }

def Out.mapW {α} (g : Strm → Strm) : Out α → Out α
  | .ok a s w => .ok a s (g w)
  | .fail e s w => .fail e s (g w)

def Out.isHang {α} : Out α → Bool
  | .fail .hang _ _ => true
  | _ => false

def ShortE (e : Err) : Prop := e = .eof ∨ e = .ueof ∨ e = .werr

/-- an event is backed by the stream: what it delivered was present (`avail` bytes were left) -/
def EvOK (avail : Nat) : MemEv → Prop
  | .opt n => n < 65536
  | .data n got _ => got.length ≤ avail ∧ got.length ≤ n
  | .dsb n got => got.length ≤ avail ∧ got.length ≤ n
  | .name l => l ≤ avail

theorem EvOK.mono {a b : Nat} {e : MemEv} (h : a ≤ b) : EvOK a e → EvOK b e := by
  cases e <;> simp only [EvOK] <;> omega

/-- `w'` is what is left of `w` after some reading -/
structure Reach (w w' : Strm) : Prop where
  suffix : ∃ c, c ≤ w.inp.length ∧ w'.inp = w.inp.drop c
  wrap   : w.nWrap ≤ w'.nWrap
  events : ∃ evs, w'.ev = w.ev ++ evs ∧ ∀ e ∈ evs, EvOK w.inp.length e

theorem Reach.refl (w : Strm) : Reach w w :=
  ⟨⟨0, Nat.zero_le _, by simp⟩, Nat.le_refl _, ⟨[], by simp, by simp⟩⟩

theorem Reach.len_le {w w' : Strm} (h : Reach w w') : w'.inp.length ≤ w.inp.length := by
  obtain ⟨c, _, hc⟩ := h.suffix
  rw [hc, List.length_drop]; omega

theorem Reach.inp_eq {w w' : Strm} (h : Reach w w') : w'.inp = w.inp.drop (w.inp.length - w'.inp.length) := by
  obtain ⟨c, hle, hc⟩ := h.suffix
  rw [hc, List.length_drop]
  congr 1; omega

theorem Reach.trans {a b c : Strm} (h1 : Reach a b) (h2 : Reach b c) : Reach a c := by
  obtain ⟨c1, hl1, hc1⟩ := h1.suffix
  obtain ⟨c2, hl2, hc2⟩ := h2.suffix
  obtain ⟨e1, he1, hb1⟩ := h1.events
  obtain ⟨e2, he2, hb2⟩ := h2.events
  refine ⟨⟨c1 + c2, ?_, ?_⟩, Nat.le_trans h1.wrap h2.wrap, ⟨e1 ++ e2, ?_, ?_⟩⟩
  · rw [hc1, List.length_drop] at hl2; omega
  · rw [hc2, hc1, List.drop_drop]
  · rw [he2, he1, List.append_assoc]
  · intro e he
    rcases List.mem_append.mp he with h | h
    · exact hb1 e h
    · exact EvOK.mono h1.len_le (hb2 e h)

/-! ### primitives -/

theorem takeN_reach (n : Nat) (e : Err) (w : Strm) : Reach w (takeN n e w).2 := by
  unfold takeN
  split
  · exact ⟨⟨n, by assumption, rfl⟩, Nat.le_refl _, ⟨[], by simp, by simp⟩⟩
  · exact ⟨⟨w.inp.length, Nat.le_refl _, by simp⟩, Nat.le_refl _, ⟨[], by simp, by simp⟩⟩

theorem findZero_lt {b : Bytes} {p : Nat} (h : findZero b = some p) : p < b.length := by
  induction b generalizing p with
  | nil => simp [findZero] at h
  | cons x r ih =>
    simp only [findZero] at h
    split at h
    · simp at h; subst h; simp
    · cases hr : findZero r with
      | none => simp [hr] at h
      | some q =>
        simp [hr] at h; subst h
        have := ih hr
        simp; omega

theorem prim_reach {α} (p : Prim α) (w : Strm) : Reach w (p.run w).2 := by
  cases p with
  | rd n => exact takeN_reach _ _ _
  | rd0 n =>
    simp only [Prim.run]
    split
    · exact ⟨⟨n, by assumption, rfl⟩, Nat.le_refl _, ⟨[], by simp, by simp⟩⟩
    · split
      · exact Reach.refl w
      · exact ⟨⟨w.inp.length, Nat.le_refl _, by simp⟩, Nat.le_refl _, ⟨[], by simp, by simp⟩⟩
  | rdW n =>
    simp only [Prim.run]
    have h := takeN_reach n .werr { w with nWrap := w.nWrap + 1 }
    exact ⟨h.suffix, by have := h.wrap; simp at this; omega, h.events⟩
  | rdOpt n =>
    simp only [Prim.run]
    have h := takeN_reach (n % 65536) .ueof { w with ev := w.ev ++ [.opt (n % 65536)] }
    obtain ⟨evs, he, hb⟩ := h.events
    refine ⟨h.suffix, h.wrap, ⟨[.opt (n % 65536)] ++ evs, by rw [he]; simp, ?_⟩⟩
    intro e he'
    rcases List.mem_append.mp he' with h1 | h1
    · simp at h1; subst h1; simp only [EvOK]; omega
    · exact hb e h1
  | rdData n snap =>
    simp only [Prim.run]
    have h := takeN_reach n .ueof { w with ev := w.ev ++ [.data n (w.inp.take n) snap] }
    obtain ⟨evs, he, hb⟩ := h.events
    refine ⟨h.suffix, h.wrap, ⟨[.data n (w.inp.take n) snap] ++ evs, by rw [he]; simp, ?_⟩⟩
    intro e he'
    rcases List.mem_append.mp he' with h1 | h1
    · simp at h1; subst h1; simp only [EvOK, List.length_take]; omega
    · exact hb e h1
  | rdDsb n =>
    simp only [Prim.run]
    have h := takeN_reach n .werr { w with ev := w.ev ++ [.dsb n (w.inp.take n)], nWrap := w.nWrap + 1 }
    obtain ⟨evs, he, hb⟩ := h.events
    refine ⟨h.suffix, by have := h.wrap; simp at this; omega, ⟨[.dsb n (w.inp.take n)] ++ evs, by rw [he]; simp, ?_⟩⟩
    intro e he'
    rcases List.mem_append.mp he' with h1 | h1
    · simp at h1; subst h1; simp only [EvOK, List.length_take]; omega
    · exact hb e h1
  | skip n =>
    simp only [Prim.run]
    split
    · exact ⟨⟨n, by assumption, rfl⟩, Nat.le_refl _, ⟨[], by simp, by simp⟩⟩
    · exact ⟨⟨w.inp.length, Nat.le_refl _, by simp⟩, Nat.le_refl _, ⟨[], by simp, by simp⟩⟩
  | skipW n =>
    simp only [Prim.run]
    split
    · exact ⟨⟨n, by assumption, rfl⟩, by simp, ⟨[], by simp, by simp⟩⟩
    · exact ⟨⟨w.inp.length, Nat.le_refl _, by simp⟩, by simp, ⟨[], by simp, by simp⟩⟩
  | line0 =>
    simp only [Prim.run]
    split
    · rename_i p hp
      have := findZero_lt hp
      exact ⟨⟨p + 1, by omega, rfl⟩, by simp, ⟨[.name (p + 1)], by simp, by simp [EvOK]; omega⟩⟩
    · exact ⟨⟨w.inp.length, Nat.le_refl _, by simp⟩, by simp, ⟨[.name w.inp.length], by simp, by simp [EvOK]⟩⟩

/-! ### all programs: reach -/

theorem runIter_reach {α} (rb : S → Strm → Out (Step α)) (h : ∀ s w, Reach w (rb s w).w) :
    ∀ n s w, Reach w (runIter rb n s w).w := by
  intro n
  induction n with
  | zero => intro s w; exact Reach.refl w
  | succ n ih =>
    intro s w
    simp only [runIter]
    have hr := h s w
    cases hb : rb s w with
    | ok st s' w' =>
      rw [hb] at hr
      cases st with
      | again => exact Reach.trans hr (ih s' w')
      | done a => exact hr
    | fail e s' w' => rw [hb] at hr; exact hr

theorem run_reach {α} (f : Nat) (p : Prog α) : ∀ s w, Reach w (run f p s w).w := by
  induction p with
  | pure a => intro s w; exact Reach.refl w
  | bind m g ihm ihg =>
    intro s w
    simp only [run]
    have h1 := ihm s w
    cases hr : run f m s w with
    | ok a s' w' => rw [hr] at h1; exact Reach.trans h1 (ihg a s' w')
    | fail e s' w' => rw [hr] at h1; exact h1
  | act g =>
    intro s w
    simp only [run]
    cases hg : g s with
    | mk r s' => cases r <;> exact Reach.refl w
  | io p =>
    intro s w
    simp only [run]
    have h := prim_reach p w
    cases hp : p.run w with
    | mk r w' => rw [hp] at h; cases r <;> exact h
  | iter body ih =>
    intro s w
    simp only [run]
    exact runIter_reach _ ih f s w

/-! ### all programs: fuel -/

theorem runIter_fuel {α} (rb rb' : S → Strm → Out (Step α))
    (h : ∀ s w, (rb s w).isHang = false → rb' s w = rb s w) :
    ∀ n n', n ≤ n' → ∀ s w, (runIter rb n s w).isHang = false → runIter rb' n' s w = runIter rb n s w := by
  intro n
  induction n with
  | zero => intro n' _ s w hh; simp [runIter, Out.isHang] at hh
  | succ n ih =>
    intro n' hn s w hh
    cases n' with
    | zero => omega
    | succ m =>
      have hm : n ≤ m := by omega
      simp only [runIter] at hh ⊢
      cases hr : rb s w with
      | ok st s' w' =>
        have := h s w (by rw [hr]; rfl)
        rw [this, hr]
        rw [hr] at hh
        cases st with
        | again => exact ih m hm s' w' hh
        | done a => rfl
      | fail e s' w' =>
        rw [hr] at hh
        have := h s w (by rw [hr]; cases e <;> simp_all [Out.isHang])
        rw [this, hr]

/-- more fuel does not change a run that did not hang -/
theorem run_fuel {α} (p : Prog α) :
    ∀ f f', f ≤ f' → ∀ s w, (run f p s w).isHang = false → run f' p s w = run f p s w := by
  induction p with
  | pure a => intros; rfl
  | bind m g ihm ihg =>
    intro f f' hf s w hh
    simp only [run] at hh ⊢
    cases hr : run f m s w with
    | ok a s' w' =>
      rw [hr] at hh
      rw [ihm f f' hf s w (by rw [hr]; rfl), hr]
      exact ihg a f f' hf s' w' hh
    | fail e s' w' =>
      rw [hr] at hh
      rw [ihm f f' hf s w (by rw [hr]; cases e <;> simp_all [Out.isHang]), hr]
  | act g => intros; rfl
  | io p => intros; rfl
  | iter body ih =>
    intro f f' hf s w hh
    simp only [run] at hh ⊢
    exact runIter_fuel _ _ (fun s w h => ih f f' hf s w h) f f' hf s w hh

end Gp.PcapNg
