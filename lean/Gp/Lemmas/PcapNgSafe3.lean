import Gp.Lemmas.PcapNgSafe2
/-
  Safety (`Tr`: interface invariant kept, no panic) of the remaining reader functions:
  readIDB, readISB, readDSB, nrbNames, readNRB, skipSection, firstInterface, readSectionHeader,
  readPacketHeader, readPacketP, openP.
-/
namespace Gp.PcapNg
open Gp.Gen.PcapNg

/-- a primitive that returns `n` bytes on success -/
theorem Tr.io_len {P : S → Prop} (p : Prim Bytes) (n : Nat)
    (hp : ∀ w a w', p.run w = (.ok a, w') → a.length = n) :
    Tr P (Prog.io p) (fun a s => P s ∧ a.length = n) := by
  intro f s w hI hP
  have h0 := Tr.io (P := P) p f s w hI hP
  simp only [run] at h0 ⊢
  cases hr : p.run w with
  | mk r w' =>
    rw [hr] at h0
    cases r with
    | ok a => exact ⟨hI, hP, hp w a w' hr⟩
    | error e => exact h0

theorem rdData_len (n snap : Nat) (w : Strm) (a : Bytes) (w' : Strm)
    (h : Prim.run (.rdData n snap) w = (.ok a, w')) : a.length = n := by
  simp only [Prim.run] at h
  exact (takeN_ok h).2

theorem convertTimeF_not_err {s : S} {id ts : Nat} {e : Err} (hI : Inv s) (hid : id < s.ifaces.length) :
    convertTimeF s id ts ≠ .error e := by
  obtain ⟨t, ht⟩ := convertTimeF_ok ts hI hid
  rw [ht]; intro h; cases h

theorem Tr.iter_safe {α} {body : Prog (Step α)} (h : Safe body) : Safe (Prog.iter body) :=
  Tr.iter (Tr.weaken h (fun _ h => h) (fun st _ _ => by cases st <;> trivial))

theorem Tr.safe {α} {P : S → Prop} {Q : α → S → Prop} {p : Prog α} (h : Tr P p Q) : Tr P p (fun _ _ => True) :=
  Tr.weaken h (fun _ h => h) (fun _ _ _ => trivial)

theorem Safe.pure {α} (a : α) : Safe (Pure.pure a : Prog α) := Tr.pure a (fun _ _ => trivial)

theorem Safe.bind {α β} {m : Prog α} {g : α → Prog β} (h1 : Safe m) (h2 : ∀ a, Safe (g a)) : Safe (m >>= g) :=
  Tr.bind h1 h2

theorem Safe.bind' {α β} {P : S → Prop} {R : α → S → Prop} {m : Prog α} {g : α → Prog β}
    (h1 : Tr P m R) (h2 : ∀ a, Safe (g a)) : Tr P (m >>= g) (fun _ _ => True) :=
  Tr.bind h1 (fun a => Tr.weaken (h2 a) (fun _ _ => trivial) (fun _ _ h => h))

theorem Safe.io {α} (p : Prim α) : Safe (Prog.io p) := Tr.io p

theorem safe_getS : Safe getS := tr_getS'
theorem safe_discardBlock : Safe discardBlock := tr_discardBlock stable_true
theorem safe_discard (n : Nat) : Safe (discard n) := tr_discard stable_true n
theorem safe_discardW (n : Nat) : Safe (discardW n) := tr_discardW stable_true n
theorem safe_readBlock : Safe readBlock := tr_readBlock stable_true
theorem safe_frameS (g : S → S) (h1 : ∀ s, (g s).ifaces = s.ifaces) (h2 : ∀ s, (g s).isbId = s.isbId) : Safe (modS g) :=
  tr_frameS stable_true g h1 h2
theorem safe_failM {α} {e : Err} (he : e.isPanic = false) : Safe (failM e : Prog α) := tr_failM he

/-! ### interface description block -/

theorem ok_idbHandle (c : Nat) (v : Bytes) : ActOK (fun _ => True) (idbHandle c v) (fun _ _ => True) := by
  refine ok_frame stable_true _ (fun s => ?_) (fun s e he => ?_)
  · unfold idbHandle
    repeat' split
    all_goals exact ⟨rfl, rfl⟩
  · unfold idbHandle at he
    repeat' split at he
    all_goals (cases he; try rfl)

theorem tr_readIDB : Tr (fun _ => True) readIDB (fun _ s => s.ifaces ≠ []) := by
  unfold readIDB
  refine Tr.bind (Tr.io _) (fun h => Tr.bind (tr_frameS stable_true _ (fun _ => rfl) (fun _ => rfl)) (fun _ => ?_))
  refine Tr.bind (tr_optLoop stable_true idbHandle ok_idbHandle) (fun _ => ?_)
  exact Tr.bind (tr_discardBlock stable_true) (fun _ => Tr.act ok_idbFinishStep)

/-! ### interface statistics block -/

def IsbOK (s : S) : Prop := s.isbId < s.ifaces.length

theorem stable_isbOK : Stable IsbOK := by
  intro s s' h1 h2 h
  unfold IsbOK at *
  rw [h1, h2]; exact h

theorem isbOK_setStatsF {s : S} (f : Stats → Stats) (h : IsbOK s) : IsbOK (setStatsF s f) := by
  unfold IsbOK at *
  rw [len_setStatsF]
  exact h

theorem ok_isbHeadStep (h : Bytes) : ActOK (fun _ => True) (isbHeadStep h) (fun _ s => IsbOK s) := by
  intro s hI _
  unfold isbHeadStep
  simp only
  split
  · exact ⟨hI, rfl⟩
  · rename_i hlt
    have hlt' : getU s.be (h.take 4) < s.ifaces.length := by omega
    have hI1 : Inv { s with blkLen := sub32 s.blkLen 12, isbId := getU s.be (h.take 4) } := inv_of_ifaces rfl hI
    have hI2 := inv_setStatsF (fun _ => Stats.empty) hI1
    have hK : IsbOK (setStatsF { s with blkLen := sub32 s.blkLen 12, isbId := getU s.be (h.take 4) } fun _ => Stats.empty) :=
      isbOK_setStatsF _ hlt'
    split
    · exact ⟨inv_setStatsF _ hI2, isbOK_setStatsF _ hK⟩
    · rename_i e he
      exact absurd he (convertTimeF_not_err hI2 hK)

theorem ok_isbHandle (c : Nat) (v : Bytes) : ActOK IsbOK (isbHandle c v) (fun _ s => IsbOK s) := by
  intro s hI hK
  unfold isbHandle
  repeat' split
  all_goals first
    | exact ⟨inv_setStatsF _ hI, isbOK_setStatsF _ hK⟩
    | exact ⟨hI, rfl⟩
    | exact ⟨hI, hK⟩
    | (rename_i e he; exact absurd he (convertTimeF_not_err hI hK))

theorem tr_readISB : Safe readISB := by
  unfold readISB
  refine Tr.bind (Tr.io _) (fun h => Tr.bind (Tr.act (ok_isbHeadStep h)) (fun _ => ?_))
  refine Tr.bind (tr_optLoop stable_isbOK isbHandle ok_isbHandle) (fun _ => ?_)
  exact Tr.weaken (tr_discardBlock stable_isbOK) (fun _ h => h) (fun _ _ _ => trivial)

/-! ### decryption secrets / name resolution -/

theorem ok_dsbHeadStep (h : Bytes) : ActOK (fun _ => True) (dsbHeadStep h) (fun _ _ => True) := by
  refine ok_frame stable_true _ (fun s => ?_) (fun s e he => ?_)
  · unfold dsbHeadStep; simp only; split <;> exact ⟨rfl, rfl⟩
  · unfold dsbHeadStep at he; simp only at he
    split at he
    · cases he; rfl
    · cases he

theorem tr_readDSB : Safe readDSB := by
  unfold readDSB
  refine Safe.bind (Safe.io _) (fun h => Safe.bind (Tr.act (ok_dsbHeadStep h)) (fun n => ?_))
  exact Safe.bind (Safe.io _) (fun _ => safe_frameS _ (fun _ => rfl) (fun _ => rfl))

theorem tr_nrbNames : Safe nrbNames := by
  unfold nrbNames
  refine Tr.iter_safe (Safe.bind safe_getS (fun s => ?_))
  split
  · exact Safe.bind (Safe.io _) (fun b => Safe.bind (safe_frameS _ (fun _ => rfl) (fun _ => rfl)) (fun _ => Safe.pure _))
  · exact Safe.pure _

theorem ok_nrbHeadStep (h : Bytes) : ActOK (fun _ => True) (nrbHeadStep h) (fun _ _ => True) := by
  refine ok_frame stable_true _ (fun s => ?_) (fun s e he => ?_)
  · unfold nrbHeadStep
    simp only
    repeat' split
    all_goals exact ⟨rfl, rfl⟩
  · unfold nrbHeadStep at he
    simp only at he
    repeat' split at he
    all_goals cases he

theorem tr_readNRB : Safe readNRB := by
  unfold readNRB
  refine Safe.bind (Tr.iter_safe (Safe.bind safe_getS (fun s => ?_))) (fun _ => safe_discardBlock)
  split
  · refine Safe.bind (Safe.io _) (fun h => Safe.bind (Tr.act (ok_nrbHeadStep h)) (fun k => ?_))
    cases k with
    | addr n padding =>
      refine Safe.bind (Safe.io _) (fun _ => Safe.bind tr_nrbNames (fun _ => ?_))
      refine Safe.bind (safe_frameS _ (fun _ => rfl) (fun _ => rfl)) (fun _ => ?_)
      exact Safe.bind (safe_discard _) (fun _ => Safe.pure _)
    | skip n => exact Safe.bind (safe_discardW _) (fun _ => Safe.pure _)
    | endRec => exact Safe.pure _
  · exact Safe.pure _

/-! ### sections -/

theorem tr_skipSection : Safe skipSection := by
  unfold skipSection
  refine Tr.iter_safe (Safe.bind safe_readBlock (fun _ => Safe.bind safe_getS (fun s => ?_)))
  split
  · exact Safe.pure _
  · exact Safe.bind safe_discardBlock (fun _ => Safe.pure _)

theorem ok_firstIfaceStep : ActOK (fun s => s.ifaces ≠ []) firstIfaceStep (fun _ _ => True) := by
  intro s hI hne
  unfold firstIfaceStep
  have hpos : 0 < s.ifaces.length := List.length_pos_iff.mpr hne
  have hget : s.ifaces[0]? = some s.ifaces[0] := List.getElem?_eq_getElem hpos
  rw [hget]
  simp only
  repeat' split
  all_goals first
    | exact ⟨inv_of_ifaces rfl hI, trivial⟩
    | exact ⟨hI, rfl⟩
    | exact ⟨hI, trivial⟩

theorem tr_fiOther (t : Nat) : Safe (fiOther t) := by
  unfold fiOther
  split
  · exact tr_readDSB
  · split
    · exact tr_readNRB
    · exact Safe.pure _

theorem tr_firstInterface : Safe firstInterface := by
  unfold firstInterface
  refine Tr.iter_safe (Safe.bind safe_readBlock (fun _ => Safe.bind safe_getS (fun s => ?_)))
  dsimp only
  split
  · exact Tr.bind tr_readIDB (fun _ => (Tr.act ok_firstIfaceStep))
  · split
    · exact safe_failM rfl
    · exact Safe.bind (tr_fiOther _) (fun _ => Safe.bind safe_discardBlock (fun _ => Safe.pure _))

theorem ok_shbHandle (c : Nat) (v : Bytes) : ActOK (fun _ => True) (shbHandle c v) (fun _ _ => True) := by
  refine ok_frame stable_true _ (fun s => ?_) (fun s e he => ?_)
  · unfold shbHandle
    repeat' split
    all_goals exact ⟨rfl, rfl⟩
  · unfold shbHandle at he
    repeat' split at he
    all_goals cases he

theorem ok_shbVersionStep (h : Bytes) : ActOK (fun _ => True) (shbVersionStep h) (fun _ _ => True) := by
  refine ok_frame stable_true _ (fun s => ?_) (fun s e he => ?_)
  · unfold shbVersionStep
    simp only
    repeat' split
    all_goals exact ⟨rfl, rfl⟩
  · unfold shbVersionStep at he
    simp only at he
    repeat' split at he
    all_goals (cases he; try rfl)

theorem inv_nil {s : S} (h : s.ifaces = []) : Inv s := by
  intro i hi; rw [h] at hi; cases hi

theorem tr_readSectionHeader : Safe readSectionHeader := by
  unfold readSectionHeader
  refine Safe.bind (Tr.act (fun s _ _ => ⟨inv_nil rfl, trivial⟩)) (fun _ => ?_)
  refine Safe.bind (Tr.iter_safe (Safe.bind (Safe.io _) (fun h => Safe.bind (Tr.act (ok_shbVersionStep h)) (fun skipIt => ?_)))) (fun _ => ?_)
  · split
    · exact Safe.bind safe_discardBlock (fun _ => Safe.bind tr_skipSection (fun _ => Safe.pure _))
    · exact Safe.pure _
  · refine Safe.bind (tr_optLoop stable_true shbHandle ok_shbHandle) (fun _ => Safe.bind safe_discardBlock (fun _ => ?_))
    refine Safe.bind (safe_frameS _ (fun _ => rfl) (fun _ => rfl)) (fun _ => Safe.bind safe_getS (fun s => ?_))
    split
    · exact tr_firstInterface
    · exact Safe.pure _

/-! ### packets -/

def CiOK (s : S) : Prop := s.ci.iface < s.ifaces.length

theorem ok_pktHeadStep (epb : Bool) (h : Bytes) : ActOK (fun _ => True) (pktHeadStep epb h) (fun _ s => CiOK s) := by
  intro s hI _
  unfold pktHeadStep
  cases epb <;> simp only [Bool.false_eq_true, if_false, if_true] <;>
  · split
    · exact ⟨inv_of_ifaces rfl hI, rfl⟩
    · rename_i hlt
      split
      · rename_i e he
        exact absurd he (convertTimeF_not_err (inv_of_ifaces rfl hI) (by simpa using hlt))
      · refine ⟨inv_of_ifaces rfl hI, ?_⟩
        unfold CiOK
        simp only
        omega

theorem ok_spbHeadStep (h : Bytes) : ActOK (fun _ => True) (spbHeadStep h) (fun _ s => CiOK s) := by
  intro s hI _
  unfold spbHeadStep
  simp only
  split
  · exact ⟨inv_of_ifaces rfl hI, rfl⟩
  · rename_i i0 heq
    have hpos : 0 < s.ifaces.length := by
      cases hl : s.ifaces with
      | nil => rw [hl] at heq; cases heq
      | cons a r => simp
    split
    · exact ⟨inv_of_ifaces rfl hI, hpos⟩
    · exact ⟨inv_of_ifaces rfl hI, hpos⟩

/-- postcondition of hdrFinishStep -/
def HdrPost (k : HdrKind) (_ : S) : Prop :=
  match k with
  | .take ci _ _ => ci.caplen ≤ ci.len
  | _ => True

theorem ok_hdrFinishStep : ActOK CiOK hdrFinishStep HdrPost := by
  intro s hI hK
  unfold hdrFinishStep
  unfold CiOK at hK
  have hget : s.ifaces[s.ci.iface]? = some s.ifaces[s.ci.iface] := List.getElem?_eq_getElem hK
  rw [hget]
  simp only
  repeat' split
  all_goals first
    | exact ⟨hI, rfl⟩
    | exact ⟨hI, trivial⟩
    | (refine ⟨hI, ?_⟩; simp only [HdrPost]; omega)

theorem tr_pktBlockBody (t : Nat) : Tr (fun _ => True) (pktBlockBody t) (fun found s => found = true → CiOK s) := by
  unfold pktBlockBody
  split
  · exact Tr.bind (Tr.io _) (fun h => Tr.bind (Tr.act (ok_pktHeadStep _ h)) (fun _ => Tr.pure _ (fun _ hk _ => hk)))
  · split
    · exact Tr.bind (Tr.io _) (fun h => Tr.bind (Tr.act (ok_spbHeadStep h)) (fun _ => Tr.pure _ (fun _ hk _ => hk)))
    · split
      · exact Tr.bind (Tr.safe tr_readIDB) (fun _ => Tr.pure _ (fun _ _ h => by cases h))
      · split
        · exact Tr.bind tr_readISB (fun _ => Tr.pure _ (fun _ _ h => by cases h))
        · split
          · exact Tr.bind tr_readSectionHeader (fun _ => Tr.pure _ (fun _ _ h => by cases h))
          · split
            · exact Tr.bind tr_readNRB (fun _ => Tr.pure _ (fun _ _ h => by cases h))
            · exact Tr.bind safe_discardBlock (fun _ => Tr.pure _ (fun _ _ h => by cases h))

/-- loop postcondition of readPacketHeader -/
def HdrIter (st : Step (CapInfo × Nat × Nat)) (_ : S) : Prop :=
  match st with
  | .again => True
  | .done r => r.1.caplen ≤ r.1.len

theorem tr_hdrTail (found : Bool) : Tr (fun s => found = true → CiOK s) (hdrTail found) HdrIter := by
  unfold hdrTail
  cases found with
  | false => exact Tr.pure _ (fun _ _ => trivial)
  | true =>
    rw [if_neg (by simp)]
    refine Tr.bind (Tr.weaken (Tr.act ok_hdrFinishStep) (fun _ h => h rfl) (fun _ _ h => h)) (fun k => ?_)
    cases k with
    | take ci lt snap => exact Tr.pure _ (fun _ h => h)
    | skipIt =>
      exact Tr.bind (R := fun _ _ => True) (Tr.weaken safe_discardBlock (fun _ _ => trivial) (fun _ _ h => h))
        (fun _ => Tr.pure _ (fun _ _ => trivial))
    | skipErr =>
      exact Tr.bind (R := fun _ _ => True) (Tr.weaken safe_discardBlock (fun _ _ => trivial) (fun _ _ h => h))
        (fun _ => tr_failM rfl)

theorem tr_readPacketHeader :
    Tr (fun _ => True) readPacketHeader (fun r _ => r.1.caplen ≤ r.1.len) := by
  unfold readPacketHeader
  refine Tr.iter (P := fun _ => True) (Q := fun (r : CapInfo × Nat × Nat) _ => r.1.caplen ≤ r.1.len) ?_
  refine Tr.bind safe_readBlock (fun _ => Tr.bind safe_getS (fun s => ?_))
  refine Tr.bind (tr_pktBlockBody _) (fun found => ?_)
  refine Tr.weaken (tr_hdrTail found) (fun _ h => h) (fun st _ h => ?_)
  cases st <;> exact h

theorem ok_pktHandle (c : Nat) (v : Bytes) : ActOK (fun _ => True) (pktHandle c v) (fun _ _ => True) := by
  refine ok_frame stable_true _ (fun s => ?_) (fun s e he => ?_)
  · unfold pktHandle
    repeat' split
    all_goals exact ⟨rfl, rfl⟩
  · unfold pktHandle at he
    repeat' split at he
    all_goals (cases he; try rfl)

/-- a returned packet has |data| = CaptureLength ≤ Length -/
def PktOK (p : Pkt) : Prop := p.data.length = p.ci.caplen ∧ p.ci.caplen ≤ p.ci.len

theorem tr_discardPad {J : S → Prop} (hJ : Stable J) (n : Nat) : Tr J (discardPad n) (fun _ s => J s) := by
  unfold discardPad
  split
  · exact tr_discard hJ _
  · exact Tr.pure _ (fun _ h => h)

theorem ok_pktHandle' {J : Prop} (c : Nat) (v : Bytes) : ActOK (fun _ => J) (pktHandle c v) (fun _ _ => J) := by
  intro s hI hP
  have := ok_pktHandle c v s hI trivial
  refine ⟨this.1, ?_⟩
  cases hr : (pktHandle c v s).1 with
  | ok a => exact hP
  | error e => have h2 := this.2; rw [hr] at h2; exact h2

theorem tr_pktOptsP {J : Prop} : Tr (fun _ => J) pktOptsP (fun _ _ => J) := by
  have hst : Stable (fun _ : S => J) := fun _ _ _ _ h => h
  unfold pktOptsP
  refine Tr.bind tr_getS' (fun s => ?_)
  split
  · exact tr_optLoop hst pktHandle ok_pktHandle'
  · exact Tr.pure _ (fun _ h => h)

theorem tr_pktRest (ci : CapInfo) (lt snap : Nat) :
    Tr (fun _ => ci.caplen ≤ ci.len) (pktRest ci lt snap) (fun p _ => PktOK p) := by
  unfold pktRest
  refine Tr.bind (Tr.io_len (P := fun _ => ci.caplen ≤ ci.len) _ ci.caplen (rdData_len _ _)) (fun data => ?_)
  have hst : Stable (fun _ : S => ci.caplen ≤ ci.len ∧ data.length = ci.caplen) := fun _ _ _ _ h => h
  refine Tr.bind (tr_frameS hst _ (fun _ => rfl) (fun _ => rfl)) (fun _ => ?_)
  refine Tr.bind (tr_discardPad hst _) (fun _ => ?_)
  refine Tr.bind (tr_frameS hst _ (fun _ => rfl) (fun _ => rfl)) (fun _ => ?_)
  refine Tr.bind tr_pktOptsP (fun _ => ?_)
  refine Tr.bind (tr_discardBlock hst) (fun _ => Tr.bind tr_getS' (fun s' => Tr.pure _ (fun _ h => ?_)))
  exact ⟨h.2, h.1⟩

theorem tr_readPacketP : Tr (fun _ => True) readPacketP (fun p _ => PktOK p) := by
  unfold readPacketP
  exact Tr.bind tr_readPacketHeader (fun r => tr_pktRest r.1 r.2.1 r.2.2)

theorem tr_openP : Safe openP := by
  unfold openP
  refine Tr.bind (tr_readBlock stable_true) (fun _ => Tr.bind tr_getS' (fun s => ?_))
  split
  · exact tr_failM rfl
  · exact tr_readSectionHeader

end Gp.PcapNg
