import Gp.Lemmas.ReasmRep
import Gp.Lemmas.ReasmAcct
/-
  C09 completeness (offset space): nothing that was accepted is lost.  Coverage invariant through
  checkOverlap (six cases), handleBytes, sendToConnection; pages that carry `end` lie at the end of the
  sender's stream, so a half connection is closed only when everything was handed over.
-/
set_option linter.unusedSimpArgs false
set_option linter.unusedVariables false
namespace Gp.Reasm
open Gp

/-- sequence number `x` lies inside one of the pages -/
def covL (l : List Page) (x : Int) : Prop := ∃ p ∈ l, p.seq ≤ x ∧ x < pend p

/-- pages that carry `end` lie at the end `E` of the sender's stream -/
def FinAt (E : Int) (l : List Page) : Prop := ∀ p ∈ l, p.fin = true → pend p = E

theorem covL_nil (x : Int) : ¬ covL [] x := by
  intro ⟨p, hp, _⟩; simp at hp

theorem covL_cons {p : Page} {l : List Page} {x : Int} : covL (p :: l) x ↔ (p.seq ≤ x ∧ x < pend p) ∨ covL l x := by
  constructor
  · intro ⟨q, hq, h⟩
    rcases List.mem_cons.mp hq with rfl | hq
    · exact Or.inl h
    · exact Or.inr ⟨q, hq, h⟩
  · rintro (h | ⟨q, hq, h⟩)
    · exact ⟨p, List.mem_cons_self .., h⟩
    · exact ⟨q, List.mem_cons_of_mem _ hq, h⟩

theorem covL_append {a b : List Page} {x : Int} : covL (a ++ b) x ↔ covL a x ∨ covL b x := by
  constructor
  · intro ⟨q, hq, h⟩
    rcases List.mem_append.mp hq with hq | hq
    · exact Or.inl ⟨q, hq, h⟩
    · exact Or.inr ⟨q, hq, h⟩
  · rintro (⟨q, hq, h⟩ | ⟨q, hq, h⟩)
    · exact ⟨q, List.mem_append_left _ hq, h⟩
    · exact ⟨q, List.mem_append_right _ hq, h⟩

theorem covL_reverse {a : List Page} {x : Int} : covL a.reverse x ↔ covL a x := by
  constructor <;> (intro ⟨q, hq, h⟩; exact ⟨q, by simpa using hq, h⟩)

theorem FinAt.cons {E : Int} {p : Page} {l : List Page} (hp : p.fin = true → pend p = E) (hl : FinAt E l) :
    FinAt E (p :: l) := by
  intro q hq
  rcases List.mem_cons.mp hq with rfl | hq
  · exact hp
  · exact hl q hq

theorem FinAt.tail {E : Int} {p : Page} {l : List Page} (h : FinAt E (p :: l)) : FinAt E l :=
  fun q hq => h q (List.mem_cons_of_mem _ hq)

theorem FinAt.append {E : Int} {a b : List Page} (ha : FinAt E a) (hb : FinAt E b) : FinAt E (a ++ b) := by
  intro q hq
  rcases List.mem_append.mp hq with hq | hq
  · exact ha q hq
  · exact hb q hq

theorem FinAt.reverse {E : Int} {a : List Page} (ha : FinAt E a) : FinAt E a.reverse :=
  fun q hq => ha q (List.mem_reverse.mp hq)

theorem overwrite_length (dst : List UInt8) (off : Nat) (src : List UInt8) (h : off + src.length ≤ dst.length) :
    (overwrite dst off src).length = dst.length := by
  simp only [overwrite, List.length_append, List.length_take, List.length_drop]
  omega

/-- The loop of `checkOverlap` loses nothing: a sequence number that was covered by a queued page or by the packet
    is covered afterwards by a page or by the (unchanged) packet; `end` flags stay at the end of the stream. -/
theorem ovLoop_cover (start : Int) (bytes0 : List UInt8) (E : Int) (hE : start + bytes0.length ≤ E) :
    ∀ (rev back : List Page) (bytes : List UInt8) (dropped : Nat) (r : Ov),
      (bytes = bytes0 ∨ ∀ p ∈ rev, pend p ≤ start) →
      rev.Pairwise (fun p q => pend q ≤ p.seq) → (∀ p ∈ rev, p.bytes ≠ []) →
      FinAt E rev → FinAt E back →
      ovLoop I start (start + bytes0.length) bytes rev back dropped = .ok r →
      (∀ x, (covL rev x ∨ covL back x ∨ (bytes = bytes0 ∧ start ≤ x ∧ x < start + bytes0.length)) →
            (covL (r.front ++ r.back) x ∨ (r.bytes = bytes0 ∧ start ≤ x ∧ x < start + bytes0.length))) ∧
      FinAt E (r.front ++ r.back) := by
  intro rev
  induction rev with
  | nil =>
    intro back bytes dropped r _ _ _ _ hfb h
    simp only [ovLoop, Res.ok.injEq] at h
    subst h
    refine ⟨?_, by simpa using hfb⟩
    intro x hx
    rcases hx with hx | hx | hx
    · exact absurd hx (covL_nil x)
    · exact Or.inl (by simpa using hx)
    · exact Or.inr hx
  | cons cur rest ih =>
    intro back bytes dropped r hH hpw hne hfr hfb h
    have hpc := List.pairwise_cons.mp hpw
    have hlen : 0 < cur.bytes.length := List.length_pos_iff.mpr (hne cur (List.mem_cons_self ..))
    have hne' : ∀ p ∈ rest, p.bytes ≠ [] := fun p hp => hne p (List.mem_cons_of_mem _ hp)
    have hfr' : FinAt E rest := hfr.tail
    have hfc : cur.fin = true → pend cur = E := hfr cur (List.mem_cons_self ..)
    have hHrest : (bytes = bytes0 ∨ ∀ p ∈ rest, pend p ≤ start) := by
      rcases hH with h' | h'
      · exact Or.inl h'
      · exact Or.inr (fun p hp => h' p (List.mem_cons_of_mem _ hp))
    -- moving `cur` (possibly trimmed to `c'` with the same end) behind the packet
    have push : ∀ (c' : Page) (bytes' : List UInt8) (r : Ov),
        (bytes' = bytes0 ∨ ∀ p ∈ rest, pend p ≤ start) → (c'.fin = true → pend c' = E) →
        ovLoop I start (start + ↑bytes0.length) bytes' rest (c' :: back) dropped = .ok r →
        (∀ x, (cur.seq ≤ x ∧ x < pend cur) → (c'.seq ≤ x ∧ x < pend c') ∨ (bytes' = bytes0 ∧ start ≤ x ∧ x < start + bytes0.length)) →
        (∀ x, (bytes = bytes0 ∧ start ≤ x ∧ x < start + bytes0.length) →
              (c'.seq ≤ x ∧ x < pend c') ∨ (bytes' = bytes0 ∧ start ≤ x ∧ x < start + bytes0.length)) →
        (∀ x, (covL (cur :: rest) x ∨ covL back x ∨ (bytes = bytes0 ∧ start ≤ x ∧ x < start + bytes0.length)) →
              (covL (r.front ++ r.back) x ∨ (r.bytes = bytes0 ∧ start ≤ x ∧ x < start + bytes0.length))) ∧
        FinAt E (r.front ++ r.back) := by
      intro c' bytes' r hH' hf' hr hcur hpk
      obtain ⟨ih1, ih2⟩ := ih (c' :: back) bytes' dropped r hH' hpc.2 hne' hfr' (FinAt.cons hf' hfb) hr
      refine ⟨?_, ih2⟩
      intro x hx
      apply ih1 x
      rcases hx with hx | hx | hx
      · rcases covL_cons.mp hx with hx | hx
        · rcases hcur x hx with h' | h'
          · exact Or.inr (Or.inl (covL_cons.mpr (Or.inl h')))
          · exact Or.inr (Or.inr h')
        · exact Or.inl hx
      · exact Or.inr (Or.inl (covL_cons.mpr (Or.inr hx)))
      · rcases hpk x hx with h' | h'
        · exact Or.inr (Or.inl (covL_cons.mpr (Or.inl h')))
        · exact Or.inr (Or.inr h')
    simp only [ovLoop] at h
    split at h
    · -- case 5: cur lies behind the packet
      exact push cur bytes r hHrest hfc h (fun x hx => Or.inl hx) (fun x hx => Or.inr hx)
    rename_i h5; try simp only [I_diff, I_add, gt_iff_lt] at h5
    split at h
    · -- case 1: stop
      obtain rfl := Res.ok.inj h
      refine ⟨?_, FinAt.append hfr.reverse hfb⟩
      intro x hx
      rcases hx with hx | hx | hx
      · exact Or.inl (covL_append.mpr (Or.inl (covL_reverse.mpr hx)))
      · exact Or.inl (covL_append.mpr (Or.inr hx))
      · exact Or.inr hx
    rename_i h1; try simp only [I_diff, I_add] at h1
    -- cur ends behind the packet's start: the packet is still whole
    have hb0 : bytes = bytes0 := by
      rcases hH with h' | h'
      · exact h'
      · have := h' cur (List.mem_cons_self ..); simp only [pend] at this; omega
    split at h
    · -- case 3: cur is inside the packet: dropped
      rename_i h3; try simp only [I_diff, I_add, ge_iff_le] at h3
      obtain ⟨ih1, ih2⟩ := ih back bytes (dropped + 1) r hHrest hpc.2 hne' hfr' hfb h
      refine ⟨?_, ih2⟩
      intro x hx
      apply ih1 x
      rcases hx with hx | hx | hx
      · rcases covL_cons.mp hx with hx | hx
        · exact Or.inr (Or.inr ⟨hb0, by simp only [pend] at hx; omega, by simp only [pend] at hx; omega⟩)
        · exact Or.inl hx
      · exact Or.inr (Or.inl hx)
      · exact Or.inr (Or.inr hx)
    rename_i h3; try simp only [I_diff, I_add, ge_iff_le] at h3
    split at h
    · -- case 2: cur's end is cut off, stop
      rename_i h2; try simp only [I_diff, I_add, gt_iff_lt] at h2
      split at h
      · cases h
      rename_i hnp; try simp only [I_diff, I_add, gt_iff_lt, not_or, not_lt] at hnp
      obtain rfl := Res.ok.inj h
      have hk : (-(cur.seq - start)).toNat ≤ cur.bytes.length := by omega
      have hpe : pend ({ cur with bytes := cur.bytes.take (-(cur.seq - start)).toNat } : Page) = start := by
        simp only [pend, List.length_take]; omega
      refine ⟨?_, ?_⟩
      · intro x hx
        rcases hx with hx | hx | hx
        · rcases covL_cons.mp hx with hx | hx
          · by_cases hxs : x < start
            · refine Or.inl (covL_append.mpr (Or.inl (covL_reverse.mpr (covL_cons.mpr (Or.inl ⟨hx.1, ?_⟩)))))
              rw [hpe]; exact hxs
            · exact Or.inr ⟨hb0, by omega, by simp only [pend] at hx; omega⟩
          · exact Or.inl (covL_append.mpr (Or.inl (covL_reverse.mpr (covL_cons.mpr (Or.inr hx)))))
        · exact Or.inl (covL_append.mpr (Or.inr hx))
        · exact Or.inr hx
      · refine FinAt.append (FinAt.reverse (FinAt.cons ?_ hfr')) hfb
        intro hf
        have := hfc hf
        simp only [pend] at this
        omega
    rename_i h2; try simp only [I_diff, I_add, gt_iff_lt] at h2
    split at h
    · -- case 4: cur's start is cut off
      rename_i h4; try simp only [I_diff, I_add, gt_iff_lt] at h4
      split at h
      · cases h
      rename_i hnp; try simp only [I_diff, I_add, gt_iff_lt, not_or, not_lt] at hnp
      have hk : (-(cur.seq - (start + ↑bytes0.length))).toNat ≤ cur.bytes.length := by omega
      have hpe : pend ({ cur with bytes := cur.bytes.drop (-(cur.seq - (start + ↑bytes0.length))).toNat,
                                  seq := cur.seq + -(cur.seq - (start + ↑bytes0.length)) } : Page) = pend cur := by
        simp only [pend, List.length_drop]; omega
      refine push _ bytes r hHrest (fun hf => by rw [hpe]; exact hfc hf) h ?_ (fun x hx => Or.inr hx)
      intro x hx
      by_cases hxe : x < start + ↑bytes0.length
      · exact Or.inr ⟨hb0, by omega, hxe⟩
      · refine Or.inl ⟨by simp only; omega, ?_⟩
        rw [hpe]; exact hx.2
    rename_i h4; try simp only [I_diff, I_add, gt_iff_lt] at h4
    split at h
    · -- case 6: the packet lies inside cur
      rename_i h6; try simp only [I_diff, I_add, ge_iff_le] at h6
      split at h
      · cases h
      rename_i hnp; try simp only [I_diff, I_add, gt_iff_lt, not_or, not_lt] at hnp
      have hov : (overwrite cur.bytes (-(cur.seq - start)).toNat bytes).length = cur.bytes.length :=
        overwrite_length _ _ _ (by omega)
      have hpe : pend ({ cur with bytes := overwrite cur.bytes (-(cur.seq - start)).toNat bytes } : Page) = pend cur := by
        simp only [pend, hov]
      refine push _ [] r (Or.inr (fun p hp => by have := hpc.1 p hp; omega))
        (fun hf => by rw [hpe]; exact hfc hf) h ?_ ?_
      · intro x hx
        exact Or.inl ⟨hx.1, by rw [hpe]; exact hx.2⟩
      · intro x hx
        refine Or.inl ⟨by simp only; omega, ?_⟩
        rw [hpe]; simp only [pend]; omega
    · -- no overlap
      exact push cur bytes r hHrest hfc h (fun x hx => Or.inl hx) (fun x hx => Or.inr hx)

/-- a gap-free chain of pages covers every sequence number between its ends -/
theorem ChainP.covers {S b} : ∀ {ps : List Page} {s e : Int}, ChainP S b s ps e → ∀ x, s ≤ x → x < e → covL ps x
  | [], s, e, h, x, h1, h2 => by simp only [ChainP] at h; omega
  | p :: rest, s, e, h, x, h1, h2 => by
    obtain ⟨hs, _, hr⟩ := h
    by_cases hx : x < pend p
    · exact covL_cons.mpr (Or.inl ⟨by omega, hx⟩)
    · exact covL_cons.mpr (Or.inr (ChainP.covers hr x (by omega) h2))

/-- livePacket.convertToPages: only the last page carries `end`, and it ends where the packet ends -/
theorem splitPagesAux_fin (seen : Int) (fin : Bool) : ∀ (fuel : Nat) (seq : Int) (bytes : List UInt8),
    ∀ p ∈ splitPagesAux I seen fin fuel seq bytes, p.fin = true → fin = true ∧ pend p = seq + bytes.length
  | 0, seq, bytes, p, hp, hf => by
    simp only [splitPagesAux, List.mem_singleton] at hp
    subst hp
    exact ⟨hf, rfl⟩
  | fuel + 1, seq, bytes, p, hp, hf => by
    simp only [splitPagesAux] at hp
    split at hp
    · rename_i hr
      simp only [List.mem_singleton] at hp
      subst hp
      have hd : bytes.drop (min bytes.length pageBytes) = [] := by simpa using hr
      have hl : bytes.length ≤ min bytes.length pageBytes := by
        have := congrArg List.length hd
        simp at this; omega
      refine ⟨hf, ?_⟩
      simp only [pend, List.length_take]; omega
    · rcases List.mem_cons.mp hp with rfl | hp
      · simp at hf
      · obtain ⟨h1, h2⟩ := splitPagesAux_fin seen fin fuel _ _ p hp hf
        refine ⟨h1, ?_⟩
        rw [h2]
        simp only [I_add, List.length_drop]
        omega

theorem splitPages_finAt (E : Int) (seq : Int) (bytes : List UInt8) (ts : Int) (fin : Bool)
    (h : fin = true → seq + bytes.length = E) : FinAt E (splitPages I seq bytes ts fin) := by
  intro p hp hf
  obtain ⟨h1, h2⟩ := splitPagesAux_fin ts fin _ _ _ p hp hf
  rw [h2]; exact h h1

/-- `checkOverlap` loses nothing -/
theorem checkOverlap_cover (S : List UInt8) (b : Int) (h : Half) (used : Int) (queue : Bool) (start : Int)
    (bytes : List UInt8) (ts : Int) (fin : Bool) (E : Int) (hAt : At S b start bytes)
    (hE : start + bytes.length ≤ E) (hfinE : fin = true → start + bytes.length = E)
    (hs : Sorted h.queue) (hne : ∀ p ∈ h.queue, p.bytes ≠ []) (hf : FinAt E h.queue)
    (res : Half × Int × List UInt8) (hc : checkOverlap I h used queue start bytes ts fin = .ok res) :
    (∀ x, (covL h.queue x ∨ (start ≤ x ∧ x < start + bytes.length)) →
        covL res.1.queue x ∨ (queue = false ∧ res.2.2 = bytes ∧ start ≤ x ∧ x < start + bytes.length)) ∧
    FinAt E res.1.queue := by
  unfold checkOverlap at hc
  simp only [I_add] at hc
  split at hc
  · rename_i r hr
    obtain ⟨c1, c2⟩ := ovLoop_cover start bytes E hE h.queue.reverse [] bytes 0 r (Or.inl rfl)
      (List.pairwise_reverse.mpr hs) (fun p hp => hne p (List.mem_reverse.mp hp)) hf.reverse
      (fun p hp => by simp at hp) hr
    have c1' : ∀ x, (covL h.queue x ∨ (start ≤ x ∧ x < start + bytes.length)) →
        (covL (r.front ++ r.back) x ∨ (r.bytes = bytes ∧ start ≤ x ∧ x < start + bytes.length)) := by
      intro x hx
      apply c1 x
      rcases hx with hx | hx
      · exact Or.inl (covL_reverse.mpr hx)
      · exact Or.inr (Or.inr ⟨rfl, hx⟩)
    split at hc
    · rename_i hq
      obtain rfl := Res.ok.inj hc
      simp only
      have hch := splitPages_chain S b start r.bytes ts fin
      refine ⟨?_, ?_⟩
      · intro x hx
        left
        rcases c1' x hx with hcv | ⟨hrb, hx1, hx2⟩
        · rcases covL_append.mp hcv with hcv | hcv
          · exact covL_append.mpr (Or.inl (covL_append.mpr (Or.inl hcv)))
          · exact covL_append.mpr (Or.inr hcv)
        · rw [hrb]
          have hch' := splitPages_chain S b start bytes ts fin hAt
          exact covL_append.mpr (Or.inl (covL_append.mpr (Or.inr (hch'.covers x hx1 hx2))))
      · have hrb : r.bytes = bytes ∨ r.bytes = [] := by
          -- the loop leaves the packet whole or empties it
          have : ∀ (rev back : List Page) (bs : List UInt8) (d : Nat) (r : Ov),
              ovLoop I start (start + ↑bytes.length) bs rev back d = .ok r → (r.bytes = bs ∨ r.bytes = []) := by
            intro rev
            induction rev with
            | nil => intro back bs d r h'; simp only [ovLoop, Res.ok.injEq] at h'; subst h'; exact Or.inl rfl
            | cons cur rest ih =>
              intro back bs d r h'
              simp only [ovLoop] at h'
              split at h'
              · exact ih _ _ _ _ h'
              · split at h'
                · obtain rfl := Res.ok.inj h'; exact Or.inl rfl
                · split at h'
                  · exact ih _ _ _ _ h'
                  · split at h'
                    · split at h'
                      · cases h'
                      · obtain rfl := Res.ok.inj h'; exact Or.inl rfl
                    · split at h'
                      · split at h'
                        · cases h'
                        · exact ih _ _ _ _ h'
                      · split at h'
                        · split at h'
                          · cases h'
                          · rcases ih _ _ _ _ h' with e | e <;> exact Or.inr (by rw [e])
                        · exact ih _ _ _ _ h'
          exact this _ _ _ _ _ hr
        have hrne : r.bytes ≠ [] := by intro e; rw [e] at hq; simp at hq
        have hrb' : r.bytes = bytes := hrb.resolve_right hrne
        rw [hrb']
        have h2 : FinAt E (splitPages I start bytes ts fin) := splitPages_finAt E start bytes ts fin hfinE
        intro p hp
        simp only [List.mem_append] at hp
        rcases hp with (hp | hp) | hp
        · exact c2 p (List.mem_append_left _ hp)
        · exact h2 p hp
        · exact c2 p (List.mem_append_right _ hp)
    · rename_i hq
      obtain rfl := Res.ok.inj hc
      simp only
      refine ⟨?_, c2⟩
      intro x hx
      rcases c1' x hx with hcv | ⟨hrb, hx1, hx2⟩
      · exact Or.inl hcv
      · right
        refine ⟨?_, hrb, hx1, hx2⟩
        -- the packet is non-empty here, so it was not queued only because `queue` is false
        cases hqq : queue with
        | false => rfl
        | true =>
          exfalso; apply hq
          have : 0 < bytes.length := by omega
          rw [hrb]; exact ⟨this, hqq⟩
  · cases hc
  · cases hc

theorem WInv.nonempty {S b h} (hw : WInv S b h) : ∀ p ∈ h.queue, p.bytes ≠ [] := fun p hp => (hw.ok p hp).2

/-- `handleBytes` without a page limit loses nothing: the packet's bytes end up in the queue (queue = true) or
    in the queue / in the live chunk handed to sendToConnection (queue = false, for what lies at or behind
    nextSeq) -/
theorem handleBytes_cover (S : List UInt8) (b : Int) (cfg : Cfg) (hcfg : cfg.maxPer ≤ 0 ∧ cfg.maxTotal ≤ 0)
    (h : Half) (used : Int) (queue : Bool) (seq : Int) (bytes : List UInt8) (ts : Int) (syn fin : Bool)
    (hw : WInv S b h) (hat : At S b seq bytes) (hfinE : fin = true → seq + bytes.length = b + S.length)
    (hstrict : fin = true → Inv S b h) (hfq : FinAt (b + S.length) h.queue)
    (hnq : queue = false → (h.nextSeq ≠ -1 ∧ seq ≤ h.nextSeq))
    (res : Half × Int × List Cont) (hb : handleBytes I cfg h used queue seq bytes ts syn fin = .ok res) :
    FinAt (b + S.length) res.1.queue ∧
    (queue = true → ∀ x, (covL h.queue x ∨ (seq ≤ x ∧ x < seq + bytes.length)) → covL res.1.queue x) ∧
    (queue = false → (∀ r0 ∈ res.2.2, r0.fin = true → r0.seq + r0.bytes.length = b + S.length) ∧
        ∀ x, (covL h.queue x ∨ (h.nextSeq ≤ x ∧ seq ≤ x ∧ x < seq + bytes.length)) →
          covL res.1.queue x ∨ ∃ r0 ∈ res.2.2, r0.seq ≤ x ∧ x < r0.seq + r0.bytes.length) := by
  have hatl := hat.len
  unfold handleBytes at hb
  cases queue with
  | true =>
    simp only [if_true] at hb
    split at hb
    · rename_i h1 used1 bs1 hco
      obtain ⟨c1, c2⟩ := checkOverlap_cover S b h used true seq bytes ts fin (b + S.length) hat (by omega) hfinE
        hw.sorted hw.nonempty hfq (h1, used1, bs1) hco
      simp only at c1 c2
      rw [limitHit_off hcfg] at hb
      simp only [Bool.false_eq_true, if_false] at hb
      obtain rfl := Res.ok.inj hb
      refine ⟨c2, fun _ x hx => ?_, fun hc => by cases hc⟩
      rcases c1 x hx with h' | ⟨h', _⟩
      · exact h'
      · cases h'
    · cases hb
    · cases hb
  | false =>
    simp only [Bool.false_eq_true, if_false] at hb
    obtain ⟨hns, hle⟩ := hnq rfl
    have hbnd := hw.ns.resolve_left hns
    obtain ⟨⟨bs0, seq0⟩, hoe, hseq0, hat0, hlen0⟩ := overlapExisting_spec S b h seq bytes hns hle hat hbnd
    rw [hoe] at hb
    simp only at hseq0 hat0 hlen0 hb
    subst hseq0
    have hat0l := hat0.len
    split at hb
    · rename_i h1 used1 bs1 hco
      obtain ⟨c1, c2⟩ := checkOverlap_cover S b h used false h.nextSeq bs0 ts fin (b + S.length) hat0 (by omega)
        (fun hf => by have := hfinE hf; omega) hw.sorted hw.nonempty hfq (h1, used1, bs1) hco
      simp only at c1 c2
      -- with `end` set the strict invariant holds and the packet is not emptied
      have hbs1 : fin = true → bs1 = bs0 := by
        intro hf
        obtain ⟨⟨h1', used1', bs1'⟩, hco', cp⟩ := checkOverlap_spec S b h used false h.nextSeq bs0 ts fin hat0 hw.sorted hw.ok
        rw [hco] at hco'
        obtain ⟨rfl, rfl, rfl⟩ := Prod.mk.inj (Res.ok.inj hco')
        exact cp.liveStrict rfl ((hstrict hf).queue.2.2 hns)
      have hcov : ∀ x, (covL h.queue x ∨ (h.nextSeq ≤ x ∧ seq ≤ x ∧ x < seq + bytes.length)) →
          covL h1.queue x ∨ (bs1 = bs0 ∧ h.nextSeq ≤ x ∧ x < h.nextSeq + bs0.length) := by
        intro x hx
        have : covL h.queue x ∨ (h.nextSeq ≤ x ∧ x < h.nextSeq + ↑bs0.length) := by
          rcases hx with hx | hx
          · exact Or.inl hx
          · exact Or.inr ⟨hx.1, by omega⟩
        rcases c1 x this with h' | ⟨_, h2, h3, h4⟩
        · exact Or.inl h'
        · exact Or.inr ⟨h2, h3, h4⟩
      split at hb
      · obtain rfl := Res.ok.inj hb
        refine ⟨c2, (fun hc => by cases hc), fun _ => ⟨?_, ?_⟩⟩
        · intro r0 hr0 hf
          simp only [List.mem_singleton] at hr0
          subst hr0
          simp only at hf ⊢
          rw [hbs1 hf]
          have := hfinE hf
          omega
        · intro x hx
          rcases hcov x hx with h' | ⟨h2, h3, h4⟩
          · exact Or.inl h'
          · exact Or.inr ⟨_, List.mem_singleton.mpr rfl, by simp only; exact h3, by simp only; rw [h2]; exact h4⟩
      · rename_i hcond
        obtain rfl := Res.ok.inj hb
        refine ⟨c2, (fun hc => by cases hc), fun _ => ⟨(fun r0 hr0 => by simp at hr0), ?_⟩⟩
        intro x hx
        rcases hcov x hx with h' | ⟨h2, h3, h4⟩
        · exact Or.inl h'
        · exfalso
          apply hcond
          left
          rw [h2]
          intro e
          have : (0 : Int) < bs0.length := by omega
          omega
    · cases hb
    · cases hb

/-- the end of AssembleWithContext when there is a chunk to send -/
theorem finish_cover (S : List UInt8) (b : Int) (hb : 0 ≤ b) (h2 : Half) (used2 : Int) (r0 : Cont) (ts : Int)
    (keep : KeepRule) (bump : Bool) (o : Out) (hopen : h2.closed = false) (pre : SendPre S b h2 r0)
    (hfq : FinAt (b + S.length) h2.queue) (hr0 : r0.fin = true → r0.seq + r0.bytes.length = b + S.length)
    (hbump : bump = true → h2.queue = [] ∧ r0.fin = true)
    (hf : finishAssemble I h2 used2 [r0] ts keep bump = .ok o) :
    ∃ g, o.sgs = [g] ∧ g.skip = (if h2.nextSeq ≠ -1 then r0.seq - h2.nextSeq else -1) ∧
      (o.half.closed = true → r0.seq + g.new.length = b + S.length) ∧
      (o.half.closed = false → Inv S b o.half ∧ FinAt (b + S.length) o.half.queue ∧
          o.half.nextSeq = r0.seq + g.new.length ∧ r0.seq + r0.bytes.length ≤ o.half.nextSeq ∧
          ∀ p ∈ h2.queue, p ∈ o.half.queue ∨ pend p ≤ o.half.nextSeq) := by
  unfold finishAssemble at hf
  simp only [List.length_cons, List.length_nil, Nat.zero_add, Nat.lt_add_one, if_true] at hf
  obtain ⟨s, hs, post⟩ := sendToConnection_spec S b hb h2 used2 r0 ts keep pre
  rw [hs] at hf
  have hl := pre.hat.len
  have hne : s.nextSeq ≠ invalidSeq := by rw [post.nextSeq, invalidSeq_eq]; omega
  simp only [hne, ne_eq, not_false_eq_true, if_true] at hf
  obtain rfl := Res.ok.inj hf
  have hcl : s.half.closed = s.closed := by rw [post.closed, hopen]; simp
  refine ⟨s.sg, rfl, post.skip, ?_, ?_⟩
  · intro hc
    have hc' : s.closed = true := by rw [← hcl]; exact hc
    rcases post.finEnd hc' with ⟨hf0, hn⟩ | ⟨p, hp, hpf, hpe⟩
    · have := hr0 hf0
      have := post.nextSeq
      omega
    · have := hfq p hp hpf
      have := post.nextSeq
      omega
  · intro hc
    have hc' : s.closed = false := by rw [← hcl]; exact hc
    have hbf : bump = false := by
      cases hbm : bump with
      | false => rfl
      | true =>
        exfalso
        obtain ⟨hq0, hf0⟩ := hbump hbm
        have := post.finLast hq0
        rw [hf0, ← post.fin, hc'] at this
        cases this
    subst hbf
    simp only [Bool.false_eq_true, if_false]
    have hstep := send_step (h' := { s.half with nextSeq := s.nextSeq }) hb hopen pre post rfl (fun _ => rfl)
    have hcv := post.cover hc'
    refine ⟨hstep.1.resolve_left (by simp only; rw [hcl, hc']; simp), ?_, post.nextSeq, hcv.1, hcv.2⟩
    intro p hp hpf
    exact hfq p (post.sub p hp) hpf

/-- Completeness invariant of a half connection: `n` bytes have been handed over as new data; `P` = the sequence
    numbers (offset space) of the payload bytes accepted so far. -/
structure CInv (S : List UInt8) (b : Int) (P : Int → Prop) (h : Half) (n : Nat) : Prop where
  closedAll : h.closed = true → n = S.length
  inv : h.closed = false → Inv S b h
  fin : h.closed = false → FinAt (b + S.length) h.queue
  cnt0 : h.closed = false → h.nextSeq = -1 → n = 0
  cnt : h.closed = false → h.nextSeq ≠ -1 → (n : Int) = h.nextSeq - b
  cov : h.closed = false → ∀ x, b ≤ x → P x → (h.nextSeq ≠ -1 ∧ x < h.nextSeq) ∨ covL h.queue x

theorem CInv.mono {S b} {P Q : Int → Prop} {h n} (hpq : ∀ x, Q x → P x) (hc : CInv S b P h n) : CInv S b Q h n :=
  { closedAll := hc.closedAll, inv := hc.inv, fin := hc.fin, cnt0 := hc.cnt0, cnt := hc.cnt,
    cov := fun ho x hx hq => hc.cov ho x hx (hpq x hq) }

theorem newBytes_single (g : SG) : (newBytes [g]).length = g.new.length := by simp [newBytes]

/-- handleBytes + the end of AssembleWithContext, without a page limit -/
theorem tail_complete (S : List UInt8) (b : Int) (hb : 0 ≤ b) (cfg : Cfg) (hcfg : cfg.maxPer ≤ 0 ∧ cfg.maxTotal ≤ 0)
    (h1 : Half) (used : Int) (queue : Bool) (sq : Int) (bytes : List UInt8) (ts : Int) (syn fe pfin : Bool)
    (keep : KeepRule) (P : Int → Prop) (n : Nat) (o : Out)
    (hopen : h1.closed = false) (hw : WInv S b h1) (hstr : Inv S b h1 ∨ (queue = false ∧ syn = true ∧ fe = false))
    (hat : At S b sq bytes) (hfe : fe = true → sq + bytes.length = b + S.length) (hpfin : pfin = true → fe = true)
    (hfq : FinAt (b + S.length) h1.queue)
    (hq : queue = true → (h1.nextSeq = -1 ∨ h1.nextSeq < sq)) (hnq : queue = false → (h1.nextSeq ≠ -1 ∧ sq ≤ h1.nextSeq))
    (hcnt0 : h1.nextSeq = -1 → n = 0) (hcnt : h1.nextSeq ≠ -1 → (n : Int) = h1.nextSeq - b)
    (hcov : ∀ x, b ≤ x → P x → (h1.nextSeq ≠ -1 ∧ x < h1.nextSeq) ∨ covL h1.queue x)
    (ha : (match handleBytes I cfg h1 used queue sq bytes ts syn fe with
           | .ok (h, used, ret) => finishAssemble I h used ret ts keep (pfin && !queue)
           | .err k => .err k
           | .panic k => .panic k) = .ok o) :
    CInv S b (fun x => P x ∨ (sq ≤ x ∧ x < sq + bytes.length)) o.half (n + (newBytes o.sgs).length) ∧
    (o.half.closed = false → o.half.nextSeq = -1 → h1.nextSeq = -1 ∧ queue = true) := by
  have hatl := hat.len
  have hstrict' : fe = true → Inv S b h1 := fun hf =>
    hstr.resolve_right (fun h' => by rw [hf] at h'; exact Bool.noConfusion h'.2.2)
  split at ha
  · rename_i h2 used2 ret hhb
    obtain ⟨r', hr', hbp⟩ := handleBytes_spec S b hb cfg h1 used queue sq bytes ts syn fe hw hat hq hnq
    rw [hhb] at hr'
    obtain rfl := Res.ok.inj hr'
    obtain ⟨hf2, hcq, hcn⟩ := handleBytes_cover S b cfg hcfg h1 used queue sq bytes ts syn fe hw hat hfe hstrict' hfq hnq _ hhb
    simp only at hf2 hcq hcn
    have hsame := hbp.same
    simp only at hsame
    have hn2 : h2.nextSeq = h1.nextSeq := by rw [hsame]
    have hopen2 : h2.closed = false := by rw [hsame]; exact hopen
    rcases hbp.ret with hr | ⟨r0, hr, pre, hfs⟩
    · -- nothing is sent
      simp only at hr
      subst hr
      simp only [finishAssemble, List.length_nil, Nat.lt_irrefl, if_false, Res.ok.injEq] at ha
      subst ha
      have hI1 : Inv S b h1 := hstr.resolve_right (fun h' => hbp.must h'.1 (Or.inr h'.2.1) rfl)
      refine ⟨{ closedAll := fun hc => by simp only at hc; rw [hopen2] at hc; cases hc
                inv := fun _ => hbp.strict hI1
                fin := fun _ => hf2
                cnt0 := fun _ hns => by
                  simp only [newBytes, List.map_nil, List.flatten_nil, List.length_nil, Nat.add_zero]
                  exact hcnt0 (by rw [← hn2]; exact hns)
                cnt := fun _ hns => by
                  simp only [newBytes, List.map_nil, List.flatten_nil, List.length_nil, Nat.add_zero]
                  simp only at hns ⊢
                  rw [hn2] at hns ⊢
                  exact hcnt hns
                cov := ?_ }, ?_⟩
      · intro _ x hx hP
        simp only
        rw [hn2]
        have toq : covL h1.queue x → covL h2.queue x := by
          intro hcv
          cases hqq : queue with
          | true => exact hcq hqq x (Or.inl hcv)
          | false =>
            rcases (hcn hqq).2 x (Or.inl hcv) with h' | ⟨r0, hr0, _⟩
            · exact h'
            · simp at hr0
        rcases hP with hP | hdat
        · rcases hcov x hx hP with h' | h'
          · exact Or.inl h'
          · exact Or.inr (toq h')
        · cases hqq : queue with
          | true => exact Or.inr (hcq hqq x (Or.inr hdat))
          | false =>
            by_cases hxn : x < h1.nextSeq
            · exact Or.inl ⟨(hnq hqq).1, hxn⟩
            · rcases (hcn hqq).2 x (Or.inr ⟨by omega, hdat⟩) with h' | ⟨r0, hr0, _⟩
              · exact Or.inr h'
              · simp at hr0
      · intro _ hns
        simp only at hns
        rw [hn2] at hns
        refine ⟨hns, ?_⟩
        cases hqq : queue with
        | true => rfl
        | false => exact absurd hns (hnq hqq).1
    · -- one chunk is sent
      simp only at hr
      subst hr
      have hqf : queue = false := by
        cases hqq : queue with
        | false => rfl
        | true => have := hbp.noLimit hqq hcfg; simp at this
      subst hqf
      obtain ⟨hns, hle⟩ := hnq rfl
      obtain ⟨hr0f, hr0s⟩ := hfs rfl
      have hbnd := hw.ns.resolve_left hns
      have hr0E : r0.fin = true → r0.seq + r0.bytes.length = b + S.length :=
        (hcn rfl).1 r0 (List.mem_singleton.mpr rfl)
      simp only [Bool.not_false, Bool.and_true] at ha
      have hbump : pfin = true → h2.queue = [] ∧ r0.fin = true := by
        intro hp
        have hfe' := hpfin hp
        exact ⟨hbp.endQ rfl (hstrict' hfe') (hfe hfe'), by rw [hr0f]; exact hfe'⟩
      obtain ⟨g, hg, _, hgc, hgo⟩ := finish_cover S b hb h2 used2 r0 ts keep pfin o hopen2 pre hf2 hr0E hbump ha
      have hnb : (newBytes o.sgs).length = g.new.length := by rw [hg]; exact newBytes_single g
      have hn1 := hcnt hns
      have hr0l := pre.hat.len
      refine ⟨{ closedAll := fun hc => by
                  have := hgc hc
                  rw [hnb]; omega
                inv := fun hc => (hgo hc).1
                fin := fun hc => (hgo hc).2.1
                cnt0 := fun hc hm => by
                  have := (hgo hc).2.2.1
                  omega
                cnt := fun hc _ => by
                  have := (hgo hc).2.2.1
                  rw [hnb]
                  simp only [Int.natCast_add]
                  omega
                cov := ?_ }, ?_⟩
      · intro hc x hx hP
        obtain ⟨_, _, hnx, hle2, hcvq⟩ := hgo hc
        have hne' : o.half.nextSeq ≠ -1 := by omega
        have key : covL h2.queue x → (o.half.nextSeq ≠ -1 ∧ x < o.half.nextSeq) ∨ covL o.half.queue x := by
          intro ⟨p, hp, h1', h2'⟩
          rcases hcvq p hp with h' | h'
          · exact Or.inr ⟨p, h', h1', h2'⟩
          · exact Or.inl ⟨hne', by omega⟩
        have fromHB : (covL h2.queue x ∨ ∃ r0' ∈ [r0], r0'.seq ≤ x ∧ x < r0'.seq + ↑r0'.bytes.length) →
            (o.half.nextSeq ≠ -1 ∧ x < o.half.nextSeq) ∨ covL o.half.queue x := by
          rintro (h' | ⟨r0', hr0', _, hx2⟩)
          · exact key h'
          · simp only [List.mem_singleton] at hr0'
            subst hr0'
            exact Or.inl ⟨hne', by omega⟩
        rcases hP with hP | hdat
        · rcases hcov x hx hP with h' | h'
          · exact Or.inl ⟨hne', by omega⟩
          · exact fromHB ((hcn rfl).2 x (Or.inl h'))
        · by_cases hxn : x < h1.nextSeq
          · exact Or.inl ⟨hne', by omega⟩
          · exact fromHB ((hcn rfl).2 x (Or.inr ⟨by omega, hdat⟩))
      · intro hc hm
        have := (hgo hc).2.2.1
        omega
  · cases ha
  · cases ha

/-- one accepted consistent segment without a page limit: nothing is lost -/
theorem assemble_complete (S : List UInt8) (i : Int) (hi : 0 ≤ i) (cfg : Cfg) (hcfg : cfg.maxPer ≤ 0 ∧ cfg.maxTotal ≤ 0)
    (h : Half) (used : Int) (p : Seg) (keep : KeepRule) (P : Int → Prop) (n : Nat)
    (hc : CInv S (i + 1) P h n) (hp : SegOK S i p)
    (hrst : p.rst = true → p.syn = false ∧ p.dataSeq + p.bytes.length = i + 1 + S.length)
    (o : Out) (ha : assemble I cfg h used p 1 keep = .ok o) :
    CInv S (i + 1) (fun x => P x ∨ (p.dataSeq ≤ x ∧ x < p.dataSeq + p.bytes.length)) o.half
      (n + (newBytes o.sgs).length) ∧
    (o.half.closed = false → (h.nextSeq ≠ -1 ∨ p.syn = true) → o.half.nextSeq ≠ -1) := by
  have hb : (0 : Int) ≤ i + 1 := by omega
  unfold assemble at ha
  generalize hh0 : (if h.lastSeen < p.ts then { h with lastSeen := p.ts } else h) = h0 at ha
  have hc0 : h0.closed = h.closed := by rw [← hh0]; split <;> rfl
  have hn0 : h0.nextSeq = h.nextSeq := by rw [← hh0]; split <;> rfl
  have hq0 : h0.queue = h.queue := by rw [← hh0]; split <;> rfl
  have hs0 : h0.saved = h.saved := by rw [← hh0]; split <;> rfl
  simp only at ha
  rw [if_neg (by decide : ¬ ((1 : Nat) = 0))] at ha
  by_cases hcl : h0.closed = true
  · rw [if_pos hcl] at ha
    obtain rfl := Res.ok.inj ha
    have hclh : h.closed = true := by rw [← hc0]; exact hcl
    refine ⟨{ closedAll := fun _ => by simp [newBytes]; exact hc.closedAll hclh
              inv := fun h' => by simp only at h'; rw [hcl] at h'; cases h'
              fin := fun h' => by simp only at h'; rw [hcl] at h'; cases h'
              cnt0 := fun h' => by simp only at h'; rw [hcl] at h'; cases h'
              cnt := fun h' => by simp only at h'; rw [hcl] at h'; cases h'
              cov := fun h' => by simp only at h'; rw [hcl] at h'; cases h' },
            fun h' => by simp only at h'; rw [hcl] at h'; cases h'⟩
  rw [if_neg hcl] at ha
  have hopen0 : h0.closed = false := by simpa using hcl
  have hopen : h.closed = false := by rw [← hc0]; exact hopen0
  have hI0 : Inv S (i + 1) h0 := inv_congr hn0 hq0 hs0 (hc.inv hopen)
  have hF0 : FinAt (i + 1 + S.length) h0.queue := by rw [hq0]; exact hc.fin hopen
  have hat := segok_at hp
  have hdata : p.dataSeq = (if p.syn = true then I.add p.seq 1 else p.seq) := rfl
  rw [hdata] at hrst ⊢
  have hfinE := hp.2.2
  rw [hdata] at hfinE
  generalize hsq : (if p.syn = true then I.add p.seq 1 else p.seq) = sq at ha hat hrst hfinE ⊢
  have hatl := hat.len
  have hsynsq : p.syn = true → sq = i + 1 := by
    intro hs
    rw [← hsq, if_pos hs]; simp only [I_add]; have := (hp.1 hs).1; omega
  have hfe : (p.rst || p.fin) = true → sq + p.bytes.length = i + 1 + S.length := by
    intro hf
    cases hr : p.rst with
    | true => exact (hrst hr).2
    | false => rw [hr] at hf; simp only [Bool.false_or] at hf; exact hfinE hf
  have hfesyn : (p.rst || p.fin) = true → p.syn = false := by
    intro hf
    cases hr : p.rst with
    | true => exact (hrst hr).1
    | false =>
      rw [hr] at hf; simp only [Bool.false_or] at hf
      cases hs : p.syn with
      | false => rfl
      | true => have := (hp.1 hs).2; rw [hf] at this; cases this
  have hpfin : p.fin = true → (p.rst || p.fin) = true := fun hf => by simp [hf]
  have hcnt0' : h0.nextSeq = -1 → n = 0 := fun hm => hc.cnt0 hopen (by rw [← hn0]; exact hm)
  have hcnt' : h0.nextSeq ≠ -1 → (n : Int) = h0.nextSeq - (i + 1) := fun hm => by
    rw [hn0] at hm ⊢; exact hc.cnt hopen hm
  have hcov' : ∀ x, i + 1 ≤ x → P x → (h0.nextSeq ≠ -1 ∧ x < h0.nextSeq) ∨ covL h0.queue x := by
    intro x hx hP
    rw [hn0, hq0]; exact hc.cov hopen x hx hP
  rcases decideQueue_spec hI0 p.syn 1 sq (by omega) ⟨hatl.1, by omega⟩ hsynsq with ⟨hd1, hdq, hdn⟩ | ⟨hsyn, hns', hd⟩
  · -- no start in this call
    have hcontra : p.syn = true → h0.nextSeq = -1 → False := by
      intro hs hm
      have hdq' : decideQueue I h0 p.syn 1 sq = ({ h0 with nextSeq := sq }, false) := by
        unfold decideQueue
        rw [if_pos (by rw [hm]; rfl), if_pos hs]
      rw [hdq'] at hd1
      have := congrArg Half.nextSeq hd1
      simp only at this
      omega
    generalize decideQueue I h0 p.syn 1 sq = d at ha hd1 hdq hdn
    obtain ⟨h1, queue⟩ := d
    simp only at hd1 hdq hdn ha
    subst hd1
    obtain ⟨r1, r2⟩ := tail_complete S (i + 1) hb cfg hcfg h1 used queue sq p.bytes p.ts p.syn (p.rst || p.fin) p.fin keep
      P n o hopen0 hI0.weak (Or.inl hI0) hat hfe hpfin hF0 hdq hdn hcnt0' hcnt' hcov' ha
    refine ⟨r1, fun ho hor hm => ?_⟩
    obtain ⟨hm1, hqt⟩ := r2 ho hm
    rcases hor with hor | hor
    · rw [hn0] at hm1; exact hor hm1
    · exact hcontra hor hm1
  · -- first SYN: the start is seen now
    rw [hd] at ha
    simp only at ha
    have hsqv : sq = i + 1 := hsynsq hsyn
    have hfe0 : (p.rst || p.fin) = false := by
      cases hf : (p.rst || p.fin) with
      | false => rfl
      | true => have := hfesyn hf; rw [hsyn] at this; cases this
    have hw1 : WInv S (i + 1) { h0 with nextSeq := sq } := {
      ns := Or.inr (by simp only; omega)
      sorted := hI0.queue.1
      ok := hI0.queue.2.1
      lower := fun _ q hq => by
        have := (hI0.queue.2.1 q hq).1.len
        simp only; omega
      saved := Or.inl (by
        rcases hI0.saved with hsv | ⟨hne, _⟩
        · exact hsv
        · exact absurd hns' hne) }
    have hn00 : n = 0 := hcnt0' hns'
    obtain ⟨r1, r2⟩ := tail_complete S (i + 1) hb cfg hcfg { h0 with nextSeq := sq } used false sq p.bytes p.ts p.syn
      (p.rst || p.fin) p.fin keep P n o hopen0 hw1 (Or.inr ⟨rfl, hsyn, hfe0⟩) hat hfe hpfin hF0
      (fun hc' => by cases hc') (fun _ => ⟨by simp only; omega, Int.le_refl _⟩)
      (fun hm => by simp only at hm; omega) (fun _ => by simp only; omega)
      (fun x hx hP => by
        rcases hcov' x hx hP with h' | h'
        · exact absurd hns' h'.1
        · exact Or.inr h') ha
    refine ⟨r1, fun ho _ hm => ?_⟩
    have := (r2 ho hm).1
    simp only at this
    omega

theorem CInv.hinv {S b P h n} (hc : CInv S b P h n) : HInv S b h := by
  cases hcl : h.closed with
  | true => exact Or.inl hcl
  | false => exact Or.inr (hc.inv hcl)

theorem newBytes_append (a b : List SG) : newBytes (a ++ b) = newBytes a ++ newBytes b := by
  simp [newBytes]

theorem HOp.Plain.ok {S : List UInt8} {i : Int} {op : HOp} (h : op.Plain S i) : op.OK S i := by
  cases op with
  | seg p acc keep cfg used => exact ⟨h.1, by have := h.2.1; omega⟩
  | skipFlush _ _ => exact absurd h (by simp [HOp.Plain])
  | flushClose _ _ _ _ _ => exact absurd h (by simp [HOp.Plain])
  | flushAll _ _ => exact absurd h (by simp [HOp.Plain])

/-- a history of accepted consistent segments without page limits and without flushes: nothing is lost, no gap is
    announced, and once a SYN was processed the position is known -/
theorem hrun_complete (S : List UInt8) (i : Int) (hi : 0 ≤ i) :
    ∀ (ops : List HOp) (h : Half) (n : Nat) (P : Int → Prop), CInv S (i + 1) P h n → (∀ op ∈ ops, op.Plain S i) →
      ∀ (h' : Half) (sgs : List SG), hrun I h ops = .ok (h', sgs) →
        CInv S (i + 1) (fun x => P x ∨ ∃ op ∈ ops, op.carries x) h' (n + (newBytes sgs).length) ∧
        (∀ g ∈ sgs, g.skip = 0) ∧
        (h'.closed = false → (h.nextSeq ≠ -1 ∨ ∃ op ∈ ops, op.isSyn = true) → h'.nextSeq ≠ -1) ∧
        (h.closed = true → h'.closed = true)
  | [], h, n, P, hc, _, h', sgs, hr => by
    simp only [hrun, Res.ok.injEq, Prod.mk.injEq] at hr
    obtain ⟨rfl, rfl⟩ := hr
    refine ⟨?_, by simp, ?_, fun hcl => hcl⟩
    · simp only [newBytes, List.map_nil, List.flatten_nil, List.length_nil, Nat.add_zero]
      exact hc.mono (fun x hx => by
        rcases hx with hx | ⟨op, hop, _⟩
        · exact hx
        · simp at hop)
    · intro _ hor
      rcases hor with hor | ⟨op, hop, _⟩
      · exact hor
      · simp at hop
  | op :: rest, h, n, P, hc, hpl, h', sgs, hr => by
    have hop := hpl op (List.mem_cons_self ..)
    cases op with
    | skipFlush _ _ => exact absurd hop (by simp [HOp.Plain])
    | flushClose _ _ _ _ _ => exact absurd hop (by simp [HOp.Plain])
    | flushAll _ _ => exact absurd hop (by simp [HOp.Plain])
    | seg p acc keep cfg used =>
      obtain ⟨hseg, hacc, hc1, hc2, hrst⟩ := hop
      subst hacc
      simp only [hrun, hstep] at hr
      split at hr
      · rename_i o ho
        split at hr
        · rename_i h2 sgs2 hr2
          simp only [Res.ok.injEq, Prod.mk.injEq] at hr
          obtain ⟨rfl, rfl⟩ := hr
          obtain ⟨s1, s2⟩ := assemble_complete S i hi cfg ⟨hc1, hc2⟩ h used p keep P n hc hseg hrst o ho
          -- no gap is announced without a limit
          obtain ⟨o', ho', _, hskip⟩ := assemble_spec S i hi cfg h used p 1 keep hc.hinv hseg (by omega)
          rw [ho] at ho'
          obtain rfl := Res.ok.inj ho'
          have hclosedStep : h.closed = true → o.half.closed = true := by
            intro hcl
            have ac := assemble_acct I cfg h used p 1 keep o ho
            rw [ac.closedF (ac.quiet hcl).1]; exact hcl
          obtain ⟨r1, r2, r3, r4⟩ := hrun_complete S i hi rest o.half _ _ s1
            (fun op' hm => hpl op' (List.mem_cons_of_mem _ hm)) h2 sgs2 hr2
          refine ⟨?_, ?_, ?_, fun hcl => r4 (hclosedStep hcl)⟩
          · rw [newBytes_append, List.length_append, ← Nat.add_assoc]
            refine r1.mono ?_
            intro x hx
            rcases hx with hx | ⟨op', hop', hcar⟩
            · exact Or.inl (Or.inl hx)
            · rcases List.mem_cons.mp hop' with rfl | hop'
              · exact Or.inl (Or.inr hcar)
              · exact Or.inr ⟨op', hop', hcar⟩
          · intro g hg
            rcases List.mem_append.mp hg with hg | hg
            · exact hskip ⟨hc1, hc2⟩ g hg
            · exact r2 g hg
          · intro hopen' hor
            apply r3 hopen'
            have hsplit : (h.nextSeq ≠ -1 ∨ p.syn = true) ∨ ∃ op' ∈ rest, op'.isSyn = true := by
              rcases hor with hor | ⟨op', hop', hsy⟩
              · exact Or.inl (Or.inl hor)
              · rcases List.mem_cons.mp hop' with rfl | hop'
                · exact Or.inl (Or.inr hsy)
                · exact Or.inr ⟨op', hop', hsy⟩
            rcases hsplit with hs | hs
            · left
              cases hoc : o.half.closed with
              | false => exact s2 hoc hs
              | true => have := r4 hoc; rw [hopen'] at this; cases this
            · exact Or.inr hs
        · cases hr
        · cases hr
      · cases hr
      · cases hr

/-- offset space: once the SYN and every byte of `S` were accepted, exactly |S| new bytes have been handed over -/
theorem complete_ideal (S : List UInt8) (i : Int) (hi : 0 ≤ i) (ops : List HOp) (hpl : ∀ op ∈ ops, op.Plain S i)
    (hsyn : ∃ op ∈ ops, op.isSyn = true)
    (hall : ∀ o : Nat, o < S.length → ∃ op ∈ ops, op.carries (i + 1 + o))
    (h' : Half) (sgs : List SG) (hr : hrun I {} ops = .ok (h', sgs)) :
    (newBytes sgs).length = S.length ∧ ∀ g ∈ sgs, g.skip = 0 := by
  have hc0 : CInv S (i + 1) (fun _ => False) ({} : Half) 0 :=
    { closedAll := fun hc => by cases hc
      inv := fun _ => inv_init S (i + 1) 0
      fin := fun _ p hp => by simp at hp
      cnt0 := fun _ _ => rfl
      cnt := fun _ hn => absurd rfl hn
      cov := fun _ _ _ hf => hf.elim }
  obtain ⟨r1, r2, r3, _⟩ := hrun_complete S i hi ops {} 0 _ hc0 hpl h' sgs hr
  refine ⟨?_, r2⟩
  simp only [Nat.zero_add] at r1
  cases hcl : h'.closed with
  | true => exact r1.closedAll hcl
  | false =>
    have hns : h'.nextSeq ≠ -1 := r3 hcl (Or.inr hsyn)
    have hI := r1.inv hcl
    have hbnd := hI.ns.resolve_left hns
    have hcnt := r1.cnt hcl hns
    by_cases hend : h'.nextSeq = i + 1 + S.length
    · omega
    · exfalso
      have hlt : (h'.nextSeq - (i + 1)).toNat < S.length := by omega
      obtain ⟨op, hop, hcar⟩ := hall _ hlt
      have hx : i + 1 + ((h'.nextSeq - (i + 1)).toNat : Int) = h'.nextSeq := by omega
      rw [hx] at hcar
      rcases r1.cov hcl h'.nextSeq hbnd.1 (Or.inr ⟨op, hop, hcar⟩) with ⟨_, hlt'⟩ | ⟨p, hp, hp1, _⟩
      · omega
      · have := hI.queue.2.2 hns p hp
        omega

end Gp.Reasm
