/-
  C11 lifecycle: the history of every stream is  created · (fed | got)* · completed?  —
  ReassemblyComplete at most once, nothing after it, and exactly once for every stream that is no
  longer in the pool.  Any sequence arithmetic with `diff x x ≤ 0`, every history.
-/
import Gp.Lemmas.AsmTrace

namespace Gp.Asm

def isMid (e : HEv) : Prop := e ≠ HEv.created ∧ e ≠ HEv.completed

/-- created, then only segments fed / items delivered -/
def Alive (h : List HEv) : Prop := ∃ mid, h = HEv.created :: mid ∧ ∀ e ∈ mid, isMid e
/-- … and finally completed, exactly once, as the last event -/
def Done (h : List HEv) : Prop := ∃ mid, h = HEv.created :: (mid ++ [HEv.completed]) ∧ ∀ e ∈ mid, isMid e

theorem isMid_got (calls : List (List Reasm)) : ∀ e ∈ calls.map HEv.got, isMid e := by
  intro e he
  obtain ⟨c, _, rfl⟩ := List.mem_map.1 he
  exact ⟨(by intro h; cases h), (by intro h; cases h)⟩

theorem alive_step (h : List HEv) (pre : List HEv) (st : Step) (ha : Alive h) (hpre : ∀ e ∈ pre, isMid e) :
    (st.closed = false → Alive (h ++ pre ++ stepHist st)) ∧ (st.closed = true → Done (h ++ pre ++ stepHist st)) := by
  obtain ⟨mid, rfl, hm⟩ := ha
  unfold stepHist
  constructor
  · intro hc
    rw [hc]
    refine ⟨mid ++ pre ++ st.calls.map HEv.got, by simp, ?_⟩
    intro e he
    simp only [List.mem_append] at he
    rcases he with (he | he) | he
    · exact hm e he
    · exact hpre e he
    · exact isMid_got _ e he
  · intro hc
    rw [hc]
    refine ⟨mid ++ pre ++ st.calls.map HEv.got, by simp, ?_⟩
    intro e he
    simp only [List.mem_append] at he
    rcases he with (he | he) | he
    · exact hm e he
    · exact hpre e he
    · exact isMid_got _ e he

theorem life_streamInv2 (A : SeqArith) (hA : ∀ x, A.diff x x ≤ 0) :
    StreamInv2 A (fun _ c h => NoWtf c ∧ Alive h) (fun _ h => h = [] ∨ Done h)
      (fun s => s.seq ≠ invalidSeq) where
  nil := fun _ => Or.inl rfl
  fresh := by
    intro k ts sid
    exact ⟨by simp [NoWtf, HeadNe], [], rfl, by intro e he; simp at he⟩
  asm := by
    intro L c used s h ⟨hw, ha⟩ hs
    obtain ⟨st, hst, hw'⟩ := assembleConn_noWtf A hA L c used s hw hs
    have := alive_step h [HEv.fed s] st ha (by
      intro e he; simp only [List.mem_singleton] at he; rw [he]
      exact ⟨(by intro h; cases h), (by intro h; cases h)⟩)
    simp only [List.append_assoc, List.singleton_append] at this
    exact ⟨st, hst, fun hc => ⟨hw', this.1 hc⟩, fun hc => Or.inr (this.2 hc)⟩
  flush := by
    intro k T ca c used h ⟨hw, ha⟩
    have := alive_step h [] (flushConn A T ca c used).1 ha (by intro e he; simp at he)
    simp only [List.append_nil] at this
    exact ⟨fun hc => ⟨flushConn_noWtf A hA T ca c used hw, this.1 hc⟩, fun hc => Or.inr (this.2 hc)⟩
  flushAll := by
    intro k c used h ⟨hw, ha⟩
    have := alive_step h [] (flushAllConn A c used) ha (by intro e he; simp at he)
    simp only [List.append_nil] at this
    exact ⟨fun hc => ⟨flushAllLoop_noWtf A hA _ c used _ hw, this.1 hc⟩, fun hc => Or.inr (this.2 hc)⟩

/-! ### consequences of the shape -/

theorem mid_count (mid : List HEv) (hm : ∀ e ∈ mid, isMid e) : mid.count HEv.completed = 0 := by
  rw [List.count_eq_zero]
  intro hc
  exact (hm _ hc).2 rfl

theorem alive_count (h : List HEv) (ha : Alive h) : h.count HEv.completed = 0 := by
  obtain ⟨mid, rfl, hm⟩ := ha
  rw [List.count_cons_of_ne (by intro e; cases e)]
  exact mid_count mid hm

theorem done_count (h : List HEv) (hd : Done h) : h.count HEv.completed = 1 := by
  obtain ⟨mid, rfl, hm⟩ := hd
  rw [List.count_cons_of_ne (by intro e; cases e), List.count_append, mid_count mid hm]
  simp

/-- nothing follows `completed` -/
theorem done_nothing_after (h pre post : List HEv) (hd : Done h) (e : h = pre ++ HEv.completed :: post) :
    post = [] := by
  obtain ⟨mid, rfl, hm⟩ := hd
  cases pre with
  | nil => simp at e
  | cons p pre =>
    simp only [List.cons_append, List.cons.injEq] at e
    obtain ⟨_, e⟩ := e
    -- mid ++ [completed] = pre ++ completed :: post, and completed ∉ mid
    have hlen : ∀ (m pre post : List HEv), (∀ x ∈ m, isMid x) → m ++ [HEv.completed] = pre ++ HEv.completed :: post → post = [] := by
      intro m
      induction m with
      | nil =>
        intro pre post _ e
        cases pre with
        | nil => simpa using e
        | cons q pre =>
          simp only [List.nil_append, List.cons_append, List.cons.injEq] at e
          have := congrArg List.length e.2
          simp at this
      | cons a m ih =>
        intro pre post hm e
        cases pre with
        | nil =>
          simp only [List.cons_append, List.nil_append, List.cons.injEq] at e
          exact absurd e.1 (hm a List.mem_cons_self).2
        | cons q pre =>
          simp only [List.cons_append, List.cons.injEq] at e
          exact ih pre post (fun x hx => hm x (List.mem_cons_of_mem _ hx)) e.2
    exact hlen mid pre post hm e

theorem alive_no_completed (h pre post : List HEv) (ha : Alive h) (e : h = pre ++ HEv.completed :: post) : False := by
  have := alive_count h ha
  rw [e, List.count_append, List.count_cons_self] at this
  omega

end Gp.Asm
