import Gp.Lemmas.PcapNgRT4
import Gp.Lemmas.PcapNgCalls
/-
  Round trip, part 5 (C14): reading a sequence of written blocks call by call (`RA`), and NewNgReader on
  the written section header (+ first interface).
-/
namespace Gp.PcapNg
open Gp.Gen.PcapNg

/-- "reading everything": started in ANY state satisfying `P` on the input `inp` (wrap counter `nw`), the
    successive calls return the packets `ps` and then io.EOF, in a state satisfying `Pf`, with all input
    consumed and the wrap counter unchanged -/
inductive RA : (S → Prop) → Bytes → Nat → List Pkt → (S → Prop) → Prop
  | eof {P Pf : S → Prop} {inp : Bytes} {nw : Nat}
      (h : ∀ s ev, P s → ∃ s' ev', Pf s' ∧ EvF readPacketP s ⟨inp, ev, nw⟩ .eof s' ⟨[], ev', nw⟩) : RA P inp nw [] Pf
  | pkt {P P1 Pf : S → Prop} {inp inp1 : Bytes} {nw : Nat} {p : Pkt} {ps : List Pkt}
      (h : ∀ s ev, P s → ∃ s' ev', P1 s' ∧ Ev readPacketP s ⟨inp, ev, nw⟩ p s' ⟨inp1, ev', nw⟩)
      (t : RA P1 inp1 nw ps Pf) : RA P inp nw (p :: ps) Pf

/-- `RA` describes `readAllF` -/
theorem RA.readAll {P Pf : S → Prop} {inp : Bytes} {nw : Nat} {ps : List Pkt} (h : RA P inp nw ps Pf) :
    ∀ (s : S) (ev : List MemEv) (f : Nat), P s → inp.length < f →
      ∃ rf, readAllF f ⟨s, ⟨inp, ev, nw⟩⟩ = (ps, .eof, rf) ∧ Pf rf.s ∧ rf.w.inp = [] ∧ rf.w.nWrap = nw := by
  induction h with
  | eof h =>
    intro s ev f hp hf
    cases f with
    | zero => omega
    | succ f =>
      obtain ⟨s', ev', hpf, he⟩ := h s [] hp
      have hr : readPacket ⟨s, ⟨_, ev, _⟩⟩ = .fail .eof s' ⟨[], ev', _⟩ :=
        he.at_fuel NoHang.readPacketP (Nat.lt_succ_self _)
      simp only [readAllF, hr]
      exact ⟨_, rfl, hpf, rfl, rfl⟩
  | pkt h _ ih =>
    intro s ev f hp hf
    cases f with
    | zero => omega
    | succ f =>
      obtain ⟨s', ev', hp1, he⟩ := h s [] hp
      have hr : readPacket ⟨s, ⟨_, ev, _⟩⟩ = .ok _ s' ⟨_, ev', _⟩ :=
        he.at_fuel NoHang.readPacketP (Nat.lt_succ_self _)
      have hc := readPacket_consumes hr
      simp only at hc
      obtain ⟨rf, h1, h2, h3, h4⟩ := ih s' ev' f hp1 (by omega)
      simp only [readAllF, hr, h1]
      exact ⟨rf, rfl, h2, h3, h4⟩

theorem readPacketP_iter : readPacketP = (Prog.iter hdrBody >>= fun r => pktRest r.1 r.2.1 r.2.2) := rfl

/-- a block that the header loop skips can be put in front -/
theorem RA.peel {P P1 Pf : S → Prop} {inp : Bytes} {nw : Nat} {ps : List Pkt} (b : Bytes)
    (h1 : ∀ s, P s → Eats hdrBody s b (fun st s' => st = .again ∧ P1 s')) (t : RA P1 inp nw ps Pf) :
    RA P (b ++ inp) nw ps Pf := by
  cases t with
  | eof h =>
    refine RA.eof (fun s ev hp => ?_)
    obtain ⟨st, s1, ev1, ⟨hst, hp1⟩, he1⟩ := h1 s hp inp ev nw
    subst hst
    obtain ⟨s', ev', hpf, he2⟩ := h s1 ev1 hp1
    rw [readPacketP_iter] at he2 ⊢
    exact ⟨s', ev', hpf, EvF.iter_bind_again (by intro hh; cases hh) he1 he2⟩
  | pkt h t' =>
    refine RA.pkt (fun s ev hp => ?_) t'
    obtain ⟨st, s1, ev1, ⟨hst, hp1⟩, he1⟩ := h1 s hp inp ev nw
    subst hst
    obtain ⟨s', ev', hp2, he2⟩ := h s1 ev1 hp1
    rw [readPacketP_iter] at he2 ⊢
    exact ⟨s', ev', hp2, Ev.iter_bind_again he1 he2⟩

/-- a block that one call turns into the packet `p` can be put in front -/
theorem RA.cons {P P1 Pf : S → Prop} {inp : Bytes} {nw : Nat} {p : Pkt} {ps : List Pkt} (b : Bytes)
    (h1 : ∀ s, P s → Eats readPacketP s b (fun p' s' => p' = p ∧ P1 s')) (t : RA P1 inp nw ps Pf) :
    RA P (b ++ inp) nw (p :: ps) Pf := by
  refine RA.pkt (fun s ev hp => ?_) t
  obtain ⟨p', s', ev', ⟨hpp, hp1⟩, he⟩ := h1 s hp inp ev nw
  subst hpp
  exact ⟨s', ev', hp1, he⟩

theorem RA.weaken {P P' Pf : S → Prop} {inp : Bytes} {nw : Nat} {ps : List Pkt} (t : RA P inp nw ps Pf)
    (hp : ∀ s, P' s → P s) : RA P' inp nw ps Pf := by
  cases t with
  | eof h => exact RA.eof (fun s ev h' => h s ev (hp s h'))
  | pkt h t' => exact RA.pkt (fun s ev h' => h s ev (hp s h')) t'

/-- at the end of the input a call returns io.EOF and leaves the state alone -/
theorem readPacketP_eof (s : S) (ev : List MemEv) (nw : Nat) :
    EvF readPacketP s ⟨[], ev, nw⟩ .eof s ⟨[], ev, nw⟩ := by
  rw [readPacketP_iter]
  refine EvF.bind_left (EvF.iter (EvFI.fail ?_))
  unfold hdrBody readBlock
  refine EvF.bind_left (EvF.bind_left (EvF.io ?_))
  simp [Prim.run]

/-- ReadPacketData on a written enhanced packet block of an interface the reader returns packets of -/
theorem eats_readPacketP_epb (s : S) (sp : IfaceSpec) (iface : Nat) (ts : Int) (len : Nat) (data : Bytes) (opts : PktOpts)
    (hbe : s.be = false) (hi : iface < 4294967296) (hcl : data.length ≤ len) (hl : len < 4294967296)
    (hwf : WfOpts opts) (hlt : (writeEPB iface ts len data opts).length < 4294967296)
    (hif : s.ifaces[iface]? = some (ifaceOf sp)) (hacc : s.cfg.mixed = true ∨ sp.linkType = s.linkType) :
    Eats readPacketP s (writeEPB iface ts len data opts)
      (fun p s' => p = expPkt s.cfg sp iface ts len data opts ∧ s'.core = s.core) := by
  rw [writeEPB_eq, length_blockBytes] at hlt
  rw [writeEPB_eq, blockBytes_split, readPacketP_iter]
  have hbl : (epbHead iface ts data.length len ++ epbTail data opts).length = 20 + (epbTail data opts).length := by
    rw [List.length_append, length_epbHead]
  have hLt : (epbTail data opts).length = data.length + pad4 data.length + (encOpts (pktOptList opts)).length := by
    simp only [epbTail, List.length_append, length_zeros]
  have hsplit : (putLe32 ngBlockTypeEnhancedPacket ++ putLe32 ((epbHead iface ts data.length len ++ epbTail data opts).length + 12))
        ++ (epbHead iface ts data.length len ++ epbTail data opts
              ++ putLe32 ((epbHead iface ts data.length len ++ epbTail data opts).length + 12))
      = (putLe32 ngBlockTypeEnhancedPacket ++ putLe32 ((epbHead iface ts data.length len ++ epbTail data opts).length + 12)
            ++ epbHead iface ts data.length len)
        ++ (epbTail data opts ++ putLe32 ((epbHead iface ts data.length len ++ epbTail data opts).length + 12)) := by
    simp only [List.append_assoc]
  refine Eats.bindD hsplit (a := ({ iface := iface, ts := tsRead sp.tsoff ts, caplen := data.length, len := len }, sp.linkType, sp.snaplen))
    (s1 := { s with blkTyp := ngBlockTypeEnhancedPacket, blkLen := (epbHead iface ts data.length len ++ epbTail data opts).length + 12 - 28, ci := { iface := iface, ts := tsRead sp.tsoff ts, caplen := data.length, len := len } })
    ?_ ?_
  · exact Eats.iter (EatsI.done (Eats.weaken (eats_hdrBody_epb s sp iface ts data.length len _ hbe hi hcl hl hlt
      (by rw [hbl, hLt]; omega) hif hacc) (fun st s' h => ⟨_, h.1, rfl, h.2⟩)))
  · refine Eats.weaken (eats_pktRest _ _ sp.linkType sp.snaplen data opts _ hbe rfl rfl
      (by show (epbHead iface ts data.length len ++ epbTail data opts).length + 12 - 28 = _; rw [hbl]; omega)
      (by show (epbHead iface ts data.length len ++ epbTail data opts).length + 12 - 28 < _; omega) hwf rfl) ?_
    intro p s' ⟨h1, h2⟩
    exact ⟨h1, h2⟩

end Gp.PcapNg
