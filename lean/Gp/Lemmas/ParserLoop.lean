/-
  Helper lemmas for Gp/Props/C05/Parser.lean (engine dlp): the decode loop, DecodeLayers and the
  packet chain.
-/
import Gp.Model.Parser

namespace Gp.Parser

variable {σ : Type}

/-! ### Truncated = OR of the contributions -/

theorem loop_trunc (cls : Nat → DLayer σ) (look : LType → Look) (n : Nat) (store : Nat → σ)
    (typ : LType) (i : Nat) (data : Bytes) (tr : Bool) :
    (loop cls look n store typ i data tr).trunc =
      (tr || ((loop cls look n store typ i data tr).steps.any (·.trunc)
              || stopTrunc (loop cls look n store typ i data tr).stop)) := by
  induction n generalizing store typ i data tr with
  | zero => simp [loop, stopTrunc]
  | succ n ih =>
    unfold loop
    cases hd : (cls i).decode (store i) data with
    | panic s t k => simp [stopTrunc]
    | err s t => simp [stopTrunc]
    | ok s t =>
      simp only
      by_cases he : ((cls i).payload s).isEmpty
      · simp [he, stopTrunc]
      · simp only [he]
        cases hl : look ((cls i).nextType s) with
        | missing => simp [stopTrunc]
        | panic k => simp [stopTrunc]
        | found j =>
          simp only [Bool.false_eq_true, if_false, List.any_cons]
          rw [ih]
          simp [Bool.or_assoc]

/-! ### The run does not depend on the old object states when every layer resets -/

theorem loop_indep (cls : Nat → DLayer σ) (look : LType → Look) (hr : ∀ i, Resets (cls i))
    (n : Nat) (store store' : Nat → σ) (typ : LType) (i : Nat) (data : Bytes) (tr : Bool) :
    (loop cls look n store typ i data tr).steps = (loop cls look n store' typ i data tr).steps ∧
    (loop cls look n store typ i data tr).trunc = (loop cls look n store' typ i data tr).trunc ∧
    (loop cls look n store typ i data tr).stop = (loop cls look n store' typ i data tr).stop := by
  induction n generalizing store store' typ i data tr with
  | zero => simp [loop]
  | succ n ih =>
    unfold loop
    rw [hr i (store i) (store' i) data]
    cases hd : (cls i).decode (store' i) data with
    | panic s t k => simp
    | err s t => simp
    | ok s t =>
      simp only
      by_cases he : ((cls i).payload s).isEmpty
      · simp [he]
      · simp only [he]
        cases hl : look ((cls i).nextType s) with
        | missing => simp
        | panic k => simp
        | found j =>
          simp only [Bool.false_eq_true, if_false]
          obtain ⟨h1, h2, h3⟩ := ih (upd store i s) (upd store' i s) ((cls i).nextType s) j ((cls i).payload s) (tr || t)
          exact ⟨by rw [h1], h2, h3⟩

/-! ### Termination -/

theorem loop_terminates (cls : Nat → DLayer σ) (look : LType → Look) (hp : ∀ i, Progress (cls i))
    (n : Nat) (store : Nat → σ) (typ : LType) (i : Nat) (data : Bytes) (tr : Bool)
    (hn : data.length < n) :
    (loop cls look n store typ i data tr).stop ≠ .diverge := by
  induction n generalizing store typ i data tr with
  | zero => omega
  | succ n ih =>
    unfold loop
    cases hd : (cls i).decode (store i) data with
    | panic s t k => simp
    | err s t => simp
    | ok s t =>
      simp only
      by_cases he : ((cls i).payload s).isEmpty
      · simp [he]
      · simp only [he]
        cases hl : look ((cls i).nextType s) with
        | missing => simp
        | panic k => simp
        | found j =>
          simp only [Bool.false_eq_true, if_false]
          apply ih
          have := hp i (store i) data s t hd
          omega

/-! ### The packet chain -/

theorem chain_head (reg : LType → RegEntry σ) (n : Nat) (t : LType) (d : Bytes) :
    ∃ o rest, chain reg n t d = ⟨t, o⟩ :: rest := by
  cases n with
  | zero => exact ⟨_, _, rfl⟩
  | succ n =>
    unfold chain
    cases reg t with
    | none => exact ⟨_, _, rfl⟩
    | other => exact ⟨_, _, rfl⟩
    | std c fresh aoe zs =>
      simp only
      cases c.decode fresh d with
      | panic s tr k => exact ⟨_, _, rfl⟩
      | err s tr => exact ⟨_, _, rfl⟩
      | ok s tr =>
        simp only
        split
        · split <;> exact ⟨_, _, rfl⟩
        · split <;> exact ⟨_, _, rfl⟩

theorem cut_chain_missing (reg : LType → RegEntry σ) (look : LType → Look) (n : Nat) (t : LType) (d : Bytes)
    (h : look t = .missing) : cut look (chain reg n t d) = ([], .unsupported t) := by
  obtain ⟨o, rest, hc⟩ := chain_head reg n t d
  rw [hc]; simp [cut, h]

theorem cut_chain_lookPanic (reg : LType → RegEntry σ) (look : LType → Look) (n : Nat) (t : LType) (d : Bytes)
    (k : PanicKind) (h : look t = .panic k) : cut look (chain reg n t d) = ([], .lookPanic t k) := by
  obtain ⟨o, rest, hc⟩ := chain_head reg n t d
  rw [hc]; simp [cut, h]

/-- CORE: the loop started at a type the container knows computes the cut of the packet chain. -/
theorem loop_eq_cut (cls : Nat → DLayer σ) (look : LType → Look) (reg : LType → RegEntry σ)
    (hstd : StdFor cls look reg) (hr : ∀ i, Resets (cls i)) (hz : look 0 = .missing)
    (n : Nat) (store : Nat → σ) (typ : LType) (i : Nat) (data : Bytes) (tr : Bool)
    (hl : look typ = .found i) :
    ((loop cls look n store typ i data tr).steps, (loop cls look n store typ i data tr).stop)
      = cut look (chain reg n typ data) := by
  induction n generalizing store typ i data tr with
  | zero => simp [loop, chain, cut, hl]
  | succ n ih =>
    obtain ⟨c, fresh, aoe, zs, hreg, hdec, hnext, hpay⟩ := hstd typ i hl
    unfold loop chain
    rw [hreg]
    simp only [hdec, hnext, hpay]
    rw [hr i (store i) fresh data]
    cases hd : (cls i).decode fresh data with
    | panic s t k => simp [cut, hl]
    | err s t => simp [cut, hl]
    | ok s t =>
      simp only
      by_cases he : ((cls i).payload s).isEmpty
      · simp [he, cut, hl]
      · simp only [he, Bool.false_eq_true, if_false]
        by_cases hn0 : (cls i).nextType s = 0
        · -- NextLayerType = LayerTypeZero: the parser finds no decoder for it; packet decoding stops
          -- (decodingLayerDecoder) or hands over to the decoder registered for type 0
          rw [hn0, hz]
          cases zs with
          | true => simp [cut, hl, hz]
          | false =>
            simp only [Bool.false_and, Bool.false_eq_true, if_false, cut, hl]
            rw [cut_chain_missing reg look n _ _ hz]
        · have hzs : (zs && (cls i).nextType s == 0) = false := by
            simp [hn0]
          simp only [hzs, Bool.false_eq_true, if_false]
          cases hlk : look ((cls i).nextType s) with
          | missing =>
            simp only [cut, hl]
            rw [cut_chain_missing reg look n _ _ hlk]
          | panic k =>
            simp only [cut, hl]
            rw [cut_chain_lookPanic reg look n _ _ k hlk]
          | found j =>
            simp only [cut, hl]
            have := ih (upd store i s) ((cls i).nextType s) j ((cls i).payload s) (tr || t) hlk
            rw [← this]

/-! ### Packet layers -/

def stepItem (s : Step σ) : PItem σ := .layer s.typ s.st

theorem renderGo_acc_prefix (skip : Bool) (as : List (Att σ)) (acc : List (PItem σ)) (tr : Bool)
    (ls : List (PItem σ)) (tr' : Bool) (h : renderGo skip as acc tr = .pkt ls tr') : acc <+: ls := by
  induction as generalizing acc tr with
  | nil => simp [renderGo] at h; rw [← h.1]; exact List.prefix_refl _
  | cons a rest ih =>
    unfold renderGo at h
    cases ho : a.out with
    | ok st t =>
      simp only [ho] at h
      exact List.IsPrefix.trans (List.prefix_append _ _) (ih _ _ h)
    | err st t kept =>
      simp only [ho, PktRes.pkt.injEq] at h
      rw [← h.1, List.append_assoc]; exact List.prefix_append _ _
    | panic st t k =>
      simp only [ho] at h
      by_cases hs : skip = true
      · simp [hs] at h
      · simp only [hs, Bool.false_eq_true, if_false, PktRes.pkt.injEq] at h
        rw [← h.1]; exact List.prefix_append _ _
    | noDecoder =>
      simp only [ho, PktRes.pkt.injEq] at h
      rw [← h.1]; exact List.prefix_append _ _
    | zeroStop =>
      simp only [ho, PktRes.pkt.injEq] at h
      rw [← h.1]; exact List.prefix_refl _
    | other => simp [ho] at h
    | diverge => simp [ho] at h

/-- The run cut out of the chain is a prefix of what NewPacket's Layers() shows. -/
theorem cut_prefix_render (look : LType → Look) (skip : Bool) (as : List (Att σ)) (acc : List (PItem σ)) (tr : Bool)
    (ls : List (PItem σ)) (tr' : Bool) (h : renderGo skip as acc tr = .pkt ls tr') :
    acc ++ (cut look as).1.map stepItem <+: ls := by
  induction as generalizing acc tr with
  | nil =>
    simp [renderGo] at h
    simp [cut, h.1]
  | cons a rest ih =>
    have hacc := renderGo_acc_prefix skip (a :: rest) acc tr ls tr' h
    unfold cut
    cases hl : look a.typ with
    | missing => simpa using hacc
    | panic k => simpa using hacc
    | found j =>
      simp only
      cases ho : a.out with
      | ok st t =>
        simp only
        unfold renderGo at h
        simp only [ho] at h
        have := ih _ _ h
        simpa [stepItem, List.append_assoc] using this
      | err st t kept => simpa using hacc
      | panic st t k => simpa using hacc
      | noDecoder => simpa using hacc
      | zeroStop => simpa using hacc
      | other => simpa using hacc
      | diverge => simpa using hacc

/-- Truncated contributions of a cut are contributions of the chain. -/
theorem cut_trunc_le (look : LType → Look) (as : List (Att σ)) :
    (((cut look as).1.any (·.trunc)) || stopTrunc (cut look as).2) = true → chainTrunc as = true := by
  induction as with
  | nil => simp [cut, stopTrunc]
  | cons a rest ih =>
    have hct : chainTrunc (a :: rest) = (attTrunc a.out || chainTrunc rest) := by simp [chainTrunc]
    rw [hct]
    unfold cut
    cases hl : look a.typ with
    | missing => simp [stopTrunc]
    | panic k => simp [stopTrunc]
    | found j =>
      simp only
      cases ho : a.out with
      | ok st t =>
        simp only [List.any_cons, attTrunc]
        intro h
        cases t with
        | true => simp
        | false =>
          simp only [Bool.false_or] at h ⊢
          exact ih h
      | err st t kept =>
        simp only [stopTrunc, attTrunc, List.any_nil, Bool.false_or]
        intro h; simp [h]
      | panic st t k =>
        simp only [stopTrunc, attTrunc, List.any_nil, Bool.false_or]
        intro h; simp [h]
      | noDecoder => simp [stopTrunc]
      | zeroStop => simp [stopTrunc]
      | other => simp [stopTrunc]
      | diverge => simp [stopTrunc]

/-- Metadata().Truncated only accumulates. -/
theorem renderGo_trunc_mono (skip : Bool) (as : List (Att σ)) (acc : List (PItem σ))
    (ls : List (PItem σ)) (tr' : Bool) (h : renderGo skip as acc true = .pkt ls tr') : tr' = true := by
  induction as generalizing acc with
  | nil => simp [renderGo] at h; exact h.2
  | cons a rest ih =>
    unfold renderGo at h
    cases ho : a.out with
    | ok st t => simp only [ho, Bool.true_or] at h; exact ih _ h
    | err st t kept => simp only [ho, Bool.true_or, PktRes.pkt.injEq] at h; exact h.2.symm
    | panic st t k =>
      simp only [ho] at h
      by_cases hs : skip = true
      · simp [hs] at h
      · simp only [hs, Bool.false_eq_true, if_false, Bool.true_or, PktRes.pkt.injEq] at h; exact h.2.symm
    | noDecoder => simp only [ho, PktRes.pkt.injEq] at h; exact h.2.symm
    | zeroStop => simp only [ho, PktRes.pkt.injEq] at h; exact h.2.symm
    | other => simp [ho] at h
    | diverge => simp [ho] at h

/-- If a layer of the run (or the attempt that ended it) reported truncation, the packet's metadata
    says truncated as well. -/
theorem cut_trunc_render (look : LType → Look) (skip : Bool) (as : List (Att σ)) (acc : List (PItem σ)) (tr : Bool)
    (ls : List (PItem σ)) (tr' : Bool) (h : renderGo skip as acc tr = .pkt ls tr')
    (ht : (tr || (((cut look as).1.any (·.trunc)) || stopTrunc (cut look as).2)) = true) : tr' = true := by
  induction as generalizing acc tr with
  | nil =>
    simp [renderGo] at h
    simp [cut, stopTrunc] at ht
    rw [← h.2]; exact ht
  | cons a rest ih =>
    cases tr with
    | true => exact renderGo_trunc_mono skip _ acc ls tr' h
    | false =>
      simp only [Bool.false_or] at ht
      unfold cut at ht
      unfold renderGo at h
      cases hl : look a.typ with
      | missing => simp [hl, stopTrunc] at ht
      | panic k => simp [hl, stopTrunc] at ht
      | found j =>
        simp only [hl] at ht
        cases ho : a.out with
        | ok st t =>
          simp only [ho, List.any_cons, Bool.false_or] at ht h
          exact ih _ _ h (by simpa [Bool.or_assoc] using ht)
        | err st t kept =>
          simp only [ho, stopTrunc, List.any_nil, Bool.false_or] at ht h
          simp only [PktRes.pkt.injEq] at h
          rw [← h.2]; exact ht
        | panic st t k =>
          simp only [ho, stopTrunc, List.any_nil, Bool.false_or] at ht h
          by_cases hs : skip = true
          · simp [hs] at h
          · simp only [hs, Bool.false_eq_true, if_false, PktRes.pkt.injEq] at h
            rw [← h.2]; exact ht
        | noDecoder => simp [ho, stopTrunc] at ht
        | zeroStop => simp [ho, stopTrunc] at ht
        | other => simp [ho, stopTrunc] at ht
        | diverge => simp [ho, stopTrunc] at ht

theorem retOf_diverge (o : Opts) (s : Stop σ) : retOf o s = .diverge ↔ s = .diverge := by
  cases s <;> simp [retOf]
  · split <;> (try split) <;> simp
  · split <;> simp
  · split <;> simp

end Gp.Parser
