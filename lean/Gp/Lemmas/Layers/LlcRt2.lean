import Gp.Lemmas.Layers.LlcRt
/-
  Helper lemmas for engine `lllc`, part 8: decoding what STP.SerializeTo wrote; decoded BPDUs are
  well-formed.
-/
namespace Gp.Llc
open Gp Gp.SBuf Gp.C18 Gp.Gen.Llc

theorem six_of_length (x : Bytes) (h : x.length = 6) : ∃ a b c d e f, x = [a, b, c, d, e, f] := by
  match x, h with
  | [a, b, c, d, e, f], _ => exact ⟨a, b, c, d, e, f, rfl⟩

theorem padHw_of_six (hw : Bytes) (h : hw.length = 6) : padHw hw = hw := by
  obtain ⟨a, b, c, d, e, f, rfl⟩ := six_of_length hw h
  rfl

/-- The switch-id word `priority | sysID` decodes back into its two parts. -/
theorem switch_word (s : SwitchID) (hw : wfSwitch s) :
    let v := s.priority ||| s.sysID
    v < 65536 ∧ v &&& 0xf000 = s.priority ∧ v &&& 0x0fff = s.sysID := by
  obtain ⟨hp, hlt, hs, -⟩ := hw
  intro v
  have ev : v = s.priority + s.sysID := prio_or_sys _ _ hp hs
  rw [ev, and_f000, and_0fff]
  omega

theorem stpHdr_length (l : STP) (h1 : l.routeID.hwAddr.length = 6) (h2 : l.bridgeID.hwAddr.length = 6) :
    (stpHdr l).length = 35 := by
  unfold stpHdr
  rw [padHw_of_six _ h1, padHw_of_six _ h2]
  simp only [List.length_append, putBe16_length, putBe32_length, List.length_singleton, h1, h2]

/-- Reading the fields of a BPDU out of 35 explicit bytes (pure list computation on opaque bytes). -/
theorem read35 (x0 x1 x2 x3 x4 x5 x6 x7 x8 x9 x10 x11 x12 x13 x14 x15 x16 x17 x18 x19 x20 x21 x22 x23 x24
    x25 x26 x27 x28 x29 x30 x31 x32 x33 x34 : UInt8) (p : Bytes) :
    let H := [x0, x1, x2, x3, x4, x5, x6, x7, x8, x9, x10, x11, x12, x13, x14, x15, x16, x17, x18, x19, x20,
              x21, x22, x23, x24, x25, x26, x27, x28, x29, x30, x31, x32, x33, x34]
    stpDecSpec (H ++ p) =
      { layer :=
          { contents := H, payload := p,
            protocolID := be16 x0 x1, version := x2.toNat, type := x3.toNat,
            tc := (x4.toNat &&& 0x01 != 0), tca := (x4.toNat &&& 0x80 != 0),
            routeID := { priority := be16 x5 x6 &&& 0xf000, sysID := be16 x5 x6 &&& 0x0fff,
                         hwAddr := [x7, x8, x9, x10, x11, x12] },
            cost := be32 x13 x14 x15 x16,
            bridgeID := { priority := be16 x17 x18 &&& 0xf000, sysID := be16 x17 x18 &&& 0x0fff,
                          hwAddr := [x19, x20, x21, x22, x23, x24] },
            portID := be16 x25 x26, messageAge := be16 x27 x28, maxAge := be16 x29 x30,
            helloTime := be16 x31 x32, fDelay := be16 x33 x34 },
        trunc := false, err := false } := by
  intro H
  rfl

theorem stpDecSpec_frame (l : STP) (p : Bytes) (hw : wfStp l) :
    stpDecSpec (stpHdr l ++ p) =
      { layer := { l with contents := stpHdr l, payload := p }, trunc := false, err := false } := by
  obtain ⟨hpid, hver, hty, hr, hcost, hb, hport, hage, hmax, hhello, hfd⟩ := hw
  obtain ⟨rv, rp, rs⟩ := switch_word l.routeID hr
  obtain ⟨bv, bp, bs⟩ := switch_word l.bridgeID hb
  obtain ⟨ft, fa⟩ := flag_bits l.tc l.tca
  obtain ⟨c, pl, pid, ver, ty, tc, tca, ⟨rprio, rsys, rhw⟩, ⟨bprio, bsys, bhw⟩, cost, port, age, mx, hello, fd⟩ := l
  simp only at hpid hver hty hr hcost hb hport hage hmax hhello hfd rv rp rs bv bp bs ft fa ⊢
  obtain ⟨r0, r1, r2, r3, r4, r5, rfl⟩ := six_of_length rhw hr.2.2.2
  obtain ⟨b0, b1, b2, b3, b4, b5, rfl⟩ := six_of_length bhw hb.2.2.2
  have hH : stpHdr (STP.mk c pl pid ver ty tc tca ⟨rprio, rsys, [r0, r1, r2, r3, r4, r5]⟩
      ⟨bprio, bsys, [b0, b1, b2, b3, b4, b5]⟩ cost port age mx hello fd) =
      [u8 (pid / 256), u8 pid, u8 ver, u8 ty,
       u8 (if tca then (if tc then 0x00 ||| 0x01 else 0x00) ||| 0x80 else (if tc then 0x00 ||| 0x01 else 0x00)),
       u8 ((rprio ||| rsys) / 256), u8 (rprio ||| rsys), r0, r1, r2, r3, r4, r5,
       u8 (cost / 16777216), u8 (cost / 65536), u8 (cost / 256), u8 cost,
       u8 ((bprio ||| bsys) / 256), u8 (bprio ||| bsys), b0, b1, b2, b3, b4, b5,
       u8 (port / 256), u8 port, u8 (age / 256), u8 age, u8 (mx / 256), u8 mx,
       u8 (hello / 256), u8 hello, u8 (fd / 256), u8 fd] := rfl
  rw [hH, read35]
  rw [be16_putBe16 _ hpid, be16_putBe16 _ rv, be16_putBe16 _ bv, be32_putBe32 _ hcost, be16_putBe16 _ hport,
    be16_putBe16 _ hage, be16_putBe16 _ hmax, be16_putBe16 _ hhello, be16_putBe16 _ hfd, u8_toNat, u8_toNat,
    Nat.mod_eq_of_lt hver, Nat.mod_eq_of_lt hty, ft, fa, rp, rs, bp, bs]

/-- Every successfully decoded BPDU is well-formed. -/
theorem stpDecSpec_wf (v : Bytes) (h : 35 ≤ v.length) : wfStp (stpDecSpec v).layer := by
  unfold stpDecSpec wfStp wfSwitch
  simp only
  have h5 := u16At_lt v 5
  have h17 := u16At_lt v 17
  rw [and_f000, and_f000, and_0fff, and_0fff]
  refine ⟨u16At_lt v 0, byteAt_lt v 2, byteAt_lt v 3, ⟨by omega, by omega, by omega, ?_⟩, u32At_lt v 13,
    ⟨by omega, by omega, by omega, ?_⟩, u16At_lt v 25, u16At_lt v 27, u16At_lt v 29, u16At_lt v 31, u16At_lt v 33⟩
  · rw [List.length_take, List.length_drop]; omega
  · rw [List.length_take, List.length_drop]; omega

end Gp.Llc
