import Gp.Lemmas.Layers.LlcRt
/-
  Helper lemmas for engine `lllc`, part 8: decoding what STP.SerializeTo wrote; decoded BPDUs are
  well-formed.
-/
namespace Gp.Llc
open Gp Gp.SBuf Gp.C18 Gp.Gen.Llc

theorem six_of_length (x : Bytes) (h : x.length = 6) : ∃ a b c d e f, x = [a, b, c, d, e, f] := by
  match x, h with
  | [a, b, c, d, e, f], _ => exact ⟨a, b, c, d, e, f, rfl⟩

theorem padHw_of_six (hw : Bytes) (h : hw.length = 6) : padHw hw = hw := by
  obtain ⟨a, b, c, d, e, f, rfl⟩ := six_of_length hw h
  rfl

/-- The switch-id word `priority | sysID` decodes back into its two parts. -/
theorem switch_word (s : SwitchID) (hw : wfSwitch s) :
    let v := s.priority ||| s.sysID
    v < 65536 ∧ v &&& 0xf000 = s.priority ∧ v &&& 0x0fff = s.sysID := by
  obtain ⟨hp, hlt, hs, -⟩ := hw
  intro v
  have ev : v = s.priority + s.sysID := prio_or_sys _ _ hp hs
  rw [ev, and_f000, and_0fff]
  omega

theorem stpHdr_length (l : STP) (h1 : l.routeID.hwAddr.length = 6) (h2 : l.bridgeID.hwAddr.length = 6) :
    (stpHdr l).length = 35 := by
  unfold stpHdr
  rw [padHw_of_six _ h1, padHw_of_six _ h2]
  simp only [List.length_append, putBe16_length, putBe32_length, List.length_singleton, h1, h2]

theorem stpDecSpec_frame (l : STP) (p : Bytes) (hw : wfStp l) :
    stpDecSpec (stpHdr l ++ p) =
      { layer := { l with contents := stpHdr l, payload := p }, trunc := false, err := false } := by
  obtain ⟨hpid, hver, hty, hr, hcost, hb, hport, hage, hmax, hhello, hfd⟩ := hw
  have hlen := stpHdr_length l hr.2.2.2 hb.2.2.2
  obtain ⟨rv, rp, rs⟩ := switch_word l.routeID hr
  obtain ⟨bv, bp, bs⟩ := switch_word l.bridgeID hb
  obtain ⟨ft, fa⟩ := flag_bits l.tc l.tca
  obtain ⟨c, pl, pid, ver, ty, tc, tca, ⟨rprio, rsys, rhw⟩, ⟨bprio, bsys, bhw⟩, cost, port, age, mx, hello, fd⟩ := l
  simp only at hpid hver hty hr hcost hb hport hage hmax hhello hfd hlen rv rp rs bv bp bs ft fa ⊢
  obtain ⟨r0, r1, r2, r3, r4, r5, rfl⟩ := six_of_length rhw hr.2.2.2
  obtain ⟨b0, b1, b2, b3, b4, b5, rfl⟩ := six_of_length bhw hb.2.2.2
  generalize hS : STP.mk c pl pid ver ty tc tca ⟨rprio, rsys, [r0, r1, r2, r3, r4, r5]⟩
    ⟨bprio, bsys, [b0, b1, b2, b3, b4, b5]⟩ cost port age mx hello fd = L at hlen ⊢
  have e0 : u16At (stpHdr L ++ p) 0 = be16 (u8 (pid / 256)) (u8 pid) := by subst hS; rfl
  have e2 : byteAt (stpHdr L ++ p) 2 = (u8 ver).toNat := by subst hS; rfl
  have e3 : byteAt (stpHdr L ++ p) 3 = (u8 ty).toNat := by subst hS; rfl
  have e4 : byteAt (stpHdr L ++ p) 4 =
      (u8 (if tca then (if tc then 0x00 ||| 0x01 else 0x00) ||| 0x80 else (if tc then 0x00 ||| 0x01 else 0x00))).toNat := by
    subst hS; rfl
  have e5 : u16At (stpHdr L ++ p) 5 = be16 (u8 ((rprio ||| rsys) / 256)) (u8 (rprio ||| rsys)) := by subst hS; rfl
  have e7 : ((stpHdr L ++ p).drop 7).take 6 = [r0, r1, r2, r3, r4, r5] := by subst hS; rfl
  have e13 : u32At (stpHdr L ++ p) 13 =
      be32 (u8 (cost / 16777216)) (u8 (cost / 65536)) (u8 (cost / 256)) (u8 cost) := by subst hS; rfl
  have e17 : u16At (stpHdr L ++ p) 17 = be16 (u8 ((bprio ||| bsys) / 256)) (u8 (bprio ||| bsys)) := by subst hS; rfl
  have e19 : ((stpHdr L ++ p).drop 19).take 6 = [b0, b1, b2, b3, b4, b5] := by subst hS; rfl
  have e25 : u16At (stpHdr L ++ p) 25 = be16 (u8 (port / 256)) (u8 port) := by subst hS; rfl
  have e27 : u16At (stpHdr L ++ p) 27 = be16 (u8 (age / 256)) (u8 age) := by subst hS; rfl
  have e29 : u16At (stpHdr L ++ p) 29 = be16 (u8 (mx / 256)) (u8 mx) := by subst hS; rfl
  have e31 : u16At (stpHdr L ++ p) 31 = be16 (u8 (hello / 256)) (u8 hello) := by subst hS; rfl
  have e33 : u16At (stpHdr L ++ p) 33 = be16 (u8 (fd / 256)) (u8 fd) := by subst hS; rfl
  unfold stpDecSpec
  rw [e0, e2, e3, e4, e5, e7, e13, e17, e19, e25, e27, e29, e31, e33, List.take_left' hlen, List.drop_left' hlen,
    be16_putBe16 _ hpid, be16_putBe16 _ rv, be16_putBe16 _ bv, be32_putBe32 _ hcost, be16_putBe16 _ hport,
    be16_putBe16 _ hage, be16_putBe16 _ hmax, be16_putBe16 _ hhello, be16_putBe16 _ hfd, u8_toNat, u8_toNat,
    Nat.mod_eq_of_lt hver, Nat.mod_eq_of_lt hty, ft, fa, rp, rs, bp, bs]
  subst hS
  rfl

/-- Every successfully decoded BPDU is well-formed. -/
theorem stpDecSpec_wf (v : Bytes) (h : 35 ≤ v.length) : wfStp (stpDecSpec v).layer := by
  unfold stpDecSpec wfStp wfSwitch
  simp only
  have h5 := u16At_lt v 5
  have h17 := u16At_lt v 17
  rw [and_f000, and_f000, and_0fff, and_0fff]
  refine ⟨u16At_lt v 0, byteAt_lt v 2, byteAt_lt v 3, ⟨by omega, by omega, by omega, ?_⟩, u32At_lt v 13,
    ⟨by omega, by omega, by omega, ?_⟩, u16At_lt v 25, u16At_lt v 27, u16At_lt v 29, u16At_lt v 31, u16At_lt v 33⟩
  · rw [List.length_take, List.length_drop]; omega
  · rw [List.length_take, List.length_drop]; omega

end Gp.Llc
