import Gp.Lemmas.Layers.RadiusSer
/-
  Helper lemmas for engine `lradius`, part 3: decode ∘ encode (round trip, C06).  Core Lean only.

  Section 1 holds the *definitions* used in property statements (`wfRadius`, `fixAttrs`,
  `RadiusEquiv`); the rest is proof machinery.
-/
namespace Gp.Radius
open Gp Gp.SBuf Gp.C18 Gp.Gen.Radius

/-! ## 1. Definitions used in property statements -/

/-- In-range attribute: a type octet, a value of 1..253 bytes (what fits the one-octet Length that counts
    Type and Length too; an EMPTY value is written but skipped by the decoder — not in range).  The
    Length FIELD is free: FixLengths sets it. -/
def wfAttr (a : Attr) : Prop := a.typ < 256 ∧ 1 ≤ a.value.length ∧ a.value.length ≤ 253

instance (a : Attr) : Decidable (wfAttr a) := by unfold wfAttr; infer_instance

def wfAttrs : List Attr → Prop
  | [] => True
  | a :: rest => wfAttr a ∧ wfAttrs rest

instance wfAttrsDec : (as : List Attr) → Decidable (wfAttrs as)
  | [] => isTrue trivial
  | a :: rest =>
    have := wfAttrsDec rest
    by unfold wfAttrs; infer_instance

/-- In-range RADIUS layer: uint8 Code / Identifier, the 16 authenticator bytes, in-range attributes, and
    a message of at most 4096 bytes (RFC 2865 §3; the decoder rejects more).  `Length` is free:
    FixLengths sets it. -/
def wfRadius (l : RADIUS) : Prop :=
  l.code < 256 ∧ l.identifier < 256 ∧ l.authenticator.length = 16 ∧ wfAttrs l.attributes ∧
    20 + attrsWidth l.attributes ≤ 4096

instance (l : RADIUS) : Decidable (wfRadius l) := by unfold wfRadius; infer_instance

/-- The attributes as the decoder reports them after a FixLengths serialization. -/
def fixAttrs : List Attr → List Attr
  | [] => []
  | a :: rest => { a with length := a.value.length + 2 } :: fixAttrs rest

/-- The layer a FixLengths serialization describes (ignores Contents / Payload). -/
def radiusWant (l : RADIUS) : RADIUS :=
  { l with length := 20 + attrsWidth l.attributes, attributes := fixAttrs l.attributes }

/-- `≈`: all public fields except Contents/Payload; Attributes compared in order. -/
def RadiusEquiv (x y : RADIUS) : Prop :=
  x.code = y.code ∧ x.identifier = y.identifier ∧ x.length = y.length ∧ x.authenticator = y.authenticator ∧
    x.attributes = y.attributes

/-! ## 2. Bytes -/

theorem u8_toNat (n : Nat) : (u8 n).toNat = n % 256 := by
  simp [u8]

theorem be16_putBe16 (n : Nat) (h : n < 65536) : be16 (u8 (n / 256)) (u8 n) = n := by
  unfold be16; rw [u8_toNat, u8_toNat]; omega

theorem eapPayload_fix : ∀ as : List Attr, eapPayload (fixAttrs as) = eapPayload as := by
  intro as
  induction as with
  | nil => rfl
  | cons a rest ih => simp only [fixAttrs, eapPayload, ih]

theorem attrsWidth_fix : ∀ as : List Attr, attrsWidth (fixAttrs as) = attrsWidth as := by
  intro as
  induction as with
  | nil => rfl
  | cons a rest ih => simp only [fixAttrs, attrsWidth, ih]

theorem wfAttrs_valsOk : ∀ as : List Attr, wfAttrs as → valsOk .fixed as := by
  intro as
  induction as with
  | nil => intro _; trivial
  | cons a rest ih => intro h; exact ⟨h.1.2.2, ih h.2⟩

/-! ## 3. The attribute loop reads back what the attribute writer wrote -/

theorem parse_attrsBytes : ∀ (as : List Attr) (fuel : Nat), wfAttrs as → attrsWidth as ≤ fuel →
    parseAttrs fuel (attrsBytes .fixed true as) = (fixAttrs as, false) := by
  intro as
  induction as with
  | nil =>
    intro fuel _ _
    cases fuel <;> simp [attrsBytes, parseAttrs, fixAttrs]
  | cons a rest ih =>
    intro fuel hw hf
    obtain ⟨⟨ht, h1, h253⟩, hr⟩ := hw
    simp only [attrsWidth] at hf
    match fuel with
    | 0 => omega
    | f + 1 =>
      have hlb : lenByteOf .fixed true a = a.value.length + 2 := by
        unfold lenByteOf
        simp only [if_true]
        exact Nat.mod_eq_of_lt (by omega)
      have hcons : attrsBytes .fixed true (a :: rest) =
          u8 a.typ :: u8 (a.value.length + 2) :: (a.value ++ attrsBytes .fixed true rest) := by
        simp [attrsBytes, attrBytes, hlb]
      rw [hcons, parseAttrs]
      have hl : (u8 (a.value.length + 2)).toNat = a.value.length + 2 := by
        rw [u8_toNat]; exact Nat.mod_eq_of_lt (by omega)
      have htt : (u8 a.typ).toNat = a.typ := by rw [u8_toNat]; exact Nat.mod_eq_of_lt ht
      simp only [hl, htt, List.length_append]
      rw [if_neg (by omega), if_neg (by omega), if_pos (by omega)]
      have hd : (a.value ++ attrsBytes .fixed true rest).drop (a.value.length + 2 - 2) = attrsBytes .fixed true rest := by
        rw [Nat.add_sub_cancel]; exact List.drop_left' rfl
      have htk : (a.value ++ attrsBytes .fixed true rest).take (a.value.length + 2 - 2) = a.value := by
        rw [Nat.add_sub_cancel]; exact List.take_left' rfl
      rw [hd, htk, ih f hr (by omega)]
      simp [fixAttrs]

/-! ## 4. decode (encode l ++ P) -/

/-- Decoding what SerializeTo(FixLengths) wrote in front of `P`, into any receiver: no error; the
    layer is `radiusWant l` with Contents = all the bytes and Payload = the EAP-Message values; the
    truncation flag is set exactly when bytes follow the message. -/
theorem decSpec_encode (old l : RADIUS) (P : Bytes) (hw : wfRadius l)
    (hP : 20 + attrsWidth l.attributes + P.length ≤ 4096) :
    decSpec .fixed old (radiusEncode .fixed true (radiusFixed l (20 + attrsWidth l.attributes) true) ++ P) =
      { layer := { radiusWant l with
                     contents := radiusEncode .fixed true (radiusFixed l (20 + attrsWidth l.attributes) true) ++ P,
                     payload := eapPayload l.attributes },
        trunc := decide (0 < P.length), err := false } := by
  obtain ⟨hc, hi, ha, hat, htot⟩ := hw
  generalize hplen : 20 + attrsWidth l.attributes = plen at hP htot ⊢
  have hmod : plen % 65536 = plen := Nat.mod_eq_of_lt (by omega)
  have hE : radiusEncode .fixed true (radiusFixed l plen true) =
      u8 l.code :: u8 l.identifier :: u8 (plen / 256) :: u8 plen :: (l.authenticator ++ attrsBytes .fixed true l.attributes) := by
    simp [radiusEncode, radiusFixed, hdrBytes, putBe16, hmod]
  generalize hEdef : radiusEncode .fixed true (radiusFixed l plen true) = E at hE ⊢
  have hEl : E.length = plen := by
    rw [hE]; simp [attrsBytes_length, ha]; omega
  have hvl : (E ++ P).length = plen + P.length := by rw [List.length_append, hEl]
  have hb0 : byteAt (E ++ P) 0 = u8 l.code := by rw [hE]; rfl
  have hb1 : byteAt (E ++ P) 1 = u8 l.identifier := by rw [hE]; rfl
  have hlen : u16At (E ++ P) 2 = plen := by
    have : u16At (E ++ P) 2 = be16 (u8 (plen / 256)) (u8 plen) := by rw [hE]; rfl
    rw [this, be16_putBe16 _ (by omega)]
  have htake : (E ++ P).take plen = E := by rw [← hEl]; exact List.take_left' rfl
  have hauth : (E.drop 4).take 16 = l.authenticator := by
    rw [hE]
    simp only [List.drop_succ_cons, List.drop_zero]
    rw [← ha]; exact List.take_left' rfl
  have hattrs : E.drop 20 = attrsBytes .fixed true l.attributes := by
    rw [hE]
    simp only [List.drop_succ_cons]
    exact List.drop_left' ha
  unfold decSpec
  rw [if_neg (by rw [hvl]; omega), if_neg (by rw [hvl]; omega)]
  simp only [hdrOf, hlen, hb0, hb1]
  have hno : ¬ (plen > 4096 ∨ plen < 20 ∨ plen > (E ++ P).length) := by rw [hvl]; omega
  simp only [hno, if_false, htake, hauth, hattrs]
  rw [parse_attrsBytes l.attributes plen hat (by omega)]
  have hcut : decide (plen < (E ++ P).length) = decide (0 < P.length) := by
    rw [hvl]; apply decide_eq_decide.mpr; omega
  have hcode : (u8 l.code).toNat = l.code := by rw [u8_toNat]; exact Nat.mod_eq_of_lt hc
  have hid : (u8 l.identifier).toNat = l.identifier := by rw [u8_toNat]; exact Nat.mod_eq_of_lt hi
  by_cases h20 : plen = 20
  · have hnil : l.attributes = [] := by
      cases hl : l.attributes with
      | nil => rfl
      | cons a rest => rw [hl] at hplen; simp only [attrsWidth] at hplen; omega
    simp only [h20, if_true, radiusWant, hnil, fixAttrs, eapPayload, hcode, hid, attrsWidth]
    rw [← h20, hcut]
    simp
  · simp only [h20, if_false, Bool.false_eq_true, List.nil_append, radiusWant, eapPayload_fix, hcode, hid, hplen]
    rw [hcut]

/-- Every successfully decoded layer is in range. -/
theorem parseAttrs_wf : ∀ (fuel : Nat) (bs : Bytes), wfAttrs (parseAttrs fuel bs).1 ∧
    ((parseAttrs fuel bs).2 = false → bs.length ≤ fuel → attrsWidth (parseAttrs fuel bs).1 ≤ bs.length) := by
  intro fuel
  induction fuel with
  | zero => intro bs; simp [parseAttrs, wfAttrs, attrsWidth]
  | succ fuel ih =>
    intro bs
    match bs with
    | [] => simp [parseAttrs, wfAttrs, attrsWidth]
    | [_] => simp [parseAttrs, wfAttrs]
    | t :: l :: body =>
      simp only [parseAttrs]
      obtain ⟨ih1, ih2⟩ := ih (body.drop (l.toNat - 2))
      by_cases hbig : l.toNat > body.length + 2
      · simp [hbig, wfAttrs]
      · by_cases hsmall : l.toNat < 2
        · simp [hbig, hsmall, wfAttrs]
        · simp only [hbig, hsmall, if_false]
          have hl256 : l.toNat < 256 := UInt8.toNat_lt _
          by_cases hgt : l.toNat > 2
          · simp only [hgt, if_true]
            refine ⟨⟨⟨UInt8.toNat_lt _, ?_, ?_⟩, ih1⟩, ?_⟩
            · simp only [List.length_take]; omega
            · simp only [List.length_take]; omega
            · intro he hf
              have := ih2 he (by rw [List.length_drop]; simp at hf; omega)
              rw [List.length_drop] at this
              simp only [attrsWidth, List.length_take, List.length_cons]
              omega
          · simp only [hgt, if_false]
            refine ⟨ih1, ?_⟩
            intro he hf
            have := ih2 he (by rw [List.length_drop]; simp at hf; omega)
            rw [List.length_drop] at this
            simp only [List.length_cons]
            omega

/-- Decoded attributes carry `Length = len(Value) + 2`: FixLengths changes nothing on them. -/
theorem parseAttrs_fixed : ∀ (fuel : Nat) (bs : Bytes), fixAttrs (parseAttrs fuel bs).1 = (parseAttrs fuel bs).1 := by
  intro fuel
  induction fuel with
  | zero => intro bs; simp [parseAttrs, fixAttrs]
  | succ fuel ih =>
    intro bs
    match bs with
    | [] => simp [parseAttrs, fixAttrs]
    | [_] => simp [parseAttrs, fixAttrs]
    | t :: l :: body =>
      simp only [parseAttrs]
      by_cases hbig : l.toNat > body.length + 2
      · simp [hbig, fixAttrs]
      · by_cases hsmall : l.toNat < 2
        · simp [hbig, hsmall, fixAttrs]
        · simp only [hbig, hsmall, if_false]
          by_cases hgt : l.toNat > 2
          · simp only [hgt, if_true, fixAttrs, ih]
            congr 2
            simp only [List.length_take]; omega
          · simp only [hgt, if_false, ih]

theorem decoded_wfRadius (old : RADIUS) (v : Bytes) (h : (decSpec .fixed old v).err = false) :
    wfRadius (decSpec .fixed old v).layer ∧
    20 + attrsWidth (decSpec .fixed old v).layer.attributes ≤ (decSpec .fixed old v).layer.length ∧
    fixAttrs (decSpec .fixed old v).layer.attributes = (decSpec .fixed old v).layer.attributes := by
  obtain ⟨h20, hle, h4096, -, hlen, hcode, hid, hauth, hattrs, herr, -, -⟩ := decSpec_ok old v h
  obtain ⟨w1, w2⟩ := parseAttrs_wf (u16At v 2) ((v.take (u16At v 2)).drop 20)
  have hdl : ((v.take (u16At v 2)).drop 20).length = u16At v 2 - 20 := by
    rw [List.length_drop, List.length_take]; omega
  have hwidth := w2 herr (by rw [hdl]; omega)
  rw [hdl] at hwidth
  refine ⟨⟨?_, ?_, ?_, ?_, ?_⟩, ?_, ?_⟩
  · rw [hcode]; exact UInt8.toNat_lt _
  · rw [hid]; exact UInt8.toNat_lt _
  · rw [hauth, List.length_take, List.length_drop, List.length_take]; omega
  · rw [hattrs]; exact w1
  · rw [hattrs]; omega
  · rw [hattrs, hlen]; omega
  · rw [hattrs]; exact parseAttrs_fixed _ _

end Gp.Radius
