import Gp.Model.Layers.RmcpMdp
import Gp.Lemmas.Layers.Rmcp
/-
  Helper lemmas for engine `lrmcp`, part 4: the MDP TLV loop.  Core Lean only.
-/
namespace Gp.Rmcp
open Gp Gp.SBuf Gp.Gen.Rmcp

/-! ## Definitions used in property statements -/

/-- An MDP value without its BaseLayer (Contents/Payload are the only fields a failed decode does not reset). -/
def mdpCore (m : MDP) : MDP := { m with contents := [], payload := [] }

/-- What the end of a successful `MDP.DecodeFromBytes` does: `m.BaseLayer = BaseLayer{Contents: data, Payload: nil}`. -/
def mdpFinish (m : MDP) (v : Bytes) : MDP := { m with contents := v, payload := [] }

/-! ## Proof machinery -/

theorem mdpAssign_length (m : MDP) (t : Nat) (v : Bytes) : (mdpAssign m t v).length = m.length := by
  unfold mdpAssign
  repeat' split
  all_goals rfl

theorem mdpAssign_core (m : MDP) (t : Nat) (v : Bytes) : mdpCore (mdpAssign m t v) = mdpAssign (mdpCore m) t v := by
  unfold mdpAssign
  repeat' split
  all_goals rfl

theorem mdpAssign_base (m : MDP) (t : Nat) (v : Bytes) :
    (mdpAssign m t v).contents = m.contents ∧ (mdpAssign m t v).payload = m.payload := by
  unfold mdpAssign
  repeat' split
  all_goals exact ⟨rfl, rfl⟩

/-- One iteration of the TLV loop in terms of the visible bytes. -/
theorem mdpLoop_succ (fuel : Nat) (m : MDP) (d : GSlice) (off : Nat) (hm : m.length = d.len) :
    mdpLoop (fuel + 1) m d off =
      if off ≥ m.length then .ok { layer := mdpFinish m d.vis, trunc := false, err := false }
      else if (byteAt d.vis off).toNat = mdpTlvEnd then mdpLoop fuel m d m.length
      else if off + 2 > m.length then .ok { layer := m, trunc := true, err := true }
      else if off + 2 + (byteAt d.vis (off + 1)).toNat > m.length then .ok { layer := m, trunc := true, err := true }
      else mdpLoop fuel (mdpAssign m (byteAt d.vis off).toNat ((d.vis.drop (off + 2)).take (byteAt d.vis (off + 1)).toNat)) d
             (off + 2 + (byteAt d.vis (off + 1)).toNat) := by
  conv => lhs; unfold mdpLoop
  by_cases h1 : off ≥ m.length
  · rw [if_pos h1, if_pos h1, GSlice.sliceFrom_ok d 0 (Nat.zero_le _), Res.bind_ok]
    simp only [List.drop_zero, pure, mdpFinish]
  · rw [if_neg h1, if_neg h1, GSlice.index_ok d off (by omega), Res.bind_ok]
    by_cases h2 : (byteAt d.vis off).toNat = mdpTlvEnd
    · rw [if_pos h2, if_pos h2]
    · rw [if_neg h2, if_neg h2]
      by_cases h3 : off + 2 > m.length
      · rw [if_pos h3, if_pos h3]; rfl
      · rw [if_neg h3, if_neg h3, GSlice.index_ok d (off + 1) (by omega), Res.bind_ok]
        by_cases h4 : off + 2 + (byteAt d.vis (off + 1)).toNat > m.length
        · rw [if_pos h4, if_pos h4]; rfl
        · rw [if_neg h4, if_neg h4]
          have e : off + 2 - 1 = off + 1 := by omega
          simp only [e]
          rw [GSlice.index_ok d (off + 1) (by omega), Res.bind_ok]
          rw [GSlice.slice_ok d (off + 2) (off + 2 + (byteAt d.vis (off + 1)).toNat) (by omega) (by omega), Res.bind_ok]
          have e2 : off + 2 + (byteAt d.vis (off + 1)).toNat - (off + 2) = (byteAt d.vis (off + 1)).toNat := by omega
          simp only [e2]

theorem mdpLoop_no_panic (fuel : Nat) (m : MDP) (d : GSlice) (off : Nat) (hm : m.length = d.len) (k : PanicKind) :
    mdpLoop fuel m d off ≠ .panic k := by
  induction fuel generalizing m off with
  | zero => unfold mdpLoop; exact fun h => nomatch h
  | succ fuel ih =>
    rw [mdpLoop_succ fuel m d off hm]
    split
    · exact fun h => nomatch h
    · split
      · exact ih _ _ hm
      · split
        · exact fun h => nomatch h
        · split
          · exact fun h => nomatch h
          · exact ih _ _ (by rw [mdpAssign_length]; exact hm)

theorem MDP.decode_short (old : MDP) (d : GSlice) (h : d.len < 28) :
    old.decodeFromBytes d = .ok { layer := old, trunc := true, err := true } := by
  unfold MDP.decodeFromBytes; rw [if_pos h]

/-- The receiver at the head of the TLV loop: Type, Length, PreambleData assigned, the eight TLV fields reset
    (fix lrmcp-1); Contents/Payload still those of the previous packet. -/
def mdpInit (old : MDP) (v : Bytes) : MDP :=
  { old with typ := ethernetTypeMerakiDiscoveryProtocol, length := v.length, preambleData := v.take 28,
             deviceInfo := [], networkInfo := [], type6UUID := [], type7UUID := [],
             longitude := [], latitude := [], ipAddress := [], type13Bool := [] }

theorem MDP.decode_long (old : MDP) (d : GSlice) (h : 28 ≤ d.len) :
    old.decodeFromBytes d = mdpLoop d.len (mdpInit old d.vis) d 28 := by
  unfold MDP.decodeFromBytes
  rw [if_neg (by omega), GSlice.slice_ok d 0 28 (by omega) h, Res.bind_ok]
  simp only [List.drop_zero, Nat.sub_zero, mdpInit]
  rfl

theorem MDP.decode_no_panic (old : MDP) (d : GSlice) (k : PanicKind) : old.decodeFromBytes d ≠ .panic k := by
  by_cases h : d.len < 28
  · rw [MDP.decode_short old d h]; exact fun h => nomatch h
  · rw [MDP.decode_long old d (by omega)]
    exact mdpLoop_no_panic _ _ _ _ rfl k

/-- Every error return of the loop sets the truncation flag. -/
theorem mdpLoop_err_trunc (fuel : Nat) (m : MDP) (d : GSlice) (off : Nat) (hm : m.length = d.len) (o : DecOut MDP)
    (h : mdpLoop fuel m d off = .ok o) (he : o.err = true) : o.trunc = true := by
  induction fuel generalizing m off with
  | zero => unfold mdpLoop at h; cases h; cases he
  | succ fuel ih =>
    rw [mdpLoop_succ fuel m d off hm] at h
    split at h
    · cases h; cases he
    · split at h
      · exact ih _ _ hm h
      · split at h
        · cases h; rfl
        · split at h
          · cases h; rfl
          · exact ih _ _ (by rw [mdpAssign_length]; exact hm) h

/-- The fuel never cuts the loop short. -/
theorem mdpLoop_fuel (f1 f2 : Nat) (m : MDP) (d : GSlice) (off : Nat)
    (hm : m.length = d.len) (ho : off ≤ d.len) (h1 : d.len < f1 + off) (h2 : d.len < f2 + off) :
    mdpLoop f1 m d off = mdpLoop f2 m d off := by
  induction f1 generalizing f2 m off with
  | zero => omega
  | succ f1 ih =>
    cases f2 with
    | zero => omega
    | succ f2 =>
      rw [mdpLoop_succ f1 m d off hm, mdpLoop_succ f2 m d off hm]
      split
      · rfl
      · rename_i hge
        split
        · exact ih _ _ _ hm (by omega) (by omega) (by omega)
        · split
          · rfl
          · split
            · rfl
            · exact ih _ _ _ (by rw [mdpAssign_length]; exact hm) (by omega) (by omega) (by omega)

/-- The loop does not look at the capacity / the bytes behind the input. -/
theorem mdpLoop_cap (fuel : Nat) (m : MDP) (v t1 t2 : Bytes) (off : Nat) (hm : m.length = v.length) :
    mdpLoop fuel m { vis := v, tail := t1 } off = mdpLoop fuel m { vis := v, tail := t2 } off := by
  induction fuel generalizing m off with
  | zero => unfold mdpLoop; rfl
  | succ fuel ih =>
    rw [mdpLoop_succ fuel m ⟨v, t1⟩ off hm, mdpLoop_succ fuel m ⟨v, t2⟩ off hm]
    split
    · rfl
    · split
      · exact ih _ _ hm
      · split
        · rfl
        · split
          · rfl
          · exact ih _ _ (by rw [mdpAssign_length]; exact hm)

/-- Two receivers that differ only in Contents/Payload run the loop alike: same error, same truncation
    flag, the same layer on success, and layers that again differ only in Contents/Payload on an error. -/
theorem mdpLoop_core (fuel : Nat) (m1 m2 : MDP) (d : GSlice) (off : Nat)
    (hm : m1.length = d.len) (hc : mdpCore m1 = mdpCore m2) (ho : off ≤ d.len) (hf : d.len < fuel + off) :
    ∃ o1 o2, mdpLoop fuel m1 d off = .ok o1 ∧ mdpLoop fuel m2 d off = .ok o2 ∧ o1.err = o2.err ∧ o1.trunc = o2.trunc ∧
      mdpCore o1.layer = mdpCore o2.layer ∧ (o1.err = false → o1.layer = o2.layer) := by
  have hl : m1.length = m2.length := show (mdpCore m1).length = (mdpCore m2).length from congrArg MDP.length hc
  induction fuel generalizing m1 m2 off with
  | zero => omega
  | succ fuel ih =>
    rw [mdpLoop_succ fuel m1 d off hm, mdpLoop_succ fuel m2 d off (by rw [← hl]; exact hm), ← hl]
    have fin : mdpFinish m1 d.vis = mdpFinish m2 d.vis := by
      have e : ∀ m : MDP, mdpFinish m d.vis = mdpFinish (mdpCore m) d.vis := fun _ => rfl
      rw [e m1, e m2, hc]
    split
    · exact ⟨_, _, rfl, rfl, rfl, rfl, by rw [fin], fun _ => fin⟩
    · split
      · exact ih m1 m2 m1.length hm hc (by omega) (by omega) hl
      · split
        · exact ⟨_, _, rfl, rfl, rfl, rfl, hc, fun he => by cases he⟩
        · split
          · exact ⟨_, _, rfl, rfl, rfl, rfl, hc, fun he => by cases he⟩
          · have hc' : mdpCore (mdpAssign m1 (byteAt d.vis off).toNat ((d.vis.drop (off + 2)).take (byteAt d.vis (off + 1)).toNat)) =
                mdpCore (mdpAssign m2 (byteAt d.vis off).toNat ((d.vis.drop (off + 2)).take (byteAt d.vis (off + 1)).toNat)) := by
              rw [mdpAssign_core, mdpAssign_core, hc]
            exact ih _ _ (off + 2 + (byteAt d.vis (off + 1)).toNat)
              (by rw [mdpAssign_length]; exact hm) hc' (by omega) (by omega) (by rw [mdpAssign_length, mdpAssign_length]; exact hl)

end Gp.Rmcp
