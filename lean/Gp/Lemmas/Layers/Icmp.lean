import Gp.Model.Layers.Icmp
/-
  Helper lemmas for the decoders of engine `licmp` (ICMPv4 / ICMPv6 / NDP messages).
  Core Lean only.  The first section holds the pure "view" definitions that occur in the
  statements of the property theorems; everything after that is proof machinery.
-/
namespace Gp.Icmp
open Gp

/-! ## Pure views used in statements -/

/-- big-endian uint16 at offset `i` of a byte list (only used under `i + 2 ≤ length`). -/
def rd16 (d : Bytes) (i : Nat) : Nat := be16 (d.getD i 0) (d.getD (i + 1) 0)

/-- big-endian uint32 at offset `i` (only used under `i + 4 ≤ length`). -/
def rd32 (d : Bytes) (i : Nat) : Nat :=
  be32 (d.getD i 0) (d.getD (i + 1) 0) (d.getD (i + 2) 0) (d.getD (i + 3) 0)

/-- Pure reading of an NDP option list (what `decodeOpts` computes when it has enough fuel and,
    as shown below, independently of the slice's capacity). -/
def parseOpts : Nat → Bytes → List Opt → Dec (List Opt)
  | _, [], acc => ⟨acc, false, false⟩
  | 0, _ :: _, acc => ⟨acc, true, true⟩
  | _ + 1, [_], acc => ⟨acc, true, true⟩
  | f + 1, t :: lb :: rest, acc =>
    if lb.toNat * 8 = 0 then ⟨acc, true, true⟩
    else if rest.length + 2 < lb.toNat * 8 then ⟨acc, true, true⟩
    else parseOpts f (rest.drop (lb.toNat * 8 - 2)) (acc ++ [⟨t.toNat, rest.take (lb.toNat * 8 - 2)⟩])

/-! ## Slices -/

theorem index_ok (s : CSlice) (i : Nat) (h : i < s.data.length) :
    s.index i = .ok (s.data.getD i 0) := by
  simp [CSlice.index, Gp.index, List.getD, List.getElem?_eq_getElem h]

theorem slice_ok (s : CSlice) (a b : Nat) (hab : a ≤ b) (hb : b ≤ s.data.length) :
    s.slice a b = .ok ⟨(s.data.drop a).take (b - a), s.data.drop b ++ s.extra⟩ := by
  have hcap : b ≤ s.cap := by simp [CSlice.cap]; omega
  simp only [CSlice.slice, hab, hcap, and_self, if_true, CSlice.all]
  congr 2
  · rw [List.drop_append_of_le_length (by omega), List.take_append_of_le_length]
    simp [List.length_drop]; omega
  · rw [List.drop_append_of_le_length hb]

theorem sliceFrom_ok (s : CSlice) (a : Nat) (h : a ≤ s.data.length) :
    s.sliceFrom a = .ok ⟨s.data.drop a, s.extra⟩ := by
  unfold CSlice.sliceFrom CSlice.len
  rw [slice_ok s a s.data.length h (Nat.le_refl _)]
  simp [List.take_of_length_le, List.length_drop]

theorem sliceTo_ok (s : CSlice) (b : Nat) (h : b ≤ s.data.length) :
    s.sliceTo b = .ok ⟨s.data.take b, s.data.drop b ++ s.extra⟩ := by
  unfold CSlice.sliceTo
  rw [slice_ok s 0 b (Nat.zero_le _) h]
  simp

theorem getD_drop (d : Bytes) (a i : Nat) : (d.drop a).getD i 0 = d.getD (a + i) 0 := by
  simp [List.getD, List.getElem?_drop]

theorem getD_take (d : Bytes) (n i : Nat) (h : i < n) : (d.take n).getD i 0 = d.getD i 0 := by
  simp [List.getD, h]

theorem u16_slice (s : CSlice) (a : Nat) (h : a + 2 ≤ s.data.length) :
    (s.slice a (a + 2) >>= u16) = .ok (rd16 s.data a) := by
  rw [slice_ok s a (a + 2) (by omega) h]
  have hl : ((s.data.drop a).take (a + 2 - a)).length = 2 := by
    simp [List.length_take, List.length_drop]; omega
  simp only [Res.bind_ok, u16]
  rw [index_ok _ 1 (by simp only [hl]; omega), index_ok _ 0 (by simp only [hl]; omega)]
  simp only [Res.bind_ok, rd16]
  have e : a + 2 - a = 2 := by omega
  rw [e, getD_take _ _ _ (by omega), getD_take _ _ _ (by omega), getD_drop, getD_drop]
  rfl

theorem u32_slice (s : CSlice) (a : Nat) (h : a + 4 ≤ s.data.length) :
    (s.slice a (a + 4) >>= u32) = .ok (rd32 s.data a) := by
  rw [slice_ok s a (a + 4) (by omega) h]
  have hl : ((s.data.drop a).take (a + 4 - a)).length = 4 := by
    simp [List.length_take, List.length_drop]; omega
  simp only [Res.bind_ok, u32]
  rw [index_ok _ 3 (by simp only [hl]; omega), index_ok _ 0 (by simp only [hl]; omega),
    index_ok _ 1 (by simp only [hl]; omega), index_ok _ 2 (by simp only [hl]; omega)]
  simp only [Res.bind_ok, rd32]
  have e : a + 4 - a = 4 := by omega
  rw [e, getD_take _ _ _ (by omega), getD_take _ _ _ (by omega), getD_take _ _ _ (by omega),
    getD_take _ _ _ (by omega), getD_drop, getD_drop, getD_drop, getD_drop]
  rfl

/-! ## Fixed-header decoders: closed forms on sufficiently long input -/

theorem decodeICMPv4_short (old : ICMPv4) (s : CSlice) (h : s.data.length < 8) :
    decodeICMPv4 old s = .ok ⟨old, true, true⟩ := by
  simp [decodeICMPv4, CSlice.len, h]

theorem decodeICMPv4_long (old : ICMPv4) (s : CSlice) (h : 8 ≤ s.data.length) :
    decodeICMPv4 old s = .ok ⟨
      { contents := s.data.take 8, payload := s.data.drop 8,
        typeCode := rd16 s.data 0, checksum := rd16 s.data 2, id := rd16 s.data 4,
        seq := rd16 s.data 6 }, false, false⟩ := by
  have hn : ¬ s.len < 8 := by simp [CSlice.len]; omega
  unfold decodeICMPv4
  rw [if_neg hn, index_ok s 0 (by omega), index_ok s 1 (by omega)]
  simp only [Res.bind_ok]
  rw [u16_slice s 2 (by omega), Res.bind_ok, u16_slice s 4 (by omega), Res.bind_ok,
    u16_slice s 6 (by omega), Res.bind_ok, sliceTo_ok s 8 h, Res.bind_ok,
    sliceFrom_ok s 8 h, Res.bind_ok]
  rfl

theorem decodeICMPv6_short (old : ICMPv6) (s : CSlice) (h : s.data.length < 4) :
    decodeICMPv6 old s = .ok ⟨old, true, true⟩ := by
  simp [decodeICMPv6, CSlice.len, h]

theorem decodeICMPv6_long (old : ICMPv6) (s : CSlice) (h : 4 ≤ s.data.length) :
    decodeICMPv6 old s = .ok ⟨
      { old with contents := s.data.take 4, payload := s.data.drop 4,
                 typeCode := rd16 s.data 0, checksum := rd16 s.data 2 }, false, false⟩ := by
  have hn : ¬ s.len < 4 := by simp [CSlice.len]; omega
  unfold decodeICMPv6
  rw [if_neg hn, index_ok s 0 (by omega), index_ok s 1 (by omega)]
  simp only [Res.bind_ok]
  rw [u16_slice s 2 (by omega), Res.bind_ok, sliceTo_ok s 4 h, Res.bind_ok,
    sliceFrom_ok s 4 h, Res.bind_ok]
  rfl

theorem decodeEcho_short (old : Echo) (s : CSlice) (h : s.data.length < 4) :
    decodeEcho old s = .ok ⟨old, true, true⟩ := by
  simp [decodeEcho, CSlice.len, h]

theorem decodeEcho_long (old : Echo) (s : CSlice) (h : 4 ≤ s.data.length) :
    decodeEcho old s = .ok ⟨
      { contents := s.data.take 4, payload := s.data.drop 4,
        identifier := rd16 s.data 0, seqNumber := rd16 s.data 2 }, false, false⟩ := by
  have hn : ¬ s.len < 4 := by simp [CSlice.len]; omega
  unfold decodeEcho
  rw [if_neg hn, u16_slice s 0 (by omega), Res.bind_ok, u16_slice s 2 (by omega), Res.bind_ok,
    sliceTo_ok s 4 h, Res.bind_ok, sliceFrom_ok s 4 h, Res.bind_ok]
  rfl

/-! ## The option loop -/

/-- With fuel ≥ len the loop neither panics nor runs out of fuel, and its result is the pure
    `parseOpts` of the visible bytes — whatever the capacity and the foreign bytes are. -/
theorem decodeOpts_eq (fuel : Nat) : ∀ (d e : Bytes) (acc : List Opt), d.length ≤ fuel →
    decodeOpts fuel ⟨d, e⟩ acc = .ok (parseOpts fuel d acc) := by
  induction fuel with
  | zero =>
    intro d e acc h
    have : d = [] := List.eq_nil_of_length_eq_zero (by omega)
    subst this
    simp [decodeOpts, parseOpts, CSlice.len]
  | succ f ih =>
    intro d e acc h
    match d, h with
    | [], _ => simp [decodeOpts, parseOpts, CSlice.len]
    | [x], _ => simp [decodeOpts, parseOpts, CSlice.len]
    | t :: lb :: rest, h =>
      have hlen : (⟨t :: lb :: rest, e⟩ : CSlice).len = rest.length + 2 := by simp [CSlice.len]
      unfold decodeOpts parseOpts
      rw [if_neg (by rw [hlen]; omega), if_neg (by rw [hlen]; omega),
        index_ok _ 1 (by simp)]
      simp only [Res.bind_ok]
      have hlb : (t :: lb :: rest).getD 1 0 = lb := rfl
      rw [hlb]
      by_cases h0 : lb.toNat * 8 = 0
      · simp [h0]
      · rw [if_neg h0, if_neg h0, hlen]
        by_cases h1 : rest.length + 2 < lb.toNat * 8
        · simp [h1]
        · rw [if_neg h1, if_neg h1, index_ok _ 0 (by simp)]
          simp only [Res.bind_ok]
          rw [slice_ok _ 2 (lb.toNat * 8) (by omega) (by simp; omega), Res.bind_ok,
            sliceFrom_ok _ (lb.toNat * 8) (by simp; omega), Res.bind_ok]
          have hd : (t :: lb :: rest).drop (lb.toNat * 8) = rest.drop (lb.toNat * 8 - 2) := by
            have : lb.toNat * 8 = (lb.toNat * 8 - 2) + 2 := by omega
            rw [this]; simp
          have ht : ((t :: lb :: rest).drop 2).take (lb.toNat * 8 - 2) = rest.take (lb.toNat * 8 - 2) := by
            simp
          have h0' : (t :: lb :: rest).getD 0 0 = t := rfl
          simp only [hd, ht, h0']
          apply ih
          simp [List.length_drop] at h ⊢; omega

theorem decodeOptions_eq (d e : Bytes) :
    decodeOptions ⟨d, e⟩ = .ok (parseOpts d.length d []) := by
  unfold decodeOptions
  exact decodeOpts_eq d.length d e [] (Nat.le_refl _)

/-! ## Message decoders: closed forms -/

theorem decodeRS_short (old : RS) (s : CSlice) (h : s.data.length < 4) :
    decodeRS old s = .ok ⟨old, true, true⟩ := by
  simp [decodeRS, CSlice.len, h]

theorem decodeRS_long (old : RS) (s : CSlice) (h : 4 ≤ s.data.length) :
    decodeRS old s =
      let r := parseOpts (s.data.length - 4) (s.data.drop 4) []
      .ok ⟨{ old with options := r.layer }, r.err, r.trunc⟩ := by
  have hn : ¬ s.len < 4 := by simp [CSlice.len]; omega
  unfold decodeRS
  rw [if_neg hn, sliceFrom_ok s 4 h, Res.bind_ok, decodeOptions_eq, Res.bind_ok]
  simp [List.length_drop]
  rfl

theorem decodeRA_short (old : RA) (s : CSlice) (h : s.data.length < 12) :
    decodeRA old s = .ok ⟨old, true, true⟩ := by
  simp [decodeRA, CSlice.len, h]

theorem decodeRA_long (old : RA) (s : CSlice) (h : 12 ≤ s.data.length) :
    decodeRA old s =
      let r := parseOpts (s.data.length - 12) (s.data.drop 12) []
      .ok ⟨{ contents := s.data, payload := [], hopLimit := (s.data.getD 0 0).toNat,
             flags := (s.data.getD 1 0).toNat, routerLifetime := rd16 s.data 2,
             reachableTime := rd32 s.data 4, retransTimer := rd32 s.data 8,
             options := r.layer }, r.err, r.trunc⟩ := by
  have hn : ¬ s.len < 12 := by simp [CSlice.len]; omega
  unfold decodeRA
  rw [if_neg hn, index_ok s 0 (by omega), index_ok s 1 (by omega)]
  simp only [Res.bind_ok]
  rw [u16_slice s 2 (by omega), Res.bind_ok, u32_slice s 4 (by omega), Res.bind_ok,
    u32_slice s 8 (by omega), Res.bind_ok, sliceFrom_ok s 12 h, Res.bind_ok, decodeOptions_eq,
    Res.bind_ok]
  simp [List.length_drop]
  rfl

theorem decodeNS_short (old : NS) (s : CSlice) (h : s.data.length < 20) :
    decodeNS old s = .ok ⟨old, true, true⟩ := by
  simp [decodeNS, CSlice.len, h]

theorem decodeNS_long (old : NS) (s : CSlice) (h : 20 ≤ s.data.length) :
    decodeNS old s =
      let r := parseOpts (s.data.length - 20) (s.data.drop 20) []
      .ok ⟨{ contents := s.data, payload := [], targetAddress := (s.data.drop 4).take 16,
             options := r.layer }, r.err, r.trunc⟩ := by
  have hn : ¬ s.len < 20 := by simp [CSlice.len]; omega
  unfold decodeNS
  rw [if_neg hn, slice_ok s 4 20 (by omega) h, Res.bind_ok, sliceFrom_ok s 20 h, Res.bind_ok,
    decodeOptions_eq, Res.bind_ok]
  simp [List.length_drop]
  rfl

theorem decodeNA_short (old : NA) (s : CSlice) (h : s.data.length < 20) :
    decodeNA old s = .ok ⟨old, true, true⟩ := by
  simp [decodeNA, CSlice.len, h]

theorem decodeNA_long (old : NA) (s : CSlice) (h : 20 ≤ s.data.length) :
    decodeNA old s =
      let r := parseOpts (s.data.length - 20) (s.data.drop 20) []
      .ok ⟨{ contents := s.data, payload := [], flags := (s.data.getD 0 0).toNat,
             targetAddress := (s.data.drop 4).take 16, options := r.layer }, r.err, r.trunc⟩ := by
  have hn : ¬ s.len < 20 := by simp [CSlice.len]; omega
  unfold decodeNA
  rw [if_neg hn, index_ok s 0 (by omega)]
  simp only [Res.bind_ok]
  rw [slice_ok s 4 20 (by omega) h, Res.bind_ok, sliceFrom_ok s 20 h, Res.bind_ok,
    decodeOptions_eq, Res.bind_ok]
  simp [List.length_drop]
  rfl

theorem decodeRedirect_short (old : Redirect) (s : CSlice) (h : s.data.length < 36) :
    decodeRedirect old s = .ok ⟨old, true, true⟩ := by
  simp [decodeRedirect, CSlice.len, h]

theorem decodeRedirect_long (old : Redirect) (s : CSlice) (h : 36 ≤ s.data.length) :
    decodeRedirect old s =
      let r := parseOpts (s.data.length - 36) (s.data.drop 36) []
      .ok ⟨{ contents := s.data, payload := [], targetAddress := (s.data.drop 4).take 16,
             destinationAddress := (s.data.drop 20).take 16, options := r.layer },
           r.err, r.trunc⟩ := by
  have hn : ¬ s.len < 36 := by simp [CSlice.len]; omega
  unfold decodeRedirect
  rw [if_neg hn, slice_ok s 4 20 (by omega) (by omega), Res.bind_ok,
    slice_ok s 20 36 (by omega) h, Res.bind_ok, sliceFrom_ok s 36 h, Res.bind_ok,
    decodeOptions_eq, Res.bind_ok]
  simp [List.length_drop]
  rfl

/-! ## One pure function per decoder: `decodeX old ⟨d, e⟩ = .ok (pureX old d)` -/

def pureICMPv4 (old : ICMPv4) (d : Bytes) : Dec ICMPv4 :=
  if d.length < 8 then ⟨old, true, true⟩ else
    ⟨{ contents := d.take 8, payload := d.drop 8, typeCode := rd16 d 0, checksum := rd16 d 2,
       id := rd16 d 4, seq := rd16 d 6 }, false, false⟩

def pureICMPv6 (old : ICMPv6) (d : Bytes) : Dec ICMPv6 :=
  if d.length < 4 then ⟨old, true, true⟩ else
    ⟨{ old with contents := d.take 4, payload := d.drop 4, typeCode := rd16 d 0,
                checksum := rd16 d 2 }, false, false⟩

def pureEcho (old : Echo) (d : Bytes) : Dec Echo :=
  if d.length < 4 then ⟨old, true, true⟩ else
    ⟨{ contents := d.take 4, payload := d.drop 4, identifier := rd16 d 0, seqNumber := rd16 d 2 },
     false, false⟩

def pureRS (old : RS) (d : Bytes) : Dec RS :=
  if d.length < 4 then ⟨old, true, true⟩ else
    let r := parseOpts (d.length - 4) (d.drop 4) []
    ⟨{ old with options := r.layer }, r.err, r.trunc⟩

def pureRA (old : RA) (d : Bytes) : Dec RA :=
  if d.length < 12 then ⟨old, true, true⟩ else
    let r := parseOpts (d.length - 12) (d.drop 12) []
    ⟨{ contents := d, payload := [], hopLimit := (d.getD 0 0).toNat, flags := (d.getD 1 0).toNat,
       routerLifetime := rd16 d 2, reachableTime := rd32 d 4, retransTimer := rd32 d 8,
       options := r.layer }, r.err, r.trunc⟩

def pureNS (old : NS) (d : Bytes) : Dec NS :=
  if d.length < 20 then ⟨old, true, true⟩ else
    let r := parseOpts (d.length - 20) (d.drop 20) []
    ⟨{ contents := d, payload := [], targetAddress := (d.drop 4).take 16, options := r.layer },
     r.err, r.trunc⟩

def pureNA (old : NA) (d : Bytes) : Dec NA :=
  if d.length < 20 then ⟨old, true, true⟩ else
    let r := parseOpts (d.length - 20) (d.drop 20) []
    ⟨{ contents := d, payload := [], flags := (d.getD 0 0).toNat,
       targetAddress := (d.drop 4).take 16, options := r.layer }, r.err, r.trunc⟩

def pureRedirect (old : Redirect) (d : Bytes) : Dec Redirect :=
  if d.length < 36 then ⟨old, true, true⟩ else
    let r := parseOpts (d.length - 36) (d.drop 36) []
    ⟨{ contents := d, payload := [], targetAddress := (d.drop 4).take 16,
       destinationAddress := (d.drop 20).take 16, options := r.layer }, r.err, r.trunc⟩

theorem decodeICMPv4_eq (old : ICMPv4) (d e : Bytes) :
    decodeICMPv4 old ⟨d, e⟩ = .ok (pureICMPv4 old d) := by
  unfold pureICMPv4
  by_cases h : d.length < 8
  · rw [if_pos h]; exact decodeICMPv4_short old ⟨d, e⟩ h
  · rw [if_neg h]; exact decodeICMPv4_long old ⟨d, e⟩ (by simp only; omega)

theorem decodeICMPv6_eq (old : ICMPv6) (d e : Bytes) :
    decodeICMPv6 old ⟨d, e⟩ = .ok (pureICMPv6 old d) := by
  unfold pureICMPv6
  by_cases h : d.length < 4
  · rw [if_pos h]; exact decodeICMPv6_short old ⟨d, e⟩ h
  · rw [if_neg h]; exact decodeICMPv6_long old ⟨d, e⟩ (by simp only; omega)

theorem decodeEcho_eq (old : Echo) (d e : Bytes) :
    decodeEcho old ⟨d, e⟩ = .ok (pureEcho old d) := by
  unfold pureEcho
  by_cases h : d.length < 4
  · rw [if_pos h]; exact decodeEcho_short old ⟨d, e⟩ h
  · rw [if_neg h]; exact decodeEcho_long old ⟨d, e⟩ (by simp only; omega)

theorem decodeRS_eq (old : RS) (d e : Bytes) :
    decodeRS old ⟨d, e⟩ = .ok (pureRS old d) := by
  unfold pureRS
  by_cases h : d.length < 4
  · rw [if_pos h]; exact decodeRS_short old ⟨d, e⟩ h
  · rw [if_neg h]; exact decodeRS_long old ⟨d, e⟩ (by simp only; omega)

theorem decodeRA_eq (old : RA) (d e : Bytes) :
    decodeRA old ⟨d, e⟩ = .ok (pureRA old d) := by
  unfold pureRA
  by_cases h : d.length < 12
  · rw [if_pos h]; exact decodeRA_short old ⟨d, e⟩ h
  · rw [if_neg h]; exact decodeRA_long old ⟨d, e⟩ (by simp only; omega)

theorem decodeNS_eq (old : NS) (d e : Bytes) :
    decodeNS old ⟨d, e⟩ = .ok (pureNS old d) := by
  unfold pureNS
  by_cases h : d.length < 20
  · rw [if_pos h]; exact decodeNS_short old ⟨d, e⟩ h
  · rw [if_neg h]; exact decodeNS_long old ⟨d, e⟩ (by simp only; omega)

theorem decodeNA_eq (old : NA) (d e : Bytes) :
    decodeNA old ⟨d, e⟩ = .ok (pureNA old d) := by
  unfold pureNA
  by_cases h : d.length < 20
  · rw [if_pos h]; exact decodeNA_short old ⟨d, e⟩ h
  · rw [if_neg h]; exact decodeNA_long old ⟨d, e⟩ (by simp only; omega)

theorem decodeRedirect_eq (old : Redirect) (d e : Bytes) :
    decodeRedirect old ⟨d, e⟩ = .ok (pureRedirect old d) := by
  unfold pureRedirect
  by_cases h : d.length < 36
  · rw [if_pos h]; exact decodeRedirect_short old ⟨d, e⟩ h
  · rw [if_neg h]; exact decodeRedirect_long old ⟨d, e⟩ (by simp only; omega)

/-- DecodeFromBytes of an object of any kind, as a pure function of the visible bytes. -/
def pureAny : AnyLayer → Bytes → Dec AnyLayer
  | .icmp4 l, d => let r := pureICMPv4 l d; ⟨.icmp4 r.layer, r.err, r.trunc⟩
  | .icmp6 l, d => let r := pureICMPv6 l d; ⟨.icmp6 r.layer, r.err, r.trunc⟩
  | .echo l, d => let r := pureEcho l d; ⟨.echo r.layer, r.err, r.trunc⟩
  | .rs l, d => let r := pureRS l d; ⟨.rs r.layer, r.err, r.trunc⟩
  | .ra l, d => let r := pureRA l d; ⟨.ra r.layer, r.err, r.trunc⟩
  | .ns l, d => let r := pureNS l d; ⟨.ns r.layer, r.err, r.trunc⟩
  | .na l, d => let r := pureNA l d; ⟨.na r.layer, r.err, r.trunc⟩
  | .redirect l, d => let r := pureRedirect l d; ⟨.redirect r.layer, r.err, r.trunc⟩

theorem decodeAny_eq (l : AnyLayer) (d e : Bytes) : l.decode ⟨d, e⟩ = .ok (pureAny l d) := by
  cases l <;> simp only [AnyLayer.decode, mapDec, pureAny]
  · rw [decodeICMPv4_eq]; rfl
  · rw [decodeICMPv6_eq]; rfl
  · rw [decodeEcho_eq]; rfl
  · rw [decodeRS_eq]; rfl
  · rw [decodeRA_eq]; rfl
  · rw [decodeNS_eq]; rfl
  · rw [decodeNA_eq]; rfl
  · rw [decodeRedirect_eq]; rfl

theorem pureAny_kind (l : AnyLayer) (d : Bytes) : (pureAny l d).layer.kind = l.kind := by
  cases l <;> rfl

theorem next_of_not_icmp6 (l : AnyLayer) (h : l.kind ≠ .icmp6) : l.next = .payload := by
  cases l <;> first | rfl | exact absurd rfl h

theorem nextICMPv6_kind (l : ICMPv6) (k : Kind) (h : (nextICMPv6 l).kind? = some k) :
    k ≠ .icmp6 ∧ k ≠ .icmp4 := by
  unfold nextICMPv6 at h
  simp only at h
  repeat' split at h
  all_goals simp [LT.kind?] at h
  all_goals subst h; simp

/-! ## Reuse of layer objects (C05): definitions used in the statements -/

/-- "The same result" in the sense of property C05: both calls return normally with the same
    error status and truncation flag, and on success the same layer value (all fields,
    contents, payload). -/
def SameResult {α : Type} (a b : Res (Dec α)) : Prop :=
  match a, b with
  | .ok x, .ok y => x.err = y.err ∧ x.trunc = y.trunc ∧ (x.err = false → x.layer = y.layer)
  | _, _ => False

/-- The object after a history of `DecodeFromBytes` calls (a failed call leaves it half-updated
    exactly as the decoder does; `decode` never panics, see C19). -/
def runHist (l : AnyLayer) : List CSlice → AnyLayer
  | [] => l
  | s :: rest =>
    match l.decode s with
    | .ok d => runHist d.layer rest
    | _ => runHist l rest

/-- Fields no decoder of the kind ever assigns still have their zero value. -/
def Untouched : AnyLayer → Prop
  | .icmp6 l => l.typeBytes = [] ∧ l.pseudo = .absent
  | .rs l => l.contents = [] ∧ l.payload = []
  | _ => True

theorem untouched_fresh (k : Kind) : Untouched (fresh k) := by
  cases k <;> simp [Untouched, fresh]

theorem untouched_pure (l : AnyLayer) (d : Bytes) (h : Untouched l) : Untouched (pureAny l d).layer := by
  cases l <;> simp only [pureAny, Untouched] at h ⊢
  · simp only [pureICMPv6]; split <;> exact h
  · simp only [pureRS]; split <;> exact h

theorem untouched_runHist (l : AnyLayer) (hist : List CSlice) (h : Untouched l) :
    Untouched (runHist l hist) := by
  induction hist generalizing l with
  | nil => exact h
  | cons s rest ih =>
    obtain ⟨d, e⟩ := s
    simp only [runHist, decodeAny_eq]
    exact ih _ (untouched_pure l d h)

theorem runHist_kind (l : AnyLayer) (hist : List CSlice) : (runHist l hist).kind = l.kind := by
  induction hist generalizing l with
  | nil => rfl
  | cons s rest ih =>
    obtain ⟨d, e⟩ := s
    simp only [runHist, decodeAny_eq]
    rw [ih, pureAny_kind]

/-- An object whose never-assigned fields are untouched decodes like a fresh one. -/
theorem pure_untouched_eq_fresh (l : AnyLayer) (d : Bytes) (h : Untouched l) :
    let x := pureAny l d
    let y := pureAny (fresh l.kind) d
    x.err = y.err ∧ x.trunc = y.trunc ∧ (x.err = false → x.layer = y.layer) := by
  cases l with
  | icmp4 v => simp only [pureAny, AnyLayer.kind, fresh, pureICMPv4]; split <;> simp
  | icmp6 v =>
    obtain ⟨h1, h2⟩ := h
    simp only [pureAny, AnyLayer.kind, fresh, pureICMPv6]; split <;> simp [h1, h2]
  | echo v => simp only [pureAny, AnyLayer.kind, fresh, pureEcho]; split <;> simp
  | rs v =>
    obtain ⟨h1, h2⟩ := h
    simp only [pureAny, AnyLayer.kind, fresh, pureRS]; split <;> simp [h1, h2]
  | ra v => simp only [pureAny, AnyLayer.kind, fresh, pureRA]; split <;> simp
  | ns v => simp only [pureAny, AnyLayer.kind, fresh, pureNS]; split <;> simp
  | na v => simp only [pureAny, AnyLayer.kind, fresh, pureNA]; split <;> simp
  | redirect v => simp only [pureAny, AnyLayer.kind, fresh, pureRedirect]; split <;> simp

/-! ## Chains: a non-ICMPv6 first layer never recurses -/

theorem pktRun_leaf (f : Nat) (k : Kind) (hk : k ≠ .icmp6) (data : Bytes) :
    ∃ o, pktRun (f + 1) k data = .ok o := by
  unfold pktRun
  rw [decodeAny_eq]
  simp only [Res.bind_ok]
  have hkind : (pureAny (fresh k) data).layer.kind = k := by
    rw [pureAny_kind]; cases k <;> rfl
  have hnext := next_of_not_icmp6 (pureAny (fresh k) data).layer (by rw [hkind]; exact hk)
  simp only [hnext, if_true]
  split
  · exact ⟨_, rfl⟩
  · split <;> exact ⟨_, rfl⟩


theorem dlpRun_leaf (f : Nat) (k : Kind) (hk : k ≠ .icmp6) (o : Objs) (data : Bytes)
    (acc : List PLayer) (tr : Bool) : ∃ r, dlpRun (f + 1) k o data acc tr = .ok r := by
  unfold dlpRun
  rw [decodeAny_eq]
  simp only [Res.bind_ok]
  have hkind : (pureAny (o.get k) data).layer.kind = k := by
    rw [pureAny_kind]; cases k <;> rfl
  have hnext := next_of_not_icmp6 (pureAny (o.get k) data).layer (by rw [hkind]; exact hk)
  simp only [hnext, if_true]
  split
  · exact ⟨_, rfl⟩
  · split <;> exact ⟨_, rfl⟩


end Gp.Icmp
