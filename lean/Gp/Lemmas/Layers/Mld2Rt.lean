import Gp.Lemmas.Layers.Mld2Idem
import Gp.Lemmas.Layers.MldRt
/-
  Helper lemmas for engine `lmld2`, part 4: round trip (serialize, then decode) of the query.
  Core Lean only.  Section 1 holds the *definitions* used in property statements.
-/
namespace Gp.Mld2
open Gp Gp.SBuf Gp.C18 Gp.Mld Gp.Gen.Mld2

/-! ## 1. Definitions used in property statements -/

/-- In-range field values of an MLDv2 query: 16-bit code, 16-byte IPv6 addresses, a 3-bit QRV, an
    8-bit QQIC, at most 65535 sources.  Explicit and decidable. -/
def wfQuery (l : Query) : Prop :=
  l.mrc < 65536 ∧ l.addr.length = 16 ∧ l.qrv < 8 ∧ l.qqic < 256 ∧ l.n < 65536 ∧ l.srcs.length ≤ 65535 ∧
  ∀ s ∈ l.srcs, s.length = 16

instance (l : Query) : Decidable (wfQuery l) := by unfold wfQuery; infer_instance

/-- In-range field values of a record / a report (what a decoder can produce). -/
def wfRec (r : Rec) : Prop :=
  r.typ < 256 ∧ r.auxLen < 256 ∧ r.n < 65536 ∧ r.addr.length = 16 ∧ r.srcs.length = r.n ∧
  (∀ s ∈ r.srcs, s.length = 16) ∧ r.aux.length = r.auxLen * 4

instance (r : Rec) : Decidable (wfRec r) := by unfold wfRec; infer_instance

def wfReport (l : Report) : Prop := l.nrec < 65536 ∧ l.recs.length = l.nrec ∧ ∀ r ∈ l.recs, wfRec r

instance (l : Report) : Decidable (wfReport l) := by unfold wfReport; infer_instance

/-- `≈`: the public protocol fields, the source list in order (Contents / Payload are ignored). -/
def QueryEquiv (a b : Query) : Prop :=
  a.mrc = b.mrc ∧ a.addr = b.addr ∧ a.s = b.s ∧ a.qrv = b.qrv ∧ a.qqic = b.qqic ∧ a.n = b.n ∧ a.srcs = b.srcs

instance (a b : Query) : Decidable (QueryEquiv a b) := by unfold QueryEquiv; infer_instance

/-! ## 2. The source loops -/

/-- A successful loop appends exactly `k` addresses of 16 bytes each. -/
theorem srcLoopSpec_wf (v : Bytes) (base : Nat) : ∀ (k i e : Nat) (acc : List Bytes),
    (srcLoopSpec v base k i e acc).2.1 = false →
    (srcLoopSpec v base k i e acc).1.length = acc.length + k ∧
    ∀ s ∈ (srcLoopSpec v base k i e acc).1, s ∈ acc ∨ s.length = 16 := by
  intro k
  induction k with
  | zero => intro i e acc _; exact ⟨rfl, fun s hs => Or.inl hs⟩
  | succ k ih =>
    intro i e acc hok
    unfold srcLoopSpec at hok ⊢
    by_cases h : base + i * 16 + 16 > v.length
    · rw [if_pos h] at hok; cases hok
    · rw [if_neg h] at hok ⊢
      obtain ⟨h1, h2⟩ := ih _ _ _ hok
      refine ⟨by rw [h1, List.length_append]; simp only [List.length_cons, List.length_nil]; omega, ?_⟩
      intro s hs
      rcases h2 s hs with hm | hm
      · rcases List.mem_append.mp hm with hm | hm
        · exact Or.inl hm
        · right
          rw [List.mem_singleton] at hm
          rw [hm, List.length_take, List.length_drop]; omega
      · exact Or.inr hm

/-- Decoding what the serializer wrote: behind a prefix of `base + i*16` bytes lie the addresses
    `xs` (16 bytes each) and then `p`. -/
theorem srcLoopSpec_encode (base : Nat) (p : Bytes) : ∀ (xs : List Bytes) (pre : Bytes) (i e : Nat) (acc : List Bytes),
    (∀ s ∈ xs, s.length = 16) → pre.length = base + i * 16 →
    (srcLoopSpec (pre ++ (xs.flatten ++ p)) base xs.length i e acc).1 = acc ++ xs ∧
    (srcLoopSpec (pre ++ (xs.flatten ++ p)) base xs.length i e acc).2.1 = false := by
  intro xs
  induction xs with
  | nil => intro pre i e acc _ _; exact ⟨by simp [srcLoopSpec], rfl⟩
  | cons x rest ih =>
    intro pre i e acc hall hpre
    have hx : x.length = 16 := hall x (List.mem_cons_self ..)
    have hrest : ∀ s ∈ rest, s.length = 16 := fun s hs => hall s (List.mem_cons_of_mem _ hs)
    simp only [List.length_cons]
    unfold srcLoopSpec
    have hlen : ¬ base + i * 16 + 16 > (pre ++ ((x :: rest).flatten ++ p)).length := by
      simp only [List.flatten_cons, List.length_append, hpre, hx]; omega
    rw [if_neg hlen]
    have hd : ((pre ++ ((x :: rest).flatten ++ p)).drop (base + i * 16)).take 16 = x := by
      rw [List.drop_left' hpre]
      simp only [List.flatten_cons, List.append_assoc]
      exact List.take_left' hx
    rw [hd]
    have e2 : pre ++ ((x :: rest).flatten ++ p) = (pre ++ x) ++ (rest.flatten ++ p) := by
      simp only [List.flatten_cons, List.append_assoc]
    rw [e2]
    obtain ⟨a1, a2⟩ := ih (pre ++ x) (i + 1) (base + i * 16 + 16) (acc ++ [x]) hrest
      (by rw [List.length_append, hpre, hx]; omega)
    exact ⟨by rw [a1]; simp, a2⟩

/-! ## 3. The serializer's source loop on 16-byte addresses -/

theorem srcsSpec_append : ∀ (ys zs : List Bytes) (p : Bytes),
    srcsSpec (ys ++ zs) p = (srcsSpec ys p).bind (srcsSpec zs) := by
  intro ys
  induction ys with
  | nil => intro zs p; rfl
  | cons a rest ih =>
    intro zs p
    simp only [List.cons_append, srcsSpec]
    cases to16 a with
    | none => rfl
    | some a16 => exact ih zs _

theorem srcsSpec_wf : ∀ (xs : List Bytes) (p : Bytes), (∀ s ∈ xs, s.length = 16) →
    srcsSpec xs.reverse p = some (xs.flatten ++ p) := by
  intro xs
  induction xs with
  | nil => intro p _; rfl
  | cons x rest ih =>
    intro p hall
    have hx : x.length = 16 := hall x (List.mem_cons_self ..)
    rw [List.reverse_cons, srcsSpec_append, ih p (fun s hs => hall s (List.mem_cons_of_mem _ hs))]
    simp only [Option.bind, srcsSpec, to16_of_16 x hx, List.flatten_cons, List.append_assoc]

/-! ## 4. Bits and bytes -/

theorem byteAt_append_right (A T : Bytes) (i : Nat) (h : A.length ≤ i) :
    byteAt (A ++ T) i = byteAt T (i - A.length) := by
  unfold byteAt
  simp [List.getD_eq_getElem?_getD, List.getElem?_append_right h]

theorem byte20_bits : ∀ q, q < 8 → ∀ s : Bool,
    (decide ((byte20 { Query.fresh with qrv := q, s := s }) % 256 &&& mldv2SMask = mldv2STrue) = s) ∧
    (byte20 { Query.fresh with qrv := q, s := s }) % 256 &&& mldv2QRVMask = q := by decide

theorem byte20_eq (l : Query) : byte20 l = byte20 { Query.fresh with qrv := l.qrv, s := l.s } := rfl

theorem and7_lt (x : Nat) : x &&& mldv2QRVMask < 8 := by
  have : x &&& 7 ≤ 7 := Nat.and_le_right
  show x &&& 7 < 8
  omega

/-! ## 5. Decoding an encoded query -/

theorem flatten_len16 : ∀ (xs : List Bytes), (∀ s ∈ xs, s.length = 16) → xs.flatten.length = xs.length * 16 := by
  intro xs
  induction xs with
  | nil => intro _; rfl
  | cons x rest ih =>
    intro hall
    rw [List.flatten_cons, List.length_append, ih (fun s hs => hall s (List.mem_cons_of_mem _ hs)),
      hall x (List.mem_cons_self ..), List.length_cons]; omega

theorem queryHeader_length (l : Query) (m : Bytes) (hm : m.length = 16) : (queryHeader l m).length = 24 := by
  simp [queryHeader, putBe16, hm]

theorem queryDecSpec_encode (old l : Query) (p : Bytes) (hw : wfQuery l) (hn : l.n = l.srcs.length) :
    queryDecSpec old (queryHeader l l.addr ++ (l.srcs.flatten ++ p)) =
      { layer := { l with contents := queryHeader l l.addr ++ l.srcs.flatten, payload := p },
        trunc := false, err := false } := by
  obtain ⟨hmrc, haddr, hqrv, hqqic, hnn, hcnt, hall⟩ := hw
  have hH := queryHeader_length l l.addr haddr
  -- the header in cons form
  have eH : queryHeader l l.addr =
      ([u8 (l.mrc / 256), u8 l.mrc, 0, 0] ++ l.addr) ++ [u8 (byte20 l), u8 l.qqic, u8 (l.n / 256), u8 l.n] := by
    simp [queryHeader, putBe16, List.append_assoc]
  have hA : ([u8 (l.mrc / 256), u8 l.mrc, 0, 0] ++ l.addr).length = 20 := by simp [haddr]
  generalize hv : queryHeader l l.addr ++ (l.srcs.flatten ++ p) = v
  have ev : v = ([u8 (l.mrc / 256), u8 l.mrc, 0, 0] ++ l.addr) ++
      ([u8 (byte20 l), u8 l.qqic, u8 (l.n / 256), u8 l.n] ++ (l.srcs.flatten ++ p)) := by
    rw [← hv, eH]; simp only [List.append_assoc]
  have hvlen : v.length = 24 + (l.srcs.flatten ++ p).length := by rw [← hv, List.length_append, hH]
  have f0 : u16At v 0 = l.mrc := by
    rw [ev]
    show be16 (u8 (l.mrc / 256)) (u8 l.mrc) = _
    exact be16_putBe16 _ hmrc
  have f4 : (v.drop 4).take 16 = l.addr := by
    rw [ev]
    simp only [List.append_assoc, List.cons_append, List.nil_append, List.drop_succ_cons, List.drop_zero]
    exact List.take_left' haddr
  have f20 : byteAt v 20 = u8 (byte20 l) := by
    rw [ev, byteAt_append_right _ _ 20 (by omega), hA]; rfl
  have f21 : byteAt v 21 = u8 l.qqic := by
    rw [ev, byteAt_append_right _ _ 21 (by omega), hA]; rfl
  have f22 : u16At v 22 = l.n := by
    unfold u16At
    rw [ev, byteAt_append_right _ _ 22 (by omega), byteAt_append_right _ _ (22 + 1) (by omega), hA]
    show be16 (u8 (l.n / 256)) (u8 l.n) = _
    exact be16_putBe16 _ hnn
  have hloop := srcLoopSpec_encode 24 p l.srcs (queryHeader l l.addr) 0 24 [] hall (by rw [hH])
  rw [hv, ← hn, ← f22] at hloop
  obtain ⟨l1, l2⟩ := hloop
  have hend := srcLoopSpec_end_eq v 24 (u16At v 22) 0 24 [] rfl l2
  obtain ⟨bs, bq⟩ := byte20_bits l.qrv hqrv l.s
  rw [← byte20_eq] at bs bq
  unfold queryDecSpec
  rw [if_neg (by omega)]
  simp only [l2, Bool.false_eq_true, if_false, l1, List.nil_append, hend, f0, f4, f20, f21, u8_toNat, bs, bq]
  have hq : l.qqic % 256 = l.qqic := Nat.mod_eq_of_lt hqqic
  have hflat := flatten_len16 l.srcs hall
  have hk : 24 + (0 + u16At v 22) * 16 = (queryHeader l l.addr ++ l.srcs.flatten).length := by
    rw [List.length_append, hH, hflat, f22, hn]; omega
  have e3 : v = (queryHeader l l.addr ++ l.srcs.flatten) ++ p := by rw [← hv]; simp only [List.append_assoc]
  rw [hk, hq, f22, e3, List.take_left' rfl, List.drop_left' rfl]

/-- A successfully decoded query is well-formed. -/
theorem queryDecSpec_wf (old : Query) (v : Bytes) (h : (queryDecSpec old v).err = false) :
    wfQuery (queryDecSpec old v).layer ∧ (queryDecSpec old v).layer.n = (queryDecSpec old v).layer.srcs.length := by
  unfold queryDecSpec at h ⊢
  by_cases hl : v.length < 24
  · rw [if_pos hl] at h; cases h
  · rw [if_neg hl] at h ⊢
    simp only at h ⊢
    by_cases he : (srcLoopSpec v 24 (u16At v 22) 0 24 []).2.1 = true
    · rw [if_pos he] at h; cases h
    · rw [if_neg he]
      have he' : (srcLoopSpec v 24 (u16At v 22) 0 24 []).2.1 = false := by
        cases hh : (srcLoopSpec v 24 (u16At v 22) 0 24 []).2.1
        · rfl
        · exact absurd hh he
      obtain ⟨w1, w2⟩ := srcLoopSpec_wf v 24 _ 0 24 [] he'
      have := u16At_lt v 22
      have := u16At_lt v 0
      have := (byteAt v 21).toNat_lt
      simp only [List.length_nil, Nat.zero_add] at w1
      refine ⟨⟨by omega, ?_, and7_lt _, by omega, by omega, by rw [w1]; omega, ?_⟩, w1.symm⟩
      · simp only [List.length_take, List.length_drop]; omega
      · intro s hs
        rcases w2 s hs with hm | hm
        · cases hm
        · exact hm

/-- The observable view of the query's SerializeTo is its specification (as Gp.C07.Mld2.query_serialize_refines). -/
theorem query_refines_view (l : Query) (b : SBuf) (fix csum : Bool) (h : Inv b) :
    serView (l.serializeTo b fix csum) = .ok (querySerSpec l (SBuf.contents b) fix) := by
  obtain ⟨o, ho, hl, he, hb⟩ := query_serializeTo_refines l b fix csum h
  exact serView_of_refines _ _ (querySerSpec_err_bytes l _ fix) ⟨o, ho, hl, he, fun hh => (hb hh).2⟩

end Gp.Mld2
